(* MrBound.v — property C03 for the multi-round workflow: every cluster that a task stores,
   and every cluster the run finally reports, is a singleton or meets the bound of a
   (criterion, threshold) pair the run had in force.

   Layout:  0. the pairs of a run; the bound read off stored buffer rows
            1. per tree: [fit_pairs_gb], [initial_task_bound], [merging_task_bound],
               [final_task_bound]
            2. the rounds: a content invariant of the directory, [multiround_bound]
            3. a concrete instance. *)
From Coq Require Import String.
From BB Require Import Model.Multiround Proofs.ListFacts Proofs.TreeDefs Proofs.TreeBlocks
     Proofs.TreeChain Proofs.TreeSums
     Proofs.BirchDefs Proofs.BirchInv Proofs.BirchRebuild Proofs.BirchData
     Proofs.BirchBound Proofs.BirchBoundG Proofs.ConfigFacts
     Proofs.MrTasks Proofs.MrStrings Proofs.MrDir Proofs.MrPartition.
From Coq Require Import Lia Permutation Sorted.
Open Scope Z_scope.

(* ================= 0. definitions ================= *)
(* the bound as it can be read off a stored buffer row (per-bit sums, count) *)
Definition bound_row (P : list (crit * float)) (ls : list Z) (n : Z) : Prop :=
  n <= 1 \/ exists c t, In (c, t) P /\
    (forall a b d, c <> CNever a b d) /\ flt (stat (crit_family c) ls n) t = false.

Lemma bound_ok_row P s : bound_ok P s <-> bound_row P (sls s) (sn s).
Proof. reflexivity. Qed.

Lemma bound_ok_same P a b : same_cluster a b -> bound_ok P a -> bound_ok P b.
Proof.
  intros Hsc [Hs|(c & t & Hin & Hm)].
  - left. destruct Hsc as (_ & _ & <-). exact Hs.
  - right. exists c, t. split; [exact Hin|exact (meets_same c t a b Hsc Hm)].
Qed.

(* the base predicate "is a singleton" turns the generalised development into [bound_ok] *)
Definition B1 (s : Tree.sub) : Prop := sn s <= 1.
Lemma B1_single : forall s : Tree.sub, sn s <= 1 -> B1 s.
Proof. intros s Hs. exact Hs. Qed.
Lemma gbound_B1 P s : gbound_ok B1 P s <-> bound_ok P s.
Proof. reflexivity. Qed.

(* every row of a buffer file satisfies the bound; other files are not constrained *)
Definition content_bd (P : list (crit * float)) (x : content) : Prop :=
  match x with
  | CBufs _ rows => Forall (fun r => bound_row P (fst r) (snd r)) rows
  | _ => True
  end.
Definition ws_bd (P : list (crit * float)) (ws : list (string * content)) : Prop :=
  Forall (fun e => content_bd P (snd e)) ws.
Definition dir_bd (P : list (crit * float)) (d : dir) : Prop :=
  Forall (fun e => content_bd P (snd e)) d.
(* the sub-clusters read back from a list of pairs *)
Definition pairs_bd (P : list (crit * float)) (pairs : list (content * content)) : Prop :=
  forall p w g, In p pairs -> pair_subs (fst p) (snd p) = Some (w, g) -> Forall (bound_ok P) g.

Lemma map2_subs_bd P w (rows : list (list Z * Z)) : forall (ids : list (list Z)),
  Forall (fun r => bound_row P (fst r) (snd r)) rows ->
  Forall (bound_ok P)
    (map2 (fun r l => mkSub w (snd r) (fst r) (centroid_fpv (fst r) (snd r)) l) rows ids).
Proof.
  induction rows as [|r rows IH]; intros ids HF; [destruct ids; constructor|].
  destruct ids as [|l ids]; [constructor|]. cbn [map2].
  constructor; [exact (Forall_inv HF)|apply IH, (Forall_inv_tail HF)].
Qed.

Lemma content_pairs_bd P pairs :
  Forall (fun p => content_bd P (fst p)) pairs -> pairs_bd P pairs.
Proof.
  intros HF [b i] w g Hin Hp. rewrite Forall_forall in HF. specialize (HF _ Hin).
  cbn [fst snd] in *. destruct b as [w' rows| | | |]; try discriminate Hp.
  destruct i as [|ids| | |]; try discriminate Hp.
  cbn [pair_subs] in Hp. injection Hp as <- <-. apply map2_subs_bd. exact HF.
Qed.

Lemma save_groups_bd P r label gs :
  Forall (bound_ok P) (gsubs gs) -> ws_bd P (save_groups r label gs).
Proof.
  unfold ws_bd, save_groups, gsubs.
  induction gs as [|[w l] gs IH]; cbn [flat_map map concat app snd]; intros HF; [constructor|].
  apply Forall_app in HF. destruct HF as [H1 H2].
  constructor; [|constructor; [exact I|apply IH, H2]].
  cbn [snd content_bd]. rewrite Forall_map. exact H1.
Qed.

(* ---------- the directory ---------- *)
Lemma dir_put_bd P d n x : dir_bd P d -> content_bd P x -> dir_bd P (dir_put d n x).
Proof.
  unfold dir_bd. intros Hd Hx. induction d as [|[m y] d IH]; cbn [dir_put].
  - constructor; [exact Hx|constructor].
  - pose proof (Forall_inv Hd) as H0. pose proof (Forall_inv_tail Hd) as H1.
    destruct (String.eqb m n).
    + constructor; [exact Hx|exact H1].
    + destruct (str_ltb n m).
      * constructor; [exact Hx|exact Hd].
      * constructor; [exact H0|apply IH, H1].
Qed.

Lemma dir_puts_bd P ws : forall d, dir_bd P d -> ws_bd P ws -> dir_bd P (dir_puts d ws).
Proof.
  unfold dir_puts. induction ws as [|e ws IH]; intros d Hd Hw; cbn [fold_left]; [exact Hd|].
  apply IH; [|exact (Forall_inv_tail Hw)]. apply dir_put_bd; [exact Hd|exact (Forall_inv Hw)].
Qed.

Lemma dir_remove_bd P d p : dir_bd P d -> dir_bd P (dir_remove d p).
Proof.
  unfold dir_bd, dir_remove. intros Hd. apply Forall_forall. intros e He.
  apply filter_In in He. rewrite Forall_forall in Hd. apply Hd, He.
Qed.

Lemma dir_get_bd P d n x : dir_bd P d -> dir_get d n = Some x -> content_bd P x.
Proof.
  unfold dir_bd. induction d as [|[m y] d IH]; intros Hd Hg; cbn [dir_get] in Hg; [discriminate|].
  destruct (String.eqb m n).
  - injection Hg as <-. exact (Forall_inv Hd).
  - apply IH; [exact (Forall_inv_tail Hd)|exact Hg].
Qed.

Lemma read_pairs_bd P d ps :
  dir_bd P d -> Forall (fun p => content_bd P (fst p)) (read_pairs d ps).
Proof.
  intros Hd. unfold read_pairs. induction ps as [|p ps IH]; cbn [flat_map]; [constructor|].
  destruct (dir_get d (fst p)) as [b|] eqn:Eb; [|exact IH].
  destruct (dir_get d (snd p)) as [i|]; [|exact IH].
  cbn [app]. constructor; [|exact IH]. cbn [fst]. exact (dir_get_bd P d _ b Hd Eb).
Qed.

Lemma run_tasks_bd P tasks : forall d d',
  dir_bd P d -> Forall (fun t : task_result => forall ws, t = Some ws -> ws_bd P ws) tasks ->
  run_tasks d tasks = Some d' -> dir_bd P d'.
Proof.
  intros d d' Hd HT Hrun. apply run_tasks_some in Hrun. destruct Hrun as (wss & -> & ->).
  apply dir_puts_bd; [exact Hd|]. unfold ws_bd. apply Forall_concat.
  rewrite Forall_map in HT. eapply Forall_impl; [|exact HT]. cbv beta.
  intros ws Hws. exact (Hws ws eq_refl).
Qed.

(* ================= 1. one tree ================= *)
Section Tasks.
Variable fexp : float -> float.
Variable G : Z -> fpv.
Variable nf : nat.
Hypothesis Hnf : Z.of_nat nf < 2 ^ 52.

(* ---------- the pairs a run has in force ---------- *)
(* the criterion a name resolves to under a tolerance, with the threshold it is used with *)
Definition name_pair (nm : cname) (tol thr : float) : list (crit * float) :=
  match get_merge_accept_fn fexp nm tol with Some k => [(k, thr)] | None => [] end.
Definition final_name (c : mr_cfg) : cname :=
  match m_final_crit c with Some x => x | None => m_mid_crit c end.
(* initial trees: the initial criterion (default tolerance: the constructor gets none) at
   [m_thr]; tree-merging trees and the re-tuned initial tree of full refinement: the
   midsection criterion with [m_tol] at [m_thr + m_change]; the final tree: the final
   criterion with [m_tol] at [m_thr + m_change] *)
Definition mr_pairs (c : mr_cfg) : list (crit * float) :=
  (name_pair (m_init_crit c) default_tol (m_thr c) ++
   name_pair (m_mid_crit c) (m_tol c) (m_thr c + m_change c)%float ++
   name_pair (final_name c) (m_tol c) (m_thr c + m_change c)%float)%list.

Lemma ctor_name_pair thr bf n tol cf :
  ctor fexp None thr bf (AName n) tol = Some cf ->
  In (c_crit cf, c_thr cf) (name_pair n (opt_tol tol) thr).
Proof.
  unfold ctor, name_pair. destruct (get_merge_accept_fn fexp n (opt_tol tol)); intros E; inversion E.
  cbn [c_crit c_thr]. now left.
Qed.

Lemma init_pair_in c cf :
  ctor fexp None (m_thr c) (m_bf c) (AName (m_init_crit c)) None = Some cf ->
  In (c_crit cf, c_thr cf) (mr_pairs c).
Proof.
  intros E. apply ctor_name_pair in E. unfold mr_pairs. apply in_or_app. left. exact E.
Qed.
Lemma mid_pair_in c cf :
  tree_cfg fexp c (m_mid_crit c) = Some cf -> In (c_crit cf, c_thr cf) (mr_pairs c).
Proof.
  intros E. apply ctor_name_pair in E. unfold mr_pairs.
  apply in_or_app. right. apply in_or_app. left. exact E.
Qed.
Lemma final_pair_in c cf :
  tree_cfg fexp c (final_name c) = Some cf -> In (c_crit cf, c_thr cf) (mr_pairs c).
Proof.
  intros E. apply ctor_name_pair in E. unfold mr_pairs.
  apply in_or_app. right. apply in_or_app. right. exact E.
Qed.
Lemma retune_pair_in c cf0 cf2 :
  set_merge fexp None cf0 (AName (m_mid_crit c)) (Some (m_tol c))
            (Some (m_thr c + m_change c)%float) None = Some cf2 ->
  In (c_crit cf2, c_thr cf2) (mr_pairs c).
Proof.
  unfold set_merge. intros E.
  destruct (get_merge_accept_fn fexp (m_mid_crit c) (m_tol c)) as [k|] eqn:Ek; [|discriminate].
  injection E as <-. cbn [c_crit c_thr]. unfold mr_pairs, name_pair.
  apply in_or_app. right. apply in_or_app. left. rewrite Ek. now left.
Qed.

(* ---------- inserting stored pairs, over an abstract base predicate ---------- *)
Section GB.
Variable B : Tree.sub -> Prop.
Hypothesis B_single : forall s : Tree.sub, sn s <= 1 -> B s.

Lemma groups_gb H pairs gs :
  Forall2 (fun p wg => pair_subs (fst p) (snd p) = Some wg) pairs gs ->
  (forall p w g, In p pairs -> pair_subs (fst p) (snd p) = Some (w, g) ->
                 Forall (gbound_ok B H) g) ->
  Forall (gbound_ok B H) (gsubs gs).
Proof.
  unfold gsubs. induction 1 as [|p [w g] pairs gs Hp _ IH]; intros HB; cbn [map snd concat].
  - constructor.
  - apply Forall_app. split.
    + exact (HB p w g (or_introl eq_refl) Hp).
    + apply IH. intros q w' g' Hq. apply HB. now right.
Qed.

(* [fit_pairs] keeps [gleaves] when every sub-cluster read back satisfies [gbound_ok] *)
Lemma fit_pairs_gb H pairs st :
  st_inv st -> released st = false -> init_for nf st ->
  Forall (ok_pair G nf) pairs -> nfit st + zlen (ids_of pairs) < 2 ^ 64 ->
  In (cfg_pair st) H ->
  (forall p w g, In p pairs -> pair_subs (fst p) (snd p) = Some (w, g) ->
                 Forall (gbound_ok B H) g) ->
  gleaves B H st ->
  gleaves B H (fst (fit_pairs fexp st pairs)).
Proof.
  intros Hinv Hrel Hinit Hp Hb Hin HB HL.
  destruct (pairs_groups G nf pairs Hp) as (gs & F & Gk & _ & Gi).
  rewrite (fit_pairs_groups fexp pairs gs st F).
  assert (Ht : tot_n (gsubs gs) = zlen (ids_of pairs)).
  { rewrite <- Gi. apply tot_n_cnt, (groups_ok_cnt nf), Gk. }
  rewrite <- Ht in Hb.
  exact (fit_groups_gb fexp B H nf gs st Hinv Hrel Hinit Hnf Gk Hb Hin
           (groups_gb H pairs gs F HB) HL).
Qed.
End GB.

(* the same for a fresh tree and [bound_ok], with the resulting state exposed *)
Lemma fit_pairs_bound P cf pairs :
  2 <= c_bf cf -> Forall (ok_pair G nf) pairs -> zlen (ids_of pairs) < 2 ^ 64 ->
  In (c_crit cf, c_thr cf) P -> pairs_bd P pairs ->
  exists st, fit_pairs fexp (init cf) pairs = (st, Ok) /\ st_inv st /\
    Forall (bound_ok P) (sorted_leaves st).
Proof.
  intros Hbf Hp Hb Hin HB.
  destruct (init_facts G nf cf Hbf) as (I1 & I2 & I3 & I4 & I5 & I6).
  destruct (fit_pairs_spec fexp G nf Hnf pairs (init cf) I1 I2 I3 Hp ltac:(rewrite I5; lia) I4)
    as (st & F & K1 & _).
  exists st. refine (conj F (conj K1 _)).
  assert (HL : gleaves B1 P (fst (fit_pairs fexp (init cf) pairs))).
  { apply (fit_pairs_gb B1 P pairs (init cf) I1 I2 I3 Hp ltac:(rewrite I5; lia) Hin).
    - exact HB.
    - exact I. }
  rewrite F in HL. cbn [fst] in HL. exact (reported_gb B1 P st K1 HL).
Qed.

Lemma prepare_groups_bd P l :
  Forall (bound_ok P) l -> Forall (bound_ok P) (gsubs (prepare_groups l)).
Proof. intros HF. apply (Forall_perm _ l); [symmetry; apply prepare_groups_perm|exact HF]. Qed.

(* ---------- a tree-merging task ---------- *)
Lemma merging_task_bound c r label pairs (all_rows : list fpv) ws :
  2 <= m_bf c -> Forall (ok_pair G nf) pairs -> zlen (ids_of pairs) < 2 ^ 64 ->
  pairs_bd (mr_pairs c) pairs ->
  merging_task fexp c r label pairs all_rows = Some ws ->
  exists gs, ws = save_groups r label gs /\ Forall (bound_ok (mr_pairs c)) (gsubs gs).
Proof.
  intros Hbf Hp Hb HB. unfold merging_task.
  destruct (tree_cfg fexp c (m_mid_crit c)) as [cf|] eqn:Ecf; [|discriminate].
  pose proof (mid_pair_in c cf Ecf) as Hin.
  unfold tree_cfg in Ecf. apply ctor_name_bf in Ecf.
  destruct (fit_pairs_bound (mr_pairs c) cf pairs ltac:(lia) Hp Hb Hin HB) as (st & F & K1 & KB).
  rewrite F.
  destruct (delete_internal_views G nf st K1) as (_ & _ & _ & _ & _ & V & _).
  destruct (m_split_after c).
  - unfold refine_groups_seq. rewrite V.
    destruct (sorted_leaves st) as [|big rest] eqn:Ebfs; [discriminate|].
    destruct (explode all_rows 0 (sort_asc_z (sids big))) as [singles|] eqn:Ex; [|discriminate].
    intros Hws. injection Hws as <-. eexists. split; [reflexivity|].
    pose proof (fold_group_add_perm (fun _ => W8) singles (prepare_groups rest)) as PF.
    cbv beta in PF.
    apply (Forall_perm _ (rest ++ singles)).
    { symmetry. etransitivity; [exact PF|]. apply Permutation_app_tail, prepare_groups_perm. }
    apply Forall_app. split; [exact (Forall_inv_tail KB)|].
    eapply Forall_impl; [|exact (explode_sn all_rows 0 _ singles Ex)]. cbv beta.
    intros s Hs. apply bound_ok_single, Hs.
  - intros Hws. injection Hws as <-. eexists. split; [reflexivity|].
    unfold leaf_groups. rewrite V. apply prepare_groups_bd, KB.
Qed.

(* ---------- the final task ---------- *)
Lemma final_task_bound c pairs ws :
  2 <= m_bf c -> Forall (ok_pair G nf) pairs -> zlen (ids_of pairs) < 2 ^ 64 ->
  pairs_bd (mr_pairs c) pairs ->
  final_task fexp c pairs = Some ws ->
  exists st, st_inv st /\
    ws = ((if m_save_centroids c
           then [("cluster-centroids-packed.pkl"%string, CCentroids (centroids st))] else []) ++
          [("clusters.pkl"%string, CClusters (clusters st))])%list /\
    Forall (bound_ok (mr_pairs c)) (sorted_leaves st).
Proof.
  intros Hbf Hp Hb HB. unfold final_task. fold (final_name c).
  destruct (tree_cfg fexp c (final_name c)) as [cf|] eqn:Ecf; [|discriminate].
  pose proof (final_pair_in c cf Ecf) as Hin.
  unfold tree_cfg in Ecf. apply ctor_name_bf in Ecf.
  destruct (fit_pairs_bound (mr_pairs c) cf pairs ltac:(lia) Hp Hb Hin HB) as (st & F & K1 & KB).
  rewrite F. destruct (is_init st); [|discriminate].
  destruct (delete_internal_views G nf st K1) as (V1 & _ & _ & _ & _ & V & _).
  intros Hws. exists (fst (delete_internal st)). refine (conj V1 (conj _ _)).
  - destruct (m_save_centroids c); injection Hws as <-; reflexivity.
  - rewrite V. exact KB.
Qed.

(* ---------- an initial task (all three refinement modes) ---------- *)
Lemma initial_task_bound c label (rows : list fpv) start ws :
  2 <= m_bf c -> Forall (fun fp : fpv => List.length fp = nf) rows -> zlen rows < 2 ^ 64 ->
  initial_task fexp c label rows start = Some ws ->
  exists gs, ws = save_groups 1 label gs /\ Forall (bound_ok (mr_pairs c)) (gsubs gs).
Proof.
  intros Hbf Hrows Hb. unfold initial_task.
  destruct (ctor fexp None _ _ _ None) as [cf|] eqn:Ecf; [|discriminate].
  pose proof (init_pair_in c cf Ecf) as Hin.
  apply ctor_name_bf in Ecf.
  destruct (init_facts G nf cf ltac:(lia)) as (I1 & I2 & I3 & I4 & I5 & I6).
  destruct rows as [|fp0 rows']; [cbn; discriminate|].
  rewrite do_fit_init.
  assert (Hfp0 : List.length fp0 = nf) by exact (Forall_inv Hrows).
  remember (fp0 :: rows') as rows eqn:Erows.
  rewrite Hfp0.
  pose proof (initialize_inv (init cf) nf I1 eq_refl Hnf) as J1.
  pose proof (initialize_gb B1 (mr_pairs c) (init cf) nf) as HL0.
  remember (initialize (init cf) nf) as st0 eqn:Est0.
  assert (E1 : nfit st0 = 0) by (subst st0; reflexivity).
  assert (E2 : nfeat st0 = nf) by (subst st0; reflexivity).
  assert (E3 : root st0 <> None) by (subst st0; discriminate).
  assert (E5 : cfg st0 = cf) by (subst st0; reflexivity).
  assert (E6 : released st0 = false) by (subst st0; reflexivity).
  assert (Hro : Forall (row_ok (nfeat st0)) (map Some rows)).
  { rewrite E2. apply Forall_forall. intros x Hx. apply in_map_iff in Hx.
    destruct Hx as (fp & <- & Hfp). cbn [row_ok]. rewrite Forall_forall in Hrows. auto. }
  assert (Hbz : nfit st0 + zlen (map Some rows) < 2 ^ 64).
  { rewrite E1. unfold zlen in *. rewrite map_length. lia. }
  assert (Hbf0 : 2 <= c_bf cf) by lia.
  pose proof (fit_rows_gb fexp B1 B1_single (mr_pairs c) cf (map Some rows) st0
                (zseq start (List.length rows)) J1 E3 Hbf0 Hro Hbz Hin HL0) as HLs.
  destruct (fit_rows fexp cf st0 (map Some rows) (zseq start (List.length rows)))
    as [st out] eqn:Hf.
  destruct (fit_rows_inv fexp cf (map Some rows) st0 _ J1 E3 Hbf0 Hro Hbz st out Hf)
    as (K1 & K2 & K3 & K4 & K5 & _ & k & L1 & _ & L3 & _).
  cbn [fst] in HLs.
  destruct out; [|discriminate].
  assert (Hinit : init_for nf st) by (right; split; [exact K5|congruence]).
  assert (Hcfg : cfg st = cf) by congruence.
  assert (Hnfit : nfit st <= zlen rows).
  { rewrite L3, E1. rewrite map_length in L1. unfold zlen. lia. }
  destruct (delete_internal_views G nf st K1) as (V1 & V2 & V3 & V4 & V5 & V6 & _ & V8 & _).
  remember (fst (delete_internal st)) as st1 eqn:Est1.
  assert (HL1 : gleaves B1 (mr_pairs c) st1).
  { unfold gleaves in HLs |- *. rewrite V5. exact HLs. }
  assert (HX : Forall (fun fp : fpv => List.length fp = nfeat st1) rows).
  { rewrite V4, K3, E2. exact Hrows. }
  destruct (m_refine c).
  - (* RFull *)
    destruct (refine_groups st1 rows start 1) as [gs|] eqn:Er; [|discriminate].
    destruct (refine_groups_gb B1 B1_single (mr_pairs c) st1 rows start 1 gs V1 HX HL1 Er)
      as (Q1 & Q2 & Q3).
    rewrite V4, K3, E2 in Q1.
    destruct (set_merge fexp None _ _ _ _ None) as [cf2|] eqn:Es; [|discriminate].
    pose proof (retune_pair_in c _ cf2 Es) as Hin2.
    apply set_merge_frame in Es. destruct Es as (_ & Es & _). specialize (Es eq_refl).
    cbn [reset_st cfg] in Es.
    match goal with |- context [fit_groups fexp ?S gs] => remember S as st3 eqn:Est3 end.
    cbn [reset_st root sax nfit released nfeat] in Est3.
    assert (T1 : st_inv st3).
    { subst st3. unfold st_inv. cbn [cfg root nfit released]. split; [|auto].
      rewrite Es, V2, Hcfg. lia. }
    assert (T2 : released st3 = false) by (subst st3; reflexivity).
    assert (T3 : init_for nf st3) by (subst st3; left; reflexivity).
    assert (T4 : nfit st3 = 0) by (subst st3; reflexivity).
    assert (T7 : cfg_pair st3 = (c_crit cf2, c_thr cf2)) by (subst st3; reflexivity).
    assert (T8 : gleaves B1 (mr_pairs c) st3) by (subst st3; exact I).
    assert (Hb3 : nfit st3 + tot_n (gsubs gs) < 2 ^ 64) by (rewrite T4, Q2, V3; lia).
    destruct (fit_groups_inv fexp nf gs st3 T1 T2 T3 Hnf Q1 Hb3)
      as (st4 & F4 & M1 & _).
    pose proof (fit_groups_gb fexp B1 (mr_pairs c) nf gs st3 T1 T2 T3 Hnf Q1 Hb3
                  ltac:(rewrite T7; exact Hin2) Q3 T8) as HL4.
    rewrite F4 in HL4 |- *. cbn [fst] in HL4. cbv beta iota. intros E. injection E as <-.
    eexists. split; [reflexivity|]. unfold leaf_groups.
    destruct (delete_internal_views G nf st4 M1) as (_ & _ & _ & _ & _ & W6 & _).
    rewrite W6. apply prepare_groups_bd. exact (reported_gb B1 (mr_pairs c) st4 M1 HL4).
  - (* RSplit *)
    destruct (refine_groups st1 rows start 1) as [gs|] eqn:Er; [|discriminate].
    destruct (refine_groups_gb B1 B1_single (mr_pairs c) st1 rows start 1 gs V1 HX HL1 Er)
      as (_ & _ & Q3).
    intros E. injection E as <-. eexists. split; [reflexivity|exact Q3].
  - (* RNone *)
    intros E. injection E as <-. eexists. split; [reflexivity|]. unfold leaf_groups.
    apply prepare_groups_bd. exact (reported_gb B1 (mr_pairs c) st1 V1 HL1).
Qed.

End Tasks.

(* ================= 2. the rounds ================= *)
Section Rounds.
Variable fexp : float -> float.
Variable nf : nat.
Variable files : list (list fpv).
Variable c : mr_cfg.
Hypothesis Hnf : Z.of_nat nf < 2 ^ 52.
Hypothesis Hrows : Forall (Forall (fun fp : fpv => List.length fp = nf)) files.
Let all_rows : list fpv := List.concat files.
Let N : Z := zlen all_rows.
Hypothesis HN : N < 2 ^ 64.
Hypothesis Hbf : 2 <= m_bf c.
Hypothesis Hbin : (1 <= m_bin c)%nat.
Let G : Z -> fpv := Gmap nf files.
Let P : list (crit * float) := mr_pairs fexp c.

(* ---------- the initial round ---------- *)
Lemma initial_round_bd d :
  run_tasks [] (initial_tasks fexp c files) = Some d -> dir_bd P d.
Proof.
  intros Hrun. apply (run_tasks_bd P _ [] d (Forall_nil _)) in Hrun; [exact Hrun|].
  unfold initial_tasks. rewrite Forall_map. apply Forall_forall.
  intros [[label rows] start] Hin ws Hws.
  assert (Hr : In rows files).
  { apply in_combine_l, in_combine_r in Hin. exact Hin. }
  destruct (initial_task_bound fexp G nf Hnf c label rows start ws Hbf) as (gs & -> & HB).
  - rewrite Forall_forall in Hrows. apply Hrows, Hr.
  - pose proof (length_concat_le rows files Hr) as Hle. unfold N, all_rows, zlen in *. lia.
  - exact Hws.
  - apply save_groups_bd. exact HB.
Qed.

(* ---------- a tree-merging round ---------- *)
(* what every batch of round R reads: good, aligned pairs with fewer than 2^64 members *)
Lemma batch_inputs_ok d R :
  2 <= R -> rinv nf files d (R - 1) ->
  forall b, In b (batches d (R - 1) (m_bin c)) ->
    Forall (ok_pair G nf) (read_pairs d (snd b)) /\
    zlen (ids_of (read_pairs d (snd b))) < 2 ^ 64.
Proof.
  intros HR Hi.
  destruct (prev_pairs_matched nf files d (R - 1) ltac:(lia) Hi)
    as (E0 & ks & (A1 & A2 & A3 & A4) & PK & _ & RP).
  destruct (batches_spec d (R - 1) (m_bin c)) as (B1' & B2).
  remember (batched (m_bin c) (prev_pairs d (R - 1))) as bs eqn:Ebs.
  remember (batches d (R - 1) (m_bin c)) as inputs eqn:Ei.
  pose (ids := fun b : string * list (string * string) => ids_of (read_pairs d (snd b))).
  assert (PJ : Permutation (concat (map (fun b => read_pairs d (snd b)) inputs)) (map epair E0)).
  { rewrite <- (map_map snd (read_pairs d)), B2, map_map.
    etransitivity; [apply concat_map_perm; intros x _; apply read_pairs_perm, sort_batch_perm|].
    rewrite <- read_pairs_concat, Ebs, batched_concat by exact Hbin. rewrite RP.
    apply Permutation_map, PK. }
  assert (IDS : Permutation (concat (map ids inputs)) (zseq 0 (Z.to_nat N))).
  { unfold ids. rewrite <- (map_map (fun b => read_pairs d (snd b)) ids_of), <- ids_of_concat.
    etransitivity; [apply ids_of_perm; exact PJ|exact A4]. }
  intros b Hin. split.
  - apply Forall_forall. intros p Hp.
    assert (Hp' : In p (map epair E0)).
    { apply (Permutation_in _ PJ). eapply in_concat_of; [|exact Hp].
      apply (in_map (fun b => read_pairs d (snd b))). exact Hin. }
    apply in_map_iff in Hp'. destruct Hp' as (e & <- & He). rewrite Forall_forall in A3. auto.
  - assert (Hle : (List.length (ids b) <= List.length (concat (map ids inputs)))%nat).
    { apply length_concat_le. apply in_map. exact Hin. }
    rewrite (Permutation_length IDS), zseq_length in Hle. fold (ids b).
    unfold zlen. pose proof (N_nat files) as NN. unfold N, all_rows, zlen in *. lia.
Qed.

Lemma merging_round_bd d R d' :
  2 <= R -> rinv nf files d (R - 1) -> dir_bd P d ->
  run_tasks d (merging_tasks fexp c d R all_rows) = Some d' -> dir_bd P d'.
Proof.
  intros HR Hi Hd Hrun. apply (run_tasks_bd P _ d d' Hd) in Hrun; [exact Hrun|].
  unfold merging_tasks. rewrite Forall_map. apply Forall_forall. intros b Hin ws Hws.
  destruct (batch_inputs_ok d R HR Hi b Hin) as (Hok & Hlen).
  destruct (merging_task_bound fexp G nf Hnf c R (fst b) _ all_rows ws Hbf Hok Hlen) as (gs & -> & HB).
  - apply content_pairs_bd, read_pairs_bd, Hd.
  - exact Hws.
  - apply save_groups_bd. exact HB.
Qed.

(* the state of the directory after round R: the partition invariant, and every stored
   buffer row satisfies the bound *)
Definition binv (d : dir) (R : Z) : Prop := rinv nf files d R /\ dir_bd P d.

Lemma mid_rounds_binv k : forall R d d',
  2 <= R -> binv d (R - 1) ->
  mid_rounds fexp c all_rows k R d = Some d' -> binv d' (R - 1 + Z.of_nat k).
Proof.
  induction k as [|k IH]; intros R d d' HR (Hi & Hd) Hm; cbn [mid_rounds] in Hm.
  - injection Hm as <-. rewrite Z.add_0_r. split; assumption.
  - destruct (run_tasks d (merging_tasks fexp c d R all_rows)) as [d1|] eqn:E1; [|discriminate].
    pose proof (merging_round fexp nf files c Hnf Hrows HN Hbf Hbin d R d1 HR Hi E1) as Hi1.
    pose proof (merging_round_bd d R d1 HR Hi Hd E1) as Hd1.
    replace (R - 1 + Z.of_nat (S k)) with (R + 1 - 1 + Z.of_nat k) by lia.
    apply (IH (R + 1) d1 d'); [lia| |exact Hm].
    replace (R + 1 - 1) with R by lia. split; assumption.
Qed.

Lemma run_multiround_open_b d :
  run_multiround fexp c files [] = Some d ->
  exists d3 ws,
    binv d3 (1 + Z.of_nat (m_rounds c)) /\
    final_task fexp c (read_pairs d3 (prev_pairs d3 (1 + Z.of_nat (m_rounds c)))) = Some ws /\
    d = (if m_cleanup c then dir_remove (dir_puts d3 ws) is_round_file else dir_puts d3 ws).
Proof.
  unfold run_multiround. change (dir_remove [] is_purged) with (@nil (string * content)).
  destruct (run_tasks [] (initial_tasks fexp c files)) as [d2|] eqn:E2; [|discriminate].
  fold all_rows.
  destruct (mid_rounds fexp c all_rows (m_rounds c) 2 d2) as [d3|] eqn:E3; [|discriminate].
  replace (2 + Z.of_nat (m_rounds c) - 1) with (1 + Z.of_nat (m_rounds c)) by lia.
  destruct (final_task fexp c _) as [ws|] eqn:E4; [|discriminate].
  intros E. injection E as <-. exists d3, ws. refine (conj _ (conj E4 eq_refl)).
  pose proof (initial_round fexp nf files c Hnf Hrows HN Hbf Hbin d2 E2) as I1.
  pose proof (initial_round_bd d2 E2) as D1.
  pose proof (mid_rounds_binv (m_rounds c) 2 d2 d3 ltac:(lia) (conj I1 D1) E3) as I3.
  now replace (2 - 1 + Z.of_nat (m_rounds c)) with (1 + Z.of_nat (m_rounds c)) in I3 by lia.
Qed.

(* ---------- end to end ---------- *)
(* C03 for the workflow: the result file holds the clusters of a tree all of whose leaf
   clusters are singletons or meet a pair of the run (and the centroid file its centroids);
   moreover the same holds for every sub-cluster stored in a round file that is still in the
   directory, whichever (buffer, index) files it is read back from *)
Theorem multiround_bound d :
  run_multiround fexp c files [] = Some d ->
  exists st, st_inv st /\
    dir_get d "clusters.pkl" = Some (CClusters (clusters st)) /\
    (m_save_centroids c = true ->
     dir_get d "cluster-centroids-packed.pkl" = Some (CCentroids (centroids st))) /\
    Forall (bound_ok (mr_pairs fexp c)) (sorted_leaves st) /\
    (forall nb ni b i w g, dir_get d nb = Some b -> dir_get d ni = Some i ->
       pair_subs b i = Some (w, g) -> Forall (bound_ok (mr_pairs fexp c)) g).
Proof.
  intros Hrun. fold P.
  destruct (run_multiround_open_b d Hrun) as (d3 & ws & (I3 & D3) & E4 & ->).
  destruct (handed_over_ok nf files d3 (1 + Z.of_nat (m_rounds c)) ltac:(lia) I3) as (Hok & Hids).
  assert (Hlen : zlen (ids_of (read_pairs d3 (prev_pairs d3 (1 + Z.of_nat (m_rounds c))))) < 2 ^ 64).
  { unfold zlen. rewrite (Permutation_length Hids), zseq_length.
    pose proof (N_nat files). unfold N, all_rows, zlen in *. lia. }
  destruct (final_task_bound fexp G nf Hnf c _ ws Hbf Hok Hlen) as (st & K1 & Ews & KB).
  { apply content_pairs_bd, read_pairs_bd, D3. }
  { exact E4. }
  destruct (final_dir d3 (m_save_centroids c) (centroids st) (clusters st)) as (F1 & F2 & _).
  cbv zeta in F1, F2. rewrite <- Ews in F1, F2.
  exists st. refine (conj K1 (conj _ (conj _ (conj KB _)))).
  - destruct (m_cleanup c); [rewrite dir_get_remove, clusters_not_round|]; exact F1.
  - intros Hs. destruct (m_cleanup c); [rewrite dir_get_remove, centroids_not_round|]; exact (F2 Hs).
  - assert (D4 : dir_bd P (dir_puts d3 ws)).
    { apply dir_puts_bd; [exact D3|]. rewrite Ews. unfold ws_bd.
      destruct (m_save_centroids c); repeat constructor. }
    assert (D5 : dir_bd P (if m_cleanup c then dir_remove (dir_puts d3 ws) is_round_file
                           else dir_puts d3 ws)).
    { destruct (m_cleanup c); [apply dir_remove_bd|]; exact D4. }
    intros nb ni b i w g Hb Hi' Hp.
    apply (content_pairs_bd P [(b, i)]) with (p := (b, i)) (w := w); [|now left|exact Hp].
    constructor; [|constructor]. cbn [fst]. exact (dir_get_bd P _ nb b D5 Hb).
Qed.

End Rounds.

(* ================= the statement as requested ================= *)
Theorem multiround_bound_stmt fexp nf (c : mr_cfg) (files : list (list fpv)) d :
  Z.of_nat nf < 2 ^ 52 ->
  Forall (Forall (fun fp : fpv => List.length fp = nf)) files ->
  zlen (List.concat files) < 2 ^ 64 ->
  2 <= m_bf c -> (1 <= m_bin c)%nat ->
  run_multiround fexp c files [] = Some d ->
  exists st,
    dir_get d "clusters.pkl" = Some (CClusters (clusters st)) /\
    Forall (bound_ok (mr_pairs fexp c)) (sorted_leaves st).
Proof.
  intros Hnf Hrows HN Hbf Hbin Hrun.
  destruct (multiround_bound fexp nf files c Hnf Hrows HN Hbf Hbin d Hrun)
    as (st & _ & A & _ & B & _).
  exists st. split; assumption.
Qed.

(* every reported member list of two or more members belongs to a leaf cluster meeting a pair *)
Corollary multiround_bound_clusters fexp nf (c : mr_cfg) (files : list (list fpv)) d :
  Z.of_nat nf < 2 ^ 52 ->
  Forall (Forall (fun fp : fpv => List.length fp = nf)) files ->
  zlen (List.concat files) < 2 ^ 64 ->
  2 <= m_bf c -> (1 <= m_bin c)%nat ->
  run_multiround fexp c files [] = Some d ->
  exists cl, dir_get d "clusters.pkl" = Some (CClusters cl) /\
    forall l, In l cl -> (List.length l <= 1)%nat \/
      exists s k t, sids s = l /\ sn s = zlen l /\ In (k, t) (mr_pairs fexp c) /\ meets k t s.
Proof.
  intros Hnf Hrows HN Hbf Hbin Hrun.
  destruct (multiround_bound fexp nf files c Hnf Hrows HN Hbf Hbin d Hrun)
    as (st & K1 & A & _ & B & _).
  exists (clusters st). split; [exact A|]. intros l Hl. unfold clusters in Hl.
  apply in_map_iff in Hl. destruct Hl as (s & <- & Hs).
  assert (Hc : cnt_ok s).
  { pose proof (sorted_leaves_good st K1) as Hgood. rewrite Forall_forall in Hgood.
    exact (proj2 (proj2 (Hgood s Hs))). }
  rewrite Forall_forall in B. destruct (B s Hs) as [H1|(k & t & Hin & Hm)].
  - left. unfold cnt_ok, zlen in Hc. lia.
  - right. exists s, k, t. auto.
Qed.

(* ================= 3. a concrete instance ================= *)
Module Demo.
Definition files : list (list fpv) :=
  [[[true;true;false;false;true;false;false;false];
    [true;true;false;false;false;false;false;false];
    [false;false;true;true;false;false;true;false]];
   [[false;false;true;true;false;false;false;false];
    [true;true;false;false;true;false;false;true]]].
(* full refinement, one tree-merging round with splitting, intermediate files kept *)
Definition c : mr_cfg := mkMr 3 0.5 0 0.0625 NDiameter NDiameter None 1 2 RFull true true false.
Definition fid (x : float) : float := x.

Example pairs_of_the_run :
  mr_pairs fid c = [(CDiameter, 0.5%float); (CDiameter, (0.5 + 0)%float);
                    (CDiameter, (0.5 + 0)%float)].
Proof. reflexivity. Qed.

(* the hypotheses of [multiround_bound_stmt] hold, the run succeeds, and the theorem yields a
   tree whose clusters are the non-trivial reported ones, each meeting a pair of the run *)
Example multiround_bound_nonvacuous :
  exists d st,
    run_multiround fid c files [] = Some d /\
    dir_get d "clusters.pkl" = Some (CClusters (clusters st)) /\
    clusters st = [[0; 1; 4]; [2; 3]] /\
    Forall (bound_ok (mr_pairs fid c)) (sorted_leaves st).
Proof.
  assert (Hrun : exists d, run_multiround fid c files [] = Some d /\
                   dir_get d "clusters.pkl" = Some (CClusters [[0; 1; 4]; [2; 3]])).
  { eexists. split; vm_compute; reflexivity. }
  destruct Hrun as (d & Hrun & Hcl).
  destruct (multiround_bound_stmt fid 8 c files d) as (st & A & B).
  - vm_compute. reflexivity.
  - repeat constructor.
  - vm_compute. reflexivity.
  - vm_compute. discriminate.
  - vm_compute. lia.
  - exact Hrun.
  - exists d, st. refine (conj Hrun (conj A (conj _ B))). rewrite A in Hcl. now injection Hcl.
Qed.

(* ... so the bound is not satisfied by the singleton escape *)
Example multiround_bound_meets :
  exists d cl, run_multiround fid c files [] = Some d /\
    dir_get d "clusters.pkl" = Some (CClusters cl) /\ cl = [[0; 1; 4]; [2; 3]] /\
    forall l, In l cl -> exists s k t, sids s = l /\ sn s = zlen l /\
      In (k, t) (mr_pairs fid c) /\ meets k t s.
Proof.
  assert (Hrun : exists d, run_multiround fid c files [] = Some d /\
                   dir_get d "clusters.pkl" = Some (CClusters [[0; 1; 4]; [2; 3]])).
  { eexists. split; vm_compute; reflexivity. }
  destruct Hrun as (d & Hrun & Hcl).
  destruct (multiround_bound_clusters fid 8 c files d) as (cl & A & B).
  - vm_compute. reflexivity.
  - repeat constructor.
  - vm_compute. reflexivity.
  - vm_compute. discriminate.
  - vm_compute. lia.
  - exact Hrun.
  - rewrite A in Hcl. injection Hcl as ->.
    exists d, [[0; 1; 4]; [2; 3]]. refine (conj Hrun (conj A (conj eq_refl _))).
    intros l Hl. destruct (B l Hl) as [H1|H2]; [|exact H2].
    exfalso. destruct Hl as [<-|[<-|[]]]; cbn [List.length] in H1; lia.
Qed.
End Demo.
