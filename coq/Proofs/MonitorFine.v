(* MonitorFine.v — C20 with a finer reader: exists() and open() are separate steps.  The peak
   file, once it exists, never disappears (os.replace is atomic) and is never empty, so the
   finer reader is as safe as the coarse one, and every result it can obtain the coarse reader
   obtains under some schedule. *)
From BB Require Import Model.Base Model.Monitor Proofs.MonitorFacts.
From Coq Require Import Lia.
Open Scope Z_scope.

Section Inv.
Variable P : float -> Prop.

(* the writer never removes the peak file *)
Lemma peak_stays : forall o ws s, inv P (o :: ws) s -> peak s <> None -> peak (wstep s o) <> None.
Proof.
  intros o ws s [Hp Hpos] Hex.
  inversion Hpos as [W s' HW | v W s' Hv HW | v W s' Hv HW Hb | v W s' Hv HW Ht
                    | v W s' Hv HW Ht | v W s' Hv HW Ht]; subst; simpl; try exact Hex.
  - destruct (wlist_head_inv P _ _ HW) as (v & W & _ & _ & -> & _). exact Hex.
  - rewrite Hb. exact Hex.
  - rewrite Ht. discriminate.
Qed.

(* what the finer reader may hold, relative to the file system *)
Definition rok3 (s : fs) (r : rstate3) : Prop :=
  match r with
  | R3Start => True
  | R3Exists => peak s <> None
  | R3Opened (CVal v) => P v
  | R3Opened CEmpty => False
  | R3Done RError => False
  | R3Done (RSome v) => P v
  | R3Done RNone => True
  end.

Lemma rok3_rstep : forall s r, peak_ok P s -> rok3 s r -> rok3 s (rstep3 s r).
Proof.
  intros s r Hp Hr. unfold peak_ok in Hp. destruct r as [| |c|x]; simpl in *.
  - destruct (peak s) as [c|] eqn:E; simpl; [rewrite E; discriminate|exact I].
  - destruct (peak s) as [[|v]|]; simpl; [contradiction|exact Hp|congruence].
  - destruct c; simpl in *; auto.
  - exact Hr.
Qed.

Lemma rok3_wstep : forall o ws s r, inv P (o :: ws) s -> rok3 s r -> rok3 (wstep s o) r.
Proof.
  intros o ws s r Hi Hr. destruct r as [| |c|x]; simpl in *; try exact Hr.
  eapply peak_stays; eauto.
Qed.

Lemma exec3_safe : forall sched ws s r, inv P ws s -> rok3 s r ->
  peak_ok P (fst (exec3 sched ws s r)) /\
  rok3 (fst (exec3 sched ws s r)) (snd (exec3 sched ws s r)).
Proof.
  induction sched as [|b tl IH]; intros ws s r Hi Hr; simpl.
  - split; [eapply inv_peak; eauto | exact Hr].
  - destruct b.
    + destruct ws as [|o ws'].
      * apply IH; auto.
      * apply IH; [now apply inv_step|]. eapply rok3_wstep; eauto.
    + apply IH; auto. apply rok3_rstep; auto. eapply inv_peak; eauto.
Qed.

(* ---------- refinement: the finer reader obtains nothing new ---------- *)
(* the coarse reader has not done its (atomic) exists+open yet while the finer one is between
   the two *)
Definition rrel (s : fs) (r3 : rstate3) (r : rstate) : Prop :=
  match r3 with
  | R3Start => r = RStart
  | R3Exists => r = RStart /\ peak s <> None
  | R3Opened c => r = ROpened c
  | R3Done x => r = RDone x
  end.

Lemma exec3_refines : forall sched ws s r3 r, inv P ws s -> rrel s r3 r ->
  exists sched',
    fst (exec sched' ws s r) = fst (exec3 sched ws s r3) /\
    rrel (fst (exec3 sched ws s r3)) (snd (exec3 sched ws s r3)) (snd (exec sched' ws s r)) /\
    (length sched' <= length sched)%nat.
Proof.
  induction sched as [|b tl IH]; intros ws s r3 r Hi Hr.
  - exists []. simpl. auto.
  - destruct b.
    + (* the writer moves: both runs take the step *)
      destruct ws as [|o ws'].
      * destruct (IH [] s r3 r Hi Hr) as (sc & A & B & C).
        exists (true :: sc). simpl. repeat split; auto; lia.
      * assert (Hr' : rrel (wstep s o) r3 r).
        { destruct r3; simpl in *; auto. destruct Hr as [-> Hex]. split; [reflexivity|].
          eapply peak_stays; eauto. }
        destruct (IH ws' (wstep s o) r3 r (inv_step P _ _ _ Hi) Hr') as (sc & A & B & C).
        exists (true :: sc). simpl. repeat split; auto; lia.
    + (* the finer reader moves *)
      destruct r3 as [| |c|x]; simpl in Hr.
      * subst r. destruct (peak s) as [c|] eqn:E.
        -- (* exists() is True: the coarse reader waits *)
           assert (Hr' : rrel s R3Exists RStart) by (split; [reflexivity|congruence]).
           destruct (IH ws s R3Exists RStart Hi Hr') as (sc & A & B & C).
           exists sc. simpl. rewrite E. repeat split; auto; lia.
        -- assert (Hr' : rrel s (R3Done RNone) (RDone RNone)) by reflexivity.
           destruct (IH ws s _ _ Hi Hr') as (sc & A & B & C).
           exists (false :: sc). simpl. rewrite E. repeat split; auto; lia.
      * destruct Hr as [-> Hex]. destruct (peak s) as [c|] eqn:E; [|congruence].
        assert (Hr' : rrel s (R3Opened c) (ROpened c)) by reflexivity.
        destruct (IH ws s _ _ Hi Hr') as (sc & A & B & C).
        exists (false :: sc). simpl. rewrite E. repeat split; auto; lia.
      * subst r.
        assert (Hr' : rrel s (rstep3 s (R3Opened c)) (rstep s (ROpened c)))
          by (destruct c; reflexivity).
        destruct (IH ws s _ _ Hi Hr') as (sc & A & B & C).
        exists (false :: sc). simpl. simpl in A, B. repeat split; auto; lia.
      * subst r.
        assert (Hr' : rrel s (R3Done x) (RDone x)) by reflexivity.
        destruct (IH ws s _ _ Hi Hr') as (sc & A & B & C).
        exists (false :: sc). simpl. repeat split; auto; lia.
Qed.
End Inv.

(* for EVERY schedule and sample sequence: no error, and a value that was a running maximum *)
Theorem reader3_safe : forall samples mx0 sched,
  let '(s, r) := exec3 sched (writer samples mx0) fs0 R3Start in
  match r with
  | R3Done RError => False
  | R3Done (RSome v) => In v (running_maxes samples mx0)
  | _ => True
  end.
Proof.
  intros samples mx0 sched.
  pose proof (exec3_safe (fun v => In v (running_maxes samples mx0)) sched
                (writer samples mx0) fs0 R3Start (inv_writer0 samples mx0) I) as [_ Hr].
  destruct (exec3 sched (writer samples mx0) fs0 R3Start) as [s r]. simpl in Hr.
  destruct r as [| |c|[|v|]]; simpl in Hr; auto.
Qed.

(* the two ways the split could have hurt, separately: open() never fails after exists()
   (no FileNotFoundError), and the opened file is never empty *)
Theorem reader3_exists_then_opens : forall samples mx0 sched,
  let '(s, r) := exec3 sched (writer samples mx0) fs0 R3Start in
  (r = R3Exists -> peak s <> None) /\ r <> R3Opened CEmpty.
Proof.
  intros samples mx0 sched.
  pose proof (exec3_safe (fun v => In v (running_maxes samples mx0)) sched
                (writer samples mx0) fs0 R3Start (inv_writer0 samples mx0) I) as [_ Hr].
  destruct (exec3 sched (writer samples mx0) fs0 R3Start) as [s r]. simpl in Hr.
  split; intros ->; exact Hr.
Qed.

(* every run of the finer reader is matched by a run of the coarse reader, on a schedule that
   is not longer, ending in the same file system *)
Theorem exec3_refines_exec : forall samples mx0 sched,
  exists sched', (length sched' <= length sched)%nat /\
    fst (exec sched' (writer samples mx0) fs0 RStart) =
    fst (exec3 sched (writer samples mx0) fs0 R3Start) /\
    match snd (exec3 sched (writer samples mx0) fs0 R3Start) with
    | R3Done x => snd (exec sched' (writer samples mx0) fs0 RStart) = RDone x
    | R3Opened c => snd (exec sched' (writer samples mx0) fs0 RStart) = ROpened c
    | _ => snd (exec sched' (writer samples mx0) fs0 RStart) = RStart
    end.
Proof.
  intros samples mx0 sched.
  destruct (exec3_refines (fun v => In v (running_maxes samples mx0)) sched
              (writer samples mx0) fs0 R3Start RStart (inv_writer0 samples mx0) eq_refl)
    as (sc & A & B & C).
  exists sc. split; [exact C|]. split; [exact A|].
  destruct (snd (exec3 sched (writer samples mx0) fs0 R3Start)); simpl in B; tauto.
Qed.

(* every result the finer reader can return, the coarse reader can return *)
Corollary reader3_results_reachable : forall samples mx0 sched x,
  snd (exec3 sched (writer samples mx0) fs0 R3Start) = R3Done x ->
  exists sched', snd (exec sched' (writer samples mx0) fs0 RStart) = RDone x.
Proof.
  intros samples mx0 sched x E.
  destruct (exec3_refines_exec samples mx0 sched) as (sc & _ & _ & B).
  rewrite E in B. exists sc. exact B.
Qed.

(* and conversely the coarse reader is a special case of the finer one (the two reader steps
   scheduled back to back) *)
Lemma exec_refines_exec3 : forall sched ws s r,
  exists sched',
    exec3 sched' ws s (match r with RStart => R3Start | ROpened c => R3Opened c
                               | RDone x => R3Done x end) =
    (fst (exec sched ws s r),
     match snd (exec sched ws s r) with RStart => R3Start | ROpened c => R3Opened c
                                   | RDone x => R3Done x end).
Proof.
  induction sched as [|b tl IH]; intros ws s r.
  - exists []. reflexivity.
  - destruct b.
    + destruct ws as [|o ws'].
      * destruct (IH [] s r) as (sc & E). exists (true :: sc). exact E.
      * destruct (IH ws' (wstep s o) r) as (sc & E). exists (true :: sc). exact E.
    + destruct (IH ws s (rstep s r)) as (sc & E).
      destruct r as [|c|x]; simpl.
      * destruct (peak s) as [c|] eqn:Ep.
        -- exists (false :: false :: sc). cbn [exec3 rstep3]. rewrite Ep. cbn [rstep3]. rewrite Ep.
           simpl in E. rewrite Ep in E. exact E.
        -- exists (false :: sc). simpl. rewrite Ep. simpl in E. rewrite Ep in E. exact E.
      * exists (false :: sc). simpl. simpl in E. destruct c; exact E.
      * exists (false :: sc). exact E.
Qed.
