(* GenTieCliVd.v — the decision tree of cli._validate_output_dir, regenerated from the source on
   every run (Gen/GCliVd.v), is the model's [validate_out]; and the two clustering commands are
   among its call sites. *)
From BB Require Import Model.Cli Gen.GCliVd.
From Coq Require Import Bool String List.
Import ListNotations.

Lemma tie_validate_out : forall e d n o,
  GCliVd.validate_out e d n o = Cli.validate_out e d n o.
Proof. intros [] [] [] []; reflexivity. Qed.

Lemma tie_validate_sites :
  In "_run"%string GCliVd.validate_call_sites /\ In "_multiround"%string GCliVd.validate_call_sites.
Proof. split; vm_compute; tauto. Qed.
