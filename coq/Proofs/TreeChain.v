(* TreeChain.v — the leaf chain kept by the estimator lists exactly the leaves of the
   tree: insertion (with splits) preserves [chain_ok], and reading the tree through the
   chain yields the leaf sub-clusters up to permutation. *)
From BB Require Import Model.Tree Proofs.ListFacts Proofs.TreeDefs Proofs.TreeRel Proofs.TreeShape.
From Coq Require Import Lia Permutation.
Open Scope Z_scope.

(* ---------- small list helpers ---------- *)
Lemma NoDup_app_inv {A} (a b : list A) :
  NoDup (a ++ b) -> NoDup a /\ NoDup b /\ (forall x, In x a -> ~ In x b).
Proof.
  induction a as [|x a IH]; cbn [app]; intros H.
  - refine (conj (NoDup_nil _) (conj H _)). intros x [].
  - inversion H as [|? ? Hx Hn]; subst. destruct (IH Hn) as (A1 & A2 & A3).
    refine (conj _ (conj A2 _)).
    + constructor; [|exact A1]. intros Hin. apply Hx. apply in_or_app. now left.
    + intros y [<-|Hy].
      * intros Hb. apply Hx. apply in_or_app. now right.
      * now apply A3.
Qed.

Lemma flat_map_ext_In {A B} (f g : A -> list B) l :
  (forall a, In a l -> f a = g a) -> flat_map f l = flat_map g l.
Proof.
  induction l as [|x l IH]; intros H; cbn [flat_map]; [reflexivity|].
  rewrite (H x (or_introl eq_refl)). f_equal. apply IH. intros a Ha. apply H. now right.
Qed.

Lemma Forall_perm {A} (P : A -> Prop) l l' : Permutation l l' -> Forall P l -> Forall P l'.
Proof.
  intros HP HF. rewrite Forall_forall in *. intros x Hx. apply HF.
  eapply Permutation_in; [apply Permutation_sym; exact HP|exact Hx].
Qed.

Section Chain.
Variable fexp : float -> float.
Variable nf : nat.
Variable c : crit.
Variable thr : float.
Hypothesis Hsim : forall a b : fpv,
    length a = nf -> length b = nf -> (sim a a <? sim a b)%float = false.

Notation shape := (shape nf).
Notation shape_e := (shape_e nf).
Notation sub_len := (sub_len nf).

Definition chain_ok (nd : node) (ax : aux) : Prop :=
  NoDup (chain ax) /\ Permutation (chain ax) (lids nd) /\
  Forall (fun i => (i < nid ax)%nat) (chain ax).

Definition ax_ok (ax : aux) : Prop :=
  NoDup (chain ax) /\ Forall (fun i => (i < nid ax)%nat) (chain ax).

(* ---------- 1. chain_ins_before ---------- *)
Lemma chain_ins_before_perm x newid l :
  In x l -> Permutation (chain_ins_before x newid l) (newid :: l).
Proof.
  induction l as [|y tl IH]; cbn [chain_ins_before]; intros H; [destruct H|].
  destruct (Nat.eqb y x) eqn:E.
  - apply Permutation_refl.
  - destruct H as [H|H]; [subst; rewrite Nat.eqb_refl in E; discriminate|].
    etransitivity; [apply perm_skip, IH, H|apply perm_swap].
Qed.

Lemma chain_ins_before_notin x newid l : ~ In x l -> chain_ins_before x newid l = l.
Proof.
  induction l as [|y tl IH]; cbn [chain_ins_before]; intros H; [reflexivity|].
  destruct (Nat.eqb y x) eqn:E.
  - apply Nat.eqb_eq in E. exfalso. apply H. now left.
  - f_equal. apply IH. intros Hin. apply H. now right.
Qed.

(* ---------- 2. find_leaf ---------- *)
Lemma find_leaf_none_mut :
  (forall nd id, ~ In id (lids nd) -> find_leaf nd id = None) /\
  (forall es id, ~ In id (lids_e es) -> find_leaf_ents es id = None).
Proof.
  apply node_mutind.
  - intros id bf es cache i H. cbn [find_leaf lids] in *.
    destruct (Nat.eqb i id) eqn:E; [|reflexivity].
    apply Nat.eqb_eq in E. exfalso. apply H. left. congruence.
  - intros bf es IH cache i H. cbn [find_leaf lids] in *. now apply IH.
  - reflexivity.
  - intros s ch IHch tl IHtl i H. cbn [lids_e find_leaf_ents] in *.
    rewrite IHch; [apply IHtl|]; intros Hin; apply H; apply in_or_app; [now right|now left].
Qed.

Lemma find_leaf_none nd id : ~ In id (lids nd) -> find_leaf nd id = None.
Proof. apply (proj1 find_leaf_none_mut). Qed.
Lemma find_leaf_ents_none es id : ~ In id (lids_e es) -> find_leaf_ents es id = None.
Proof. apply (proj2 find_leaf_none_mut). Qed.

Lemma find_leaf_some_mut :
  (forall nd id, NoDup (lids nd) -> In id (lids nd) -> exists es, find_leaf nd id = Some es) /\
  (forall es id, NoDup (lids_e es) -> In id (lids_e es) ->
                 exists r, find_leaf_ents es id = Some r).
Proof.
  apply node_mutind.
  - intros id bf es cache i _ H. cbn [find_leaf lids] in *.
    destruct H as [H|[]]. subst i. rewrite Nat.eqb_refl. now exists es.
  - intros bf es IH cache i Hn H. cbn [find_leaf lids] in *. now apply IH.
  - intros i _ [].
  - intros s ch IHch tl IHtl i Hn H. cbn [lids_e find_leaf_ents] in *.
    destruct (NoDup_app_inv _ _ Hn) as (N1 & N2 & _).
    destruct (find_leaf ch i) as [r|] eqn:E; [now exists r|].
    apply in_app_or in H. destruct H as [H|H].
    + destruct (IHch i N1 H) as (r & Hr). congruence.
    + now apply IHtl.
Qed.

Lemma find_leaf_some nd id :
  NoDup (lids nd) -> In id (lids nd) -> exists es, find_leaf nd id = Some es.
Proof. apply (proj1 find_leaf_some_mut). Qed.
Lemma find_leaf_ents_some es id :
  NoDup (lids_e es) -> In id (lids_e es) -> exists r, find_leaf_ents es id = Some r.
Proof. apply (proj2 find_leaf_some_mut). Qed.

(* ---------- 3. reading the tree through its own id list ---------- *)
Definition look (nd : node) (id : nat) : list sub :=
  match find_leaf nd id with Some es => es | None => [] end.
Definition look_e (es : ents) (id : nat) : list sub :=
  match find_leaf_ents es id with Some r => r | None => [] end.

Lemma leaf_subs_lids_mut :
  (forall nd, NoDup (lids nd) -> flat_map (look nd) (lids nd) = lsubs nd) /\
  (forall es, NoDup (lids_e es) -> flat_map (look_e es) (lids_e es) = lsubs_e es).
Proof.
  apply node_mutind.
  - intros id bf es cache _. unfold look. cbn [lids lsubs flat_map find_leaf].
    rewrite Nat.eqb_refl. apply app_nil_r.
  - intros bf es IH cache Hn. cbn [lids lsubs] in *. rewrite <- (IH Hn).
    apply flat_map_ext_In. intros a _. reflexivity.
  - reflexivity.
  - intros s ch IHch tl IHtl Hn. cbn [lids_e lsubs_e] in *.
    destruct (NoDup_app_inv _ _ Hn) as (N1 & N2 & N3).
    rewrite flat_map_app. f_equal.
    + rewrite <- (IHch N1). apply flat_map_ext_In. intros a Ha.
      unfold look_e, look. cbn [find_leaf_ents].
      destruct (find_leaf_some ch a N1 Ha) as (r & Hr). now rewrite Hr.
    + rewrite <- (IHtl N2). apply flat_map_ext_In. intros a Ha.
      unfold look_e. cbn [find_leaf_ents].
      rewrite (find_leaf_none ch a); [reflexivity|].
      intros Hin. exact (N3 a Hin Ha).
Qed.

Lemma leaf_subs_lids nd : NoDup (lids nd) -> leaf_subs nd (lids nd) = lsubs nd.
Proof. intros H. exact (proj1 leaf_subs_lids_mut nd H). Qed.

(* ---------- 4. reading through the chain ---------- *)
Lemma leaf_subs_perm nd ax :
  chain_ok nd ax -> Permutation (leaf_subs nd (chain ax)) (lsubs nd).
Proof.
  intros (Hn & Hp & _).
  assert (Hn' : NoDup (lids nd)) by (eapply Permutation_NoDup; eassumption).
  rewrite <- (leaf_subs_lids nd Hn'). unfold leaf_subs. now apply flat_map_perm.
Qed.

(* ---------- 5. preservation ---------- *)
(* what one step does to the global chain and to the ids of the subtree it works on *)
Definition chain_post (ax ax' : aux) (old new : list nat) : Prop :=
  exists news,
    ax_ok ax' /\ Permutation (chain ax') (news ++ chain ax) /\
    Permutation new (news ++ old) /\ (nid ax <= nid ax')%nat /\
    Forall (fun i => (nid ax <= i)%nat) news.

Lemma chain_post_same ax old new :
  ax_ok ax -> Permutation new old -> chain_post ax ax old new.
Proof.
  intros Hok Hp. exists []. cbn [app].
  refine (conj Hok (conj (Permutation_refl _) (conj Hp (conj (le_n _) (Forall_nil _))))).
Qed.

Lemma chain_post_ok ax ax' old new : chain_post ax ax' old new -> ax_ok ax'.
Proof. now intros (news & H & _). Qed.

Lemma chain_post_trans ax ax1 ax2 l0 l1 l2 :
  chain_post ax ax1 l0 l1 -> chain_post ax1 ax2 l1 l2 -> chain_post ax ax2 l0 l2.
Proof.
  intros (n1 & _ & P1 & Q1 & L1 & F1) (n2 & K2 & P2 & Q2 & L2 & F2).
  exists (n2 ++ n1).
  refine (conj K2 (conj _ (conj _ (conj _ _)))).
  - rewrite <- app_assoc. etransitivity; [exact P2|]. now apply Permutation_app_head.
  - rewrite <- app_assoc. etransitivity; [exact Q2|]. now apply Permutation_app_head.
  - lia.
  - apply Forall_app. split; [|exact F1].
    eapply Forall_impl; [|exact F2]. cbn beta. intros a Ha. lia.
Qed.

Lemma chain_post_perm ax ax' old new old' new' :
  Permutation old old' -> Permutation new new' ->
  chain_post ax ax' old new -> chain_post ax ax' old' new'.
Proof.
  intros Po Pn (news & K & P & Q & L & F). exists news.
  refine (conj K (conj P (conj _ (conj L F)))).
  etransitivity; [apply Permutation_sym; exact Pn|].
  etransitivity; [exact Q|]. now apply Permutation_app_head.
Qed.

Lemma chain_post_app_l ax ax' old new a :
  chain_post ax ax' old new -> chain_post ax ax' (a ++ old) (a ++ new).
Proof.
  intros (news & K & P & Q & L & F). exists news.
  refine (conj K (conj P (conj _ (conj L F)))).
  etransitivity; [apply Permutation_app_head; exact Q|]. apply Permutation_app_swap_mid.
Qed.

Lemma chain_post_app_r ax ax' old new b :
  chain_post ax ax' old new -> chain_post ax ax' (old ++ b) (new ++ b).
Proof.
  intros (news & K & P & Q & L & F). exists news.
  refine (conj K (conj P (conj _ (conj L F)))).
  rewrite app_assoc. apply Permutation_app_tail. exact Q.
Qed.

Lemma chain_post_incl ax ax' old new :
  chain_post ax ax' old new -> incl old (chain ax) -> incl new (chain ax').
Proof.
  intros (news & _ & P & Q & _) Hi x Hx.
  eapply Permutation_in; [apply Permutation_sym; exact P|].
  apply (Permutation_in _ Q) in Hx. apply in_app_or in Hx. apply in_or_app.
  destruct Hx as [Hx|Hx]; [now left|right; now apply Hi].
Qed.

(* local copy of TreeShape.shape_e_elist (that one is generalised over unused section
   variables fexp/thr; this keeps [split_chain] free of them) *)
Lemma shape_e_elist' es :
  shape_e es <-> Forall (fun p => sub_len (fst p) /\ shape (snd p)) (elist es).
Proof.
  induction es as [|e ch tl IH].
  - cbn [elist]. split; [constructor|exact (fun _ => I)].
  - cbn [elist]. change (shape_e (ECons e ch tl)) with (sub_len e /\ shape ch /\ shape_e tl).
    rewrite IH. split.
    + intros (A & B & C). constructor; [cbn [fst snd]; auto|exact C].
    + intros H. inversion H as [|? ? [A B] C]; subst. cbn [fst snd] in *. auto.
Qed.

(* the split step *)
Lemma split_chain_post nd ax t1 n1 t2 n2 ax' :
  shape nd -> (2 <= n_entries nd)%nat -> ax_ok ax -> incl (lids nd) (chain ax) ->
  split_node nf nd ax = ((t1, n1), (t2, n2), ax') ->
  chain_post ax ax' (lids nd) (lids n1 ++ lids n2).
Proof.
  destruct nd as [id bf es cache | bf es cache]; cbn [n_entries split_node].
  - intros _ _ Hok Hincl Hs.
    destruct (most_dissimilar nf cache) as [[[f1 f2] s1] s2].
    rewrite part_leaf_spec in Hs. cbn [app] in Hs.
    inversion Hs; subst t1 n1 t2 n2 ax'; clear Hs.
    cbn [lids app].
    assert (Hid : In id (chain ax)) by (apply Hincl; cbn [lids]; now left).
    destruct Hok as [Hnd Hlt].
    assert (Hfresh : ~ In (nid ax) (chain ax)).
    { rewrite Forall_forall in Hlt. intros Hin. apply Hlt in Hin. lia. }
    pose proof (chain_ins_before_perm id (nid ax) (chain ax) Hid) as P.
    exists [nid ax]. unfold ax_ok. cbn [nid chain app].
    refine (conj (conj _ _) (conj P (conj (Permutation_refl _) (conj _ _)))).
    + eapply Permutation_NoDup; [apply Permutation_sym; exact P|]. now constructor.
    + eapply Forall_perm; [apply Permutation_sym; exact P|].
      constructor; [lia|]. eapply Forall_impl; [|exact Hlt]. cbn beta. intros a Ha. lia.
    + lia.
    + constructor; [lia|constructor].
  - intros Hsh Hn Hok Hincl Hs.
    change (1 <= bf /\ cache = map scent (ents_subs es) /\ es <> ENil /\ shape_e es) in Hsh.
    destruct Hsh as (Hbf & Hc & Hne & Hes).
    rewrite shape_e_elist' in Hes.
    assert (HY : Forall (fun y => length y = nf) cache).
    { subst cache. rewrite ents_subs_elist, map_map, Forall_map.
      eapply Forall_impl; [|exact Hes]. now intros p [[_ H] _]. }
    assert (HL : (2 <= length cache)%nat).
    { subst cache. rewrite map_length, ents_subs_elist, map_length, <- ents_len_elist. exact Hn. }
    pose proof (most_dissimilar_mask nf Hsim cache HY HL) as HM.
    destruct (most_dissimilar nf cache) as [[[f1 f2] s1] s2].
    cbv zeta in HM. destruct HM as (Lm & _ & _).
    assert (Lm' : length (split_mask 0 f1 s1 s2) = length (elist es)).
    { rewrite Lm. subst cache. now rewrite map_length, ents_subs_elist, map_length. }
    rewrite part_inner_spec in Hs. cbn [app elist] in Hs.
    inversion Hs; subst t1 n1 t2 n2 ax'; clear Hs.
    apply chain_post_same; [exact Hok|]. cbn [lids].
    rewrite !lids_e_elist, !elist_eof, <- flat_map_app.
    apply flat_map_perm, sel_perm. exact Lm'.
Qed.

Lemma incl_app_l {A} (a b l : list A) : incl (a ++ b) l -> incl a l.
Proof. intros H x Hx. apply H, in_or_app. now left. Qed.
Lemma incl_app_r {A} (a b l : list A) : incl (a ++ b) l -> incl b l.
Proof. intros H x Hx. apply H, in_or_app. now right. Qed.

Lemma Ins_chain_mut :
  (forall nd s ax nd' sp ax',
      Ins fexp nf c thr nd s ax nd' sp ax' ->
      shape nd -> sub_len s -> ax_ok ax -> incl (lids nd) (chain ax) ->
      chain_post ax ax' (lids nd) (lids nd')) /\
  (forall es k s cache ax es' cache' ax',
      InsE fexp nf c thr es k s cache ax es' cache' ax' ->
      shape_e es -> cache = map scent (ents_subs es) -> sub_len s ->
      ax_ok ax -> incl (lids_e es) (chain ax) ->
      chain_post ax ax' (lids_e es) (lids_e es')).
Proof.
  apply Ins_mutind.
  - (* leaf empty *)
    intros id bf cache s ax _ _ Hok _. cbn [lids]. now apply chain_post_same.
  - (* leaf merge *)
    intros id bf es cache s ax m _ _ _ _ Hok _. cbn [lids]. now apply chain_post_same.
  - (* leaf append *)
    intros id bf es cache s ax _ _ _ _ Hok _. cbn [lids]. now apply chain_post_same.
  - (* inner *)
    intros bf es cache s ax es' cache' ax' _ IH (Hbf & Hc & Hne & Hes) Hs Hok Hincl.
    cbn [lids] in *. now apply IH.
  - (* nil *)
    intros k s cache ax _ _ _ Hok _. now apply chain_post_same.
  - (* skip *)
    intros e ch tl k s cache ax tl' ctl' ax' _ IH (He & Hch & Htl) Hc Hs Hok Hincl.
    cbn [ents_subs map] in Hc. subst cache. cbn [List.tl] in IH.
    cbn [lids_e] in *. apply chain_post_app_l.
    apply IH; auto. eapply incl_app_r; exact Hincl.
  - (* split *)
    intros e ch tl s cache ax ch' ax1 t1 n1 t2 n2 ax2 HI IH Hsp (He & Hch & Htl) Hc Hs Hok Hincl.
    cbn [lids_e] in *.
    pose proof (IH Hch Hs Hok (incl_app_l _ _ _ Hincl)) as C1.
    pose proof (Ins_shape fexp nf c thr Hsim _ _ _ _ _ _ HI Hch Hs) as Hch'.
    pose proof (shape_entries_pos fexp nf c thr _ _ _ _ _ _ HI eq_refl Hch') as H2.
    pose proof (split_chain_post _ _ _ _ _ _ _ Hch' H2 (chain_post_ok _ _ _ _ C1)
                  (chain_post_incl _ _ _ _ C1 (incl_app_l _ _ _ Hincl)) Hsp) as C2.
    pose proof (chain_post_trans _ _ _ _ _ _ C1 C2) as C.
    apply (chain_post_app_r _ _ _ _ (lids_e tl)) in C.
    eapply chain_post_perm; [apply Permutation_refl| |exact C].
    rewrite lids_e_app1, <- app_assoc. apply Permutation_app_head, Permutation_app_comm.
  - (* nosplit *)
    intros e ch tl s cache ax ch' ax1 HI IH (He & Hch & Htl) Hc Hs Hok Hincl.
    cbn [lids_e] in *. apply chain_post_app_r.
    apply IH; auto. eapply incl_app_l; exact Hincl.
Qed.

Lemma split_chain nd ax t1 n1 t2 n2 ax' :
  shape nd -> (2 <= n_entries nd)%nat -> ax_ok ax -> incl (lids nd) (chain ax) ->
  split_node nf nd ax = ((t1, n1), (t2, n2), ax') ->
  exists news,
    ax_ok ax' /\ Permutation (chain ax') (news ++ chain ax) /\
    Permutation (lids n1 ++ lids n2) (news ++ lids nd) /\ (nid ax <= nid ax')%nat /\
    Forall (fun i => (nid ax <= i)%nat) news.
Proof. exact (split_chain_post nd ax t1 n1 t2 n2 ax'). Qed.

Lemma Ins_chain nd s ax nd' sp ax' :
  Ins fexp nf c thr nd s ax nd' sp ax' ->
  shape nd -> sub_len s -> ax_ok ax -> incl (lids nd) (chain ax) ->
  exists news,
    ax_ok ax' /\ Permutation (chain ax') (news ++ chain ax) /\
    Permutation (lids nd') (news ++ lids nd) /\ (nid ax <= nid ax')%nat /\
    Forall (fun i => (nid ax <= i)%nat) news.
Proof. exact (proj1 Ins_chain_mut nd s ax nd' sp ax'). Qed.

Lemma InsE_chain es k s cache ax es' cache' ax' :
  InsE fexp nf c thr es k s cache ax es' cache' ax' ->
  shape_e es -> cache = map scent (ents_subs es) -> sub_len s ->
  ax_ok ax -> incl (lids_e es) (chain ax) ->
  exists news,
    ax_ok ax' /\ Permutation (chain ax') (news ++ chain ax) /\
    Permutation (lids_e es') (news ++ lids_e es) /\ (nid ax <= nid ax')%nat /\
    Forall (fun i => (nid ax <= i)%nat) news.
Proof. exact (proj2 Ins_chain_mut es k s cache ax es' cache' ax'). Qed.

(* ---------- 6. the root step ---------- *)
Lemma chain_post_chain_ok ax ax' nd nd' :
  chain_post ax ax' (lids nd) (lids nd') -> Permutation (chain ax) (lids nd) ->
  chain_ok nd' ax'.
Proof.
  intros (news & (N & F) & P & Q & _) Hp. refine (conj N (conj _ F)).
  etransitivity; [exact P|]. etransitivity; [|apply Permutation_sym; exact Q].
  now apply Permutation_app_head.
Qed.

Lemma insert_root_chain bf root s ax root' ax' :
  1 <= bf -> shape root -> sub_len s -> chain_ok root ax ->
  insert_root fexp nf c thr bf root s ax = (root', ax') -> chain_ok root' ax'.
Proof.
  intros Hbf Hr Hs (Hnd & Hperm & Hlt). unfold insert_root.
  destruct (insert fexp nf c thr root s ax) as [[r sp] ax1] eqn:Hi.
  apply insert_Ins in Hi.
  assert (Hok : ax_ok ax) by (split; assumption).
  assert (Hincl : incl (lids root) (chain ax)).
  { intros x Hx. eapply Permutation_in; [apply Permutation_sym; exact Hperm|exact Hx]. }
  pose proof (proj1 Ins_chain_mut _ _ _ _ _ _ Hi Hr Hs Hok Hincl) as C1.
  pose proof (Ins_shape fexp nf c thr Hsim _ _ _ _ _ _ Hi Hr Hs) as Hr'.
  destruct sp.
  - pose proof (shape_entries_pos fexp nf c thr _ _ _ _ _ _ Hi eq_refl Hr') as H2.
    destruct (split_node nf r ax1) as [[[t1 n1] [t2 n2]] ax2] eqn:Hsp.
    pose proof (split_chain_post _ _ _ _ _ _ _ Hr' H2 (chain_post_ok _ _ _ _ C1)
                  (chain_post_incl _ _ _ _ C1 Hincl) Hsp) as C2.
    pose proof (chain_post_trans _ _ _ _ _ _ C1 C2) as C.
    intros E. inversion E; subst root' ax'; clear E.
    eapply chain_post_chain_ok; [|exact Hperm].
    cbn [lids lids_e]. rewrite app_nil_r. exact C.
  - intros E. inversion E; subst root' ax'; clear E.
    eapply chain_post_chain_ok; [exact C1|exact Hperm].
Qed.

(* ---------- 7. the initial state ---------- *)
Lemma chain_ok_init bf : chain_ok (Leaf 0 bf [] []) (mkAux 1 [0%nat]).
Proof.
  unfold chain_ok. cbn [chain nid lids].
  refine (conj _ (conj (Permutation_refl _) _)).
  - constructor; [intros []|constructor].
  - constructor; [lia|constructor].
Qed.

End Chain.

Print Assumptions chain_ins_before_perm.
Print Assumptions chain_ins_before_notin.
Print Assumptions find_leaf_none.
Print Assumptions find_leaf_some.
Print Assumptions leaf_subs_lids.
Print Assumptions leaf_subs_perm.
Print Assumptions split_chain.
Print Assumptions Ins_chain.
Print Assumptions InsE_chain.
Print Assumptions insert_root_chain.
Print Assumptions chain_ok_init.
