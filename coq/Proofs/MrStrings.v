(* MrStrings.v — string facts behind the file names of the multi-round workflow:
   [str_ltb] is a strict total order; decimal rendering [str_of_Z] is characterised without
   fuel, is injective on the naturals and produces digits only; [zfill]ed indices of one
   round have one common length and stay injective; the file names [bufs_name] / [idxs_name]
   are injective, are recognised by exactly their own glob, and are ordered alike. *)
From Coq Require Import String Ascii ZArith List Lia Bool.
From BB Require Import Model.Multiround.
Import ListNotations.
Open Scope Z_scope.
Open Scope string_scope.

Notation slen := String.length.

(* ================= 1. append ================= *)
Lemma sapp_assoc (a b c : string) : (a ++ b) ++ c = a ++ (b ++ c).
Proof. induction a as [|x a IH]; cbn [append]; [reflexivity|now rewrite IH]. Qed.

Lemma sapp_nil_r (a : string) : a ++ "" = a.
Proof. induction a as [|x a IH]; cbn [append]; [reflexivity|now rewrite IH]. Qed.

Lemma slen_app (a b : string) : slen (a ++ b) = (slen a + slen b)%nat.
Proof. induction a as [|x a IH]; cbn [append String.length]; [reflexivity|now rewrite IH]. Qed.

Lemma sapp_inv_head (p a b : string) : p ++ a = p ++ b -> a = b.
Proof. induction p as [|x p IH]; cbn [append]; [auto|]. intros H. injection H as H. auto. Qed.

Lemma string_cons_inj c (a b : string) : String c a = String c b -> a = b.
Proof. intros H. now injection H. Qed.

(* equal-length heads *)
Lemma sapp_inv_len_head (a b x y : string) :
  a ++ x = b ++ y -> slen a = slen b -> a = b /\ x = y.
Proof.
  revert b. induction a as [|c a IH]; intros [|d b] H L; cbn [append String.length] in *;
    try discriminate; [auto|].
  injection H as -> H. injection L as L. destruct (IH b H L) as (-> & ->). auto.
Qed.

(* equal-length tails *)
Lemma sapp_inv_len_tail (a b x y : string) :
  a ++ x = b ++ y -> slen x = slen y -> a = b /\ x = y.
Proof.
  intros H L. apply sapp_inv_len_head; [exact H|].
  apply (f_equal String.length) in H. rewrite !slen_app in H. lia.
Qed.

(* ================= 2. prefix / suffix tests ================= *)
Lemma prefix_iff (p s : string) : String.prefix p s = true <-> exists t, s = p ++ t.
Proof.
  revert s. induction p as [|a p IH]; intros s.
  - destruct s; cbn [String.prefix append]; split; eauto.
  - destruct s as [|b s]; cbn [String.prefix append].
    + split; [discriminate|]. intros (t & H). discriminate H.
    + destruct (ascii_dec a b) as [->|N].
      * rewrite IH. split; intros (t & H); exists t; [now rewrite H|]. now injection H.
      * split; [discriminate|]. intros (t & H). injection H as H1 _. congruence.
Qed.

Lemma has_suffix_app (x suf : string) : has_suffix suf (x ++ suf) = true.
Proof.
  induction x as [|c x IH]; cbn [append].
  - destruct suf; cbn [has_suffix]; now rewrite String.eqb_refl.
  - cbn [has_suffix]. destruct (String.eqb suf (String c (x ++ suf))); [reflexivity|exact IH].
Qed.

(* ================= 3. the order ================= *)
Lemma nat_of_ascii_inj a b : nat_of_ascii a = nat_of_ascii b -> a = b.
Proof.
  intros H. rewrite <- (ascii_nat_embedding a), <- (ascii_nat_embedding b). now rewrite H.
Qed.

Lemma str_ltb_irrefl a : str_ltb a a = false.
Proof.
  induction a as [|x a IH]; cbn [str_ltb]; [reflexivity|].
  now rewrite Nat.ltb_irrefl.
Qed.

Lemma str_ltb_cons x a y b :
  str_ltb (String x a) (String y b) =
  if Nat.ltb (nat_of_ascii x) (nat_of_ascii y) then true
  else if Nat.ltb (nat_of_ascii y) (nat_of_ascii x) then false else str_ltb a b.
Proof. reflexivity. Qed.

Lemma str_ltb_trans a b c : str_ltb a b = true -> str_ltb b c = true -> str_ltb a c = true.
Proof.
  revert b c. induction a as [|x a IH]; intros [|y b] [|z c]; try discriminate; auto.
  rewrite !str_ltb_cons.
  destruct (Nat.ltb_spec (nat_of_ascii x) (nat_of_ascii y));
  destruct (Nat.ltb_spec (nat_of_ascii y) (nat_of_ascii x));
  destruct (Nat.ltb_spec (nat_of_ascii y) (nat_of_ascii z));
  destruct (Nat.ltb_spec (nat_of_ascii z) (nat_of_ascii y));
  destruct (Nat.ltb_spec (nat_of_ascii x) (nat_of_ascii z));
  destruct (Nat.ltb_spec (nat_of_ascii z) (nat_of_ascii x));
  try discriminate; try lia; auto.
  apply IH.
Qed.

Lemma str_ltb_total a b : str_ltb a b = false -> str_ltb b a = false -> a = b.
Proof.
  revert b. induction a as [|x a IH]; intros [|y b]; try discriminate; auto.
  rewrite !str_ltb_cons.
  destruct (Nat.ltb_spec (nat_of_ascii x) (nat_of_ascii y)); [discriminate|].
  destruct (Nat.ltb_spec (nat_of_ascii y) (nat_of_ascii x)); [discriminate|].
  intros H1 H2. f_equal; [apply nat_of_ascii_inj; lia|apply IH; assumption].
Qed.

Lemma str_ltb_asym a b : str_ltb a b = true -> str_ltb b a = false.
Proof.
  intros H. destruct (str_ltb b a) eqn:E; [|reflexivity].
  pose proof (str_ltb_trans _ _ _ H E) as T. now rewrite str_ltb_irrefl in T.
Qed.

Lemma str_ltb_neq a b : str_ltb a b = true -> a <> b.
Proof. intros H ->. now rewrite str_ltb_irrefl in H. Qed.

(* trichotomy with String.eqb *)
Lemma str_ltb_tricho a b :
  (str_ltb a b = true /\ String.eqb a b = false /\ str_ltb b a = false) \/
  (str_ltb a b = false /\ String.eqb a b = true /\ str_ltb b a = false) \/
  (str_ltb a b = false /\ String.eqb a b = false /\ str_ltb b a = true).
Proof.
  destruct (str_ltb a b) eqn:E1.
  - left. refine (conj eq_refl (conj _ (str_ltb_asym _ _ E1))).
    apply String.eqb_neq. now apply str_ltb_neq.
  - destruct (str_ltb b a) eqn:E2.
    + right. right. refine (conj eq_refl (conj _ eq_refl)).
      apply String.eqb_neq. intros ->. now rewrite str_ltb_irrefl in E2.
    + right. left. refine (conj eq_refl (conj _ eq_refl)).
      apply String.eqb_eq. now apply str_ltb_total.
Qed.

Lemma str_ltb_app_l p a b : str_ltb (p ++ a) (p ++ b) = str_ltb a b.
Proof.
  induction p as [|x p IH]; cbn [append]; [reflexivity|].
  rewrite str_ltb_cons, Nat.ltb_irrefl. exact IH.
Qed.

(* for heads of one length the tails do not matter *)
Lemma str_ltb_app_eqlen s1 s2 x y :
  slen s1 = slen s2 -> s1 <> s2 -> str_ltb (s1 ++ x) (s2 ++ y) = str_ltb s1 s2.
Proof.
  revert s2. induction s1 as [|c s1 IH]; intros [|d s2] L N; cbn [String.length] in L;
    try discriminate; [congruence|].
  cbn [append]. rewrite !str_ltb_cons.
  destruct (Nat.ltb_spec (nat_of_ascii c) (nat_of_ascii d)); [reflexivity|].
  destruct (Nat.ltb_spec (nat_of_ascii d) (nat_of_ascii c)); [reflexivity|].
  apply IH; [now injection L|].
  intros ->. apply N. f_equal. apply nat_of_ascii_inj. lia.
Qed.

(* ================= 4. decimal rendering ================= *)
Lemma sopf_acc f : forall z acc, str_of_pos_fuel f z acc = str_of_pos_fuel f z "" ++ acc.
Proof.
  induction f as [|f IH]; intros z acc; cbn [str_of_pos_fuel]; [reflexivity|].
  destruct (z <? 10)%Z; [reflexivity|].
  rewrite (IH _ (String _ acc)), (IH _ (String _ "")), sapp_assoc. reflexivity.
Qed.

(* any sufficient fuel gives the same string *)
Lemma sopf_fuel f1 : forall f2 z,
  0 < z -> z < 2 ^ Z.of_nat f1 -> z < 2 ^ Z.of_nat f2 ->
  str_of_pos_fuel f1 z "" = str_of_pos_fuel f2 z "".
Proof.
  induction f1 as [|f1 IH]; intros f2 z H0 H1 H2.
  - cbn in H1. lia.
  - destruct f2 as [|f2]; [cbn in H2; lia|].
    cbn [str_of_pos_fuel]. destruct (Z.ltb_spec z 10); [reflexivity|].
    rewrite (sopf_acc f1), (sopf_acc f2). f_equal.
    rewrite Nat2Z.inj_succ, Z.pow_succ_r in H1, H2 by lia.
    apply IH; Z.div_mod_to_equations; lia.
Qed.

Lemma sopf_S f z acc :
  str_of_pos_fuel (S f) z acc =
  if (z <? 10)%Z then String (digit_of z) acc
  else str_of_pos_fuel f (z / 10) (String (digit_of (z mod 10)) acc).
Proof. reflexivity. Qed.

Lemma str_of_Z_small z : 0 <= z < 10 -> str_of_Z z = String (digit_of z) "".
Proof.
  intros H. unfold str_of_Z. destruct (Z.ltb_spec z 0); [lia|].
  replace (Z.to_nat (Z.log2 z) + 2)%nat with (S (S (Z.to_nat (Z.log2 z)))) by lia.
  rewrite sopf_S. destruct (Z.ltb_spec z 10); [reflexivity|lia].
Qed.

Lemma str_of_Z_step z :
  10 <= z -> str_of_Z z = str_of_Z (z / 10) ++ String (digit_of (z mod 10)) "".
Proof.
  intros H. unfold str_of_Z.
  destruct (Z.ltb_spec z 0); [lia|].
  assert (Hq : 0 < z / 10) by (Z.div_mod_to_equations; lia).
  destruct (Z.ltb_spec (z / 10) 0); [lia|].
  replace (Z.to_nat (Z.log2 z) + 2)%nat with (S (S (Z.to_nat (Z.log2 z)))) by lia.
  rewrite sopf_S. destruct (Z.ltb_spec z 10); [lia|].
  rewrite sopf_acc. f_equal.
  pose proof (Z.log2_nonneg z) as L0. pose proof (Z.log2_nonneg (z / 10)) as L1.
  destruct (Z.log2_spec z ltac:(lia)) as (_ & S1).
  destruct (Z.log2_spec (z / 10) Hq) as (_ & S2).
  apply sopf_fuel; [exact Hq| |].
  - rewrite Nat2Z.inj_succ, Z2Nat.id by lia.
    assert (z / 10 <= z) by (Z.div_mod_to_equations; lia). lia.
  - rewrite Nat2Z.inj_add, Z2Nat.id by lia. change (Z.of_nat 2) with 2.
    replace (Z.log2 (z / 10) + 2) with (Z.succ (Z.succ (Z.log2 (z / 10)))) by lia.
    rewrite (Z.pow_succ_r _ (Z.succ _)) by lia. lia.
Qed.

(* induction along the decimal digits *)
Lemma dec_ind (P : Z -> Prop) :
  (forall z, 0 <= z < 10 -> P z) -> (forall z, 10 <= z -> P (z / 10) -> P z) ->
  forall z, 0 <= z -> P z.
Proof.
  intros H1 H2 z. induction z as [z IH] using (well_founded_induction (Z.lt_wf 0)).
  intros Hz. destruct (Z_lt_le_dec z 10); [apply H1; lia|].
  apply H2; [lia|]. apply IH; Z.div_mod_to_equations; lia.
Qed.

(* digits *)
Definition is_digit (c : ascii) : bool :=
  (Nat.leb 48 (nat_of_ascii c)) && (Nat.leb (nat_of_ascii c) 57).
Fixpoint digits (s : string) : bool :=
  match s with EmptyString => true | String c tl => is_digit c && digits tl end.

Lemma digits_app a b : digits (a ++ b) = digits a && digits b.
Proof. induction a as [|c a IH]; cbn [append digits]; [reflexivity|]. now rewrite IH, andb_assoc. Qed.

Lemma nat_of_digit d : 0 <= d < 10 -> nat_of_ascii (digit_of d) = (48 + Z.to_nat d)%nat.
Proof. intros H. unfold digit_of. apply nat_ascii_embedding. lia. Qed.

Lemma is_digit_of d : 0 <= d < 10 -> is_digit (digit_of d) = true.
Proof.
  intros H. unfold is_digit. rewrite nat_of_digit by exact H.
  apply andb_true_intro. split; apply Nat.leb_le; lia.
Qed.

Lemma str_of_Z_digits z : 0 <= z -> digits (str_of_Z z) = true.
Proof.
  revert z. apply dec_ind.
  - intros z H. rewrite str_of_Z_small by exact H. cbn [digits]. now rewrite is_digit_of.
  - intros z H IH. rewrite str_of_Z_step, digits_app, IH by exact H. cbn [digits andb].
    rewrite is_digit_of; [reflexivity|]. Z.div_mod_to_equations; lia.
Qed.

Lemma str_of_Z_len_pos z : 0 <= z -> (1 <= slen (str_of_Z z))%nat.
Proof.
  revert z. apply dec_ind.
  - intros z H. rewrite str_of_Z_small by exact H. cbn. lia.
  - intros z H _. rewrite str_of_Z_step, slen_app by exact H. cbn [String.length]. lia.
Qed.

(* the value of a digit string *)
Fixpoint val_acc (acc : Z) (s : string) : Z :=
  match s with
  | EmptyString => acc
  | String c tl => val_acc (10 * acc + (Z.of_nat (nat_of_ascii c) - 48)) tl
  end.
Definition sval (s : string) : Z := val_acc 0 s.

Lemma val_acc_snoc s : forall acc c,
  val_acc acc (s ++ String c "") = 10 * val_acc acc s + (Z.of_nat (nat_of_ascii c) - 48).
Proof. induction s as [|x s IH]; intros acc c; cbn [append val_acc]; [reflexivity|apply IH]. Qed.

Lemma sval_str_of_Z z : 0 <= z -> sval (str_of_Z z) = z.
Proof.
  revert z. apply dec_ind; unfold sval.
  - intros z H. rewrite str_of_Z_small by exact H. cbn [val_acc].
    rewrite nat_of_digit by exact H. lia.
  - intros z H IH. rewrite str_of_Z_step, val_acc_snoc, IH by exact H.
    rewrite nat_of_digit by (Z.div_mod_to_equations; lia).
    Z.div_mod_to_equations; lia.
Qed.

Lemma str_of_Z_inj a b : 0 <= a -> 0 <= b -> str_of_Z a = str_of_Z b -> a = b.
Proof.
  intros Ha Hb H. rewrite <- (sval_str_of_Z a Ha), <- (sval_str_of_Z b Hb). now rewrite H.
Qed.

(* the dash never occurs in the rendering of a natural *)
Lemma digit_not_dash c : is_digit c = true -> c <> "-"%char.
Proof. intros H ->. discriminate H. Qed.

Fixpoint no_dash (s : string) : Prop :=
  match s with EmptyString => True | String c tl => c <> "-"%char /\ no_dash tl end.
Lemma digits_no_dash s : digits s = true -> no_dash s.
Proof.
  induction s as [|c s IH]; cbn [digits no_dash]; [auto|].
  intros H. apply andb_prop in H. destruct H as [H1 H2]. split; [now apply digit_not_dash|auto].
Qed.
Lemma str_of_Z_no_dash z : 0 <= z -> no_dash (str_of_Z z).
Proof. intros H. apply digits_no_dash, str_of_Z_digits, H. Qed.

(* two digit strings followed by a dash *)
Lemma digits_dash_split a b x y :
  digits a = true -> digits b = true ->
  a ++ String "-" x = b ++ String "-" y -> a = b /\ x = y.
Proof.
  revert b. induction a as [|c a IH]; intros [|d b] Ha Hb H; cbn [append digits] in *.
  - injection H as ->. auto.
  - injection H as <- _. discriminate Hb.
  - injection H as -> _. discriminate Ha.
  - injection H as -> H. apply andb_prop in Ha, Hb.
    destruct (IH b (proj2 Ha) (proj2 Hb) H) as (-> & ->). auto.
Qed.

(* lengths grow with the number *)
Lemma str_of_Z_len_mono n : 0 <= n -> forall i, 0 <= i <= n ->
  (slen (str_of_Z i) <= slen (str_of_Z n))%nat.
Proof.
  revert n. apply (dec_ind (fun n => forall i, 0 <= i <= n ->
                                (slen (str_of_Z i) <= slen (str_of_Z n))%nat)).
  - intros n H i Hi. rewrite !str_of_Z_small by lia. reflexivity.
  - intros n H IH i Hi. rewrite (str_of_Z_step n), slen_app by exact H. cbn [String.length].
    destruct (Z_lt_le_dec i 10).
    + rewrite str_of_Z_small by lia. cbn [String.length]. lia.
    + rewrite (str_of_Z_step i), slen_app by lia. cbn [String.length].
      assert (0 <= i / 10 <= n / 10) by (Z.div_mod_to_equations; lia).
      specialize (IH (i / 10) ltac:(assumption)). lia.
Qed.

(* ================= 5. zero-padded indices ================= *)
Lemma slen_repeat c n : slen (str_repeat c n) = n.
Proof. induction n as [|n IH]; cbn [str_repeat String.length]; [reflexivity|now rewrite IH]. Qed.

Lemma zfill_len s w : (slen s <= Z.to_nat w)%nat -> slen (zfill s w) = Z.to_nat w.
Proof. intros H. unfold zfill. rewrite slen_app, slen_repeat. lia. Qed.

Lemma val_acc_zeros n s : val_acc 0 (str_repeat "0"%char n ++ s) = val_acc 0 s.
Proof. induction n as [|n IH]; cbn [str_repeat append val_acc]; [reflexivity|exact IH]. Qed.

Lemma sval_zfill s w : sval (zfill s w) = sval s.
Proof. unfold sval, zfill. apply val_acc_zeros. Qed.

(* the labels of one round: indices below n, padded to the width of n *)
Definition idx_label (n : nat) (i : Z) : string :=
  zfill (str_of_Z i) (Z.of_nat (slen (str_of_Z (Z.of_nat n)))).

Lemma idx_label_len n i : 0 <= i <= Z.of_nat n ->
  slen (idx_label n i) = slen (str_of_Z (Z.of_nat n)).
Proof.
  intros H. unfold idx_label. rewrite zfill_len; rewrite Nat2Z.id; [reflexivity|].
  apply str_of_Z_len_mono; lia.
Qed.

Lemma idx_label_inj n i j : 0 <= i -> 0 <= j -> idx_label n i = idx_label n j -> i = j.
Proof.
  intros Hi Hj H. apply (f_equal sval) in H. unfold idx_label in H.
  rewrite !sval_zfill, !sval_str_of_Z in H by assumption. exact H.
Qed.

(* ================= 6. file names ================= *)
Definition dt (w : width) : string := str_replace (dtype_name w) "8" "08".
Lemma dt_cases w :
  dt w = match w with W8 => "uint08" | W16 => "uint16" | W32 => "uint32" | W64 => "uint64" end.
Proof. destruct w; reflexivity. Qed.
Lemma dt_len w : slen (dt w) = 6%nat.
Proof. rewrite dt_cases. destruct w; reflexivity. Qed.
Lemma dt_inj w w' : dt w = dt w' -> w = w'.
Proof. rewrite !dt_cases. destruct w, w'; intros H; try reflexivity; discriminate H. Qed.

(* the common shape of the two kinds of round files *)
Definition rname (kind ext : string) (r : Z) (l : string) (w : width) : string :=
  "round-" ++ str_of_Z r ++ String "-" (kind ++ (".label-" ++ l ++ String "-" (dt w)) ++ ext).

Lemma bufs_name_rname r l w : bufs_name r l w = rname "bufs" ".npy" r l w.
Proof. reflexivity. Qed.
Lemma idxs_name_rname r l w : idxs_name r l w = rname "idxs" ".pkl" r l w.
Proof. reflexivity. Qed.

Lemma rname_inj k e r l w k' e' r' l' w' :
  0 <= r -> 0 <= r' -> slen k = slen k' -> slen e = slen e' ->
  rname k e r l w = rname k' e' r' l' w' ->
  r = r' /\ k = k' /\ l = l' /\ w = w' /\ e = e'.
Proof.
  intros Hr Hr' Lk Le H. unfold rname in H. apply sapp_inv_head in H.
  apply digits_dash_split in H; try (apply str_of_Z_digits; assumption).
  destruct H as (H1 & H2). apply str_of_Z_inj in H1; try assumption.
  apply sapp_inv_len_head in H2; [|exact Lk]. destruct H2 as (H2 & H3).
  apply sapp_inv_len_tail in H3; [|exact Le]. destruct H3 as (H3 & H4).
  apply sapp_inv_head in H3.
  apply sapp_inv_len_tail in H3; [|cbn [String.length]; now rewrite !dt_len].
  destruct H3 as (H3 & H5). apply string_cons_inj in H5. apply dt_inj in H5. auto.
Qed.

Lemma bufs_name_inj r l w r' l' w' :
  0 <= r -> 0 <= r' -> bufs_name r l w = bufs_name r' l' w' -> r = r' /\ l = l' /\ w = w'.
Proof.
  intros Hr Hr' H. rewrite !bufs_name_rname in H.
  apply rname_inj in H; try assumption; try reflexivity. tauto.
Qed.
Lemma idxs_name_inj r l w r' l' w' :
  0 <= r -> 0 <= r' -> idxs_name r l w = idxs_name r' l' w' -> r = r' /\ l = l' /\ w = w'.
Proof.
  intros Hr Hr' H. rewrite !idxs_name_rname in H.
  apply rname_inj in H; try assumption; try reflexivity. tauto.
Qed.
Lemma bufs_idxs_neq r l w r' l' w' : 0 <= r -> 0 <= r' -> bufs_name r l w <> idxs_name r' l' w'.
Proof.
  intros Hr Hr' H. rewrite bufs_name_rname, idxs_name_rname in H.
  apply rname_inj in H; try assumption; try reflexivity.
  destruct H as (_ & H & _). discriminate H.
Qed.

(* a negative round number never names a file of a round >= 0 *)
Lemma rname_neg_neq k e r l w k' e' r' l' w' :
  r < 0 -> 0 <= r' -> rname k e r l w <> rname k' e' r' l' w'.
Proof.
  intros Hr Hr' H. unfold rname in H. apply sapp_inv_head in H.
  pose proof (str_of_Z_digits r' Hr') as D. pose proof (str_of_Z_len_pos r' Hr') as L.
  unfold str_of_Z in H at 1. destruct (Z.ltb_spec r 0); [|lia]. cbn [append] in H.
  destruct (str_of_Z r') as [|x s]; [cbn in L; lia|].
  cbn [append] in H. injection H as <- _. discriminate D.
Qed.

(* the globs *)
Lemma rname_split k e r l w :
  rname k e r l w =
  ("round-" ++ str_of_Z r ++ String "-" k) ++ ((".label-" ++ l ++ String "-" (dt w)) ++ e).
Proof. unfold rname. rewrite !sapp_assoc. reflexivity. Qed.

Lemma glob_prefix_rname k0 k e r r' l w :
  0 <= r -> 0 <= r' -> slen k0 = slen k ->
  String.prefix ("round-" ++ str_of_Z r ++ String "-" k0) (rname k e r' l w) = true ->
  r' = r /\ k = k0.
Proof.
  intros Hr Hr' Lk H. apply prefix_iff in H. destruct H as (t & H). unfold rname in H.
  assert (E : ("round-" ++ str_of_Z r ++ String "-" k0) ++ t =
              "round-" ++ str_of_Z r ++ String "-" (k0 ++ t)).
  { rewrite !sapp_assoc. reflexivity. }
  rewrite E in H. clear E. apply sapp_inv_head in H.
  apply digits_dash_split in H; try (apply str_of_Z_digits; assumption).
  destruct H as (H1 & H2). apply str_of_Z_inj in H1; try assumption.
  apply sapp_inv_len_head in H2; [|now symmetry]. tauto.
Qed.

Lemma glob_prefix_self k e r l w :
  String.prefix ("round-" ++ str_of_Z r ++ String "-" k) (rname k e r l w) = true.
Proof. apply prefix_iff. eexists. apply rname_split. Qed.

Lemma rname_suffix k e r l w : has_suffix e (rname k e r l w) = true.
Proof. rewrite rname_split, <- sapp_assoc. apply has_suffix_app. Qed.

Lemma is_bufs_of_bufs r l w : is_bufs_of r (bufs_name r l w) = true.
Proof.
  unfold is_bufs_of. rewrite bufs_name_rname. apply andb_true_intro. split.
  - apply (glob_prefix_self "bufs").
  - apply rname_suffix.
Qed.
Lemma is_idxs_of_idxs r l w : is_idxs_of r (idxs_name r l w) = true.
Proof.
  unfold is_idxs_of. rewrite idxs_name_rname. apply andb_true_intro. split.
  - apply (glob_prefix_self "idxs").
  - apply rname_suffix.
Qed.

Lemma is_bufs_of_rname r k e r' l w :
  0 <= r -> 0 <= r' -> slen k = 4%nat ->
  is_bufs_of r (rname k e r' l w) = true -> r' = r /\ k = "bufs".
Proof.
  intros Hr Hr' Lk H. unfold is_bufs_of in H. apply andb_prop in H. destruct H as (H & _).
  apply (glob_prefix_rname "bufs" k e r r' l w Hr Hr'); [now rewrite Lk|exact H].
Qed.
Lemma is_idxs_of_rname r k e r' l w :
  0 <= r -> 0 <= r' -> slen k = 4%nat ->
  is_idxs_of r (rname k e r' l w) = true -> r' = r /\ k = "idxs".
Proof.
  intros Hr Hr' Lk H. unfold is_idxs_of in H. apply andb_prop in H. destruct H as (H & _).
  apply (glob_prefix_rname "idxs" k e r r' l w Hr Hr'); [now rewrite Lk|exact H].
Qed.

(* the two name lists of one round are ordered alike: the names differ only in the
   fixed-position infix and the extension, and the parts in between have one length *)
Lemma rname_ltb k e r l1 w1 l2 w2 :
  slen l1 = slen l2 ->
  str_ltb (rname k e r l1 w1) (rname k e r l2 w2) =
  if String.eqb (l1 ++ String "-" (dt w1)) (l2 ++ String "-" (dt w2)) then false
  else str_ltb (l1 ++ String "-" (dt w1)) (l2 ++ String "-" (dt w2)).
Proof.
  intros L. rewrite !rname_split, str_ltb_app_l, !sapp_assoc, str_ltb_app_l.
  destruct (String.eqb_spec (l1 ++ String "-" (dt w1)) (l2 ++ String "-" (dt w2))) as [E|N].
  - rewrite <- !sapp_assoc, E. apply str_ltb_irrefl.
  - rewrite <- !sapp_assoc. apply str_ltb_app_eqlen; [|exact N].
    rewrite !slen_app. cbn [String.length]. rewrite !dt_len, L. reflexivity.
Qed.

Lemma names_same_order r l1 w1 l2 w2 :
  slen l1 = slen l2 ->
  str_ltb (bufs_name r l1 w1) (bufs_name r l2 w2) = str_ltb (idxs_name r l1 w1) (idxs_name r l2 w2).
Proof.
  intros L. rewrite !bufs_name_rname, !idxs_name_rname, !rname_ltb by exact L. reflexivity.
Qed.

(* the result files are no round files *)
Lemma clusters_not_round : is_round_file "clusters.pkl" = false.
Proof. reflexivity. Qed.
Lemma centroids_not_round : is_round_file "cluster-centroids-packed.pkl" = false.
Proof. reflexivity. Qed.
Lemma rname_not_clusters k e r l w : rname k e r l w <> "clusters.pkl".
Proof. unfold rname. cbn [append]. discriminate. Qed.
Lemma rname_not_centroids k e r l w : rname k e r l w <> "cluster-centroids-packed.pkl".
Proof. unfold rname. cbn [append]. discriminate. Qed.

