(* GenTieCli.v — the option normalisation and the plan of API calls of `bb run`, as regenerated from
   bblean/cli.py:_run on every run (Gen/GCli.v), are the ones of the hand model Model/Cli.v. *)
From BB Require Import Model.Cli Gen.GCli.
From Coq Require Import Lia.
Open Scope Z_scope.

Lemma tie_norm_refine n r : GCli.norm_refine n r = Cli.norm_refine n r.
Proof.
  unfold GCli.norm_refine, Cli.norm_refine. rewrite !Z.gtb_ltb.
  destruct r as [r|]; cbv zeta.
  - destruct ((0 <? r) && (n =? 0)); reflexivity.
  - destruct (0 <? n) eqn:E; rewrite ?Z.gtb_ltb; destruct ((0 <? _) && (n =? 0)); reflexivity.
Qed.

Lemma tie_run_plan o n : GCli.run_plan o n = Cli.run_plan o n.
Proof.
  unfold GCli.run_plan, Cli.run_plan. rewrite tie_norm_refine.
  destruct (Cli.norm_refine _ _) as [num rounds]. reflexivity.
Qed.
