(* FpsShuffle.v — shuffling a fingerprint file preserves the multiset of its rows (C16). *)
From BB Require Import Model.FpsGen.
From Coq Require Import Permutation Lia.

Lemma map_nth_seq {R} (rows : list R) d :
  map (fun i => nth i rows d) (seq 0 (List.length rows)) = rows.
Proof.
  apply nth_ext with (d := d) (d' := d).
  - now rewrite map_length, seq_length.
  - intros n Hn. rewrite map_length, seq_length in Hn.
    rewrite (nth_indep _ _ (nth 0 rows d)) by now rewrite map_length, seq_length.
    change (nth 0 rows d) with ((fun i => nth i rows d) 0%nat).
    rewrite map_nth, seq_nth by exact Hn. reflexivity.
Qed.

Theorem shuffle_multiset {R} (perm : list nat) (rows : list R) d :
  Permutation perm (seq 0 (List.length rows)) -> Permutation (apply_perm perm rows d) rows.
Proof.
  intros H. unfold apply_perm.
  apply Permutation_trans with (map (fun i => nth i rows d) (seq 0 (List.length rows))).
  - now apply Permutation_map.
  - rewrite map_nth_seq. apply Permutation_refl.
Qed.

(* the hypothesis carries content: an index list that repeats a row is not a shuffle *)
Example not_a_permutation_breaks :
  ~ Permutation (apply_perm [0; 0]%nat [1; 2]%Z 0%Z) [1; 2]%Z.
Proof.
  cbn. intros H. apply Permutation_sym in H. apply Permutation_in with (x := 2%Z) in H; [|right; left; reflexivity].
  cbn in H. destruct H as [H|[H|[]]]; discriminate.
Qed.
