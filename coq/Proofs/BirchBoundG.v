(* BirchBoundG.v — the strengthened reading of property C03: the bound holds for a pair that
   was in force when the cluster LAST GREW.  One step: every reported cluster is a singleton,
   or is unchanged (same members, same sums, same count as a cluster reported before the
   operation), or meets a pair used by this very operation.  Trace form: for every reported
   cluster of size >= 2 there is an operation of the history during which it met a pair in
   force, and since which it has been reported unchanged. *)
From BB Require Import Model.Birch Proofs.ListFacts Proofs.TreeDefs Proofs.TreeRel
     Proofs.TreeShape Proofs.TreeBlocks Proofs.TreeChain Proofs.TreeSums Proofs.TreeBal
     Proofs.BirchDefs Proofs.SimMax Proofs.BirchInv Proofs.BirchRebuild Proofs.BirchBound.
From BB Require Proofs.MergeFacts.
From Coq Require Import Lia Permutation.
Open Scope Z_scope.

(* extensional identity of reported clusters: same members, same per-bit sums, same count
   (the storage width and the cached centroid are representation details) *)
Definition same_cluster (a b : sub) : Prop := sids a = sids b /\ sls a = sls b /\ sn a = sn b.

Lemma same_cluster_refl a : same_cluster a a.
Proof. repeat split. Qed.
Lemma same_cluster_sym a b : same_cluster a b -> same_cluster b a.
Proof. intros (A & B & C). repeat split; congruence. Qed.
Lemma same_cluster_trans a b c : same_cluster a b -> same_cluster b c -> same_cluster a c.
Proof. intros (A & B & C) (A' & B' & C'). repeat split; congruence. Qed.

Lemma meets_same c t a b : same_cluster a b -> meets c t a -> meets c t b.
Proof. intros (_ & E1 & E2) (M1 & M2). split; [exact M1|]. rewrite <- E1, <- E2. exact M2. Qed.

Definition grown_ok (old : list sub) (P : list (crit * float)) (s : sub) : Prop :=
  sn s <= 1 \/ (exists s0, In s0 old /\ same_cluster s0 s) \/
  (exists c t, In (c, t) P /\ meets c t s).

Section WithExp.
Variable fexp : float -> float.

(* ================= the chain of BirchBound.v over an abstract "already fine" predicate === *)
Section G.
Variable B : sub -> Prop.
Hypothesis B_single : forall s, sn s <= 1 -> B s.

Definition gbound_ok (H : list (crit * float)) (s : sub) : Prop :=
  B s \/ exists c t, In (c, t) H /\ meets c t s.
Definition gleaves (H : list (crit * float)) (st : state) : Prop :=
  match root st with Some r => Forall (gbound_ok H) (lsubs r) | None => True end.

Lemma gb_single H s : sn s = 1 -> gbound_ok H s.
Proof. intros E. left. apply B_single. lia. Qed.

(* ================= 3. one insertion into the tree ================= *)
Section A1.
Variable nf : nat.
Variable c : crit.
Variable thr : float.
Variable H : list (crit * float).
Hypothesis Hsim : forall a b : fpv,
    length a = nf -> length b = nf -> (sim a a <? sim a b)%float = false.
Hypothesis Hin : In (c, thr) H.

Lemma Ins_gb_mut :
  (forall nd s ax nd' sp ax',
      Ins fexp nf c thr nd s ax nd' sp ax' ->
      shape nf nd -> sub_len nf s -> sums_ok nf nd -> sub_exact s ->
      tot_n (lsubs nd) + sn s < 2^64 ->
      Forall (gbound_ok H) (lsubs nd) -> gbound_ok H s -> Forall (gbound_ok H) (lsubs nd')) /\
  (forall es k s cache ax es' cache' ax',
      InsE fexp nf c thr es k s cache ax es' cache' ax' ->
      shape_e nf es -> cache = map scent (ents_subs es) -> (k < ents_len es)%nat ->
      sub_len nf s -> sums_ok_e nf es -> sub_exact s ->
      tot_n (lsubs_e es) + sn s < 2^64 ->
      Forall (gbound_ok H) (lsubs_e es) -> gbound_ok H s -> Forall (gbound_ok H) (lsubs_e es')).
Proof.
  apply Ins_mutind.
  - (* leaf empty *)
    intros id bf cache s ax _ _ _ _ _ _ Cs. cbn [lsubs]. constructor; [exact Cs|constructor].
  - (* leaf merge *)
    intros id bf es cache s ax m Hne Hm (Hbf & Hc & Hes) Hs Hok He Hb HC Cs.
    cbn [sums_ok lsubs] in *. subst cache.
    assert (Hr : (route (map scent es) s < length es)%nat).
    { rewrite <- (map_length scent). apply (route_lt). destruct es; [congruence|discriminate]. }
    destruct (upd_split (route (map scent es) s) m s es Hr) as (l1 & l2 & E1 & E2 & _).
    rewrite E2. clear E2 Hr Hne. revert Hm E1.
    generalize (nth (route (map scent es) s) es s). intros x Hm E1. subst es.
    apply Forall_app in Hes. destruct Hes as [L1 L2x].
    inversion L2x as [|? ? Lx L2]; subst.
    apply Forall_app in Hok. destruct Hok as [O1 O2x].
    inversion O2x as [|? ? Ox O2]; subst.
    apply Forall_app in HC. destruct HC as [C1 C2x].
    inversion C2x as [|? ? Cx C2]; subst.
    rewrite tot_n_app, tot_n_cons in Hb.
    pose proof (tot_n_nonneg _ O1) as N1. pose proof (tot_n_nonneg _ O2) as N2.
    assert (Hb' : sn x + sn s < 2^64) by lia.
    assert (Hlen : length (sls x) = length (sls s)).
    { destruct Lx as [Lx _]. destruct Hs as [Hs _]. congruence. }
    apply Forall_app. split; [exact C1|]. constructor; [|exact C2].
    right. exists c, thr. split; [exact Hin|].
    exact (merge_bound fexp c thr x s m Ox He Hlen Hb' Hm).
  - (* leaf append *)
    intros id bf es cache s ax Hne Hm _ _ _ _ _ HC Cs. cbn [lsubs] in *.
    apply Forall_app. split; [exact HC|]. constructor; [exact Cs|constructor].
  - (* inner *)
    intros bf es cache s ax es' cache' ax' _ IH (Hbf & Hc & Hne & Hes) Hs Hok He Hb HC Cs.
    change (shape_e nf es) in Hes. cbn [sums_ok lsubs] in *.
    apply (IH Hes Hc); auto.
    assert (Hcn : cache <> []).
    { subst cache. destruct es; [congruence|discriminate]. }
    pose proof (route_lt cache s Hcn) as Hr.
    subst cache. rewrite map_length, ents_subs_length in Hr. exact Hr.
  - (* nil *)
    intros k s cache ax _ _ Hk. cbn in Hk. lia.
  - (* skip *)
    intros e ch tl k s cache ax tl' ctl' ax' HI IH (Le & Hch & Htl) Hc Hk Hs Hok He Hb HC Cs.
    change (shape_e nf tl) in Htl. change (shape nf ch) in Hch.
    destruct Hok as (O1 & O2 & O3 & O4 & O5 & O6).
    cbn [ents_subs map] in Hc. subst cache. cbn [List.tl firstn] in *.
    cbn [lsubs_e] in *. cbn [ents_len] in Hk.
    pose proof (tot_n_nonneg _ (sums_lsubs nf _ O5)) as N1.
    rewrite tot_n_app in Hb.
    apply Forall_app in HC. destruct HC as [C1 C2].
    apply Forall_app. split; [exact C1|].
    apply (IH Htl eq_refl ltac:(lia) Hs O6 He ltac:(lia) C2 Cs).
  - (* split *)
    intros e ch tl s cache ax ch' ax1 t1 n1 t2 n2 ax2 HI IH Hsp (Le & Hch & Htl) Hc Hk Hs Hok He Hb HC Cs.
    change (shape_e nf tl) in Htl. change (shape nf ch) in Hch.
    destruct Hok as (O1 & O2 & O3 & O4 & O5 & O6).
    cbn [lsubs_e] in *.
    pose proof (tot_n_nonneg _ (sums_lsubs_e nf _ O6)) as N2.
    rewrite tot_n_app in Hb.
    apply Forall_app in HC. destruct HC as [C1 C2].
    pose proof (IH Hch Hs O5 He ltac:(lia) C1 Cs) as I0.
    destruct (Ins_sums fexp nf c thr Hsim _ _ _ _ _ _ HI Hch Hs O5 He ltac:(lia)) as (I1 & I2 & _).
    pose proof (Ins_shape fexp nf c thr Hsim _ _ _ _ _ _ HI Hch Hs) as Sch'.
    pose proof (shape_entries_pos _ _ _ _ _ _ _ _ _ _ HI eq_refl Sch') as H2.
    assert (Hb2 : tot_n (lsubs ch') < 2^64) by lia.
    destruct (split_sums_full fexp nf thr Hsim _ _ _ _ _ _ _ Sch' I1 H2 Hb2 Hsp)
      as (_ & _ & _ & _ & PP).
    rewrite lsubs_e_app1.
    apply (Forall_perm _ (lsubs ch' ++ lsubs_e tl)).
    + rewrite <- PP. rewrite <- !app_assoc. apply Permutation_app_head, Permutation_app_comm.
    + apply Forall_app. split; assumption.
  - (* nosplit *)
    intros e ch tl s cache ax ch' ax1 HI IH (Le & Hch & Htl) Hc Hk Hs Hok He Hb HC Cs.
    change (shape_e nf tl) in Htl. change (shape nf ch) in Hch.
    destruct Hok as (O1 & O2 & O3 & O4 & O5 & O6).
    cbn [lsubs_e] in *.
    pose proof (tot_n_nonneg _ (sums_lsubs_e nf _ O6)) as N2.
    rewrite tot_n_app in Hb.
    apply Forall_app in HC. destruct HC as [C1 C2].
    apply Forall_app. split; [|exact C2].
    apply (IH Hch Hs O5 He ltac:(lia) C1 Cs).
Qed.

(* the hypotheses of [insert_root_cnt] minus the ones on [cnt_ok], which play no role here *)
Lemma insert_root_gb bf root s ax root' ax' :
  1 <= bf -> shape nf root -> sums_ok nf root -> Forall (gbound_ok H) (lsubs root) ->
  sub_len nf s -> sub_exact s -> gbound_ok H s ->
  tot_n (lsubs root) + sn s < 2^64 ->
  insert_root fexp nf c thr bf root s ax = (root', ax') ->
  Forall (gbound_ok H) (lsubs root').
Proof.
  intros Hbf Hr Hok HC Hs He Cs Hb. unfold insert_root.
  destruct (insert fexp nf c thr root s ax) as [[r sp] ax1] eqn:Hi.
  apply insert_Ins in Hi.
  pose proof (Ins_shape fexp nf c thr Hsim _ _ _ _ _ _ Hi Hr Hs) as Hr'.
  pose proof (proj1 Ins_gb_mut _ _ _ _ _ _ Hi Hr Hs Hok He Hb HC Cs) as I0.
  destruct (Ins_sums fexp nf c thr Hsim _ _ _ _ _ _ Hi Hr Hs Hok He Hb) as (I1 & I2 & _).
  destruct sp.
  - pose proof (shape_entries_pos _ _ _ _ _ _ _ _ _ _ Hi eq_refl Hr') as H2.
    destruct (split_node nf r ax1) as [[[t1 n1] [t2 n2]] ax2] eqn:Hsp.
    assert (Hb2 : tot_n (lsubs r) < 2^64) by lia.
    destruct (split_sums_full fexp nf thr Hsim _ _ _ _ _ _ _ Hr' I1 H2 Hb2 Hsp)
      as (_ & _ & _ & _ & PP).
    intros E. inversion E; subst root' ax'. cbn [lsubs lsubs_e]. rewrite app_nil_r.
    apply (Forall_perm _ (lsubs r)); [symmetry; exact PP|exact I0].
  - intros E. inversion E; subst root' ax'. exact I0.
Qed.
End A1.
(* ---------- one insertion at state level ---------- *)
Lemma insert_st_gb H st cf s dn r :
  st_inv st -> root st = Some r -> 2 <= c_bf cf ->
  sub_len (nfeat st) s -> sub_exact s -> dn = sn s -> nfit st + dn < 2 ^ 64 ->
  In (c_crit cf, c_thr cf) H -> gbound_ok H s -> gleaves H st ->
  gleaves H (insert_st fexp cf st s dn).
Proof.
  intros Hinv Hr Hbf Ls Es Hdn Hb Hin Bs HL.
  unfold gleaves in HL |- *. unfold insert_st. rewrite Hr in HL |- *.
  destruct Hinv as (_ & Hinv). rewrite Hr in Hinv.
  destruct Hinv as (Hnf & (Hsh & _ & Hsu & _) & Hn & _).
  destruct (insert_root fexp (nfeat st) (c_crit cf) (c_thr cf) (c_bf cf) r s (sax st))
    as [r' ax'] eqn:Hi.
  cbn [root]. subst dn. rewrite Hn in Hb.
  assert (Hbf1 : 1 <= c_bf cf) by lia.
  exact (insert_root_gb (nfeat st) _ _ H (sim_max_nf _ Hnf) Hin _ _ _ _ _ _
           Hbf1 Hsh Hsu HL Ls Es Bs Hb Hi).
Qed.

(* ---------- fit ---------- *)
Lemma fit_rows_gb H cf rows : forall st labs,
  st_inv st -> root st <> None -> 2 <= c_bf cf ->
  Forall (row_ok (nfeat st)) rows -> nfit st + zlen rows < 2 ^ 64 ->
  In (c_crit cf, c_thr cf) H -> gleaves H st ->
  gleaves H (fst (fit_rows fexp cf st rows labs)).
Proof.
  induction rows as [|row rows IH]; intros st labs Hinv Hr Hbf Hrows Hb Hin HL.
  - cbn [fit_rows fst]. exact HL.
  - inversion Hrows as [|? ? Hrow Hrows']; subst.
    rewrite zlen_cons in Hb. pose proof (zlen_nonneg rows) as Hz.
    destruct row as [fp|]; destruct labs as [|l labs]; cbn [fit_rows fst]; try exact HL.
    destruct (root st) as [r|] eqn:Er; [|congruence].
    cbn [row_ok] in Hrow.
    destruct (singleton_good (nfeat st) fp l Hrow) as (G1 & G2 & G3).
    destruct (insert_st_inv fexp st cf (singleton fp l) 1 r Hinv Er Hbf G1 G2 G3 eq_refl ltac:(lia))
      as (I1 & I2 & I3 & I4 & I5 & I6 & I7).
    pose proof (insert_st_gb H st cf (singleton fp l) 1 r Hinv Er Hbf G1 G2 eq_refl
                  ltac:(lia) Hin (gb_single H (singleton fp l) eq_refl) HL) as HL1.
    remember (insert_st fexp cf st (singleton fp l) 1) as st1 eqn:Est1.
    rewrite <- I3 in Hrows'.
    apply (IH st1 labs I1 I5 Hbf Hrows' ltac:(lia) Hin HL1).
Qed.

Lemma initialize_gb H st nf : gleaves H (initialize st nf).
Proof. unfold gleaves, initialize. cbn [root lsubs]. constructor. Qed.

Lemma do_fit_gb H st rows :
  st_inv st -> nf_ok st -> op_wf st (OFit rows None) ->
  In (cfg_pair st) H -> gleaves H st ->
  gleaves H (fst (do_fit fexp st rows None)).
Proof.
  intros Hinv Hnf (_ & Hrows & Hb) Hin HL. unfold do_fit.
  destruct rows as [|r0 rows]; [exact HL|].
  destruct (released st) eqn:Erel; [exact HL|].
  unfold is_init.
  destruct (root st) as [r|] eqn:Er.
  - assert (Hr : root st <> None) by congruence.
    exact (fit_rows_gb H (cfg st) (r0 :: rows) st _ Hinv Hr (proj1 Hinv) Hrows Hb Hin HL).
  - destruct r0 as [fp|].
    + destruct Hrows as (Hrows & Hfp).
      pose proof (initialize_inv st (length fp) Hinv Er Hfp) as I1.
      pose proof (initialize_gb H st (length fp)) as HL1.
      remember (initialize st (length fp)) as st1 eqn:Est1.
      assert (E1 : nfit st1 = nfit st) by (subst st1; reflexivity).
      assert (E2 : nfeat st1 = length fp) by (subst st1; reflexivity).
      assert (E3 : root st1 <> None) by (subst st1; discriminate).
      assert (E5 : cfg st1 = cfg st) by (subst st1; reflexivity).
      rewrite <- E2 in Hrows. rewrite <- E1 in Hb.
      assert (Hbf1 : 2 <= c_bf (cfg st1)) by (rewrite E5; exact (proj1 Hinv)).
      assert (Hin1 : In (c_crit (cfg st1), c_thr (cfg st1)) H) by (rewrite E5; exact Hin).
      exact (fit_rows_gb H (cfg st1) (Some fp :: rows) st1 _ I1 E3 Hbf1 Hrows Hb Hin1 HL1).
    + cbn [length zseq fit_rows fst]. apply initialize_gb.
Qed.

(* ---------- re-inserting buffers ---------- *)
Lemma fit_bufs_gb H cf nf w g : forall st,
  st_inv st -> root st <> None -> nfeat st = nf -> 2 <= c_bf cf ->
  Forall (fun b => good_sub nf b /\ sw b = w) g ->
  nfit st + tot_n g < 2 ^ 64 ->
  In (c_crit cf, c_thr cf) H -> Forall (gbound_ok H) g -> gleaves H st ->
  gleaves H (fst (fit_bufs fexp cf st w g)).
Proof.
  induction g as [|b g IH]; intros st Hinv Hr Hnf Hbf Hg Hb Hin HB HL.
  - cbn [fit_bufs fst]. exact HL.
  - pose proof (Forall_inv Hg) as ((G1 & G2 & G3) & Gw). pose proof (Forall_inv_tail Hg) as Hg'.
    pose proof (Forall_inv HB) as Bb. pose proof (Forall_inv_tail HB) as HB'.
    rewrite tot_n_cons in Hb.
    assert (Hex : Forall sub_exact g).
    { eapply Forall_impl; [|exact Hg']. cbv beta. intros a ((_ & Hq & _) & _). exact Hq. }
    pose proof (tot_n_nonneg g Hex) as Hg0.
    cbn [fit_bufs]. pose proof G3 as G3'. unfold cnt_ok in G3'.
    rewrite <- G3', Z.eqb_refl. rewrite <- Gw. rewrite sub_of_buffer_id by exact G2.
    rewrite Gw.
    destruct (root st) as [r|] eqn:Er; [|congruence].
    rewrite <- Hnf in G1.
    destruct (insert_st_inv fexp st cf b (sn b) r Hinv Er Hbf G1 G2 G3 eq_refl ltac:(lia))
      as (I1 & I2 & I3 & I4 & I5 & I6 & I7).
    pose proof (insert_st_gb H st cf b (sn b) r Hinv Er Hbf G1 G2 eq_refl ltac:(lia)
                  Hin Bb HL) as HL1.
    remember (insert_st fexp cf st b (sn b)) as st1 eqn:Est1.
    apply (IH st1 I1 I5 ltac:(congruence) Hbf Hg' ltac:(lia) Hin HB' HL1).
Qed.

Lemma do_fit_buffers_gb H nf w g st :
  st_inv st -> init_for nf st -> Z.of_nat nf < 2 ^ 52 ->
  Forall (fun b => good_sub nf b /\ sw b = w) g ->
  nfit st + tot_n g < 2 ^ 64 ->
  In (cfg_pair st) H -> Forall (gbound_ok H) g -> gleaves H st ->
  gleaves H (fst (do_fit_buffers fexp st w g)).
Proof.
  intros Hinv Hinit Hnf Hg Hb Hin HB HL.
  destruct g as [|b0 g]; [exact HL|]. unfold do_fit_buffers.
  destruct (released st); [exact HL|]. unfold is_init.
  destruct (root st) as [r|] eqn:Er.
  - destruct Hinit as [Hi|(_ & Hi)]; [rewrite Er in Hi; discriminate|].
    assert (Hr : root st <> None) by congruence.
    exact (fit_bufs_gb H (cfg st) nf w (b0 :: g) st Hinv Hr Hi (proj1 Hinv) Hg Hb Hin HB HL).
  - pose proof (Forall_inv Hg) as (((L0 & _) & _) & _).
    rewrite L0.
    pose proof (initialize_inv st nf Hinv Er Hnf) as I1.
    pose proof (initialize_gb H st nf) as HL1.
    remember (initialize st nf) as st1 eqn:Est1.
    assert (E1 : nfit st1 = nfit st) by (subst st1; reflexivity).
    assert (E2 : nfeat st1 = nf) by (subst st1; reflexivity).
    assert (E3 : root st1 <> None) by (subst st1; discriminate).
    assert (E5 : cfg st1 = cfg st) by (subst st1; reflexivity).
    assert (Hbf1 : 2 <= c_bf (cfg st1)) by (rewrite E5; exact (proj1 Hinv)).
    assert (Hin1 : In (c_crit (cfg st1), c_thr (cfg st1)) H) by (rewrite E5; exact Hin).
    rewrite <- E1 in Hb.
    exact (fit_bufs_gb H (cfg st1) nf w (b0 :: g) st1 I1 E3 E2 Hbf1 Hg Hb Hin1 HB HL1).
Qed.

Lemma fit_groups_gb H nf gs : forall st,
  st_inv st -> released st = false -> init_for nf st -> Z.of_nat nf < 2 ^ 52 ->
  groups_ok nf gs -> nfit st + tot_n (gsubs gs) < 2 ^ 64 ->
  In (cfg_pair st) H -> Forall (gbound_ok H) (gsubs gs) -> gleaves H st ->
  gleaves H (fst (fit_groups fexp st gs)).
Proof.
  induction gs as [|[w g] gs IH]; intros st Hinv Hrel Hinit Hnf Hgs Hb Hin HB HL.
  - cbn [fit_groups fst]. exact HL.
  - pose proof (Forall_inv Hgs) as (Hne & Hg). pose proof (Forall_inv_tail Hgs) as Hgs'.
    cbn [fst snd] in Hne, Hg.
    pose proof (groups_ok_exact nf gs Hgs') as Hex.
    pose proof (tot_n_nonneg _ Hex) as H0.
    unfold gsubs in Hb, HB. cbn [map snd concat] in Hb, HB. fold (gsubs gs) in Hb, HB.
    rewrite tot_n_app in Hb. apply Forall_app in HB. destruct HB as [HB1 HB2].
    pose proof (do_fit_buffers_gb H nf w g st Hinv Hinit Hnf Hg ltac:(lia) Hin HB1 HL) as HL1.
    destruct (do_fit_buffers_inv fexp nf w g st Hinv Hrel Hinit Hnf Hne Hg ltac:(lia))
      as (st1 & F & J1 & J2 & J3 & J4 & J5 & J6 & J7 & J8 & J9).
    cbn [fit_groups]. rewrite F in HL1 |- *. cbn [fst] in HL1.
    assert (Hinit1 : init_for nf st1) by (right; split; assumption).
    assert (Hin1 : In (cfg_pair st1) H) by (unfold cfg_pair; rewrite J2; exact Hin).
    apply (IH st1 J1 J4 Hinit1 Hnf Hgs' ltac:(lia) Hin1 HB2 HL1).
Qed.

(* ================= 6a. what the API reports ================= *)
Theorem reported_gb H st :
  st_inv st -> gleaves H st -> Forall (gbound_ok H) (sorted_leaves st).
Proof.
  intros Hinv HL. unfold gleaves in HL. destruct (root st) as [r|] eqn:Er.
  - apply (Forall_perm _ (lsubs r)); [|exact HL].
    symmetry. apply sorted_leaves_perm; assumption.
  - rewrite sorted_leaves_none by exact Er. constructor.
Qed.

(* ---------- rebuilding from the leaves of another tree ---------- *)
Lemma rebuild_core_gb H st st1 gs :
  st_inv st -> nf_ok st ->
  st_inv st1 -> root st1 = None -> released st1 = false ->
  groups_ok (nfeat st) gs -> tot_n (gsubs gs) = nfit st ->
  In (cfg_pair st1) H -> Forall (gbound_ok H) (gsubs gs) ->
  gleaves H (fst (fit_groups fexp st1 gs)).
Proof.
  intros Hinv Hnf Hinv1 Hr1 Hrel1 Hgs Htot Hin HB.
  assert (Hn1 : nfit st1 = 0).
  { destruct Hinv1 as (_ & Hq). rewrite Hr1 in Hq. tauto. }
  assert (Hb : nfit st1 + tot_n (gsubs gs) < 2 ^ 64).
  { rewrite Hn1, Htot. destruct Hinv as (_ & Hq). destruct (root st); [lia|].
    destruct Hq as (-> & _). lia. }
  apply (fit_groups_gb H (nfeat st) gs st1 Hinv1 Hrel1 (or_introl Hr1) Hnf Hgs Hb Hin HB).
  unfold gleaves. rewrite Hr1. exact I.
Qed.

Lemma rebuild_gleaves H st t bfs' :
  st_inv st -> nf_ok st -> Permutation bfs' (sorted_leaves st) ->
  gleaves H st -> In (c_crit (cfg st), t) H ->
  gleaves H (fst (fit_groups fexp (set_thr (reset_st st) t) (prepare_groups bfs'))).
Proof.
  intros Hinv Hnf HP HL Hin.
  destruct (reset_thr_inv st t Hinv) as (R1 & R2 & R3 & R4 & _).
  pose proof (prepare_groups_perm bfs') as PG.
  assert (PG' : Permutation (gsubs (prepare_groups bfs')) (sorted_leaves st))
    by (etransitivity; eassumption).
  assert (Hok : groups_ok (nfeat st) (prepare_groups bfs')).
  { apply groups_wf_ok; [apply prepare_groups_wf|].
    apply (Forall_perm _ (sorted_leaves st)); [symmetry; exact PG'|].
    apply sorted_leaves_good, Hinv. }
  assert (Htot : tot_n (gsubs (prepare_groups bfs')) = nfit st).
  { rewrite (tot_n_perm _ _ PG'). apply sorted_leaves_tot, Hinv. }
  apply (rebuild_core_gb H st _ _ Hinv Hnf R1 R2 R3 Hok Htot).
  - exact Hin.
  - apply (Forall_perm _ (sorted_leaves st)); [symmetry; exact PG'|].
    apply reported_gb; assumption.
Qed.


(* ---------- recluster ---------- *)
Lemma recluster_loop_gb H iters : forall st extra perms se before,
  st_inv st -> nf_ok st -> numbered st -> perms_fit fexp iters st extra perms se before ->
  gleaves H st ->
  incl (rec_pairs iters (c_crit (cfg st)) (c_thr (cfg st)) extra) H ->
  gleaves H (fst (recluster_loop fexp iters st extra perms se before)).
Proof.
  induction iters as [|k IH]; intros st extra perms se before Hinv Hnf Hnum Hpf HL Hin.
  - cbn [recluster_loop fst]. exact HL.
  - cbn [recluster_loop perms_fit rec_pairs] in *.
    destruct (se && ((count_singletons (sorted_leaves st) =? 0)
                     || (count_singletons (sorted_leaves st) =? before))).
    + cbn [fst]. exact HL.
    + assert (Hin0 : In (c_crit (cfg st), (c_thr (cfg st) + extra)%float) H)
        by (apply Hin; left; reflexivity).
      assert (Hin' : incl (rec_pairs k (c_crit (cfg st)) (c_thr (cfg st) + extra)%float extra) H)
        by (intros x Hx; apply Hin; right; exact Hx).
      destruct perms as [|p ps].
      * destruct (rebuild_leaves fexp st (c_thr (cfg st) + extra)%float (sorted_leaves st)
                                 Hinv Hnf Hnum (Permutation_refl _))
          as (st2 & F & K1 & K2 & K3 & K4 & K5).
        pose proof (rebuild_gleaves H st (c_thr (cfg st) + extra)%float (sorted_leaves st)
                      Hinv Hnf (Permutation_refl _) HL Hin0) as HL2.
        pose proof (fit_groups_cfg fexp (prepare_groups (sorted_leaves st))
                      (set_thr (reset_st st) (c_thr (cfg st) + extra)%float)) as Ec.
        rewrite F in HL2, Ec |- *. cbn [fst] in HL2, Ec.
        apply (IH st2 extra [] se (count_singletons (sorted_leaves st)) K1 K2 K3
                  (perms_fit_nil fexp _ _ _ _ _) HL2).
        rewrite Ec. unfold set_thr. cbn [cfg c_crit c_thr]. exact Hin'.
      * destruct Hpf as (Hp & Hpf).
        destruct (rebuild_leaves fexp st (c_thr (cfg st) + extra)%float
                                 (permute (sorted_leaves st) p)
                                 Hinv Hnf Hnum (permute_perm _ _ Hp))
          as (st2 & F & K1 & K2 & K3 & K4 & K5).
        pose proof (rebuild_gleaves H st (c_thr (cfg st) + extra)%float
                      (permute (sorted_leaves st) p)
                      Hinv Hnf (permute_perm _ _ Hp) HL Hin0) as HL2.
        pose proof (fit_groups_cfg fexp (prepare_groups (permute (sorted_leaves st) p))
                      (set_thr (reset_st st) (c_thr (cfg st) + extra)%float)) as Ec.
        rewrite F in Hpf, HL2, Ec |- *. cbn [fst] in HL2, Ec.
        apply (IH st2 extra ps se (count_singletons (sorted_leaves st)) K1 K2 K3 Hpf HL2).
        rewrite Ec. unfold set_thr. cbn [cfg c_crit c_thr]. exact Hin'.
Qed.

Lemma do_recluster_gb H st iters extra perms se :
  st_inv st -> numbered st -> recluster_perms_ok fexp st iters extra perms se ->
  gleaves H st ->
  incl (rec_pairs iters (c_crit (cfg st)) (c_thr (cfg st)) extra) H ->
  gleaves H (fst (do_recluster fexp st iters extra perms se)).
Proof.
  intros Hinv Hnum Hpf HL Hin. unfold do_recluster, is_init.
  destruct (root st) as [r|] eqn:Er; cbn [negb fst]; [|exact HL].
  assert (Hnf : nf_ok st) by (apply st_inv_nf_ok; [exact Hinv|congruence]).
  exact (recluster_loop_gb H iters st extra perms se 0 Hinv Hnf Hnum Hpf HL Hin).
Qed.
Lemma refine_groups_gb H st1 (X : list fpv) im nl gs :
  st_inv st1 -> Forall (fun fp : fpv => length fp = nfeat st1) X ->
  gleaves H st1 ->
  refine_groups st1 X im nl = Some gs ->
  groups_ok (nfeat st1) gs /\ tot_n (gsubs gs) = nfit st1 /\ Forall (gbound_ok H) (gsubs gs).
Proof.
  intros Hinv HX HL Hrg.
  pose proof (sorted_leaves_good st1 Hinv) as Hgood.
  pose proof (sorted_leaves_tot st1 Hinv) as Htot.
  pose proof (reported_gb H st1 Hinv HL) as Hbd.
  unfold refine_groups in Hrg.
  destruct (nl =? 0) eqn:E0.
  - injection Hrg as <-.
    pose proof (prepare_groups_perm (sorted_leaves st1)) as PG.
    refine (conj _ (conj _ _)).
    + apply groups_wf_ok; [apply prepare_groups_wf|].
      apply (Forall_perm _ (sorted_leaves st1)); [symmetry; exact PG|exact Hgood].
    + rewrite (tot_n_perm _ _ PG). exact Htot.
    + apply (Forall_perm _ (sorted_leaves st1)); [symmetry; exact PG|exact Hbd].
  - destruct (nl <? 1); [discriminate|].
    remember (Z.to_nat nl) as k eqn:Ek.
    remember (sorted_leaves st1) as bfs eqn:Ebfs.
    destruct (firstn k bfs) as [|l0 lt] eqn:El; [discriminate|]. rewrite <- El in Hrg.
    destruct (explode_all X im (firstn k bfs)) as [singles|] eqn:Ex; [|discriminate].
    injection Hrg as <-.
    destruct (firstn_skipn_Forall _ k bfs Hgood) as (G1 & G2).
    destruct (firstn_skipn_Forall _ k bfs Hbd) as (B1 & B2).
    assert (HC : Forall cnt_ok (firstn k bfs)).
    { eapply Forall_impl; [|exact G1]. cbv beta. intros a (_ & _ & Hq). exact Hq. }
    destruct (explode_all_spec (nfeat st1) X im _ singles HX HC Ex) as (S1 & S2 & S3).
    assert (SW : Forall (fun b => sw b = W8) singles).
    { eapply Forall_impl; [|exact S1]. cbv beta. tauto. }
    assert (SG : Forall (good_sub (nfeat st1)) singles).
    { eapply Forall_impl; [|exact S1]. cbv beta. tauto. }
    assert (SB : Forall (gbound_ok H) singles).
    { eapply Forall_impl; [|exact (explode_all_sn X im _ singles Ex)]. cbv beta.
      intros a Ha. apply gb_single, Ha. }
    pose proof (prepare_groups_perm (skipn k bfs)) as PG.
    pose proof (fold_group_add_perm (fun _ => W8) singles (prepare_groups (skipn k bfs))) as PF.
    cbv beta in PF.
    assert (PP : Permutation
                   (gsubs (fold_left (fun gs b => group_add W8 b gs) singles
                                     (prepare_groups (skipn k bfs))))
                   (skipn k bfs ++ singles)).
    { etransitivity; [exact PF|]. apply Permutation_app_tail. exact PG. }
    refine (conj _ (conj _ _)).
    + apply groups_wf_ok.
      * apply (fold_group_add_wf (fun _ => W8)); [exact SW|apply prepare_groups_wf].
      * apply (Forall_perm _ (skipn k bfs ++ singles)); [symmetry; exact PP|].
        apply Forall_app. split; assumption.
    + rewrite (tot_n_perm _ _ PP), tot_n_app, S3, <- Htot.
      rewrite <- (firstn_skipn k bfs) at 3. rewrite tot_n_app. lia.
    + apply (Forall_perm _ (skipn k bfs ++ singles)); [symmetry; exact PP|].
      apply Forall_app. split; assumption.
Qed.

Lemma do_refine_gb H st X im nl :
  st_inv st -> op_wf st (ORefine X im nl) ->
  In (cfg_pair st) H -> gleaves H st ->
  gleaves H (fst (do_refine fexp st X im nl)).
Proof.
  intros Hinv HX Hin HL. cbn [op_wf] in HX. unfold do_refine, is_init.
  destruct (root st) as [r|] eqn:Er; cbn [negb]; [|cbn [fst]; exact HL].
  destruct (delete_internal_spec st Hinv) as (D1 & D2 & D3 & D4 & D5 & D6 & D7).
  destruct (delete_internal st) as [st1 o] eqn:Ed. cbn [fst snd] in *.
  assert (HL1 : gleaves H st1).
  { unfold gleaves in HL |- *. rewrite D3. exact HL. }
  destruct o; [|exact HL1].
  destruct (refine_groups st1 X im nl) as [gs|] eqn:Eg; [|exact HL1].
  assert (Hr1 : root st1 <> None) by (rewrite D3, Er; discriminate).
  pose proof (st_inv_nf_ok st1 D1 Hr1) as Hnf1.
  rewrite <- D6 in HX.
  destruct (refine_groups_gb H st1 X im nl gs D1 HX HL1 Eg) as (Q1 & Q2 & Q3).
  destruct (reset_inv st1 D1) as (R1 & R2 & R3 & R4 & R5).
  apply (rebuild_core_gb H st1 (reset_st st1) gs D1 Hnf1 R1 R2 R3 Q1 Q2); [|exact Q3].
  unfold cfg_pair. rewrite R5, D2. exact Hin.
Qed.

(* ---------- one operation ---------- *)
Lemma step_gb H st o :
  st_inv st -> nf_ok st -> numbered st -> op_wf st o -> op_perms_ok fexp st o ->
  gleaves H st -> incl (op_pairs st o) H ->
  gleaves H (fst (step fexp st o)).
Proof.
  intros Hinv Hnf Hnum Hwf Hp HL Hin.
  destruct o as [rows labels|X im nl|it ex ps se|c t b| |]; cbn [step op_pairs] in *.
  - pose proof Hwf as (-> & _).
    apply (do_fit_gb H st rows Hinv Hnf Hwf); [|exact HL]. apply Hin. left. reflexivity.
  - apply (do_refine_gb H st X im nl Hinv Hwf); [|exact HL]. apply Hin. left. reflexivity.
  - exact (do_recluster_gb H st it ex ps se Hinv Hnum Hp HL Hin).
  - cbn [fst]. exact HL.
  - destruct (delete_internal_spec st Hinv) as (_ & _ & D3 & _).
    unfold gleaves in HL |- *. rewrite D3. exact HL.
  - cbn [fst]. exact I.
Qed.
End G.

(* ================= TARGET 1: one step ================= *)
Definition kept (old : list sub) (s : sub) : Prop :=
  sn s <= 1 \/ exists s0, In s0 old /\ same_cluster s0 s.

Lemma kept_single old s : sn s <= 1 -> kept old s.
Proof. intros Hs. left. exact Hs. Qed.

Lemma gbound_kept_grown old P s : gbound_ok (kept old) P s <-> grown_ok old P s.
Proof. unfold gbound_ok, kept, grown_ok. tauto. Qed.

Theorem step_grown st o :
  st_inv st -> nf_ok st -> numbered st -> op_wf st o -> op_perms_ok fexp st o ->
  Forall (grown_ok (sorted_leaves st) (op_pairs st o)) (sorted_leaves (fst (step fexp st o))).
Proof.
  intros Hinv Hnf Hnum Hwf Hp.
  pose (old := sorted_leaves st).
  assert (HL : gleaves (kept old) (op_pairs st o) st).
  { unfold gleaves. destruct (root st) as [r|] eqn:Er; [|exact I].
    apply Forall_forall. intros s Hs. left. right. exists s. split; [|apply same_cluster_refl].
    unfold old. apply (Permutation_in s (Permutation_sym (sorted_leaves_perm st r Hinv Er))).
    exact Hs. }
  pose proof (step_gb (kept old) (kept_single old) (op_pairs st o) st o Hinv Hnf Hnum Hwf Hp HL
                (incl_refl _)) as HL1.
  destruct (step_inv_alt fexp st o Hinv Hnf Hnum Hwf Hp) as (Hinv1 & _ & _).
  eapply Forall_impl; [|exact (reported_gb (kept old) _ _ Hinv1 HL1)].
  intros s. apply gbound_kept_grown.
Qed.

(* the same at the level of the tree's own leaf list, before sorting *)
Corollary step_grown_lsubs st o r r' :
  st_inv st -> nf_ok st -> numbered st -> op_wf st o -> op_perms_ok fexp st o ->
  root st = Some r -> root (fst (step fexp st o)) = Some r' ->
  Forall (grown_ok (lsubs r) (op_pairs st o)) (lsubs r').
Proof.
  intros Hinv Hnf Hnum Hwf Hp Er Er'.
  destruct (step_inv_alt fexp st o Hinv Hnf Hnum Hwf Hp) as (Hinv1 & _ & _).
  pose proof (step_grown st o Hinv Hnf Hnum Hwf Hp) as HG.
  apply (Forall_perm _ _ _ (sorted_leaves_perm _ r' Hinv1 Er')) in HG.
  eapply Forall_impl; [|exact HG]. cbv beta.
  intros s [Hs|[(s0 & Hin & Hsc)|Hm]]; [left; exact Hs| |right; right; exact Hm].
  right. left. exists s0. split; [|exact Hsc].
  exact (Permutation_in s0 (sorted_leaves_perm st r Hinv Er) Hin).
Qed.

(* ================= TARGET 3: the old reading follows ================= *)
Lemma grown_bound_ok old P H s :
  grown_ok old P s -> Forall (bound_ok H) old -> incl P H -> bound_ok H s.
Proof.
  intros [Hs|[(s0 & Hin & Hsc)|(c & t & Hin & Hm)]] Hold Hincl.
  - left. exact Hs.
  - rewrite Forall_forall in Hold. destruct (Hold s0 Hin) as [H0|(c & t & Hc & Hm)].
    + left. destruct Hsc as (_ & _ & <-). exact H0.
    + right. exists c, t. split; [exact Hc|exact (meets_same c t s0 s Hsc Hm)].
  - right. exists c, t. split; [apply Hincl, Hin|exact Hm].
Qed.

(* [step_bound] of BirchBound.v re-derived from [step_grown] *)
Corollary step_reported_bound_from_grown H st o :
  st_inv st -> nf_ok st -> numbered st -> op_wf st o -> op_perms_ok fexp st o ->
  Forall (bound_ok H) (sorted_leaves st) -> incl (op_pairs st o) H ->
  Forall (bound_ok H) (sorted_leaves (fst (step fexp st o))).
Proof.
  intros Hinv Hnf Hnum Hwf Hp Hold Hincl.
  eapply Forall_impl; [|exact (step_grown st o Hinv Hnf Hnum Hwf Hp)]. cbv beta.
  intros s Hg. exact (grown_bound_ok _ _ H s Hg Hold Hincl).
Qed.

(* ================= TARGET 2: traces ================= *)
(* [s] is reported (up to [same_cluster]) by every state reached along [ops] from [st0],
   the starting state included *)
Definition unchanged_from (st0 : state) (ops : list op) (s : sub) : Prop :=
  forall post1 post2, ops = post1 ++ post2 ->
    exists s2, In s2 (sorted_leaves (run_from fexp st0 post1)) /\ same_cluster s2 s.

Definition last_grown (st0 : state) (ops : list op) (s : sub) : Prop :=
  sn s <= 1 \/
  unchanged_from st0 ops s \/
  exists pre o post c t,
    ops = pre ++ o :: post /\
    In (c, t) (op_pairs (run_from fexp st0 pre) o) /\ meets c t s /\
    unchanged_from (fst (step fexp (run_from fexp st0 pre) o)) post s.

Lemma run_from_cons st o ops :
  run_from fexp st (o :: ops) = run_from fexp (fst (step fexp st o)) ops.
Proof. reflexivity. Qed.

Lemma run_from_app st ops1 ops2 :
  run_from fexp st (ops1 ++ ops2) = run_from fexp (run_from fexp st ops1) ops2.
Proof. unfold run_from. apply fold_left_app. Qed.

Lemma unchanged_cons st o ops s s0 :
  In s0 (sorted_leaves st) -> same_cluster s0 s ->
  unchanged_from (fst (step fexp st o)) ops s -> unchanged_from st (o :: ops) s.
Proof.
  intros Hin Hsc Hu post1 post2 E. destruct post1 as [|o1 p1].
  - exists s0. split; assumption.
  - cbn [app] in E. injection E as <- E. rewrite run_from_cons. exact (Hu p1 post2 E).
Qed.

Theorem run_from_last_grown ops : forall st,
  st_inv st -> nf_ok st -> numbered st -> ops_wf fexp st ops -> ops_perms_ok fexp st ops ->
  Forall (last_grown st ops) (sorted_leaves (run_from fexp st ops)).
Proof.
  induction ops as [|o ops IH]; intros st Hinv Hnf Hnum Hwf Hp.
  - apply Forall_forall. intros s Hs. right. left. intros post1 post2 E.
    symmetry in E. apply app_eq_nil in E. destruct E as (-> & _).
    exists s. split; [exact Hs|apply same_cluster_refl].
  - destruct Hwf as (W1 & W2). destruct Hp as (P1 & P2).
    destruct (step_inv_alt fexp st o Hinv Hnf Hnum W1 P1) as (A & B & C).
    pose proof (step_grown st o Hinv Hnf Hnum W1 P1) as HG. rewrite Forall_forall in HG.
    rewrite run_from_cons.
    eapply Forall_impl; [|exact (IH _ A B C W2 P2)]. cbv beta.
    intros s [Hs|[Hu|(pre & o' & post & c & t & E & Hin & Hm & Hu)]].
    + left. exact Hs.
    + destruct (Hu [] ops eq_refl) as (s2 & Hin2 & Hsc2). cbn in Hin2.
      destruct (HG s2 Hin2) as [Hs2|[(s0 & Hin0 & Hsc0)|(c & t & Hin & Hm)]].
      * left. destruct Hsc2 as (_ & _ & <-). exact Hs2.
      * right. left. apply (unchanged_cons st o ops s s0 Hin0); [|exact Hu].
        exact (same_cluster_trans _ _ _ Hsc0 Hsc2).
      * right. right. exists [], o, ops, c, t.
        refine (conj eq_refl (conj Hin (conj (meets_same c t s2 s Hsc2 Hm) Hu))).
    + right. right. exists (o :: pre), o', post, c, t. rewrite run_from_cons.
      refine (conj _ (conj Hin (conj Hm Hu))). cbn [app]. rewrite E. reflexivity.
Qed.

Lemma run_run_from cfg0 ops : run fexp cfg0 ops = run_from fexp (init cfg0) ops.
Proof. reflexivity. Qed.

Lemma sorted_leaves_init cfg0 : sorted_leaves (init cfg0) = [].
Proof. apply sorted_leaves_none. reflexivity. Qed.

Theorem run_last_grown cfg0 ops :
  2 <= c_bf cfg0 -> ops_wf fexp (init cfg0) ops -> ops_perms_ok fexp (init cfg0) ops ->
  Forall (fun s =>
    sn s <= 1 \/
    exists pre o post st_k c t,
      ops = pre ++ o :: post /\ st_k = run fexp cfg0 pre /\
      In (c, t) (op_pairs st_k o) /\ meets c t s /\
      (exists s1, In s1 (sorted_leaves (fst (step fexp st_k o))) /\ same_cluster s1 s) /\
      (forall post1 post2, post = post1 ++ post2 ->
         exists s2, In s2 (sorted_leaves (run fexp cfg0 (pre ++ o :: post1))) /\
                    same_cluster s2 s))
    (sorted_leaves (run fexp cfg0 ops)).
Proof.
  intros Hbf Hwf Hp. destruct (init_inv cfg0 Hbf) as (A & B & C).
  rewrite run_run_from.
  eapply Forall_impl; [|exact (run_from_last_grown ops (init cfg0) A B C Hwf Hp)]. cbv beta.
  intros s [Hs|[Hu|(pre & o & post & c & t & E & Hin & Hm & Hu)]].
  - left. exact Hs.
  - exfalso. destruct (Hu [] ops eq_refl) as (s2 & Hin2 & _). cbn [run_from fold_left] in Hin2.
    rewrite sorted_leaves_init in Hin2. exact Hin2.
  - right. exists pre, o, post, (run fexp cfg0 pre), c, t.
    refine (conj E (conj eq_refl (conj Hin (conj Hm (conj _ _))))).
    + exact (Hu [] post eq_refl).
    + intros post1 post2 E2. rewrite run_run_from, run_from_app, run_from_cons.
      exact (Hu post1 post2 E2).
Qed.

End WithExp.
