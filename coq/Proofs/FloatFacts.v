(* FloatFacts.v — exact facts about the primitive-float kernels of Model/Sim.v,
   proved through the Flocq bridge. *)
From BB Require Import Model.Sim.
From Coq Require Import ZArith List Bool Reals Lia Lra.
From Flocq Require Import Core BinarySingleNaN.
From Flocq Require Import IEEE754.PrimFloat.
Import ListNotations.
Open Scope Z_scope.

#[local] Existing Instance Hprec.
#[local] Existing Instance Hmax.

Notation fexp64 := (SpecFloat.fexp prec emax).
Notation rnd64 := (round radix2 fexp64 (round_mode mode_NE)).

(* ------------------------------------------------------------------ *)
(* Format facts                                                        *)
(* ------------------------------------------------------------------ *)

Lemma fmt_scaled : forall m e,
  Z.abs m < 2 ^ 53 -> -1074 <= e ->
  generic_format radix2 fexp64 (F2R (Float radix2 m e)).
Proof.
  intros m e Hm He.
  change fexp64 with (FLT_exp (-1074) 53).
  apply generic_format_FLT.
  apply FLT_spec with (f := Float radix2 m e); simpl; auto.
Qed.

Lemma F2R_int : forall m, F2R (Float radix2 m 0) = IZR m.
Proof. intros m. unfold F2R. simpl. ring. Qed.

Lemma fmt_int : forall m, Z.abs m < 2 ^ 53 -> generic_format radix2 fexp64 (IZR m).
Proof.
  intros m Hm. rewrite <- F2R_int. apply fmt_scaled; lia.
Qed.

Lemma rnd64_int : forall m, Z.abs m < 2 ^ 53 -> rnd64 (IZR m) = IZR m.
Proof.
  intros m Hm. apply round_generic; [ typeclasses eauto | apply fmt_int; exact Hm ].
Qed.

Lemma IZR_lt_emax : forall m, Z.abs m <= 2 ^ 53 ->
  (Rabs (IZR m) < bpow radix2 emax)%R.
Proof.
  intros m Hm. rewrite <- abs_IZR.
  apply Rle_lt_trans with (IZR (2 ^ 53)).
  - apply IZR_le. exact Hm.
  - change 2 with (radix_val radix2) at 1. rewrite IZR_Zpower by lia.
    apply bpow_lt. reflexivity.
Qed.

(* ------------------------------------------------------------------ *)
(* 1. Z2f is exact below 2^53                                          *)
(* ------------------------------------------------------------------ *)

Lemma Z2f_spec : forall z, 0 <= z < 2 ^ 53 ->
  is_finite (Prim2B (Z2f z)) = true /\
  B2R (Prim2B (Z2f z)) = IZR z /\
  Bsign (Prim2B (Z2f z)) = false.
Proof.
  intros z Hz. unfold Z2f.
  destruct (z <? 0) eqn:E0; [ apply Z.ltb_lt in E0; lia | ].
  destruct (z <? 9223372036854775808) eqn:E1;
    [ | apply Z.ltb_ge in E1; lia ].
  rewrite of_int63_equiv, Uint63.of_Z_spec.
  rewrite Z.mod_small by (change wB with (2 ^ 63); lia).
  generalize (binary_normalize_correct prec emax Hprec Hmax mode_NE z 0 false).
  cbv zeta. rewrite F2R_int.
  rewrite rnd64_int by lia.
  rewrite Rlt_bool_true by (apply IZR_lt_emax; lia).
  intros (HR & HF & HS). split; [ exact HF | split; [ exact HR | ] ].
  rewrite HS.
  destruct (Rcompare_spec (IZR z) 0) as [H | H | H]; auto.
  apply lt_IZR in H. lia.
Qed.

Lemma Z2f_exact : forall z, (0 <= z < 2^53)%Z ->
  is_finite (Prim2B (Z2f z)) = true /\ B2R (Prim2B (Z2f z)) = IZR z.
Proof.
  intros z Hz. destruct (Z2f_spec z Hz) as (HF & HR & _). split; assumption.
Qed.

(* ------------------------------------------------------------------ *)
(* Bridge helpers                                                      *)
(* ------------------------------------------------------------------ *)

Lemma prim_eq : forall x y : PrimFloat.float,
  is_finite (Prim2B x) = true -> is_finite (Prim2B y) = true ->
  B2R (Prim2B x) = B2R (Prim2B y) ->
  Bsign (Prim2B x) = Bsign (Prim2B y) -> x = y.
Proof.
  intros x y Fx Fy HR HS. apply Prim2B_inj. apply B2R_Bsign_inj; assumption.
Qed.

Lemma Prim2B_one : Prim2B 1%float = Bone.
Proof.
  change 1%float with PrimFloat.one. rewrite one_equiv. apply Prim2B_B2Prim.
Qed.

Lemma one_spec :
  is_finite (Prim2B 1%float) = true /\ B2R (Prim2B 1%float) = 1%R /\
  Bsign (Prim2B 1%float) = false.
Proof.
  rewrite Prim2B_one. split; [ apply is_finite_Bone | split ].
  - apply Bone_correct.
  - apply Bsign_Bone.
Qed.

Lemma Prim2B_zero : Prim2B 0%float = B754_zero false.
Proof.
  change 0%float with PrimFloat.zero. rewrite zero_equiv. apply Prim2B_B2Prim.
Qed.

Lemma rnd64_le : forall x y, (x <= y)%R -> (rnd64 x <= rnd64 y)%R.
Proof. intros x y H. apply round_le; try typeclasses eauto. exact H. Qed.

Lemma rnd64_0 : rnd64 0%R = 0%R.
Proof. apply round_0. typeclasses eauto. Qed.

Lemma rnd64_1 : rnd64 1%R = 1%R.
Proof. apply (rnd64_int 1). reflexivity. Qed.

Lemma quot_bounds : forall i d, 0 <= i -> 1 <= d ->
  (0 <= IZR i / IZR d <= IZR i)%R.
Proof.
  intros i d Hi Hd.
  assert (Hi' : (0 <= IZR i)%R) by (apply IZR_le; exact Hi).
  assert (Hd' : (1 <= IZR d)%R) by (apply IZR_le; exact Hd).
  split.
  - apply Rmult_le_pos; [ exact Hi' | ].
    apply Rlt_le, Rinv_0_lt_compat. lra.
  - apply Rmult_le_reg_r with (IZR d); [ lra | ].
    unfold Rdiv. rewrite Rmult_assoc, Rinv_l by lra. nra.
Qed.

(* the primitive quotient of two exactly represented non-negative integers *)
Lemma div_spec_int : forall i d, 0 <= i < 2 ^ 53 -> 1 <= d < 2 ^ 53 ->
  is_finite (Prim2B (Z2f i / Z2f d)) = true /\
  B2R (Prim2B (Z2f i / Z2f d)) = rnd64 (IZR i / IZR d) /\
  Bsign (Prim2B (Z2f i / Z2f d)) = false.
Proof.
  intros i d Hi Hd.
  destruct (Z2f_spec i Hi) as (Fi & Ri & Si).
  destruct (Z2f_spec d) as (Fd & Rd & Sd); [ lia | ].
  rewrite div_equiv.
  assert (Hnz : B2R (Prim2B (Z2f d)) <> 0%R).
  { rewrite Rd. apply not_0_IZR. lia. }
  generalize (Bdiv_correct prec emax Hprec Hmax mode_NE
                (Prim2B (Z2f i)) (Prim2B (Z2f d)) Hnz).
  rewrite Ri, Rd.
  destruct (quot_bounds i d) as (Q0 & Q1); [ lia | lia | ].
  assert (R0 : (0 <= rnd64 (IZR i / IZR d))%R).
  { rewrite <- rnd64_0. apply rnd64_le. exact Q0. }
  assert (R1 : (rnd64 (IZR i / IZR d) <= IZR i)%R).
  { rewrite <- (rnd64_int i) at 2 by lia. apply rnd64_le. exact Q1. }
  rewrite Rlt_bool_true.
  - intros (HR & HF & HS). rewrite HF, Fi. split; [ reflexivity | ].
    split; [ exact HR | ].
    rewrite HS, Si, Sd; [ reflexivity | ].
    revert HF. rewrite Fi.
    destruct (Bdiv mode_NE (Prim2B (Z2f i)) (Prim2B (Z2f d))); simpl; congruence.
  - rewrite Rabs_pos_eq by exact R0.
    apply Rle_lt_trans with (IZR i); [ exact R1 | ].
    rewrite <- (Rabs_pos_eq (IZR i)) by (apply IZR_le; lia).
    apply IZR_lt_emax. lia.
Qed.

(* ------------------------------------------------------------------ *)
(* 2-4. Special quotients                                              *)
(* ------------------------------------------------------------------ *)

Lemma div_self_one : forall c, (0 < c < 2^53)%Z ->
  (Z2f c / Z2f c)%float = 1%float.
Proof.
  intros c Hc.
  destruct (div_spec_int c c) as (F & R & S); [ lia | lia | ].
  destruct one_spec as (F1 & R1 & S1).
  apply prim_eq; try congruence.
  rewrite R, R1.
  replace (IZR c / IZR c)%R with 1%R.
  - apply rnd64_1.
  - field. apply not_0_IZR. lia.
Qed.

Lemma zero_div : forall d, (1 <= d < 2^53)%Z ->
  (Z2f 0 / Z2f d)%float = 0%float.
Proof.
  intros d Hd.
  destruct (div_spec_int 0 d) as (F & R & S); [ lia | lia | ].
  apply prim_eq.
  - exact F.
  - rewrite Prim2B_zero. reflexivity.
  - rewrite R, Prim2B_zero. unfold Rdiv. rewrite Rmult_0_l. apply rnd64_0.
  - rewrite S, Prim2B_zero. reflexivity.
Qed.

Lemma div_le_one : forall i d, (0 <= i <= d)%Z -> (1 <= d < 2^53)%Z ->
  PrimFloat.ltb 1 (Z2f i / Z2f d) = false.
Proof.
  intros i d Hi Hd.
  destruct (div_spec_int i d) as (F & R & S); [ lia | lia | ].
  destruct one_spec as (F1 & R1 & S1).
  rewrite ltb_equiv, Bltb_correct by assumption.
  rewrite R, R1. apply Rlt_bool_false.
  rewrite <- rnd64_1. apply rnd64_le.
  assert (Hd' : (1 <= IZR d)%R) by (apply IZR_le; lia).
  assert (Hi' : (IZR i <= IZR d)%R) by (apply IZR_le; lia).
  apply Rmult_le_reg_r with (IZR d); [ lra | ].
  unfold Rdiv. rewrite Rmult_assoc, Rinv_l by lra. lra.
Qed.

(* ------------------------------------------------------------------ *)
(* 5-6. Tanimoto                                                       *)
(* ------------------------------------------------------------------ *)

Lemma tanimoto_exact : forall i ca cb,
  (0 <= i)%Z -> (i <= ca)%Z -> (i <= cb)%Z -> (0 < ca + cb - i < 2^53)%Z ->
  let d := (ca + cb - i)%Z in
  is_finite (Prim2B (tanimoto_f i ca cb)) = true /\
  B2R (Prim2B (tanimoto_f i ca cb)) =
    Generic_fmt.round Zaux.radix2 (FLT.FLT_exp (-1074) 53)
      (Generic_fmt.Znearest (fun x => negb (Z.even x))) (IZR i / IZR d)%R.
Proof.
  intros i ca cb H0 Ha Hb Hd d. unfold tanimoto_f.
  rewrite Z.max_l by lia. fold d.
  destruct (div_spec_int i d) as (F & R & S); [ unfold d; lia | unfold d; lia | ].
  split; [ exact F | exact R ].
Qed.

Lemma tanimoto_empty : tanimoto_f 0 0 0 = 0%float.
Proof. vm_compute. reflexivity. Qed.

(* ------------------------------------------------------------------ *)
(* 7-8. sim                                                            *)
(* ------------------------------------------------------------------ *)

Lemma b2z_range : forall b, 0 <= b2z b <= 1.
Proof. intros [|]; simpl; lia. Qed.

Lemma card_range : forall a : fpv, 0 <= card a <= Z.of_nat (length a).
Proof.
  induction a as [|x a IH]; [ simpl; lia | ].
  pose proof (b2z_range x) as Hx.
  change (card (x :: a)) with (b2z x + card a).
  change (length (x :: a)) with (S (length a)). lia.
Qed.

Lemma card_andv_self : forall a : fpv, card (andv a a) = card a.
Proof.
  unfold andv. induction a as [|x a IH]; [ reflexivity | ].
  cbn [map2 card]. rewrite IH. destruct x; reflexivity.
Qed.

Lemma card_andv_nonneg : forall a b : fpv, 0 <= card (andv a b).
Proof. intros a b. apply card_range. Qed.

Lemma card_andv_le_l : forall a b : fpv, card (andv a b) <= card a.
Proof.
  unfold andv. induction a as [|x a IH]; intros [|y b]; simpl.
  - lia.
  - lia.
  - pose proof (card_range a). pose proof (b2z_range x). lia.
  - specialize (IH b). destruct x, y; cbn [andb b2z]; lia.
Qed.

Lemma andv_comm : forall a b : fpv, andv a b = andv b a.
Proof.
  unfold andv. induction a as [|x a IH]; intros [|y b]; simpl; try reflexivity.
  rewrite (IH b), andb_comm. reflexivity.
Qed.

Lemma card_andv_le_r : forall a b : fpv, card (andv a b) <= card b.
Proof. intros a b. rewrite andv_comm. apply card_andv_le_l. Qed.

Lemma ltb_zero_zero : PrimFloat.ltb 0 0 = false.
Proof. vm_compute. reflexivity. Qed.

Lemma sim_self_max : forall a b : fpv,
  (Z.of_nat (length a) < 2^52)%Z -> (Z.of_nat (length b) < 2^52)%Z ->
  PrimFloat.ltb (sim a a) (sim a b) = false.
Proof.
  intros a b La Lb. unfold sim, tanimoto_f.
  rewrite card_andv_self.
  pose proof (card_range a) as Ha. pose proof (card_range b) as Hb.
  pose proof (card_andv_nonneg a b) as Hi0.
  pose proof (card_andv_le_l a b) as Hia.
  pose proof (card_andv_le_r a b) as Hib.
  set (ca := card a) in *. set (cb := card b) in *.
  set (i := card (andv a b)) in *.
  replace (ca + ca - ca) with ca by lia.
  destruct (Z.eq_dec ca 0) as [E | NE].
  - assert (Ei : i = 0) by lia. rewrite E, Ei.
    rewrite !zero_div by lia. apply ltb_zero_zero.
  - rewrite (Z.max_l ca 1) by lia.
    rewrite div_self_one by lia.
    apply div_le_one; lia.
Qed.

Lemma sim_sym : forall a b, sim a b = sim b a.
Proof.
  intros a b. unfold sim. rewrite (andv_comm a b).
  unfold tanimoto_f. rewrite (Z.add_comm (card a) (card b)). reflexivity.
Qed.

(* ------------------------------------------------------------------ *)
(* 9-10. Majority vote                                                 *)
(* ------------------------------------------------------------------ *)

Lemma half_spec :
  is_finite (Prim2B 0.5%float) = true /\ B2R (Prim2B 0.5%float) = (/ 2)%R /\
  Bsign (Prim2B 0.5%float) = false.
Proof.
  assert (E : Prim2SF 0.5%float = S754_finite false 4503599627370496 (-53))
    by (vm_compute; reflexivity).
  unfold Prim2B. rewrite is_finite_SF2B, B2R_SF2B, Bsign_SF2B, E.
  split; [ reflexivity | split; [ | reflexivity ] ].
  unfold SF2R, F2R. simpl. lra.
Qed.

Lemma half_int_spec : forall n, 0 <= n < 2 ^ 53 ->
  is_finite (Prim2B (Z2f n * 0.5)%float) = true /\
  B2R (Prim2B (Z2f n * 0.5)%float) = (IZR n / 2)%R.
Proof.
  intros n Hn.
  destruct (Z2f_spec n Hn) as (Fn & Rn & Sn).
  destruct half_spec as (Fh & Rh & Sh).
  rewrite mul_equiv.
  generalize (Bmult_correct prec emax Hprec Hmax mode_NE
                (Prim2B (Z2f n)) (Prim2B 0.5%float)).
  rewrite Rn, Rh, Fn, Fh.
  assert (G : rnd64 (IZR n * / 2) = (IZR n * / 2)%R).
  { apply round_generic; [ typeclasses eauto | ].
    replace (IZR n * / 2)%R with (F2R (Float radix2 n (-1))).
    - apply fmt_scaled; lia.
    - unfold F2R. simpl. lra. }
  rewrite G.
  assert (Hn' : (0 <= IZR n)%R) by (apply IZR_le; lia).
  rewrite Rlt_bool_true.
  - intros (HR & HF & _). split; [ exact HF | exact HR ].
  - rewrite Rabs_pos_eq by lra.
    apply Rle_lt_trans with (IZR n); [ lra | ].
    rewrite <- (Rabs_pos_eq (IZR n)) by exact Hn'.
    apply IZR_lt_emax. lia.
Qed.

Lemma majority_float : forall k n, (0 <= k <= n)%Z -> (2 <= n < 2^53)%Z ->
  fge (Z2f k) (Z2f n * 0.5)%float = (n <=? 2 * k)%Z.
Proof.
  intros k n Hk Hn. unfold fge.
  destruct (Z2f_spec k) as (Fk & Rk & _); [ lia | ].
  destruct (half_int_spec n) as (Fh & Rh); [ lia | ].
  rewrite leb_equiv, Bleb_correct by assumption.
  rewrite Rh, Rk.
  destruct (Z.leb_spec n (2 * k)) as [H | H].
  - apply Rle_bool_true. apply IZR_le in H. rewrite mult_IZR in H. lra.
  - apply Rle_bool_false. apply IZR_lt in H. rewrite mult_IZR in H. lra.
Qed.

Lemma centroid_majority : forall ls n, (2 <= n < 2^53)%Z ->
  Forall (fun k => (0 <= k <= n)%Z) ls ->
  centroid_fpv ls n = map (fun k => (n <=? 2 * k)%Z) ls.
Proof.
  intros ls n Hn Hls. unfold centroid_fpv, centroid_vals.
  destruct (n <=? 1) eqn:E; [ apply Z.leb_le in E; lia | ].
  rewrite map_map.
  apply map_ext_in. intros k Hin.
  rewrite Forall_forall in Hls. specialize (Hls k Hin).
  rewrite (majority_float k n Hls Hn).
  destruct (n <=? 2 * k); reflexivity.
Qed.

Print Assumptions Z2f_exact.
Print Assumptions div_self_one.
Print Assumptions zero_div.
Print Assumptions div_le_one.
Print Assumptions tanimoto_exact.
Print Assumptions tanimoto_empty.
Print Assumptions sim_self_max.
Print Assumptions sim_sym.
Print Assumptions majority_float.
Print Assumptions centroid_majority.
