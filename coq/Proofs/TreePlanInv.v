(* TreePlanInv.v — the nodes of a REACHABLE state satisfy the side condition [node_ok] of the source tie
   of insertion (Proofs/GenTieTree.v), so the tie applies to every insertion of every fit of every
   documented history: one row fitted by the model = the extracted loop body of BitBirch.fit
   (Gen/GFit.v), whose insert step is the extracted body of _BFNode.insert_bf_subcluster at the root and
   at every node below it, and whose split step is the extracted body of _split_node (Gen/GTree.v). *)
From BB Require Import Model.Birch Model.TreePlan Model.FitPlan Gen.GTree Gen.GFit
     Proofs.ListFacts Proofs.TreeDefs Proofs.TreeRel Proofs.TreeShape Proofs.TreeBal
     Proofs.BirchDefs Proofs.BirchInv Proofs.BirchRebuild Proofs.PropsGlue
     Proofs.GenTieTree Proofs.GenTieFit.
From Coq Require Import Lia.
Open Scope Z_scope.

(* =====================================================================================
   1. node_ok from the shape / occupancy clauses of st_inv
   ===================================================================================== *)

(* nd and every node below it *)
Fixpoint all_nodes_ok (nd : node) : Prop :=
  node_ok nd /\
  match nd with Leaf _ _ _ _ => True | Inner _ es _ => all_nodes_ok_e es end
with all_nodes_ok_e (es : ents) : Prop :=
  match es with ENil => True | ECons _ ch tl => all_nodes_ok ch /\ all_nodes_ok_e tl end.

(* nd' is nd or a node below it *)
Inductive subnode (nd' : node) : node -> Prop :=
| sub_refl : subnode nd' nd'
| sub_child : forall bf es cache k e ch,
    ents_nth es k = Some (e, ch) -> subnode nd' ch -> subnode nd' (Inner bf es cache).

Lemma ents_subs_length es : length (ents_subs es) = ents_len es.
Proof. induction es as [|e ch tl IH]; cbn; congruence. Qed.

(* one node: the cache clause of shape gives the length, the non-emptiness clause and the upper
   occupancy bound give the rest *)
Lemma node_ok_of_shape nf nd :
  shape nf nd -> Z.of_nat (n_entries nd) <= node_bf nd -> node_ok nd.
Proof.
  destruct nd as [id bf es cache|bf es cache]; cbn [shape n_entries node_bf]; intros H Hb.
  - destruct H as (_ & -> & _). split; [|exact I]. cbn [node_cache node_len]. apply map_length.
  - destruct H as (_ & -> & Hne & _). split; [|split; assumption].
    cbn [node_cache node_len]. now rewrite map_length, ents_subs_length.
Qed.

Lemma all_nodes_ok_of_shape_mut nf :
  (forall nd, shape nf nd -> occ_ok nd -> all_nodes_ok nd) /\
  (forall es, shape_e nf es -> occ_ok_e es -> all_nodes_ok_e es).
Proof.
  apply node_mutind.
  - intros id bf es cache Hs Ho. cbn [all_nodes_ok]. split; [|exact I].
    apply (node_ok_of_shape nf); [exact Hs|]. cbn [occ_ok] in Ho. cbn [n_entries node_bf]. tauto.
  - intros bf es IH cache Hs Ho. cbn [all_nodes_ok]. split.
    + apply (node_ok_of_shape nf); [exact Hs|]. cbn [occ_ok] in Ho. cbn [n_entries node_bf]. tauto.
    + cbn [shape] in Hs. cbn [occ_ok] in Ho. apply IH; tauto.
  - intros _ _. exact I.
  - intros e ch IHc tl IHt Hs Ho. cbn [shape_e] in Hs. cbn [occ_ok_e] in Ho.
    cbn [all_nodes_ok_e]. split; [apply IHc|apply IHt]; tauto.
Qed.

(* the root may be an empty leaf: occ_root instead of occ_ok *)
Lemma all_nodes_ok_of_root nf r : shape nf r -> occ_root r -> all_nodes_ok r.
Proof.
  intros Hs [Hb Hbelow]. destruct r as [id bf es cache|bf es cache]; cbn [all_nodes_ok].
  - split; [|exact I]. now apply (node_ok_of_shape nf).
  - split; [now apply (node_ok_of_shape nf)|].
    cbn [shape] in Hs. cbn [occ_below] in Hbelow.
    apply (proj2 (all_nodes_ok_of_shape_mut nf)); tauto.
Qed.

Lemma all_nodes_ok_top nd : all_nodes_ok nd -> node_ok nd.
Proof. destruct nd; cbn [all_nodes_ok]; tauto. Qed.

Lemma all_nodes_ok_e_nth es : forall k e ch,
  all_nodes_ok_e es -> ents_nth es k = Some (e, ch) -> all_nodes_ok ch.
Proof.
  induction es as [|e0 c0 tl IH]; intros k e ch H Hn; [discriminate|].
  cbn [all_nodes_ok_e] in H. destruct k as [|k]; cbn [ents_nth] in Hn.
  - injection Hn as _ <-. tauto.
  - eapply IH; [|exact Hn]. tauto.
Qed.

Lemma all_nodes_ok_subnode nd' nd : subnode nd' nd -> all_nodes_ok nd -> all_nodes_ok nd'.
Proof.
  induction 1 as [|bf es cache k e ch Hn _ IH]; intros H; [exact H|].
  apply IH. cbn [all_nodes_ok] in H. eapply all_nodes_ok_e_nth; [|exact Hn]. tauto.
Qed.

(* the state-level statements *)
Theorem st_inv_all_nodes_ok st r : st_inv st -> root st = Some r -> all_nodes_ok r.
Proof.
  intros H E. destruct (st_inv_unfold st r H E) as (Hs & _ & _ & Ho & _).
  exact (all_nodes_ok_of_root (nfeat st) r Hs Ho).
Qed.

Theorem st_inv_root_node_ok st r : st_inv st -> root st = Some r -> node_ok r.
Proof. intros H E. exact (all_nodes_ok_top r (st_inv_all_nodes_ok st r H E)). Qed.

Theorem st_inv_subnode_ok st r nd :
  st_inv st -> root st = Some r -> subnode nd r -> node_ok nd.
Proof.
  intros H E S. exact (all_nodes_ok_top nd (all_nodes_ok_subnode nd r S (st_inv_all_nodes_ok st r H E))).
Qed.

(* ---- the strengthened source tie: at the node and at every node below it ----
   run_insert interprets ONE activation of insert_bf_subcluster; its recursive call is the parameter
   `rec`, instantiated with Tree.insert.  The call is made on a child, and on that child Tree.insert is
   again the interpretation of the extracted body, and so on down to the leaf. *)
Definition insert_src (fexp : float -> float) (nf : nat) (c : crit) (thr : float) (s : sub)
           (nd : node) (ax : aux) : option (node * bool * aux) :=
  run_insert fexp nf c thr GTree.add_to_body GTree.replace_body GTree.update_body GTree.merge_body
             GTree.append_body GTree.update_split_body (insert fexp nf c thr) s GTree.insert_body nd ax.

Theorem insert_gen_all fexp nf c thr r :
  all_nodes_ok r ->
  forall nd, subnode nd r -> forall s ax,
    insert_src fexp nf c thr s nd ax = Some (insert fexp nf c thr nd s ax).
Proof.
  intros H nd S s ax. unfold insert_src. apply insert_gen.
  exact (all_nodes_ok_top nd (all_nodes_ok_subnode nd r S H)).
Qed.

(* the nodes on which the recursion is actually entered are sub-nodes: the child the interpreter
   hands to `rec` is entry closest_idx of the node *)
Lemma child_is_subnode bf es cache k e ch :
  ents_nth es k = Some (e, ch) -> subnode ch (Inner bf es cache).
Proof. intros H. eapply sub_child; [exact H|apply sub_refl]. Qed.

Lemma subnode_trans a b c0 : subnode a b -> subnode b c0 -> subnode a c0.
Proof.
  intros Hab Hbc. induction Hbc as [|bf es cache k e ch Hn _ IH]; [exact Hab|].
  eapply sub_child; [exact Hn|exact IH].
Qed.

(* ---- the recursion inside the interpreter ----
   insert_deep: the recursive call of insert_bf_subcluster is AGAIN the interpretation of the extracted
   body (fuel = how many nested activations are allowed; a stuck activation leaves the node alone).
   On a tree whose nodes are all node_ok, with fuel above the height, it is Tree.insert. *)
Fixpoint height (nd : node) : nat :=
  match nd with Leaf _ _ _ _ => O | Inner _ es _ => S (height_e es) end
with height_e (es : ents) : nat :=
  match es with ENil => O | ECons _ ch tl => Nat.max (height ch) (height_e tl) end.

Lemma height_e_nth es : forall k e ch, ents_nth es k = Some (e, ch) -> (height ch <= height_e es)%nat.
Proof.
  induction es as [|e0 c0 tl IH]; intros k e ch Hn; [discriminate|].
  cbn [height_e]. destruct k as [|k]; cbn [ents_nth] in Hn.
  - injection Hn as _ <-. lia.
  - pose proof (IH k e ch Hn). lia.
Qed.

Section DeepInsert.
Variable fexp : float -> float.
Variable nf : nat.
Variable c : crit.
Variable thr : float.

Local Arguments insert : simpl never.
Local Arguments insert_ents : simpl never.
Local Arguments split_node : simpl never.
Local Arguments merge_sub : simpl never.
Local Arguments upd_sub : simpl never.
Local Arguments argmax_f : simpl never.
Local Arguments sim : simpl never.
Local Arguments run_merge : simpl never.
Local Arguments run_update : simpl never.
Local Arguments call_append_plan : simpl never.
Local Arguments call_update_split_plan : simpl never.
Local Arguments Z.of_nat : simpl never.
Local Arguments Z.ltb : simpl never.
Local Arguments nth : simpl never.
Local Arguments upd : simpl never.
Local Arguments Nat.ltb : simpl never.

(* run_insert_expected with the recursive call a parameter that agrees with Tree.insert on the
   children of the node *)
Theorem run_insert_expected_rec : forall rec s nd ax,
  node_ok nd ->
  (forall bf es cache k e ch ax', nd = Inner bf es cache -> ents_nth es k = Some (e, ch) ->
     rec ch s ax' = insert fexp nf c thr ch s ax') ->
  run_insert fexp nf c thr expected_add_to expected_replace expected_update expected_merge
             expected_append expected_update_split rec s expected_insert nd ax
  = Some (insert fexp nf c thr nd s ax).
Proof.
  intros rec s nd ax [Hlen Hne] Hrec. unfold run_insert. destruct nd as [id bf es cache|bf es cache].
  - (* leaf: the recursive call is not reached *)
    cbn [node_cache node_len] in Hlen.
    destruct es as [|e0 es0].
    + destruct cache; [|discriminate]. cbn. rewrite call_append_expected by reflexivity.
      cbn. reflexivity.
    + rewrite insert_leaf_cons_eq. fold (route cache s).
      assert (Hi : (route cache s < length (e0 :: es0))%nat).
      { unfold route. rewrite <- Hlen.
        rewrite <- (map_length (fun cv => sim cv (scent s)) cache). apply argmax_f_lt.
        destruct cache; discriminate. }
      assert (Hz : Nat.eqb (length (e0 :: es0)) 0 = false) by reflexivity.
      remember (e0 :: es0) as es eqn:Ees. clear Ees.
      cbn. rewrite Hz. cbn. fold (route cache s).
      apply Nat.ltb_lt in Hi. rewrite Hi. cbn.
      rewrite run_merge_expected.
      destruct (merge_sub fexp c thr (nth (route cache s) es s) s) as [m|]; cbn.
      * rewrite nth_upd_same by (now apply Nat.ltb_lt). reflexivity.
      * rewrite upd_nth_same. rewrite call_append_expected by exact Hlen.
        cbn. rewrite app_length, Nat.add_1_r. reflexivity.
  - (* inner *)
    cbn [node_cache node_len] in Hlen.
    rewrite insert_inner_eq. fold (route cache s).
    assert (Hi : (route cache s < ents_len es)%nat).
    { unfold route. rewrite <- Hlen.
      rewrite <- (map_length (fun cv => sim cv (scent s)) cache). apply argmax_f_lt.
      destruct cache; [|discriminate]. destruct es; [now destruct Hne|discriminate]. }
    destruct (ents_nth_lt es _ Hi) as (e & ch & Hn).
    rewrite (insert_ents_char fexp nf c thr s es _ cache ax e ch Hn) by (now rewrite Hlen).
    assert (Hz : Nat.eqb (ents_len es) 0 = false) by (apply Nat.eqb_neq; lia).
    cbn. rewrite Hz. cbn. fold (route cache s).
    pose proof Hi as Hi'. apply Nat.ltb_lt in Hi'. rewrite Hi'. cbn. rewrite Hn.
    rewrite (Hrec bf es cache _ e ch ax eq_refl Hn).
    destruct (insert fexp nf c thr ch s ax) as [[ch' sp] ax1]. destruct sp; cbn.
    + rewrite ents_nth_upd by (rewrite ?ents_len_upd; exact Hi).
      destruct (split_node nf ch' ax1) as [[[t1 n1] [t2 n2]] ax2]. cbn.
      rewrite (call_update_split_expected (fun x : sub * node => scent (fst x)))
        by (rewrite ?ents_list_length, ?ents_len_upd; auto).
      cbn. rewrite ents_list_upd, upd_upd. reflexivity.
    + rewrite ents_nth_upd by (rewrite ?ents_len_upd; exact Hi). rewrite run_update_expected. cbn.
      rewrite ents_nth_upd by (rewrite ?ents_len_upd; exact Hi). rewrite ents_upd_upd.
      rewrite ents_len_upd. replace (bf <? Z.of_nat (ents_len es)) with false
        by (symmetry; apply Z.ltb_ge; tauto). reflexivity.
Qed.
End DeepInsert.

Fixpoint insert_deep (fexp : float -> float) (nf : nat) (c : crit) (thr : float) (fuel : nat)
         (nd : node) (s : sub) (ax : aux) {struct fuel} : node * bool * aux :=
  match fuel with
  | O => (nd, false, ax)
  | S k =>
      match run_insert fexp nf c thr GTree.add_to_body GTree.replace_body GTree.update_body
              GTree.merge_body GTree.append_body GTree.update_split_body
              (insert_deep fexp nf c thr k) s GTree.insert_body nd ax with
      | Some r => r
      | None => (nd, false, ax)
      end
  end.

Lemma run_insert_deep_step fexp nf c thr k nd s ax :
  node_ok nd ->
  (forall bf es cache j e ch ax', nd = Inner bf es cache -> ents_nth es j = Some (e, ch) ->
     insert_deep fexp nf c thr k ch s ax' = insert fexp nf c thr ch s ax') ->
  run_insert fexp nf c thr GTree.add_to_body GTree.replace_body GTree.update_body
             GTree.merge_body GTree.append_body GTree.update_split_body
             (insert_deep fexp nf c thr k) s GTree.insert_body nd ax
  = Some (insert fexp nf c thr nd s ax).
Proof.
  intros H Hrec. rewrite tie_add_to, tie_replace, tie_update, tie_merge, tie_append,
    tie_update_split, tie_insert. now apply run_insert_expected_rec.
Qed.

Lemma insert_deep_is_insert fexp nf c thr : forall k nd,
  all_nodes_ok nd -> (height nd < k)%nat ->
  forall s ax, insert_deep fexp nf c thr k nd s ax = insert fexp nf c thr nd s ax.
Proof.
  induction k as [|k IH]; intros nd H Hh s ax; [lia|].
  cbn [insert_deep]. rewrite run_insert_deep_step; [reflexivity|exact (all_nodes_ok_top nd H)|].
  intros bf es cache j e ch ax' -> Hn. apply IH.
  - cbn [all_nodes_ok] in H. eapply all_nodes_ok_e_nth; [|exact Hn]. tauto.
  - cbn [height] in Hh. pose proof (height_e_nth es j e ch Hn). lia.
Qed.

(* every activation, at every depth, is the interpretation of the extracted body *)
Theorem insert_gen_deep fexp nf c thr k nd s ax :
  all_nodes_ok nd -> (height nd <= k)%nat ->
  run_insert fexp nf c thr GTree.add_to_body GTree.replace_body GTree.update_body
             GTree.merge_body GTree.append_body GTree.update_split_body
             (insert_deep fexp nf c thr k) s GTree.insert_body nd ax
  = Some (insert fexp nf c thr nd s ax).
Proof.
  intros H Hh. apply run_insert_deep_step; [exact (all_nodes_ok_top nd H)|].
  intros bf es cache j e ch ax' -> Hn. apply insert_deep_is_insert.
  - cbn [all_nodes_ok] in H. eapply all_nodes_ok_e_nth; [|exact Hn]. tauto.
  - cbn [height] in Hh. pose proof (height_e_nth es j e ch Hn). lia.
Qed.

Corollary st_inv_insert_deep fexp st r c thr s :
  st_inv st -> root st = Some r ->
  run_insert fexp (nfeat st) c thr GTree.add_to_body GTree.replace_body GTree.update_body
             GTree.merge_body GTree.append_body GTree.update_split_body
             (insert_deep fexp (nfeat st) c thr (height r)) s GTree.insert_body r (sax st)
  = Some (insert fexp (nfeat st) c thr r s (sax st)).
Proof.
  intros H E. apply insert_gen_deep; [exact (st_inv_all_nodes_ok st r H E)|apply le_n].
Qed.

(* =====================================================================================
   2. one row fitted by the model, on a state satisfying st_inv, is the extracted source
   ===================================================================================== *)

(* _split_node(nd) with the extracted body, on either kind of node *)
Definition split_src (nf : nat) (nd : node) (ax : aux)
  : option ((sub * node) * (sub * node) * aux) :=
  match nd with
  | Leaf id bf es cache =>
      match run_split_node (fun x : sub => x) GTree.update_body GTree.add_to_body GTree.append_body nf
              (Some id) bf (nid ax) GTree.split_node_body es cache (chain ax) with
      | Some ((t1, (b1, (a1, c1))), (t2, (b2, (a2, c2))), ch) =>
          Some ((t1, Leaf (nid ax) b1 a1 c1), (t2, Leaf id b2 a2 c2), mkAux (S (nid ax)) ch)
      | None => None
      end
  | Inner bf es cache =>
      match run_split_node (fun x : sub * node => fst x) GTree.update_body GTree.add_to_body
              GTree.append_body nf None bf (nid ax) GTree.split_node_body (ents_list es) cache
              (chain ax) with
      | Some ((t1, (b1, (a1, c1))), (t2, (b2, (a2, c2))), ch) =>
          Some ((t1, Inner b1 (ents_of_list a1) c1), (t2, Inner b2 (ents_of_list a2) c2),
                mkAux (nid ax) ch)
      | None => None
      end
  end.

Theorem split_src_gen nf nd ax : split_src nf nd ax = Some (split_node nf nd ax).
Proof.
  destruct nd as [id bf es cache|bf es cache]; unfold split_src.
  - apply split_node_leaf_gen.
  - apply split_node_inner_gen.
Qed.

(* what "this row is fitted by the source" means, for the state st the row meets:
   (a) the model's step (insert_root, counter + 1) is the interpretation of the extracted loop body of
       BitBirch.fit; (b) the SInsertRoot statement of that body — Tree.insert at the root — is the
       interpretation of the extracted body of insert_bf_subcluster; (c) so is every recursive
       activation below the root — (c') also with the recursive calls themselves run by the
       interpreter on the extracted body, insert_deep; (d) the SSplitRoot statement — Tree.split_node on the over-full
       root — is the interpretation of the extracted body of _split_node. *)
Definition row_is_source (fexp : float -> float) (cf : config) (st : state) (fp : fpv) (l : Z)
  : Prop :=
  exists r, root st = Some r /\
  let nf := nfeat st in
  let s := singleton fp l in
  run_fit_body fexp GFit.fit_loop_body cf st fp l = insert_st fexp cf st s 1 /\
  insert_src fexp nf (c_crit cf) (c_thr cf) s r (sax st)
    = Some (insert fexp nf (c_crit cf) (c_thr cf) r s (sax st)) /\
  (forall nd, subnode nd r -> forall s' ax,
     insert_src fexp nf (c_crit cf) (c_thr cf) s' nd ax
       = Some (insert fexp nf (c_crit cf) (c_thr cf) nd s' ax)) /\
  run_insert fexp nf (c_crit cf) (c_thr cf) GTree.add_to_body GTree.replace_body GTree.update_body
             GTree.merge_body GTree.append_body GTree.update_split_body
             (insert_deep fexp nf (c_crit cf) (c_thr cf) (height r)) s GTree.insert_body r (sax st)
    = Some (insert fexp nf (c_crit cf) (c_thr cf) r s (sax st)) /\
  (forall r' ax1, insert fexp nf (c_crit cf) (c_thr cf) r s (sax st) = (r', true, ax1) ->
     split_src nf r' ax1 = Some (split_node nf r' ax1)).

Theorem insert_root_gen fexp cf st r fp l :
  st_inv st -> root st = Some r -> row_is_source fexp cf st fp l.
Proof.
  intros H E. exists r. split; [exact E|]. cbv zeta.
  pose proof (st_inv_all_nodes_ok st r H E) as A.
  split; [|split; [|split; [|split]]].
  - rewrite tie_fit_loop. apply run_fit_body_expected.
  - apply (insert_gen_all fexp _ _ _ r A r (sub_refl r)).
  - intros nd S s' ax. apply (insert_gen_all fexp _ _ _ r A nd S).
  - apply insert_gen_deep; [exact A|apply le_n].
  - intros r' ax1 _. apply split_src_gen.
Qed.

(* the same with the model's insert_root spelled out: insert; if the root must be split, split_node and
   a fresh Inner root over the two halves *)
Corollary insert_root_gen_explicit fexp cf st r fp l :
  st_inv st -> root st = Some r ->
  let nf := nfeat st in
  let s := singleton fp l in
  run_fit_body fexp GFit.fit_loop_body cf st fp l =
    (let '(r', ax') := insert_root fexp nf (c_crit cf) (c_thr cf) (c_bf cf) r s (sax st) in
     mkSt (cfg st) (Some r') ax' (nfit st + 1) (released st) (nfeat st)) /\
  insert_root fexp nf (c_crit cf) (c_thr cf) (c_bf cf) r s (sax st) =
    match insert_src fexp nf (c_crit cf) (c_thr cf) s r (sax st) with
    | Some (r1, true, ax1) =>
        match split_src nf r1 ax1 with
        | Some ((t1, n1), (t2, n2), ax2) =>
            (Inner (c_bf cf) (ECons t1 n1 (ECons t2 n2 ENil)) [scent t1; scent t2], ax2)
        | None => (r1, ax1)
        end
    | Some (r1, false, ax1) => (r1, ax1)
    | None => (r, sax st)
    end.
Proof.
  intros H E. cbv zeta.
  destruct (insert_root_gen fexp cf st r fp l H E) as (r0 & E0 & A & B & _ & _).
  rewrite E in E0. injection E0 as <-. cbv zeta in A, B. split.
  - rewrite A. unfold insert_st. rewrite E. reflexivity.
  - rewrite B. unfold insert_root.
    destruct (insert fexp (nfeat st) (c_crit cf) (c_thr cf) r (singleton fp l) (sax st))
      as [[r1 sp] ax1].
    destruct sp; [|reflexivity]. rewrite split_src_gen.
    destruct (split_node (nfeat st) r1 ax1) as [[[t1 n1] [t2 n2]] ax2]. reflexivity.
Qed.

(* =====================================================================================
   3. every row of every fit of every documented history
   ===================================================================================== *)
Section Fits.
Variable fexp : float -> float.

(* the iterations the loop of fit executes: the state each row meets, the row, its label *)
Fixpoint fit_trace (cf : config) (st : state) (rows : list (option fpv)) (labels : list Z)
  : list (state * fpv * Z) :=
  match rows, labels with
  | Some fp :: rows', l :: labels' =>
      (st, fp, l) :: fit_trace cf (insert_st fexp cf st (singleton fp l) 1) rows' labels'
  | _, _ => []
  end.

(* the model's loop is the extracted loop body folded over those iterations *)
Lemma fit_rows_is_fold cf rows : forall st labels,
  fst (fit_rows fexp cf st rows labels) =
  fold_left (fun s x => run_fit_body fexp GFit.fit_loop_body cf s (snd (fst x)) (snd x))
            (fit_trace cf st rows labels) st.
Proof.
  induction rows as [|row rows IH]; intros st labels; [reflexivity|].
  destruct row as [fp|]; destruct labels as [|l labels]; try reflexivity.
  rewrite fit_rows_step_gen. cbn [fit_trace fold_left fst snd].
  rewrite tie_fit_loop, run_fit_body_expected. rewrite IH. rewrite tie_fit_loop. reflexivity.
Qed.

Theorem fit_rows_all_source cf rows : forall st labels,
  st_inv st -> root st <> None -> 2 <= c_bf cf ->
  Forall (row_ok (nfeat st)) rows -> nfit st + zlen rows < 2 ^ 64 ->
  Forall (fun x => st_inv (fst (fst x)) /\ row_is_source fexp cf (fst (fst x)) (snd (fst x)) (snd x))
         (fit_trace cf st rows labels).
Proof.
  induction rows as [|row rows IH]; intros st labels Hinv Hr Hbf Hrows Hb; [constructor|].
  destruct row as [fp|]; destruct labels as [|l labels]; cbn [fit_trace]; try constructor.
  - cbn [fst snd]. split; [exact Hinv|].
    destruct (root st) as [r|] eqn:Er; [|congruence].
    exact (insert_root_gen fexp cf st r fp l Hinv Er).
  - inversion Hrows as [|? ? Hrow Hrows']; subst.
    rewrite zlen_cons in Hb. pose proof (zlen_nonneg rows) as Hz.
    destruct (root st) as [r|] eqn:Er; [|congruence].
    cbn [row_ok] in Hrow.
    destruct (singleton_good (nfeat st) fp l Hrow) as (G1 & G2 & G3).
    destruct (insert_st_inv fexp st cf (singleton fp l) 1 r Hinv Er Hbf G1 G2 G3 eq_refl ltac:(lia))
      as (I1 & I2 & I3 & I4 & I5 & I6 & I7).
    apply IH; try assumption.
    + rewrite I3. exact Hrows'.
    + rewrite I6. lia.
Qed.

(* the state on which the loop of fit starts: the tree is initialised by the first row if needed *)
Definition fit_start (st : state) (rows : list (option fpv)) : state :=
  match rows with
  | [] => st
  | r0 :: _ =>
      if is_init st then st
      else initialize st (match r0 with Some fp => length fp | None => nfeat st end)
  end.

Lemma do_fit_is_fit_rows st r0 tl :
  released st = false ->
  let st1 := fit_start st (r0 :: tl) in
  do_fit fexp st (r0 :: tl) None =
  fit_rows fexp (cfg st1) st1 (r0 :: tl) (zseq (nfit st1) (length (r0 :: tl))).
Proof. intros H. unfold do_fit, fit_start. rewrite H. reflexivity. Qed.

(* a fit with default numbering applied to a state satisfying the invariants *)
Theorem fit_insertions_are_source st rows :
  st_inv st -> nf_ok st -> op_wf st (OFit rows None) ->
  let st1 := fit_start st rows in
  Forall (fun x => st_inv (fst (fst x)) /\
                   row_is_source fexp (cfg st1) (fst (fst x)) (snd (fst x)) (snd x))
         (fit_trace (cfg st1) st1 rows (zseq (nfit st1) (length rows))).
Proof.
  intros Hinv Hnf (_ & Hrows & Hb). cbv zeta.
  destruct rows as [|r0 tl]; [constructor|].
  unfold fit_start, is_init.
  destruct (root st) as [r|] eqn:Er.
  - apply fit_rows_all_source; try assumption.
    + congruence.
    + exact (proj1 Hinv).
  - destruct r0 as [fp|]; [|constructor].
    destruct Hrows as (Hrows & Hfp).
    pose proof (initialize_inv st (length fp) Hinv Er Hfp) as I1.
    apply fit_rows_all_source.
    + exact I1.
    + discriminate.
    + exact (proj1 Hinv).
    + exact Hrows.
    + exact Hb.
Qed.

(* ... hence every fit applied after any documented history *)
Theorem reachable_insertions_are_source cfg0 ops rows :
  2 <= c_bf cfg0 -> ops_wf fexp (init cfg0) ops -> ops_perms_ok fexp (init cfg0) ops ->
  let st := run fexp cfg0 ops in
  op_wf st (OFit rows None) ->
  let st1 := fit_start st rows in
  (* the states the rows meet satisfy the invariant, and each row is fitted by the source *)
  Forall (fun x => st_inv (fst (fst x)) /\
                   row_is_source fexp (cfg st1) (fst (fst x)) (snd (fst x)) (snd x))
         (fit_trace (cfg st1) st1 rows (zseq (nfit st1) (length rows))) /\
  (* and those iterations are the whole fit *)
  (released st = false -> rows <> [] ->
   fst (step fexp st (OFit rows None)) =
   fold_left (fun s x => run_fit_body fexp GFit.fit_loop_body (cfg st1) s (snd (fst x)) (snd x))
             (fit_trace (cfg st1) st1 rows (zseq (nfit st1) (length rows))) st1).
Proof.
  intros Hbf Hwf Hp. cbv zeta. intros Hop.
  destruct (init_inv cfg0 Hbf) as (A & B & C).
  destruct (run_from_inv fexp ops (init cfg0) A B C Hwf Hp) as (R1 & R2 & _).
  change (run_from fexp (init cfg0) ops) with (run fexp cfg0 ops) in R1, R2.
  split.
  - exact (fit_insertions_are_source _ rows R1 R2 Hop).
  - intros Hrel Hne. destruct rows as [|r0 tl]; [congruence|].
    cbn [step]. rewrite (do_fit_is_fit_rows _ r0 tl Hrel). cbv zeta. apply fit_rows_is_fold.
Qed.
End Fits.

(* =====================================================================================
   4. the leaf-chain splice, pointer level -> list level, for an arbitrary well-formed chain
   ===================================================================================== *)
(* a doubly linked path: d -> x1 -> x2 -> ... -> xn -> None with the matching _prev_leaf pointers
   (d is the dummy head: its own _prev_leaf is not constrained) *)
Fixpoint dl_path (l : links) (d : nat) (xs : list nat) : Prop :=
  match xs with
  | [] => lk_next l d = None
  | y :: ys => lk_next l d = Some y /\ lk_prev l y = Some d /\ dl_path l y ys
  end.

Lemma dl_path_walk l : forall xs d k, dl_path l d xs -> walk_next l (S (length xs) + k) d = d :: xs.
Proof.
  induction xs as [|y ys IH]; intros d k H; cbn [dl_path] in H; cbn [length Nat.add walk_next].
  - now rewrite H.
  - destruct H as (Hn & _ & Hp). rewrite Hn. f_equal. exact (IH y k Hp).
Qed.

Lemma dl_path_prev_in l : forall xs d n,
  dl_path l d xs -> In n xs -> exists p, lk_prev l n = Some p /\ In p (d :: xs).
Proof.
  induction xs as [|y ys IH]; intros d n H Hin; [destruct Hin|].
  cbn [dl_path] in H. destruct H as (_ & Hp & Hr). destruct Hin as [<-|Hin].
  - exists d. split; [exact Hp|now left].
  - destruct (IH y n Hr Hin) as (p & E & I0). exists p. split; [exact E|now right].
Qed.

Lemma dl_path_frame l l' : forall ys y,
  dl_path l y ys ->
  (forall j, In j (y :: ys) -> lk_next l' j = lk_next l j) ->
  (forall j, In j ys -> lk_prev l' j = lk_prev l j) ->
  dl_path l' y ys.
Proof.
  induction ys as [|z zs IH]; intros y H Hn Hp; cbn [dl_path] in *.
  - rewrite Hn by now left. exact H.
  - destruct H as (A & B & C). rewrite Hn by now left. rewrite Hp by now left.
    refine (conj A (conj B _)). apply IH; [exact C| |].
    + intros j Hj. apply Hn. now right.
    + intros j Hj. apply Hp. now right.
Qed.

(* from the facts established by the four assignments (chain_splice_expected) to the list *)
Lemma dl_path_ins l l' n1 n2 p : forall chain d,
  dl_path l d chain -> NoDup (d :: chain) -> ~ In n1 (d :: chain) -> In n2 chain ->
  lk_prev l n2 = Some p ->
  lk_prev l' n1 = Some p -> lk_next l' p = Some n1 -> lk_next l' n1 = Some n2 ->
  lk_prev l' n2 = Some n1 ->
  (forall j, j <> n1 -> j <> n2 -> lk_prev l' j = lk_prev l j) ->
  (forall j, j <> n1 -> j <> p -> lk_next l' j = lk_next l j) ->
  dl_path l' d (chain_ins_before n2 n1 chain).
Proof.
  induction chain as [|y ys IH]; intros d H ND Hn1 Hin Hp A1 A2 A3 A4 Fp Fn; [destruct Hin|].
  cbn [dl_path] in H. destruct H as (Hnd & Hpy & Hr).
  cbn [chain_ins_before]. destruct (Nat.eqb y n2) eqn:Ey.
  - apply Nat.eqb_eq in Ey. subst y.
    assert (p = d) by congruence. subst p.
    cbn [dl_path]. refine (conj A2 (conj A1 (conj A3 (conj A4 _)))).
    apply (dl_path_frame l l' ys n2 Hr).
    + intros j Hj. apply Fn.
      * intros ->. apply Hn1. now right.
      * intros ->. inversion ND as [|? ? X _]; subst. exact (X Hj).
    + intros j Hj. apply Fp.
      * intros ->. apply Hn1. right. now right.
      * intros ->. inversion ND as [|? ? _ X]; subst. inversion X as [|? ? Y _]; subst. exact (Y Hj).
  - apply Nat.eqb_neq in Ey. destruct Hin as [Hin|Hin]; [congruence|].
    destruct (dl_path_prev_in l ys y n2 Hr Hin) as (p' & E' & Ip). rewrite Hp in E'.
    injection E' as <-.
    assert (Dd : d <> n1) by (intros ->; apply Hn1; now left).
    assert (Dp : d <> p).
    { intros ->. inversion ND as [|? ? X _]; subst. exact (X Ip). }
    assert (Dy : y <> n1) by (intros ->; apply Hn1; right; now left).
    cbn [dl_path]. rewrite (Fn d Dd Dp), (Fp y Dy Ey). refine (conj Hnd (conj Hpy _)).
    apply IH; try assumption.
    + inversion ND; assumption.
    + intros X. apply Hn1. now right.
Qed.

(* the general lemma: for ANY well-formed doubly linked chain, running the four pointer assignments
   and then walking _next_leaf from the dummy head lists chain_ins_before *)
Theorem chain_splice_general l d chain n1 n2 :
  dl_path l d chain -> NoDup (d :: chain) -> ~ In n1 (d :: chain) -> In n2 chain ->
  exists l', run_chain n1 n2 expected_chain_splice l = Some l' /\
    dl_path l' d (chain_ins_before n2 n1 chain) /\
    forall k, walk_next l' (S (length (chain_ins_before n2 n1 chain)) + k) d
              = d :: chain_ins_before n2 n1 chain.
Proof.
  intros H ND Hn1 Hin.
  destruct (dl_path_prev_in l chain d n2 H Hin) as (p & Hp & Ip).
  assert (D12 : n1 <> n2) by (intros ->; apply Hn1; now right).
  assert (D1p : n1 <> p) by (intros ->; exact (Hn1 Ip)).
  destruct (chain_splice_expected n1 n2 p l Hp D12 D1p) as (l' & R & A1 & A2 & A3 & A4 & Fp & Fn).
  exists l'. split; [exact R|].
  pose proof (dl_path_ins l l' n1 n2 p chain d H ND Hn1 Hin Hp A1 A2 A3 A4 Fp Fn) as P.
  split; [exact P|]. intros k. exact (dl_path_walk l' _ d k P).
Qed.

(* with the statements extracted from the `if node2.is_leaf:` block of _split_node *)
Corollary chain_splice_general_gen body l d chain n1 n2 :
  In (DIfLeaf body) GTree.split_node_body ->
  dl_path l d chain -> NoDup (d :: chain) -> ~ In n1 (d :: chain) -> In n2 chain ->
  exists l', run_chain n1 n2 body l = Some l' /\
    dl_path l' d (chain_ins_before n2 n1 chain) /\
    forall k, walk_next l' (S (length (chain_ins_before n2 n1 chain)) + k) d
              = d :: chain_ins_before n2 n1 chain.
Proof.
  intros Hb. assert (body = expected_chain_splice) as ->.
  { vm_compute in Hb. repeat (destruct Hb as [Hb|Hb]; try discriminate Hb); try contradiction.
    injection Hb as <-. reflexivity. }
  apply chain_splice_general.
Qed.

(* =====================================================================================
   5. a concrete reachable state on which the root splits
   ===================================================================================== *)
Module Demo.
Definition fx : float -> float := fun x => x.
Definition cfg0 : config := mkCfg CDiameter 0.875%float 2.
Definition fp1 : fpv := [true; true; false; false; false; false; false; false].
Definition fp2 : fpv := [false; false; true; true; false; false; false; false].
Definition fp3 : fpv := [false; false; false; false; true; true; false; false].
Definition ops : list op := [OFit [Some fp1; Some fp2] None].
Definition st : state := run fx cfg0 ops.
Definition s3 : sub := singleton fp3 2.

(* the history is a documented one and the third row is a documented fit on the state it reaches *)
Example demo_wf :
  2 <= c_bf cfg0 /\ ops_wf fx (init cfg0) ops /\ ops_perms_ok fx (init cfg0) ops /\
  op_wf st (OFit [Some fp3] None).
Proof.
  split; [vm_compute; discriminate|]. split; [|split].
  - vm_compute. repeat split; repeat constructor.
  - apply no_shuffle_perms_ok. reflexivity.
  - vm_compute. repeat split; repeat constructor.
Qed.

(* item 2 on that state, computed: the root is a full leaf (2 = bf entries); the extracted loop body
   gives the model's step; the extracted insert body gives Tree.insert, which asks for a split; the
   extracted _split_node body gives Tree.split_node; the new root is an inner node over two leaves and
   the new leaf is spliced into the chain before the split one *)
Example demo_root_split :
  match root st with
  | Some r =>
      n_entries r = 2%nat /\
      run_fit_body fx GFit.fit_loop_body cfg0 st fp3 2 = insert_st fx cfg0 st s3 1 /\
      insert_src fx (nfeat st) (c_crit cfg0) (c_thr cfg0) s3 r (sax st)
        = Some (insert fx (nfeat st) (c_crit cfg0) (c_thr cfg0) r s3 (sax st)) /\
      run_insert fx (nfeat st) (c_crit cfg0) (c_thr cfg0) GTree.add_to_body GTree.replace_body
                 GTree.update_body GTree.merge_body GTree.append_body GTree.update_split_body
                 (insert_deep fx (nfeat st) (c_crit cfg0) (c_thr cfg0) (height r)) s3
                 GTree.insert_body r (sax st)
        = Some (insert fx (nfeat st) (c_crit cfg0) (c_thr cfg0) r s3 (sax st)) /\
      (let '(r', sp, ax1) := insert fx (nfeat st) (c_crit cfg0) (c_thr cfg0) r s3 (sax st) in
       sp = true /\ n_entries r' = 3%nat /\
       split_src (nfeat st) r' ax1 = Some (split_node (nfeat st) r' ax1)) /\
      (let st' := run_fit_body fx GFit.fit_loop_body cfg0 st fp3 2 in
       match root st' with
       | Some (Inner _ (ECons _ (Leaf 1 _ _ _) (ECons _ (Leaf 0 _ _ _) ENil)) _) =>
           chain (sax st') = [1; 0]%nat /\ nfit st' = 3
       | _ => False
       end)
  | None => False
  end.
Proof. vm_compute. repeat split. Qed.

(* and the general theorem instantiated on it *)
Example demo_general :
  Forall (fun x => st_inv (fst (fst x)) /\
                   row_is_source fx (cfg st) (fst (fst x)) (snd (fst x)) (snd x))
         [(st, fp3, 2)].
Proof.
  destruct demo_wf as (H1 & H2 & H3 & H4).
  exact (proj1 (reachable_insertions_are_source fx cfg0 ops [Some fp3] H1 H2 H3 H4)).
Qed.

(* a second state, one level deeper: the root is an inner node over two leaves; the fourth row is
   routed to the full leaf, which splits (update_split_subclusters at the root: 3 > bf entries), so the
   inner root splits too and the tree grows to height 2.  The recursive activation on the leaf is run
   by the interpreter itself (insert_deep with fuel = height = 1). *)
Definition fp6 : fpv := [false; false; true; true; true; true; false; false].
Definition ops2 : list op := [OFit [Some fp1; Some fp2; Some fp3] None].
Definition st2 : state := run fx cfg0 ops2.
Definition s6 : sub := singleton fp6 3.

Example demo2_wf :
  ops_wf fx (init cfg0) ops2 /\ ops_perms_ok fx (init cfg0) ops2 /\ op_wf st2 (OFit [Some fp6] None).
Proof.
  split; [|split].
  - vm_compute. repeat split; repeat constructor.
  - apply no_shuffle_perms_ok. reflexivity.
  - vm_compute. repeat split; repeat constructor.
Qed.

Example demo_inner_split :
  match root st2 with
  | Some r =>
      height r = 1%nat /\ n_entries r = 2%nat /\
      run_fit_body fx GFit.fit_loop_body cfg0 st2 fp6 3 = insert_st fx cfg0 st2 s6 1 /\
      run_insert fx (nfeat st2) (c_crit cfg0) (c_thr cfg0) GTree.add_to_body GTree.replace_body
                 GTree.update_body GTree.merge_body GTree.append_body GTree.update_split_body
                 (insert_deep fx (nfeat st2) (c_crit cfg0) (c_thr cfg0) (height r)) s6
                 GTree.insert_body r (sax st2)
        = Some (insert fx (nfeat st2) (c_crit cfg0) (c_thr cfg0) r s6 (sax st2)) /\
      (let '(r', sp, ax1) := insert fx (nfeat st2) (c_crit cfg0) (c_thr cfg0) r s6 (sax st2) in
       sp = true /\ n_entries r' = 3%nat /\ chain ax1 = [1; 2; 0]%nat /\
       split_src (nfeat st2) r' ax1 = Some (split_node (nfeat st2) r' ax1)) /\
      (let st' := run_fit_body fx GFit.fit_loop_body cfg0 st2 fp6 3 in
       match root st' with
       | Some r'' => height r'' = 2%nat /\ n_entries r'' = 2%nat /\
                     chain (sax st') = [1; 2; 0]%nat /\ nfit st' = 4
       | None => False
       end)
  | None => False
  end.
Proof. vm_compute. repeat split. Qed.

Example demo2_general :
  Forall (fun x => st_inv (fst (fst x)) /\
                   row_is_source fx (cfg st2) (fst (fst x)) (snd (fst x)) (snd x))
         [(st2, fp6, 3)].
Proof.
  destruct demo_wf as (H1 & _). destruct demo2_wf as (H2 & H3 & H4).
  exact (proj1 (reachable_insertions_are_source fx cfg0 ops2 [Some fp6] H1 H2 H3 H4)).
Qed.
End Demo.
