(* GenTieConfig.v — the merge-configuration logic of class BitBirch (__init__, set_merge, the
   merge_criterion / tolerance property setters and the tolerance getter), regenerated from
   bblean/bitbirch.py on every run (Gen/GConfig.v), is the hand model of Model/Config.v. *)
From BB Require Import Model.Config Gen.GConfig.
Open Scope Z_scope.

Lemma tie_tolerance_of : forall c, GConfig.tolerance_of c = crit_tolerance c.
Proof. intros c. unfold GConfig.tolerance_of. destruct (crit_tolerance c); reflexivity. Qed.

Lemma tie_get_tolerance : forall cf, GConfig.get_tolerance cf = Config.get_tolerance cf.
Proof. intros cf. apply tie_tolerance_of. Qed.

Lemma tie_ctor : forall fexp g thr bf a tol,
  GConfig.ctor fexp g thr bf a tol = Config.ctor fexp g thr bf a tol.
Proof. intros fexp [gc|] thr bf [|n|c] [t|]; reflexivity. Qed.

Lemma tie_set_merge : forall fexp g cf a tol thr bf,
  GConfig.set_merge fexp g cf a tol thr bf = Config.set_merge fexp g cf a tol thr bf.
Proof.
  intros fexp [gc|] cf [|n|c] [t|] [th|] [b|];
    unfold GConfig.set_merge, Config.set_merge; rewrite ?tie_tolerance_of;
    destruct (crit_tolerance (c_crit cf)); reflexivity.
Qed.

Lemma tie_set_criterion_prop : forall fexp g cf n,
  GConfig.set_criterion_prop fexp g cf n = Config.set_criterion_prop fexp g cf n.
Proof. intros. apply tie_set_merge. Qed.

Lemma tie_set_tolerance_prop : forall fexp g cf t,
  GConfig.set_tolerance_prop fexp g cf t = Config.set_tolerance_prop fexp g cf t.
Proof. intros. apply tie_set_merge. Qed.
