(* MemFacts.v — property C04 (memory part): while a memory-mapped file is being fitted, the
   madvise(DONTNEED) calls of _ArrayMemPagesManager only ever touch whole 2 MiB steps that lie
   inside the mapped file and behind the read cursor. *)
From BB Require Import Model.Mem.
From Coq Require Import Lia.
Open Scope Z_scope.

(* ------------------------------------------------------------------ *)
(* arithmetic helpers                                                   *)
(* ------------------------------------------------------------------ *)
Lemma div_succ_hit I j : 0 < I -> (j + 1) mod I = 0 -> (j + 1) / I = j / I + 1.
Proof.
  intros HI Hm.
  pose proof (Z_div_mod_eq_full (j + 1) I) as E. rewrite Hm in E.
  remember ((j + 1) / I) as q eqn:Hq. clear Hq.
  assert (Hj : j = (q - 1) * I + (I - 1)) by lia.
  symmetry. replace (q) with ((q - 1) + 1) at 1 by lia. f_equal.
  symmetry. apply (Z.div_unique_pos j I (q - 1) (I - 1)); lia.
Qed.

Lemma div_succ_miss I j : 0 < I -> (j + 1) mod I <> 0 -> (j + 1) / I = j / I.
Proof.
  intros HI Hm.
  pose proof (Z_div_mod_eq_full (j + 1) I) as E.
  pose proof (Z.mod_pos_bound (j + 1) I HI) as B.
  remember ((j + 1) / I) as q eqn:Hq. remember ((j + 1) mod I) as r eqn:Hr. clear Hq Hr.
  apply (Z.div_unique_pos j I q (r - 1)); lia.
Qed.

Lemma iters_pos P cols : 0 < P -> 0 < cols -> P mod cols = 0 -> 1 <= P / cols /\ P / cols * cols = P.
Proof.
  intros HP Hc Hm.
  pose proof (Z_div_mod_eq_full P cols) as E. rewrite Hm in E.
  assert (E2 : P / cols * cols = P) by lia.
  split; [|exact E2].
  destruct (Z_lt_le_dec (P / cols) 1) as [L|L]; [|exact L].
  exfalso. assert (P / cols * cols <= 0 * cols) by (apply Z.mul_le_mono_nonneg_r; lia). lia.
Qed.

Lemma from_memmap_enabled P cols offset data :
  P mod cols = 0 -> offset < cols ->
  from_memmap P cols offset data = mkPm true P (P / cols) (data - offset).
Proof.
  intros Hm Ho. unfold from_memmap.
  replace (P mod cols =? 0) with true by (symmetry; apply Z.eqb_eq; exact Hm).
  replace (offset <? cols) with true by (symmetry; apply Z.ltb_lt; exact Ho).
  reflexivity.
Qed.

(* ------------------------------------------------------------------ *)
(* M3 — disabled managers never release                                 *)
(* ------------------------------------------------------------------ *)
Lemma no_release_flag m n j : can_release m = false -> fit_releases m n j = [].
Proof.
  revert m j. induction n as [|n IH]; intros m j H; [reflexivity|].
  cbn [fit_releases]. rewrite H. cbn [andb]. apply IH, H.
Qed.

Lemma no_release_when_disabled P cols offset data n :
  (P mod cols <> 0 \/ cols <= offset) ->
  fit_releases (from_memmap P cols offset data) n 0 = [].
Proof.
  intros H. apply no_release_flag. unfold from_memmap.
  destruct H as [H|H].
  - replace (P mod cols =? 0) with false by (symmetry; apply Z.eqb_neq; exact H).
    reflexivity.
  - replace (offset <? cols) with false by (symmetry; apply Z.ltb_ge; exact H).
    rewrite Bool.andb_false_r. reflexivity.
Qed.

(* ------------------------------------------------------------------ *)
(* the loop invariant                                                   *)
(* ------------------------------------------------------------------ *)
(* one unfolding of the loop for an enabled manager *)
Lemma fit_releases_step P I A n j :
  fit_releases (mkPm true P I A) (S n) j =
  if (j + 1) mod I =? 0
  then (A, P, j + 1) :: fit_releases (mkPm true P I (A + P)) n (j + 1)
  else fit_releases (mkPm true P I A) n (j + 1).
Proof. reflexivity. Qed.

(* after j rows, with the manager's address at A: every later release (a, sz, i) is the k-th
   multiple of I rows, and a is A advanced by the number of releases between j and i *)
Lemma fit_releases_inv P I n : 0 < I ->
  forall A j a sz i,
    In (a, sz, i) (fit_releases (mkPm true P I A) n j) ->
    sz = P /\ exists k, j < i /\ i = k * I /\ a = A + (k - 1 - j / I) * P /\ i <= j + Z.of_nat n.
Proof.
  intros HI. induction n as [|n IH]; intros A j a sz i Hin; [destruct Hin|].
  rewrite fit_releases_step in Hin.
  destruct ((j + 1) mod I =? 0) eqn:Hm.
  - apply Z.eqb_eq in Hm.
    pose proof (div_succ_hit I j HI Hm) as D.
    destruct Hin as [Heq|Hin].
    + inversion Heq; subst a sz i. split; [reflexivity|].
      exists ((j + 1) / I).
      pose proof (Z_div_mod_eq_full (j + 1) I) as E. rewrite Hm in E.
      refine (conj _ (conj _ (conj _ _))); try lia.
      all: replace ((j + 1) / I - 1 - j / I) with 0 by lia; lia.
    + destruct (IH _ _ _ _ _ Hin) as (Hs & k & H1 & H2 & H3 & H4).
      split; [exact Hs|]. exists k.
      refine (conj _ (conj H2 (conj _ _))); try lia.
      all: rewrite H3, D.
      all: replace (k - 1 - (j / I + 1)) with ((k - 1 - j / I) - 1) by lia.
      all: rewrite Z.mul_sub_distr_r; lia.
  - apply Z.eqb_neq in Hm.
    pose proof (div_succ_miss I j HI Hm) as D.
    destruct (IH _ _ _ _ _ Hin) as (Hs & k & H1 & H2 & H3 & H4).
    split; [exact Hs|]. exists k.
    refine (conj _ (conj H2 (conj _ _))); try lia.
    all: rewrite H3, D; reflexivity.
Qed.

(* ------------------------------------------------------------------ *)
(* M1                                                                   *)
(* ------------------------------------------------------------------ *)
Lemma fit_releases_shape P cols offset data n :
  0 < P -> 0 < cols -> P mod cols = 0 -> offset < cols ->
  forall a sz i,
    In (a, sz, i) (fit_releases (from_memmap P cols offset data) n 0) ->
    sz = P /\ exists k, 1 <= k /\ i = k * (P / cols) /\ a = (data - offset) + (k - 1) * P /\
                        i <= Z.of_nat n.
Proof.
  intros HP Hc Hm Ho a sz i Hin.
  rewrite from_memmap_enabled in Hin by assumption.
  destruct (iters_pos P cols HP Hc Hm) as [HI _].
  destruct (fit_releases_inv P (P / cols) n ltac:(lia) _ _ _ _ _ Hin)
    as (Hs & k & H1 & H2 & H3 & H4).
  split; [exact Hs|]. exists k.
  rewrite Z.div_0_l in H3 by lia.
  assert (Hk : 1 <= k).
  { destruct (Z_lt_le_dec k 1) as [L|L]; [|exact L]. exfalso.
    assert (k * (P / cols) <= 0 * (P / cols)) by (apply Z.mul_le_mono_nonneg_r; lia). lia. }
  assert (Ha : a = data - offset + (k - 1) * P).
  { rewrite H3. replace (k - 1 - 0) with (k - 1) by lia. reflexivity. }
  refine (conj Hk (conj H2 (conj Ha _))). lia.
Qed.

(* ------------------------------------------------------------------ *)
(* M2 — the safety theorem                                              *)
(* ------------------------------------------------------------------ *)
Theorem release_safe P cols offset data itemsize rows n :
  0 < P -> 0 < cols -> P mod cols = 0 -> 0 <= offset < cols -> 1 <= itemsize ->
  (n <= rows)%nat ->
  let base := data - offset in
  let row_bytes := cols * itemsize in
  forall a sz i,
    In (a, sz, i) (fit_releases (from_memmap P cols offset data) n 0) ->
    sz = P /\ (a - base) mod P = 0 /\ base <= a /\
    a + sz <= base + offset + i * row_bytes /\
    a + sz <= base + offset + Z.of_nat rows * row_bytes.
Proof.
  intros HP Hc Hm Ho Hi Hn base row_bytes a sz i Hin.
  destruct (fit_releases_shape P cols offset data n HP Hc Hm (proj2 Ho) a sz i Hin)
    as (Hs & k & K1 & K2 & K3 & K4).
  destruct (iters_pos P cols HP Hc Hm) as [HI HIc].
  fold base in K3. subst sz.
  remember (P / cols) as I eqn:EI.
  assert (HkP : 0 <= (k - 1) * P) by (apply Z.mul_nonneg_nonneg; lia).
  (* bytes consumed after i rows: i * row_bytes = k * P * itemsize *)
  assert (Hbytes : i * row_bytes = (k * P) * itemsize).
  { unfold row_bytes. rewrite K2, <- HIc. ring. }
  assert (HkP1 : 0 <= k * P) by (apply Z.mul_nonneg_nonneg; lia).
  assert (Hge : k * P * 1 <= (k * P) * itemsize) by (apply Z.mul_le_mono_nonneg_l; lia).
  assert (Hrb : 0 <= row_bytes) by (unfold row_bytes; apply Z.mul_nonneg_nonneg; lia).
  assert (Hrows : i * row_bytes <= Z.of_nat rows * row_bytes)
    by (apply Z.mul_le_mono_nonneg_r; lia).
  assert (Ha : a + P = base + k * P).
  { rewrite K3. rewrite Z.mul_sub_distr_r. lia. }
  refine (conj eq_refl (conj _ (conj _ (conj _ _)))).
  - rewrite K3. replace (base + (k - 1) * P - base) with ((k - 1) * P) by lia.
    apply Z_mod_mult.
  - lia.
  - lia.
  - lia.
Qed.

(* ------------------------------------------------------------------ *)
(* M4 — the exact list of releases                                      *)
(* ------------------------------------------------------------------ *)
Fixpoint zrange (start : Z) (n : nat) : list Z :=
  match n with O => [] | S k => start :: zrange (start + 1) k end.

Lemma in_zrange x s n : In x (zrange s n) <-> s <= x < s + Z.of_nat n.
Proof.
  revert s. induction n as [|n IH]; intros s.
  - cbn [zrange In]. lia.
  - cbn [zrange In]. rewrite IH. lia.
Qed.

Lemma zrange_length s n : length (zrange s n) = n.
Proof. revert s. induction n as [|n IH]; intros s; cbn [zrange length]; [|rewrite IH]; reflexivity. Qed.

Lemma div_mono_nonneg I a b : 0 < I -> a <= b -> a / I <= b / I.
Proof. intros. apply Z.div_le_mono; assumption. Qed.

(* general form: from row j with address A the releases are numbered j/I+1 .. (j+n)/I *)
Lemma fit_releases_explicit P I n : 0 < I ->
  forall A j,
    fit_releases (mkPm true P I A) n j =
    map (fun k => (A + (k - 1 - j / I) * P, P, k * I))
        (zrange (j / I + 1) (Z.to_nat ((j + Z.of_nat n) / I - j / I))).
Proof.
  intros HI. induction n as [|n IH]; intros A j.
  - cbn [fit_releases]. replace (j + Z.of_nat 0) with j by lia.
    rewrite Z.sub_diag. reflexivity.
  - rewrite fit_releases_step.
    replace (j + Z.of_nat (S n)) with (j + 1 + Z.of_nat n) by lia.
    assert (Hmono : (j + 1) / I <= (j + 1 + Z.of_nat n) / I)
      by (apply Z.div_le_mono; lia).
    destruct ((j + 1) mod I =? 0) eqn:Hm.
    + apply Z.eqb_eq in Hm. pose proof (div_succ_hit I j HI Hm) as D.
      rewrite IH.
      replace (Z.to_nat ((j + 1 + Z.of_nat n) / I - j / I))
        with (S (Z.to_nat ((j + 1 + Z.of_nat n) / I - (j + 1) / I))) by lia.
      cbn [zrange map]. f_equal.
      * f_equal. f_equal.
        -- replace (j / I + 1 - 1 - j / I) with 0 by lia. lia.
        -- rewrite <- D. pose proof (Z_div_mod_eq_full (j + 1) I) as E. lia.
      * rewrite D. apply map_ext. intros k. f_equal. f_equal.
        replace (k - 1 - (j / I + 1)) with ((k - 1 - j / I) - 1) by lia.
        rewrite Z.mul_sub_distr_r. lia.
    + apply Z.eqb_neq in Hm. pose proof (div_succ_miss I j HI Hm) as D.
      rewrite IH, D. reflexivity.
Qed.

Lemma releases_explicit P cols offset data n :
  0 < P -> 0 < cols -> P mod cols = 0 -> offset < cols ->
  fit_releases (from_memmap P cols offset data) n 0 =
  map (fun k => ((data - offset) + (k - 1) * P, P, k * (P / cols)))
      (zrange 1 (Z.to_nat (Z.of_nat n / (P / cols)))).
Proof.
  intros HP Hc Hm Ho.
  rewrite from_memmap_enabled by assumption.
  destruct (iters_pos P cols HP Hc Hm) as [HI _].
  rewrite fit_releases_explicit by lia.
  rewrite Z.div_0_l by lia. rewrite Z.sub_0_r, Z.add_0_l. cbn [Z.add].
  apply map_ext. intros k. replace (k - 1 - 0) with (k - 1) by lia. reflexivity.
Qed.

(* the addresses: base, base + P, base + 2P, ... — r = n / (P / cols) of them *)
Lemma releases_increasing P cols offset data n :
  0 < P -> 0 < cols -> P mod cols = 0 -> offset < cols ->
  map (fun x => fst (fst x)) (fit_releases (from_memmap P cols offset data) n 0) =
  map (fun k => (data - offset) + k * P) (zrange 0 (Z.to_nat (Z.of_nat n / (P / cols)))).
Proof.
  intros HP Hc Hm Ho. rewrite releases_explicit by assumption.
  rewrite map_map. cbn [fst].
  generalize (Z.to_nat (Z.of_nat n / (P / cols))) as r.
  assert (G : forall r s, map (fun k => data - offset + (k - 1) * P) (zrange (s + 1) r) =
                          map (fun k => data - offset + k * P) (zrange s r)).
  { induction r as [|r IH]; intros s; [reflexivity|].
    cbn [zrange map]. rewrite IH. f_equal. f_equal. f_equal. lia. }
  intros r. exact (G r 0).
Qed.

(* pairwise form: consecutive releases are exactly P apart ... *)
Lemma releases_consecutive P cols offset data n :
  0 < P -> 0 < cols -> P mod cols = 0 -> offset < cols ->
  forall l1 a1 s1 i1 a2 s2 i2 l2,
    fit_releases (from_memmap P cols offset data) n 0 = l1 ++ (a1, s1, i1) :: (a2, s2, i2) :: l2 ->
    a2 = a1 + P /\ i2 = i1 + P / cols.
Proof.
  intros HP Hc Hm Ho l1 a1 s1 i1 a2 s2 i2 l2 E.
  rewrite releases_explicit in E by assumption.
  remember (Z.to_nat (Z.of_nat n / (P / cols))) as r eqn:Hr. clear Hr.
  assert (G : forall (l1 : list (Z * Z * Z)) s r,
             map (fun k => (data - offset + (k - 1) * P, P, k * (P / cols))) (zrange s r) =
             l1 ++ (a1, s1, i1) :: (a2, s2, i2) :: l2 -> a2 = a1 + P /\ i2 = i1 + P / cols);
    [|exact (G l1 1 r E)].
  clear l1 r E. intros l1. induction l1 as [|x l1 IH]; intros s r E.
  - destruct r as [|[|r]]; cbn [zrange map app] in E; try discriminate.
    inversion E; subst. split; ring.
  - destruct r as [|r]; cbn [zrange map app] in E; [discriminate|].
    inversion E as [[Hx E']]. eapply IH. exact E'.
Qed.

(* ... hence no address (no page) is released twice *)
Lemma releases_NoDup P cols offset data n :
  0 < P -> 0 < cols -> P mod cols = 0 -> offset < cols ->
  NoDup (map (fun x => fst (fst x)) (fit_releases (from_memmap P cols offset data) n 0)).
Proof.
  intros HP Hc Hm Ho. rewrite releases_increasing by assumption.
  generalize (Z.to_nat (Z.of_nat n / (P / cols))) as r. generalize 0 as s.
  intros s r. revert s. induction r as [|r IH]; intros s; cbn [zrange map]; constructor.
  - rewrite in_map_iff. intros (k & Hk & Hin). apply in_zrange in Hin.
    assert (k * P = s * P) by lia.
    assert (k = s) by (apply (Z.mul_reg_r _ _ P); lia). lia.
  - apply IH.
Qed.

(* two distinct released ranges [a, a+P) never overlap *)
Lemma releases_disjoint P cols offset data n :
  0 < P -> 0 < cols -> P mod cols = 0 -> offset < cols ->
  forall a1 s1 i1 a2 s2 i2,
    In (a1, s1, i1) (fit_releases (from_memmap P cols offset data) n 0) ->
    In (a2, s2, i2) (fit_releases (from_memmap P cols offset data) n 0) ->
    a1 = a2 \/ a1 + s1 <= a2 \/ a2 + s2 <= a1.
Proof.
  intros HP Hc Hm Ho a1 s1 i1 a2 s2 i2 H1 H2.
  destruct (fit_releases_shape P cols offset data n HP Hc Hm Ho _ _ _ H1)
    as (-> & k1 & _ & _ & -> & _).
  destruct (fit_releases_shape P cols offset data n HP Hc Hm Ho _ _ _ H2)
    as (-> & k2 & _ & _ & -> & _).
  destruct (Z.lt_trichotomy k1 k2) as [L|[L|L]].
  - right; left.
    assert ((k1 - 1 + 1) * P <= (k2 - 1) * P) by (apply Z.mul_le_mono_nonneg_r; lia).
    lia.
  - left. subst. reflexivity.
  - right; right.
    assert ((k2 - 1 + 1) * P <= (k1 - 1) * P) by (apply Z.mul_le_mono_nonneg_r; lia).
    lia.
Qed.

(* ------------------------------------------------------------------ *)
(* M5                                                                   *)
(* ------------------------------------------------------------------ *)
Example release_example :
  fit_releases (from_memmap 2097152 256 128 1000128) 20000 0 =
  [(1000000, 2097152, 8192); (3097152, 2097152, 16384)].
Proof. vm_compute. reflexivity. Qed.

Print Assumptions fit_releases_shape.
Print Assumptions release_safe.
Print Assumptions no_release_when_disabled.
Print Assumptions no_release_flag.
Print Assumptions releases_explicit.
Print Assumptions releases_increasing.
Print Assumptions releases_consecutive.
Print Assumptions releases_NoDup.
Print Assumptions releases_disjoint.
Print Assumptions release_example.
