(* IsimBound.v — iSIM (isim_f) on the whole no-wrap range n * sum k < 2^63:
   uint64 -> double conversion is round-to-nearest-even on all of uint64,
   standard relative-error model, and a rigorous relative error bound for the
   computed iSIM value against the exact rational pairs11 / (pairs11 + pairs10). *)
From BB Require Import Model.Sim.
From Coq Require Import ZArith List Bool Reals Lia Lra Psatz.
From Flocq Require Import Core BinarySingleNaN Relative Mult_error Round_odd.
From Flocq Require Import IEEE754.PrimFloat.
From BB Require Import Proofs.FloatFacts Proofs.IsimFacts.
Import ListNotations.
Open Scope Z_scope.

#[local] Existing Instance Hprec.
#[local] Existing Instance Hmax.

(* ------------------------------------------------------------------ *)
(* 0. Format helpers                                                   *)
(* ------------------------------------------------------------------ *)

Lemma fexp64_FLT : forall e, fexp64 e = FLT_exp (-1074) 53 e.
Proof. reflexivity. Qed.

Lemma fmt_bpow : forall e, -1074 <= e ->
  generic_format radix2 fexp64 (bpow radix2 e).
Proof.
  intros e He.
  replace (bpow radix2 e) with (F2R (Float radix2 1 e)).
  - apply fmt_scaled; [ reflexivity | exact He ].
  - unfold F2R. simpl. ring.
Qed.

Lemma rnd64_abs_le_bpow : forall x e, -1074 <= e ->
  (Rabs x <= bpow radix2 e)%R -> (Rabs (rnd64 x) <= bpow radix2 e)%R.
Proof.
  intros x e He Hx.
  apply abs_round_le_generic; try typeclasses eauto; [ apply fmt_bpow; exact He | exact Hx ].
Qed.

Lemma rnd64_no_overflow : forall x e, -1074 <= e < 1024 ->
  (Rabs x <= bpow radix2 e)%R -> (Rabs (rnd64 x) < bpow radix2 emax)%R.
Proof.
  intros x e He Hx.
  apply Rle_lt_trans with (bpow radix2 e).
  - apply rnd64_abs_le_bpow; [ lia | exact Hx ].
  - apply bpow_lt. unfold emax. lia.
Qed.

Lemma rnd64_nonneg : forall x, (0 <= x)%R -> (0 <= rnd64 x)%R.
Proof. intros x H. rewrite <- rnd64_0. apply rnd64_le. exact H. Qed.

Lemma IZR_pow2 : forall e, 0 <= e -> IZR (2 ^ e) = bpow radix2 e.
Proof. intros e He. change 2 with (radix_val radix2). apply IZR_Zpower. exact He. Qed.

(* ------------------------------------------------------------------ *)
(* 1. Z2f is round-to-nearest-even on the whole uint64 range           *)
(* ------------------------------------------------------------------ *)

Lemma Z2f_spec_63 : forall z, 0 <= z < 2 ^ 63 ->
  is_finite (Prim2B (Z2f z)) = true /\
  B2R (Prim2B (Z2f z)) = rnd64 (IZR z) /\
  Bsign (Prim2B (Z2f z)) = false.
Proof.
  intros z Hz. unfold Z2f.
  destruct (z <? 0) eqn:E0; [ apply Z.ltb_lt in E0; lia | ].
  destruct (z <? 9223372036854775808) eqn:E1;
    [ | apply Z.ltb_ge in E1; change 9223372036854775808 with (2 ^ 63) in E1; lia ].
  rewrite of_int63_equiv, Uint63.of_Z_spec.
  rewrite Z.mod_small by (change wB with (2 ^ 63); lia).
  generalize (binary_normalize_correct prec emax Hprec Hmax mode_NE z 0 false).
  cbv zeta. rewrite F2R_int.
  rewrite Rlt_bool_true.
  - intros (HR & HF & HS). split; [ exact HF | split; [ exact HR | ] ].
    rewrite HS.
    destruct (Rcompare_spec (IZR z) 0) as [H | H | H]; auto.
    apply lt_IZR in H. lia.
  - apply rnd64_no_overflow with 63; [ unfold emax; lia | ].
    rewrite <- abs_IZR, <- IZR_pow2 by lia. apply IZR_le. lia.
Qed.

(* ------------------------------------------------------------------ *)
(* 2. Standard model: relative error 2^-53 in the normal range         *)
(* ------------------------------------------------------------------ *)

Definition u64 : R := bpow radix2 (-53).

Lemma u64_val : u64 = (/ 9007199254740992)%R.
Proof. unfold u64. simpl. reflexivity. Qed.

Lemma rnd64_rel_abs : forall x, (bpow radix2 (-1022) <= Rabs x)%R ->
  (Rabs (rnd64 x - x) <= u64 * Rabs x)%R.
Proof.
  intros x Hx.
  generalize (relative_error_N_FLT radix2 (-1074) 53 ltac:(lia)
                (fun x => negb (Z.even x)) x Hx).
  replace (/ 2 * bpow radix2 (- (53) + 1))%R with u64; [ intro H; exact H | ].
  unfold u64. simpl. lra.
Qed.

Lemma rnd64_rel_ex : forall x, (bpow radix2 (-1022) <= Rabs x)%R ->
  exists e, (Rabs e <= u64)%R /\ rnd64 x = (x * (1 + e))%R.
Proof.
  intros x Hx.
  destruct (relative_error_N_FLT_ex radix2 (-1074) 53 ltac:(lia)
              (fun x => negb (Z.even x)) x Hx) as (e & He & HR).
  exists e. split; [ | exact HR ].
  replace u64 with (/ 2 * bpow radix2 (- (53) + 1))%R; [ exact He | ].
  unfold u64. simpl. lra.
Qed.

(* zero or at least 2^-1022 in magnitude: the form used below *)
Lemma rnd64_rel0 : forall x, (x = 0 \/ bpow radix2 (-1022) <= Rabs x)%R ->
  (Rabs (rnd64 x - x) <= u64 * Rabs x)%R.
Proof.
  intros x [H | H].
  - subst x. rewrite rnd64_0, Rminus_0_r, Rabs_R0. lra.
  - apply rnd64_rel_abs. exact H.
Qed.

Lemma bpow_m1022_le_half : (bpow radix2 (-1022) <= / 2)%R.
Proof.
  replace (/ 2)%R with (bpow radix2 (-1)) by (simpl; lra).
  apply bpow_le. lia.
Qed.

Lemma rnd64_rel_int : forall z, 0 <= z ->
  (Rabs (rnd64 (IZR z) - IZR z) <= u64 * IZR z)%R.
Proof.
  intros z Hz.
  assert (H0 : (0 <= IZR z)%R) by (apply IZR_le; exact Hz).
  rewrite <- (Rabs_pos_eq (IZR z)) at 3 by exact H0.
  apply rnd64_rel0.
  destruct (Z.eq_dec z 0) as [E | E]; [ left; subst; reflexivity | right ].
  rewrite Rabs_pos_eq by exact H0.
  apply Rle_trans with 1%R; [ pose proof bpow_m1022_le_half; lra | ].
  apply IZR_le. lia.
Qed.

(* ------------------------------------------------------------------ *)
(* 3. Primitive operations on finite arguments, away from overflow     *)
(* ------------------------------------------------------------------ *)

Lemma fadd_spec : forall x y : PrimFloat.float,
  is_finite (Prim2B x) = true -> is_finite (Prim2B y) = true ->
  (Rabs (B2R (Prim2B x) + B2R (Prim2B y)) <= bpow radix2 100)%R ->
  is_finite (Prim2B (x + y)) = true /\
  B2R (Prim2B (x + y)) = rnd64 (B2R (Prim2B x) + B2R (Prim2B y)).
Proof.
  intros x y Fx Fy Hb.
  generalize (Bplus_correct prec emax Hprec Hmax mode_NE (Prim2B x) (Prim2B y) Fx Fy).
  rewrite <- add_equiv.
  rewrite Rlt_bool_true by (apply rnd64_no_overflow with 100; [ lia | exact Hb ]).
  intros (HR & HF & _). split; assumption.
Qed.

Lemma fsub_spec : forall x y : PrimFloat.float,
  is_finite (Prim2B x) = true -> is_finite (Prim2B y) = true ->
  (Rabs (B2R (Prim2B x) - B2R (Prim2B y)) <= bpow radix2 100)%R ->
  is_finite (Prim2B (x - y)) = true /\
  B2R (Prim2B (x - y)) = rnd64 (B2R (Prim2B x) - B2R (Prim2B y)).
Proof.
  intros x y Fx Fy Hb.
  generalize (Bminus_correct prec emax Hprec Hmax mode_NE (Prim2B x) (Prim2B y) Fx Fy).
  rewrite <- sub_equiv.
  rewrite Rlt_bool_true by (apply rnd64_no_overflow with 100; [ lia | exact Hb ]).
  intros (HR & HF & _). split; assumption.
Qed.

Lemma fdiv_spec : forall x y : PrimFloat.float,
  is_finite (Prim2B x) = true -> B2R (Prim2B y) <> 0%R ->
  (Rabs (B2R (Prim2B x) / B2R (Prim2B y)) <= bpow radix2 100)%R ->
  is_finite (Prim2B (x / y)) = true /\
  B2R (Prim2B (x / y)) = rnd64 (B2R (Prim2B x) / B2R (Prim2B y)).
Proof.
  intros x y Fx Hy Hb.
  generalize (Bdiv_correct prec emax Hprec Hmax mode_NE (Prim2B x) (Prim2B y) Hy).
  rewrite <- div_equiv.
  rewrite Rlt_bool_true by (apply rnd64_no_overflow with 100; [ lia | exact Hb ]).
  intros (HR & HF & _). rewrite HF, Fx. split; [ reflexivity | exact HR ].
Qed.

Lemma two_spec : is_finite (Prim2B 2%float) = true /\ B2R (Prim2B 2%float) = 2%R.
Proof.
  rewrite <- Z2f_two. destruct (Z2f_spec 2) as (F & R & _); [ lia | ].
  split; assumption.
Qed.

(* halving a rounded non-negative integer is exact *)
Lemma rnd64_half_exact : forall z, 0 <= z ->
  rnd64 (rnd64 (IZR z) / 2) = (rnd64 (IZR z) / 2)%R.
Proof.
  intros z Hz.
  apply round_generic; [ typeclasses eauto | ].
  destruct (Z.eq_dec z 0) as [E | E].
  - subst z. rewrite rnd64_0. unfold Rdiv. rewrite Rmult_0_l. apply generic_format_0.
  - replace (rnd64 (IZR z) / 2)%R with (rnd64 (IZR z) * bpow radix2 (-1))%R
      by (simpl; lra).
    apply (mult_bpow_exact_FLT radix2 (-1074) 53).
    + apply generic_format_round; typeclasses eauto.
    + assert (H1 : (1 <= rnd64 (IZR z))%R).
      { rewrite <- rnd64_1. apply rnd64_le. apply IZR_le. lia. }
      assert (Hm : 1 <= mag radix2 (rnd64 (IZR z))).
      { apply mag_ge_bpow. change (bpow radix2 (1 - 1)) with 1%R. rewrite Rabs_pos_eq; lra. }
      lia.
Qed.

(* ------------------------------------------------------------------ *)
(* 3b. Z2f on [2^63, 2^64): halving with a sticky bit is round-to-odd,  *)
(*     so the result is still the round-to-nearest-even of z            *)
(* ------------------------------------------------------------------ *)

(* scaling by 2 commutes with rounding away from the subnormal range *)
Lemma rnd64_scale2 : forall x, (1 <= Rabs x)%R -> rnd64 (x * 2) = (rnd64 x * 2)%R.
Proof.
  intros x Hx.
  assert (Hx0 : x <> 0%R).
  { intro E. rewrite E, Rabs_R0 in Hx. lra. }
  assert (Hm : 1 <= mag radix2 x).
  { apply mag_ge_bpow. change (bpow radix2 (1 - 1)) with 1%R. exact Hx. }
  replace (x * 2)%R with (x * bpow radix2 1)%R by (simpl; lra).
  assert (Hc : cexp radix2 fexp64 (x * bpow radix2 1) = cexp radix2 fexp64 x + 1).
  { unfold cexp. rewrite mag_mult_bpow by exact Hx0.
    rewrite !fexp64_FLT. unfold FLT_exp. lia. }
  unfold round, F2R, scaled_mantissa. cbn [Fnum Fexp].
  rewrite Hc.
  replace (x * bpow radix2 1 * bpow radix2 (- (cexp radix2 fexp64 x + 1)))%R
    with (x * bpow radix2 (- cexp radix2 fexp64 x))%R.
  - rewrite bpow_plus. change (bpow radix2 1) with 2%R. ring.
  - rewrite Z.opp_add_distr, bpow_plus. rewrite Rmult_assoc.
    rewrite (Rmult_comm (bpow radix2 1)), Rmult_assoc.
    rewrite <- (bpow_plus radix2 (-(1)) 1). simpl. ring.
Qed.

Lemma lor_one : forall q, 0 <= q -> Z.lor q 1 = if Z.even q then q + 1 else q.
Proof.
  intros [|p|p] Hq; [ reflexivity | | lia ].
  destruct p; reflexivity.
Qed.

Lemma sticky_val : forall z,
  Z.lor (Z.shiftr z 1) (Z.land z 1) = Z.lor (z / 2) (z mod 2).
Proof.
  intros z. rewrite Z.shiftr_div_pow2 by lia.
  change (Z.land z 1) with (Z.land z (Z.ones 1)). rewrite Z.land_ones by lia.
  reflexivity.
Qed.

(* (z >> 1) | (z & 1) is z / 2 rounded to odd *)
Lemma sticky_odd : forall z, 0 <= z ->
  Z.lor (Z.shiftr z 1) (Z.land z 1) = Zrnd_odd (IZR z / 2).
Proof.
  intros z Hz.
  rewrite sticky_val.
  pose proof (Z.div_mod z 2 ltac:(lia)) as Ez.
  pose proof (Z.mod_pos_bound z 2 ltac:(lia)) as Hb.
  set (q := z / 2) in *. set (b := z mod 2) in *.
  assert (Hq : 0 <= q) by lia.
  assert (Ex : (IZR z / 2 = IZR q + IZR b / 2)%R).
  { rewrite Ez, plus_IZR, mult_IZR. field. }
  rewrite Ex. unfold Zrnd_odd.
  assert (Hb' : b = 0 \/ b = 1) by lia.
  destruct Hb' as [Eb | Eb]; rewrite Eb.
  - rewrite Z.lor_0_r.
    replace (IZR q + 0 / 2)%R with (IZR q) by lra.
    rewrite Zfloor_IZR.
    destruct (Req_EM_T (IZR q) (IZR q)) as [_ | N]; [ reflexivity | contradiction ].
  - rewrite lor_one by exact Hq.
    assert (Hf : Zfloor (IZR q + 1 / 2) = q).
    { apply Zfloor_imp. rewrite plus_IZR. lra. }
    rewrite Hf.
    destruct (Req_EM_T (IZR q + 1 / 2) (IZR q)) as [A | _]; [ lra | ].
    destruct (Z.even q); [ | reflexivity ].
    symmetry. apply Zceil_imp. replace (q + 1 - 1) with q by lia.
    rewrite plus_IZR. lra.
Qed.

Lemma v53 : Valid_exp (FLT_exp (-1074) 53).
Proof. apply FLT_exp_valid. unfold Prec_gt_0. lia. Qed.
Lemma v63 : Valid_exp (FLT_exp (-1076) 63).
Proof. apply FLT_exp_valid. unfold Prec_gt_0. lia. Qed.
Lemma exNE53 : Exists_NE radix2 (FLT_exp (-1074) 53).
Proof. apply exists_NE_FLT. right. lia. Qed.
Lemma exNE63 : Exists_NE radix2 (FLT_exp (-1076) 63).
Proof. apply exists_NE_FLT. right. lia. Qed.

(* RNE to 53 bits of the 63-bit round-to-odd = RNE to 53 bits *)
Lemma rnd64_odd63 : forall x,
  rnd64 (round radix2 (FLT_exp (-1076) 63) Zrnd_odd x) = rnd64 x.
Proof.
  intros x.
  apply (@round_N_odd radix2 eq_refl (FLT_exp (-1074) 53) (FLT_exp (-1076) 63)
           (fun x => negb (Z.even x)) v53 exNE53 v63 exNE63).
  intros e. unfold FLT_exp. lia.
Qed.

Lemma round_odd63_int : forall x, (bpow radix2 62 <= x < bpow radix2 63)%R ->
  round radix2 (FLT_exp (-1076) 63) Zrnd_odd x = IZR (Zrnd_odd x).
Proof.
  intros x Hx.
  assert (Hm : mag radix2 x = 63 :> Z) by (apply mag_unique_pos; exact Hx).
  unfold round, F2R, scaled_mantissa, cexp. cbn [Fnum Fexp]. rewrite Hm.
  change (FLT_exp (-1076) 63 63) with 0.
  simpl. rewrite !Rmult_1_r. reflexivity.
Qed.

Lemma Z2f_spec_full : forall z, 0 <= z < 2 ^ 64 ->
  is_finite (Prim2B (Z2f z)) = true /\
  B2R (Prim2B (Z2f z)) = rnd64 (IZR z) /\
  Bsign (Prim2B (Z2f z)) = false.
Proof.
  intros z Hz.
  destruct (Z_lt_le_dec z (2 ^ 63)) as [Hlt | Hge]; [ apply Z2f_spec_63; lia | ].
  set (h := Z.lor (Z.shiftr z 1) (Z.land z 1)).
  assert (Eh : h = Zrnd_odd (IZR z / 2)) by (apply sticky_odd; lia).
  assert (Hx : (bpow radix2 62 <= IZR z / 2 < bpow radix2 63)%R).
  { rewrite <- !IZR_pow2 by lia.
    assert (IZR (2 ^ 63) <= IZR z)%R by (apply IZR_le; lia).
    assert (IZR z < IZR (2 ^ 64))%R by (apply IZR_lt; lia).
    change (2 ^ 62) with 4611686018427387904.
    change (2 ^ 63) with 9223372036854775808 in *.
    change (2 ^ 64) with 18446744073709551616 in *. lra. }
  (* h is in [2^62, 2^63) *)
  assert (Hh : 2 ^ 62 <= h < 2 ^ 63).
  { unfold h. rewrite sticky_val.
    pose proof (Z.div_mod z 2 ltac:(lia)) as Ez.
    pose proof (Z.mod_pos_bound z 2 ltac:(lia)) as Hb.
    set (q := z / 2) in *. set (b := z mod 2) in *.
    change (2 ^ 62) with 4611686018427387904.
    change (2 ^ 63) with 9223372036854775808 in *.
    change (2 ^ 64) with 18446744073709551616 in *.
    assert (Hq : 9223372036854775808 <= 2 * q + b < 18446744073709551616) by lia.
    assert (Hb' : b = 0 \/ b = 1) by lia.
    destruct Hb' as [Eb | Eb]; rewrite Eb.
    - rewrite Z.lor_0_r. lia.
    - rewrite lor_one by lia. destruct (Z.even q) eqn:Ev; [ | lia ].
      apply Z.even_spec in Ev. destruct Ev as (p & Ep). lia. }
  assert (EZ : Z2f z = (Z2f h * 2)%float).
  { unfold Z2f at 1.
    destruct (z <? 0) eqn:E0; [ apply Z.ltb_lt in E0; lia | ].
    destruct (z <? 9223372036854775808) eqn:E1;
      [ apply Z.ltb_lt in E1; change 9223372036854775808 with (2 ^ 63) in E1; lia | ].
    cbv zeta. fold h. unfold Z2f.
    destruct (h <? 0) eqn:E2; [ apply Z.ltb_lt in E2; lia | ].
    destruct (h <? 9223372036854775808) eqn:E3; [ reflexivity | ].
    apply Z.ltb_ge in E3. change 9223372036854775808 with (2 ^ 63) in E3. lia. }
  destruct (Z2f_spec_63 h) as (Fh & Rh & Sh); [ lia | ].
  destruct two_spec as (F2 & R2).
  (* rnd64 h = rnd64 (z / 2) *)
  assert (Rh' : rnd64 (IZR h) = rnd64 (IZR z / 2)).
  { rewrite Eh, <- (round_odd63_int _ Hx). apply rnd64_odd63. }
  assert (Rz : (rnd64 (IZR z / 2) * 2)%R = rnd64 (IZR z)).
  { rewrite <- rnd64_scale2.
    - f_equal. field.
    - rewrite Rabs_pos_eq; [ | pose proof (bpow_ge_0 radix2 62); lra ].
      apply Rle_trans with (bpow radix2 62); [ | apply Hx ].
      change 1%R with (bpow radix2 0). apply bpow_le. lia. }
  assert (G : rnd64 (rnd64 (IZR h) * 2) = (rnd64 (IZR h) * 2)%R).
  { apply round_generic; [ typeclasses eauto | ].
    change 2%R with (bpow radix2 1).
    apply (mult_bpow_pos_exact_FLT radix2 (-1074) 53); [ | lia ].
    apply generic_format_round; typeclasses eauto. }
  rewrite EZ, mul_equiv.
  generalize (Bmult_correct prec emax Hprec Hmax mode_NE (Prim2B (Z2f h)) (Prim2B 2%float)).
  rewrite Rh, R2, G, Rh', Rz, Fh, F2.
  rewrite Rlt_bool_true.
  - intros (HR & HF & HS). split; [ exact HF | split; [ exact HR | ] ].
    rewrite HS.
    + rewrite Sh. rewrite <- Z2f_two. destruct (Z2f_spec 2) as (_ & _ & S2); [ lia | ].
      rewrite S2. reflexivity.
    + revert HF. simpl.
      destruct (Bmult mode_NE (Prim2B (Z2f h)) (Prim2B 2)); simpl; congruence.
  - apply rnd64_no_overflow with 64; [ unfold emax; lia | ].
    rewrite <- abs_IZR, <- IZR_pow2 by lia. apply IZR_le. lia.
Qed.

(* ------------------------------------------------------------------ *)
(* 4. Pure real error analysis                                         *)
(* ------------------------------------------------------------------ *)

Open Scope R_scope.

(* Denominator d = fl(fl(a + b) - c) against D = P + N - Q.  The subtraction
   cancels, but never catastrophically: N <= 4 D for count vectors. *)
Lemma den_chain : forall u P N Q D a b c s d : R,
  u = / 9007199254740992 ->
  0 <= P -> 2 * P <= N -> 0 <= Q <= N -> D = P + N - Q -> N <= 4 * D ->
  Rabs (a - P) <= u * P -> Rabs (b - N) <= u * N -> Rabs (c - Q) <= u * Q ->
  Rabs (s - (a + b)) <= u * Rabs (a + b) ->
  Rabs (d - (s - c)) <= u * Rabs (s - c) ->
  0 <= a + b /\ 0 <= s - c /\ Rabs (d - D) <= 18 * u * D.
Proof.
  intros u P N Q D a b c s d Hu HP HPN HQ HD HND Ha Hb Hc Hs Hd.
  apply Rabs_le_inv in Ha. apply Rabs_le_inv in Hb. apply Rabs_le_inv in Hc.
  assert (Hab : 0 <= a + b) by (subst u; lra).
  rewrite (Rabs_pos_eq _ Hab) in Hs. apply Rabs_le_inv in Hs.
  assert (Hsc : 0 <= s - c) by (subst u D; lra).
  rewrite (Rabs_pos_eq _ Hsc) in Hd. apply Rabs_le_inv in Hd.
  split; [ exact Hab | split; [ exact Hsc | ] ].
  apply Rabs_le. subst u D. lra.
Qed.

(* quotient q = a / d against E = P / D *)
Lemma quot_chain : forall u P D a d : R,
  u = / 9007199254740992 ->
  0 <= P -> 0 < D ->
  Rabs (a - P) <= u * P -> Rabs (d - D) <= 18 * u * D ->
  0 < d /\ 0 <= a / d /\
  (a / d) * (1 - 18 * u) <= (P / D) * (1 + u) /\
  (P / D) * (1 - u) <= (a / d) * (1 + 18 * u).
Proof.
  intros u P D a d Hu HP HD Ha Hd.
  apply Rabs_le_inv in Ha. apply Rabs_le_inv in Hd.
  assert (Hd0 : 0 < d) by (subst u; lra).
  assert (Ha0 : 0 <= a) by (subst u; lra).
  set (q := a / d). set (E := P / D).
  assert (Hq : q * d = a) by (unfold q; field; lra).
  assert (HE : E * D = P) by (unfold E; field; lra).
  assert (Hq0 : 0 <= q).
  { unfold q, Rdiv. apply Rmult_le_pos; [ exact Ha0 | ].
    apply Rlt_le, Rinv_0_lt_compat. exact Hd0. }
  split; [ exact Hd0 | split; [ exact Hq0 | split ] ].
  - apply Rmult_le_reg_r with D; [ exact HD | ].
    assert (H1 : q * (D * (1 - 18 * u)) <= q * d).
    { apply Rmult_le_compat_l; [ exact Hq0 | subst u; lra ]. }
    replace (q * (1 - 18 * u) * D) with (q * (D * (1 - 18 * u))) by ring.
    replace (E * (1 + u) * D) with ((E * D) * (1 + u)) by ring.
    rewrite HE. rewrite Hq in H1. subst u. lra.
  - apply Rmult_le_reg_r with D; [ exact HD | ].
    assert (H1 : q * d <= q * (D * (1 + 18 * u))).
    { apply Rmult_le_compat_l; [ exact Hq0 | subst u; lra ]. }
    replace (q * (1 + 18 * u) * D) with (q * (D * (1 + 18 * u))) by ring.
    replace (E * (1 - u) * D) with ((E * D) * (1 - u)) by ring.
    rewrite HE. rewrite Hq in H1. subst u. lra.
Qed.

Lemma final_chain : forall u E q r : R,
  u = / 9007199254740992 ->
  0 <= E -> 0 <= q ->
  q * (1 - 18 * u) <= E * (1 + u) ->
  E * (1 - u) <= q * (1 + 18 * u) ->
  Rabs (r - q) <= u * q ->
  Rabs (r - E) <= 21 * u * E.
Proof.
  intros u E q r Hu HE Hq H1 H2 Hr.
  apply Rabs_le_inv in Hr. apply Rabs_le. subst u. lra.
Qed.

Close Scope R_scope.

(* ------------------------------------------------------------------ *)
(* 5. The iSIM bound on the whole no-wrap range                        *)
(* ------------------------------------------------------------------ *)

Lemma bpow64_val : bpow radix2 64 = 18446744073709551616%R.
Proof. rewrite <- IZR_pow2 by lia. reflexivity. Qed.

Lemma le_bpow100 : forall x, (Rabs x <= 18446744073709551616)%R ->
  (Rabs x <= bpow radix2 100)%R.
Proof.
  intros x H. apply Rle_trans with (bpow radix2 64).
  - rewrite bpow64_val. exact H.
  - apply bpow_le. lia.
Qed.

Lemma bpow_m1022_le_m66 : (bpow radix2 (-1022) <= / 73786976294838206464)%R.
Proof.
  apply Rle_trans with (bpow radix2 (-66)).
  - apply bpow_le. lia.
  - simpl. lra.
Qed.

(* the model unfolded in the no-wrap regime *)
Lemma isim_unfold_nowrap ks n : 2 <= n -> counts_ok ks n -> 0 < zsum ks ->
  n * zsum ks < 2 ^ 63 ->
  isim_f ks n =
  (let a := (Z2f (2 * pairs11 ks) / 2)%float in
   a / ((a + Z2f (n * zsum ks)) - Z2f (zdot ks ks)))%float.
Proof.
  intros Hn Hok Hs Hb.
  destruct (isim_nowrap ks n Hn Hok Hb) as (E1 & E2 & E3 & E4 & E5).
  unfold isim_f.
  destruct (n <? 2) eqn:E; [ apply Z.ltb_lt in E; lia | ].
  cbv zeta. rewrite E1, E2, E3, E4, E5.
  destruct (zsum ks =? 0) eqn:Ez; [ apply Z.eqb_eq in Ez; lia | ].
  rewrite isim_num_id. reflexivity.
Qed.

(* integer side conditions: no catastrophic cancellation in the denominator *)
Lemma isim_int_facts ks n : 2 <= n -> counts_ok ks n -> 0 < zsum ks ->
  n * zsum ks < 2 ^ 63 ->
  let P := pairs11 ks in let D := pairs11 ks + pairs10 ks n in
  let N := n * zsum ks in let Q := zdot ks ks in
  0 <= P /\ 2 * P <= N /\ 0 <= Q <= N /\ D = P + N - Q /\ N <= 4 * D /\
  0 < D /\ P <= D /\ N < 2 ^ 63.
Proof.
  intros Hn Hok Hs Hb. cbv zeta.
  destruct (counts_bounds ks n Hok) as (H0 & H1 & H2 & _).
  pose proof (isim_num_id ks) as Enum.
  pose proof (isim_den_id ks n) as Eden.
  pose proof (pairs_pos ks n Hn Hok Hs) as Dpos.
  pose proof (pairs10_nonneg ks n Hok) as P0.
  pose proof (pairs11_nonneg ks n Hok) as P1.
  remember (pairs11 ks) as A. remember (pairs10 ks n) as C.
  remember (zsum ks) as S. remember (zdot ks ks) as Q.
  remember (2 ^ 63) as B63.
  assert (HS2 : 2 * S <= n * S) by nia.
  repeat split; lia.
Qed.

(* the subtraction (a + N) - Q in the denominator never cancels catastrophically:
   the exact denominator is at least a quarter of the largest operand *)
Lemma isim_no_cancellation ks n : 2 <= n -> counts_ok ks n -> 0 < zsum ks ->
  n * zsum ks < 2 ^ 63 ->
  zdot ks ks <= n * zsum ks /\
  n * zsum ks <= 4 * (pairs11 ks + pairs10 ks n).
Proof.
  intros Hn Hok Hs Hb.
  destruct (isim_int_facts ks n Hn Hok Hs Hb) as (_ & _ & ZQ & _ & ZND & _).
  split; [ apply ZQ | exact ZND ].
Qed.

Theorem isim_bound ks n : 2 <= n -> counts_ok ks n -> 0 < zsum ks ->
  n * zsum ks < 2 ^ 63 -> 0 < pairs11 ks + pairs10 ks n ->
  let E := (IZR (pairs11 ks) / IZR (pairs11 ks + pairs10 ks n))%R in
  is_finite (Prim2B (isim_f ks n)) = true /\
  (Rabs (B2R (Prim2B (isim_f ks n)) - E) <= 21 * bpow radix2 (-53) * E)%R.
Proof.
  intros Hn Hok Hs Hb _.
  rewrite (isim_unfold_nowrap ks n Hn Hok Hs Hb).
  destruct (isim_int_facts ks n Hn Hok Hs Hb) as (ZP & ZPN & ZQ & ZD & ZND & ZD0 & ZPD & ZN).
  set (D := pairs11 ks + pairs10 ks n) in *. set (P := pairs11 ks) in *.
  set (N := n * zsum ks) in *. set (Q := zdot ks ks) in *.
  cbv zeta.
  (* real versions of the integer facts *)
  assert (RP : (0 <= IZR P)%R) by (apply IZR_le; exact ZP).
  assert (RPN : (2 * IZR P <= IZR N)%R) by (rewrite <- mult_IZR; apply IZR_le; exact ZPN).
  assert (RQ : (0 <= IZR Q <= IZR N)%R) by (split; apply IZR_le; lia).
  assert (RD : IZR D = (IZR P + IZR N - IZR Q)%R)
    by (rewrite ZD, minus_IZR, plus_IZR; reflexivity).
  assert (RND : (IZR N <= 4 * IZR D)%R) by (rewrite <- mult_IZR; apply IZR_le; exact ZND).
  assert (RD0 : (0 < IZR D)%R) by (apply IZR_lt; exact ZD0).
  assert (RPD : (IZR P <= IZR D)%R) by (apply IZR_le; exact ZPD).
  assert (RN : (IZR N <= 9223372036854775808)%R) by (apply IZR_le; lia).
  pose proof u64_val as Hu. fold u64.
  (* conversions *)
  destruct (Z2f_spec_63 (2 * P)) as (Ff & Rf & _); [ lia | ].
  destruct (Z2f_spec_63 N) as (Fb & Rb & _); [ lia | ].
  destruct (Z2f_spec_63 Q) as (Fc & Rc & _); [ lia | ].
  destruct two_spec as (F2 & R2).
  pose proof (rnd64_rel_int (2 * P) ltac:(lia)) as Ef.
  pose proof (rnd64_rel_int N ltac:(lia)) as Eb.
  pose proof (rnd64_rel_int Q ltac:(lia)) as Ec.
  rewrite mult_IZR in Ef, Rf.
  (* a = fl(2P) / 2, exactly *)
  set (fa := (Z2f (2 * P) / 2)%float).
  assert (Ha : is_finite (Prim2B fa) = true /\
               B2R (Prim2B fa) = (rnd64 (2 * IZR P) / 2)%R).
  { unfold fa.
    destruct (fdiv_spec (Z2f (2 * P)) 2%float) as (F & R).
    - exact Ff.
    - rewrite R2. lra.
    - rewrite Rf, R2. apply le_bpow100.
      apply Rabs_le_inv in Ef. apply Rabs_le. rewrite Hu in Ef. lra.
    - split; [ exact F | ]. rewrite R, Rf, R2.
      rewrite <- mult_IZR. apply rnd64_half_exact. lia. }
  destruct Ha as (Fa & Ra).
  set (a := B2R (Prim2B fa)) in *.
  assert (Ea : (Rabs (a - IZR P) <= u64 * IZR P)%R).
  { rewrite Ra. apply Rabs_le_inv in Ef. apply Rabs_le. lra. }
  set (b := B2R (Prim2B (Z2f N))) in *.
  set (c := B2R (Prim2B (Z2f Q))) in *.
  rewrite <- Rb in Eb. rewrite <- Rc in Ec.
  (* s = fl(a + b) *)
  assert (Bab : (Rabs (a + b) <= 18446744073709551616)%R).
  { pose proof (Rabs_le_inv _ _ Ea). pose proof (Rabs_le_inv _ _ Eb).
    apply Rabs_le. rewrite Hu in *. lra. }
  destruct (fadd_spec fa (Z2f N) Fa Fb (le_bpow100 _ Bab)) as (Fs & Rs).
  fold a b in Rs.
  set (fs := (fa + Z2f N)%float) in *. set (s := B2R (Prim2B fs)) in *.
  assert (Es : (Rabs (s - (a + b)) <= u64 * Rabs (a + b))%R).
  { rewrite Rs. apply rnd64_rel0.
    destruct (Z.eq_dec N 0) as [E0 | E0]; [ exfalso; lia | right ].
    assert (1 <= IZR N)%R by (apply IZR_le; lia).
    pose proof (Rabs_le_inv _ _ Ea). pose proof (Rabs_le_inv _ _ Eb).
    pose proof bpow_m1022_le_half.
    rewrite Rabs_pos_eq; rewrite Hu in *; lra. }
  (* d = fl(s - c) *)
  assert (Bsc : (Rabs (s - c) <= 18446744073709551616)%R).
  { pose proof (Rabs_le_inv _ _ Ea). pose proof (Rabs_le_inv _ _ Eb).
    pose proof (Rabs_le_inv _ _ Ec).
    assert (0 <= a + b)%R by (rewrite Hu in *; lra).
    rewrite (Rabs_pos_eq (a + b)) in Es by assumption.
    pose proof (Rabs_le_inv _ _ Es).
    apply Rabs_le. rewrite Hu in *. lra. }
  destruct (fsub_spec fs (Z2f Q) Fs Fc (le_bpow100 _ Bsc)) as (Fd & Rd).
  fold s c in Rd.
  set (fd := (fs - Z2f Q)%float) in *. set (d := B2R (Prim2B fd)) in *.
  (* s - c is zero or >= 1/2?  it is at least D (1 - 16u) >= 1/2 *)
  assert (Ed : (Rabs (d - (s - c)) <= u64 * Rabs (s - c))%R).
  { rewrite Rd. apply rnd64_rel0. right.
    assert (1 <= IZR D)%R by (apply IZR_le; lia).
    pose proof (Rabs_le_inv _ _ Ea). pose proof (Rabs_le_inv _ _ Eb).
    pose proof (Rabs_le_inv _ _ Ec).
    assert (0 <= a + b)%R by (rewrite Hu in *; lra).
    rewrite (Rabs_pos_eq (a + b)) in Es by assumption.
    pose proof (Rabs_le_inv _ _ Es).
    pose proof bpow_m1022_le_half.
    rewrite Rabs_pos_eq; rewrite Hu in *; lra. }
  destruct (den_chain u64 (IZR P) (IZR N) (IZR Q) (IZR D) a b c s d
              Hu RP RPN RQ RD RND Ea Eb Ec Es Ed) as (_ & _ & EdD).
  destruct (quot_chain u64 (IZR P) (IZR D) a d Hu RP RD0 Ea EdD)
    as (Hd0 & Hq0 & Hq1 & Hq2).
  set (q := (a / d)%R) in *. set (E := (IZR P / IZR D)%R) in *.
  assert (HE0 : (0 <= E)%R).
  { unfold E, Rdiv. apply Rmult_le_pos; [ exact RP | ].
    apply Rlt_le, Rinv_0_lt_compat. exact RD0. }
  assert (HED : (E * IZR D = IZR P)%R) by (unfold E; field; lra).
  assert (HE1 : (E <= 1)%R).
  { apply Rmult_le_reg_r with (IZR D); [ exact RD0 | ]. rewrite HED. lra. }
  (* r = fl(a / d) *)
  assert (Bq : (Rabs q <= 18446744073709551616)%R).
  { apply Rabs_le. rewrite Hu in *. lra. }
  destruct (fdiv_spec fa fd Fa) as (Fr & Rr).
  { fold d. lra. }
  { fold a d q. apply le_bpow100. exact Bq. }
  fold a d q in Rr.
  split; [ exact Fr | ].
  rewrite Rr.
  apply (final_chain u64 E q (rnd64 q) Hu HE0 Hq0 Hq1 Hq2).
  replace (u64 * q)%R with (u64 * Rabs q)%R
    by (rewrite (Rabs_pos_eq q) by exact Hq0; reflexivity).
  apply rnd64_rel0.
  destruct (Z.eq_dec P 0) as [EP | EP].
  - left. unfold q. replace a with 0%R; [ unfold Rdiv; apply Rmult_0_l | ].
    apply Rabs_le_inv in Ea. rewrite EP in Ea. lra.
  - right.
    assert (HP1 : (1 <= IZR P)%R) by (apply IZR_le; lia).
    assert (HDN : (IZR D <= 18446744073709551616)%R) by (apply IZR_le; lia).
    assert (HEl : (/ 18446744073709551616 <= E)%R).
    { apply Rmult_le_reg_r with 18446744073709551616%R; [ lra | ].
      rewrite Rinv_l by lra.
      apply Rle_trans with (E * IZR D)%R; [ rewrite HED; exact HP1 | ].
      apply Rmult_le_compat_l; [ exact HE0 | exact HDN ]. }
    pose proof bpow_m1022_le_m66.
    rewrite Rabs_pos_eq by exact Hq0.
    rewrite Hu in *. lra.
Qed.

(* consequences: finite, non-negative, at most 1 + 21 * 2^-53 *)
Corollary isim_finite_range ks n : 2 <= n -> counts_ok ks n -> 0 < zsum ks ->
  n * zsum ks < 2 ^ 63 ->
  is_finite (Prim2B (isim_f ks n)) = true /\
  (0 <= B2R (Prim2B (isim_f ks n)) <= 1 + 21 * bpow radix2 (-53))%R.
Proof.
  intros Hn Hok Hs Hb.
  pose proof (pairs_pos ks n Hn Hok Hs) as Dpos.
  destruct (isim_bound ks n Hn Hok Hs Hb Dpos) as (F & B).
  destruct (isim_int_facts ks n Hn Hok Hs Hb) as (ZP & _ & _ & _ & _ & ZD0 & ZPD & _).
  cbv zeta in B.
  set (P := pairs11 ks) in *. set (D := P + pairs10 ks n) in *.
  assert (RP : (0 <= IZR P)%R) by (apply IZR_le; exact ZP).
  assert (RD0 : (0 < IZR D)%R) by (apply IZR_lt; exact ZD0).
  assert (RPD : (IZR P <= IZR D)%R) by (apply IZR_le; exact ZPD).
  set (E := (IZR P / IZR D)%R) in *.
  assert (HE0 : (0 <= E)%R).
  { unfold E, Rdiv. apply Rmult_le_pos; [ exact RP | ].
    apply Rlt_le, Rinv_0_lt_compat. exact RD0. }
  assert (HED : (E * IZR D = IZR P)%R) by (unfold E; field; lra).
  assert (HE1 : (E <= 1)%R).
  { apply Rmult_le_reg_r with (IZR D); [ exact RD0 | ]. rewrite HED. lra. }
  split; [ exact F | ].
  apply Rabs_le_inv in B. fold u64 in B |- *. pose proof u64_val as Hu.
  rewrite Hu in *. lra.
Qed.

(* the exact regime (n * sum k < 2^52, isim_exact) is a special case of the
   bound, and the bound is not vacuous there either *)
Corollary isim_bound_abs ks n : 2 <= n -> counts_ok ks n -> 0 < zsum ks ->
  n * zsum ks < 2 ^ 63 ->
  (Rabs (B2R (Prim2B (isim_f ks n)) -
         IZR (pairs11 ks) / IZR (pairs11 ks + pairs10 ks n))
     <= 21 * bpow radix2 (-53))%R.
Proof.
  intros Hn Hok Hs Hb.
  pose proof (pairs_pos ks n Hn Hok Hs) as Dpos.
  destruct (isim_bound ks n Hn Hok Hs Hb Dpos) as (F & B).
  destruct (isim_int_facts ks n Hn Hok Hs Hb) as (ZP & _ & _ & _ & _ & ZD0 & ZPD & _).
  cbv zeta in B.
  set (P := pairs11 ks) in *. set (D := P + pairs10 ks n) in *.
  assert (RP : (0 <= IZR P)%R) by (apply IZR_le; exact ZP).
  assert (RD0 : (0 < IZR D)%R) by (apply IZR_lt; exact ZD0).
  assert (RPD : (IZR P <= IZR D)%R) by (apply IZR_le; exact ZPD).
  set (E := (IZR P / IZR D)%R) in *.
  assert (HED : (E * IZR D = IZR P)%R) by (unfold E; field; lra).
  assert (HE1 : (E <= 1)%R).
  { apply Rmult_le_reg_r with (IZR D); [ exact RD0 | ]. rewrite HED. lra. }
  eapply Rle_trans; [ exact B | ].
  fold u64. pose proof u64_val as Hu. rewrite Hu. lra.
Qed.

(* ------------------------------------------------------------------ *)
(* 6. The value is NOT always the correctly rounded exact rational     *)
(* ------------------------------------------------------------------ *)

Lemma B2R_of_SF : forall (x : PrimFloat.float) m e,
  Prim2SF x = S754_finite false m e ->
  B2R (Prim2B x) = F2R (Float radix2 (Zpos m) e).
Proof.
  intros x m e H. unfold Prim2B. rewrite B2R_SF2B, H. reflexivity.
Qed.

(* one column, k = 95200339 of n = 95465801 fingerprints: n * k ~ 2^53.01.
   The computed value is 6 units in the last place (2^-53 on [1/2, 1)) below the
   exact rational, hence also below its correct rounding. *)
Example isim_not_within_4ulp :
  let ks := [95200339] in let n := 95465801 in
  let E := (IZR (pairs11 ks) / IZR (pairs11 ks + pairs10 ks n))%R in
  let r := B2R (Prim2B (isim_f ks n)) in
  (2 <= n /\ counts_ok ks n /\ 0 < zsum ks /\ 2 ^ 52 <= n * zsum ks < 2 ^ 63) /\
  r = (IZR 8957245476244635 * bpow radix2 (-53))%R /\
  (/ 2 <= r < 1)%R /\
  (r + 6 * bpow radix2 (-53) < E)%R /\
  (r + 6 * bpow radix2 (-53) <= rnd64 E)%R /\
  r <> rnd64 E.
Proof.
  cbv zeta.
  set (ks := [95200339]). set (n := 95465801).
  assert (HP : pairs11 ks = 4531552225257291) by (vm_compute; reflexivity).
  assert (HD : pairs11 ks + pairs10 ks n = 4556824297648909) by (vm_compute; reflexivity).
  assert (HSF : Prim2SF (isim_f ks n) = S754_finite false 8957245476244635 (-53))
    by (vm_compute; reflexivity).
  rewrite HD, HP, (B2R_of_SF _ _ _ HSF).
  unfold F2R. cbn [Fnum Fexp].
  set (r := (IZR 8957245476244635 * bpow radix2 (-53))%R).
  set (E := (IZR 4531552225257291 / IZR 4556824297648909)%R).
  assert (Hu : bpow radix2 (-53) = (/ 9007199254740992)%R) by (simpl; reflexivity).
  assert (Hr : r = (8957245476244635 / 9007199254740992)%R).
  { unfold r. rewrite Hu. reflexivity. }
  assert (HE : (r + 6 * bpow radix2 (-53) < E)%R).
  { assert (HED : (E * 4556824297648909 = 4531552225257291)%R)
      by (unfold E; field; lra).
    rewrite Hr, Hu.
    apply Rmult_lt_reg_r with 4556824297648909%R; [ lra | ].
    rewrite HED. lra. }
  assert (HR : (r + 6 * bpow radix2 (-53) <= rnd64 E)%R).
  { replace (r + 6 * bpow radix2 (-53))%R
      with (F2R (Float radix2 8957245476244641 (-53))).
    - rewrite <- (round_generic radix2 fexp64 (round_mode mode_NE)
                    (F2R (Float radix2 8957245476244641 (-53)))).
      + apply rnd64_le. apply Rlt_le.
        replace (F2R (Float radix2 8957245476244641 (-53)))
          with (r + 6 * bpow radix2 (-53))%R; [ exact HE | ].
        unfold F2R. cbn [Fnum Fexp]. rewrite Hr, Hu. lra.
      + apply fmt_scaled; [ reflexivity | lia ].
    - unfold F2R. cbn [Fnum Fexp]. rewrite Hr, Hu. lra. }
  split.
  { split; [ unfold n; lia | split; [ | split; [ reflexivity | ] ] ].
    - repeat constructor; unfold n; lia.
    - vm_compute. split; [ discriminate | reflexivity ]. }
  split; [ reflexivity | ].
  split; [ rewrite Hr; lra | ].
  split; [ exact HE | split; [ exact HR | ] ].
  rewrite Hu in HR. lra.
Qed.

(* ------------------------------------------------------------------ *)
(* 7. Demo: the hypotheses are satisfiable beyond the exact regime     *)
(* ------------------------------------------------------------------ *)

Module Demo.

Definition n : Z := 2 ^ 31.
Definition ks : list Z := [2 ^ 30; 2 ^ 31].

(* n * sum k = 2^62.58...; computed bits = 0x1.6db6db6cbc14ep-1 *)
Example demo_hyps_and_bits :
  2 <= n /\ counts_ok ks n /\ 0 < zsum ks /\
  2 ^ 52 <= n * zsum ks < 2 ^ 63 /\
  0 < pairs11 ks + pairs10 ks n /\
  pairs11 ks = 2882303759906504704 /\
  pairs11 ks + pairs10 ks n = 4035225264513351680 /\
  Prim2SF (isim_f ks n) = S754_finite false 6433713752359246 (-53).
Proof.
  split; [ vm_compute; discriminate | ].
  split; [ repeat constructor; vm_compute; discriminate | ].
  vm_compute. repeat split; try reflexivity; discriminate.
Qed.

Example demo_bound :
  is_finite (Prim2B (isim_f ks n)) = true /\
  (Rabs (B2R (Prim2B (isim_f ks n)) -
         IZR 2882303759906504704 / IZR 4035225264513351680)
     <= 21 * bpow radix2 (-53) * (IZR 2882303759906504704 / IZR 4035225264513351680))%R.
Proof.
  destruct demo_hyps_and_bits as (H1 & H2 & H3 & (_ & H4) & H5 & H6 & H7 & _).
  pose proof (isim_bound ks n H1 H2 H3 H4 H5) as B. cbv zeta in B.
  rewrite H7, H6 in B. exact B.
Qed.

End Demo.

(* distance to the correctly rounded exact rational *)
Corollary isim_vs_rounded ks n : 2 <= n -> counts_ok ks n -> 0 < zsum ks ->
  n * zsum ks < 2 ^ 63 ->
  let E := (IZR (pairs11 ks) / IZR (pairs11 ks + pairs10 ks n))%R in
  (Rabs (B2R (Prim2B (isim_f ks n)) - rnd64 E) <= 22 * bpow radix2 (-53) * E)%R.
Proof.
  intros Hn Hok Hs Hb.
  pose proof (pairs_pos ks n Hn Hok Hs) as Dpos.
  destruct (isim_bound ks n Hn Hok Hs Hb Dpos) as (F & B).
  destruct (isim_int_facts ks n Hn Hok Hs Hb)
    as (ZP & ZPN & ZQ & ZD & _ & ZD0 & ZPD & ZN).
  cbv zeta in B |- *.
  set (P := pairs11 ks) in *. set (D := P + pairs10 ks n) in *.
  assert (RP : (0 <= IZR P)%R) by (apply IZR_le; exact ZP).
  assert (RD0 : (0 < IZR D)%R) by (apply IZR_lt; exact ZD0).
  set (E := (IZR P / IZR D)%R) in *.
  assert (HE0 : (0 <= E)%R).
  { unfold E, Rdiv. apply Rmult_le_pos; [ exact RP | ].
    apply Rlt_le, Rinv_0_lt_compat. exact RD0. }
  assert (HED : (E * IZR D = IZR P)%R) by (unfold E; field; lra).
  assert (HR : (Rabs (rnd64 E - E) <= u64 * Rabs E)%R).
  { apply rnd64_rel0.
    destruct (Z.eq_dec P 0) as [EP | EP].
    - left. unfold E. rewrite EP. unfold Rdiv. apply Rmult_0_l.
    - right.
      assert (HP1 : (1 <= IZR P)%R) by (apply IZR_le; lia).
      assert (HDN : (IZR D <= 18446744073709551616)%R).
      { apply IZR_le. change (2 ^ 63) with 9223372036854775808 in ZN. lia. }
      assert (HEl : (/ 18446744073709551616 <= E)%R).
      { apply Rmult_le_reg_r with 18446744073709551616%R; [ lra | ].
        rewrite Rinv_l by lra.
        apply Rle_trans with (E * IZR D)%R; [ rewrite HED; exact HP1 | ].
        apply Rmult_le_compat_l; [ exact HE0 | exact HDN ]. }
      pose proof bpow_m1022_le_m66.
      rewrite Rabs_pos_eq by exact HE0. lra. }
  rewrite (Rabs_pos_eq E) in HR by exact HE0.
  apply Rabs_le_inv in HR. apply Rabs_le_inv in B. apply Rabs_le.
  fold u64 in B |- *. lra.
Qed.

Module DemoZ2f.
(* conversions at and above 2^63, where the sticky-bit path is taken:
   2^63 + 2^10 is a tie (rounds to even, down), 2^63 + 2^10 + 1 rounds up,
   2^64 - 1 rounds to 2^64 *)
Example z2f_high_bits :
  Prim2SF (Z2f (2 ^ 63 + 2 ^ 10)) = S754_finite false 4503599627370496 11 /\
  Prim2SF (Z2f (2 ^ 63 + 2 ^ 10 + 1)) = S754_finite false 4503599627370497 11 /\
  Prim2SF (Z2f (2 ^ 64 - 1)) = S754_finite false 4503599627370496 12.
Proof. vm_compute. repeat split; reflexivity. Qed.
End DemoZ2f.
