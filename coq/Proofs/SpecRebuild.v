(* SpecRebuild.v — property C07, continued: the refinement of SpecRefine.v extended to the
   REBUILD path (_fit_buffers / refine / recluster: whole leaf clusters are re-inserted as
   units) and to caller-supplied labels.  The reference procedure is still Model/Spec.v: a
   rebuild is a fold of [spec_insert_root] over a list of MEMBER LISTS ([spec_fit_lists]). *)
From BB Require Import Model.Birch Model.Spec Proofs.ListFacts Proofs.TreeDefs Proofs.TreeRel
     Proofs.TreeShape Proofs.TreeBlocks Proofs.TreeChain Proofs.TreeSums Proofs.TreeBal
     Proofs.BirchDefs Proofs.SimMax Proofs.BirchInv Proofs.BirchRebuild Proofs.BirchData
     Proofs.BirchLabels Proofs.SpecRefine.
From Coq Require Import Lia Permutation.
Open Scope Z_scope.

(* ================= 0. the reference procedure for a list of whole clusters ================= *)
Section SpecLists.
Variable fexp : float -> float.
Variable D : Z -> fpv.
Variable nf : nat.
Variable c : crit.
Variable thr : float.

(* insert the clusters one by one, each as a unit (mirrors [spec_fit_rows]) *)
Fixpoint spec_fit_lists (bf : Z) (root : snode) (ax : aux) (xs : list (list Z)) : snode * aux :=
  match xs with
  | [] => (root, ax)
  | x :: xs' =>
      let '(r, ax') := spec_insert_root fexp D nf c thr bf root x ax in spec_fit_lists bf r ax' xs'
  end.

(* [None] = no tree yet: start from one empty leaf (as in [spec_fit]) *)
Definition spec_start (bf : Z) (t : option (snode * aux)) : snode * aux :=
  match t with Some p => p | None => (SLeaf 0 bf [], mkAux 1 [0%nat]) end.

Definition spec_fit_lists_opt (bf : Z) (t : option (snode * aux)) (xs : list (list Z))
  : option (snode * aux) :=
  match xs with
  | [] => t
  | _ => let '(r, ax) := spec_start bf t in Some (spec_fit_lists bf r ax xs)
  end.

(* several groups in sequence *)
Definition spec_fit_groups (bf : Z) (t : option (snode * aux)) (gs : list (list (list Z)))
  : option (snode * aux) := fold_left (spec_fit_lists_opt bf) gs t.

Lemma spec_fit_lists_app bf xs : forall r ax ys,
  spec_fit_lists bf r ax (xs ++ ys) =
  let '(r', ax') := spec_fit_lists bf r ax xs in spec_fit_lists bf r' ax' ys.
Proof.
  induction xs as [|x xs IH]; intros r ax ys; cbn [app spec_fit_lists]; [reflexivity|].
  destruct (spec_insert_root fexp D nf c thr bf r x ax) as [r1 ax1]. apply IH.
Qed.

Lemma spec_fit_lists_opt_app bf t xs ys :
  spec_fit_lists_opt bf t (xs ++ ys) = spec_fit_lists_opt bf (spec_fit_lists_opt bf t xs) ys.
Proof.
  destruct xs as [|x xs]; [reflexivity|].
  destruct ys as [|y ys]; [rewrite app_nil_r; reflexivity|].
  change ((x :: xs) ++ y :: ys) with (x :: (xs ++ y :: ys)).
  unfold spec_fit_lists_opt at 1 3.
  destruct (spec_start bf t) as [r ax].
  change (x :: xs ++ y :: ys) with ((x :: xs) ++ y :: ys).
  rewrite spec_fit_lists_app.
  destruct (spec_fit_lists bf r ax (x :: xs)) as [r' ax'] eqn:E.
  unfold spec_fit_lists_opt, spec_start. reflexivity.
Qed.

(* the groups are run one after the other = their concatenation is run *)
Lemma spec_fit_groups_concat bf gs : forall t,
  spec_fit_groups bf t gs = spec_fit_lists_opt bf t (concat gs).
Proof.
  unfold spec_fit_groups. induction gs as [|g gs IH]; intros t; cbn [fold_left concat].
  - reflexivity.
  - rewrite IH. symmetry. apply spec_fit_lists_opt_app.
Qed.

(* fit() of good rows is the instance "every cluster is a singleton" *)
Lemma spec_fit_rows_lists {R} bf (rows : list (option R)) : forall r ax labels,
  Forall (fun x => x <> None) rows -> length labels = length rows ->
  spec_fit_rows fexp D nf c thr bf r ax rows labels =
  spec_fit_lists bf r ax (map (fun l => [l]) labels).
Proof.
  induction rows as [|row rows IH]; intros r ax labels Hr Hl.
  - destruct labels; [reflexivity|discriminate].
  - destruct labels as [|l labels]; [discriminate|]. injection Hl as Hl.
    inversion Hr as [|? ? H1 H2]; subst. destruct row as [x|]; [|congruence].
    cbn [spec_fit_rows map spec_fit_lists].
    destruct (spec_insert_root fexp D nf c thr bf r [l] ax) as [r1 ax1]. now apply IH.
Qed.
End SpecLists.

(* ================= 1. _fit_buffers ================= *)
Section Bufs.
Variable fexp : float -> float.
Variable D : Z -> fpv.

Lemma abs_fit_bufs cf nf w g : forall st r,
  st_inv st -> root st = Some r -> nfeat st = nf -> 2 <= c_bf cf ->
  Forall (fun b => good_sub nf b /\ sw b = w) g ->
  nfit st + tot_n g < 2 ^ 64 ->
  leaves_data D st -> Forall (data_ok D nf) g ->
  exists r', root (fst (fit_bufs fexp cf st w g)) = Some r' /\
    spec_fit_lists fexp D nf (c_crit cf) (c_thr cf) (c_bf cf) (abs r) (sax st) (map sids g)
    = (abs r', sax (fst (fit_bufs fexp cf st w g))).
Proof.
  induction g as [|b g IH]; intros st r Hinv Hr Hnf Hbf Hg Hb HL HD.
  - cbn [fit_bufs fst map spec_fit_lists]. eauto.
  - subst nf.
    pose proof (Forall_inv Hg) as ((G1 & G2 & G3) & Gw). pose proof (Forall_inv_tail Hg) as Hg'.
    pose proof (Forall_inv HD) as Db. pose proof (Forall_inv_tail HD) as HD'.
    rewrite tot_n_cons in Hb.
    assert (Hex : Forall sub_exact g).
    { eapply Forall_impl; [|exact Hg']. cbv beta. intros a ((_ & Hq & _) & _). exact Hq. }
    pose proof (tot_n_nonneg g Hex) as Hg0.
    cbn [fit_bufs map spec_fit_lists]. pose proof G3 as G3'. unfold cnt_ok in G3'.
    rewrite <- G3', Z.eqb_refl, <- Gw, sub_of_buffer_id by exact G2. rewrite Gw.
    destruct (insert_st_inv fexp st cf b (sn b) r Hinv Hr Hbf G1 G2 G3 eq_refl ltac:(lia))
      as (I1 & I2 & I3 & I4 & I5 & I6 & I7).
    pose proof (insert_st_data fexp D st cf b (sn b) r Hinv Hr Hbf G1 G2 ltac:(lia) HL Db) as HL1.
    destruct (abs_insert_st fexp D st cf b (sn b) r Hinv Hr Hbf G1 G2 G3 Db ltac:(lia) HL)
      as (r1 & Hr1 & AS).
    rewrite AS.
    remember (insert_st fexp cf st b (sn b)) as st1 eqn:Est1.
    apply (IH st1 r1 I1 Hr1 I3 Hbf Hg' ltac:(lia) HL1 HD').
Qed.

(* the body of _fit_buffers on one dtype group, from an initialised invariant state *)
Theorem fit_bufs_refines cf nf w g st r :
  st_inv st -> root st = Some r -> nfeat st = nf -> 2 <= c_bf cf ->
  Forall (fun b => good_sub nf b /\ sw b = w) g ->
  nfit st + tot_n g < 2 ^ 64 ->
  leaves_data D st -> Forall (data_ok D nf) g ->
  let st' := fst (fit_bufs fexp cf st w g) in
  snd (fit_bufs fexp cf st w g) = Ok /\ st_inv st' /\ leaves_data D st' /\
  abs_st st' =
  Some (spec_fit_lists fexp D nf (c_crit cf) (c_thr cf) (c_bf cf) (abs r) (sax st) (map sids g)) /\
  clusters st' = spec_clusters_of (abs_st st').
Proof.
  intros Hinv Hr Hnf Hbf Hg Hb HL HD. cbv zeta.
  assert (Hr0 : root st <> None) by congruence.
  destruct (fit_bufs_inv fexp cf nf w g st Hinv Hr0 Hnf Hbf Hg Hb) as (st' & F & J1 & _).
  pose proof (fit_bufs_data fexp D cf nf w g st Hinv Hr0 Hnf Hbf Hg Hb HL HD) as HL'.
  destruct (abs_fit_bufs cf nf w g st r Hinv Hr Hnf Hbf Hg Hb HL HD) as (r' & Hr' & AS).
  rewrite F in *. cbn [fst snd] in *.
  refine (conj eq_refl (conj J1 (conj HL' (conj _ (clusters_abs st' J1))))).
  unfold abs_st. rewrite Hr', AS. reflexivity.
Qed.

(* _fit_buffers: a first call initialises the tree *)
Theorem do_fit_buffers_refines nf w g st :
  st_inv st -> released st = false -> init_for nf st -> Z.of_nat nf < 2 ^ 52 ->
  g <> [] -> Forall (fun b => good_sub nf b /\ sw b = w) g ->
  nfit st + tot_n g < 2 ^ 64 ->
  leaves_data D st -> Forall (data_ok D nf) g ->
  let st' := fst (do_fit_buffers fexp st w g) in
  snd (do_fit_buffers fexp st w g) = Ok /\ st_inv st' /\ leaves_data D st' /\
  abs_st st' =
  spec_fit_lists_opt fexp D nf (c_crit (cfg st)) (c_thr (cfg st)) (c_bf (cfg st))
                     (abs_st st) (map sids g) /\
  clusters st' = spec_clusters_of (abs_st st').
Proof.
  intros Hinv Hrel Hinit Hnf Hne Hg Hb HL HD. cbv zeta.
  destruct g as [|b0 g]; [congruence|]. unfold do_fit_buffers. rewrite Hrel.
  unfold is_init, abs_st at 2.
  destruct (root st) as [r|] eqn:Er.
  - destruct Hinit as [Hi|(_ & Hi)]; [rewrite Er in Hi; discriminate|].
    exact (fit_bufs_refines (cfg st) nf w (b0 :: g) st r Hinv Er Hi (proj1 Hinv) Hg Hb HL HD).
  - pose proof (Forall_inv Hg) as (((L0 & _) & _) & _).
    rewrite L0.
    pose proof (initialize_inv st nf Hinv Er Hnf) as I1.
    remember (initialize st nf) as st1 eqn:Est1.
    assert (E1 : nfit st1 = nfit st) by (subst st1; reflexivity).
    assert (E2 : nfeat st1 = nf) by (subst st1; reflexivity).
    assert (E3 : root st1 = Some (Leaf 0 (c_bf (cfg st)) [] [])) by (subst st1; reflexivity).
    assert (E4 : sax st1 = mkAux 1 [0%nat]) by (subst st1; reflexivity).
    assert (E5 : cfg st1 = cfg st) by (subst st1; reflexivity).
    assert (HL1 : leaves_data D st1) by (subst st1; unfold leaves_data; cbn; constructor).
    assert (Hbf1 : 2 <= c_bf (cfg st1)) by (rewrite E5; exact (proj1 Hinv)).
    rewrite <- E1 in Hb.
    pose proof (fit_bufs_refines (cfg st1) nf w (b0 :: g) st1 _ I1 E3 E2 Hbf1 Hg Hb HL1 HD) as R.
    cbv zeta in R. rewrite E4, E5 in R. rewrite E5. exact R.
Qed.

(* several dtype groups in sequence: the clusters of all groups, in order, one by one *)
Theorem fit_groups_refines nf gs : forall st,
  st_inv st -> released st = false -> init_for nf st -> Z.of_nat nf < 2 ^ 52 ->
  groups_ok nf gs -> nfit st + tot_n (gsubs gs) < 2 ^ 64 ->
  leaves_data D st -> Forall (data_ok D nf) (gsubs gs) ->
  let st' := fst (fit_groups fexp st gs) in
  snd (fit_groups fexp st gs) = Ok /\ st_inv st' /\ leaves_data D st' /\
  released st' = false /\ init_for nf st' /\ cfg st' = cfg st /\
  nfit st' = nfit st + tot_n (gsubs gs) /\
  abs_st st' =
  spec_fit_lists_opt fexp D nf (c_crit (cfg st)) (c_thr (cfg st)) (c_bf (cfg st))
                     (abs_st st) (map sids (gsubs gs)) /\
  clusters st' = spec_clusters_of (abs_st st').
Proof.
  induction gs as [|[w g] gs IH]; intros st Hinv Hrel Hinit Hnf Hgs Hb HL HD; cbv zeta.
  - cbn [fit_groups fst snd]. unfold gsubs. cbn [map concat spec_fit_lists_opt tot_n fold_right].
    rewrite Z.add_0_r.
    refine (conj eq_refl (conj Hinv (conj HL (conj Hrel (conj Hinit (conj eq_refl (conj eq_refl
             (conj eq_refl (clusters_abs st Hinv))))))))).
  - pose proof (Forall_inv Hgs) as (Hne & Hg). pose proof (Forall_inv_tail Hgs) as Hgs'.
    cbn [fst snd] in Hne, Hg.
    pose proof (groups_ok_exact nf gs Hgs') as Hex.
    pose proof (tot_n_nonneg _ Hex) as H0.
    unfold gsubs in Hb, HD |- *. cbn [map snd concat] in Hb, HD |- *.
    fold (gsubs gs) in Hb, HD |- *.
    rewrite tot_n_app in Hb |- *. apply Forall_app in HD. destruct HD as [HD1 HD2].
    destruct (do_fit_buffers_inv fexp nf w g st Hinv Hrel Hinit Hnf Hne Hg ltac:(lia))
      as (st1 & F & J1 & J2 & J3 & J4 & J5 & J6 & _).
    destruct (do_fit_buffers_refines nf w g st Hinv Hrel Hinit Hnf Hne Hg ltac:(lia) HL HD1)
      as (_ & _ & HL1 & AS1 & _).
    rewrite F in HL1, AS1. cbn [fst] in HL1, AS1.
    assert (Hinit1 : init_for nf st1) by (right; split; assumption).
    cbn [fit_groups]. rewrite F.
    destruct (IH st1 J1 J4 Hinit1 Hnf Hgs' ltac:(lia) HL1 HD2)
      as (K0 & K1 & K2 & K3 & K4 & K5 & K6 & K7 & K8).
    refine (conj K0 (conj K1 (conj K2 (conj K3 (conj K4 (conj _ (conj _ (conj _ K8)))))))).
    + congruence.
    + rewrite K6, J6. lia.
    + rewrite K7, J2, AS1, map_app. symmetry. apply spec_fit_lists_opt_app.
Qed.
End Bufs.

(* ================= 2. fit() with caller-supplied labels ================= *)
Section Labels.
Variable fexp : float -> float.
Variable D : Z -> fpv.

(* [fit_labels st rows labels] is the label list the loop runs with: the caller's list, or
   the default numbering when [labels = None] (BirchLabels.v).  [op_wf_l] asks for as many
   labels as rows.  The data hypothesis: D maps the label of every good row to that row. *)
Theorem fit_labels_refines st rows labels :
  st_inv st -> nf_ok st -> released st = false -> op_wf_l st (OFit rows labels) ->
  leaves_data D st ->
  (forall k fp l, nth_error rows k = Some (Some fp) ->
                  nth_error (fit_labels st rows labels) k = Some l -> D l = fp) ->
  let st' := fst (do_fit fexp st rows labels) in
  st_inv st' /\ leaves_data D st' /\
  abs_st st' =
  spec_fit fexp D (nfeat st') (c_crit (cfg st)) (c_thr (cfg st)) (c_bf (cfg st))
           (abs_st st) rows (fit_labels st rows labels) /\
  clusters st' = spec_clusters_of (abs_st st').
Proof.
  intros Hinv Hnf Hrel (Hlab & Hrows & Hb) HL HD. cbv zeta.
  assert (G : st_inv (fst (do_fit fexp st rows labels)) /\
              leaves_data D (fst (do_fit fexp st rows labels)) /\
              abs_st (fst (do_fit fexp st rows labels)) =
              spec_fit fexp D (nfeat (fst (do_fit fexp st rows labels)))
                       (c_crit (cfg st)) (c_thr (cfg st)) (c_bf (cfg st))
                       (abs_st st) rows (fit_labels st rows labels)).
  2:{ destruct G as (G1 & G2 & G3). refine (conj G1 (conj G2 (conj G3 _))). now apply clusters_abs. }
  unfold do_fit.
  destruct rows as [|r0 rows]; [cbn [fst spec_fit]; auto|].
  rewrite Hrel. cbv zeta. rewrite (fit_labels_do_fit st r0 rows labels).
  remember (fit_labels st (r0 :: rows) labels) as labs eqn:Elabs.
  unfold is_init, abs_st at 2.
  destruct (root st) as [r|] eqn:Er.
  - (* initialised *)
    assert (Hr : root st <> None) by congruence.
    destruct (abs_fit_rows fexp D (cfg st) (r0 :: rows) st labs r Hinv Er (proj1 Hinv) Hrows Hb HL HD)
      as (r' & Hr' & AS).
    pose proof (fit_rows_data fexp D (cfg st) (r0 :: rows) st labs Hinv Hr (proj1 Hinv) Hrows Hb HL HD)
      as HL'.
    destruct (fit_rows fexp (cfg st) st (r0 :: rows) labs) as [st' out] eqn:Hf. cbn [fst] in *.
    destruct (fit_rows_inv fexp (cfg st) (r0 :: rows) st labs Hinv Hr (proj1 Hinv) Hrows Hb st' out Hf)
      as (J1 & J2 & J3 & _).
    refine (conj J1 (conj HL' _)). unfold abs_st, spec_fit. rewrite Hr', J3, AS. reflexivity.
  - (* first fit *)
    destruct r0 as [fp|].
    + destruct Hrows as (Hrows & Hfp).
      pose proof (initialize_inv st (length fp) Hinv Er Hfp) as I1.
      remember (initialize st (length fp)) as st1 eqn:Est1.
      assert (E1 : nfit st1 = nfit st) by (subst st1; reflexivity).
      assert (E2 : nfeat st1 = length fp) by (subst st1; reflexivity).
      assert (E3 : root st1 = Some (Leaf 0 (c_bf (cfg st)) [] [])) by (subst st1; reflexivity).
      assert (E3' : root st1 <> None) by (rewrite E3; discriminate).
      assert (E4 : sax st1 = mkAux 1 [0%nat]) by (subst st1; reflexivity).
      assert (E5 : cfg st1 = cfg st) by (subst st1; reflexivity).
      assert (HL1 : leaves_data D st1) by (subst st1; unfold leaves_data; cbn; constructor).
      rewrite <- E2 in Hrows. rewrite <- E1 in Hb.
      assert (Hbf1 : 2 <= c_bf (cfg st1)) by (rewrite E5; exact (proj1 Hinv)).
      destruct (abs_fit_rows fexp D (cfg st1) (Some fp :: rows) st1 labs _ I1 E3 Hbf1 Hrows Hb HL1 HD)
        as (r' & Hr' & AS).
      pose proof (fit_rows_data fexp D (cfg st1) (Some fp :: rows) st1 labs I1 E3' Hbf1 Hrows Hb HL1 HD)
        as HL'.
      destruct (fit_rows fexp (cfg st1) st1 (Some fp :: rows) labs) as [st' out] eqn:Hf.
      cbn [fst] in *.
      destruct (fit_rows_inv fexp (cfg st1) (Some fp :: rows) st1 labs I1 E3' Hbf1 Hrows Hb st' out Hf)
        as (J1 & J2 & J3 & _).
      refine (conj J1 (conj HL' _)). unfold abs_st, spec_fit. rewrite Hr', J3.
      rewrite E4, E5 in AS. cbn [abs map] in AS. rewrite AS. reflexivity.
    + pose proof (initialize_inv st (nfeat st) Hinv Er Hnf) as I1.
      assert (E : fst (fit_rows fexp (cfg (initialize st (nfeat st))) (initialize st (nfeat st))
                                (None :: rows) labs) = initialize st (nfeat st))
        by (destruct labs; reflexivity).
      rewrite E. refine (conj I1 (conj _ _)).
      * unfold leaves_data, initialize. cbn. constructor.
      * destruct labs; reflexivity.
Qed.

(* the default numbering is the instance [labels = None] *)
Corollary fit_refines_again st rows :
  st_inv st -> nf_ok st -> released st = false -> op_wf st (OFit rows None) ->
  leaves_data D st -> op_data D st (OFit rows None) ->
  let st' := fst (do_fit fexp st rows None) in
  st_inv st' /\ leaves_data D st' /\
  abs_st st' =
  spec_fit fexp D (nfeat st') (c_crit (cfg st)) (c_thr (cfg st)) (c_bf (cfg st))
           (abs_st st) rows (zseq (nfit st) (length rows)) /\
  clusters st' = spec_clusters_of (abs_st st').
Proof.
  intros Hinv Hnf Hrel Hwf HL HD.
  apply (fit_labels_refines st rows None Hinv Hnf Hrel (op_wf_op_wf_l _ _ Hwf) HL).
  intros k fp l H1 H2. cbn [fit_labels] in H2. apply nth_error_zseq in H2. subst l.
  cbn [op_data] in HD. apply HD, H1.
Qed.
End Labels.

(* ================= 3. grouping by dtype, at the level of member lists ================= *)
(* _prepare_bf_to_buffer_dicts groups the buffers by dtype in first-appearance order; the dtype
   of a leaf cluster's buffer is [minw] of its size, so the grouping can be read off the
   member lists alone. *)
Fixpoint sgroup_add (w : width) (x : list Z) (gs : list (width * list (list Z)))
  : list (width * list (list Z)) :=
  match gs with
  | [] => [(w, [x])]
  | (w', l) :: tl =>
      if width_eqb w w' then (w', l ++ [x]) :: tl else (w', l) :: sgroup_add w x tl
  end.
Definition sprepare_groups (xs : list (list Z)) : list (width * list (list Z)) :=
  fold_left (fun gs x => sgroup_add (minw (zlen x)) x gs) xs [].
Definition sgsubs (gs : list (width * list (list Z))) : list (list Z) := concat (map snd gs).

Definition abs_groups (gs : list (width * list sub)) : list (width * list (list Z)) :=
  map (fun wg => (fst wg, map sids (snd wg))) gs.

Lemma abs_group_add w x gs :
  abs_groups (group_add w x gs) = sgroup_add w (sids x) (abs_groups gs).
Proof.
  induction gs as [|[w' l] tl IH]; cbn [group_add abs_groups map fst snd sgroup_add]; [reflexivity|].
  destruct (width_eqb w w'); cbn [map fst snd].
  - now rewrite map_app.
  - f_equal. exact IH.
Qed.

Lemma sgsubs_abs gs : sgsubs (abs_groups gs) = map sids (gsubs gs).
Proof.
  unfold sgsubs, gsubs, abs_groups.
  induction gs as [|[w l] tl IH]; cbn [map snd concat]; [reflexivity|].
  now rewrite map_app, IH.
Qed.

Definition width_by_size (b : sub) : Prop := sw b = minw (zlen (sids b)).

Lemma good_sub_width nf b : good_sub nf b -> width_by_size b.
Proof. intros (_ & (_ & _ & Ew & _) & Cn). unfold width_by_size. now rewrite <- Cn. Qed.

Lemma abs_fold_group_add bfs : forall gs,
  Forall width_by_size bfs ->
  abs_groups (fold_left (fun gs b => group_add (sw b) b gs) bfs gs) =
  fold_left (fun gs x => sgroup_add (minw (zlen x)) x gs) (map sids bfs) (abs_groups gs).
Proof.
  induction bfs as [|b bfs IH]; intros gs H; cbn [fold_left map]; [reflexivity|].
  inversion H as [|? ? Hb Hbs]; subst. rewrite (IH _ Hbs), abs_group_add, Hb. reflexivity.
Qed.

Lemma abs_prepare_groups bfs :
  Forall width_by_size bfs -> abs_groups (prepare_groups bfs) = sprepare_groups (map sids bfs).
Proof. intros H. exact (abs_fold_group_add bfs [] H). Qed.

Lemma abs_fold_group_add_W8 singles : forall gs,
  abs_groups (fold_left (fun gs b => group_add W8 b gs) singles gs) =
  fold_left (fun gs x => sgroup_add W8 x gs) (map sids singles) (abs_groups gs).
Proof.
  induction singles as [|b l IH]; intros gs; cbn [fold_left map]; [reflexivity|].
  now rewrite IH, abs_group_add.
Qed.

Lemma permute_map {A B} (f : A -> B) l p : map f (permute l p) = permute (map f l) p.
Proof.
  unfold permute. induction p as [|i p IH]; cbn [flat_map]; [reflexivity|].
  rewrite map_app, IH, nth_error_map. now destruct (nth_error l i).
Qed.

Lemma permute_nil {A} p : permute (@nil A) p = [].
Proof.
  unfold permute. induction p as [|i p IH]; cbn [flat_map]; [reflexivity|].
  rewrite IH. now destruct i.
Qed.

Lemma count_singletons_abs bfs :
  Forall cnt_ok bfs ->
  count_singletons bfs = zlen (filter (fun x => zlen x =? 1) (map sids bfs)).
Proof.
  unfold count_singletons. induction 1 as [|x l Hx _ IH]; [reflexivity|].
  cbn [filter map]. unfold cnt_ok in Hx. rewrite Hx.
  destruct (zlen (sids x) =? 1); [rewrite !zlen_cons, IH; reflexivity|exact IH].
Qed.

(* ================= 4. recluster ================= *)
Section SpecRecluster.
Variable fexp : float -> float.
Variable D : Z -> fpv.
Variable nf : nat.
Variable c : crit.
Variable bf : Z.

(* one pass: read the clusters off the old tree (chain order, stably sorted by decreasing
   size), shuffle them by [p] if a shuffle is given, group them by dtype in first-appearance
   order, and insert them as whole units, group after group, into an EMPTY tree under the
   threshold [thr'] *)
Definition spec_rebuild_order (cl : list (list Z)) (p : option (list nat)) : list (list Z) :=
  sgsubs (sprepare_groups (match p with Some p => permute cl p | None => cl end)).

Definition spec_recluster_iter (thr' : float) (tr : option (snode * aux)) (p : option (list nat))
  : option (snode * aux) :=
  spec_fit_lists_opt fexp D nf c thr' bf None (spec_rebuild_order (spec_clusters_of tr) p).

(* the loop of recluster_inplace: threshold raised by [extra] each pass, optional early stop
   when no singleton is left or their number did not change *)
Fixpoint spec_recluster_loop (iters : nat) (tr : option (snode * aux)) (thr extra : float)
         (perms : list (list nat)) (se : bool) (before : Z) : option (snode * aux) :=
  match iters with
  | O => tr
  | S k =>
      let sing := zlen (filter (fun x => zlen x =? 1) (spec_clusters_of tr)) in
      if se && ((sing =? 0) || (sing =? before)) then tr
      else
        let thr' := (thr + extra)%float in
        match perms with
        | p :: ps =>
            spec_recluster_loop k (spec_recluster_iter thr' tr (Some p)) thr' extra ps se sing
        | [] =>
            spec_recluster_loop k (spec_recluster_iter thr' tr None) thr' extra [] se sing
        end
  end.

Lemma spec_recluster_loop_none iters : forall thr extra perms se before,
  spec_recluster_loop iters None thr extra perms se before = None.
Proof.
  induction iters as [|k IH]; intros thr extra perms se before; cbn [spec_recluster_loop]; [reflexivity|].
  destruct (se && _); [reflexivity|].
  destruct perms as [|p ps]; unfold spec_recluster_iter, spec_rebuild_order;
    cbn [spec_clusters_of]; rewrite ?permute_nil; apply IH.
Qed.
End SpecRecluster.

Section Recluster.
Variable fexp : float -> float.
Variable D : Z -> fpv.

(* one rebuild from (a rearrangement [bfs'] of) the reported leaves of [st], under threshold
   [t]; general in the feature count so that it also covers an uninitialised [st] *)
Lemma recluster_iter_gen nf st t bfs' :
  st_inv st -> nf_ok st -> (root st = None \/ nfeat st = nf) -> leaves_data D st ->
  Permutation bfs' (sorted_leaves st) ->
  exists st2, fit_groups fexp (set_thr (reset_st st) t) (prepare_groups bfs') = (st2, Ok) /\
    st_inv st2 /\ nf_ok st2 /\ leaves_data D st2 /\ (root st2 = None \/ nfeat st2 = nf) /\
    cfg st2 = mkCfg (c_crit (cfg st)) t (c_bf (cfg st)) /\ nfit st2 = nfit st /\
    abs_st st2 =
    spec_fit_lists_opt fexp D nf (c_crit (cfg st)) t (c_bf (cfg st)) None
                       (sgsubs (sprepare_groups (map sids bfs'))) /\
    clusters st2 = spec_clusters_of (abs_st st2).
Proof.
  intros Hinv Hnf Hn HL HP.
  destruct (reset_thr_inv st t Hinv) as (R1 & R2 & R3 & R4 & R5 & R6).
  remember (set_thr (reset_st st) t) as st1 eqn:Est1.
  assert (Ec : cfg st1 = mkCfg (c_crit (cfg st)) t (c_bf (cfg st))) by (subst st1; reflexivity).
  assert (En : nfit st1 = 0) by (subst st1; reflexivity).
  assert (Ea : abs_st st1 = None) by (unfold abs_st; now rewrite R2).
  assert (Hnf1 : nf_ok st1) by (unfold nf_ok; rewrite R4; cbn; lia).
  destruct (root st) as [r|] eqn:Er.
  2:{ (* nothing to rebuild *)
      assert (Eb : bfs' = []).
      { apply Permutation_nil. symmetry. rewrite <- (sorted_leaves_none st Er). exact HP. }
      subst bfs'. exists st1.
      assert (E0 : nfit st = 0) by (destruct Hinv as (_ & H); rewrite Er in H; tauto).
      refine (conj eq_refl (conj R1 (conj Hnf1 (conj (leaves_data_none D st1 R2) (conj (or_introl R2)
               (conj Ec (conj _ (conj _ (clusters_abs st1 R1))))))))).
      - congruence.
      - rewrite Ea. reflexivity. }
  destruct Hn as [Hn|Hn]; [discriminate|]. subst nf.
  pose proof (prepare_groups_perm bfs') as PG.
  assert (PG' : Permutation (gsubs (prepare_groups bfs')) (sorted_leaves st))
    by (etransitivity; eassumption).
  assert (Er' : root st = Some r) by exact Er. rewrite <- Er' in *.
  assert (Hgood : Forall (good_sub (nfeat st)) (gsubs (prepare_groups bfs'))).
  { apply (Forall_perm _ (sorted_leaves st)); [symmetry; exact PG'|].
    apply sorted_leaves_good, Hinv. }
  assert (Hok : groups_ok (nfeat st) (prepare_groups bfs'))
    by (apply groups_wf_ok; [apply prepare_groups_wf|exact Hgood]).
  assert (Htot : tot_n (gsubs (prepare_groups bfs')) = nfit st).
  { rewrite (tot_n_perm _ _ PG'). apply sorted_leaves_tot, Hinv. }
  assert (Hdat : Forall (data_ok D (nfeat st)) (gsubs (prepare_groups bfs'))).
  { apply (Forall_perm _ (sorted_leaves st)); [symmetry; exact PG'|].
    apply sorted_leaves_data; assumption. }
  assert (Hb : nfit st1 + tot_n (gsubs (prepare_groups bfs')) < 2 ^ 64).
  { rewrite En, Htot. pose proof Hinv as (_ & H). rewrite Er' in H. lia. }
  destruct (fit_groups_inv fexp (nfeat st) _ st1 R1 R3 (or_introl R2) Hnf Hok Hb)
    as (st2 & F & K1 & K2 & K3 & K4 & K5 & K6 & _).
  destruct (fit_groups_refines fexp D (nfeat st) _ st1 R1 R3 (or_introl R2) Hnf Hok Hb
              (leaves_data_none D st1 R2) Hdat) as (_ & _ & L2 & _ & _ & _ & _ & L7 & L8).
  rewrite F in L2, L7, L8. cbn [fst] in L2, L7, L8.
  exists st2.
  refine (conj F (conj K1 (conj _ (conj L2 (conj _ (conj _ (conj _ (conj _ L8)))))))).
  - unfold nf_ok. destruct K5 as [->| ->]; [exact Hnf1|exact Hnf].
  - destruct K4 as [K4|(_ & K4)]; auto.
  - congruence.
  - lia.
  - rewrite L7, Ec, Ea. cbn [c_crit c_thr c_bf]. f_equal.
    rewrite <- sgsubs_abs, abs_prepare_groups; [reflexivity|].
    apply (Forall_perm _ (sorted_leaves st)); [symmetry; exact HP|].
    eapply Forall_impl; [|apply sorted_leaves_good, Hinv]. apply good_sub_width.
Qed.

(* ONE ITERATION of recluster_inplace, in reference terms: the new tree is the reference
   rebuild of the clusters reported by the old tree *)
Theorem recluster_iter_refines st extra p :
  st_inv st -> nf_ok st -> leaves_data D st ->
  match p with Some p => is_perm_of_len (length (sorted_leaves st)) p | None => True end ->
  let bfs := sorted_leaves st in
  let bfs' := match p with Some p => permute bfs p | None => bfs end in
  let st1 := set_thr (reset_st st) (c_thr (cfg st) + extra)%float in
  let st2 := fst (fit_groups fexp st1 (prepare_groups bfs')) in
  snd (fit_groups fexp st1 (prepare_groups bfs')) = Ok /\
  st_inv st2 /\ nf_ok st2 /\ leaves_data D st2 /\
  abs_st st2 =
  spec_recluster_iter fexp D (nfeat st) (c_crit (cfg st)) (c_bf (cfg st))
                      (c_thr (cfg st) + extra)%float (abs_st st) p /\
  clusters st2 = spec_clusters_of (abs_st st2).
Proof.
  intros Hinv Hnf HL Hp. cbv zeta.
  assert (HP : Permutation (match p with Some p => permute (sorted_leaves st) p
                                       | None => sorted_leaves st end) (sorted_leaves st)).
  { destruct p as [p|]; [apply permute_perm, Hp|reflexivity]. }
  destruct (recluster_iter_gen (nfeat st) st (c_thr (cfg st) + extra)%float _ Hinv Hnf
              (or_intror eq_refl) HL HP) as (st2 & F & K1 & K2 & K3 & _ & _ & _ & K7 & K8).
  rewrite F. cbn [fst snd].
  refine (conj eq_refl (conj K1 (conj K2 (conj K3 (conj _ K8))))).
  rewrite K7. unfold spec_recluster_iter, spec_rebuild_order.
  rewrite <- (clusters_abs st Hinv). unfold clusters.
  destruct p as [p|]; [rewrite permute_map|]; reflexivity.
Qed.

(* the whole loop *)
Theorem recluster_loop_refines nf iters : forall st extra perms se before,
  st_inv st -> nf_ok st -> (root st = None \/ nfeat st = nf) ->
  perms_fit fexp iters st extra perms se before -> leaves_data D st ->
  let st' := fst (recluster_loop fexp iters st extra perms se before) in
  st_inv st' /\ leaves_data D st' /\
  abs_st st' =
  spec_recluster_loop fexp D nf (c_crit (cfg st)) (c_bf (cfg st)) iters (abs_st st)
                      (c_thr (cfg st)) extra perms se before /\
  clusters st' = spec_clusters_of (abs_st st').
Proof.
  induction iters as [|k IH]; intros st extra perms se before Hinv Hnf Hn Hpf HL; cbv zeta.
  - cbn [recluster_loop fst spec_recluster_loop].
    exact (conj Hinv (conj HL (conj eq_refl (clusters_abs st Hinv)))).
  - cbn [recluster_loop perms_fit spec_recluster_loop] in *.
    rewrite <- (clusters_abs st Hinv).
    assert (Hs : count_singletons (sorted_leaves st) =
                 zlen (filter (fun x => zlen x =? 1) (clusters st))).
    { apply count_singletons_abs.
      eapply Forall_impl; [|apply sorted_leaves_good, Hinv]. intros a (_ & _ & Hq). exact Hq. }
    rewrite <- Hs.
    destruct (se && ((count_singletons (sorted_leaves st) =? 0)
                     || (count_singletons (sorted_leaves st) =? before))).
    + cbn [fst]. exact (conj Hinv (conj HL (conj eq_refl (clusters_abs st Hinv)))).
    + destruct perms as [|p ps].
      * destruct (recluster_iter_gen nf st (c_thr (cfg st) + extra)%float (sorted_leaves st)
                    Hinv Hnf Hn HL (Permutation_refl _))
          as (st2 & F & K1 & K2 & K3 & K4 & K5 & K6 & K7 & K8).
        rewrite F.
        destruct (IH st2 extra [] se (count_singletons (sorted_leaves st)) K1 K2 K4
                     (perms_fit_nil _ _ _ _ _ _) K3) as (L1 & L2 & L3 & L4).
        refine (conj L1 (conj L2 (conj _ L4))).
        rewrite L3, K7, K5. cbn [c_crit c_thr c_bf].
        unfold spec_recluster_iter, spec_rebuild_order.
        rewrite <- (clusters_abs st Hinv). reflexivity.
      * destruct Hpf as (Hp & Hpf).
        destruct (recluster_iter_gen nf st (c_thr (cfg st) + extra)%float
                    (permute (sorted_leaves st) p) Hinv Hnf Hn HL (permute_perm _ _ Hp))
          as (st2 & F & K1 & K2 & K3 & K4 & K5 & K6 & K7 & K8).
        rewrite F in Hpf |- *.
        destruct (IH st2 extra ps se (count_singletons (sorted_leaves st)) K1 K2 K4 Hpf K3)
          as (L1 & L2 & L3 & L4).
        refine (conj L1 (conj L2 (conj _ L4))).
        rewrite L3, K7, K5. cbn [c_crit c_thr c_bf].
        unfold spec_recluster_iter, spec_rebuild_order.
        rewrite <- (clusters_abs st Hinv). unfold clusters. rewrite permute_map. reflexivity.
Qed.

(* a single shuffle, for the first pass only *)
Lemma perms_fit_one iters st extra p se before :
  is_perm_of_len (length (sorted_leaves st)) p -> perms_fit fexp iters st extra [p] se before.
Proof.
  intros Hp. destruct iters as [|k]; cbn [perms_fit]; [exact I|].
  destruct (se && _); [exact I|]. split; [exact Hp|].
  destruct (fit_groups fexp _ _) as [st2 []]; [apply perms_fit_nil|exact I].
Qed.

(* recluster_inplace as a whole ([recluster_perms_ok]: every shuffle handed in is a
   permutation of the leaf list it is applied to — BirchRebuild.v) *)
Theorem do_recluster_refines st iters extra perms se :
  st_inv st -> recluster_perms_ok fexp st iters extra perms se -> leaves_data D st ->
  let st' := fst (do_recluster fexp st iters extra perms se) in
  st_inv st' /\ leaves_data D st' /\
  abs_st st' =
  spec_recluster_loop fexp D (nfeat st) (c_crit (cfg st)) (c_bf (cfg st)) iters (abs_st st)
                      (c_thr (cfg st)) extra perms se 0 /\
  clusters st' = spec_clusters_of (abs_st st').
Proof.
  intros Hinv Hpf HL. cbv zeta. unfold do_recluster, is_init.
  destruct (root st) as [r|] eqn:Er; cbn [negb fst].
  - assert (Hnf : nf_ok st) by (apply st_inv_nf_ok; [exact Hinv|congruence]).
    exact (recluster_loop_refines (nfeat st) iters st extra perms se 0 Hinv Hnf
             (or_intror eq_refl) Hpf HL).
  - refine (conj Hinv (conj HL (conj _ (clusters_abs st Hinv)))).
    unfold abs_st. rewrite Er. symmetry. apply spec_recluster_loop_none.
Qed.
End Recluster.

(* ================= 5. refine ================= *)
(* _bf_to_np_refine, in reference terms.  [cl] = the reported clusters (sorted by decreasing
   size).  [n_largest = 0]: all clusters are kept as units.  Otherwise the [n_largest] first
   clusters are exploded into singletons (members in stored order, cluster after cluster);
   the OTHER clusters are grouped by dtype first (first-appearance order), and the singletons
   are then appended to the uint8 group — created at the END if no kept cluster is uint8-sized. *)
Definition spec_refine_order (cl : list (list Z)) (nl : Z) : list (list Z) :=
  if nl =? 0 then sgsubs (sprepare_groups cl)
  else
    let k := Z.to_nat nl in
    sgsubs (fold_left (fun gs x => sgroup_add W8 x gs)
                      (map (fun i => [i]) (concat (firstn k cl)))
                      (sprepare_groups (skipn k cl))).

Lemma explode_ids (X : list fpv) im ids : forall r,
  explode X im ids = Some r -> map sids r = map (fun i => [i]) ids.
Proof.
  induction ids as [|i ids IH]; intros r H; cbn [explode] in H.
  - injection H as <-. reflexivity.
  - destruct (py_nth X (i - im)) as [fp|]; [|discriminate H].
    destruct (explode X im ids) as [r'|]; [|discriminate H].
    injection H as <-. cbn [map sids]. now rewrite (IH r' eq_refl).
Qed.

Lemma explode_all_ids (X : list fpv) im bfs : forall singles,
  explode_all X im bfs = Some singles ->
  map sids singles = map (fun i => [i]) (concat (map sids bfs)).
Proof.
  induction bfs as [|b bfs IH]; intros singles H; cbn [explode_all] in H.
  - injection H as <-. reflexivity.
  - destruct (explode X im (sids b)) as [a|] eqn:E; [|discriminate H].
    destruct (explode_all X im bfs) as [r|]; [|discriminate H].
    injection H as <-. cbn [map concat].
    now rewrite !map_app, (explode_ids X im _ a E), (IH r eq_refl).
Qed.

Section Refine.
Variable fexp : float -> float.
Variable D : Z -> fpv.

Lemma refine_core_refines st1 (X : list fpv) im nl gs :
  st_inv st1 -> root st1 <> None ->
  Forall (fun fp : fpv => length fp = nfeat st1) X ->
  refine_groups st1 X im nl = Some gs ->
  leaves_data D st1 ->
  (forall i, In i (mem_ids st1) -> py_nth X (i - im) = Some (D i)) ->
  let st' := fst (fit_groups fexp (reset_st st1) gs) in
  snd (fit_groups fexp (reset_st st1) gs) = Ok /\ st_inv st' /\ leaves_data D st' /\
  abs_st st' =
  spec_fit_lists_opt fexp D (nfeat st1) (c_crit (cfg st1)) (c_thr (cfg st1)) (c_bf (cfg st1))
                     None (spec_refine_order (clusters st1) nl) /\
  clusters st' = spec_clusters_of (abs_st st').
Proof.
  intros Hinv Hr HX Hrg HL HDX. cbv zeta.
  pose proof (st_inv_nf_ok st1 Hinv Hr) as Hnf.
  destruct (reset_inv st1 Hinv) as (R1 & R2 & R3 & R4 & R5).
  pose proof (sorted_leaves_good st1 Hinv) as Hgood.
  pose proof (sorted_leaves_tot st1 Hinv) as Htot.
  pose proof (sorted_leaves_ids st1 Hinv) as Hids.
  pose proof (sorted_leaves_data D st1 Hinv HL) as Hdat.
  assert (Hw : Forall width_by_size (sorted_leaves st1)).
  { eapply Forall_impl; [|exact Hgood]. apply good_sub_width. }
  assert (Fin : forall gs', groups_wf gs' -> Forall (good_sub (nfeat st1)) (gsubs gs') ->
            tot_n (gsubs gs') = nfit st1 -> Forall (data_ok D (nfeat st1)) (gsubs gs') ->
            map sids (gsubs gs') = spec_refine_order (clusters st1) nl ->
            snd (fit_groups fexp (reset_st st1) gs') = Ok /\
            st_inv (fst (fit_groups fexp (reset_st st1) gs')) /\
            leaves_data D (fst (fit_groups fexp (reset_st st1) gs')) /\
            abs_st (fst (fit_groups fexp (reset_st st1) gs')) =
            spec_fit_lists_opt fexp D (nfeat st1) (c_crit (cfg st1)) (c_thr (cfg st1))
                               (c_bf (cfg st1)) None (spec_refine_order (clusters st1) nl) /\
            clusters (fst (fit_groups fexp (reset_st st1) gs')) =
            spec_clusters_of (abs_st (fst (fit_groups fexp (reset_st st1) gs')))).
  { intros gs' Hwf Hg Ht Hd Ho.
    pose proof (groups_wf_ok _ _ Hwf Hg) as Hok.
    assert (Hb : nfit (reset_st st1) + tot_n (gsubs gs') < 2 ^ 64).
    { cbn [reset_st nfit]. rewrite Ht. destruct Hinv as (_ & H).
      destruct (root st1); [lia|congruence]. }
    destruct (fit_groups_refines fexp D (nfeat st1) gs' (reset_st st1) R1 R3 (or_introl R2) Hnf
                Hok Hb (leaves_data_none D _ R2) Hd) as (L0 & L1 & L2 & _ & _ & _ & _ & L7 & L8).
    refine (conj L0 (conj L1 (conj L2 (conj _ L8)))).
    rewrite L7, R5, Ho. unfold abs_st at 1. rewrite R2. reflexivity. }
  unfold refine_groups in Hrg.
  destruct (nl =? 0) eqn:E0.
  - injection Hrg as <-.
    pose proof (prepare_groups_perm (sorted_leaves st1)) as PG.
    apply Fin.
    + apply prepare_groups_wf.
    + apply (Forall_perm _ (sorted_leaves st1)); [symmetry; exact PG|exact Hgood].
    + rewrite (tot_n_perm _ _ PG). exact Htot.
    + apply (Forall_perm _ (sorted_leaves st1)); [symmetry; exact PG|exact Hdat].
    + unfold spec_refine_order. rewrite E0.
      rewrite <- sgsubs_abs, abs_prepare_groups by exact Hw. reflexivity.
  - destruct (nl <? 1); [discriminate|].
    remember (Z.to_nat nl) as k eqn:Ek.
    remember (sorted_leaves st1) as bfs eqn:Ebfs.
    destruct (firstn k bfs) as [|l0 lt] eqn:El; [discriminate|]. rewrite <- El in Hrg.
    destruct (explode_all X im (firstn k bfs)) as [singles|] eqn:Ex; [|discriminate].
    injection Hrg as <-.
    destruct (firstn_skipn_Forall _ k bfs Hgood) as (G1 & G2).
    destruct (firstn_skipn_Forall _ k bfs Hdat) as (_ & Dd2).
    destruct (firstn_skipn_Forall _ k bfs Hw) as (_ & W2).
    assert (HC : Forall cnt_ok (firstn k bfs)).
    { eapply Forall_impl; [|exact G1]. cbv beta. intros a (_ & _ & Hq). exact Hq. }
    destruct (explode_all_spec (nfeat st1) X im _ singles HX HC Ex) as (S1 & S2 & S3).
    assert (SW : Forall (fun b => sw b = W8) singles).
    { eapply Forall_impl; [|exact S1]. cbv beta. tauto. }
    assert (SG : Forall (good_sub (nfeat st1)) singles).
    { eapply Forall_impl; [|exact S1]. cbv beta. tauto. }
    assert (SD : Forall (data_ok D (nfeat st1)) singles).
    { apply (explode_all_data D (nfeat st1) X im _ singles HX Ex).
      intros i Hi. apply HDX. apply (Permutation_in _ Hids).
      rewrite <- (firstn_skipn k bfs), map_app, concat_app. apply in_or_app. now left. }
    pose proof (prepare_groups_perm (skipn k bfs)) as PG.
    pose proof (fold_group_add_perm (fun _ => W8) singles (prepare_groups (skipn k bfs))) as PF.
    cbv beta in PF.
    assert (PP : Permutation
                   (gsubs (fold_left (fun gs b => group_add W8 b gs) singles
                                     (prepare_groups (skipn k bfs))))
                   (skipn k bfs ++ singles)).
    { etransitivity; [exact PF|]. apply Permutation_app_tail. exact PG. }
    apply Fin.
    + apply (fold_group_add_wf (fun _ => W8)); [exact SW|apply prepare_groups_wf].
    + apply (Forall_perm _ (skipn k bfs ++ singles)); [symmetry; exact PP|].
      apply Forall_app. split; assumption.
    + rewrite (tot_n_perm _ _ PP), tot_n_app, S3, <- Htot.
      rewrite <- (firstn_skipn k bfs) at 3. rewrite tot_n_app. lia.
    + apply (Forall_perm _ (skipn k bfs ++ singles)); [symmetry; exact PP|].
      apply Forall_app. split; assumption.
    + unfold spec_refine_order. rewrite E0. cbv zeta. rewrite <- Ek.
      unfold clusters. rewrite <- Ebfs.
      rewrite <- sgsubs_abs, abs_fold_group_add_W8, abs_prepare_groups by exact W2.
      rewrite (explode_all_ids X im _ singles Ex), firstn_map, skipn_map. reflexivity.
Qed.

(* refine_inplace.  On success the new tree is the reference rebuild, from the EMPTY tree and
   under the unchanged configuration, of [spec_refine_order] of the reported clusters; on
   failure (not initialised / already released / n_largest < 0 / nothing to explode) the tree
   is untouched. *)
Theorem refine_refines st X im nl :
  st_inv st -> op_wf st (ORefine X im nl) -> leaves_data D st ->
  op_data D st (ORefine X im nl) ->
  let st' := fst (do_refine fexp st X im nl) in
  st_inv st' /\ leaves_data D st' /\
  abs_st st' =
  match snd (do_refine fexp st X im nl) with
  | Ok => spec_fit_lists_opt fexp D (nfeat st) (c_crit (cfg st)) (c_thr (cfg st)) (c_bf (cfg st))
                             None (spec_refine_order (spec_clusters_of (abs_st st)) nl)
  | Err => abs_st st
  end /\
  clusters st' = spec_clusters_of (abs_st st').
Proof.
  intros Hinv HX HL HD. cbn [op_wf] in HX. cbn [op_data] in HD. cbv zeta.
  unfold do_refine, is_init.
  destruct (root st) as [r|] eqn:Er; cbn [negb].
  2:{ cbn [fst snd]. exact (conj Hinv (conj HL (conj eq_refl (clusters_abs st Hinv)))). }
  destruct (delete_internal_spec st Hinv) as (D1 & D2 & D3 & D4 & D5 & D6 & D7).
  destruct (delete_internal st) as [st1 o] eqn:Ed. cbn [fst snd] in *.
  destruct (same_tree_views st st1 D3 D4 D5) as (V1 & V2 & V3 & V4).
  assert (HL1 : leaves_data D st1) by (apply (leaves_data_same D st st1 D3 D6 HL)).
  assert (Ea : abs_st st1 = abs_st st) by (unfold abs_st; rewrite D3, D4; reflexivity).
  assert (Triv : st_inv st1 /\ leaves_data D st1 /\ abs_st st1 = abs_st st /\
                 clusters st1 = spec_clusters_of (abs_st st1))
    by exact (conj D1 (conj HL1 (conj Ea (clusters_abs st1 D1)))).
  destruct o; [|exact Triv].
  destruct (refine_groups st1 X im nl) as [gs|] eqn:Eg; [|exact Triv].
  assert (Hr1 : root st1 <> None) by (rewrite D3, Er; discriminate).
  rewrite <- D6 in HX. rewrite <- V3 in HD.
  destruct (refine_core_refines st1 X im nl gs D1 Hr1 HX Eg HL1 HD) as (K0 & K1 & K2 & K3 & K4).
  rewrite K0. refine (conj K1 (conj K2 (conj _ K4))).
  rewrite K3, D2, D6. do 2 f_equal.
  rewrite <- (clusters_abs st Hinv). unfold clusters. now rewrite V1.
Qed.

Lemma explode_some (X : list fpv) im ids :
  (forall i, In i ids -> exists fp, py_nth X (i - im) = Some fp) ->
  exists r, explode X im ids = Some r.
Proof.
  induction ids as [|i ids IH]; intros H; cbn [explode]; [eauto|].
  destruct (H i (or_introl eq_refl)) as (fp & ->).
  destruct IH as (r & ->); [intros j Hj; apply H; now right|]. eauto.
Qed.

Lemma explode_all_some (X : list fpv) im bfs :
  (forall i, In i (concat (map sids bfs)) -> exists fp, py_nth X (i - im) = Some fp) ->
  exists r, explode_all X im bfs = Some r.
Proof.
  induction bfs as [|b bfs IH]; intros H; cbn [explode_all]; [eauto|].
  cbn [map concat] in H.
  destruct (explode_some X im (sids b)) as (a & ->); [intros i Hi; apply H, in_or_app; now left|].
  destruct IH as (r & ->); [intros i Hi; apply H, in_or_app; now right|]. eauto.
Qed.

(* when does refine succeed: initialised, not released, 0 <= n_largest and (for
   n_largest >= 1) at least one cluster *)
Lemma refine_ok st X im nl :
  st_inv st -> op_wf st (ORefine X im nl) -> op_data D st (ORefine X im nl) ->
  root st <> None -> released st = false -> 0 <= nl -> (nl = 0 \/ clusters st <> []) ->
  snd (do_refine fexp st X im nl) = Ok.
Proof.
  intros Hinv HX HD Hr Hrel Hnl Hcl. cbn [op_wf] in HX. cbn [op_data] in HD.
  unfold do_refine, is_init.
  destruct (root st) as [r|] eqn:Er; [|congruence]. cbn [negb].
  destruct (delete_internal_spec st Hinv) as (D1 & D2 & D3 & D4 & D5 & D6 & D7).
  assert (Eo : snd (delete_internal st) = Ok).
  { unfold delete_internal. rewrite Er, Hrel. now destruct r. }
  destruct (delete_internal st) as [st1 o] eqn:Ed. cbn [fst snd] in *. subst o.
  destruct (same_tree_views st st1 D3 D4 D5) as (V1 & V2 & V3 & V4).
  assert (Hr1 : root st1 <> None) by (rewrite D3, Er; discriminate).
  rewrite <- D6 in HX. rewrite <- V3 in HD.
  destruct (refine_groups st1 X im nl) as [gs|] eqn:Eg.
  - destruct (refine_core_l fexp st1 X im nl gs D1 Hr1 HX Eg) as (st' & F & _).
    rewrite F. reflexivity.
  - exfalso. unfold refine_groups in Eg.
    destruct (nl =? 0) eqn:E0; [discriminate|].
    apply Z.eqb_neq in E0. destruct Hcl as [Hcl|Hcl]; [congruence|].
    destruct (nl <? 1) eqn:E1; [apply Z.ltb_lt in E1; lia|].
    unfold clusters in Hcl. rewrite <- V1 in Hcl.
    destruct (sorted_leaves st1) as [|b0 bfs] eqn:Eb; [now apply Hcl|].
    destruct (Z.to_nat nl) as [|k] eqn:Ek; [lia|].
    cbn [firstn] in Eg.
    destruct (explode_all_some X im (b0 :: firstn k bfs)) as (singles & Ex).
    { intros i Hi. exists (D i). apply HD.
      apply (Permutation_in _ (sorted_leaves_ids st1 D1)). rewrite Eb.
      rewrite <- (firstn_skipn (S k) (b0 :: bfs)), map_app, concat_app.
      apply in_or_app. left. exact Hi. }
    rewrite Ex in Eg. discriminate.
Qed.
End Refine.

(* ================= 6. non-vacuity: every theorem above is instantiated on concrete states (a
   default-numbered fit of 8 rows at branching factor 2: leaf, inner and root splits), so the
   hypothesis sets are satisfiable; the concrete values are computed by vm_compute ================= *)
Module Demo.
Definition fid (x : float) : float := x.
Definition D1 (l : Z) : fpv := SpecRefine.Demo.D0 (l mod 8).
Definition thr0 : float := SpecRefine.Demo.thr0.
Definition cfg0 : config := mkCfg CDiameter thr0 2.                  (* branching factor 2 *)
Definition labsA : list Z := [0; 1; 2; 3; 4; 5; 6; 7].
Definition rowsA : list (option fpv) := map (fun l => Some (D1 l)) labsA.
Definition stA : state := fst (do_fit fid (init cfg0) rowsA None).   (* default numbering *)
Definition labsB : list Z := [8; 9; 10; 11; 12].
Definition rowsB : list (option fpv) := map (fun l => Some (D1 l)) labsB.
Definition stB : state := fst (do_fit fid (init cfg0) rowsB (Some labsB)).   (* caller labels *)

Lemma init_ok : st_inv (init cfg0) /\ nf_ok (init cfg0).
Proof. destruct (init_inv cfg0 ltac:(cbn; lia)) as (A & B & _). auto. Qed.

(* instance of [fit_labels_refines], default labels: the state [stA] *)
Lemma stA_ok :
  st_inv stA /\ leaves_data D1 stA /\
  abs_st stA = spec_fit fid D1 (nfeat stA) CDiameter thr0 2 None rowsA labsA /\
  clusters stA = spec_clusters_of (abs_st stA).
Proof.
  destruct init_ok as (A & B).
  apply (fit_labels_refines fid D1 (init cfg0) rowsA None A B eq_refl).
  - cbn [op_wf_l init root rowsA labsA map]. refine (conj I (conj (conj _ _) _)).
    + repeat constructor.
    + vm_compute. reflexivity.
    + vm_compute. reflexivity.
  - apply leaves_data_none. reflexivity.
  - intros k fp l.
    do 8 (destruct k as [|k]; [intros E1 E2; vm_compute in E1, E2; inversion E1; inversion E2;
                               vm_compute; reflexivity|]).
    destruct k; discriminate.
Qed.

(* instance of [fit_labels_refines], caller-supplied labels 8..12: the state [stB] *)
Example demo_fit_labels :
  (st_inv stB /\ leaves_data D1 stB /\
   abs_st stB = spec_fit fid D1 (nfeat stB) CDiameter thr0 2 None rowsB labsB /\
   clusters stB = spec_clusters_of (abs_st stB)) /\
  clusters stB = [[8; 9]; [10; 11]; [12]].
Proof.
  split; [|vm_compute; reflexivity].
  destruct init_ok as (A & B).
  apply (fit_labels_refines fid D1 (init cfg0) rowsB (Some labsB) A B eq_refl).
  - cbn [op_wf_l init root rowsB labsB map]. refine (conj eq_refl (conj (conj _ _) _)).
    + repeat constructor.
    + vm_compute. reflexivity.
    + vm_compute. reflexivity.
  - apply leaves_data_none. reflexivity.
  - intros k fp l.
    do 5 (destruct k as [|k]; [intros E1 E2; vm_compute in E1, E2; inversion E1; inversion E2;
                               vm_compute; reflexivity|]).
    destruct k; discriminate.
Qed.

(* ---- instance of [fit_bufs_refines]: the three leaf clusters of [stB] are inserted, as whole
   units, into the tree [stA] ---- *)
Definition gB : list sub := sorted_leaves stB.
Definition rA : node := match root stA with Some r => r | None => Leaf 0 2 [] [] end.

Lemma gB_hyps :
  Forall (fun b => good_sub 6 b /\ sw b = W8) gB /\ Forall (data_ok D1 6) gB.
Proof.
  destruct demo_fit_labels as ((A & B & _) & _). split.
  - apply Forall_and.
    + exact (sorted_leaves_good stB A).
    + vm_compute. repeat constructor.
  - exact (sorted_leaves_data D1 stB A B).
Qed.

Lemma stA_side :
  root stA = Some rA /\ nfeat stA = 6%nat /\ 2 <= c_bf cfg0 /\ nfit stA + tot_n gB < 2 ^ 64 /\
  nf_ok stA.
Proof. unfold nf_ok. vm_compute. repeat split; discriminate. Qed.

Example demo_fit_bufs :
  (let st' := fst (fit_bufs fid cfg0 stA W8 gB) in
   snd (fit_bufs fid cfg0 stA W8 gB) = Ok /\ st_inv st' /\ leaves_data D1 st' /\
   abs_st st' =
   Some (spec_fit_lists fid D1 6 (c_crit cfg0) (c_thr cfg0) (c_bf cfg0) (abs rA) (sax stA)
                        (map sids gB)) /\
   clusters st' = spec_clusters_of (abs_st st')) /\
  map sids gB = [[8; 9]; [10; 11]; [12]] /\
  clusters stA = [[0; 1; 6]; [2; 3]; [5]; [7]; [4]] /\
  clusters (fst (fit_bufs fid cfg0 stA W8 gB)) =
  [[0; 1; 6; 8; 9]; [2; 3; 10; 11]; [12]; [5]; [7]; [4]].
Proof.
  split; [|vm_compute; repeat split].
  destruct stA_ok as (A & B & _). destruct gB_hyps as (G1 & G2).
  destruct stA_side as (S1 & S2 & S3 & S4 & _).
  exact (fit_bufs_refines fid D1 cfg0 6 W8 gB stA rA A S1 S2 S3 G1 S4 B G2).
Qed.

(* ---- instance of [recluster_iter_refines] and [do_recluster_refines]: the five clusters of
   [stA] are re-inserted in reverse order under threshold thr0 + 0.1 ---- *)
Definition ex : float := 0x1.999999999999ap-4%float.
Definition pA : list nat := [4; 3; 2; 1; 0]%nat.

Lemma pA_perm : is_perm_of_len (length (sorted_leaves stA)) pA.
Proof.
  unfold is_perm_of_len. replace (length (sorted_leaves stA)) with 5%nat by (vm_compute; reflexivity).
  apply Permutation_sym. exact (Permutation_rev (seq 0 5)).
Qed.

Example demo_recluster_iter :
  (let bfs := sorted_leaves stA in
   let bfs' := match Some pA with Some p => permute bfs p | None => bfs end in
   let st1 := set_thr (reset_st stA) (c_thr (cfg stA) + ex)%float in
   let st2 := fst (fit_groups fid st1 (prepare_groups bfs')) in
   snd (fit_groups fid st1 (prepare_groups bfs')) = Ok /\
   st_inv st2 /\ nf_ok st2 /\ leaves_data D1 st2 /\
   abs_st st2 =
   spec_recluster_iter fid D1 (nfeat stA) (c_crit (cfg stA)) (c_bf (cfg stA))
                       (c_thr (cfg stA) + ex)%float (abs_st stA) (Some pA) /\
   clusters st2 = spec_clusters_of (abs_st st2)) /\
  spec_rebuild_order (clusters stA) (Some pA) = [[4]; [7]; [5]; [2; 3]; [0; 1; 6]] /\
  abs_st (fst (fit_groups fid (set_thr (reset_st stA) (c_thr (cfg stA) + ex)%float)
                          (prepare_groups (permute (sorted_leaves stA) pA)))) =
  Some (SInner 2 (SCons (SInner 2 (SCons (SLeaf 1 2 [[5]; [2; 3]]) SNil))
                 (SCons (SInner 2 (SCons (SLeaf 2 2 [[7]])
                                  (SCons (SLeaf 0 2 [[4]; [0; 1; 6]]) SNil))) SNil)),
        mkAux 3 [1%nat; 2%nat; 0%nat]).
Proof.
  split; [|vm_compute; repeat split].
  destruct stA_ok as (A & B & _). destruct stA_side as (_ & _ & _ & _ & N).
  exact (recluster_iter_refines fid D1 stA ex (Some pA) A N B pA_perm).
Qed.

Example demo_recluster :
  (let st' := fst (do_recluster fid stA 3 ex [pA] true) in
   st_inv st' /\ leaves_data D1 st' /\
   abs_st st' =
   spec_recluster_loop fid D1 (nfeat stA) (c_crit (cfg stA)) (c_bf (cfg stA)) 3 (abs_st stA)
                       (c_thr (cfg stA)) ex [pA] true 0 /\
   clusters st' = spec_clusters_of (abs_st st')) /\
  clusters (fst (do_recluster fid stA 3 ex [pA] true)) = [[0; 1; 6]; [2; 3]; [5]; [7]; [4]].
Proof.
  split; [|vm_compute; reflexivity].
  destruct stA_ok as (A & B & _).
  exact (do_recluster_refines fid D1 stA 3 ex [pA] true A
           (perms_fit_one fid 3 stA ex pA true 0 pA_perm) B).
Qed.

(* ---- instance of [refine_refines]: the largest cluster [0;1;6] of [stA] is exploded ---- *)
Definition XA : list fpv := map D1 labsA.

Lemma refine_hyps : op_wf stA (ORefine XA 0 1) /\ op_data D1 stA (ORefine XA 0 1).
Proof.
  split.
  - cbn [op_wf]. vm_compute. repeat constructor.
  - cbn [op_data]. intros i Hi. vm_compute in Hi.
    repeat (destruct Hi as [<-|Hi]; [vm_compute; reflexivity|]). destruct Hi.
Qed.

Example demo_refine :
  (let st' := fst (do_refine fid stA XA 0 1) in
   st_inv st' /\ leaves_data D1 st' /\
   abs_st st' =
   match snd (do_refine fid stA XA 0 1) with
   | Ok => spec_fit_lists_opt fid D1 (nfeat stA) (c_crit (cfg stA)) (c_thr (cfg stA))
                              (c_bf (cfg stA)) None
                              (spec_refine_order (spec_clusters_of (abs_st stA)) 1)
   | Err => abs_st stA
   end /\
   clusters st' = spec_clusters_of (abs_st st')) /\
  snd (do_refine fid stA XA 0 1) = Ok /\
  spec_refine_order (clusters stA) 1 = [[2; 3]; [5]; [7]; [4]; [0]; [1]; [6]] /\
  clusters (fst (do_refine fid stA XA 0 1)) = [[0; 1; 6]; [2; 3]; [4]; [7]; [5]].
Proof.
  destruct stA_ok as (A & B & _). destruct refine_hyps as (W & Dd).
  split; [exact (refine_refines fid D1 stA XA 0 1 A W B Dd)|].
  split; [|vm_compute; repeat split].
  apply (refine_ok fid D1 stA XA 0 1 A W Dd).
  - vm_compute. discriminate.
  - vm_compute. reflexivity.
  - lia.
  - right. vm_compute. discriminate.
Qed.
End Demo.
