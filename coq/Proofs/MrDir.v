(* MrDir.v — the directory of the multi-round workflow as a finite map: [dir_put] keeps it
   sorted and duplicate-free, [dir_get] after [dir_put] / [dir_puts] / [dir_remove], the
   name list, strictly sorted lists with the same elements are equal, and the pairing of two
   sorted name lists that are ordered alike. *)
From Coq Require Import String.
From BB Require Import Model.Multiround Proofs.MrStrings.
From Coq Require Import Lia Permutation Sorted.
Open Scope Z_scope.

Definition slt (a b : string) : Prop := str_ltb a b = true.
Definition dsorted (d : dir) : Prop := StronglySorted slt (dir_names d).

(* ================= lookups ================= *)
Lemma dir_get_put d n c m :
  dir_get (dir_put d n c) m = if String.eqb m n then Some c else dir_get d m.
Proof.
  induction d as [|[k x] d IH]; cbn [dir_put dir_get].
  - rewrite (String.eqb_sym n m). reflexivity.
  - destruct (String.eqb_spec k n) as [->|N].
    + cbn [dir_get]. rewrite (String.eqb_sym n m). destruct (String.eqb m n); reflexivity.
    + destruct (str_ltb n k).
      * cbn [dir_get]. rewrite (String.eqb_sym n m). reflexivity.
      * cbn [dir_get]. rewrite IH. destruct (String.eqb_spec k m) as [->|N2]; [|reflexivity].
        destruct (String.eqb_spec m n); [congruence|reflexivity].
Qed.

Lemma dir_get_names d n : In n (dir_names d) <-> exists c, dir_get d n = Some c.
Proof.
  unfold dir_names. induction d as [|[k x] d IH]; cbn [map fst In dir_get].
  - split; [tauto|]. intros (c & H). discriminate H.
  - destruct (String.eqb_spec k n) as [->|N].
    + split; eauto.
    + rewrite <- IH. tauto.
Qed.

Lemma dir_names_put d n c m :
  In m (dir_names (dir_put d n c)) <-> m = n \/ In m (dir_names d).
Proof.
  rewrite !dir_get_names. setoid_rewrite dir_get_put.
  destruct (String.eqb_spec m n) as [->|N].
  - split; eauto.
  - split; [intros (x & H); right; eauto|]. intros [H|H]; [congruence|exact H].
Qed.

Lemma dir_get_remove d p n :
  dir_get (dir_remove d p) n = if p n then None else dir_get d n.
Proof.
  unfold dir_remove. induction d as [|[k x] d IH]; cbn [filter dir_get fst].
  - now destruct (p n).
  - destruct (p k) eqn:Ek; cbn [negb dir_get].
    + rewrite IH. destruct (String.eqb_spec k n) as [->|N]; [now rewrite Ek|reflexivity].
    + destruct (String.eqb_spec k n) as [->|N]; [now rewrite Ek|exact IH].
Qed.

(* ================= sortedness ================= *)
Lemma dir_put_sorted d n c : dsorted d -> dsorted (dir_put d n c).
Proof.
  unfold dsorted, dir_names. induction d as [|[k x] d IH]; intros H; cbn [dir_put map fst].
  - constructor; constructor.
  - cbn [map fst] in H. inversion H as [|? ? Hs Hf]; subst.
    destruct (String.eqb_spec k n) as [->|N]; [exact H|].
    destruct (str_ltb n k) eqn:E.
    + cbn [map fst]. constructor; [exact H|]. constructor; [exact E|].
      eapply Forall_impl; [|exact Hf]. intros a Ha. exact (str_ltb_trans _ _ _ E Ha).
    + cbn [map fst]. constructor; [apply IH, Hs|].
      apply Forall_forall. intros m Hm.
      apply (dir_names_put d n c m) in Hm. destruct Hm as [->|Hm].
      * destruct (str_ltb k n) eqn:E2; [exact E2|]. elim N. now apply str_ltb_total.
      * rewrite Forall_forall in Hf. apply Hf, Hm.
Qed.

Lemma dir_puts_sorted ws : forall d, dsorted d -> dsorted (dir_puts d ws).
Proof.
  unfold dir_puts. induction ws as [|[n c] ws IH]; intros d H; cbn [fold_left]; [exact H|].
  apply IH, dir_put_sorted, H.
Qed.

Lemma dir_puts_app d a b : dir_puts d (a ++ b) = dir_puts (dir_puts d a) b.
Proof. unfold dir_puts. apply fold_left_app. Qed.

Lemma ssorted_filter (p : string -> bool) l : StronglySorted slt l -> StronglySorted slt (filter p l).
Proof.
  induction 1 as [|a l Hs IH Hf]; cbn [filter]; [constructor|].
  destruct (p a); [|exact IH]. constructor; [exact IH|].
  rewrite Forall_forall in *. intros x Hx. apply filter_In in Hx. apply Hf, Hx.
Qed.

Lemma ssorted_nodup l : StronglySorted slt l -> NoDup l.
Proof.
  induction 1 as [|a l Hs IH Hf]; constructor; [|exact IH].
  intros Hin. rewrite Forall_forall in Hf. specialize (Hf a Hin).
  unfold slt in Hf. now rewrite str_ltb_irrefl in Hf.
Qed.

(* the statement as requested: a sorted, duplicate-free directory stays so under [dir_put] *)
Lemma dir_put_sorted_nodup d n c :
  dsorted d -> dsorted (dir_put d n c) /\ NoDup (dir_names (dir_put d n c)).
Proof.
  intros H. pose proof (dir_put_sorted d n c H) as S. split; [exact S|apply ssorted_nodup, S].
Qed.

(* strictly sorted lists with the same elements are equal *)
Lemma ssorted_unique l1 : forall l2,
  StronglySorted slt l1 -> StronglySorted slt l2 -> (forall x, In x l1 <-> In x l2) -> l1 = l2.
Proof.
  induction l1 as [|a l1 IH]; intros l2 S1 S2 E.
  - destruct l2 as [|b l2]; [reflexivity|]. destruct (proj2 (E b) (or_introl eq_refl)).
  - destruct l2 as [|b l2]; [destruct (proj1 (E a) (or_introl eq_refl))|].
    inversion S1 as [|? ? S1' F1]; subst. inversion S2 as [|? ? S2' F2]; subst.
    rewrite Forall_forall in F1, F2.
    assert (Eab : a = b).
    { destruct (proj1 (E a) (or_introl eq_refl)) as [->|Ha]; [reflexivity|].
      destruct (proj2 (E b) (or_introl eq_refl)) as [->|Hb]; [reflexivity|].
      pose proof (F2 a Ha) as X. pose proof (F1 b Hb) as Y. unfold slt in X, Y.
      apply str_ltb_asym in X. congruence. }
    subst b. f_equal. apply IH; [exact S1'|exact S2'|].
    intros x. split; intros Hx.
    + destruct (proj1 (E x) (or_intror Hx)) as [<-|H]; [|exact H].
      specialize (F1 a Hx). unfold slt in F1. now rewrite str_ltb_irrefl in F1.
    + destruct (proj2 (E x) (or_intror Hx)) as [<-|H]; [|exact H].
      specialize (F2 a Hx). unfold slt in F2. now rewrite str_ltb_irrefl in F2.
Qed.

(* ================= a directory described by the list of its writes ================= *)
Definition dir_is (d : dir) (W : list (string * content)) : Prop :=
  dsorted d /\ NoDup (map fst W) /\ forall n c, dir_get d n = Some c <-> In (n, c) W.

Lemma dir_is_nil : dir_is [] [].
Proof.
  refine (conj _ (conj (NoDup_nil _) _)); [constructor|].
  intros n c. cbn. split; [discriminate|tauto].
Qed.

Lemma dir_is_put d W n c :
  dir_is d W -> ~ In n (map fst W) -> dir_is (dir_put d n c) (W ++ [(n, c)]).
Proof.
  intros (S & N & H) Hn. refine (conj (dir_put_sorted d n c S) (conj _ _)).
  - rewrite map_app. cbn [map fst]. apply NoDup_rev in N.
    rewrite <- (rev_involutive (_ ++ _)). apply NoDup_rev. rewrite rev_app_distr. cbn [rev app].
    constructor; [now rewrite <- in_rev|exact N].
  - intros m x. rewrite dir_get_put, in_app_iff. cbn [In].
    destruct (String.eqb_spec m n) as [->|Nm].
    + split.
      * intros E. injection E as <-. right. now left.
      * intros [Hin|[E|[]]]; [|now injection E as <-].
        elim Hn. apply (in_map fst) in Hin. exact Hin.
    + rewrite H. split; [tauto|]. intros [Hin|[E|[]]]; [exact Hin|]. injection E as <- _. congruence.
Qed.

Lemma dir_is_puts ws : forall d W,
  dir_is d W -> NoDup (map fst (W ++ ws)) -> dir_is (dir_puts d ws) (W ++ ws).
Proof.
  induction ws as [|[n c] ws IH]; intros d W H N.
  - rewrite app_nil_r. exact H.
  - change (dir_puts d ((n, c) :: ws)) with (dir_puts (dir_put d n c) ws).
    replace (W ++ (n, c) :: ws)%list with ((W ++ [(n, c)]) ++ ws)%list in *
      by (rewrite <- app_assoc; reflexivity).
    apply IH; [|exact N]. apply dir_is_put; [exact H|].
    rewrite !map_app in N. cbn [map fst] in N. rewrite <- app_assoc in N.
    apply NoDup_remove_2 in N. intros Hin. apply N. apply in_or_app. now left.
Qed.

(* ================= pairing two sorted name lists ================= *)
Section Pairing.
Context {K : Type}.
Variables fb fi : K -> string.
Variable keys : list K.
Hypothesis Hmono : forall a b, In a keys -> In b keys ->
  str_ltb (fb a) (fb b) = str_ltb (fi a) (fi b).
Hypothesis Hinj : forall a b, In a keys -> In b keys -> fb a = fb b -> a = b.
Hypothesis Hnd : NoDup keys.

Lemma ssorted_map_fi ks :
  (forall k, In k ks -> In k keys) ->
  StronglySorted slt (map fb ks) -> StronglySorted slt (map fi ks).
Proof.
  induction ks as [|k ks IH]; intros Hin H; cbn [map] in *; [constructor|].
  inversion H as [|? ? Hs Hf]; subst. constructor.
  - apply IH; [|exact Hs]. intros x Hx. apply Hin. now right.
  - rewrite Forall_forall in *. intros n Hn. apply in_map_iff in Hn. destruct Hn as (x & <- & Hx).
    unfold slt. rewrite <- Hmono; [|apply Hin; now left|apply Hin; now right].
    apply Hf. apply in_map. exact Hx.
Qed.

Lemma pair_sorted B I :
  StronglySorted slt B -> StronglySorted slt I ->
  (forall n, In n B <-> exists k, In k keys /\ n = fb k) ->
  (forall n, In n I <-> exists k, In k keys /\ n = fi k) ->
  exists ks, Permutation ks keys /\ B = map fb ks /\ I = map fi ks.
Proof.
  intros SB SI HB HI.
  assert (Hks : exists ks, B = map fb ks /\ forall k, In k ks -> In k keys).
  { assert (HB' : forall n, In n B -> exists k, In k keys /\ n = fb k) by (intros n; apply HB).
    clear HB SB. induction B as [|b B IH].
    - exists []. split; [reflexivity|intros k []].
    - destruct (HB' b (or_introl eq_refl)) as (k & Hk & ->).
      destruct IH as (ks & -> & Hin); [intros n Hn; apply HB'; now right|].
      exists (k :: ks). split; [reflexivity|]. intros x [<-|Hx]; auto. }
  destruct Hks as (ks & -> & Hin).
  assert (Hall : forall k, In k keys -> In k ks).
  { intros k Hk. assert (Hb : In (fb k) (map fb ks)) by (apply HB; eauto).
    apply in_map_iff in Hb. destruct Hb as (k' & E & Hk').
    rewrite <- (Hinj k' k (Hin _ Hk') Hk E). exact Hk'. }
  exists ks. refine (conj _ (conj eq_refl _)).
  - apply NoDup_Permutation; [|exact Hnd|intros k; split; auto].
    apply ssorted_nodup in SB. eapply NoDup_map_inv; exact SB.
  - apply ssorted_unique; [exact SI|apply ssorted_map_fi; assumption|].
    intros n. rewrite HI, in_map_iff. split.
    + intros (k & Hk & ->). exists k. split; [reflexivity|apply Hall, Hk].
    + intros (k & <- & Hk). exists k. split; [apply Hin, Hk|reflexivity].
Qed.
End Pairing.

(* ================= small list facts ================= *)
Lemma NoDup_map_inj_in {A B} (f : A -> B) l :
  NoDup l -> (forall a b, In a l -> In b l -> f a = f b -> a = b) -> NoDup (map f l).
Proof.
  induction 1 as [|x l Hx Hn IH]; intros Hf; cbn [map]; constructor.
  - intros Hin. apply in_map_iff in Hin. destruct Hin as (y & E & Hy).
    apply Hx. rewrite <- (Hf y x (or_intror Hy) (or_introl eq_refl) E). exact Hy.
  - apply IH. intros a b Ha Hb. apply Hf; now right.
Qed.

Lemma NoDup_map_eq {A B} (f : A -> B) l a b :
  NoDup (map f l) -> In a l -> In b l -> f a = f b -> a = b.
Proof.
  induction l as [|x l IH]; intros N Ha Hb E; [destruct Ha|].
  cbn [map] in N. inversion N as [|? ? Hx Hn]; subst.
  destruct Ha as [->|Ha], Hb as [->|Hb]; auto.
  - elim Hx. rewrite E. now apply in_map.
  - elim Hx. rewrite <- E. now apply in_map.
Qed.

