(* BirchLabels2.v — C09 (re-insertion only coarsens) and C02 (exact summaries) for
   caller-supplied labels (fit(X, reinsert_indices=l)).

   BirchLabels.v did this for C01.  The invariant [numbered] ("the members are 0 .. nfit-1")
   of BirchInv / BirchRebuild / BirchData is only ever used there to conclude [numbered]
   again; the [together] / [covered] conjuncts come from [fit_groups_inv] (BlockStep) and the
   data conjuncts from the leaf-predicate induction of BirchData.v.  Here the same lemmas are
   re-proved with [op_wf_l] and without [numbered]. *)
From BB Require Import Model.Birch Proofs.ListFacts Proofs.TreeDefs Proofs.TreeRel
     Proofs.TreeShape Proofs.TreeBlocks Proofs.TreeChain Proofs.TreeSums Proofs.TreeBal
     Proofs.BirchDefs Proofs.SimMax Proofs.BirchInv Proofs.BirchRebuild Proofs.BirchData
     Proofs.BirchLabels.
From Coq Require Import Lia Permutation.
Open Scope Z_scope.

(* ================= definitions ================= *)

(* [op_data] of BirchData.v is [False] for a fit with labels; here the rows handed to a fit
   are [D] of the labels the loop pairs them with, whatever their origin.  The clause for
   refine is the one of [op_data], unchanged: the matrix [X], indexed the Python way
   ([py_nth], negative indices allowed) by [label - initial_mol], holds [D label] for every
   label currently in the tree (so in particular every member label can index [X]). *)
Definition op_data_l (D : Z -> fpv) (st : state) (o : op) : Prop :=
  match o with
  | OFit rows labels =>
      forall k fp l, nth_error rows k = Some (Some fp) ->
                     nth_error (fit_labels st rows labels) k = Some l -> D l = fp
  | ORefine X im _ => forall i, In i (mem_ids st) -> py_nth X (i - im) = Some (D i)
  | _ => True
  end.

Lemma op_data_op_data_l D st o : op_data D st o -> op_data_l D st o.
Proof.
  destruct o as [rows [l|]| | | | |]; cbn [op_data op_data_l]; auto; [intros []|].
  intros H k fp l H1 H2. cbn [fit_labels] in H2. apply nth_error_zseq in H2. subst l.
  apply H, H1.
Qed.

(* the side condition of the history form of C09 for one label [i]: no reset, and a refine
   does not explode a cluster that holds [i] *)
Definition op_keeps (i : Z) (st : state) (o : op) : Prop :=
  match o with
  | ORefine _ _ nl =>
      forall b, In b (map sids (firstn (Z.to_nat nl) (sorted_leaves st))) -> ~ In i b
  | OReset => False
  | _ => True
  end.

(* the simple, state-independent form: no reset, refine only with n_largest <= 0 *)
Definition op_coarsens (o : op) : Prop :=
  match o with
  | ORefine _ _ nl => nl <= 0
  | OReset => False
  | _ => True
  end.

Lemma op_coarsens_keeps i st o : op_coarsens o -> op_keeps i st o.
Proof.
  destruct o as [| X im nl | | | |]; cbn [op_coarsens op_keeps]; auto.
  intros H b Hb. replace (Z.to_nat nl) with O in Hb by lia. destruct Hb.
Qed.

Section WithExp.
Variable fexp : float -> float.

(* ================= B: C09 step lemmas without [numbered] ================= *)

(* [rebuild_core] with "same members" instead of [numbered], keeping the [covered] conjunct *)
Lemma rebuild_core_c st st1 gs :
  st_inv st -> nf_ok st ->
  st_inv st1 -> root st1 = None -> released st1 = false ->
  groups_ok (nfeat st) gs -> tot_n (gsubs gs) = nfit st ->
  Permutation (concat (map sids (gsubs gs))) (mem_ids st) ->
  exists st', fit_groups fexp st1 gs = (st', Ok) /\
    st_inv st' /\ cfg st' = cfg st1 /\ released st' = false /\
    (nfeat st' = nfeat st1 \/ nfeat st' = nfeat st) /\ nfit st' = nfit st /\
    Permutation (mem_ids st') (mem_ids st) /\
    (forall b, In b (gsubs gs) -> covered (st_blocks st') (sids b)).
Proof.
  intros Hinv Hnf Hinv1 Hr1 Hrel1 Hgs Htot Hids.
  assert (Hn1 : nfit st1 = 0).
  { destruct Hinv1 as (_ & H). rewrite Hr1 in H. tauto. }
  assert (Hb : nfit st1 + tot_n (gsubs gs) < 2 ^ 64).
  { rewrite Hn1, Htot. destruct Hinv as (_ & H). destruct (root st); [lia|].
    destruct H as (-> & _). lia. }
  destruct (fit_groups_inv fexp (nfeat st) gs st1 Hinv1 Hrel1 (or_introl Hr1) Hnf Hgs Hb)
    as (st' & F & K1 & K2 & K3 & K4 & K5 & K6 & K7 & K8 & K9 & K10).
  exists st'.
  assert (E : nfit st' = nfit st) by lia.
  refine (conj F (conj K1 (conj K2 (conj K3 (conj K5 (conj E (conj _ K10))))))).
  etransitivity; [exact K7|]. unfold mem_ids at 1. rewrite Hr1. cbn [app]. exact Hids.
Qed.

(* ---------- recluster ---------- *)
Lemma rebuild_leaves_c st t bfs' :
  st_inv st -> nf_ok st -> Permutation bfs' (sorted_leaves st) ->
  exists st', fit_groups fexp (set_thr (reset_st st) t) (prepare_groups bfs') = (st', Ok) /\
    st_inv st' /\ nf_ok st' /\ released st' = false /\ nfit st' = nfit st /\
    Permutation (mem_ids st') (mem_ids st) /\
    (forall y, covered (st_blocks st) y -> covered (st_blocks st') y).
Proof.
  intros Hinv Hnf HP.
  destruct (reset_thr_inv st t Hinv) as (R1 & R2 & R3 & R4 & _).
  pose proof (prepare_groups_perm bfs') as PG.
  assert (PG' : Permutation (gsubs (prepare_groups bfs')) (sorted_leaves st))
    by (etransitivity; eassumption).
  assert (Hok : groups_ok (nfeat st) (prepare_groups bfs')).
  { apply groups_wf_ok; [apply prepare_groups_wf|].
    apply (Forall_perm _ (sorted_leaves st)); [symmetry; exact PG'|].
    apply sorted_leaves_good, Hinv. }
  assert (Htot : tot_n (gsubs (prepare_groups bfs')) = nfit st).
  { rewrite (tot_n_perm _ _ PG'). apply sorted_leaves_tot, Hinv. }
  assert (Hids : Permutation (concat (map sids (gsubs (prepare_groups bfs')))) (mem_ids st)).
  { etransitivity; [apply concat_perm, Permutation_map; exact PG'|].
    apply sorted_leaves_ids, Hinv. }
  destruct (rebuild_core_c st _ _ Hinv Hnf R1 R2 R3 Hok Htot Hids)
    as (st' & F & K1 & K2 & K3 & K4 & K5 & K6 & K7).
  exists st'. refine (conj F (conj K1 (conj _ (conj K3 (conj K5 (conj K6 _)))))).
  - unfold nf_ok. destruct K4 as [->| ->]; [rewrite R4; cbn; lia|exact Hnf].
  - intros y (b & Hb & Hy).
    destruct (block_is_leaf st b Hinv Hb) as (x & Hx & <-).
    apply (covered_incl _ (sids x)); [|exact Hy].
    apply K7. apply (Permutation_in _ (Permutation_sym PG')). exact Hx.
Qed.

Lemma recluster_loop_c iters : forall st extra perms se before,
  st_inv st -> nf_ok st -> perms_fit fexp iters st extra perms se before ->
  let st' := fst (recluster_loop fexp iters st extra perms se before) in
  st_inv st' /\ nf_ok st' /\
  (forall y, covered (st_blocks st) y -> covered (st_blocks st') y).
Proof.
  induction iters as [|k IH]; intros st extra perms se before Hinv Hnf Hpf; cbv zeta.
  - cbn [recluster_loop fst]. auto.
  - cbn [recluster_loop perms_fit] in *.
    destruct (se && ((count_singletons (sorted_leaves st) =? 0)
                     || (count_singletons (sorted_leaves st) =? before))).
    + cbn [fst]. auto.
    + destruct perms as [|p ps].
      * destruct (rebuild_leaves_c st (c_thr (cfg st) + extra)%float (sorted_leaves st)
                                   Hinv Hnf (Permutation_refl _))
          as (st2 & F & K1 & K2 & K3 & K4 & K5 & K6).
        rewrite F.
        destruct (IH st2 extra [] se (count_singletons (sorted_leaves st)) K1 K2
                     (perms_fit_nil _ _ _ _ _ _)) as (L1 & L2 & L3).
        refine (conj L1 (conj L2 _)). intros y Hy. apply L3, K6, Hy.
      * destruct Hpf as (Hp & Hpf).
        destruct (rebuild_leaves_c st (c_thr (cfg st) + extra)%float
                                   (permute (sorted_leaves st) p)
                                   Hinv Hnf (permute_perm _ _ Hp))
          as (st2 & F & K1 & K2 & K3 & K4 & K5 & K6).
        rewrite F in Hpf |- *.
        destruct (IH st2 extra ps se (count_singletons (sorted_leaves st)) K1 K2 Hpf)
          as (L1 & L2 & L3).
        refine (conj L1 (conj L2 _)). intros y Hy. apply L3, K6, Hy.
Qed.

(* C09_recluster without [numbered]; in the [covered] form (whole label lists) first *)
Theorem do_recluster_covered_l st iters extra perms se :
  st_inv st -> recluster_perms_ok fexp st iters extra perms se ->
  forall y, covered (st_blocks st) y ->
            covered (st_blocks (fst (do_recluster fexp st iters extra perms se))) y.
Proof.
  intros Hinv Hpf. unfold do_recluster, is_init.
  destruct (root st) as [r|] eqn:Er; cbn [negb fst]; [|auto].
  assert (Hnf : nf_ok st) by (apply st_inv_nf_ok; [exact Hinv|congruence]).
  exact (proj2 (proj2 (recluster_loop_c iters st extra perms se 0 Hinv Hnf Hpf))).
Qed.

Theorem do_recluster_together_l st iters extra perms se :
  st_inv st -> recluster_perms_ok fexp st iters extra perms se ->
  forall i j, together (st_blocks st) i j ->
              together (st_blocks (fst (do_recluster fexp st iters extra perms se))) i j.
Proof.
  intros Hinv Hpf i j T.
  apply together_covered, (do_recluster_covered_l st iters extra perms se Hinv Hpf),
        together_covered, T.
Qed.

(* ---------- refine ---------- *)
Lemma refine_core_c st1 (X : list fpv) im nl gs :
  st_inv st1 -> root st1 <> None ->
  Forall (fun fp : fpv => length fp = nfeat st1) X ->
  refine_groups st1 X im nl = Some gs ->
  exists st', fit_groups fexp (reset_st st1) gs = (st', Ok) /\
    (forall x, In x (skipn (Z.to_nat nl) (sorted_leaves st1)) ->
               covered (st_blocks st') (sids x)).
Proof.
  intros Hinv Hr HX Hrg.
  pose proof (st_inv_nf_ok st1 Hinv Hr) as Hnf.
  destruct (reset_inv st1 Hinv) as (R1 & R2 & R3 & R4 & _).
  pose proof (sorted_leaves_good st1 Hinv) as Hgood.
  pose proof (sorted_leaves_tot st1 Hinv) as Htot.
  pose proof (sorted_leaves_ids st1 Hinv) as Hids.
  assert (Fin : forall gs' keep, groups_wf gs' -> Forall (good_sub (nfeat st1)) (gsubs gs') ->
            tot_n (gsubs gs') = nfit st1 ->
            Permutation (concat (map sids (gsubs gs'))) (mem_ids st1) ->
            incl keep (gsubs gs') ->
            exists st', fit_groups fexp (reset_st st1) gs' = (st', Ok) /\
              (forall x, In x keep -> covered (st_blocks st') (sids x))).
  { intros gs' keep Hwf Hg Ht Hi Hk.
    pose proof (groups_wf_ok _ _ Hwf Hg) as Hok.
    destruct (rebuild_core_c st1 _ _ Hinv Hnf R1 R2 R3 Hok Ht Hi)
      as (st' & F & _ & _ & _ & _ & _ & _ & K7).
    exists st'. split; [exact F|]. intros x Hx. apply K7, Hk, Hx. }
  unfold refine_groups in Hrg.
  destruct (nl =? 0) eqn:E0.
  - injection Hrg as <-. apply Z.eqb_eq in E0. subst nl. cbn [Z.to_nat skipn].
    pose proof (prepare_groups_perm (sorted_leaves st1)) as PG.
    apply Fin.
    + apply prepare_groups_wf.
    + apply (Forall_perm _ (sorted_leaves st1)); [symmetry; exact PG|exact Hgood].
    + rewrite (tot_n_perm _ _ PG). exact Htot.
    + etransitivity; [apply concat_perm, Permutation_map; exact PG|exact Hids].
    + intros x Hx. apply (Permutation_in _ (Permutation_sym PG)). exact Hx.
  - destruct (nl <? 1); [discriminate|].
    remember (Z.to_nat nl) as k eqn:Ek.
    remember (sorted_leaves st1) as bfs eqn:Ebfs.
    destruct (firstn k bfs) as [|l0 lt] eqn:El; [discriminate|]. rewrite <- El in Hrg.
    destruct (explode_all X im (firstn k bfs)) as [singles|] eqn:Ex; [|discriminate].
    injection Hrg as <-.
    destruct (firstn_skipn_Forall _ k bfs Hgood) as (G1 & G2).
    assert (HC : Forall cnt_ok (firstn k bfs)).
    { eapply Forall_impl; [|exact G1]. cbv beta. intros a (_ & _ & Hq). exact Hq. }
    destruct (explode_all_spec (nfeat st1) X im _ singles HX HC Ex) as (S1 & S2 & S3).
    assert (SW : Forall (fun b => sw b = W8) singles).
    { eapply Forall_impl; [|exact S1]. cbv beta. tauto. }
    assert (SG : Forall (good_sub (nfeat st1)) singles).
    { eapply Forall_impl; [|exact S1]. cbv beta. tauto. }
    pose proof (prepare_groups_perm (skipn k bfs)) as PG.
    pose proof (fold_group_add_perm (fun _ => W8) singles (prepare_groups (skipn k bfs))) as PF.
    cbv beta in PF.
    assert (PP : Permutation
                   (gsubs (fold_left (fun gs b => group_add W8 b gs) singles
                                     (prepare_groups (skipn k bfs))))
                   (skipn k bfs ++ singles)).
    { etransitivity; [exact PF|]. apply Permutation_app_tail. exact PG. }
    apply Fin.
    + apply (fold_group_add_wf (fun _ => W8)); [exact SW|apply prepare_groups_wf].
    + apply (Forall_perm _ (skipn k bfs ++ singles)); [symmetry; exact PP|].
      apply Forall_app. split; assumption.
    + rewrite (tot_n_perm _ _ PP), tot_n_app, S3, <- Htot.
      rewrite <- (firstn_skipn k bfs) at 3. rewrite tot_n_app. lia.
    + etransitivity; [apply concat_perm, Permutation_map; exact PP|].
      rewrite map_app, concat_app, S2.
      etransitivity; [apply Permutation_app_comm|].
      rewrite <- concat_app, <- map_app, firstn_skipn. exact Hids.
    + intros x Hx. apply (Permutation_in _ (Permutation_sym PP)). apply in_or_app. now left.
Qed.

(* C09_refine without [numbered] *)
Theorem do_refine_together_l st X im nl :
  st_inv st -> op_wf_l st (ORefine X im nl) ->
  let st' := fst (do_refine fexp st X im nl) in
  forall i j, together (st_blocks st) i j ->
    (forall b, In b (map sids (firstn (Z.to_nat nl) (sorted_leaves st))) -> ~ In i b) ->
    together (st_blocks st') i j.
Proof.
  intros Hinv HX. cbn [op_wf_l] in HX. cbv zeta. unfold do_refine, is_init.
  destruct (root st) as [r|] eqn:Er; cbn [negb]; [|cbn [fst]; auto].
  destruct (delete_internal_spec st Hinv) as (D1 & D2 & D3 & D4 & D5 & D6 & D7).
  destruct (delete_internal st) as [st1 o] eqn:Ed. cbn [fst snd] in *.
  destruct (same_tree_views st st1 D3 D4 D5) as (V1 & V2 & V3 & V4).
  assert (Triv : forall i j, together (st_blocks st) i j ->
                    (forall b, In b (map sids (firstn (Z.to_nat nl) (sorted_leaves st))) -> ~ In i b) ->
                    together (st_blocks st1) i j).
  { intros i j T _. now rewrite V2. }
  destruct o; [|exact Triv].
  destruct (refine_groups st1 X im nl) as [gs|] eqn:Eg; [|exact Triv].
  assert (Hr1 : root st1 <> None) by (rewrite D3, Er; discriminate).
  rewrite <- D6 in HX.
  destruct (refine_core_c st1 X im nl gs D1 Hr1 HX Eg) as (st' & F & K4).
  rewrite F. cbn [fst].
  intros i j (b & Hb & Hi & Hj) Hnot.
  rewrite <- V2 in Hb. destruct (block_is_leaf st1 b D1 Hb) as (x & Hx & <-).
  rewrite <- (firstn_skipn (Z.to_nat nl) (sorted_leaves st1)) in Hx.
  apply in_app_or in Hx. destruct Hx as [Hx|Hx].
  - exfalso. apply (Hnot (sids x)); [|exact Hi]. rewrite <- V1. apply in_map. exact Hx.
  - apply together_covered. apply (covered_incl _ (sids x)); [apply K4, Hx|].
    intros z [<-|[<-|[]]]; assumption.
Qed.

(* ---------- fit, any labels ---------- *)
(* [nf_ok] is not needed: on an uninitialised tree no two labels are together *)
Theorem do_fit_together_l st rows labels :
  st_inv st -> op_wf_l st (OFit rows labels) ->
  forall i j, together (st_blocks st) i j ->
              together (st_blocks (fst (do_fit fexp st rows labels))) i j.
Proof.
  intros Hinv (_ & Hrows & Hb) i j T. unfold do_fit.
  destruct rows as [|r0 rows]; [exact T|].
  destruct (released st) eqn:Erel; [exact T|].
  cbv zeta. rewrite (fit_labels_do_fit st r0 rows labels).
  unfold is_init.
  destruct (root st) as [r|] eqn:Er.
  - assert (Hr : root st <> None) by congruence.
    destruct (fit_rows fexp (cfg st) st (r0 :: rows) (fit_labels st (r0 :: rows) labels))
      as [st' out] eqn:Hf. cbn [fst].
    destruct (fit_rows_inv fexp (cfg st) (r0 :: rows) st _ Hinv Hr (proj1 Hinv) Hrows Hb st' out Hf)
      as (_ & _ & _ & _ & _ & J6 & _).
    apply J6, T.
  - exfalso. destruct T as (b & Hb' & _). unfold st_blocks in Hb'. rewrite Er in Hb'.
    destruct Hb'.
Qed.

(* ---------- any operation ---------- *)
Lemma step_together_l st o i j :
  st_inv st -> op_wf_l st o -> op_perms_ok fexp st o -> op_keeps i st o ->
  together (st_blocks st) i j -> together (st_blocks (fst (step fexp st o))) i j.
Proof.
  intros Hinv Hwf Hp Hk T.
  destruct o as [rows labels|X im nl|it ex ps se|c t b| |]; cbn [step].
  - exact (do_fit_together_l st rows labels Hinv Hwf i j T).
  - exact (do_refine_together_l st X im nl Hinv Hwf i j T Hk).
  - exact (do_recluster_together_l st it ex ps se Hinv Hp i j T).
  - exact T.
  - destruct (delete_internal_spec st Hinv) as (_ & _ & D3 & D4 & D5 & _).
    destruct (same_tree_views st _ D3 D4 D5) as (_ & V2 & _). rewrite V2. exact T.
  - destruct Hk.
Qed.

(* ================= histories ================= *)
Fixpoint ops_keep (i : Z) (st : state) (ops : list op) : Prop :=
  match ops with
  | [] => True
  | o :: tl => op_keeps i st o /\ ops_keep i (fst (step fexp st o)) tl
  end.

Lemma ops_coarsen_keep i ops : forall st, Forall op_coarsens ops -> ops_keep i st ops.
Proof.
  induction ops as [|o ops IH]; intros st H; [exact I|].
  inversion H; subst. split; [apply op_coarsens_keeps; assumption|apply IH; assumption].
Qed.

Lemma run_from_cons st o ops :
  run_from fexp st (o :: ops) = run_from fexp (fst (step fexp st o)) ops.
Proof. reflexivity. Qed.

Lemma run_app cfg0 pre post :
  run fexp cfg0 (pre ++ post) = run_from fexp (run fexp cfg0 pre) post.
Proof. unfold run, run_from. apply fold_left_app. Qed.

Lemma ops_wf_l_app pre : forall st post,
  ops_wf_l fexp st (pre ++ post) ->
  ops_wf_l fexp st pre /\ ops_wf_l fexp (run_from fexp st pre) post.
Proof.
  induction pre as [|o pre IH]; intros st post H; [split; [exact I|exact H]|].
  cbn [app ops_wf_l] in H. destruct H as (H1 & H2). destruct (IH _ _ H2) as (A & B).
  rewrite run_from_cons. cbn [ops_wf_l]. auto.
Qed.

Lemma ops_perms_ok_app pre : forall st post,
  ops_perms_ok fexp st (pre ++ post) ->
  ops_perms_ok fexp st pre /\ ops_perms_ok fexp (run_from fexp st pre) post.
Proof.
  induction pre as [|o pre IH]; intros st post H; [split; [exact I|exact H]|].
  cbn [app ops_perms_ok] in H. destruct H as (H1 & H2). destruct (IH _ _ H2) as (A & B).
  rewrite run_from_cons. cbn [ops_perms_ok]. auto.
Qed.

Lemma run_from_together_l ops : forall st i j,
  st_inv st -> nf_ok st -> ops_wf_l fexp st ops -> ops_perms_ok fexp st ops ->
  ops_keep i st ops ->
  together (st_blocks st) i j -> together (st_blocks (run_from fexp st ops)) i j.
Proof.
  induction ops as [|o ops IH]; intros st i j Hinv Hnf Hwf Hp Hk T; [exact T|].
  destruct Hwf as (W1 & W2). destruct Hp as (P1 & P2). destruct Hk as (K1 & K2).
  destruct (step_labels_inv fexp st o (mem_ids st) Hinv Hnf (Permutation_refl _) W1 P1)
    as (A & B & _).
  rewrite run_from_cons.
  apply (IH _ i j A B W2 P2 K2).
  exact (step_together_l st o i j Hinv W1 P1 K1 T).
Qed.

(* C09 over histories, caller labels: two labels that share a cluster after [pre] share one
   after [pre ++ post], provided [post] has no reset and never explodes (refine with
   n_largest > 0) a cluster holding [i] *)
Theorem run_together_keep_l cfg0 pre post i j :
  2 <= c_bf cfg0 -> ops_wf_l fexp (init cfg0) (pre ++ post) ->
  ops_perms_ok fexp (init cfg0) (pre ++ post) ->
  ops_keep i (run fexp cfg0 pre) post ->
  together (st_blocks (run fexp cfg0 pre)) i j ->
  together (st_blocks (run fexp cfg0 (pre ++ post))) i j.
Proof.
  intros H Hwf Hp Hk T.
  destruct (ops_wf_l_app pre _ _ Hwf) as (W1 & W2).
  destruct (ops_perms_ok_app pre _ _ Hp) as (P1 & P2).
  destruct (run_labels_inv fexp cfg0 pre H W1 P1) as (A & B & _).
  rewrite run_app.
  change (run_from fexp (init cfg0) pre) with (run fexp cfg0 pre) in W2, P2.
  exact (run_from_together_l post _ i j A B W2 P2 Hk T).
Qed.

(* the simple side condition: [post] consists of fits (any labels), reclusters, refines with
   n_largest <= 0, set-config and delete-internal-nodes calls *)
Theorem run_together_l cfg0 pre post :
  2 <= c_bf cfg0 -> ops_wf_l fexp (init cfg0) (pre ++ post) ->
  ops_perms_ok fexp (init cfg0) (pre ++ post) ->
  Forall op_coarsens post ->
  forall i j, together (st_blocks (run fexp cfg0 pre)) i j ->
              together (st_blocks (run fexp cfg0 (pre ++ post))) i j.
Proof.
  intros H Hwf Hp Hc i j T.
  apply (run_together_keep_l cfg0 pre post i j H Hwf Hp); [|exact T].
  apply ops_coarsen_keep, Hc.
Qed.

(* the same about what the API reports *)
Corollary run_together_clusters_l cfg0 pre post :
  2 <= c_bf cfg0 -> ops_wf_l fexp (init cfg0) (pre ++ post) ->
  ops_perms_ok fexp (init cfg0) (pre ++ post) ->
  Forall op_coarsens post ->
  forall i j, together (clusters (run fexp cfg0 pre)) i j ->
              together (clusters (run fexp cfg0 (pre ++ post))) i j.
Proof.
  intros H Hwf Hp Hc i j T.
  destruct (ops_wf_l_app pre _ _ Hwf) as (W1 & _).
  destruct (ops_perms_ok_app pre _ _ Hp) as (P1 & _).
  destruct (run_labels_inv fexp cfg0 pre H W1 P1) as (A & _).
  destruct (run_labels_inv fexp cfg0 (pre ++ post) H Hwf Hp) as (A' & _).
  assert (Q : forall st, st_inv st -> Permutation (clusters st) (st_blocks st))
    by (intros st0 H0; apply clusters_perm, H0).
  assert (TP : forall B B', Permutation B B' -> together B i j -> together B' i j).
  { intros B B' PB (b & Hb & Hij). exists b. split; [|exact Hij].
    apply (Permutation_in _ PB), Hb. }
  apply (TP _ _ (Permutation_sym (Q _ A'))).
  apply (run_together_l cfg0 pre post H Hwf Hp Hc).
  apply (TP _ _ (Q _ A)), T.
Qed.

End WithExp.

(* ================= A: C02 (exact summaries) with caller labels ================= *)
Section Data.
Variable fexp : float -> float.
Variable D : Z -> fpv.

(* ---------- fit, any labels ---------- *)
Lemma do_fit_data_l st rows labels :
  st_inv st -> nf_ok st -> op_wf_l st (OFit rows labels) ->
  leaves_data D st -> op_data_l D st (OFit rows labels) ->
  leaves_data D (fst (do_fit fexp st rows labels)).
Proof.
  intros Hinv Hnf (_ & Hrows & Hb) HL HD. cbn [op_data_l] in HD. unfold do_fit.
  destruct rows as [|r0 rows]; [cbn [fst]; exact HL|].
  destruct (released st) eqn:Erel; [cbn [fst]; exact HL|].
  cbv zeta. rewrite (fit_labels_do_fit st r0 rows labels).
  unfold is_init.
  destruct (root st) as [r|] eqn:Er.
  - assert (Hr : root st <> None) by congruence.
    exact (fit_rows_data fexp D (cfg st) (r0 :: rows) st _ Hinv Hr (proj1 Hinv) Hrows Hb HL HD).
  - destruct r0 as [fp|].
    + destruct Hrows as (Hrows & Hfp).
      pose proof (initialize_inv st (length fp) Hinv Er Hfp) as I1.
      remember (initialize st (length fp)) as st1 eqn:Est1.
      assert (E1 : nfit st1 = nfit st) by (subst st1; reflexivity).
      assert (E2 : nfeat st1 = length fp) by (subst st1; reflexivity).
      assert (E3 : root st1 <> None) by (subst st1; discriminate).
      assert (E5 : cfg st1 = cfg st) by (subst st1; reflexivity).
      assert (HL1 : leaves_data D st1) by (subst st1; unfold leaves_data; cbn; constructor).
      rewrite <- E2 in Hrows. rewrite <- E1 in Hb.
      assert (Hbf1 : 2 <= c_bf (cfg st1)) by (rewrite E5; exact (proj1 Hinv)).
      exact (fit_rows_data fexp D (cfg st1) (Some fp :: rows) st1 _ I1 E3 Hbf1 Hrows Hb HL1 HD).
    + (* first row bad: the tree is initialised, nothing is inserted *)
      destruct (fit_labels st (None :: rows) labels) as [|l0 labs];
        cbn [fit_rows fst]; unfold leaves_data, initialize; cbn; constructor.
Qed.

(* ---------- recluster without [numbered] ---------- *)
Lemma recluster_loop_data_l iters : forall st extra perms se before,
  st_inv st -> nf_ok st -> perms_fit fexp iters st extra perms se before ->
  leaves_data D st ->
  leaves_data D (fst (recluster_loop fexp iters st extra perms se before)).
Proof.
  induction iters as [|k IH]; intros st extra perms se before Hinv Hnf Hpf HL.
  - cbn [recluster_loop fst]. exact HL.
  - cbn [recluster_loop perms_fit] in *.
    destruct (se && ((count_singletons (sorted_leaves st) =? 0)
                     || (count_singletons (sorted_leaves st) =? before))).
    + cbn [fst]. exact HL.
    + destruct perms as [|p ps].
      * destruct (rebuild_leaves_l fexp st (c_thr (cfg st) + extra)%float (sorted_leaves st)
                                   Hinv Hnf (Permutation_refl _))
          as (st2 & F & K1 & K2 & _).
        pose proof (rebuild_leaves_data fexp D st (c_thr (cfg st) + extra)%float
                      (sorted_leaves st) Hinv Hnf (Permutation_refl _) HL) as HL2.
        rewrite F in HL2 |- *. cbn [fst] in HL2.
        apply (IH st2 extra [] se (count_singletons (sorted_leaves st)) K1 K2
                  (perms_fit_nil _ _ _ _ _ _) HL2).
      * destruct Hpf as (Hp & Hpf).
        destruct (rebuild_leaves_l fexp st (c_thr (cfg st) + extra)%float
                                   (permute (sorted_leaves st) p)
                                   Hinv Hnf (permute_perm _ _ Hp))
          as (st2 & F & K1 & K2 & _).
        pose proof (rebuild_leaves_data fexp D st (c_thr (cfg st) + extra)%float
                      (permute (sorted_leaves st) p) Hinv Hnf (permute_perm _ _ Hp) HL) as HL2.
        rewrite F in Hpf, HL2 |- *. cbn [fst] in HL2.
        apply (IH st2 extra ps se (count_singletons (sorted_leaves st)) K1 K2 Hpf HL2).
Qed.

Lemma do_recluster_data_l st iters extra perms se :
  st_inv st -> recluster_perms_ok fexp st iters extra perms se ->
  leaves_data D st ->
  leaves_data D (fst (do_recluster fexp st iters extra perms se)).
Proof.
  intros Hinv Hpf HL. unfold do_recluster, is_init.
  destruct (root st) as [r|] eqn:Er; cbn [negb fst]; [|exact HL].
  assert (Hnf : nf_ok st) by (apply st_inv_nf_ok; [exact Hinv|congruence]).
  exact (recluster_loop_data_l iters st extra perms se 0 Hinv Hnf Hpf HL).
Qed.

(* ---------- refine: [do_refine_data] of BirchData.v never used the numbering ---------- *)
Lemma do_refine_data_l st X im nl :
  st_inv st -> op_wf_l st (ORefine X im nl) ->
  leaves_data D st -> op_data_l D st (ORefine X im nl) ->
  leaves_data D (fst (do_refine fexp st X im nl)).
Proof. exact (do_refine_data fexp D st X im nl). Qed.

(* ---------- any operation ---------- *)
Lemma step_data_l st o :
  st_inv st -> nf_ok st -> op_wf_l st o -> op_perms_ok fexp st o ->
  leaves_data D st -> op_data_l D st o ->
  leaves_data D (fst (step fexp st o)).
Proof.
  intros Hinv Hnf Hwf Hp HL HD.
  destruct o as [rows labels|X im nl|it ex ps se|c t b| |]; cbn [step].
  - exact (do_fit_data_l st rows labels Hinv Hnf Hwf HL HD).
  - exact (do_refine_data_l st X im nl Hinv Hwf HL HD).
  - exact (do_recluster_data_l st it ex ps se Hinv Hp HL).
  - cbn [fst]. apply (leaves_data_same D st); [reflexivity|reflexivity|exact HL].
  - destruct (delete_internal_spec st Hinv) as (_ & _ & D3 & _ & _ & D6 & _).
    exact (leaves_data_same D st _ D3 D6 HL).
  - cbn [fst]. apply leaves_data_none. reflexivity.
Qed.

Fixpoint ops_data_l (st : state) (ops : list op) : Prop :=
  match ops with
  | [] => True
  | o :: tl => op_data_l D st o /\ ops_data_l (fst (step fexp st o)) tl
  end.

Lemma ops_data_strong_l ops : forall st, ops_data_strong fexp D st ops -> ops_data_l st ops.
Proof.
  induction ops as [|o ops IH]; intros st H; [exact I|].
  destruct H as (H1 & H2). split; [apply op_data_op_data_l, H1|apply IH, H2].
Qed.

Lemma run_from_data_l ops : forall st,
  st_inv st -> nf_ok st -> ops_wf_l fexp st ops -> ops_perms_ok fexp st ops ->
  leaves_data D st -> ops_data_l st ops ->
  leaves_data D (run_from fexp st ops).
Proof.
  induction ops as [|o ops IH]; intros st Hinv Hnf Hwf Hp HL HD.
  - exact HL.
  - destruct Hwf as (W1 & W2). destruct Hp as (P1 & P2). destruct HD as (E1 & E2).
    destruct (step_labels_inv fexp st o (mem_ids st) Hinv Hnf (Permutation_refl _) W1 P1)
      as (A & B & _).
    pose proof (step_data_l st o Hinv Hnf W1 P1 HL E1) as HL'.
    exact (IH _ A B W2 P2 HL' E2).
Qed.

Theorem run_data_l cfg0 ops :
  2 <= c_bf cfg0 -> ops_wf_l fexp (init cfg0) ops -> ops_perms_ok fexp (init cfg0) ops ->
  ops_data_l (init cfg0) ops ->
  leaves_data D (run fexp cfg0 ops).
Proof.
  intros H Hwf Hp HD. destruct (init_inv cfg0 H) as (A & B & _).
  exact (run_from_data_l ops (init cfg0) A B Hwf Hp (leaves_data_none D (init cfg0) eq_refl) HD).
Qed.

(* C02 for caller-supplied labels *)
Theorem run_reported_sums_l cfg0 ops :
  2 <= c_bf cfg0 -> ops_wf_l fexp (init cfg0) ops -> ops_perms_ok fexp (init cfg0) ops ->
  ops_data_l (init cfg0) ops ->
  let st := run fexp cfg0 ops in
  Forall (fun s => sls s = colsum (nfeat st) (map D (sids s)) /\
                   sn s = zlen (sids s) /\
                   scent s = centroid_fpv (sls s) (sn s) /\
                   sw s = minw (sn s)) (sorted_leaves st).
Proof.
  intros H Hwf Hp HD. cbv zeta. apply reported_sums.
  - exact (proj1 (run_labels_inv fexp cfg0 ops H Hwf Hp)).
  - exact (run_data_l cfg0 ops H Hwf Hp HD).
Qed.

(* the default-numbering theorem is the special case *)
Corollary run_reported_sums_default cfg0 ops :
  2 <= c_bf cfg0 -> ops_wf fexp (init cfg0) ops -> ops_perms_ok fexp (init cfg0) ops ->
  ops_data_strong fexp D (init cfg0) ops ->
  let st := run fexp cfg0 ops in
  Forall (fun s => sls s = colsum (nfeat st) (map D (sids s)) /\
                   sn s = zlen (sids s) /\
                   scent s = centroid_fpv (sls s) (sn s) /\
                   sw s = minw (sn s)) (sorted_leaves st).
Proof.
  intros H Hwf Hp HD. apply run_reported_sums_l; auto.
  - apply ops_wf_ops_wf_l, Hwf.
  - apply ops_data_strong_l, HD.
Qed.

End Data.

(* ================= non-vacuity ================= *)
(* the history [lx_ops] of BirchLabels.v (labels 10 20 30, then 5 7, then a shuffled
   re-clustering) with the data map it is consistent with *)
Definition l2_D (l : Z) : fpv :=
  if l =? 10 then [true; true; false; false]
  else if l =? 20 then [false; false; true; true]
  else if l =? 30 then [true; true; true; false]
  else if l =? 5 then [false; true; true; true]
  else if l =? 7 then [true; false; false; false]
  else [].

Ltac l2_rows :=
  let k := fresh "k" in let fp := fresh "fp" in let l := fresh "l" in
  let H1 := fresh "H1" in let H2 := fresh "H2" in
  intros k fp l H1 H2;
  do 4 (destruct k as [|k];
        [vm_compute in H1, H2;
         first [discriminate H1
               |injection H1 as <-; injection H2 as <-; vm_compute; reflexivity]|]);
  vm_compute in H1; discriminate H1.

Example labels2_data_nonvacuous :
  ops_data_l lx_fexp l2_D (init lx_cfg) lx_ops /\
  map (fun s => (sids s, sls s, sn s)) (sorted_leaves (run lx_fexp lx_cfg lx_ops)) =
    [([10; 30; 7], [3; 2; 1; 0], 3); ([20; 5], [0; 1; 2; 2], 2)].
Proof.
  split; [|vm_compute; reflexivity].
  cbn [ops_data_l lx_ops]. split; [cbn [op_data_l]; l2_rows|].
  split; [cbn [op_data_l]; l2_rows|]. split; exact I.
Qed.

Example labels2_data_applied :
  let st := run lx_fexp lx_cfg lx_ops in
  Forall (fun s => sls s = colsum (nfeat st) (map l2_D (sids s)) /\ sn s = zlen (sids s))
         (sorted_leaves st).
Proof.
  destruct labels_nonvacuous as (H1 & H2 & H3 & _).
  destruct labels2_data_nonvacuous as (H4 & _).
  pose proof (run_reported_sums_l lx_fexp l2_D lx_cfg lx_ops H1 H2 H3 H4) as R.
  cbv zeta in R |- *. eapply Forall_impl; [|exact R]. cbv beta. tauto.
Qed.

(* C09 over a history with caller labels: 10 and 30 share a cluster after the first fit and
   still do after a second labelled fit and a shuffled re-clustering *)
Example labels2_together_nonvacuous :
  together (st_blocks (run lx_fexp lx_cfg (firstn 1 lx_ops))) 10 30 /\
  Forall op_coarsens (skipn 1 lx_ops) /\
  together (st_blocks (run lx_fexp lx_cfg lx_ops)) 10 30.
Proof.
  destruct labels_nonvacuous as (H1 & H2 & H3 & _).
  assert (T : together (st_blocks (run lx_fexp lx_cfg (firstn 1 lx_ops))) 10 30).
  { exists [10; 30]. vm_compute. intuition. }
  assert (C : Forall op_coarsens (skipn 1 lx_ops)) by (repeat constructor).
  refine (conj T (conj C _)).
  exact (run_together_l lx_fexp lx_cfg (firstn 1 lx_ops) (skipn 1 lx_ops) H1 H2 H3 C 10 30 T).
Qed.

(* the side condition on refine is needed: after the threshold has been raised, a refine
   with n_largest = 1 re-inserts the members of the largest cluster one by one under the new
   threshold, and 100 and 102 end up apart.  Every other hypothesis of [run_together_l]
   holds. *)
Definition l2_X : list fpv :=
  [[true; true; false; false]; [false; false; true; true]; [true; true; true; false];
   [false; true; true; true]; [true; false; false; false]].
Definition l2_pre : list op :=
  [OFit lx_rows1 (Some [100; 101; 102]); OFit lx_rows2 (Some [103; 104])].
Definition l2_post : list op := [OSetCfg None (Some 0.875%float) None; ORefine l2_X 100 1].

Example refine_side_condition_needed :
  ops_wf_l lx_fexp (init lx_cfg) (l2_pre ++ l2_post) /\
  ops_perms_ok lx_fexp (init lx_cfg) (l2_pre ++ l2_post) /\
  clusters (run lx_fexp lx_cfg l2_pre) = [[100; 102; 104]; [101; 103]] /\
  clusters (run lx_fexp lx_cfg (l2_pre ++ l2_post)) = [[101; 103]; [104]; [100]; [102]] /\
  together (st_blocks (run lx_fexp lx_cfg l2_pre)) 100 102 /\
  ~ together (st_blocks (run lx_fexp lx_cfg (l2_pre ++ l2_post))) 100 102.
Proof.
  split; [|split; [|split; [|split; [|split]]]].
  - cbn [ops_wf_l l2_pre l2_post app]. lx_solve.
  - cbn [ops_perms_ok l2_pre l2_post app]. lx_solve.
  - vm_compute. reflexivity.
  - vm_compute. reflexivity.
  - exists [100; 102; 104]. vm_compute. intuition.
  - intros (b & Hb & Hi & Hj). vm_compute in Hb.
    repeat (destruct Hb as [<-|Hb]; [cbn in Hi, Hj; intuition lia|]). destruct Hb.
Qed.
