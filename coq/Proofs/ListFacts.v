(* ListFacts.v — small list lemmas used by the tree proofs. *)
From BB Require Import Model.Base.
From Coq Require Import Lia Permutation.
Open Scope Z_scope.

Lemma upd_length {A} (i : nat) (x : A) (l : list A) : length (upd i x l) = length l.
Proof. revert i; induction l as [|y l IH]; intros [|i]; cbn; auto. Qed.

Lemma map_upd {A B} (f : A -> B) i x (l : list A) : map f (upd i x l) = upd i (f x) (map f l).
Proof. revert i; induction l as [|y l IH]; intros [|i]; cbn; auto. now rewrite IH. Qed.

Lemma upd_split {A} (i : nat) (x d : A) (l : list A) :
  (i < length l)%nat ->
  exists l1 l2, l = l1 ++ nth i l d :: l2 /\ upd i x l = l1 ++ x :: l2 /\ length l1 = i.
Proof.
  revert i; induction l as [|y l IH]; intros i Hi; cbn in Hi; [lia|].
  destruct i as [|i].
  - exists [], l. cbn. auto.
  - destruct (IH i ltac:(lia)) as (l1 & l2 & E1 & E2 & E3).
    exists (y :: l1), l2. cbn. rewrite <- E1, E2, E3. auto.
Qed.

Lemma argbest_lt better l i best bv :
  (best < i)%nat -> (argbest better l i best bv < i + length l)%nat.
Proof.
  revert i best bv; induction l as [|x l IH]; intros i best bv H; cbn; [lia|].
  destruct (better x bv).
  - specialize (IH (S i) i x ltac:(lia)). lia.
  - specialize (IH (S i) best bv ltac:(lia)). lia.
Qed.

Lemma argmax_f_lt l : l <> [] -> (argmax_f l < length l)%nat.
Proof.
  destruct l as [|x l]; [congruence|]. intros _. unfold argmax_f. cbn [length].
  pose proof (argbest_lt (fun x b => negb (is_nan_f b) && (is_nan_f x || (b <? x)%float)) l 1 0 x
                         ltac:(lia)). lia.
Qed.
Lemma argmin_f_lt l : l <> [] -> (argmin_f l < length l)%nat.
Proof.
  destruct l as [|x l]; [congruence|]. intros _. unfold argmin_f. cbn [length].
  pose proof (argbest_lt (fun x b => negb (is_nan_f b) && (is_nan_f x || (x <? b)%float)) l 1 0 x
                         ltac:(lia)). lia.
Qed.

Lemma map2_length {A B C} (f : A -> B -> C) a b :
  length (map2 f a b) = Nat.min (length a) (length b).
Proof. revert b; induction a as [|x a IH]; intros [|y b]; cbn; auto. Qed.

Lemma Permutation_app_swap_mid {A} (a b c : list A) :
  Permutation (a ++ b ++ c) (b ++ a ++ c).
Proof. rewrite !app_assoc. apply Permutation_app_tail, Permutation_app_comm. Qed.

Lemma flat_map_perm {A B} (f : A -> list B) l l' :
  Permutation l l' -> Permutation (flat_map f l) (flat_map f l').
Proof.
  induction 1; cbn; auto.
  - now apply Permutation_app_head.
  - rewrite !app_assoc. apply Permutation_app_tail, Permutation_app_comm.
  - etransitivity; eauto.
Qed.

(* selection by a mask *)
Fixpoint sel {A} (b : bool) (m : list bool) (l : list A) : list A :=
  match m, l with
  | mb :: m', x :: l' => if Bool.eqb mb b then x :: sel b m' l' else sel b m' l'
  | _, _ => []
  end.

Lemma sel_perm {A} (m : list bool) (l : list A) :
  length m = length l -> Permutation (sel true m l ++ sel false m l) l.
Proof.
  revert l; induction m as [|mb m IH]; intros [|x l] H; cbn in *; try discriminate; auto.
  injection H as H. destruct mb; cbn.
  - constructor. auto.
  - etransitivity; [apply Permutation_sym, Permutation_middle|]. constructor. auto.
Qed.

Lemma sel_length_le {A} b (m : list bool) (l : list A) : (length (sel b m l) <= length l)%nat.
Proof.
  revert l; induction m as [|mb m IH]; intros [|x l]; cbn; try lia.
  destruct (Bool.eqb mb b); cbn; specialize (IH l); lia.
Qed.

Lemma sel_lengths {A} (m : list bool) (l : list A) :
  length m = length l ->
  (length (sel true m l) + length (sel false m l) = length l)%nat.
Proof.
  intros H. pose proof (Permutation_length (sel_perm m l H)) as P.
  rewrite app_length in P. exact P.
Qed.

Lemma sel_nonempty {A} b (m : list bool) (l : list A) :
  length m = length l -> In b m -> sel b m l <> [].
Proof.
  revert l; induction m as [|mb m IH]; intros [|x l] H Hin; cbn in *; try discriminate; try tauto.
  injection H as H.
  destruct (Bool.eqb mb b) eqn:E; [discriminate|].
  destruct Hin as [->|Hin]; [now rewrite Bool.eqb_reflx in E|]. auto.
Qed.

Lemma sel_map {A B} (f : A -> B) b m (l : list A) : sel b m (map f l) = map f (sel b m l).
Proof.
  revert l; induction m as [|mb m IH]; intros [|x l]; cbn; auto.
  destruct (Bool.eqb mb b); cbn; now rewrite IH.
Qed.
