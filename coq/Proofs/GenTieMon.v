(* GenTieMon.v — the monitor rewrites the peak file exactly when the model's writer does: the new
   sample is strictly above the stored maximum (Gen/GMon.monitor_update_cond, translated from the
   polling loop of monitor_rss_process on every run). *)
From BB Require Import Model.Monitor Gen.NumpySem Gen.GMon.

Lemma tie_monitor_cond : forall s mx, GMon.monitor_update_cond s mx = PrimFloat.ltb mx s.
Proof. reflexivity. Qed.
