(* CliRun.v — the plan of `bb run` (Model/Cli.v) interpreted on the estimator MODEL
   (Model/Birch.v, Model/Config.v), so that the estimator theorems C01 / C02 / C03 apply to what
   the command writes.

   1. [plan_ops]: the denotation of a plan as an initial configuration and estimator operations;
      [cli_run]: the checked run of these operations (None = the command aborts on a ValueError);
      [cli_outputs]: what ASave reads (get_cluster_mol_ids / get_centroids_mol_ids).
   2. [api_ops]: the direct API script in closed form; [plan_ops_closed], [cli_run_is_api_run].
   3. [cli_partition], [cli_centroids_exact], [cli_bound]: C01 / C02 / C03 for the command, from
      hypotheses on the options, the input files and the shuffles only.
   4. [cli_run_total]: with documented options and no empty input file the command does not abort.
   5. [Demo]. *)
From BB Require Import Model.Cli Proofs.CliFacts Proofs.ListFacts Proofs.TreeDefs Proofs.TreeShape
     Proofs.TreeBlocks Proofs.TreeChain
     Proofs.TreeSums Proofs.BirchDefs Proofs.BirchInv Proofs.BirchRebuild Proofs.BirchData
     Proofs.BirchBound Proofs.BirchLabels Proofs.BirchLabels2.
From BB Require Props.C01 Props.C02 Props.C03.
From Coq Require Import Lia Permutation List ZArith.
Import ListNotations.
Open Scope Z_scope.

(* ====================================================================== *)
(* 0. the pieces of the API script that do not depend on the float oracle  *)
(* ====================================================================== *)

(* tree.fit(file) for every file, in name order; default labels continue the numbering *)
Definition fit_ops (files : list (list fpv)) : list op :=
  map (fun rows => OFit (map Some rows) None) files.

(* tree.recluster_inplace(shuffle=...) [k] times: iterations = 1, extra_threshold = 0.0,
   stop_early = False (the defaults); the shuffle of each call is an input: the head of [perms],
   no shuffle once [perms] is exhausted ([perms = []] is --no-recluster-shuffle) *)
Fixpoint recluster_ops (k : nat) (perms : list (list nat)) : list op :=
  match k with
  | O => []
  | S k' =>
      match perms with
      | [] => ORecluster 1 0 [] false :: recluster_ops k' []
      | p :: ps => ORecluster 1 0 [p] false :: recluster_ops k' ps
      end
  end.

(* the ghost data map: label i |-> the i-th row over all files in name order *)
Definition file_data (files : list (list fpv)) (i : Z) : fpv :=
  nth (Z.to_nat i) (concat files) [].

(* small list facts *)
Lemma cr_zlen_app {A} (a b : list A) : zlen (a ++ b) = zlen a + zlen b.
Proof. unfold zlen. rewrite app_length. lia. Qed.
Lemma cr_zlen_map {A B} (f : A -> B) l : zlen (map f l) = zlen l.
Proof. unfold zlen. now rewrite map_length. Qed.
Lemma cr_zlen_nil {A} : zlen (@nil A) = 0.
Proof. reflexivity. Qed.
Lemma cr_map_nth_seq {A} (l : list A) d : map (fun k => nth k l d) (seq 0 (length l)) = l.
Proof.
  induction l as [|x l IH]; [reflexivity|].
  cbn [length seq map nth]. f_equal. rewrite <- seq_shift, map_map. exact IH.
Qed.
Lemma cr_permute_In {A} (l : list A) p x : In x (permute l p) -> In x l.
Proof.
  unfold permute. intros H. apply in_flat_map in H. destruct H as (i & _ & Hi).
  destruct (nth_error l i) as [y|] eqn:E; [|destruct Hi].
  destruct Hi as [<-|[]]. eapply nth_error_In; eauto.
Qed.

Section WithExp.
Variable fexp : float -> float.

(* ====================================================================== *)
(* 1. denotation of a plan                                                 *)
(* ====================================================================== *)

(* tree.set_merge(name, tolerance=tol, threshold=thr): the criterion is looked up by name (None =
   ValueError), the threshold is set, the branching factor is kept *)
Definition set_merge_op (nm : cname) (tol thr : float) : option op :=
  match get_merge_accept_fn fexp nm tol with
  | Some c => Some (OSetCfg (Some c) (Some thr) None)
  | None => None
  end.

(* this operation IS Config.set_merge on the configuration of the estimator *)
Lemma set_merge_op_is_set_merge st nm tol thr :
  set_merge fexp None (cfg st) (AName nm) (Some tol) (Some thr) None =
  option_map (fun o => cfg (fst (step fexp st o))) (set_merge_op nm tol thr).
Proof.
  unfold set_merge, set_merge_op. destruct (get_merge_accept_fn fexp nm tol); reflexivity.
Qed.

Definition ocons {A} (x : A) (r : option (list A)) : option (list A) := option_map (cons x) r.

(* the calls after the constructor; [perms]: the shuffles not yet used *)
Fixpoint calls_ops (files : list (list fpv)) (perms : list (list nat)) (l : list api_call)
  : option (list op) :=
  match l with
  | [] => Some []
  | a :: tl =>
      match a with
      | ACtor _ _ _ _ => None                              (* one estimator per run *)
      | AFitFile k => ocons (OFit (map Some (nth k files [])) None) (calls_ops files perms tl)
      | ASetMerge nm tol thr =>
          match set_merge_op nm tol thr with
          | Some o => ocons o (calls_ops files perms tl)
          | None => None
          end
      | ARefine n => ocons (ORefine (concat files) 0 n) (calls_ops files perms tl)
      | ARecluster =>
          match perms with
          | [] => ocons (ORecluster 1 0 [] false) (calls_ops files [] tl)
          | p :: ps => ocons (ORecluster 1 0 [p] false) (calls_ops files ps tl)
          end
      | ASaveTree | ASave => calls_ops files perms tl      (* read-only *)
      end
  end.

Definition plan_ops (o : run_opts) (files : list (list fpv)) (perms : list (list nat))
  : option (config * list op) :=
  match run_plan o (length files) with
  | ACtor nm tol thr bf :: tl =>
      match ctor fexp None thr bf (AName nm) (Some tol), calls_ops files perms tl with
      | Some cf, Some ops => Some (cf, ops)
      | _, _ => None
      end
  | _ => None
  end.

(* run with the outcomes checked: the first exception ends the command *)
Fixpoint run_checked (st : state) (ops : list op) : option state :=
  match ops with
  | [] => Some st
  | o :: tl => match step fexp st o with
               | (st', Ok) => run_checked st' tl
               | (_, Err) => None
               end
  end.

Definition cli_run (o : run_opts) (files : list (list fpv)) (perms : list (list nat))
  : option state :=
  match plan_ops o files perms with
  | Some (cf, ops) => run_checked (init cf) ops
  | None => None
  end.

(* clusters.pkl and cluster-centroids-packed.pkl: get_centroids_mol_ids() = the member lists and
   the centroids of the leaf sub-clusters, sorted by size *)
Definition cli_outputs (st : state) : list (list Z) * list fpv := (clusters st, centroids st).

(* the lean variant calls tree.delete_internal_nodes() before reading: nothing read changes *)
Lemma cli_outputs_delete_internal st :
  cli_outputs (fst (delete_internal st)) = cli_outputs st.
Proof.
  assert (E : root (fst (delete_internal st)) = root st /\ sax (fst (delete_internal st)) = sax st).
  { unfold delete_internal. destruct (root st) as [r|] eqn:Er; [|cbn [fst]; auto].
    destruct (released st); [cbn [fst]; auto|].
    destruct r; cbn [fst root sax]; auto. }
  destruct E as (E1 & E2).
  unfold cli_outputs, clusters, centroids, sorted_leaves, leaves_of. now rewrite E1, E2.
Qed.

Lemma run_checked_run_from ops : forall st st',
  run_checked st ops = Some st' -> st' = run_from fexp st ops.
Proof.
  induction ops as [|o ops IH]; intros st st' H; cbn [run_checked] in H.
  - injection H as <-. reflexivity.
  - rewrite run_from_cons. destruct (step fexp st o) as [st1 [|]]; [|discriminate H].
    cbn [fst]. apply IH, H.
Qed.

Lemma run_checked_cons_ok st o ops :
  snd (step fexp st o) = Ok -> run_checked st (o :: ops) = run_checked (fst (step fexp st o)) ops.
Proof.
  cbn [run_checked]. destruct (step fexp st o) as [st1 [|]]; cbn [fst snd]; congruence.
Qed.

Lemma run_checked_app a : forall st b,
  run_checked st (a ++ b) =
  match run_checked st a with Some st' => run_checked st' b | None => None end.
Proof.
  induction a as [|o a IH]; intros st b; cbn [app run_checked]; [reflexivity|].
  destruct (step fexp st o) as [st1 [|]]; [apply IH|reflexivity].
Qed.

(* ====================================================================== *)
(* 2. the command = this API script                                        *)
(* ====================================================================== *)

(* BitBirch(branching_factor=, threshold=, merge_criterion=, tolerance=) *)
Definition api_cfg0 (o : run_opts) : option config :=
  ctor fexp None (ro_thr o) (ro_bf o) (AName (ro_merge o)) (Some (ro_tol o)).

Definition set_merge_ops (nm : cname) (tol thr : float) : list op :=
  match set_merge_op nm tol thr with Some o => [o] | None => [] end.

(* tree = BitBirch(...); for f in files: tree.fit(f);
   if recluster_rounds != 0 or refine_rounds != 0:
       tree.set_merge(refine_merge, tolerance=tol, threshold=thr + change)
       for _ in range(refine_rounds): tree.refine_inplace(files, n_largest=refine_num)
       for _ in range(recluster_rounds): tree.recluster_inplace(shuffle=...)          *)
Definition api_ops (o : run_opts) (files : list (list fpv)) (perms : list (list nat)) : list op :=
  let '(num, rounds) := norm_refine (ro_refine_num o) (ro_refine_rounds o) in
  fit_ops files ++
  (if negb (ro_recluster_rounds o =? 0) || negb (rounds =? 0) then
     set_merge_ops (ro_refine_merge o) (ro_tol o) (ro_thr o + ro_change o)%float
     ++ repeat (ORefine (concat files) 0 num) (Z.to_nat rounds)
     ++ recluster_ops (Z.to_nat (ro_recluster_rounds o)) perms
   else []).

(* the part before the re-clustering rounds (the shuffles refer to the state it produces) *)
Definition api_ops_pre (o : run_opts) (files : list (list fpv)) : list op :=
  let '(num, rounds) := norm_refine (ro_refine_num o) (ro_refine_rounds o) in
  fit_ops files ++
  (if negb (ro_recluster_rounds o =? 0) || negb (rounds =? 0) then
     set_merge_ops (ro_refine_merge o) (ro_tol o) (ro_thr o + ro_change o)%float
     ++ repeat (ORefine (concat files) 0 num) (Z.to_nat rounds)
   else []).

Lemma api_ops_split o files perms :
  api_ops o files perms =
  api_ops_pre o files ++ recluster_ops (Z.to_nat (ro_recluster_rounds o)) perms.
Proof.
  unfold api_ops, api_ops_pre. destruct (norm_refine _ _) as [num rounds].
  destruct (Z.eqb_spec (ro_recluster_rounds o) 0) as [E|E].
  - rewrite E. cbn [negb orb Z.to_nat recluster_ops].
    destruct (negb (rounds =? 0)); now rewrite ?app_nil_r.
  - cbn [negb orb]. now rewrite <- !app_assoc.
Qed.

Lemma calls_ops_fits files perms ks rest :
  calls_ops files perms (map AFitFile ks ++ rest) =
  option_map (app (map (fun k => OFit (map Some (nth k files [])) None) ks))
             (calls_ops files perms rest).
Proof.
  induction ks as [|k ks IH]; cbn [map app calls_ops].
  - destruct (calls_ops files perms rest); reflexivity.
  - rewrite IH. unfold ocons. destruct (calls_ops files perms rest); reflexivity.
Qed.

Lemma calls_ops_refines files perms n k rest :
  calls_ops files perms (repeat (ARefine n) k ++ rest) =
  option_map (app (repeat (ORefine (concat files) 0 n) k)) (calls_ops files perms rest).
Proof.
  induction k as [|k IH]; cbn [repeat app calls_ops].
  - destruct (calls_ops files perms rest); reflexivity.
  - rewrite IH. unfold ocons. destruct (calls_ops files perms rest); reflexivity.
Qed.

Lemma calls_ops_reclusters files tail :
  (forall ps, calls_ops files ps tail = Some []) ->
  forall k perms, calls_ops files perms (repeat ARecluster k ++ tail) = Some (recluster_ops k perms).
Proof.
  intros Ht. induction k as [|k IH]; intros perms; cbn [repeat app calls_ops recluster_ops].
  - apply Ht.
  - destruct perms as [|p ps]; rewrite IH; reflexivity.
Qed.

Lemma fit_ops_seq files :
  map (fun k => OFit (map Some (nth k files [])) None) (seq 0 (length files)) = fit_ops files.
Proof.
  unfold fit_ops.
  rewrite <- (map_map (fun k => nth k files []) (fun rows => OFit (map Some rows) None)).
  now rewrite cr_map_nth_seq.
Qed.

(* the denotation of the plan in closed form *)
Theorem plan_ops_closed o files perms :
  plan_ops o files perms =
  match plan_config fexp o, api_cfg0 o with
  | Some _, Some cf => Some (cf, api_ops o files perms)
  | _, _ => None
  end.
Proof.
  unfold plan_ops, run_plan, plan_config, api_cfg0, api_ops.
  destruct (norm_refine (ro_refine_num o) (ro_refine_rounds o)) as [num rounds].
  cbn [app].
  destruct (ctor fexp None (ro_thr o) (ro_bf o) (AName (ro_merge o)) (Some (ro_tol o)))
    as [cf|]; [|reflexivity].
  assert (Tail : forall ps, calls_ops files ps
                   ((if ro_save_tree o then [ASaveTree] else []) ++ [ASave]) = Some [])
    by (intros ps; destruct (ro_save_tree o); reflexivity).
  rewrite calls_ops_fits, fit_ops_seq.
  destruct (negb (ro_recluster_rounds o =? 0) || negb (rounds =? 0)).
  - cbn [app calls_ops]. rewrite set_merge_op_is_set_merge with (st := init cf).
    unfold set_merge_ops.
    destruct (set_merge_op (ro_refine_merge o) (ro_tol o) (ro_thr o + ro_change o)%float)
      as [sm|]; [|reflexivity].
    cbn [option_map]. rewrite <- app_assoc, calls_ops_refines.
    rewrite (calls_ops_reclusters files _ Tail). reflexivity.
  - cbn [app]. rewrite Tail. cbn [option_map]. reflexivity.
Qed.

(* the command, when it completes, leaves the estimator in the state of the API script *)
Theorem cli_run_is_api_run o files perms st :
  cli_run o files perms = Some st ->
  exists cfg0, api_cfg0 o = Some cfg0 /\ plan_config fexp o <> None /\
               st = run fexp cfg0 (api_ops o files perms).
Proof.
  unfold cli_run. rewrite plan_ops_closed.
  destruct (plan_config fexp o) as [cf'|]; [|discriminate].
  destruct (api_cfg0 o) as [cf|]; [|discriminate].
  intros H. exists cf. split; [reflexivity|]. split; [discriminate|].
  apply run_checked_run_from in H. exact H.
Qed.

(* ====================================================================== *)
(* 3. frame facts of the operations (structural: no invariant needed)      *)
(* ====================================================================== *)

Lemma insert_st_frame cf st s dn :
  let st' := insert_st fexp cf st s dn in
  nfeat st' = nfeat st /\ released st' = released st /\
  (root st <> None -> root st' <> None /\ nfit st' = nfit st + dn).
Proof.
  cbv zeta. unfold insert_st. destruct (root st) as [r|].
  - destruct (insert_root fexp (nfeat st) (c_crit cf) (c_thr cf) (c_bf cf) r s (sax st))
      as [r' ax'].
    cbn [nfeat released root nfit]. repeat split. discriminate.
  - repeat split; congruence.
Qed.

Lemma fit_rows_some cf : forall (rows : list fpv) st labs,
  length labs = length rows -> root st <> None ->
  exists st', fit_rows fexp cf st (map Some rows) labs = (st', Ok) /\
    nfit st' = nfit st + zlen rows /\ nfeat st' = nfeat st /\ root st' <> None /\
    released st' = released st.
Proof.
  induction rows as [|fp rows IH]; intros st labs Hl Hr.
  - exists st. cbn [map fit_rows]. rewrite cr_zlen_nil. repeat split; auto; lia.
  - destruct labs as [|l labs]; [discriminate Hl|]. injection Hl as Hl.
    cbn [map fit_rows].
    destruct (insert_st_frame cf st (singleton fp l) 1) as (A & B & C).
    destruct (C Hr) as (C1 & C2).
    destruct (IH _ labs Hl C1) as (st' & F & N1 & N2 & N3 & N4).
    exists st'. rewrite F. rewrite zlen_cons.
    repeat split; try congruence. lia.
Qed.

(* one fit of a file whose rows all decode and have [nf] bits *)
Lemma do_fit_some nf st (rows : list fpv) :
  released st = false -> init_for nf st -> Forall (fun fp : fpv => length fp = nf) rows ->
  let r := do_fit fexp st (map Some rows) None in
  nfit (fst r) = nfit st + zlen rows /\ released (fst r) = false /\ init_for nf (fst r) /\
  (rows <> [] -> snd r = Ok).
Proof.
  intros Hrel Hi Hrows. cbv zeta. destruct rows as [|fp rows].
  - cbn [map do_fit fst snd]. rewrite cr_zlen_nil.
    repeat split; auto; [lia|congruence].
  - unfold do_fit. cbn [map]. rewrite Hrel.
    set (st1 := if is_init st then st else initialize st (length fp)).
    assert (H1 : root st1 <> None /\ nfit st1 = nfit st /\ nfeat st1 = nf /\ released st1 = false).
    { unfold st1, is_init. destruct (root st) as [r|] eqn:E.
      - destruct Hi as [Hi|(_ & Hi)]; [congruence|]. rewrite E. repeat split; auto. discriminate.
      - cbn [initialize root nfit nfeat released]. inversion Hrows; subst.
        repeat split; auto. discriminate. }
    destruct H1 as (R1 & R2 & R3 & R4).
    change (Some fp :: map Some rows) with (map (@Some fpv) (fp :: rows)).
    destruct (fit_rows_some (cfg st1) (fp :: rows) st1
                (zseq (nfit st1) (length (map (@Some fpv) (fp :: rows)))))
      as (st' & F & N1 & N2 & N3 & N4).
    { now rewrite zseq_length, map_length. }
    { exact R1. }
    rewrite F. cbn [fst snd]. repeat split.
    + lia.
    + congruence.
    + right. split; [exact N3|congruence].
Qed.

Lemma fit_bufs_frame cf w g : forall st,
  let st' := fst (fit_bufs fexp cf st w g) in
  nfeat st' = nfeat st /\ released st' = released st /\ (root st <> None -> root st' <> None).
Proof.
  induction g as [|b g IH]; intros st; cbv zeta; cbn [fit_bufs].
  - cbn [fst]. auto.
  - destruct (zlen (sids b) =? sn b); [|cbn [fst]; auto].
    destruct (insert_st_frame cf st (sub_of_buffer w (sls b) (sn b) (sids b)) (zlen (sids b)))
      as (A & B & C).
    specialize (IH (insert_st fexp cf st (sub_of_buffer w (sls b) (sn b) (sids b))
                              (zlen (sids b)))).
    cbv zeta in IH. destruct IH as (I1 & I2 & I3).
    repeat split; try congruence. intros H. apply I3. apply C. exact H.
Qed.

Lemma do_fit_buffers_frame nf w g st :
  Forall (fun b => length (sls b) = nf) g -> init_for nf st -> released st = false ->
  let st' := fst (do_fit_buffers fexp st w g) in init_for nf st' /\ released st' = false.
Proof.
  intros Hg Hi Hrel. cbv zeta. unfold do_fit_buffers.
  destruct g as [|b0 g]; [cbn [fst]; auto|]. rewrite Hrel.
  set (st1 := if is_init st then st else initialize st (length (sls b0))).
  assert (H1 : root st1 <> None /\ nfeat st1 = nf /\ released st1 = false).
  { unfold st1, is_init. destruct (root st) as [r|] eqn:E.
    - destruct Hi as [Hi|(_ & Hi)]; [congruence|]. rewrite E. repeat split; auto. discriminate.
    - cbn [initialize root nfeat released]. repeat split; [discriminate|].
      exact (Forall_inv Hg). }
  destruct H1 as (R1 & R2 & R3).
  destruct (fit_bufs_frame (cfg st1) w (b0 :: g) st1) as (F1 & F2 & F3).
  split; [right; split; [apply F3, R1|congruence]|congruence].
Qed.

Lemma fit_groups_frame nf gs : forall st,
  Forall (fun b => length (sls b) = nf) (gsubs gs) -> init_for nf st -> released st = false ->
  let st' := fst (fit_groups fexp st gs) in init_for nf st' /\ released st' = false.
Proof.
  induction gs as [|[w g] gs IH]; intros st Hg Hi Hrel; cbv zeta; cbn [fit_groups].
  - cbn [fst]. auto.
  - unfold gsubs in Hg. cbn [map snd concat] in Hg. apply Forall_app in Hg.
    destruct Hg as [Hg1 Hg2].
    pose proof (do_fit_buffers_frame nf w g st Hg1 Hi Hrel) as AB. cbv zeta in AB.
    destruct (do_fit_buffers fexp st w g) as [st1 [|]]; cbn [fst] in AB; destruct AB as (A & B).
    + apply IH; assumption.
    + cbn [fst]. auto.
Qed.

Lemma good_sub_len nf l :
  Forall (good_sub nf) l -> Forall (fun b => length (sls b) = nf) l.
Proof. apply Forall_impl. intros b ((H & _) & _). exact H. Qed.

(* the groups a refinement re-inserts are made of well-formed sub-clusters *)
Lemma refine_groups_good st1 (X : list fpv) im nl gs :
  st_inv st1 -> Forall (fun fp : fpv => length fp = nfeat st1) X ->
  refine_groups st1 X im nl = Some gs ->
  Forall (good_sub (nfeat st1)) (gsubs gs).
Proof.
  intros Hinv HX Hrg. pose proof (sorted_leaves_good st1 Hinv) as Hgood.
  unfold refine_groups in Hrg. destruct (nl =? 0).
  - injection Hrg as <-.
    apply (Forall_perm _ (sorted_leaves st1)); [symmetry; apply prepare_groups_perm|exact Hgood].
  - destruct (nl <? 1); [discriminate|].
    remember (Z.to_nat nl) as k eqn:Ek. remember (sorted_leaves st1) as bfs eqn:Ebfs.
    destruct (firstn k bfs) as [|l0 lt] eqn:El; [discriminate|]. rewrite <- El in Hrg.
    destruct (explode_all X im (firstn k bfs)) as [singles|] eqn:Ex; [|discriminate].
    injection Hrg as <-.
    destruct (firstn_skipn_Forall _ k bfs Hgood) as (G1 & G2).
    assert (HC : Forall cnt_ok (firstn k bfs)).
    { eapply Forall_impl; [|exact G1]. cbv beta. intros a (_ & _ & Hq). exact Hq. }
    destruct (explode_all_spec (nfeat st1) X im _ singles HX HC Ex) as (S1 & _ & _).
    assert (SG : Forall (good_sub (nfeat st1)) singles).
    { eapply Forall_impl; [|exact S1]. cbv beta. tauto. }
    pose proof (fold_group_add_perm (fun _ => W8) singles (prepare_groups (skipn k bfs))) as PF.
    cbv beta in PF.
    apply (Forall_perm _ (skipn k bfs ++ singles)).
    + symmetry. etransitivity; [exact PF|]. apply Permutation_app_tail, prepare_groups_perm.
    + apply Forall_app. split; assumption.
Qed.

Lemma do_refine_frame nf st X im nl :
  st_inv st -> init_for nf st -> Forall (fun fp : fpv => length fp = nfeat st) X ->
  init_for nf (fst (do_refine fexp st X im nl)).
Proof.
  intros Hinv Hi HX. unfold do_refine, is_init.
  destruct (root st) as [r|] eqn:Er; cbn [negb]; [|cbn [fst]; exact Hi].
  assert (Enf : nfeat st = nf) by (destruct Hi as [Hi|(_ & Hi)]; congruence).
  destruct (delete_internal_spec st Hinv) as (D1 & _ & D3 & _ & _ & D6 & _).
  destruct (delete_internal st) as [st1 o]. cbn [fst snd] in *.
  assert (Hi1 : init_for nf st1).
  { right. split; congruence. }
  destruct o; [|exact Hi1].
  destruct (refine_groups st1 X im nl) as [gs|] eqn:Eg; [|exact Hi1].
  rewrite <- D6 in HX.
  pose proof (refine_groups_good st1 X im nl gs D1 HX Eg) as G.
  apply good_sub_len in G. rewrite D6, Enf in G.
  apply (fit_groups_frame nf gs (reset_st st1) G); [left; reflexivity|reflexivity].
Qed.

Lemma do_recluster1_frame nf st ex ps se :
  st_inv st -> init_for nf st -> init_for nf (fst (do_recluster fexp st 1 ex ps se)).
Proof.
  intros Hinv Hi. unfold do_recluster, is_init.
  destruct (root st) as [r|] eqn:Er; cbn [negb]; [|cbn [fst]; exact Hi].
  assert (Enf : nfeat st = nf) by (destruct Hi as [Hi|(_ & Hi)]; congruence).
  cbn [recluster_loop].
  destruct (se && _); [cbn [fst]; exact Hi|].
  pose proof (good_sub_len _ _ (sorted_leaves_good st Hinv)) as G. rewrite Enf in G.
  assert (K : forall bfs', incl bfs' (sorted_leaves st) ->
            init_for nf (fst (fit_groups fexp (set_thr (reset_st st) (c_thr (cfg st) + ex)%float)
                                         (prepare_groups bfs')))).
  { intros bfs' Hin. apply fit_groups_frame; [|left; reflexivity|reflexivity].
    apply Forall_forall. intros b Hb.
    apply (Permutation_in _ (prepare_groups_perm bfs')) in Hb.
    rewrite Forall_forall in G. apply G, Hin, Hb. }
  destruct ps as [|p ps].
  - specialize (K (sorted_leaves st) (incl_refl _)).
    destruct (fit_groups fexp _ (prepare_groups (sorted_leaves st))) as [st2 [|]];
      cbn [fst] in *; exact K.
  - specialize (K (permute (sorted_leaves st) p)
                  (fun x Hx => cr_permute_In _ _ _ Hx)).
    destruct (fit_groups fexp _ (prepare_groups (permute (sorted_leaves st) p))) as [st2 [|]];
      cbn [fst] in *; exact K.
Qed.

(* ====================================================================== *)
(* 4. the history of the command is a documented history                   *)
(* ====================================================================== *)

(* what is carried along the run: the estimator invariants, the data map, the width of the
   tree (when there is one) and the number of fitted rows *)
Definition tracked (nf : nat) (D : Z -> fpv) (N : Z) (st : state) : Prop :=
  st_inv st /\ nf_ok st /\ numbered st /\ leaves_data D st /\ init_for nf st /\ nfit st = N.

Definition seg_ok (D : Z -> fpv) (st : state) (ops : list op) : Prop :=
  ops_wf fexp st ops /\ ops_perms_ok fexp st ops /\ ops_data_strong fexp D st ops.

Lemma seg_nil D st : seg_ok D st [].
Proof. repeat split. Qed.

Lemma seg_cons D st o ops :
  op_wf st o -> op_perms_ok fexp st o -> op_data D st o ->
  seg_ok D (fst (step fexp st o)) ops -> seg_ok D st (o :: ops).
Proof.
  intros A B C (S1 & S2 & S3). unfold seg_ok. cbn [ops_wf ops_perms_ok ops_data_strong]. auto.
Qed.

Lemma seg_app D a : forall st b,
  seg_ok D st a -> seg_ok D (run_from fexp st a) b -> seg_ok D st (a ++ b).
Proof.
  induction a as [|o a IH]; intros st b Ha Hb; [exact Hb|].
  destruct Ha as (A1 & A2 & A3).
  cbn [ops_wf ops_perms_ok ops_data_strong] in A1, A2, A3.
  cbn [app]. apply seg_cons; try tauto.
  apply IH; [unfold seg_ok; tauto|]. rewrite run_from_cons in Hb. exact Hb.
Qed.

Lemma run_from_app a b st : run_from fexp st (a ++ b) = run_from fexp (run_from fexp st a) b.
Proof. unfold run_from. apply fold_left_app. Qed.

Lemma tracked_step nf D N N' st o :
  tracked nf D N st -> op_wf st o -> op_perms_ok fexp st o -> op_data D st o ->
  init_for nf (fst (step fexp st o)) -> nfit (fst (step fexp st o)) = N' ->
  tracked nf D N' (fst (step fexp st o)).
Proof.
  intros (T1 & T2 & T3 & T4 & _ & _) Hwf Hp Hd Hi Hn.
  destruct (step_inv_alt fexp st o T1 T2 T3 Hwf Hp) as (A & B & C).
  pose proof (step_data_strong fexp D st o T1 T2 T3 Hwf Hp T4 Hd) as E.
  unfold tracked. auto 10.
Qed.

Lemma rows_ok_some nf (rows : list fpv) :
  Forall (fun fp : fpv => length fp = nf) rows -> Forall (row_ok nf) (map Some rows).
Proof. intros H. apply Forall_map. eapply Forall_impl; [|exact H]. intros fp E. exact E. Qed.

(* ---- the fits ---- *)
Lemma fits_seg nf D : Z.of_nat nf < 2 ^ 52 -> forall fs st N,
  tracked nf D N st -> released st = false ->
  Forall (Forall (fun fp : fpv => length fp = nf)) fs ->
  N + zlen (concat fs) < 2 ^ 64 ->
  (forall k fp, nth_error (concat fs) k = Some fp -> D (N + Z.of_nat k) = fp) ->
  seg_ok D st (fit_ops fs) /\
  tracked nf D (N + zlen (concat fs)) (run_from fexp st (fit_ops fs)) /\
  released (run_from fexp st (fit_ops fs)) = false /\
  (Forall (fun f => f <> []) fs -> run_checked st (fit_ops fs) <> None).
Proof.
  intros Hnf. induction fs as [|rows fs IH]; intros st N HT Hrel Hfs Hb HD.
  - cbn [fit_ops map concat]. rewrite cr_zlen_nil, Z.add_0_r.
    split; [apply seg_nil|]. split; [exact HT|]. split; [exact Hrel|].
    intros _. cbn [run_checked]. discriminate.
  - inversion Hfs as [|? ? Hrows Hfs']; subst. cbn [concat] in *.
    rewrite cr_zlen_app in *. pose proof (zlen_nonneg (concat fs)) as Z1.
    pose proof (zlen_nonneg rows) as Z2.
    pose proof HT as (T1 & T2 & T3 & T4 & T5 & T6).
    set (o := OFit (map Some rows) None).
    assert (Hwf : op_wf st o).
    { cbn [op_wf o]. split; [reflexivity|]. split.
      - destruct (root st) as [r|] eqn:Er.
        + destruct T5 as [T5|(_ & T5)]; [congruence|]. rewrite T5. apply rows_ok_some, Hrows.
        + destruct rows as [|fp rows']; cbn [map]; [exact I|].
          pose proof (Forall_inv Hrows) as Efp. cbv beta in Efp. rewrite Efp.
          split; [apply (rows_ok_some nf (fp :: rows')), Hrows|exact Hnf].
      - rewrite cr_zlen_map. lia. }
    assert (Hd : op_data D st o).
    { cbn [op_data o]. intros k fp Hk. rewrite nth_error_map in Hk.
      destruct (nth_error rows k) as [fp'|] eqn:Ek; [|discriminate Hk].
      cbn [option_map] in Hk. injection Hk as ->. rewrite T6. apply HD.
      rewrite nth_error_app1; [exact Ek|]. apply nth_error_Some. congruence. }
    destruct (do_fit_some nf st rows Hrel T5 Hrows) as (F1 & F2 & F3 & F4).
    assert (HT' : tracked nf D (N + zlen rows) (fst (step fexp st o))).
    { apply (tracked_step nf D N _ st o HT Hwf I Hd); [exact F3|]. cbn [step o]. lia. }
    destruct (IH (fst (step fexp st o)) (N + zlen rows) HT' F2 Hfs' ltac:(lia))
      as (S1 & S2 & S3 & S4).
    { intros k fp Hk. replace (N + zlen rows + Z.of_nat k) with (N + Z.of_nat (length rows + k))
        by (unfold zlen; lia).
      apply HD. rewrite nth_error_app2 by lia.
      replace (length rows + k - length rows)%nat with k by lia. exact Hk. }
    change (fit_ops (rows :: fs)) with (o :: fit_ops fs). rewrite run_from_cons.
    rewrite Z.add_assoc. split; [|split; [assumption|split; [assumption|]]].
    + apply seg_cons; auto. exact I.
    + intros Hne. inversion Hne as [|? ? Hr0 Hne']; subst.
      rewrite run_checked_cons_ok; [apply S4, Hne'|]. cbn [step o]. apply F4, Hr0.
Qed.

(* ---- set_merge ---- *)
Lemma setcfg_seg nf D N st c t :
  tracked nf D N st ->
  seg_ok D st [OSetCfg (Some c) (Some t) None] /\
  tracked nf D N (run_from fexp st [OSetCfg (Some c) (Some t) None]).
Proof.
  intros HT. pose proof HT as (_ & _ & _ & _ & T5 & T6).
  assert (HT' : tracked nf D N (fst (step fexp st (OSetCfg (Some c) (Some t) None)))).
  { apply (tracked_step nf D N N st _ HT); try exact I.
    - unfold init_for. cbn [step fst root nfeat]. exact T5.
    - cbn [step fst nfit]. exact T6. }
  split; [|exact HT'].
  apply seg_cons; try exact I. apply seg_nil.
Qed.

(* ---- the refinement rounds ---- *)
Lemma refine_step nf D (X : list fpv) n st N :
  tracked nf D N st -> Forall (fun fp : fpv => length fp = nf) X -> N = zlen X ->
  (forall i, 0 <= i < N -> nth_error X (Z.to_nat i) = Some (D i)) ->
  op_wf st (ORefine X 0 n) /\ op_data D st (ORefine X 0 n) /\
  tracked nf D N (fst (step fexp st (ORefine X 0 n))).
Proof.
  intros HT HX HN HD. pose proof HT as (T1 & T2 & T3 & T4 & T5 & T6).
  assert (Hwf : op_wf st (ORefine X 0 n)).
  { cbn [op_wf]. destruct (root st) as [r|] eqn:Er.
    - destruct T5 as [T5|(_ & T5)]; [congruence|]. rewrite T5. exact HX.
    - destruct T1 as (_ & T1). rewrite Er in T1. destruct T1 as (T1 & _).
      assert (E0 : zlen X = 0) by congruence.
      destruct X; [constructor|]. rewrite zlen_cons in E0. pose proof (zlen_nonneg X). lia. }
  assert (Hd : op_data D st (ORefine X 0 n)).
  { cbn [op_data]. intros i Hi. apply (Permutation_in _ T3) in Hi. apply In_zseq in Hi.
    pose proof (zlen_nonneg X) as Z1.
    rewrite T6 in Hi. rewrite Z2Nat.id in Hi by lia.
    unfold py_nth. rewrite Z.sub_0_r.
    replace ((0 <=? i) && (i <? zlen X)) with true
      by (symmetry; apply andb_true_intro; split; [apply Z.leb_le|apply Z.ltb_lt]; lia).
    apply HD. lia. }
  refine (conj Hwf (conj Hd _)).
  apply (tracked_step nf D N N st _ HT Hwf I Hd).
  - cbn [step]. apply do_refine_frame; assumption.
  - cbn [step].
    destruct (do_refine_labels fexp st X 0 n T1 (op_wf_op_wf_l _ _ Hwf)) as (_ & _ & E & _).
    congruence.
Qed.

Lemma refines_seg nf D (X : list fpv) n :
  Forall (fun fp : fpv => length fp = nf) X -> forall k st N,
  tracked nf D N st -> N = zlen X ->
  (forall i, 0 <= i < N -> nth_error X (Z.to_nat i) = Some (D i)) ->
  seg_ok D st (repeat (ORefine X 0 n) k) /\
  tracked nf D N (run_from fexp st (repeat (ORefine X 0 n) k)).
Proof.
  intros HX. induction k as [|k IH]; intros st N HT HN HD; cbn [repeat].
  - split; [apply seg_nil|exact HT].
  - destruct (refine_step nf D X n st N HT HX HN HD) as (A & B & C).
    destruct (IH _ N C HN HD) as (S1 & S2).
    rewrite run_from_cons. split; [|exact S2]. apply seg_cons; auto. exact I.
Qed.

(* ---- the re-clustering rounds ---- *)
(* the shuffle of each round is a permutation of the positions of the clusters reported when
   the round starts (the only thing ops_perms_ok asks of this history) *)
Fixpoint recl_perms_ok (st : state) (k : nat) (perms : list (list nat)) : Prop :=
  match k with
  | O => True
  | S k' =>
      match perms with
      | [] => True
      | p :: ps =>
          is_perm_of_len (length (clusters st)) p /\
          recl_perms_ok (fst (step fexp st (ORecluster 1 0 [p] false))) k' ps
      end
  end.

Lemma recl_perms_ok_nil st k : recl_perms_ok st k [].
Proof. destruct k; exact I. Qed.

Lemma recluster_step nf D N st ps :
  tracked nf D N st -> op_perms_ok fexp st (ORecluster 1 0 ps false) ->
  tracked nf D N (fst (step fexp st (ORecluster 1 0 ps false))).
Proof.
  intros HT Hp. pose proof HT as (T1 & _ & _ & _ & T5 & T6).
  apply (tracked_step nf D N N st (ORecluster 1 0 ps false) HT I Hp I).
  - cbn [step]. apply do_recluster1_frame; assumption.
  - cbn [step]. destruct (do_recluster_labels fexp st 1 0 ps false T1 Hp) as (_ & _ & E & _).
    congruence.
Qed.

Lemma reclusters_seg nf D : forall k perms st N,
  tracked nf D N st -> recl_perms_ok st k perms ->
  seg_ok D st (recluster_ops k perms) /\
  tracked nf D N (run_from fexp st (recluster_ops k perms)).
Proof.
  induction k as [|k IH]; intros perms st N HT HP; cbn [recluster_ops].
  - split; [apply seg_nil|exact HT].
  - destruct perms as [|p ps].
    + assert (Hp : op_perms_ok fexp st (ORecluster 1 0 [] false)) by apply perms_fit_nil.
      pose proof (recluster_step nf D N st [] HT Hp) as HT'.
      destruct (IH [] _ N HT' (recl_perms_ok_nil _ _)) as (S1 & S2).
      rewrite run_from_cons. split; [|exact S2]. apply seg_cons; auto; exact I.
    + cbn [recl_perms_ok] in HP. destruct HP as (P1 & P2).
      assert (Hp : op_perms_ok fexp st (ORecluster 1 0 [p] false)).
      { cbn [op_perms_ok]. unfold recluster_perms_ok. cbn [perms_fit andb]. split.
        - unfold clusters in P1. rewrite map_length in P1. exact P1.
        - destruct (fit_groups fexp _ _) as [st2 [|]]; exact I. }
      pose proof (recluster_step nf D N st [p] HT Hp) as HT'.
      destruct (IH ps _ N HT' P2) as (S1 & S2).
      rewrite run_from_cons. split; [|exact S2]. apply seg_cons; auto; exact I.
Qed.

(* ---- the rounds do not abort ---- *)
Lemma tracked_root nf D N st : tracked nf D N st -> 0 < N -> root st <> None.
Proof.
  intros ((_ & T1) & _ & _ & _ & _ & T6) HN E. rewrite E in T1. lia.
Qed.

Lemma explode_total (X : list fpv) ids :
  (forall i, In i ids -> 0 <= i < zlen X) -> exists r, explode X 0 ids = Some r.
Proof.
  induction ids as [|i ids IH]; intros H; cbn [explode]; [eauto|].
  destruct IH as (r & ->); [intros j Hj; apply H; now right|].
  assert (Hi : 0 <= i < zlen X) by (apply H; now left).
  unfold py_nth. rewrite Z.sub_0_r.
  replace ((0 <=? i) && (i <? zlen X)) with true
    by (symmetry; apply andb_true_intro; split; [apply Z.leb_le|apply Z.ltb_lt]; lia).
  destruct (nth_error X (Z.to_nat i)) as [fp|] eqn:E; [eauto|].
  apply nth_error_None in E. unfold zlen in Hi. lia.
Qed.

Lemma explode_all_total (X : list fpv) bfs :
  (forall b i, In b bfs -> In i (sids b) -> 0 <= i < zlen X) ->
  exists r, explode_all X 0 bfs = Some r.
Proof.
  induction bfs as [|b bfs IH]; intros H; cbn [explode_all]; [eauto|].
  destruct IH as (r & ->); [intros b' i Hb Hi; apply (H b' i); [now right|exact Hi]|].
  destruct (explode_total X (sids b)) as (a & ->); [intros i Hi; apply (H b i); [now left|exact Hi]|].
  eauto.
Qed.

Lemma refine_groups_total st1 (X : list fpv) n :
  st_inv st1 -> numbered st1 -> 0 < nfit st1 -> nfit st1 = zlen X -> 1 <= n ->
  exists gs, refine_groups st1 X 0 n = Some gs.
Proof.
  intros Hinv Hnum Hpos HN Hn. unfold refine_groups.
  replace (n =? 0) with false by (symmetry; apply Z.eqb_neq; lia).
  replace (n <? 1) with false by (symmetry; apply Z.ltb_ge; lia).
  pose proof (sorted_leaves_tot st1 Hinv) as Htot.
  pose proof (sorted_leaves_ids st1 Hinv) as Hids.
  remember (sorted_leaves st1) as bfs eqn:Ebfs.
  destruct bfs as [|b0 bfs']; [cbn in Htot; lia|].
  destruct (Z.to_nat n) as [|k] eqn:Ek; [lia|].
  destruct (explode_all_total X (firstn (S k) (b0 :: bfs'))) as (r & Er).
  { intros b i Hb Hi.
    assert (Hb' : In b (b0 :: bfs')).
    { rewrite <- (firstn_skipn (S k) (b0 :: bfs')). apply in_or_app. now left. }
    assert (Hi' : In i (concat (map sids (b0 :: bfs')))).
    { apply in_concat. exists (sids b). split; [apply in_map, Hb'|exact Hi]. }
    apply (Permutation_in _ Hids) in Hi'. apply (Permutation_in _ Hnum) in Hi'.
    apply In_zseq in Hi'. lia. }
  rewrite Er. cbn [firstn]. eauto.
Qed.

Lemma do_refine_ok nf D N st (X : list fpv) n :
  tracked nf D N st -> released st = false -> 0 < N -> N = zlen X -> 1 <= n ->
  Forall (fun fp : fpv => length fp = nf) X ->
  snd (step fexp st (ORefine X 0 n)) = Ok /\ released (fst (step fexp st (ORefine X 0 n))) = false.
Proof.
  intros HT Hrel HN0 HN Hn HX. pose proof (tracked_root nf D N st HT HN0) as Hr.
  destruct HT as (T1 & T2 & T3 & T4 & T5 & T6).
  assert (Enf : nfeat st = nf) by (destruct T5 as [T5|(_ & T5)]; congruence).
  cbn [step]. unfold do_refine, is_init.
  destruct (root st) as [r|] eqn:Er; [|congruence]. cbn [negb].
  assert (Hok : snd (delete_internal st) = Ok).
  { unfold delete_internal. rewrite Er, Hrel. destruct r; reflexivity. }
  destruct (delete_internal_spec st T1) as (D1 & _ & D3 & D4 & D5 & D6 & _).
  destruct (delete_internal st) as [st1 out]. cbn [fst snd] in *. subst out.
  destruct (same_tree_views st st1 D3 D4 D5) as (_ & _ & _ & V4).
  destruct (refine_groups_total st1 X n D1 (V4 T3) ltac:(lia) ltac:(congruence) Hn) as (gs & Eg).
  rewrite Eg.
  assert (Hr1 : root st1 <> None) by congruence.
  assert (HX1 : Forall (fun fp : fpv => length fp = nfeat st1) X) by (rewrite D6, Enf; exact HX).
  destruct (refine_core fexp st1 X 0 n gs D1 Hr1 (V4 T3) HX1 Eg) as (st' & F & _).
  pose proof (refine_groups_good st1 X 0 n gs D1 HX1 Eg) as G. apply good_sub_len in G.
  pose proof (fit_groups_frame (nfeat st1) gs (reset_st st1) G (or_introl eq_refl) eq_refl) as FR.
  cbv zeta in FR. rewrite F in *. cbn [fst snd] in *. split; [reflexivity|exact (proj2 FR)].
Qed.

Lemma do_recluster_ok nf D N st ps :
  tracked nf D N st -> 0 < N -> op_perms_ok fexp st (ORecluster 1 0 ps false) ->
  snd (step fexp st (ORecluster 1 0 ps false)) = Ok /\
  released (fst (step fexp st (ORecluster 1 0 ps false))) = false.
Proof.
  intros HT HN0 Hp. pose proof (tracked_root nf D N st HT HN0) as Hr.
  destruct HT as (T1 & T2 & T3 & _).
  cbn [step]. unfold do_recluster, is_init.
  destruct (root st) as [r|] eqn:Er; [|congruence]. cbn [negb recluster_loop andb].
  cbn [op_perms_ok] in Hp. unfold recluster_perms_ok in Hp. cbn [perms_fit andb] in Hp.
  destruct ps as [|p ps'].
  - destruct (rebuild_leaves fexp st (c_thr (cfg st) + 0)%float (sorted_leaves st) T1 T2 T3
                             (Permutation_refl _)) as (st2 & F & _ & _ & _ & K4 & _).
    rewrite F. cbn [fst snd]. auto.
  - destruct Hp as (Hp & _).
    destruct (rebuild_leaves fexp st (c_thr (cfg st) + 0)%float (permute (sorted_leaves st) p)
                             T1 T2 T3 (permute_perm _ _ Hp)) as (st2 & F & _ & _ & _ & K4 & _).
    rewrite F. cbn [fst snd]. auto.
Qed.

Lemma refines_checked nf D (X : list fpv) n :
  Forall (fun fp : fpv => length fp = nf) X -> forall k st N,
  tracked nf D N st -> N = zlen X ->
  (forall i, 0 <= i < N -> nth_error X (Z.to_nat i) = Some (D i)) ->
  released st = false -> 0 < N -> ((0 < k)%nat -> 1 <= n) ->
  run_checked st (repeat (ORefine X 0 n) k) <> None /\
  released (run_from fexp st (repeat (ORefine X 0 n) k)) = false.
Proof.
  intros HX. induction k as [|k IH]; intros st N HT HN HD Hrel HN0 Hn; cbn [repeat].
  - split; [cbn [run_checked]; discriminate|exact Hrel].
  - destruct (refine_step nf D X n st N HT HX HN HD) as (_ & _ & C).
    destruct (do_refine_ok nf D N st X n HT Hrel HN0 HN (Hn ltac:(lia)) HX) as (O1 & O2).
    rewrite run_checked_cons_ok by exact O1. rewrite run_from_cons.
    apply (IH _ N C HN HD O2 HN0). intros _. apply Hn. lia.
Qed.

Lemma reclusters_checked nf D : forall k perms st N,
  tracked nf D N st -> recl_perms_ok st k perms -> 0 < N ->
  run_checked st (recluster_ops k perms) <> None.
Proof.
  induction k as [|k IH]; intros perms st N HT HP HN0; cbn [recluster_ops].
  - cbn [run_checked]. discriminate.
  - destruct perms as [|p ps].
    + assert (Hp : op_perms_ok fexp st (ORecluster 1 0 [] false)) by apply perms_fit_nil.
      pose proof (recluster_step nf D N st [] HT Hp) as HT'.
      destruct (do_recluster_ok nf D N st [] HT HN0 Hp) as (O1 & _).
      rewrite run_checked_cons_ok by exact O1.
      apply (IH [] _ N HT' (recl_perms_ok_nil _ _) HN0).
    + cbn [recl_perms_ok] in HP. destruct HP as (P1 & P2).
      assert (Hp : op_perms_ok fexp st (ORecluster 1 0 [p] false)).
      { cbn [op_perms_ok]. unfold recluster_perms_ok. cbn [perms_fit andb]. split.
        - unfold clusters in P1. rewrite map_length in P1. exact P1.
        - destruct (fit_groups fexp _ _) as [st2 [|]]; exact I. }
      pose proof (recluster_step nf D N st [p] HT Hp) as HT'.
      destruct (do_recluster_ok nf D N st [p] HT HN0 Hp) as (O1 & _).
      rewrite run_checked_cons_ok by exact O1.
      apply (IH ps _ N HT' P2 HN0).
Qed.

(* ---- the whole script ---- *)
(* hypotheses on the inputs: rows of one width below 2^52, fewer than 2^64 rows *)
Definition files_ok (nf : nat) (files : list (list fpv)) : Prop :=
  Z.of_nat nf < 2 ^ 52 /\
  Forall (Forall (fun fp : fpv => length fp = nf)) files /\
  zlen (concat files) < 2 ^ 64.

(* hypothesis on the shuffles *)
Definition cli_perms_ok (o : run_opts) (files : list (list fpv)) (perms : list (list nat)) : Prop :=
  match api_cfg0 o with
  | Some cfg0 => recl_perms_ok (run fexp cfg0 (api_ops_pre o files))
                               (Z.to_nat (ro_recluster_rounds o)) perms
  | None => True
  end.

Lemma cli_perms_ok_noshuffle o files : cli_perms_ok o files [].
Proof. unfold cli_perms_ok. destruct (api_cfg0 o); [apply recl_perms_ok_nil|exact I]. Qed.

Lemma file_data_nth files k fp :
  nth_error (concat files) k = Some fp -> file_data files (0 + Z.of_nat k) = fp.
Proof.
  intros H. unfold file_data. rewrite Z.add_0_l, Nat2Z.id. apply nth_error_nth. exact H.
Qed.

Lemma api_cfg0_bf o cfg0 : api_cfg0 o = Some cfg0 -> c_bf cfg0 = ro_bf o.
Proof.
  unfold api_cfg0, ctor. destruct (get_merge_accept_fn fexp (ro_merge o) _); [|discriminate].
  intros E. injection E as <-. reflexivity.
Qed.

Lemma norm_refine_num_pos num rr :
  0 <= num -> 0 < snd (norm_refine num rr) -> 1 <= fst (norm_refine num rr).
Proof.
  intros Hn. unfold norm_refine. cbv zeta. cbn [fst snd].
  set (r' := match rr with Some r => r | None => if 0 <? num then 1 else 0 end).
  intros Hr. destruct (Z.ltb_spec 0 r'); [|lia].
  destruct (Z.eqb_spec num 0); cbn [andb]; lia.
Qed.

Lemma set_merge_ops_checked st nm tol thr :
  released (run_from fexp st (set_merge_ops nm tol thr)) = released st /\
  run_checked st (set_merge_ops nm tol thr) = Some (run_from fexp st (set_merge_ops nm tol thr)).
Proof.
  unfold set_merge_ops, set_merge_op. destruct (get_merge_accept_fn fexp nm tol); split; reflexivity.
Qed.

Lemma nonempty_files_rows (files : list (list fpv)) :
  files <> [] -> Forall (fun f : list fpv => f <> []) files -> 0 < zlen (concat files).
Proof.
  intros H1 H2. destruct files as [|f fs]; [congruence|].
  pose proof (Forall_inv H2) as Hf. cbv beta in Hf. destruct f as [|fp f]; [congruence|].
  cbn [concat app]. rewrite zlen_cons. pose proof (zlen_nonneg (f ++ concat fs)). lia.
Qed.

Theorem api_history_ok nf o files perms cfg0 :
  api_cfg0 o = Some cfg0 -> 2 <= ro_bf o -> files_ok nf files -> cli_perms_ok o files perms ->
  let ops := api_ops o files perms in
  let D := file_data files in
  ops_wf fexp (init cfg0) ops /\ ops_perms_ok fexp (init cfg0) ops /\
  ops_data_strong fexp D (init cfg0) ops /\
  tracked nf D (zlen (concat files)) (run fexp cfg0 ops) /\
  (files <> [] -> Forall (fun f : list fpv => f <> []) files -> 0 <= ro_refine_num o ->
   run_checked (init cfg0) ops <> None).
Proof.
  intros Hc Hbf (Hnf & Hfiles & Hb) HP. cbv zeta.
  set (D := file_data files). set (X := concat files).
  assert (Hbf0 : 2 <= c_bf cfg0) by (rewrite (api_cfg0_bf o cfg0 Hc); exact Hbf).
  destruct (init_inv cfg0 Hbf0) as (I1 & I2 & I3).
  assert (HT0 : tracked nf D 0 (init cfg0)).
  { unfold tracked. refine (conj I1 (conj I2 (conj I3 (conj _ (conj _ eq_refl))))).
    - apply leaves_data_none. reflexivity.
    - left. reflexivity. }
  destruct (fits_seg nf D Hnf files (init cfg0) 0 HT0 eq_refl Hfiles ltac:(lia))
    as (F1 & F2 & F3 & F4).
  { intros k fp Hk. apply file_data_nth, Hk. }
  rewrite Z.add_0_l in F2. fold X in F2.
  assert (HX : Forall (fun fp : fpv => length fp = nf) X).
  { apply Forall_forall. intros fp Hfp. apply in_concat in Hfp. destruct Hfp as (l & Hl & Hfp).
    rewrite Forall_forall in Hfiles. specialize (Hfiles l Hl). rewrite Forall_forall in Hfiles.
    apply Hfiles, Hfp. }
  assert (HD : forall i, 0 <= i < zlen X -> nth_error X (Z.to_nat i) = Some (D i)).
  { intros i Hi. unfold D, file_data. fold X. apply nth_error_nth'. unfold zlen in Hi. lia. }
  (* the part before the re-clustering rounds *)
  assert (Pre : seg_ok D (init cfg0) (api_ops_pre o files) /\
                tracked nf D (zlen X) (run_from fexp (init cfg0) (api_ops_pre o files)) /\
                (files <> [] -> Forall (fun f : list fpv => f <> []) files ->
                 0 <= ro_refine_num o ->
                 run_checked (init cfg0) (api_ops_pre o files) <> None)).
  { unfold api_ops_pre.
    pose proof (norm_refine_num_pos (ro_refine_num o) (ro_refine_rounds o)) as NP.
    destruct (norm_refine _ _) as [num rounds]. cbn [fst snd] in NP.
    destruct (negb (ro_recluster_rounds o =? 0) || negb (rounds =? 0)).
    - set (st1 := run_from fexp (init cfg0) (fit_ops files)) in *.
      set (sm := set_merge_ops (ro_refine_merge o) (ro_tol o) (ro_thr o + ro_change o)%float).
      assert (SM : seg_ok D st1 sm /\ tracked nf D (zlen X) (run_from fexp st1 sm)).
      { unfold sm, set_merge_ops, set_merge_op.
        destruct (get_merge_accept_fn fexp (ro_refine_merge o) (ro_tol o)) as [c|].
        - apply setcfg_seg, F2.
        - split; [apply seg_nil|exact F2]. }
      destruct SM as (M1 & M2).
      destruct (set_merge_ops_checked st1 (ro_refine_merge o) (ro_tol o)
                                      (ro_thr o + ro_change o)%float) as (M3 & M4).
      fold sm in M3, M4.
      destruct (refines_seg nf D X num HX (Z.to_nat rounds) _ (zlen X) M2 eq_refl HD)
        as (R1 & R2).
      rewrite !run_from_app. split; [|split; [exact R2|]].
      + apply seg_app; [exact F1|]. apply seg_app; assumption.
      + intros N1 N2 N3. pose proof (nonempty_files_rows files N1 N2) as HN0. fold X in HN0.
        rewrite run_checked_app.
        destruct (run_checked (init cfg0) (fit_ops files)) as [s1|] eqn:E1;
          [|exfalso; exact (F4 N2 eq_refl)].
        apply run_checked_run_from in E1. fold st1 in E1. subst s1.
        rewrite run_checked_app, M4.
        apply (refines_checked nf D X num HX (Z.to_nat rounds) _ (zlen X) M2 eq_refl HD).
        * rewrite M3. exact F3.
        * exact HN0.
        * intros Hk. apply NP; lia.
    - rewrite app_nil_r. split; [assumption|split; [assumption|]]. intros _ N2 _. apply F4, N2. }
  destruct Pre as (P1 & P2 & P3).
  unfold cli_perms_ok in HP. rewrite Hc in HP.
  change (run fexp cfg0 (api_ops_pre o files))
    with (run_from fexp (init cfg0) (api_ops_pre o files)) in HP.
  destruct (reclusters_seg nf D _ perms _ (zlen X) P2 HP) as (C1 & C2).
  rewrite api_ops_split.
  change (run fexp cfg0 (api_ops_pre o files ++
                         recluster_ops (Z.to_nat (ro_recluster_rounds o)) perms))
    with (run_from fexp (init cfg0) (api_ops_pre o files ++
                         recluster_ops (Z.to_nat (ro_recluster_rounds o)) perms)).
  rewrite run_from_app.
  destruct (seg_app D _ _ _ P1 C1) as (W1 & W2 & W3).
  refine (conj W1 (conj W2 (conj W3 (conj C2 _)))).
  intros N1 N2 N3. pose proof (nonempty_files_rows files N1 N2) as HN0. fold X in HN0.
  rewrite run_checked_app.
  destruct (run_checked (init cfg0) (api_ops_pre o files)) as [s1|] eqn:E1;
    [|exfalso; exact (P3 N1 N2 N3 eq_refl)].
  apply run_checked_run_from in E1. subst s1.
  exact (reclusters_checked nf D _ perms _ (zlen X) P2 HP HN0).
Qed.

(* ====================================================================== *)
(* 4b. the (criterion, threshold) pairs in force during the run             *)
(* ====================================================================== *)

(* recluster_inplace(extra_threshold=0.0) sets threshold := threshold + 0.0 at every round *)
Fixpoint add0 (k : nat) (t : float) : float :=
  match k with O => t | S k' => (add0 k' t + 0)%float end.

Lemma fit_rows_cfg cf rows : forall st labs, cfg (fst (fit_rows fexp cf st rows labs)) = cfg st.
Proof.
  induction rows as [|[fp|] rows IH]; intros st [|l labs]; cbn [fit_rows fst]; try reflexivity.
  rewrite IH. apply insert_st_cfg.
Qed.

Lemma do_fit_cfg st rows labels : cfg (fst (do_fit fexp st rows labels)) = cfg st.
Proof.
  unfold do_fit. destruct rows as [|r0 rows]; [reflexivity|].
  destruct (released st); [reflexivity|]. cbv zeta. rewrite fit_rows_cfg.
  destruct (is_init st); reflexivity.
Qed.

Lemma delete_internal_cfg st : cfg (fst (delete_internal st)) = cfg st.
Proof.
  unfold delete_internal. destruct (root st) as [r|]; [|reflexivity].
  destruct (released st); [reflexivity|]. destruct r; reflexivity.
Qed.

Lemma do_refine_cfg st X im nl : cfg (fst (do_refine fexp st X im nl)) = cfg st.
Proof.
  unfold do_refine. destruct (negb (is_init st)); [reflexivity|].
  pose proof (delete_internal_cfg st) as E.
  destruct (delete_internal st) as [st1 [|]]; cbn [fst] in *; [|exact E].
  destruct (refine_groups st1 X im nl) as [gs|]; [|exact E].
  rewrite fit_groups_cfg. exact E.
Qed.

Lemma do_recluster1_cfg st ex ps se :
  let st' := fst (do_recluster fexp st 1 ex ps se) in
  c_crit (cfg st') = c_crit (cfg st) /\
  (c_thr (cfg st') = c_thr (cfg st) \/ c_thr (cfg st') = (c_thr (cfg st) + ex)%float).
Proof.
  cbv zeta. unfold do_recluster. destruct (negb (is_init st)); [cbn [fst]; auto|].
  cbn [recluster_loop]. destruct (se && _); [cbn [fst]; auto|].
  assert (K : forall gs,
    c_crit (cfg (fst (fit_groups fexp (set_thr (reset_st st) (c_thr (cfg st) + ex)%float) gs)))
      = c_crit (cfg st) /\
    c_thr (cfg (fst (fit_groups fexp (set_thr (reset_st st) (c_thr (cfg st) + ex)%float) gs)))
      = (c_thr (cfg st) + ex)%float).
  { intros gs. rewrite fit_groups_cfg. split; reflexivity. }
  destruct ps as [|p ps].
  - specialize (K (prepare_groups (sorted_leaves st))).
    destruct (fit_groups fexp _ (prepare_groups (sorted_leaves st))) as [st2 [|]];
      cbn [fst] in *; destruct K as (K1 & K2); auto.
  - specialize (K (prepare_groups (permute (sorted_leaves st) p))).
    destruct (fit_groups fexp _ (prepare_groups (permute (sorted_leaves st) p))) as [st2 [|]];
      cbn [fst] in *; destruct K as (K1 & K2); auto.
Qed.

Lemma pairs_of_app a : forall st b,
  pairs_of fexp st (a ++ b) = pairs_of fexp st a ++ pairs_of fexp (run_from fexp st a) b.
Proof.
  induction a as [|o a IH]; intros st b; [reflexivity|].
  cbn [app pairs_of]. rewrite IH, run_from_cons, app_assoc. reflexivity.
Qed.

(* phase 1: only fits *)
Lemma fits_pairs fs : forall st,
  (forall p, In p (pairs_of fexp st (fit_ops fs)) -> p = cfg_pair st) /\
  cfg (run_from fexp st (fit_ops fs)) = cfg st.
Proof.
  induction fs as [|rows fs IH]; intros st; [split; [intros p []|reflexivity]|].
  change (fit_ops (rows :: fs)) with (OFit (map Some rows) None :: fit_ops fs).
  cbn [pairs_of op_pairs]. rewrite run_from_cons.
  destruct (IH (fst (step fexp st (OFit (map Some rows) None)))) as (A & B).
  assert (E : cfg (fst (step fexp st (OFit (map Some rows) None))) = cfg st)
    by (cbn [step]; apply do_fit_cfg).
  split.
  - intros p [<-|Hp]; [reflexivity|]. rewrite (A p Hp). unfold cfg_pair. now rewrite E.
  - now rewrite B.
Qed.

(* phase 2: refinement and single-pass re-clustering rounds *)
Definition phase2_op (o : op) : Prop :=
  (exists X im n, o = ORefine X im n) \/ (exists ps se, o = ORecluster 1 0 ps se).

Lemma phase2_pairs c2 t2 ops : Forall phase2_op ops -> forall st,
  (c_crit (cfg st) = c2 /\ exists k, c_thr (cfg st) = add0 k t2) ->
  forall p, In p (pairs_of fexp st ops) -> fst p = c2 /\ exists k, snd p = add0 k t2.
Proof.
  induction 1 as [|o ops Ho _ IH]; intros st (Q1 & k & Q2) p Hp; [destruct Hp|].
  cbn [pairs_of] in Hp. apply in_app_or in Hp. destruct Hp as [Hp|Hp].
  - destruct Ho as [(X & im & n & ->)|(ps & se & ->)]; cbn [op_pairs rec_pairs] in Hp.
    + destruct Hp as [<-|[]]. cbn [cfg_pair fst snd]. eauto.
    + destruct Hp as [<-|[]]. cbn [fst snd]. split; [exact Q1|]. exists (S k). cbn [add0].
      now rewrite Q2.
  - apply (IH (fst (step fexp st o))); [|exact Hp].
    destruct Ho as [(X & im & n & ->)|(ps & se & ->)]; cbn [step].
    + rewrite do_refine_cfg. eauto.
    + destruct (do_recluster1_cfg st 0 ps se) as (R1 & R2). cbv zeta in R1, R2.
      split; [congruence|]. destruct R2 as [R2|R2]; rewrite R2.
      * eauto.
      * exists (S k). cbn [add0]. now rewrite Q2.
Qed.

Lemma recluster_ops_phase2 k : forall perms, Forall phase2_op (recluster_ops k perms).
Proof.
  induction k as [|k IH]; intros perms; cbn [recluster_ops]; [constructor|].
  destruct perms as [|p ps]; (constructor; [right; eauto|apply IH]).
Qed.

(* the pairs the command can have in force: the --set-merge criterion at --threshold while
   fitting; the --set-refine-merge criterion at threshold + change (+ 0.0 per re-clustering round)
   afterwards *)
Definition cli_pair_ok (o : run_opts) (p : crit * float) : Prop :=
  (get_merge_accept_fn fexp (ro_merge o) (ro_tol o) = Some (fst p) /\ snd p = ro_thr o) \/
  (get_merge_accept_fn fexp (ro_refine_merge o) (ro_tol o) = Some (fst p) /\
   exists k, snd p = add0 k (ro_thr o + ro_change o)%float).

Lemma api_pairs_ok o files perms cfg0 :
  api_cfg0 o = Some cfg0 -> plan_config fexp o <> None ->
  forall p, In p (pairs_of fexp (init cfg0) (api_ops o files perms)) -> cli_pair_ok o p.
Proof.
  intros Hc Hpc p Hp. unfold plan_config in Hpc. unfold api_cfg0 in Hc. rewrite Hc in Hpc.
  unfold api_ops in Hp. destruct (norm_refine _ _) as [num rounds].
  rewrite pairs_of_app in Hp. apply in_app_or in Hp.
  destruct (fits_pairs files (init cfg0)) as (A & B).
  assert (E0 : get_merge_accept_fn fexp (ro_merge o) (ro_tol o) = Some (c_crit cfg0) /\
               c_thr cfg0 = ro_thr o).
  { unfold ctor in Hc. cbn [opt_tol] in Hc.
    destruct (get_merge_accept_fn fexp (ro_merge o) (ro_tol o)); [|discriminate].
    injection Hc as <-. split; reflexivity. }
  destruct Hp as [Hp|Hp].
  - left. rewrite (A p Hp). cbn [cfg_pair fst snd init cfg]. exact E0.
  - destruct (negb (ro_recluster_rounds o =? 0) || negb (rounds =? 0)); [|destruct Hp].
    unfold set_merge in Hpc. unfold set_merge_ops, set_merge_op in Hp.
    destruct (get_merge_accept_fn fexp (ro_refine_merge o) (ro_tol o)) as [c2|] eqn:E2;
      [|congruence].
    cbn [app pairs_of op_pairs] in Hp.
    right. rewrite E2.
    assert (R : fst p = c2 /\ exists k, snd p = add0 k (ro_thr o + ro_change o)%float).
    { eapply phase2_pairs; [| |exact Hp].
      - apply Forall_app. split; [|apply recluster_ops_phase2].
        apply Forall_forall. intros x Hx. apply repeat_spec in Hx. subst x. left. eauto.
      - cbn [step fst cfg c_crit c_thr]. split; [reflexivity|]. exists O. reflexivity. }
    destruct R as (-> & R). split; [reflexivity|exact R].
Qed.

(* ====================================================================== *)
(* 5. the estimator theorems, for what the command writes                  *)
(* ====================================================================== *)

Section Outputs.
Variables (nf : nat) (o : run_opts) (files : list (list fpv)) (perms : list (list nat)) (st : state).
Hypothesis Hbf : 2 <= ro_bf o.
Hypothesis Hfiles : files_ok nf files.
Hypothesis Hperms : cli_perms_ok o files perms.
Hypothesis Hrun : cli_run o files perms = Some st.

Lemma cli_run_history :
  exists cfg0, api_cfg0 o = Some cfg0 /\ 2 <= c_bf cfg0 /\
    st = run fexp cfg0 (api_ops o files perms) /\
    ops_wf fexp (init cfg0) (api_ops o files perms) /\
    ops_perms_ok fexp (init cfg0) (api_ops o files perms) /\
    ops_data_strong fexp (file_data files) (init cfg0) (api_ops o files perms) /\
    tracked nf (file_data files) (zlen (concat files)) st.
Proof.
  destruct (cli_run_is_api_run o files perms st Hrun) as (cfg0 & Hc & _ & E).
  destruct (api_history_ok nf o files perms cfg0 Hc Hbf Hfiles Hperms) as (W1 & W2 & W3 & T & _).
  exists cfg0. rewrite <- E in T. rewrite (api_cfg0_bf o cfg0 Hc). auto 10.
Qed.

(* C01: every input row, numbered across the files in name order, is in exactly one cluster of
   clusters.pkl *)
Theorem cli_partition :
  Permutation (concat (clusters st)) (zseq 0 (length (concat files))) /\
  NoDup (concat (clusters st)) /\
  nfit st = zlen (concat files).
Proof.
  destruct cli_run_history as (cfg0 & _ & B & E & W1 & W2 & _ & T).
  pose proof (C01.C01_partition fexp cfg0 _ B W1 W2) as P. cbv zeta in P. rewrite <- E in P.
  destruct P as (P1 & P2 & _). destruct T as (_ & _ & _ & _ & _ & T6).
  rewrite T6 in P1. unfold zlen in P1. rewrite Nat2Z.id in P1. auto.
Qed.

(* the width of the tree is the width of the files whenever something is reported *)
Lemma cli_nfeat : sorted_leaves st <> [] -> nfeat st = nf.
Proof.
  intros Hne. destruct cli_run_history as (_ & _ & _ & _ & _ & _ & _ & T).
  destruct T as (_ & _ & _ & _ & [T5|(_ & T5)] & _); [|exact T5].
  exfalso. apply Hne. apply sorted_leaves_none, T5.
Qed.

(* C02: the k-th centroid of cluster-centroids-packed.pkl is the per-bit majority vote (ties set)
   over the rows of the k-th cluster of clusters.pkl; no cluster is empty *)
Theorem cli_centroids_exact :
  length (centroids st) = length (clusters st) /\
  forall k ids, nth_error (clusters st) k = Some ids ->
    ids <> [] /\
    (zlen ids < 2 ^ 53 ->
     nth_error (centroids st) k =
       Some (map (fun c => zlen ids <=? 2 * c) (colsum nf (map (file_data files) ids)))).
Proof.
  split; [unfold centroids, clusters; now rewrite !map_length|].
  intros k ids Hk.
  destruct cli_run_history as (cfg0 & _ & B & E & W1 & W2 & W3 & T).
  pose proof (C02.C02_centroid_is_majority fexp (file_data files) cfg0 _ B W1 W2 W3) as M.
  pose proof (C02.C02_exact fexp (file_data files) cfg0 _ B W1 W2 W3) as X.
  pose proof (C02.C02_clusters_nonempty fexp cfg0 _ B W1 W2) as NE.
  cbv zeta in M, X. rewrite <- E in M, X, NE.
  unfold clusters in Hk. rewrite nth_error_map in Hk.
  destruct (nth_error (sorted_leaves st) k) as [s|] eqn:Es; [|discriminate Hk].
  cbn [option_map] in Hk. injection Hk as <-.
  pose proof (nth_error_In _ _ Es) as Hin.
  rewrite Forall_forall in M, X, NE.
  destruct (X s Hin) as (_ & Xn & _). specialize (NE s Hin). specialize (M s Hin).
  assert (Enf : nfeat st = nf).
  { apply cli_nfeat. intros E0. rewrite E0 in Hin. destruct Hin. }
  split.
  - intros E0. rewrite E0 in Xn. rewrite cr_zlen_nil in Xn. lia.
  - intros Hb. unfold centroids. rewrite (map_nth_error scent k _ Es).
    rewrite Xn, Enf in M. rewrite (M Hb). reflexivity.
Qed.

(* ... bit by bit: bit j of the centroid is set iff at least half of the members have it set *)
Theorem cli_centroid_bits : forall k ids cen j,
  nth_error (clusters st) k = Some ids -> nth_error (centroids st) k = Some cen ->
  zlen ids < 2 ^ 53 -> (j < nf)%nat ->
  length cen = nf /\
  (nth j cen false = true <->
   zlen ids <= 2 * Compose.bit_count j (map (file_data files) ids)).
Proof.
  intros k ids cen j Hk Hc Hb Hj.
  destruct cli_centroids_exact as (_ & CE). destruct (CE k ids Hk) as (_ & C2).
  rewrite (C2 Hb) in Hc. injection Hc as <-.
  assert (HL : Forall (fun r : fpv => length r = nf) (map (file_data files) ids)).
  { apply Forall_map. apply Forall_forall. intros i Hi.
    destruct cli_partition as (P1 & _ & _).
    assert (Hi' : In i (concat (clusters st))).
    { apply in_concat. exists ids. split; [eapply nth_error_In; eauto|exact Hi]. }
    apply (Permutation_in _ P1) in Hi'. apply In_zseq in Hi'.
    unfold file_data. destruct Hfiles as (_ & Hf & _).
    assert (Hn : In (nth (Z.to_nat i) (concat files) []) (concat files)) by (apply nth_In; lia).
    apply in_concat in Hn. destruct Hn as (l & Hl & Hn).
    rewrite Forall_forall in Hf. specialize (Hf l Hl). rewrite Forall_forall in Hf.
    apply Hf, Hn. }
  split; [rewrite map_length; apply Compose.colsum_length, HL|].
  set (g := fun c => zlen ids <=? 2 * c).
  rewrite (nth_indep _ false (g 0)) by (rewrite map_length, Compose.colsum_length; assumption).
  rewrite (map_nth g). rewrite Compose.colsum_counts by exact HL. unfold g. apply Z.leb_le.
Qed.

(* C03: every reported cluster of two or more rows meets a (criterion, threshold) pair that was
   in force during the run *)
Theorem cli_bound :
  exists cfg0, api_cfg0 o = Some cfg0 /\
    Forall (bound_ok (pairs_of fexp (init cfg0) (api_ops o files perms))) (sorted_leaves st).
Proof.
  destruct cli_run_history as (cfg0 & Hc & B & E & W1 & W2 & _ & _).
  exists cfg0. split; [exact Hc|]. rewrite E. apply C03.C03_bound; assumption.
Qed.

(* ... with the pairs spelled out *)
Theorem cli_bound_pairs :
  Forall (fun s => sn s <= 1 \/ exists c t, cli_pair_ok o (c, t) /\ meets c t s)
         (sorted_leaves st).
Proof.
  destruct (cli_run_is_api_run o files perms st Hrun) as (cfg1 & Hc1 & Hpc & _).
  destruct cli_bound as (cfg0 & Hc & B). rewrite Hc1 in Hc. injection Hc as <-.
  eapply Forall_impl; [|exact B]. cbv beta. intros s [H|(c & t & Hin & Hm)]; [now left|].
  right. exists c, t. split; [|exact Hm].
  exact (api_pairs_ok o files perms cfg1 Hc1 Hpc (c, t) Hin).
Qed.
End Outputs.

(* with documented options and no empty input the command does not abort: every fit, set_merge,
   refinement and re-clustering call returns normally *)
Theorem cli_run_total nf o files perms :
  ro_merge o <> NUnknown -> ro_refine_merge o <> NUnknown -> 2 <= ro_bf o ->
  0 <= ro_refine_num o ->
  files_ok nf files -> files <> [] -> Forall (fun f : list fpv => f <> []) files ->
  cli_perms_ok o files perms ->
  exists st, cli_run o files perms = Some st.
Proof.
  intros Hm1 Hm2 Hbf Hnum Hf Hne1 Hne2 HP.
  pose proof (plan_config_total fexp o Hm1 Hm2) as Hpc.
  unfold cli_run. rewrite plan_ops_closed.
  destruct (plan_config fexp o) as [cf'|] eqn:Epc; [|congruence].
  destruct (api_cfg0 o) as [cfg0|] eqn:Hc.
  2:{ unfold plan_config in Epc. unfold api_cfg0 in Hc. rewrite Hc in Epc. discriminate. }
  destruct (api_history_ok nf o files perms cfg0 Hc Hbf Hf HP) as (_ & _ & _ & _ & T).
  specialize (T Hne1 Hne2 Hnum).
  destruct (run_checked (init cfg0) (api_ops o files perms)) as [st|]; [eauto|congruence].
Qed.

End WithExp.

(* ====================================================================== *)
(* 6. a run                                                                *)
(* ====================================================================== *)
Module Demo.
Definition fid (_ : float) : float := 0x1.78b56362cef38p-2%float.
(* bb run --set-merge diameter --set-refine-merge tolerance-diameter --tolerance 0.05
          --threshold 0.5 --branching-factor 2 --refine-num 1 --recluster-rounds 1 *)
Definition o : run_opts :=
  mkRunOpts NDiameter NTolDiameter 0x1.999999999999ap-5%float 0.5%float 2 0%float 1 None 1 false.
Definition f1 : list fpv :=
  [[true; true; false; false]; [true; true; true; false];
   [false; false; true; true]; [false; true; true; true]].
Definition f2 : list fpv :=
  [[true; false; false; false]; [false; false; false; true]; [true; true; false; true]].
Definition files := [f1; f2].
(* the shuffle of the one re-clustering round: four clusters are reported when it starts *)
Definition perms : list (list nat) := [[3; 1; 0; 2]%nat].

Example demo_plan :
  run_plan o (length files) =
  [ACtor NDiameter 0x1.999999999999ap-5%float 0.5%float 2; AFitFile 0; AFitFile 1;
   ASetMerge NTolDiameter 0x1.999999999999ap-5%float (0.5 + 0)%float; ARefine 1; ARecluster;
   ASave].
Proof. vm_compute. reflexivity. Qed.

(* the states the API script goes through, as reported clusters: after the two fits, after the
   refinement round (the largest cluster exploded and re-inserted), after the re-clustering *)
Example demo_stages :
  option_map (fun c => (clusters (run fid c (fit_ops files)),
                        clusters (run fid c (api_ops_pre fid o files)),
                        clusters (run fid c (api_ops fid o files perms)))) (api_cfg0 fid o) =
  Some ([[0; 1; 4; 6]; [2; 3; 5]],
        [[2; 3; 5]; [0; 1]; [4]; [6]],
        [[2; 3; 5]; [6; 0; 1]; [4]]).
Proof. vm_compute. reflexivity. Qed.

Example demo_run :
  option_map cli_outputs (cli_run fid o files perms) =
  Some ([[2; 3; 5]; [6; 0; 1]; [4]],
        [[false; false; true; true]; [true; true; false; false]; [true; false; false; false]]).
Proof. vm_compute. reflexivity. Qed.

(* the hypotheses of the theorems hold of this run ... *)
Example demo_hyps :
  ro_merge o <> NUnknown /\ ro_refine_merge o <> NUnknown /\ 2 <= ro_bf o /\
  0 <= ro_refine_num o /\ files_ok 4 files /\ files <> [] /\
  Forall (fun f : list fpv => f <> []) files /\ cli_perms_ok fid o files perms.
Proof.
  split; [discriminate|]. split; [discriminate|]. split; [cbn; lia|]. split; [cbn; lia|].
  split; [|split; [discriminate|split]].
  - unfold files_ok. split; [cbn; lia|]. split; [|vm_compute; reflexivity].
    repeat constructor.
  - repeat constructor; discriminate.
  - unfold cli_perms_ok. vm_compute. split; [|exact I].
    apply (is_perm_of_len_char 4).
    + repeat constructor; cbn; lia.
    + intros i. cbn. lia.
Qed.

(* ... so they apply: seven rows, each in exactly one cluster; the centroids are majority votes *)
Example demo_theorems :
  exists st, cli_run fid o files perms = Some st /\
    clusters st = [[2; 3; 5]; [6; 0; 1]; [4]] /\
    Permutation (concat (clusters st)) (zseq 0 7) /\
    nth_error (centroids st) 1 =
      Some (map (fun c => 3 <=? 2 * c)
                (colsum 4 (map (file_data files) [6; 0; 1]))).
Proof.
  destruct demo_hyps as (H1 & H2 & H3 & H4 & H5 & H6 & H7 & H8).
  destruct (cli_run_total fid 4 o files perms H1 H2 H3 H4 H5 H6 H7 H8) as (st & E).
  exists st. split; [exact E|].
  assert (C : option_map clusters (cli_run fid o files perms) = Some [[2; 3; 5]; [6; 0; 1]; [4]])
    by (vm_compute; reflexivity).
  rewrite E in C. cbn [option_map] in C. injection C as C.
  split; [exact C|]. split.
  - exact (proj1 (cli_partition fid 4 o files perms st H3 H5 H8 E)).
  - destruct (cli_centroids_exact fid 4 o files perms st H3 H5 H8 E) as (_ & CE).
    destruct (CE 1%nat [6; 0; 1]) as (_ & CE2); [rewrite C; reflexivity|].
    apply CE2. cbn. lia.
Qed.

(* The hypothesis on the shuffles is needed.  [recluster_inplace] re-inserts exactly the clusters
   the shuffle lists: with a "shuffle" that names only two of the four positions the command
   completes, and rows 4 and 6 are in no cluster of clusters.pkl. *)
Example cli_partition_without_perms_ok_refuted :
  exists st, cli_run fid o files [[1; 0]%nat] = Some st /\
    clusters st = [[2; 3; 5]; [0; 1]] /\
    ~ Permutation (concat (clusters st)) (zseq 0 (length (concat files))).
Proof.
  destruct (cli_run fid o files [[1; 0]%nat]) as [st|] eqn:E.
  2:{ exfalso. vm_compute in E. discriminate E. }
  exists st. split; [reflexivity|].
  assert (C : option_map clusters (cli_run fid o files [[1; 0]%nat]) = Some [[2; 3; 5]; [0; 1]])
    by (vm_compute; reflexivity).
  rewrite E in C. cbn [option_map] in C. injection C as C.
  split; [exact C|]. rewrite C. intros P. apply Permutation_length in P. discriminate P.
Qed.

(* an empty input file makes tree.fit raise: the command aborts *)
Example demo_empty_file_aborts : cli_run fid o [f1; []; f2] perms = None.
Proof. vm_compute. reflexivity. Qed.
End Demo.
