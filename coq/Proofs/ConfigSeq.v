(* ConfigSeq.v — laws of whole SEQUENCES of configuration calls (C17: "for all sequences of
   constructor / set_merge(subset of arguments) / property setters / reset").  A refused call
   (ValueError) leaves the configuration as it was: Gen/GConfig.v fails to translate a raise that
   follows a partial update, so `None` of Config.set_merge really means "nothing changed". *)
From BB Require Import Model.Config Proofs.ConfigFacts.
Open Scope Z_scope.

Section Seq.
Variable fexp : float -> float.

(* one configuration call: criterion argument, tolerance, threshold, branching factor *)
Record cfgop := mkOp { o_a : critarg; o_tol : option float; o_thr : option float; o_bf : option Z }.

Definition apply_op (cf : config) (o : cfgop) : config :=
  match set_merge fexp None cf (o_a o) (o_tol o) (o_thr o) (o_bf o) with
  | Some cf' => cf'
  | None => cf
  end.
Definition run_cfg (cf : config) (ops : list cfgop) : config := fold_left apply_op ops cf.

Definition tol_name (n : cname) : bool :=
  match n with NTolLegacy | NTolDiameter | NTolRadius | NNever => true | _ => false end.

(* ---- one step ---- *)
Lemma apply_thr cf o : o_thr o = None -> c_thr (apply_op cf o) = c_thr cf.
Proof.
  intros H. unfold apply_op.
  destruct (set_merge fexp None cf (o_a o) (o_tol o) (o_thr o) (o_bf o)) as [cf'|] eqn:E; [|reflexivity].
  destruct (set_merge_frame fexp _ _ _ _ _ _ E) as (F & _). exact (F H).
Qed.
Lemma apply_bf cf o : o_bf o = None -> c_bf (apply_op cf o) = c_bf cf.
Proof.
  intros H. unfold apply_op.
  destruct (set_merge fexp None cf (o_a o) (o_tol o) (o_thr o) (o_bf o)) as [cf'|] eqn:E; [|reflexivity].
  destruct (set_merge_frame fexp _ _ _ _ _ _ E) as (_ & F & _). exact (F H).
Qed.
Lemma apply_crit cf o : o_a o = ANone -> o_tol o = None -> c_crit (apply_op cf o) = c_crit cf.
Proof.
  intros Ha Ht. unfold apply_op.
  destruct (set_merge fexp None cf (o_a o) (o_tol o) (o_thr o) (o_bf o)) as [cf'|] eqn:E; [|reflexivity].
  destruct (set_merge_frame fexp _ _ _ _ _ _ E) as (_ & _ & _ & _ & F & _). exact (F Ha Ht).
Qed.

(* a call that names only a tolerance-family criterion keeps the previously chosen tolerance *)
Lemma apply_keeps_tol cf o n t0 :
  o_a o = AName n -> o_tol o = None -> tol_name n = true ->
  crit_tolerance (c_crit cf) = Some t0 ->
  crit_tolerance (c_crit (apply_op cf o)) = Some t0 /\ crit_name (c_crit (apply_op cf o)) = n.
Proof.
  intros Ha Ht Hn H0. unfold apply_op, set_merge. rewrite Ha, Ht, H0.
  destruct n; try discriminate; cbn; split; reflexivity.
Qed.

(* a tolerance-only call changes the tolerance and nothing else; refused (and so without any
   effect) exactly when the current criterion has no tolerance *)
Lemma apply_tol_only cf o t :
  o_a o = ANone -> o_tol o = Some t ->
  (crit_tolerance (c_crit cf) <> None ->
     crit_tolerance (c_crit (apply_op cf o)) = Some t /\
     crit_name (c_crit (apply_op cf o)) = crit_name (c_crit cf)) /\
  (crit_tolerance (c_crit cf) = None -> apply_op cf o = cf).
Proof.
  intros Ha Ht. unfold apply_op, set_merge. rewrite Ha, Ht.
  destruct (c_crit cf) eqn:Ec; cbn; split; intros H; try congruence; split; reflexivity.
Qed.

(* repeating a call is the same as making it once *)
Lemma apply_idem cf o : apply_op (apply_op cf o) o = apply_op cf o.
Proof.
  unfold apply_op at 2.
  destruct (set_merge fexp None cf (o_a o) (o_tol o) (o_thr o) (o_bf o)) as [cf'|] eqn:E.
  2:{ unfold apply_op. rewrite E. reflexivity. }
  unfold apply_op. unfold set_merge in *.
  destruct o as [a tol thr bf]; cbn [o_a o_tol o_thr o_bf] in *.
  destruct a as [|n|c].
  - destruct tol as [t|].
    + destruct (c_crit cf) eqn:Ec; cbn in E; try discriminate; inversion E; subst; cbn;
        destruct thr, bf; reflexivity.
    + inversion E; subst; cbn. destruct thr, bf; reflexivity.
  - destruct tol as [t|].
    + destruct n; cbn in E; try discriminate; inversion E; subst; cbn; destruct thr, bf; reflexivity.
    + destruct n; cbn in E; try discriminate;
        destruct (crit_tolerance (c_crit cf)); inversion E; subst; cbn; destruct thr, bf; reflexivity.
  - destruct tol; [discriminate|]. inversion E; subst; cbn. destruct thr, bf; reflexivity.
Qed.

(* ---- whole sequences ---- *)
Lemma run_thr_frame ops : forall cf,
  Forall (fun o => o_thr o = None) ops -> c_thr (run_cfg cf ops) = c_thr cf.
Proof.
  induction ops as [|o ops IH]; intros cf H; [reflexivity|].
  inversion H as [|? ? Ho Hr]; subst. cbn [run_cfg fold_left].
  change (c_thr (run_cfg (apply_op cf o) ops) = c_thr cf).
  rewrite (IH _ Hr). apply apply_thr. exact Ho.
Qed.
Lemma run_bf_frame ops : forall cf,
  Forall (fun o => o_bf o = None) ops -> c_bf (run_cfg cf ops) = c_bf cf.
Proof.
  induction ops as [|o ops IH]; intros cf H; [reflexivity|].
  inversion H as [|? ? Ho Hr]; subst.
  change (c_bf (run_cfg (apply_op cf o) ops) = c_bf cf).
  rewrite (IH _ Hr). apply apply_bf. exact Ho.
Qed.
Lemma run_crit_frame ops : forall cf,
  Forall (fun o => o_a o = ANone /\ o_tol o = None) ops -> c_crit (run_cfg cf ops) = c_crit cf.
Proof.
  induction ops as [|o ops IH]; intros cf H; [reflexivity|].
  inversion H as [|? ? [Ha Ht] Hr]; subst.
  change (c_crit (run_cfg (apply_op cf o) ops) = c_crit cf).
  rewrite (IH _ Hr). apply apply_crit; assumption.
Qed.

(* the last explicitly given threshold / branching factor wins, whatever came before, provided
   the call that gave it was accepted and nothing after it names one *)
Lemma run_thr_last pre o post cf t :
  o_thr o = Some t -> set_merge fexp None (run_cfg cf pre) (o_a o) (o_tol o) (o_thr o) (o_bf o) <> None ->
  Forall (fun o => o_thr o = None) post ->
  c_thr (run_cfg cf (pre ++ o :: post)) = t.
Proof.
  intros Ho Hacc Hpost. unfold run_cfg. rewrite fold_left_app. cbn [fold_left].
  fold (run_cfg cf pre). fold (run_cfg (apply_op (run_cfg cf pre) o) post).
  rewrite (run_thr_frame _ _ Hpost). unfold apply_op.
  destruct (set_merge fexp None (run_cfg cf pre) (o_a o) (o_tol o) (o_thr o) (o_bf o)) as [cf'|] eqn:E;
    [|congruence].
  destruct (set_merge_frame fexp _ _ _ _ _ _ E) as (_ & _ & F & _). exact (F _ Ho).
Qed.
Lemma run_bf_last pre o post cf b :
  o_bf o = Some b -> set_merge fexp None (run_cfg cf pre) (o_a o) (o_tol o) (o_thr o) (o_bf o) <> None ->
  Forall (fun o => o_bf o = None) post ->
  c_bf (run_cfg cf (pre ++ o :: post)) = b.
Proof.
  intros Ho Hacc Hpost. unfold run_cfg. rewrite fold_left_app. cbn [fold_left].
  fold (run_cfg cf pre). fold (run_cfg (apply_op (run_cfg cf pre) o) post).
  rewrite (run_bf_frame _ _ Hpost). unfold apply_op.
  destruct (set_merge fexp None (run_cfg cf pre) (o_a o) (o_tol o) (o_thr o) (o_bf o)) as [cf'|] eqn:E;
    [|congruence].
  destruct (set_merge_frame fexp _ _ _ _ _ _ E) as (_ & _ & _ & F & _). exact (F _ Ho).
Qed.

(* a previously chosen tolerance survives ANY sequence of calls that only switch between
   tolerance-family criteria by name and/or change threshold / branching factor *)
Definition keeps_tol_op (o : cfgop) : Prop :=
  o_tol o = None /\ (o_a o = ANone \/ exists n, o_a o = AName n /\ tol_name n = true).
Lemma run_keeps_tol ops : forall cf t0,
  crit_tolerance (c_crit cf) = Some t0 -> Forall keeps_tol_op ops ->
  crit_tolerance (c_crit (run_cfg cf ops)) = Some t0.
Proof.
  induction ops as [|o ops IH]; intros cf t0 H0 H; [exact H0|].
  inversion H as [|? ? [Ht Ha] Hr]; subst.
  change (crit_tolerance (c_crit (run_cfg (apply_op cf o) ops)) = Some t0).
  apply IH; [|exact Hr].
  destruct Ha as [Ha|(n & Ha & Hn)].
  - rewrite (apply_crit _ _ Ha Ht). exact H0.
  - exact (proj1 (apply_keeps_tol _ _ _ _ Ha Ht Hn H0)).
Qed.
(* the case C17_same_behaviour leaves out: no tolerance given while the current criterion carries
   one — set_merge by name then equals the constructor GIVEN THAT PREVIOUS TOLERANCE *)
Lemma set_merge_name_is_ctor_with_kept_tol cf thr bf n t0 :
  crit_tolerance (c_crit cf) = Some t0 ->
  option_map c_crit (set_merge fexp None cf (AName n) None None None) =
  option_map c_crit (ctor fexp None thr bf (AName n) (Some t0)).
Proof.
  intros H0. unfold set_merge, ctor. rewrite H0. cbn [opt_tol].
  destruct (get_merge_accept_fn fexp n t0); reflexivity.
Qed.
(* ... and a constructor call equals a set_merge call with all four arguments on ANY estimator
   that does not use the legacy global function: the previous configuration is irrelevant *)
Lemma full_set_merge_is_ctor cf thr bf a t :
  a <> ANone ->
  set_merge fexp None cf a (match a with AObj _ => None | _ => Some t end) (Some thr) (Some bf) =
  ctor fexp None thr bf a (match a with AObj _ => None | _ => Some t end).
Proof.
  intros Ha. unfold set_merge, ctor. destruct a as [|n|c]; [congruence| |].
  - cbn [opt_tol]. destruct (get_merge_accept_fn fexp n t); reflexivity.
  - reflexivity.
Qed.
End Seq.
