(* OrderFacts.v — float64 Tanimoto comparisons are faithful to the exact
   rational comparisons when the denominators are small (property C07). *)
From BB Require Import Model.Sim.
From BB Require Import Proofs.ListFacts Proofs.BitsFacts Proofs.FloatFacts Proofs.KernelFacts.
From Coq Require Import ZArith List Bool Reals Lia Lra.
From Flocq Require Import Core BinarySingleNaN.
From Flocq Require Import IEEE754.PrimFloat.
Import ListNotations.
Open Scope Z_scope.

#[local] Existing Instance Hprec.
#[local] Existing Instance Hmax.

(* ------------------------------------------------------------------ *)
(* 0. Real-number facts                                                *)
(* ------------------------------------------------------------------ *)

Lemma fexp64_0 : fexp64 0 = -53.
Proof. reflexivity. Qed.

Lemma fexp64_mono : forall e1 e2, e1 <= e2 -> fexp64 e1 <= fexp64 e2.
Proof.
  intros e1 e2 H. change fexp64 with (FLT_exp (-1074) 53).
  unfold FLT_exp. lia.
Qed.

(* absolute rounding error on the unit interval: half an ulp of [1/2,1) *)
Lemma rnd64_err_unit : forall t, (0 <= t <= 1)%R ->
  (Rabs (rnd64 t - t) <= bpow radix2 (-54))%R.
Proof.
  intros t [H0 H1].
  pose proof (bpow_gt_0 radix2 (-54)) as Hp.
  destruct (Req_dec t 1) as [E1 | N1].
  { subst t. rewrite rnd64_1. rewrite Rminus_diag_eq by reflexivity.
    rewrite Rabs_R0. lra. }
  destruct (Req_dec t 0) as [E0 | N0].
  { subst t. rewrite rnd64_0. rewrite Rminus_diag_eq by reflexivity.
    rewrite Rabs_R0. lra. }
  eapply Rle_trans.
  - apply (error_le_half_ulp radix2 fexp64 (fun x => negb (Z.even x)) t).
  - rewrite ulp_neq_0 by exact N0.
    unfold cexp.
    assert (Hm : (mag radix2 t <= 0)%Z).
    { apply mag_le_bpow; [ exact N0 | ].
      rewrite Rabs_pos_eq by exact H0. simpl. lra. }
    apply fexp64_mono in Hm. rewrite fexp64_0 in Hm.
    apply Rle_trans with (/ 2 * bpow radix2 (-53))%R.
    + apply Rmult_le_compat_l; [ lra | ]. apply bpow_le. exact Hm.
    + change (/ 2)%R with (bpow radix2 (-1)). rewrite <- bpow_plus.
      apply bpow_le. lia.
Qed.

(* two reals of the unit interval further apart than 2^-53 round to distinct floats *)
Lemma rnd64_sep_unit : forall x y, (0 <= x)%R -> (y <= 1)%R ->
  (x + bpow radix2 (-53) < y)%R -> (rnd64 x < rnd64 y)%R.
Proof.
  intros x y Hx Hy Hs.
  pose proof (bpow_gt_0 radix2 (-53)) as Hp.
  assert (E : bpow radix2 (-53) = (2 * bpow radix2 (-54))%R).
  { change 2%R with (bpow radix2 1). rewrite <- bpow_plus. reflexivity. }
  assert (Ex : (Rabs (rnd64 x - x) <= bpow radix2 (-54))%R)
    by (apply rnd64_err_unit; lra).
  assert (Ey : (Rabs (rnd64 y - y) <= bpow radix2 (-54))%R)
    by (apply rnd64_err_unit; lra).
  apply Rabs_le_inv in Ex. apply Rabs_le_inv in Ey. lra.
Qed.

(* ------------------------------------------------------------------ *)
(* 1. Equal fractions round equally                                    *)
(* ------------------------------------------------------------------ *)

Lemma quot_real_eq : forall i1 d1 i2 d2, 1 <= d1 -> 1 <= d2 ->
  i1 * d2 = i2 * d1 -> (IZR i1 / IZR d1 = IZR i2 / IZR d2)%R.
Proof.
  intros i1 d1 i2 d2 H1 H2 E.
  assert (D1 : (1 <= IZR d1)%R) by (apply IZR_le; exact H1).
  assert (D2 : (1 <= IZR d2)%R) by (apply IZR_le; exact H2).
  apply (f_equal IZR) in E. rewrite !mult_IZR in E.
  apply Rmult_eq_reg_r with (IZR d1 * IZR d2)%R; [ | nra ].
  replace (IZR i1 / IZR d1 * (IZR d1 * IZR d2))%R with (IZR i1 * IZR d2)%R
    by (field; lra).
  replace (IZR i2 / IZR d2 * (IZR d1 * IZR d2))%R with (IZR i2 * IZR d1)%R
    by (field; lra).
  exact E.
Qed.

Lemma quot_eq_iff i1 d1 i2 d2 :
  0 <= i1 -> 0 <= i2 -> 1 <= d1 < 2^53 -> 1 <= d2 < 2^53 ->
  i1 < 2^53 -> i2 < 2^53 -> i1 * d2 = i2 * d1 ->
  (Z2f i1 / Z2f d1)%float = (Z2f i2 / Z2f d2)%float.
Proof.
  intros Hi1 Hi2 Hd1 Hd2 Bi1 Bi2 E.
  destruct (div_spec_int i1 d1) as (F1 & R1 & S1); [ lia | lia | ].
  destruct (div_spec_int i2 d2) as (F2 & R2 & S2); [ lia | lia | ].
  apply prim_eq; try assumption.
  - rewrite R1, R2. f_equal. apply quot_real_eq; lia.
  - rewrite S1, S2. reflexivity.
Qed.

(* ------------------------------------------------------------------ *)
(* 2. Strict comparison is faithful                                    *)
(* ------------------------------------------------------------------ *)

Lemma quot_real_le : forall i1 d1 i2 d2, 1 <= d1 -> 1 <= d2 ->
  i1 * d2 <= i2 * d1 -> (IZR i1 / IZR d1 <= IZR i2 / IZR d2)%R.
Proof.
  intros i1 d1 i2 d2 H1 H2 E.
  assert (D1 : (1 <= IZR d1)%R) by (apply IZR_le; exact H1).
  assert (D2 : (1 <= IZR d2)%R) by (apply IZR_le; exact H2).
  apply IZR_le in E. rewrite !mult_IZR in E.
  apply Rmult_le_reg_r with (IZR d1 * IZR d2)%R; [ nra | ].
  replace (IZR i1 / IZR d1 * (IZR d1 * IZR d2))%R with (IZR i1 * IZR d2)%R
    by (field; lra).
  replace (IZR i2 / IZR d2 * (IZR d1 * IZR d2))%R with (IZR i2 * IZR d1)%R
    by (field; lra).
  exact E.
Qed.

(* distinct fractions with small denominators are more than 2^-52 apart *)
Lemma quot_real_gap : forall i1 d1 i2 d2, 1 <= d1 -> 1 <= d2 ->
  d1 * d2 < 2^52 -> i1 * d2 < i2 * d1 ->
  (IZR i1 / IZR d1 + bpow radix2 (-53) < IZR i2 / IZR d2)%R.
Proof.
  intros i1 d1 i2 d2 H1 H2 HP E.
  assert (D1 : (1 <= IZR d1)%R) by (apply IZR_le; exact H1).
  assert (D2 : (1 <= IZR d2)%R) by (apply IZR_le; exact H2).
  assert (E' : i1 * d2 + 1 <= i2 * d1) by lia.
  apply IZR_le in E'. rewrite plus_IZR, !mult_IZR in E'.
  apply IZR_lt in HP. rewrite mult_IZR in HP.
  change 2 with (radix_val radix2) in HP. rewrite IZR_Zpower in HP by lia.
  assert (HB : (bpow radix2 (-53) * bpow radix2 52 < 1)%R).
  { rewrite <- bpow_plus. change 1%R with (bpow radix2 0). apply bpow_lt. lia. }
  pose proof (bpow_gt_0 radix2 (-53)) as Hp.
  apply Rmult_lt_reg_r with (IZR d1 * IZR d2)%R; [ nra | ].
  replace (IZR i2 / IZR d2 * (IZR d1 * IZR d2))%R with (IZR i2 * IZR d1)%R
    by (field; lra).
  rewrite Rmult_plus_distr_r.
  replace (IZR i1 / IZR d1 * (IZR d1 * IZR d2))%R with (IZR i1 * IZR d2)%R
    by (field; lra).
  assert (HQ : (bpow radix2 (-53) * (IZR d1 * IZR d2) < 1)%R).
  { eapply Rle_lt_trans; [ | exact HB ].
    apply Rmult_le_compat_l; lra. }
  lra.
Qed.

Section Faithful.
  Variables i1 d1 i2 d2 : Z.
  Hypothesis Hi1 : 0 <= i1 <= d1.
  Hypothesis Hi2 : 0 <= i2 <= d2.
  Hypothesis Hd1 : 1 <= d1.
  Hypothesis Hd2 : 1 <= d2.
  Hypothesis HP : d1 * d2 < 2^52.

  Let Bd1 : d1 < 2^52.
  Proof. nia. Qed.
  Let Bd2 : d2 < 2^52.
  Proof. nia. Qed.

  Lemma quot_unit_l : (0 <= IZR i1 / IZR d1 <= 1)%R.
  Proof.
    assert (D1 : (1 <= IZR d1)%R) by (apply IZR_le; exact Hd1).
    split.
    - apply (quot_bounds i1 d1); lia.
    - replace 1%R with (IZR 1 / IZR 1)%R by (simpl; lra).
      apply quot_real_le; lia.
  Qed.

  Lemma quot_rnd_lt_iff :
    Rlt_bool (rnd64 (IZR i1 / IZR d1)) (rnd64 (IZR i2 / IZR d2)) = (i1 * d2 <? i2 * d1).
  Proof.
    assert (D2 : (1 <= IZR d2)%R) by (apply IZR_le; exact Hd2).
    destruct (Z.ltb_spec (i1 * d2) (i2 * d1)) as [L | G].
    - apply Rlt_bool_true. apply rnd64_sep_unit.
      + apply (quot_bounds i1 d1); lia.
      + replace 1%R with (IZR 1 / IZR 1)%R by (simpl; lra).
        apply quot_real_le; lia.
      + apply quot_real_gap; assumption.
    - apply Rlt_bool_false. apply rnd64_le. apply quot_real_le; lia.
  Qed.
End Faithful.

Lemma quot_lt_faithful i1 d1 i2 d2 :
  0 <= i1 <= d1 -> 0 <= i2 <= d2 -> 1 <= d1 -> 1 <= d2 -> d1 * d2 < 2^52 ->
  PrimFloat.ltb (Z2f i1 / Z2f d1) (Z2f i2 / Z2f d2) = (i1 * d2 <? i2 * d1).
Proof.
  intros Hi1 Hi2 Hd1 Hd2 HP.
  assert (Bd1 : d1 < 2^52) by nia.
  assert (Bd2 : d2 < 2^52) by nia.
  destruct (div_spec_int i1 d1) as (F1 & R1 & S1); [ lia | lia | ].
  destruct (div_spec_int i2 d2) as (F2 & R2 & S2); [ lia | lia | ].
  rewrite ltb_equiv, Bltb_correct by assumption.
  rewrite R1, R2. apply quot_rnd_lt_iff; assumption.
Qed.

(* ------------------------------------------------------------------ *)
(* 3. Equality test is faithful                                        *)
(* ------------------------------------------------------------------ *)

Lemma quot_eqb_faithful i1 d1 i2 d2 :
  0 <= i1 <= d1 -> 0 <= i2 <= d2 -> 1 <= d1 -> 1 <= d2 -> d1 * d2 < 2^52 ->
  PrimFloat.eqb (Z2f i1 / Z2f d1) (Z2f i2 / Z2f d2) = (i1 * d2 =? i2 * d1).
Proof.
  intros Hi1 Hi2 Hd1 Hd2 HP.
  assert (Bd1 : d1 < 2^52) by nia.
  assert (Bd2 : d2 < 2^52) by nia.
  assert (HP' : d2 * d1 < 2^52) by lia.
  destruct (div_spec_int i1 d1) as (F1 & R1 & S1); [ lia | lia | ].
  destruct (div_spec_int i2 d2) as (F2 & R2 & S2); [ lia | lia | ].
  rewrite eqb_equiv, Beqb_correct by assumption.
  rewrite R1, R2.
  pose proof (quot_rnd_lt_iff i1 d1 i2 d2 Hi1 Hi2 Hd1 Hd2 HP) as L12.
  pose proof (quot_rnd_lt_iff i2 d2 i1 d1 Hi2 Hi1 Hd2 Hd1 HP') as L21.
  destruct (Z.eqb_spec (i1 * d2) (i2 * d1)) as [E | N].
  - apply Req_bool_true. f_equal. apply quot_real_eq; lia.
  - apply Req_bool_false.
    destruct (Z.ltb_spec (i1 * d2) (i2 * d1)) as [L | G].
    + destruct (Rlt_bool_spec (rnd64 (IZR i1 / IZR d1)) (rnd64 (IZR i2 / IZR d2)));
        [ lra | discriminate ].
    + assert (L' : i2 * d1 < i1 * d2) by lia.
      apply Z.ltb_lt in L'. rewrite L' in L21.
      destruct (Rlt_bool_spec (rnd64 (IZR i2 / IZR d2)) (rnd64 (IZR i1 / IZR d1)));
        [ lra | discriminate ].
Qed.

(* ------------------------------------------------------------------ *)
(* 4. Fingerprint level                                                *)
(* ------------------------------------------------------------------ *)

Definition I (a b : fpv) : Z := card (andv a b).
Definition U (a b : fpv) : Z := Z.max (card a + card b - card (andv a b)) 1.

Lemma sim_IU : forall a b, sim a b = (Z2f (I a b) / Z2f (U a b))%float.
Proof. reflexivity. Qed.

Lemma IU_bounds : forall a b,
  Z.of_nat (length a) < 2^25 -> Z.of_nat (length b) < 2^25 ->
  0 <= I a b <= U a b /\ 1 <= U a b < 2^26.
Proof.
  intros a b La Lb. unfold I, U.
  pose proof (card_range a) as Ha. pose proof (card_range b) as Hb.
  pose proof (card_andv_nonneg a b) as Hi0.
  pose proof (card_andv_le_l a b) as Hia.
  pose proof (card_andv_le_r a b) as Hib.
  change (2 ^ 25) with 33554432 in La, Lb.
  change (2 ^ 26) with 67108864. lia.
Qed.

Lemma sim_lt_faithful a b a' b' :
  Z.of_nat (length a) < 2^25 -> Z.of_nat (length b) < 2^25 ->
  Z.of_nat (length a') < 2^25 -> Z.of_nat (length b') < 2^25 ->
  PrimFloat.ltb (sim a b) (sim a' b') = (I a b * U a' b' <? I a' b' * U a b).
Proof.
  intros La Lb La' Lb'.
  destruct (IU_bounds a b La Lb) as (H1 & H2).
  destruct (IU_bounds a' b' La' Lb') as (H1' & H2').
  rewrite !sim_IU.
  remember (I a b) as i1. remember (U a b) as d1.
  remember (I a' b') as i2. remember (U a' b') as d2.
  apply quot_lt_faithful; try lia.
  change (2 ^ 26) with 67108864 in H2, H2'.
  change (2 ^ 52) with (67108864 * 67108864). nia.
Qed.

Lemma sim_eqb_faithful a b a' b' :
  Z.of_nat (length a) < 2^25 -> Z.of_nat (length b) < 2^25 ->
  Z.of_nat (length a') < 2^25 -> Z.of_nat (length b') < 2^25 ->
  PrimFloat.eqb (sim a b) (sim a' b') = (I a b * U a' b' =? I a' b' * U a b).
Proof.
  intros La Lb La' Lb'.
  destruct (IU_bounds a b La Lb) as (H1 & H2).
  destruct (IU_bounds a' b' La' Lb') as (H1' & H2').
  rewrite !sim_IU.
  remember (I a b) as i1. remember (U a b) as d1.
  remember (I a' b') as i2. remember (U a' b') as d2.
  apply quot_eqb_faithful; try lia.
  change (2 ^ 26) with 67108864 in H2, H2'.
  change (2 ^ 52) with (67108864 * 67108864). nia.
Qed.

(* the [fgt] form used by the split mask *)
Lemma fgt_ltb : forall x y, fgt x y = PrimFloat.ltb y x.
Proof. reflexivity. Qed.

Lemma sim_gt_faithful a b a' b' :
  Z.of_nat (length a) < 2^25 -> Z.of_nat (length b) < 2^25 ->
  Z.of_nat (length a') < 2^25 -> Z.of_nat (length b') < 2^25 ->
  fgt (sim a b) (sim a' b') = (I a' b' * U a b <? I a b * U a' b').
Proof.
  intros La Lb La' Lb'. unfold fgt. apply sim_lt_faithful; assumption.
Qed.

(* ------------------------------------------------------------------ *)
(* 5. argmax over centroids = first maximiser of the exact similarity  *)
(* ------------------------------------------------------------------ *)

Lemma nth_map_sim : forall (cs : list fpv) (x : fpv) j, (j < length cs)%nat ->
  nth j (map (fun cv => sim cv x) cs) 0%float = sim (nth j cs []) x.
Proof.
  intros cs x j Hj.
  rewrite (nth_indep _ 0%float (sim [] x)) by (rewrite map_length; exact Hj).
  apply (map_nth (fun cv => sim cv x)).
Qed.

Lemma argmax_sim_faithful (cs : list fpv) (x : fpv) :
  cs <> [] ->
  Forall (fun c => Z.of_nat (length c) < 2^25) cs -> Z.of_nat (length x) < 2^25 ->
  let i := argmax_f (map (fun cv => sim cv x) cs) in
  let c k := nth k cs [] in
  (i < length cs)%nat /\
  (* nobody is strictly more similar than the winner *)
  (forall j, (j < length cs)%nat ->
     I (c j) x * U (c i) x <= I (c i) x * U (c j) x) /\
  (* every earlier entry is strictly less similar: the winner is the FIRST maximiser *)
  (forall j, (j < i)%nat ->
     I (c j) x * U (c i) x < I (c i) x * U (c j) x).
Proof.
  intros Hne Hcs Hx. cbv zeta.
  assert (Hlen : forall k, (k < length cs)%nat -> Z.of_nat (length (nth k cs [])) < 2^25).
  { intros k Hk. rewrite Forall_forall in Hcs. apply Hcs, nth_In, Hk. }
  assert (NN : no_nan (map (fun cv => sim cv x) cs)).
  { unfold no_nan. rewrite Forall_forall. intros v Hv.
    apply in_map_iff in Hv. destruct Hv as (cv & <- & Hin).
    rewrite Forall_forall in Hcs. specialize (Hcs cv Hin).
    apply sim_range.
    - eapply Z.lt_trans; [ exact Hcs | reflexivity ].
    - eapply Z.lt_trans; [ exact Hx | reflexivity ]. }
  destruct (argmax_f_max _ (map_nonnil _ _ _ cs Hne) NN) as (A1 & A2 & A3).
  rewrite map_length in A1, A2.
  remember (argmax_f (map (fun cv => sim cv x) cs)) as i eqn:Ei.
  split; [ exact A1 | split ].
  - intros j Hj. specialize (A2 j Hj).
    rewrite !nth_map_sim in A2 by assumption.
    rewrite sim_lt_faithful in A2 by auto.
    apply Z.ltb_ge in A2. lia.
  - intros j Hj. specialize (A3 j Hj).
    rewrite !nth_map_sim in A3 by lia.
    rewrite sim_lt_faithful in A3 by (auto; apply Hlen; lia).
    apply Z.ltb_lt in A3. lia.
Qed.

(* the two properties characterise the index uniquely *)
Lemma first_max_unique (cs : list fpv) (x : fpv) (i k : nat) :
  let c n := nth n cs [] in
  (i < length cs)%nat -> (k < length cs)%nat ->
  (forall j, (j < length cs)%nat -> I (c j) x * U (c i) x <= I (c i) x * U (c j) x) ->
  (forall j, (j < i)%nat -> I (c j) x * U (c i) x < I (c i) x * U (c j) x) ->
  (forall j, (j < length cs)%nat -> I (c j) x * U (c k) x <= I (c k) x * U (c j) x) ->
  (forall j, (j < k)%nat -> I (c j) x * U (c k) x < I (c k) x * U (c j) x) ->
  i = k.
Proof.
  cbv zeta. intros Hi Hk Mi Fi Mk Fk.
  destruct (Nat.lt_trichotomy i k) as [L | [E | L]]; [ | exact E | ].
  - specialize (Fk i L). specialize (Mi k Hk). lia.
  - specialize (Fi k L). specialize (Mk i Hi). lia.
Qed.

Print Assumptions rnd64_err_unit.
Print Assumptions quot_eq_iff.
Print Assumptions quot_lt_faithful.
Print Assumptions quot_eqb_faithful.
Print Assumptions sim_lt_faithful.
Print Assumptions sim_eqb_faithful.
Print Assumptions sim_gt_faithful.
Print Assumptions argmax_sim_faithful.
Print Assumptions first_max_unique.
