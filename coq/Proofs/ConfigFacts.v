(* ConfigFacts.v — laws of the merge configuration (C17). *)
From BB Require Import Model.Config.
Open Scope Z_scope.

Section Facts.
Variable fexp : float -> float.

Definition accepted {A} (o : option A) : Prop := o <> None.

(* a criterion given by name or as an object, with or without a tolerance, is accepted by
   the constructor iff it is accepted by set_merge *)
Lemma ctor_iff_set_merge cf thr bf a tol :
  a <> ANone ->
  (accepted (ctor fexp None thr bf a tol) <-> accepted (set_merge fexp None cf a tol None None)).
Proof.
  intros Ha. unfold accepted, ctor, set_merge.
  destruct a as [|n|c]; [congruence| |].
  - destruct n; cbn; destruct tol; split; congruence.
  - destruct tol; cbn; split; congruence.
Qed.

(* ... and with the tolerance given explicitly (or for a current criterion without one) both
   routes resolve to the same accept function *)
Lemma ctor_same_as_set_merge cf thr bf a tol c1 c2 :
  a <> ANone ->
  (tol <> None \/ crit_tolerance (c_crit cf) = None) ->
  ctor fexp None thr bf a tol = Some c1 ->
  set_merge fexp None cf a tol None None = Some c2 ->
  c_crit c1 = c_crit c2.
Proof.
  intros Ha Ht. unfold ctor, set_merge.
  destruct a as [|n|c]; [congruence| |].
  - destruct tol as [t|].
    + cbn. destruct (get_merge_accept_fn fexp n t); intros E1 E2; inversion E1; inversion E2; reflexivity.
    + destruct Ht as [Ht|Ht]; [congruence|]. rewrite Ht. cbn.
      destruct (get_merge_accept_fn fexp n default_tol); intros E1 E2; inversion E1; inversion E2; reflexivity.
  - destruct tol; cbn; intros E1 E2; inversion E1; inversion E2; reflexivity.
Qed.

(* set_merge changes exactly what it is given *)
Lemma set_merge_frame cf a tol thr bf cf' :
  set_merge fexp None cf a tol thr bf = Some cf' ->
  (thr = None -> c_thr cf' = c_thr cf) /\
  (bf = None -> c_bf cf' = c_bf cf) /\
  (forall t, thr = Some t -> c_thr cf' = t) /\
  (forall b, bf = Some b -> c_bf cf' = b) /\
  (a = ANone -> tol = None -> c_crit cf' = c_crit cf) /\
  (* a previously chosen tolerance survives a change of criterion without tolerance arg *)
  (forall n t0, a = AName n -> tol = None -> crit_tolerance (c_crit cf) = Some t0 ->
      get_merge_accept_fn fexp n t0 = Some (c_crit cf')) /\
  (* the tolerance setter touches nothing but the tolerance *)
  (forall t, a = ANone -> tol = Some t ->
      c_crit cf' = crit_set_tolerance (c_crit cf) t /\ crit_name (c_crit cf') = crit_name (c_crit cf)).
Proof.
  unfold set_merge. intros H.
  destruct a as [|n|c].
  - (* ANone *)
    destruct tol as [t|].
    + destruct (crit_tolerance (c_crit cf)) eqn:Et; [|discriminate].
      inversion H; subst; cbn [c_thr c_bf c_crit]. clear H.
      refine (conj _ (conj _ (conj _ (conj _ (conj _ (conj _ _)))))).
      * intros ->. reflexivity.
      * intros ->. reflexivity.
      * intros t' ->. reflexivity.
      * intros b' ->. reflexivity.
      * intros _ E. discriminate.
      * intros n t0 E. discriminate.
      * intros t' _ E. inversion E; subst. split; [reflexivity|].
        destruct (c_crit cf); reflexivity.
    + inversion H; subst; cbn [c_thr c_bf c_crit]. clear H.
      refine (conj _ (conj _ (conj _ (conj _ (conj _ (conj _ _)))))).
      * intros ->. reflexivity.
      * intros ->. reflexivity.
      * intros t' ->. reflexivity.
      * intros b' ->. reflexivity.
      * reflexivity.
      * intros n t0 E. discriminate.
      * intros t' _ E. discriminate.
  - (* AName *)
    match type of H with context [get_merge_accept_fn fexp n ?T] =>
      destruct (get_merge_accept_fn fexp n T) as [c0|] eqn:Eg end; [|discriminate].
    inversion H; subst; cbn [c_thr c_bf c_crit]. clear H.
    refine (conj _ (conj _ (conj _ (conj _ (conj _ (conj _ _)))))).
    * intros ->. reflexivity.
    * intros ->. reflexivity.
    * intros t' ->. reflexivity.
    * intros b' ->. reflexivity.
    * intros E. discriminate.
    * intros n' t0 E Et Ec. inversion E; subst. rewrite Ec in Eg. exact Eg.
    * intros t' E. discriminate.
  - (* AObj *)
    destruct tol; [discriminate|]. inversion H; subst; cbn [c_thr c_bf c_crit]. clear H.
    refine (conj _ (conj _ (conj _ (conj _ (conj _ (conj _ _)))))).
    * intros ->. reflexivity.
    * intros ->. reflexivity.
    * intros t' ->. reflexivity.
    * intros b' ->. reflexivity.
    * intros E. discriminate.
    * intros n' t0 E. discriminate.
    * intros t' E. discriminate.
Qed.

(* a refused set_merge changes nothing (it returns no new configuration at all), and once
   the legacy global function is in use the instance method is refused *)
Lemma set_merge_global_refused gc cf a tol thr bf : set_merge fexp (Some gc) cf a tol thr bf = None.
Proof. reflexivity. Qed.

(* reset discards the data, keeps the configuration, and equals a fresh estimator *)
Lemma reset_is_fresh st : reset_st st = init (cfg st).
Proof. reflexivity. Qed.
Lemma reset_run st ops :
  fold_left (fun s o => fst (step fexp s o)) ops (reset_st st) =
  fold_left (fun s o => fst (step fexp s o)) ops (init (cfg st)).
Proof. reflexivity. Qed.
End Facts.
