(* MrCoarsen.v — property C09, multi-round sentence: in the multi-round workflow fingerprints
   grouped together by one round stay together in all later rounds unless their cluster was one
   of those deliberately split; every other cluster re-enters the tree as an indivisible unit.

   Layout:  1. member lists read / written by a task
            2. M1 / M2: one tree-merging task, the final task
            3. the rounds: a history invariant that remembers every round
            4. M3 / M4: the final directory (intermediate files kept). *)
From Coq Require Import String.
From BB Require Import Model.Multiround Proofs.ListFacts Proofs.TreeDefs Proofs.TreeBlocks
     Proofs.TreeChain Proofs.TreeSums
     Proofs.BirchDefs Proofs.BirchInv Proofs.BirchRebuild Proofs.BirchData
     Proofs.MrTasks Proofs.MrStrings Proofs.MrDir Proofs.MrPartition.
From Coq Require Import Lia Permutation Sorted.
Open Scope Z_scope.

(* ================= 1. member lists ================= *)
Definition idx_lists (x : content) : list (list Z) :=
  match x with CIdxs l => l | _ => [] end.
(* the member lists a task reads *)
Definition pair_lists (pairs : list (content * content)) : list (list Z) :=
  concat (map (fun p => idx_lists (snd p)) pairs).
(* the member lists a task writes *)
Definition ws_lists (ws : list (string * content)) : list (list Z) :=
  concat (map (fun e => idx_lists (snd e)) ws).
(* the member lists stored by round r, as the next round collects them *)
Definition round_lists (d : dir) (r : Z) : list (list Z) :=
  pair_lists (read_pairs d (prev_pairs d r)).

(* every input list ends inside one output list, or (only when splitting) is exploded into
   singletons *)
Definition coarsens (split : bool) (ins outs : list (list Z)) : Prop :=
  forall l, In l ins ->
    (exists l', In l' outs /\ incl l l') \/
    (split = true /\ forall i, In i l -> In [i] outs).

Lemma pair_lists_app a b : pair_lists (a ++ b) = (pair_lists a ++ pair_lists b)%list.
Proof. unfold pair_lists. now rewrite map_app, concat_app. Qed.
Lemma ws_lists_app a b : ws_lists (a ++ b) = (ws_lists a ++ ws_lists b)%list.
Proof. unfold ws_lists. now rewrite map_app, concat_app. Qed.

Lemma In_pair_lists l pairs :
  In l (pair_lists pairs) <-> exists p, In p pairs /\ In l (idx_lists (snd p)).
Proof.
  unfold pair_lists. rewrite in_concat. split.
  - intros (x & Hx & Hl). apply in_map_iff in Hx. destruct Hx as (p & <- & Hp). eauto.
  - intros (p & Hp & Hl). exists (idx_lists (snd p)). split; [|exact Hl].
    apply (in_map (fun p => idx_lists (snd p))). exact Hp.
Qed.

Lemma pair_lists_perm a b :
  Permutation a b -> forall l, In l (pair_lists a) <-> In l (pair_lists b).
Proof.
  intros P l. rewrite !In_pair_lists. split; intros (p & Hp & Hl); exists p; (split; [|exact Hl]).
  - eapply Permutation_in; eassumption.
  - eapply Permutation_in; [symmetry|]; eassumption.
Qed.

Lemma ws_lists_save_groups r label gs :
  ws_lists (save_groups r label gs) = map sids (gsubs gs).
Proof.
  unfold ws_lists, save_groups, gsubs.
  induction gs as [|[w l] gs IH]; cbn [flat_map map concat app snd idx_lists]; [reflexivity|].
  rewrite map_app. f_equal. exact IH.
Qed.

Lemma map_sids_map2 w (rows : list (list Z * Z)) : forall (ids : list (list Z)),
  List.length rows = List.length ids ->
  map sids (map2 (fun r l => mkSub w (snd r) (fst r) (centroid_fpv (fst r) (snd r)) l) rows ids)
  = ids.
Proof.
  induction rows as [|r rows IH]; intros [|l ids] H; cbn in H; try discriminate; [reflexivity|].
  cbn [map2 map sids]. f_equal. apply IH. lia.
Qed.

Lemma explode_sids (X : list fpv) im ids : forall r,
  explode X im ids = Some r -> map sids r = map (fun i => [i]) ids.
Proof.
  induction ids as [|i ids IH]; intros r H; cbn [explode] in H.
  - injection H as <-. reflexivity.
  - destruct (py_nth X (i - im)); [|discriminate H].
    destruct (explode X im ids) as [r'|]; [|discriminate H].
    injection H as <-. cbn [map sids]. f_equal. apply IH. reflexivity.
Qed.

(* ================= 2. one task ================= *)
Section Tasks.
Variable fexp : float -> float.
Variable G : Z -> fpv.
Variable nf : nat.
Hypothesis Hnf : Z.of_nat nf < 2 ^ 52.

(* the sub-clusters read from good, aligned pairs carry exactly the stored member lists *)
Lemma groups_lists pairs gs :
  Forall (ok_pair G nf) pairs ->
  Forall2 (fun p wg => pair_subs (fst p) (snd p) = Some wg) pairs gs ->
  map sids (gsubs gs) = pair_lists pairs.
Proof.
  intros Hok F. revert Hok. unfold gsubs, pair_lists.
  induction F as [|[b i] [w g] pairs gs H _ IH]; intros Hok; [reflexivity|].
  pose proof (Forall_inv Hok) as (_ & Ha). pose proof (Forall_inv_tail Hok) as Hok'.
  cbn [fst snd map concat] in *. rewrite map_app, (IH Hok'). f_equal.
  destruct b as [w' rows| | | |]; try discriminate H.
  destruct i as [|ids| | |]; try discriminate H.
  cbn [pair_subs] in H. injection H as <- <-. cbn [pair_aligned idx_lists] in *.
  apply map_sids_map2, Ha.
Qed.

(* C09_units for the pairs of a batch: every stored member list lies inside one leaf cluster
   of the tree built from them *)
Lemma fit_pairs_covered pairs st :
  st_inv st -> released st = false -> init_for nf st ->
  Forall (ok_pair G nf) pairs -> nfit st + zlen (ids_of pairs) < 2 ^ 64 ->
  exists st', fit_pairs fexp st pairs = (st', Ok) /\ st_inv st' /\
    forall l, In l (pair_lists pairs) -> covered (st_blocks st') l.
Proof.
  intros Hinv Hrel Hinit Hp Hb.
  destruct (pairs_groups G nf pairs Hp) as (gs & F & Gk & _ & Gi).
  rewrite (fit_pairs_groups fexp pairs gs st F).
  assert (Ht : tot_n (gsubs gs) = zlen (ids_of pairs)).
  { rewrite <- Gi. apply tot_n_cnt, (groups_ok_cnt nf), Gk. }
  rewrite <- Ht in Hb.
  destruct (fit_groups_inv fexp nf gs st Hinv Hrel Hinit Hnf Gk Hb)
    as (st' & F' & K1 & _ & _ & _ & _ & _ & _ & _ & _ & K10).
  exists st'. refine (conj F' (conj K1 _)).
  intros l Hl. rewrite <- (groups_lists pairs gs Hp F) in Hl.
  apply in_map_iff in Hl. destruct Hl as (b & <- & Hb'). apply K10, Hb'.
Qed.

(* ... hence inside the member list of one sorted leaf, also after [delete_internal] *)
Lemma covered_leaf st l :
  st_inv st -> covered (st_blocks st) l ->
  exists x, In x (sorted_leaves (fst (delete_internal st))) /\ incl l (sids x).
Proof.
  intros Hinv (b & Hb & Hl).
  destruct (delete_internal_views G nf st Hinv) as (_ & _ & _ & _ & _ & V & _).
  rewrite V. destruct (block_is_leaf st b Hinv Hb) as (x & Hx & <-). eauto.
Qed.

(* M1 *)
Theorem merging_task_coarsens c r label pairs (all_rows : list fpv) ws :
  2 <= m_bf c -> Forall (ok_pair G nf) pairs -> zlen (ids_of pairs) < 2 ^ 64 ->
  merging_task fexp c r label pairs all_rows = Some ws ->
  forall l, In l (pair_lists pairs) ->
    (exists l', In l' (ws_lists ws) /\ incl l l') \/
    (m_split_after c = true /\ forall i, In i l -> In [i] (ws_lists ws)).
Proof.
  intros Hbf Hp Hb. unfold merging_task.
  destruct (tree_cfg fexp c _) as [cf|] eqn:Ecf; [|discriminate].
  unfold tree_cfg in Ecf. apply ctor_name_bf in Ecf.
  destruct (init_facts G nf cf ltac:(lia)) as (I1 & I2 & I3 & _ & I5 & _).
  destruct (fit_pairs_covered pairs (init cf) I1 I2 I3 Hp ltac:(rewrite I5; lia))
    as (st & F & K1 & KC).
  rewrite F. intros Hws l Hl.
  destruct (covered_leaf st l K1 (KC l Hl)) as (x & Hx & Hlx).
  destruct (m_split_after c) eqn:Es.
  - unfold refine_groups_seq in Hws.
    destruct (sorted_leaves (fst (delete_internal st))) as [|big rest] eqn:Ebfs; [discriminate|].
    destruct (explode all_rows 0 (sort_asc_z (sids big))) as [singles|] eqn:Ex; [|discriminate].
    injection Hws as <-. rewrite ws_lists_save_groups.
    pose proof (fold_group_add_perm (fun _ => W8) singles (prepare_groups rest)) as PF.
    cbv beta in PF.
    assert (PP : Permutation
                   (gsubs (fold_left (fun gs b => group_add W8 b gs) singles (prepare_groups rest)))
                   (rest ++ singles)).
    { etransitivity; [exact PF|]. apply Permutation_app_tail, prepare_groups_perm. }
    destruct Hx as [<-|Hx].
    + right. split; [reflexivity|]. intros i Hi.
      assert (Hs : In [i] (map sids singles)).
      { rewrite (explode_sids _ _ _ _ Ex). apply (in_map (fun i => [i])).
        apply (Permutation_in _ (Permutation_sym (sort_asc_z_perm (sids big)))). apply Hlx, Hi. }
      apply in_map_iff in Hs. destruct Hs as (s & Es' & Hs). rewrite <- Es'.
      apply in_map. apply (Permutation_in _ (Permutation_sym PP)). apply in_or_app. now right.
    + left. exists (sids x). split; [|exact Hlx].
      apply in_map. apply (Permutation_in _ (Permutation_sym PP)). apply in_or_app. now left.
  - injection Hws as <-. rewrite ws_lists_save_groups. left. exists (sids x). split; [|exact Hlx].
    apply in_map. unfold leaf_groups.
    apply (Permutation_in _ (Permutation_sym (prepare_groups_perm _))). exact Hx.
Qed.

(* M2 *)
Theorem final_task_coarsens c pairs ws cl :
  2 <= m_bf c -> Forall (ok_pair G nf) pairs -> zlen (ids_of pairs) < 2 ^ 64 ->
  final_task fexp c pairs = Some ws ->
  In ("clusters.pkl"%string, CClusters cl) ws ->
  forall l, In l (pair_lists pairs) -> exists k, In k cl /\ incl l k.
Proof.
  intros Hbf Hp Hb. unfold final_task.
  destruct (tree_cfg fexp c _) as [cf|] eqn:Ecf; [|discriminate].
  unfold tree_cfg in Ecf. apply ctor_name_bf in Ecf.
  destruct (init_facts G nf cf ltac:(lia)) as (I1 & I2 & I3 & _ & I5 & _).
  destruct (fit_pairs_covered pairs (init cf) I1 I2 I3 Hp ltac:(rewrite I5; lia))
    as (st & F & K1 & KC).
  rewrite F. destruct (is_init st); [|discriminate]. intros Hws Hin l Hl.
  destruct (covered_leaf st l K1 (KC l Hl)) as (x & Hx & Hlx).
  assert (Ecl : cl = clusters (fst (delete_internal st))).
  { destruct (m_save_centroids c); injection Hws as <-; cbn [In] in Hin.
    - destruct Hin as [E|[E|[]]]; [discriminate E|now injection E].
    - destruct Hin as [E|[]]. now injection E. }
  subst cl. exists (sids x). split; [|exact Hlx]. unfold clusters. apply in_map, Hx.
Qed.

End Tasks.

(* ================= 3. the rounds ================= *)
Lemma Forall2_In_l {A B} (P : A -> B -> Prop) l1 l2 a :
  Forall2 P l1 l2 -> In a l1 -> exists b, In b l2 /\ P a b.
Proof.
  induction 1 as [|x y l1 l2 H _ IH]; intros Hin; [destruct Hin|].
  destruct Hin as [<-|Hin]; [exists y; split; [now left|exact H]|].
  destruct (IH Hin) as (b & Hb & Hp). exists b. split; [now right|exact Hp].
Qed.

Lemma In_ws_lists l ws :
  In l (ws_lists ws) <-> exists e, In e ws /\ In l (idx_lists (snd e)).
Proof.
  unfold ws_lists. rewrite in_concat. split.
  - intros (x & Hx & Hl). apply in_map_iff in Hx. destruct Hx as (p & <- & Hp). eauto.
  - intros (p & Hp & Hl). exists (idx_lists (snd p)). split; [|exact Hl].
    apply (in_map (fun p => idx_lists (snd p))). exact Hp.
Qed.

Lemma ws_lists_concat l ws wss : In ws wss -> In l (ws_lists ws) -> In l (ws_lists (concat wss)).
Proof.
  intros Hw Hl. apply In_ws_lists in Hl. destruct Hl as (e & He & Hl). apply In_ws_lists.
  exists e. split; [|exact Hl]. apply in_concat. eauto.
Qed.

Definition elists (E : list entry) : list (list Z) := pair_lists (map epair E).
Definition hlists (r : Z) (H : list hentry) : list (list Z) := elists (entries_of r H).

Lemma entries_of_other r R E : r <> R -> entries_of r (map (pair R) E) = [].
Proof.
  intros Hne. unfold entries_of. induction E as [|e E IH]; cbn [map filter fst]; [reflexivity|].
  destruct (Z.eqb_spec R r); [congruence|exact IH].
Qed.

Section Rounds.
Variable fexp : float -> float.
Variable nf : nat.
Variable files : list (list fpv).
Variable c : mr_cfg.
Hypothesis Hnf : Z.of_nat nf < 2 ^ 52.
Hypothesis Hrows : Forall (Forall (fun fp : fpv => List.length fp = nf)) files.
Let all_rows : list fpv := List.concat files.
Let N : Z := zlen all_rows.
Hypothesis HN : N < 2 ^ 64.
Hypothesis Hbf : 2 <= m_bf c.
Hypothesis Hbin : (1 <= m_bin c)%nat.
Let G : Z -> fpv := Gmap nf files.
Let split : bool := m_split_after c.

Lemma ws_lists_ewrites R E :
  Forall (fun e => ok_pair G nf (epair e)) E -> ws_lists (flat_map (ewrites R) E) = elists E.
Proof.
  unfold ws_lists, elists, pair_lists. induction 1 as [|e E He _ IH]; [reflexivity|].
  cbn [flat_map ewrites app map concat snd]. rewrite IH.
  destruct He as ((w & g & Hp & _) & _). destruct (fst (epair e)); try discriminate Hp.
  reflexivity.
Qed.

(* [prev_pairs_matched] for any round still present in the directory *)
Lemma prev_pairs_hist d r H :
  1 <= r -> dir_is d (hwrites H) -> Forall (fun re : hentry => 0 <= fst re) H ->
  round_ok nf files (entries_of r H) ->
  exists ks, Permutation ks (entries_of r H) /\
    prev_pairs d r = map (fun e => (ebufs r e, eidxs r e)) ks /\
    read_pairs d (prev_pairs d r) = map epair ks.
Proof.
  intros Hr Hd HF0 HE.
  destruct (round_globs nf files d r H ltac:(lia) Hd HF0) as (GB & GI & GW).
  remember (entries_of r H) as E eqn:EE.
  destruct HE as (E1 & E2 & E3 & E4).
  destruct (pair_sorted (ebufs r) (eidxs r) E) with
    (B := filter (is_bufs_of r) (dir_names d)) (I := filter (is_idxs_of r) (dir_names d))
    as (ks & P & HB & HI).
  - intros a b Ha Hb. apply names_same_order, E2; assumption.
  - intros a b Ha Hb E0. apply bufs_name_inj in E0; try lia.
    apply (NoDup_map_eq ekey E); try assumption.
    destruct E0 as (_ & A & B). destruct a as [[la wa] pa], b as [[lb wb] pb].
    unfold ekey, elabel, ewidth in *. cbn [fst snd] in *. congruence.
  - eapply NoDup_map_inv; exact E1.
  - apply ssorted_filter. exact (proj1 Hd).
  - apply ssorted_filter. exact (proj1 Hd).
  - exact GB.
  - exact GI.
  - exists ks. refine (conj P _).
    assert (PP : prev_pairs d r = map (fun e => (ebufs r e, eidxs r e)) ks).
    { unfold prev_pairs. rewrite HB, HI. apply combine_map_same. }
    split; [exact PP|]. rewrite PP.
    assert (Hin : forall k, In k ks -> In k E) by (intros k; apply Permutation_in, P).
    clear -Hin GW. unfold read_pairs.
    induction ks as [|k ks IH]; cbn [map flat_map]; [reflexivity|].
    destruct (GW k (Hin k (or_introl eq_refl))) as (A & B). cbn [fst snd]. rewrite A, B.
    cbn [app]. rewrite IH by (intros x Hx; apply Hin; now right).
    f_equal. now destruct (epair k).
Qed.

Lemma hist_nonneg r H : hist_pre nf files r H -> Forall (fun re : hentry => 0 <= fst re) H.
Proof.
  intros (HF & _). eapply Forall_impl; [|exact HF]. cbv beta. intros re ((A & _) & _). lia.
Qed.

(* the lists the next round collects are the lists stored in the history *)
Lemma round_lists_hist d r R H :
  1 <= r -> dir_is d (hwrites H) -> hist_pre nf files R H ->
  round_ok nf files (entries_of r H) ->
  forall l, In l (round_lists d r) <-> In l (hlists r H).
Proof.
  intros Hr Hd HP HE l.
  destruct (prev_pairs_hist d r H Hr Hd (hist_nonneg R H HP) HE) as (ks & P & _ & RP).
  unfold round_lists, hlists, elists. rewrite RP. apply pair_lists_perm, Permutation_map, P.
Qed.

(* [rinv_step] with the history exposed *)
Lemma hist_step d r H R E :
  dir_is d (hwrites H) -> hist_pre nf files r H -> r < R -> 1 <= R -> round_ok nf files E ->
  dir_is (dir_puts d (flat_map (ewrites R) E)) (hwrites (H ++ map (pair R) E)) /\
  hist_pre nf files R (H ++ map (pair R) E).
Proof.
  intros Hd (HF & HN') Hr HR HE.
  assert (P : hist_pre nf files R (H ++ map (pair R) E)).
  { split.
    - apply Forall_app. split.
      + eapply Forall_impl; [|exact HF]. cbv beta. intros re (A & B). split; [lia|exact B].
      + destruct HE as (_ & _ & HE & _). rewrite Forall_map. cbn [fst snd].
        eapply Forall_impl; [|exact HE]. cbv beta. intros e He. split; [lia|exact He].
    - rewrite map_app. apply NoDup_app_intro; [exact HN'| |].
      + destruct HE as (HE & _). rewrite map_map. unfold hkey. cbn [fst snd].
        rewrite <- (map_map ekey (fun k => (R, k))).
        apply NoDup_map_inj_in; [exact HE|]. intros a b _ _ E0. now injection E0.
      + intros k Hk Hk'. apply in_map_iff in Hk. destruct Hk as (re & <- & Hre).
        apply in_map_iff in Hk'. destruct Hk' as (re' & E0 & Hre').
        apply in_map_iff in Hre'. destruct Hre' as (e & <- & _).
        rewrite Forall_forall in HF. destruct (HF re Hre) as ((_ & A) & _).
        unfold hkey in E0. cbn [fst snd] in E0. injection E0 as E0 _. lia. }
  split; [|exact P].
  rewrite hwrites_app, hwrites_round. apply dir_is_puts; [exact Hd|].
  rewrite <- hwrites_round, <- hwrites_app. destruct P as (PF & PN).
  apply (hwrites_names_nodup nf files); [|exact PN].
  eapply Forall_impl; [|exact PF]. cbv beta. intros re ((A & _) & _). lia.
Qed.

(* [merging_round] with the history exposed, plus: the round only coarsens *)
Lemma merging_round_hist d R d' H :
  2 <= R -> dir_is d (hwrites H) -> hist_pre nf files (R - 1) H ->
  round_ok nf files (entries_of (R - 1) H) ->
  run_tasks d (merging_tasks fexp c d R all_rows) = Some d' ->
  exists E, d' = dir_puts d (flat_map (ewrites R) E) /\ round_ok nf files E /\
    coarsens split (hlists (R - 1) H) (elists E).
Proof.
  intros HR Hd HP HE Hrun. apply run_tasks_some in Hrun. destruct Hrun as (wss & Emap & ->).
  unfold merging_tasks in Emap. apply map_eq_Forall2 in Emap.
  destruct (prev_pairs_hist d (R - 1) H ltac:(lia) Hd (hist_nonneg _ H HP) HE) as (ks & P & _ & RP).
  remember (entries_of (R - 1) H) as E0 eqn:EE0.
  destruct HE as (A1 & A2 & A3 & A4).
  destruct (batches_spec d (R - 1) (m_bin c)) as (B1 & B2).
  remember (batched (m_bin c) (prev_pairs d (R - 1))) as bs eqn:Ebs.
  remember (batches d (R - 1) (m_bin c)) as inputs eqn:Ei.
  pose (ids := fun b : string * list (string * string) => ids_of (read_pairs d (snd b))).
  assert (PJ : Permutation (concat (map (fun b => read_pairs d (snd b)) inputs)) (map epair E0)).
  { rewrite <- (map_map snd (read_pairs d)), B2, map_map.
    etransitivity; [apply concat_map_perm; intros x _; apply read_pairs_perm, sort_batch_perm|].
    rewrite <- read_pairs_concat, Ebs, batched_concat by exact Hbin. rewrite RP.
    apply Permutation_map, P. }
  assert (IDS : Permutation (concat (map ids inputs)) (zseq 0 (Z.to_nat N))).
  { unfold ids. rewrite <- (map_map (fun b => read_pairs d (snd b)) ids_of), <- ids_of_concat.
    etransitivity; [apply ids_of_perm; exact PJ|exact A4]. }
  assert (Hok : forall b, In b inputs -> Forall (ok_pair G nf) (read_pairs d (snd b))).
  { intros b Hin. apply Forall_forall. intros p Hp.
    assert (Hp' : In p (map epair E0)).
    { apply (Permutation_in _ PJ). eapply in_concat_of; [|exact Hp].
      apply (in_map (fun b => read_pairs d (snd b))). exact Hin. }
    apply in_map_iff in Hp'. destruct Hp' as (e & <- & He). rewrite Forall_forall in A3. auto. }
  assert (Hlen : forall b, In b inputs -> zlen (ids_of (read_pairs d (snd b))) < 2 ^ 64).
  { intros b Hin.
    assert (Hle : (List.length (ids b) <= List.length (concat (map ids inputs)))%nat).
    { apply length_concat_le. apply in_map. exact Hin. }
    rewrite (Permutation_length IDS), zseq_length in Hle. fold (ids b).
    unfold zlen. pose proof (N_nat files) as NN. unfold N, all_rows, zlen in *. lia. }
  assert (F : Forall2 (fun b ws => task_out G nf R (fst b) ws (ids b)) inputs wss).
  { eapply Forall2_impl_in; [exact Emap|]. intros b ws Hin _ Hf. cbv beta in Hf.
    assert (Hsub : forall i, In i (ids b) -> In i (zseq 0 (Z.to_nat N))).
    { intros i Hi'. apply (Permutation_in _ IDS). eapply in_concat_of; [|exact Hi'].
      apply in_map. exact Hin. }
    apply (merging_task_ok fexp G nf Hnf) in Hf;
      [exact Hf|exact Hbf|apply Hok, Hin|apply Hlen, Hin|].
    intros _. split; [exact (all_rows_len nf files Hrows)|]. intros i Hi'. fold (ids b) in Hi'.
    apply Hsub, In_zseq in Hi'.
    assert (Hr : 0 <= i < N) by (pose proof (N_nat files); unfold N, all_rows, zlen in *; lia).
    split; [exact Hr|apply (G_nth nf files c Hbin), Hr]. }
  assert (FC : Forall2 (fun b ws => coarsens split (pair_lists (read_pairs d (snd b))) (ws_lists ws))
                       inputs wss).
  { eapply Forall2_impl_in; [exact Emap|]. intros b ws Hin _ Hf. cbv beta in Hf.
    exact (merging_task_coarsens fexp G nf Hnf c R (fst b) _ all_rows ws Hbf (Hok b Hin)
             (Hlen b Hin) Hf). }
  destruct (idx_labels_facts nf files c Hbin (List.length bs)) as (LN & LL).
  destruct (round_from_tasks nf files fst ids R inputs wss F ltac:(rewrite B1; exact LN))
    as (E & E1 & E2 & E3 & E4 & E5).
  exists E. refine (conj _ (conj _ _)).
  - now rewrite E1.
  - apply (round_ok_intro nf files E (map fst inputs) (slen (str_of_Z (Z.of_nat (List.length bs)))));
      try assumption.
    + rewrite B1. exact LL.
    + etransitivity; [exact E5|exact IDS].
  - rewrite <- (ws_lists_ewrites R E E4), <- E1. unfold hlists. rewrite <- EE0. intros l Hl.
    unfold elists in Hl.
    apply (pair_lists_perm _ _ (Permutation_sym PJ)) in Hl.
    apply In_pair_lists in Hl. destruct Hl as (p & Hp & Hl).
    apply in_concat in Hp. destruct Hp as (ps & Hps & Hp).
    apply in_map_iff in Hps. destruct Hps as (b & <- & Hb).
    destruct (Forall2_In_l _ _ _ b FC Hb) as (ws & Hws & Hco).
    destruct (Hco l) as [(l' & Hl' & Hinc)|(Hs & Hsing)].
    + apply In_pair_lists. eauto.
    + left. exists l'. split; [|exact Hinc]. eapply ws_lists_concat; eassumption.
    + right. split; [exact Hs|]. intros i Hi. eapply ws_lists_concat; [exact Hws|]. apply Hsing, Hi.
Qed.

(* the state of the directory after round R: every round so far is remembered, and each
   round only coarsens the previous one *)
Definition cinv (d : dir) (R : Z) : Prop :=
  exists H, dir_is d (hwrites H) /\ hist_pre nf files R H /\
    (forall r, 1 <= r <= R -> round_ok nf files (entries_of r H)) /\
    (forall r, 1 <= r < R -> coarsens split (hlists r H) (hlists (r + 1) H)).

Lemma cinv_rinv d R : 1 <= R -> cinv d R -> rinv nf files d R.
Proof. intros HR (H & A & B & C & _). exists H. refine (conj A (conj B _)). apply C. lia. Qed.

Lemma cinv_init d : rinv nf files d 1 -> cinv d 1.
Proof.
  intros (H & A & B & C). exists H. refine (conj A (conj B (conj _ _))).
  - intros r Hr. now replace r with 1 by lia.
  - intros r Hr. lia.
Qed.

Lemma cinv_step d R d' :
  2 <= R -> cinv d (R - 1) ->
  run_tasks d (merging_tasks fexp c d R all_rows) = Some d' -> cinv d' R.
Proof.
  intros HR (H & Hd & HP & HO & HC) Hrun.
  destruct (merging_round_hist d R d' H HR Hd HP (HO (R - 1) ltac:(lia)) Hrun)
    as (E & -> & HE & HCo).
  destruct (hist_step d (R - 1) H R E Hd HP ltac:(lia) ltac:(lia) HE) as (Hd' & HP').
  assert (Hold : entries_of R H = []).
  { apply (entries_of_old nf files c Hbin (R - 1) R H); [|lia].
    destruct HP as (HF & _). eapply Forall_impl; [|exact HF]. cbv beta. intros re ((_ & A) & _).
    exact A. }
  assert (Enew : entries_of R (H ++ map (pair R) E) = E).
  { now rewrite entries_of_app, entries_of_round, Hold. }
  assert (Eold : forall r, r <> R -> entries_of r (H ++ map (pair R) E) = entries_of r H).
  { intros r Hr. now rewrite entries_of_app, entries_of_other, app_nil_r. }
  exists (H ++ map (pair R) E)%list. refine (conj Hd' (conj HP' (conj _ _))).
  - intros r Hr. destruct (Z.eq_dec r R) as [->|Hne].
    + now rewrite Enew.
    + rewrite Eold by exact Hne. apply HO. lia.
  - intros r Hr. unfold hlists. destruct (Z.eq_dec (r + 1) R) as [Heq|Hne].
    + rewrite Heq, Enew, Eold by lia. replace r with (R - 1) by lia. exact HCo.
    + rewrite !Eold by lia. apply HC. lia.
Qed.

Lemma mid_rounds_cinv k : forall R d d',
  2 <= R -> cinv d (R - 1) ->
  mid_rounds fexp c all_rows k R d = Some d' -> cinv d' (R - 1 + Z.of_nat k).
Proof.
  induction k as [|k IH]; intros R d d' HR Hi Hm; cbn [mid_rounds] in Hm.
  - injection Hm as <-. now rewrite Z.add_0_r.
  - destruct (run_tasks d (merging_tasks fexp c d R all_rows)) as [d1|] eqn:E1; [|discriminate].
    pose proof (cinv_step d R d1 HR Hi E1) as Hi1.
    replace (R - 1 + Z.of_nat (S k)) with (R + 1 - 1 + Z.of_nat k) by lia.
    apply (IH (R + 1) d1 d'); [lia| |exact Hm]. now replace (R + 1 - 1) with R by lia.
Qed.

Lemma run_multiround_open_c d :
  run_multiround fexp c files [] = Some d ->
  exists d3 ws,
    cinv d3 (1 + Z.of_nat (m_rounds c)) /\
    final_task fexp c (read_pairs d3 (prev_pairs d3 (1 + Z.of_nat (m_rounds c)))) = Some ws /\
    d = (if m_cleanup c then dir_remove (dir_puts d3 ws) is_round_file else dir_puts d3 ws).
Proof.
  unfold run_multiround. change (dir_remove [] is_purged) with (@nil (string * content)).
  destruct (run_tasks [] (initial_tasks fexp c files)) as [d2|] eqn:E2; [|discriminate].
  fold all_rows.
  destruct (mid_rounds fexp c all_rows (m_rounds c) 2 d2) as [d3|] eqn:E3; [|discriminate].
  replace (2 + Z.of_nat (m_rounds c) - 1) with (1 + Z.of_nat (m_rounds c)) by lia.
  destruct (final_task fexp c _) as [ws|] eqn:E4; [|discriminate].
  intros E. injection E as <-. exists d3, ws. refine (conj _ (conj E4 eq_refl)).
  pose proof (initial_round fexp nf files c Hnf Hrows HN Hbf Hbin d2 E2) as I1.
  pose proof (mid_rounds_cinv (m_rounds c) 2 d2 d3 ltac:(lia) (cinv_init d2 I1) E3) as I3.
  now replace (2 - 1 + Z.of_nat (m_rounds c)) with (1 + Z.of_nat (m_rounds c)) in I3 by lia.
Qed.

(* ================= 4. the final directory ================= *)
(* files whose names match none of the globs of round r do not disturb what is collected *)
Lemma filter_names_put (p : string -> bool) d n x :
  p n = false -> filter p (dir_names (dir_put d n x)) = filter p (dir_names d).
Proof.
  intros Hp. unfold dir_names. induction d as [|[m y] d IH]; cbn [dir_put map fst filter].
  - now rewrite Hp.
  - destruct (String.eqb_spec m n) as [->|Hne].
    + cbn [map fst filter]. reflexivity.
    + destruct (str_ltb n m); cbn [map fst filter].
      * now rewrite Hp.
      * now rewrite IH.
Qed.

Lemma read_pairs_put d n x ps :
  (forall p, In p ps -> fst p <> n /\ snd p <> n) ->
  read_pairs (dir_put d n x) ps = read_pairs d ps.
Proof.
  unfold read_pairs. induction ps as [|p ps IH]; intros Hp; cbn [flat_map]; [reflexivity|].
  destruct (Hp p (or_introl eq_refl)) as (A & B). rewrite !dir_get_put.
  destruct (String.eqb_spec (fst p) n); [congruence|].
  destruct (String.eqb_spec (snd p) n); [congruence|].
  rewrite IH; [reflexivity|]. intros q Hq. apply Hp. now right.
Qed.

Lemma round_lists_put d n x r :
  is_bufs_of r n = false -> is_idxs_of r n = false ->
  round_lists (dir_put d n x) r = round_lists d r.
Proof.
  intros Hb Hi. unfold round_lists.
  assert (E : prev_pairs (dir_put d n x) r = prev_pairs d r).
  { unfold prev_pairs. now rewrite !filter_names_put. }
  rewrite E, read_pairs_put; [reflexivity|].
  intros [a b] Hp. unfold prev_pairs in Hp. cbn [fst snd].
  pose proof (in_combine_l _ _ _ _ Hp) as Ha. pose proof (in_combine_r _ _ _ _ Hp) as Hb'.
  apply filter_In in Ha, Hb'. split; intros ->; destruct Ha, Hb'; congruence.
Qed.

Lemma coarsens_iff s a a' b b' :
  (forall l, In l a <-> In l a') -> (forall l, In l b <-> In l b') ->
  coarsens s a b -> coarsens s a' b'.
Proof.
  intros Ha Hb Hco l Hl. apply Ha in Hl. destruct (Hco l Hl) as [(l' & Hl' & Hi)|(Hs & Hsing)].
  - left. exists l'. split; [apply Hb, Hl'|exact Hi].
  - right. split; [exact Hs|]. intros i Hi. apply Hb, Hsing, Hi.
Qed.

(* M3: with the intermediate files kept, the final directory shows that every tree-merging
   round, and the final round, only coarsen what the previous round stored *)
Theorem multiround_coarsens d :
  m_cleanup c = false -> run_multiround fexp c files [] = Some d ->
  let rl := 1 + Z.of_nat (m_rounds c) in
  (forall r, 1 <= r < rl ->
     forall l, In l (round_lists d r) ->
       (exists l', In l' (round_lists d (r + 1)) /\ incl l l') \/
       (m_split_after c = true /\ forall i, In i l -> In [i] (round_lists d (r + 1)))) /\
  exists cl, dir_get d "clusters.pkl" = Some (CClusters cl) /\
    forall l, In l (round_lists d rl) -> exists k, In k cl /\ incl l k.
Proof.
  intros Hc Hrun. cbv zeta.
  destruct (run_multiround_open_c d Hrun) as (d3 & ws & I3 & E4 & ->). rewrite Hc.
  pose proof (cinv_rinv d3 (1 + Z.of_nat (m_rounds c)) ltac:(lia) I3) as R3.
  destruct (handed_over_ok nf files d3 (1 + Z.of_nat (m_rounds c)) ltac:(lia) R3) as (Hok & Hids).
  assert (Hlen : zlen (ids_of (read_pairs d3 (prev_pairs d3 (1 + Z.of_nat (m_rounds c))))) < 2 ^ 64).
  { unfold zlen. rewrite (Permutation_length Hids), zseq_length.
    pose proof (N_nat files). unfold N, all_rows, zlen in *. lia. }
  pose proof E4 as E4'.
  apply (final_task_ok fexp (Gmap nf files) nf Hnf) in E4'; [|exact Hbf|exact Hok|exact Hlen].
  destruct E4' as (cl & cs & Ews & _).
  assert (Hsame : forall r, round_lists (dir_puts d3 ws) r = round_lists d3 r).
  { intros r. rewrite Ews.
    destruct (m_save_centroids c); cbn [app dir_puts fold_left fst snd];
      rewrite !round_lists_put by reflexivity; reflexivity. }
  destruct I3 as (H & Hd & HP & HO & HC). split.
  - intros r Hr. rewrite !Hsame.
    apply (coarsens_iff _ (hlists r H) _ (hlists (r + 1) H)); [| |apply HC, Hr].
    + intros l. symmetry. apply (round_lists_hist d3 r (1 + Z.of_nat (m_rounds c)) H); [lia|exact Hd|exact HP|apply HO; lia].
    + intros l. symmetry.
      apply (round_lists_hist d3 (r + 1) (1 + Z.of_nat (m_rounds c)) H); [lia|exact Hd|exact HP|apply HO; lia].
  - exists cl. split.
    + rewrite Ews. exact (proj1 (final_dir d3 (m_save_centroids c) cs cl)).
    + rewrite Hsame. intros l Hl.
      apply (final_task_coarsens fexp (Gmap nf files) nf Hnf c _ ws cl Hbf Hok Hlen E4); [|exact Hl].
      rewrite Ews. apply in_or_app. right. now left.
Qed.

(* M4: without splitting, whatever one round groups together is together in the result *)
Theorem multiround_stay_together d :
  m_cleanup c = false -> m_split_after c = false ->
  run_multiround fexp c files [] = Some d ->
  exists cl, dir_get d "clusters.pkl" = Some (CClusters cl) /\
    forall r l, 1 <= r <= 1 + Z.of_nat (m_rounds c) -> In l (round_lists d r) ->
      (exists k, In k cl /\ incl l k) /\ forall i j, In i l -> In j l -> together cl i j.
Proof.
  intros Hc Hs Hrun. destruct (multiround_coarsens d Hc Hrun) as (Hmid & cl & Hcl & Hfin).
  cbv zeta in *. exists cl. split; [exact Hcl|].
  assert (Hall : forall n r, (1 + Z.of_nat (m_rounds c)) - r = Z.of_nat n -> 1 <= r ->
                   forall l, In l (round_lists d r) -> exists k, In k cl /\ incl l k).
  { induction n as [|n IH]; intros r En Hr l Hl.
    - replace r with (1 + Z.of_nat (m_rounds c)) in Hl by lia. apply Hfin, Hl.
    - destruct (Hmid r ltac:(lia) l Hl) as [(l' & Hl' & Hi)|(Hs' & _)]; [|congruence].
      destruct (IH (r + 1) ltac:(lia) ltac:(lia) l' Hl') as (k & Hk & Hik).
      exists k. split; [exact Hk|]. eapply incl_tran; eassumption. }
  intros r l Hr Hl.
  destruct (Hall (Z.to_nat (1 + Z.of_nat (m_rounds c) - r)) r ltac:(lia) ltac:(lia) l Hl)
    as (k & Hk & Hik).
  split; [eauto|]. intros i j Hi Hj. exists k. auto.
Qed.

(* [round_lists d r] is what it should be: the member lists of every index file of round r *)
Lemma round_lists_glob_hist d r R H :
  1 <= r -> dir_is d (hwrites H) -> hist_pre nf files R H ->
  round_ok nf files (entries_of r H) ->
  forall l, In l (round_lists d r) <->
    exists n ids, is_idxs_of r n = true /\ dir_get d n = Some (CIdxs ids) /\ In l ids.
Proof.
  intros Hr Hd HP HE l. rewrite (round_lists_hist d r R H Hr Hd HP HE).
  destruct (round_globs nf files d r H ltac:(lia) Hd (hist_nonneg R H HP)) as (_ & GI & GW).
  unfold hlists, elists. rewrite In_pair_lists. split.
  - intros (p & Hp & Hl). apply in_map_iff in Hp. destruct Hp as (e & <- & He).
    destruct (GW e He) as (_ & Gi).
    destruct (snd (epair e)) as [|ids| | |] eqn:Es; try destruct Hl.
    exists (eidxs r e), ids. refine (conj _ (conj Gi Hl)). apply is_idxs_of_idxs.
  - intros (n & ids & Hn & Hg & Hl).
    assert (Hin : In n (filter (is_idxs_of r) (dir_names d))).
    { apply filter_In. split; [|exact Hn]. apply dir_get_names. eauto. }
    apply GI in Hin. destruct Hin as (e & He & ->). destruct (GW e He) as (_ & Gi).
    exists (epair e). split; [apply in_map, He|].
    rewrite Gi in Hg. injection Hg as ->. exact Hl.
Qed.

Theorem round_lists_glob d :
  m_cleanup c = false -> run_multiround fexp c files [] = Some d ->
  forall r, 1 <= r <= 1 + Z.of_nat (m_rounds c) ->
  forall l, In l (round_lists d r) <->
    exists n ids, is_idxs_of r n = true /\ dir_get d n = Some (CIdxs ids) /\ In l ids.
Proof.
  intros Hc Hrun r Hr l.
  destruct (run_multiround_open_c d Hrun) as (d3 & ws & I3 & E4 & ->). rewrite Hc.
  pose proof (cinv_rinv d3 (1 + Z.of_nat (m_rounds c)) ltac:(lia) I3) as R3.
  destruct (handed_over_ok nf files d3 (1 + Z.of_nat (m_rounds c)) ltac:(lia) R3) as (Hok & Hids).
  apply (final_task_ok fexp (Gmap nf files) nf Hnf) in E4; [|exact Hbf|exact Hok|].
  2:{ unfold zlen. rewrite (Permutation_length Hids), zseq_length.
      pose proof (N_nat files). unfold N, all_rows, zlen in *. lia. }
  destruct E4 as (cl & cs & -> & _).
  assert (Hsame : round_lists (dir_puts d3 ((if m_save_centroids c
              then [("cluster-centroids-packed.pkl"%string, CCentroids cs)] else []) ++
              [("clusters.pkl"%string, CClusters cl)])) r = round_lists d3 r).
  { destruct (m_save_centroids c); cbn [app dir_puts fold_left fst snd];
      rewrite !round_lists_put by reflexivity; reflexivity. }
  rewrite Hsame. destruct I3 as (H & Hd & HP & HO & _).
  rewrite (round_lists_glob_hist d3 r _ H ltac:(lia) Hd HP (HO r Hr)).
  destruct (final_dir d3 (m_save_centroids c) cs cl) as (_ & _ & F3). cbv zeta in F3.
  split; intros (n & ids & Hn & Hg & Hl); exists n, ids; (split; [exact Hn|]);
    (split; [|exact Hl]); rewrite <- Hg; [|symmetry]; apply F3; intros ->; discriminate Hn.
Qed.

End Rounds.
