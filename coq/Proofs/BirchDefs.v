(* BirchDefs.v — state-level invariants and well-formedness of operation histories. *)
From BB Require Import Model.Birch Proofs.ListFacts Proofs.TreeDefs Proofs.TreeRel
     Proofs.TreeShape Proofs.TreeBlocks Proofs.TreeChain Proofs.TreeSums Proofs.TreeBal.
From Coq Require Import Lia Permutation.
Open Scope Z_scope.

(* every leaf sub-cluster stores as count the number of its member labels *)
Definition cnt_ok (s : sub) : Prop := sn s = zlen (sids s).

(* the whole-tree invariant (C08) *)
Definition tree_inv (nf : nat) (r : node) (ax : aux) : Prop :=
  shape nf r /\ chain_ok r ax /\ sums_ok nf r /\ occ_root r /\ (exists d, depth_is d r)
  /\ Forall cnt_ok (lsubs r).

Definition st_inv (st : state) : Prop :=
  2 <= c_bf (cfg st) /\
  match root st with
  | None => nfit st = 0 /\ released st = false
  | Some r =>
      Z.of_nat (nfeat st) < 2 ^ 52 /\
      tree_inv (nfeat st) r (sax st) /\
      nfit st = tot_n (lsubs r) /\ 0 <= nfit st < 2 ^ 64
  end.

Definition mem_ids (st : state) : list Z :=
  match root st with Some r => members r | None => [] end.
Definition st_blocks (st : state) : list (list Z) :=
  match root st with Some r => blocks r | None => [] end.

(* documented use of the API *)
Definition row_ok (nf : nat) (r : option fpv) : Prop :=
  match r with Some fp => length fp = nf | None => True end.

Definition op_wf (st : state) (o : op) : Prop :=
  match o with
  | OFit rows labels =>
      labels = None /\                                   (* default numbering *)
      (match root st with
       | Some _ => Forall (row_ok (nfeat st)) rows
       | None => match rows with
                 | Some fp :: _ => Forall (row_ok (length fp)) rows /\ Z.of_nat (length fp) < 2 ^ 52
                 | _ => True
                 end
       end) /\
      nfit st + zlen rows < 2 ^ 64
  | ORefine X _ _ => Forall (fun fp => length fp = nfeat st) X
  | ORecluster _ _ perms _ => True
  | OSetCfg _ _ bf => match bf with Some b => 2 <= b | None => True end
  | ODeleteInternal => True
  | OReset => True
  end.

Section WithExp.
Variable fexp : float -> float.

Fixpoint ops_wf (st : state) (ops : list op) : Prop :=
  match ops with
  | [] => True
  | o :: tl => op_wf st o /\ ops_wf (fst (step fexp st o)) tl
  end.

Definition run_from (st : state) (ops : list op) : state :=
  fold_left (fun st o => fst (step fexp st o)) ops st.
End WithExp.

(* two labels are in the same block *)
Definition together (B : list (list Z)) (i j : Z) : Prop :=
  exists b, In b B /\ In i b /\ In j b.
