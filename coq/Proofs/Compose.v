(* Compose.v — compositions of already proved facts:
   "the stored centroid is centroid_fpv of the exact column sums"  (C02, C05)  with
   "centroid_fpv is the per-bit majority, ties set"                (C09, FloatFacts)
   gives: bit j of every reported centroid is set iff at least half of the members have
   bit j set.  Plus two non-vacuity examples (C14, C07). *)
From Coq Require Import String.
From BB Require Import Model.Birch Model.Multiround Model.Spec
     Proofs.ListFacts Proofs.FloatFacts Proofs.TreeDefs Proofs.TreeRel Proofs.TreeShape
     Proofs.TreeBlocks Proofs.TreeChain Proofs.TreeSums Proofs.TreeBal
     Proofs.BirchDefs Proofs.SimMax Proofs.BirchInv Proofs.BirchRebuild Proofs.BirchData
     Proofs.MrDir Proofs.MrPartition.
From BB Require Proofs.BirchData Proofs.BirchBound Proofs.MrRerun Proofs.SpecRefine.
From Coq Require Import Lia Permutation Sorted.
Open Scope Z_scope.

(* ================= B1. column sums of binary rows are bounded by the row count ========== *)
Lemma cstep_bounds : forall (f : fpv) acc m,
  Forall (fun k => 0 <= k <= m) acc ->
  Forall (fun k => 0 <= k <= m + 1) (map2 Z.add acc (map b2z f)).
Proof.
  intros f acc m H. revert f. induction H as [|a acc Ha _ IH]; intros f.
  - destruct f; constructor.
  - destruct f as [|b f]; cbn [map map2]; constructor.
    + destruct b; cbn [b2z]; lia.
    + apply IH.
Qed.

Lemma fold_cstep_bounds : forall (rows : list fpv) acc m,
  Forall (fun k => 0 <= k <= m) acc ->
  Forall (fun k => 0 <= k <= m + zlen rows)
         (fold_left (fun acc f => map2 Z.add acc (map b2z f)) rows acc).
Proof.
  induction rows as [|r rows IH]; intros acc m H; cbn [fold_left].
  - unfold zlen; cbn [length]. replace (m + Z.of_nat 0) with m by lia. exact H.
  - replace (m + zlen (r :: rows)) with ((m + 1) + zlen rows)
      by (unfold zlen; cbn [length]; lia).
    apply IH. apply cstep_bounds. exact H.
Qed.

(* no condition on the row lengths: [map2] truncates, the bound survives *)
Theorem colsum_bounds : forall nf rows,
  Forall (fun k => 0 <= k <= zlen rows) (colsum nf rows).
Proof.
  intros nf rows. unfold colsum.
  replace (zlen rows) with (0 + zlen rows) by lia.
  apply fold_cstep_bounds. apply Forall_forall. intros k Hk.
  apply repeat_spec in Hk. lia.
Qed.

(* ================= B2. the centroid of exact sums is the per-bit majority ================ *)
(* [centroid_majority] extended to n = 1 (the [n <= 1] branch of [centroid_vals]: the uint8
   cast of the sums, then "non-zero") *)
Lemma centroid_majority1 : forall ls n, 1 <= n < 2^53 ->
  Forall (fun k => 0 <= k <= n) ls ->
  centroid_fpv ls n = map (fun k => n <=? 2 * k) ls.
Proof.
  intros ls n Hn Hls.
  destruct (Z.eq_dec n 1) as [->|Hne].
  - unfold centroid_fpv, centroid_vals. change (1 <=? 1) with true. cbv iota.
    rewrite map_map. apply map_ext_in. intros k Hk.
    rewrite Forall_forall in Hls. specialize (Hls k Hk).
    assert (E : k = 0 \/ k = 1) by lia. destruct E as [-> | ->]; reflexivity.
  - apply centroid_majority; [lia|exact Hls].
Qed.

(* the strong form: no hypothesis on the row lengths *)
Theorem centroid_is_majority_gen : forall nf rows,
  1 <= zlen rows < 2^53 ->
  centroid_fpv (colsum nf rows) (zlen rows) =
  map (fun k => zlen rows <=? 2 * k) (colsum nf rows).
Proof.
  intros nf rows Hn. apply centroid_majority1; [exact Hn|apply colsum_bounds].
Qed.

(* the statement as requested (the row-length hypothesis is not used) *)
Theorem centroid_is_majority : forall nf rows,
  Forall (fun r : fpv => length r = nf) rows -> 1 <= zlen rows < 2^53 ->
  centroid_fpv (colsum nf rows) (zlen rows) =
  map (fun k => zlen rows <=? 2 * k) (colsum nf rows).
Proof. intros nf rows _. apply centroid_is_majority_gen. Qed.

(* the bound 1 <= is needed: the centroid of no rows is all-clear, the "majority" all-set *)
Example centroid_is_majority_needs_row :
  centroid_fpv (colsum 2 []) (zlen (@nil fpv)) = [false; false] /\
  map (fun k => zlen (@nil fpv) <=? 2 * k) (colsum 2 []) = [true; true].
Proof. vm_compute. split; reflexivity. Qed.

(* what the column sums count, for rows of the right length: the number of rows with bit j *)
Lemma nth_map2_add : forall (f : fpv) acc j, length f = length acc ->
  nth j (map2 Z.add acc (map b2z f)) 0 = nth j acc 0 + b2z (nth j f false).
Proof.
  intros f acc. revert f. induction acc as [|a acc IH]; intros f j Hl.
  - destruct f; [|discriminate]. destruct j; reflexivity.
  - destruct f as [|b f]; [discriminate|]. cbn [map map2].
    destruct j as [|j]; cbn [nth]; [reflexivity|]. apply IH. cbn [length] in Hl. lia.
Qed.

Lemma map2_add_length : forall (f : fpv) acc, length f = length acc ->
  length (map2 Z.add acc (map b2z f)) = length acc.
Proof.
  intros f acc. revert f. induction acc as [|a acc IH]; intros f Hl.
  - destruct f; reflexivity.
  - destruct f as [|b f]; [discriminate|]. cbn [map map2 length]. f_equal. apply IH.
    cbn [length] in Hl. lia.
Qed.

Definition bit_count (j : nat) (rows : list fpv) : Z :=
  zlen (filter (fun r : fpv => nth j r false) rows).

Lemma fold_cstep_nth : forall (rows : list fpv) acc j,
  Forall (fun r : fpv => length r = length acc) rows ->
  nth j (fold_left (fun acc f => map2 Z.add acc (map b2z f)) rows acc) 0 =
  nth j acc 0 + bit_count j rows.
Proof.
  induction rows as [|r rows IH]; intros acc j H; cbn [fold_left].
  - unfold bit_count, zlen. cbn. lia.
  - inversion H as [|? ? Hr Hrows]; subst.
    rewrite IH.
    + rewrite nth_map2_add by exact Hr. unfold bit_count, zlen. cbn [filter].
      destruct (nth j r false); cbn [b2z length]; lia.
    + rewrite map2_add_length by exact Hr. exact Hrows.
Qed.

Theorem colsum_counts : forall nf rows j,
  Forall (fun r : fpv => length r = nf) rows ->
  nth j (colsum nf rows) 0 = bit_count j rows.
Proof.
  intros nf rows j H. unfold colsum. rewrite fold_cstep_nth.
  - assert (E : nth j (repeat 0 nf) 0 = 0).
    { clear. revert j. induction nf as [|n IH]; intros [|j]; cbn; auto. }
    rewrite E. lia.
  - rewrite repeat_length. exact H.
Qed.

Lemma colsum_length : forall nf rows,
  Forall (fun r : fpv => length r = nf) rows -> length (colsum nf rows) = nf.
Proof.
  intros nf rows H. unfold colsum.
  assert (G : forall acc, Forall (fun r : fpv => length r = length acc) rows ->
    length (fold_left (fun acc f => map2 Z.add acc (map b2z f)) rows acc) = length acc).
  { clear. induction rows as [|r rows IH]; intros acc H; cbn [fold_left]; [reflexivity|].
    inversion H as [|? ? Hr Hrows]; subst.
    rewrite IH; rewrite map2_add_length by exact Hr; [reflexivity|exact Hrows]. }
  rewrite G; rewrite repeat_length; [reflexivity|exact H].
Qed.

(* bit j of the centroid of [rows] is set iff at least half of the rows have bit j set *)
Theorem centroid_bit_majority : forall nf rows j,
  Forall (fun r : fpv => length r = nf) rows -> 1 <= zlen rows < 2^53 -> (j < nf)%nat ->
  nth j (centroid_fpv (colsum nf rows) (zlen rows)) false = true <->
  zlen rows <= 2 * bit_count j rows.
Proof.
  intros nf rows j Hl Hn Hj. rewrite centroid_is_majority_gen by exact Hn.
  rewrite <- (colsum_counts nf rows j Hl).
  assert (Hj' : (j < length (colsum nf rows))%nat) by (rewrite colsum_length; assumption).
  set (g := fun k => zlen rows <=? 2 * k).
  rewrite (nth_indep _ false (g 0)) by (rewrite map_length; exact Hj').
  rewrite (map_nth g). unfold g. apply Z.leb_le.
Qed.

(* ================= B3a. every leaf sub-cluster has at least one member =================
(* No existing invariant bounds [sn s] from below ([cnt_ok] only says sn s = zlen (sids s)), so
   the lower bound needed by B3 is established here, with the same lifting as [leaves_data]
   in BirchData.v (instance of [insert_root_leafP], then fit / rebuild / recluster / refine /
   step / run). *) *)
Definition pos_ok (s : sub) : Prop := 1 <= sn s.
Definition leaves_pos (st : state) : Prop :=
  match root st with Some r => Forall pos_ok (lsubs r) | None => True end.

Lemma leaves_pos_none st : root st = None -> leaves_pos st.
Proof. intros H. unfold leaves_pos. now rewrite H. Qed.
Lemma leaves_pos_same st st1 : root st1 = root st -> leaves_pos st -> leaves_pos st1.
Proof. intros E. unfold leaves_pos. now rewrite E. Qed.

Section Pos.
Variable fexp : float -> float.

Lemma merge_pos c thr s t m :
  length (sls s) = length (sls t) -> sub_exact s -> sub_exact t -> sn s + sn t < 2^64 ->
  pos_ok s -> pos_ok t -> merge_sub fexp c thr s t = Some m -> pos_ok m.
Proof.
  intros Hl Es Et Hb Ps Pt Hm.
  destruct (merge_sub_exact fexp c thr s t m Hl Es Et Hb Hm) as (_ & M2 & _).
  unfold pos_ok in *. lia.
Qed.

Lemma insert_st_pos st cf s dn r :
  st_inv st -> root st = Some r -> 2 <= c_bf cf ->
  sub_len (nfeat st) s -> sub_exact s -> nfit st + sn s < 2 ^ 64 ->
  leaves_pos st -> pos_ok s ->
  leaves_pos (insert_st fexp cf st s dn).
Proof.
  intros Hinv Hr Hbf Ls Es Hb HL Ds. unfold leaves_pos in HL |- *. unfold insert_st.
  rewrite Hr in HL |- *.
  destruct Hinv as (Hc & Hinv). rewrite Hr in Hinv.
  destruct Hinv as (Hnf & (Hsh & _ & Hsu & _) & Hn & Hn0).
  destruct (insert_root fexp (nfeat st) (c_crit cf) (c_thr cf) (c_bf cf) r s (sax st))
    as [r' ax'] eqn:Hi.
  cbn [root nfeat]. rewrite Hn in Hb.
  pose proof (sim_max_nf (nfeat st) Hnf) as Hsim.
  assert (Hbf1 : 1 <= c_bf cf) by lia.
  exact (insert_root_leafP fexp (nfeat st) _ _ Hsim pos_ok (merge_pos _ _)
           _ _ _ _ _ _ Hbf1 Hsh Hsu HL Ls Es Ds Hb Hi).
Qed.

Lemma fit_rows_pos cf rows : forall st labs,
  st_inv st -> root st <> None -> 2 <= c_bf cf ->
  Forall (row_ok (nfeat st)) rows -> nfit st + zlen rows < 2 ^ 64 ->
  leaves_pos st ->
  leaves_pos (fst (fit_rows fexp cf st rows labs)).
Proof.
  induction rows as [|row rows IH]; intros st labs Hinv Hr Hbf Hrows Hb HL.
  - cbn [fit_rows fst]. exact HL.
  - inversion Hrows as [|? ? Hrow Hrows']; subst.
    rewrite zlen_cons in Hb. pose proof (zlen_nonneg rows) as Hz.
    destruct row as [fp|]; destruct labs as [|l labs]; cbn [fit_rows fst]; try exact HL.
    destruct (root st) as [r|] eqn:Er; [|congruence].
    cbn [row_ok] in Hrow.
    destruct (singleton_good (nfeat st) fp l Hrow) as (G1 & G2 & G3).
    destruct (insert_st_inv fexp st cf (singleton fp l) 1 r Hinv Er Hbf G1 G2 G3 eq_refl ltac:(lia))
      as (I1 & I2 & I3 & I4 & I5 & I6 & I7).
    assert (Ds : pos_ok (singleton fp l)) by (unfold pos_ok; cbn [singleton sn]; lia).
    assert (Hb1 : nfit st + sn (singleton fp l) < 2 ^ 64) by (cbn [singleton sn]; lia).
    pose proof (insert_st_pos st cf (singleton fp l) 1 r Hinv Er Hbf G1 G2 Hb1 HL Ds) as HL1.
    remember (insert_st fexp cf st (singleton fp l) 1) as st1 eqn:Est1.
    rewrite <- I3 in Hrows'.
    apply (IH st1 labs I1 I5 Hbf Hrows' ltac:(lia) HL1).
Qed.

Lemma do_fit_pos st rows :
  st_inv st -> nf_ok st -> op_wf st (OFit rows None) ->
  leaves_pos st ->
  leaves_pos (fst (do_fit fexp st rows None)).
Proof.
  intros Hinv Hnf (_ & Hrows & Hb) HL. unfold do_fit.
  destruct rows as [|r0 rows]; [cbn [fst]; exact HL|].
  destruct (released st) eqn:Erel; [cbn [fst]; exact HL|].
  unfold is_init.
  destruct (root st) as [r|] eqn:Er.
  - assert (Hr : root st <> None) by congruence.
    apply (fit_rows_pos (cfg st) (r0 :: rows) st _ Hinv Hr (proj1 Hinv) Hrows Hb HL).
  - destruct r0 as [fp|].
    + destruct Hrows as (Hrows & Hfp).
      pose proof (initialize_inv st (length fp) Hinv Er Hfp) as I1.
      remember (initialize st (length fp)) as st1 eqn:Est1.
      assert (E1 : nfit st1 = nfit st) by (subst st1; reflexivity).
      assert (E2 : nfeat st1 = length fp) by (subst st1; reflexivity).
      assert (E3 : root st1 <> None) by (subst st1; discriminate).
      assert (E5 : cfg st1 = cfg st) by (subst st1; reflexivity).
      assert (HL1 : leaves_pos st1) by (subst st1; unfold leaves_pos; cbn; constructor).
      rewrite <- E2 in Hrows. rewrite <- E1 in Hb.
      assert (Hbf1 : 2 <= c_bf (cfg st1)) by (rewrite E5; exact (proj1 Hinv)).
      apply (fit_rows_pos (cfg st1) (Some fp :: rows) st1 _ I1 E3 Hbf1 Hrows Hb HL1).
    + cbn [length zseq fit_rows fst]. unfold leaves_pos, initialize. cbn. constructor.
Qed.

Lemma fit_bufs_pos cf nf w g : forall st,
  st_inv st -> root st <> None -> nfeat st = nf -> 2 <= c_bf cf ->
  Forall (fun b => good_sub nf b /\ sw b = w) g ->
  nfit st + tot_n g < 2 ^ 64 ->
  leaves_pos st -> Forall pos_ok g ->
  leaves_pos (fst (fit_bufs fexp cf st w g)).
Proof.
  induction g as [|b g IH]; intros st Hinv Hr Hnf Hbf Hg Hb HL HD.
  - cbn [fit_bufs fst]. exact HL.
  - pose proof (Forall_inv Hg) as ((G1 & G2 & G3) & Gw). pose proof (Forall_inv_tail Hg) as Hg'.
    pose proof (Forall_inv HD) as Db. pose proof (Forall_inv_tail HD) as HD'.
    subst w.
    rewrite tot_n_cons in Hb.
    assert (Hex : Forall sub_exact g).
    { eapply Forall_impl; [|exact Hg']. cbv beta. intros a ((_ & Hq & _) & _). exact Hq. }
    pose proof (tot_n_nonneg g Hex) as Hg0.
    cbn [fit_bufs]. pose proof G3 as G3'. unfold cnt_ok in G3'.
    rewrite <- G3', Z.eqb_refl, sub_of_buffer_id by exact G2.
    destruct (root st) as [r|] eqn:Er; [|congruence].
    rewrite <- Hnf in G1.
    destruct (insert_st_inv fexp st cf b (sn b) r Hinv Er Hbf G1 G2 G3 eq_refl ltac:(lia))
      as (I1 & I2 & I3 & I4 & I5 & I6 & I7).
    pose proof (insert_st_pos st cf b (sn b) r Hinv Er Hbf G1 G2 ltac:(lia) HL Db) as HL1.
    remember (insert_st fexp cf st b (sn b)) as st1 eqn:Est1.
    apply (IH st1 I1 I5 ltac:(congruence) Hbf Hg' ltac:(lia) HL1 HD').
Qed.

Lemma do_fit_buffers_pos nf w g st :
  st_inv st -> released st = false -> init_for nf st -> Z.of_nat nf < 2 ^ 52 ->
  g <> [] -> Forall (fun b => good_sub nf b /\ sw b = w) g ->
  nfit st + tot_n g < 2 ^ 64 ->
  leaves_pos st -> Forall pos_ok g ->
  leaves_pos (fst (do_fit_buffers fexp st w g)).
Proof.
  intros Hinv Hrel Hinit Hnf Hne Hg Hb HL HD.
  destruct g as [|b0 g]; [congruence|]. unfold do_fit_buffers. rewrite Hrel. unfold is_init.
  destruct (root st) as [r|] eqn:Er.
  - destruct Hinit as [Hi|(_ & Hi)]; [rewrite Er in Hi; discriminate|].
    assert (Hr : root st <> None) by congruence.
    exact (fit_bufs_pos (cfg st) nf w (b0 :: g) st Hinv Hr Hi (proj1 Hinv) Hg Hb HL HD).
  - pose proof (Forall_inv Hg) as (((L0 & _) & _) & _).
    rewrite L0.
    pose proof (initialize_inv st nf Hinv Er Hnf) as I1.
    remember (initialize st nf) as st1 eqn:Est1.
    assert (E1 : nfit st1 = nfit st) by (subst st1; reflexivity).
    assert (E2 : nfeat st1 = nf) by (subst st1; reflexivity).
    assert (E3 : root st1 <> None) by (subst st1; discriminate).
    assert (E5 : cfg st1 = cfg st) by (subst st1; reflexivity).
    assert (HL1 : leaves_pos st1) by (subst st1; unfold leaves_pos; cbn; constructor).
    assert (Hbf1 : 2 <= c_bf (cfg st1)) by (rewrite E5; exact (proj1 Hinv)).
    rewrite <- E1 in Hb.
    exact (fit_bufs_pos (cfg st1) nf w (b0 :: g) st1 I1 E3 E2 Hbf1 Hg Hb HL1 HD).
Qed.

Lemma fit_groups_pos nf gs : forall st,
  st_inv st -> released st = false -> init_for nf st -> Z.of_nat nf < 2 ^ 52 ->
  groups_ok nf gs -> nfit st + tot_n (gsubs gs) < 2 ^ 64 ->
  leaves_pos st -> Forall pos_ok (gsubs gs) ->
  leaves_pos (fst (fit_groups fexp st gs)).
Proof.
  induction gs as [|[w g] gs IH]; intros st Hinv Hrel Hinit Hnf Hgs Hb HL HD.
  - cbn [fit_groups fst]. exact HL.
  - pose proof (Forall_inv Hgs) as (Hne & Hg). pose proof (Forall_inv_tail Hgs) as Hgs'.
    cbn [fst snd] in Hne, Hg.
    pose proof (groups_ok_exact nf gs Hgs') as Hex.
    pose proof (tot_n_nonneg _ Hex) as H0.
    unfold gsubs in Hb, HD. cbn [map snd concat] in Hb, HD. fold (gsubs gs) in Hb, HD.
    rewrite tot_n_app in Hb. apply Forall_app in HD. destruct HD as [HD1 HD2].
    destruct (do_fit_buffers_inv fexp nf w g st Hinv Hrel Hinit Hnf Hne Hg ltac:(lia))
      as (st1 & F & J1 & J2 & J3 & J4 & J5 & J6 & J7 & J8 & J9).
    pose proof (do_fit_buffers_pos nf w g st Hinv Hrel Hinit Hnf Hne Hg ltac:(lia) HL HD1) as HL1.
    rewrite F in HL1. cbn [fst] in HL1.
    assert (Hinit1 : init_for nf st1) by (right; split; assumption).
    cbn [fit_groups]. rewrite F.
    apply (IH st1 J1 J4 Hinit1 Hnf Hgs' ltac:(lia) HL1 HD2).
Qed.

Lemma sorted_leaves_pos st :
  st_inv st -> leaves_pos st -> Forall pos_ok (sorted_leaves st).
Proof.
  intros Hinv HL. unfold leaves_pos in HL. destruct (root st) as [r|] eqn:Er.
  - apply (Forall_perm _ (lsubs r)); [|exact HL].
    symmetry. apply sorted_leaves_perm; assumption.
  - rewrite sorted_leaves_none by exact Er. constructor.
Qed.

Lemma rebuild_pos st st1 gs :
  st_inv st -> nf_ok st ->
  st_inv st1 -> root st1 = None -> released st1 = false ->
  groups_ok (nfeat st) gs -> tot_n (gsubs gs) = nfit st ->
  Forall pos_ok (gsubs gs) ->
  leaves_pos (fst (fit_groups fexp st1 gs)).
Proof.
  intros Hinv Hnf Hinv1 Hr1 Hrel1 Hgs Htot HD.
  assert (Hn1 : nfit st1 = 0).
  { destruct Hinv1 as (_ & H). rewrite Hr1 in H. tauto. }
  assert (Hb : nfit st1 + tot_n (gsubs gs) < 2 ^ 64).
  { rewrite Hn1, Htot. destruct Hinv as (_ & H). destruct (root st); [lia|].
    destruct H as (-> & _). lia. }
  exact (fit_groups_pos (nfeat st) gs st1 Hinv1 Hrel1 (or_introl Hr1) Hnf Hgs Hb
           (leaves_pos_none st1 Hr1) HD).
Qed.

Lemma rebuild_leaves_pos st t bfs' :
  st_inv st -> nf_ok st -> Permutation bfs' (sorted_leaves st) -> leaves_pos st ->
  leaves_pos (fst (fit_groups fexp (set_thr (reset_st st) t) (prepare_groups bfs'))).
Proof.
  intros Hinv Hnf HP HL.
  destruct (reset_thr_inv st t Hinv) as (R1 & R2 & R3 & R4 & _).
  pose proof (prepare_groups_perm bfs') as PG.
  assert (PG' : Permutation (gsubs (prepare_groups bfs')) (sorted_leaves st))
    by (etransitivity; eassumption).
  apply (rebuild_pos st _ _ Hinv Hnf R1 R2 R3).
  - apply groups_wf_ok; [apply prepare_groups_wf|].
    apply (Forall_perm _ (sorted_leaves st)); [symmetry; exact PG'|].
    apply sorted_leaves_good, Hinv.
  - rewrite (tot_n_perm _ _ PG'). apply sorted_leaves_tot, Hinv.
  - apply (Forall_perm _ (sorted_leaves st)); [symmetry; exact PG'|].
    apply sorted_leaves_pos; assumption.
Qed.

Lemma recluster_loop_pos iters : forall st extra perms se before,
  st_inv st -> nf_ok st -> numbered st -> perms_fit fexp iters st extra perms se before ->
  leaves_pos st ->
  leaves_pos (fst (recluster_loop fexp iters st extra perms se before)).
Proof.
  induction iters as [|k IH]; intros st extra perms se before Hinv Hnf Hnum Hpf HL.
  - cbn [recluster_loop fst]. exact HL.
  - cbn [recluster_loop perms_fit] in *.
    destruct (se && ((count_singletons (sorted_leaves st) =? 0)
                     || (count_singletons (sorted_leaves st) =? before))).
    + cbn [fst]. exact HL.
    + destruct perms as [|p ps].
      * destruct (rebuild_leaves fexp st (c_thr (cfg st) + extra)%float (sorted_leaves st)
                                 Hinv Hnf Hnum (Permutation_refl _))
          as (st2 & F & K1 & K2 & K3 & K4 & K5).
        pose proof (rebuild_leaves_pos st (c_thr (cfg st) + extra)%float (sorted_leaves st)
                      Hinv Hnf (Permutation_refl _) HL) as HL2.
        rewrite F in HL2 |- *. cbn [fst] in HL2.
        apply (IH st2 extra [] se (count_singletons (sorted_leaves st)) K1 K2 K3
                  (perms_fit_nil _ _ _ _ _ _) HL2).
      * destruct Hpf as (Hp & Hpf).
        destruct (rebuild_leaves fexp st (c_thr (cfg st) + extra)%float
                                 (permute (sorted_leaves st) p)
                                 Hinv Hnf Hnum (permute_perm _ _ Hp))
          as (st2 & F & K1 & K2 & K3 & K4 & K5).
        pose proof (rebuild_leaves_pos st (c_thr (cfg st) + extra)%float
                      (permute (sorted_leaves st) p) Hinv Hnf (permute_perm _ _ Hp) HL) as HL2.
        rewrite F in Hpf, HL2 |- *. cbn [fst] in HL2.
        apply (IH st2 extra ps se (count_singletons (sorted_leaves st)) K1 K2 K3 Hpf HL2).
Qed.

Lemma do_recluster_pos st iters extra perms se :
  st_inv st -> numbered st -> recluster_perms_ok fexp st iters extra perms se ->
  leaves_pos st ->
  leaves_pos (fst (do_recluster fexp st iters extra perms se)).
Proof.
  intros Hinv Hnum Hpf HL. unfold do_recluster, is_init.
  destruct (root st) as [r|] eqn:Er; cbn [negb fst]; [|exact HL].
  assert (Hnf : nf_ok st) by (apply st_inv_nf_ok; [exact Hinv|congruence]).
  exact (recluster_loop_pos iters st extra perms se 0 Hinv Hnf Hnum Hpf HL).
Qed.

Lemma refine_core_pos st1 (X : list fpv) im nl gs :
  st_inv st1 -> root st1 <> None ->
  Forall (fun fp : fpv => length fp = nfeat st1) X ->
  refine_groups st1 X im nl = Some gs ->
  leaves_pos st1 ->
  leaves_pos (fst (fit_groups fexp (reset_st st1) gs)).
Proof.
  intros Hinv Hr HX Hrg HL.
  pose proof (st_inv_nf_ok st1 Hinv Hr) as Hnf.
  destruct (reset_inv st1 Hinv) as (R1 & R2 & R3 & R4 & _).
  pose proof (sorted_leaves_good st1 Hinv) as Hgood.
  pose proof (sorted_leaves_tot st1 Hinv) as Htot.
  pose proof (sorted_leaves_pos st1 Hinv HL) as Hdat.
  unfold refine_groups in Hrg.
  destruct (nl =? 0) eqn:E0.
  - injection Hrg as <-.
    pose proof (prepare_groups_perm (sorted_leaves st1)) as PG.
    apply (rebuild_pos st1 _ _ Hinv Hnf R1 R2 R3).
    + apply groups_wf_ok; [apply prepare_groups_wf|].
      apply (Forall_perm _ (sorted_leaves st1)); [symmetry; exact PG|exact Hgood].
    + rewrite (tot_n_perm _ _ PG). exact Htot.
    + apply (Forall_perm _ (sorted_leaves st1)); [symmetry; exact PG|exact Hdat].
  - destruct (nl <? 1); [discriminate|].
    remember (Z.to_nat nl) as k eqn:Ek.
    remember (sorted_leaves st1) as bfs eqn:Ebfs.
    destruct (firstn k bfs) as [|l0 lt] eqn:El; [discriminate|]. rewrite <- El in Hrg.
    destruct (explode_all X im (firstn k bfs)) as [singles|] eqn:Ex; [|discriminate].
    injection Hrg as <-.
    destruct (firstn_skipn_Forall _ k bfs Hgood) as (G1 & G2).
    destruct (firstn_skipn_Forall _ k bfs Hdat) as (_ & Dd2).
    assert (HC : Forall cnt_ok (firstn k bfs)).
    { eapply Forall_impl; [|exact G1]. cbv beta. intros a (_ & _ & Hq). exact Hq. }
    destruct (explode_all_spec (nfeat st1) X im _ singles HX HC Ex) as (S1 & S2 & S3).
    assert (SW : Forall (fun b => sw b = W8) singles).
    { eapply Forall_impl; [|exact S1]. cbv beta. tauto. }
    assert (SG : Forall (good_sub (nfeat st1)) singles).
    { eapply Forall_impl; [|exact S1]. cbv beta. tauto. }
    assert (SD : Forall pos_ok singles).
    { eapply Forall_impl; [|exact (BirchBound.explode_all_sn X im _ singles Ex)].
      cbv beta. intros a Ha. unfold pos_ok. lia. }
    pose proof (prepare_groups_perm (skipn k bfs)) as PG.
    pose proof (fold_group_add_perm (fun _ => W8) singles (prepare_groups (skipn k bfs))) as PF.
    cbv beta in PF.
    assert (PP : Permutation
                   (gsubs (fold_left (fun gs b => group_add W8 b gs) singles
                                     (prepare_groups (skipn k bfs))))
                   (skipn k bfs ++ singles)).
    { etransitivity; [exact PF|]. apply Permutation_app_tail. exact PG. }
    apply (rebuild_pos st1 _ _ Hinv Hnf R1 R2 R3).
    + apply groups_wf_ok.
      * apply (fold_group_add_wf (fun _ => W8)); [exact SW|apply prepare_groups_wf].
      * apply (Forall_perm _ (skipn k bfs ++ singles)); [symmetry; exact PP|].
        apply Forall_app. split; assumption.
    + rewrite (tot_n_perm _ _ PP), tot_n_app, S3, <- Htot.
      rewrite <- (firstn_skipn k bfs) at 3. rewrite tot_n_app. lia.
    + apply (Forall_perm _ (skipn k bfs ++ singles)); [symmetry; exact PP|].
      apply Forall_app. split; assumption.
Qed.

Lemma do_refine_pos st X im nl :
  st_inv st -> op_wf st (ORefine X im nl) ->
  leaves_pos st ->
  leaves_pos (fst (do_refine fexp st X im nl)).
Proof.
  intros Hinv HX HL. cbn [op_wf] in HX. unfold do_refine, is_init.
  destruct (root st) as [r|] eqn:Er; cbn [negb]; [|cbn [fst]; exact HL].
  destruct (delete_internal_spec st Hinv) as (D1 & D2 & D3 & D4 & D5 & D6 & D7).
  destruct (delete_internal st) as [st1 o] eqn:Ed. cbn [fst snd] in *.
  assert (HL1 : leaves_pos st1) by (apply (leaves_pos_same st st1 D3 HL)).
  destruct o; [|exact HL1].
  destruct (refine_groups st1 X im nl) as [gs|] eqn:Eg; [|exact HL1].
  assert (Hr1 : root st1 <> None) by (rewrite D3, Er; discriminate).
  rewrite <- D6 in HX.
  exact (refine_core_pos st1 X im nl gs D1 Hr1 HX Eg HL1).
Qed.

Lemma step_pos st o :
  st_inv st -> nf_ok st -> numbered st -> op_wf st o -> op_perms_ok fexp st o ->
  leaves_pos st ->
  leaves_pos (fst (step fexp st o)).
Proof.
  intros Hinv Hnf Hnum Hwf Hp HL.
  destruct o as [rows labels|X im nl|it ex ps se|c t b| |]; cbn [step].
  - pose proof Hwf as (-> & _). exact (do_fit_pos st rows Hinv Hnf Hwf HL).
  - exact (do_refine_pos st X im nl Hinv Hwf HL).
  - exact (do_recluster_pos st it ex ps se Hinv Hnum Hp HL).
  - cbn [fst]. apply (leaves_pos_same st); [reflexivity|exact HL].
  - destruct (delete_internal_spec st Hinv) as (_ & _ & D3 & _ & _ & D6 & _).
    exact (leaves_pos_same st _ D3 HL).
  - cbn [fst]. apply leaves_pos_none. reflexivity.
Qed.

Lemma run_from_pos ops : forall st,
  st_inv st -> nf_ok st -> numbered st -> ops_wf fexp st ops -> ops_perms_ok fexp st ops ->
  leaves_pos st ->
  leaves_pos (run_from fexp st ops).
Proof.
  induction ops as [|o ops IH]; intros st Hinv Hnf Hnum Hwf Hp HL.
  - exact HL.
  - destruct Hwf as (W1 & W2). destruct Hp as (P1 & P2).
    destruct (step_inv_alt fexp st o Hinv Hnf Hnum W1 P1) as (A & B & C).
    pose proof (step_pos st o Hinv Hnf Hnum W1 P1 HL) as HL'.
    exact (IH _ A B C W2 P2 HL').
Qed.

Theorem run_pos cfg0 ops :
  2 <= c_bf cfg0 -> ops_wf fexp (init cfg0) ops -> ops_perms_ok fexp (init cfg0) ops ->
  leaves_pos (run fexp cfg0 ops).
Proof.
  intros H Hwf Hp. destruct (init_inv cfg0 H) as (A & B & C).
  exact (run_from_pos ops (init cfg0) A B C Hwf Hp (leaves_pos_none (init cfg0) eq_refl)).
Qed.

(* every reported cluster has at least one member *)
Theorem run_reported_nonempty cfg0 ops :
  2 <= c_bf cfg0 -> ops_wf fexp (init cfg0) ops -> ops_perms_ok fexp (init cfg0) ops ->
  Forall (fun s => 1 <= sn s) (sorted_leaves (run fexp cfg0 ops)).
Proof.
  intros H Hwf Hp. apply sorted_leaves_pos.
  - exact (proj1 (run_inv fexp cfg0 ops H Hwf Hp)).
  - exact (run_pos cfg0 ops H Hwf Hp).
Qed.
End Pos.

(* ================= B3. reported centroids of the estimator ================= *)
Lemma zlen_map {A B} (f : A -> B) l : zlen (map f l) = zlen l.
Proof. unfold zlen. now rewrite map_length. Qed.

(* Same hypotheses as [C02_exact]; no condition on the lengths of the rows [D i] is needed.
   Conditional form (does not use B3a): *)
Theorem reported_centroid_is_majority_cond : forall fexp D cfg0 ops,
  2 <= c_bf cfg0 -> ops_wf fexp (init cfg0) ops -> ops_perms_ok fexp (init cfg0) ops ->
  ops_data_strong fexp D (init cfg0) ops ->
  let st := run fexp cfg0 ops in
  Forall (fun s => 1 <= sn s < 2^53 ->
            scent s = map (fun k => sn s <=? 2 * k) (colsum (nfeat st) (map D (sids s))))
         (sorted_leaves st).
Proof.
  intros fexp D cfg0 ops H Hwf Hp HD. cbv zeta.
  eapply Forall_impl; [|exact (BirchData.run_reported_sums fexp D cfg0 ops H Hwf Hp HD)]. cbv beta.
  intros s (Els & En & Ec & _) Hn.
  rewrite Ec, Els. rewrite En in *. rewrite <- (zlen_map D (sids s)) in *.
  apply centroid_is_majority_gen. exact Hn.
Qed.

(* B3: with [run_reported_nonempty] the lower bound is discharged *)
Theorem reported_centroid_is_majority : forall fexp D cfg0 ops,
  2 <= c_bf cfg0 -> ops_wf fexp (init cfg0) ops -> ops_perms_ok fexp (init cfg0) ops ->
  ops_data_strong fexp D (init cfg0) ops ->
  let st := run fexp cfg0 ops in
  Forall (fun s => sn s < 2^53 ->
            scent s = map (fun k => sn s <=? 2 * k) (colsum (nfeat st) (map D (sids s))))
         (sorted_leaves st).
Proof.
  intros fexp D cfg0 ops H Hwf Hp HD. cbv zeta.
  pose proof (reported_centroid_is_majority_cond fexp D cfg0 ops H Hwf Hp HD) as R.
  cbv zeta in R.
  pose proof (run_reported_nonempty fexp cfg0 ops H Hwf Hp) as N.
  rewrite Forall_forall in *. intros s Hs Hb. apply (R s Hs). split; [exact (N s Hs)|exact Hb].
Qed.

(* bit-level reading: if the members' rows have the tree's width, bit j of the reported centroid
   is set iff at least half of the members have bit j set *)
Theorem reported_centroid_bit : forall fexp D cfg0 ops,
  2 <= c_bf cfg0 -> ops_wf fexp (init cfg0) ops -> ops_perms_ok fexp (init cfg0) ops ->
  ops_data_strong fexp D (init cfg0) ops ->
  let st := run fexp cfg0 ops in
  forall s j, In s (sorted_leaves st) -> sn s < 2^53 -> (j < nfeat st)%nat ->
    Forall (fun i => length (D i) = nfeat st) (sids s) ->
    (nth j (scent s) false = true <-> sn s <= 2 * bit_count j (map D (sids s))).
Proof.
  intros fexp D cfg0 ops H Hwf Hp HD. cbv zeta. intros s j Hs Hb Hj HL.
  pose proof (BirchData.run_reported_sums fexp D cfg0 ops H Hwf Hp HD) as E. cbv zeta in E.
  pose proof (run_reported_nonempty fexp cfg0 ops H Hwf Hp) as N.
  rewrite Forall_forall in E, N. destruct (E s Hs) as (Els & En & Ec & _). specialize (N s Hs).
  cbv beta in N.
  rewrite Ec, Els. rewrite En in *. rewrite <- (zlen_map D (sids s)) in *.
  apply centroid_bit_majority; [|lia|exact Hj].
  apply Forall_forall. intros r Hr. apply in_map_iff in Hr. destruct Hr as (i & <- & Hi).
  rewrite Forall_forall in HL. exact (HL i Hi).
Qed.

(* ================= B4. the multi-round workflow ================= *)
Lemma In_concat_length {A} (l : list A) ls : In l ls -> (length l <= length (concat ls))%nat.
Proof.
  induction ls as [|x ls IH]; intros H; [destruct H|].
  cbn [concat]. rewrite app_length. destruct H as [->|H]; [lia|]. specialize (IH H). lia.
Qed.

(* Hypotheses of [multiround_partition_gen] plus N < 2^53.  [final_task_ok] /
   [multiround_partition_gen] do not state that the final clusters are non-empty, so the
   conclusion carries [ids <> []] per cluster.  The rows [G i] need no length condition. *)
Theorem multiround_centroids_majority : forall fexp nf (files : list (list fpv)) (c : mr_cfg) d,
  Z.of_nat nf < 2 ^ 52 ->
  Forall (Forall (fun fp : fpv => length fp = nf)) files ->
  zlen (concat files) < 2 ^ 53 ->
  2 <= m_bf c -> (1 <= m_bin c)%nat ->
  run_multiround fexp c files [] = Some d ->
  let G := Gmap nf files in
  let N := zlen (concat files) in
  exists cl,
    dir_get d "clusters.pkl" = Some (CClusters cl) /\
    Permutation (concat cl) (zseq 0 (Z.to_nat N)) /\
    NoDup (concat cl) /\
    (m_save_centroids c = true ->
     exists cs, dir_get d "cluster-centroids-packed.pkl" = Some (CCentroids cs) /\
       length cs = length cl /\
       Forall2 (fun cen ids => ids <> [] ->
                  cen = map (fun k => zlen ids <=? 2 * k) (colsum nf (map G ids))) cs cl).
Proof.
  intros fexp nf files c d Hnf Hrows HN Hbf Hbin Hrun. cbv zeta.
  assert (HN64 : zlen (concat files) < 2 ^ 64) by lia.
  destruct (multiround_partition_gen fexp nf files c Hnf Hrows HN64 Hbf Hbin d Hrun)
    as (cl & A & B & C & E).
  exists cl. refine (conj A (conj B (conj C _))).
  intros Hs. destruct (E Hs) as (cs & E1 & E2 & E3). exists cs. refine (conj E1 (conj E2 _)).
  eapply Forall2_impl_in; [exact E3|]. cbv beta. intros cen ids _ Hin -> Hne.
  rewrite <- (zlen_map (Gmap nf files) ids).
  apply centroid_is_majority_gen. rewrite zlen_map.
  pose proof (In_concat_length ids cl Hin) as L.
  rewrite (Permutation_length B), zseq_length in L.
  unfold zlen in *. split.
  - destruct ids; [congruence|cbn [length]; lia].
  - lia.
Qed.

(* ================= C1. non-vacuity for C14: a used directory ================= *)

Module C14Demo.
Open Scope string_scope.
(* what an earlier (interrupted, differently parametrised) run left behind, plus a file that
   does not belong to the workflow *)
Definition d0 : dir :=
  dir_puts [] [("round-7-bufs_stale_uint8.npy", CBufs W8 [([1; 0; 0; 0; 0; 0; 0; 0], 1)]);
               ("round-7-idxs_stale_uint8.pkl", CIdxs [[99]]);
               ("clusters.pkl", CClusters [[42; 43]; [44]]);
               ("notes.txt", COther)].
Definition files : list (list fpv) :=
  [[[true;true;false;false;true;false;false;false];
    [true;true;false;false;false;false;false;false];
    [false;false;true;true;false;false;true;false]];
   [[false;false;true;true;false;false;false;false];
    [true;true;false;false;true;false;false;true]]].
(* intermediate files are kept (cleanup = false), so a surviving stale round file would show *)
Definition c : mr_cfg := mkMr 3 0.5 0 0.0625 NDiameter NDiameter None 1 2 RFull true true false.

Example d0_contents :
  dir_get d0 "round-7-bufs_stale_uint8.npy" <> None /\
  dir_get d0 "clusters.pkl" = Some (CClusters [[42; 43]; [44]]) /\
  dir_get d0 "notes.txt" = Some COther /\
  is_purged "round-7-bufs_stale_uint8.npy" = true /\ is_purged "notes.txt" = false.
Proof. vm_compute. repeat split; try reflexivity. discriminate. Qed.

Example C14_nonvacuous :
  MrRerun.dir_wf d0 /\
  match run_multiround (fun x => x) c files d0 with
  | Some d =>
      dir_get d "notes.txt" = Some COther /\                      (* the foreign file survives *)
      dir_get d "round-7-bufs_stale_uint8.npy" = None /\          (* the stale round files do not *)
      dir_get d "round-7-idxs_stale_uint8.pkl" = None /\
      dir_get d "clusters.pkl" = Some (CClusters [[0; 1; 4]; [2; 3]]) /\   (* nor the stale result *)
      (List.length d > 5)%nat                                     (* this run's round files are kept *)
  | None => False
  end.
Proof.
  split.
  - unfold d0. apply MrRerun.dir_puts_wf, MrRerun.dir_wf_nil.
  - vm_compute. repeat split; try reflexivity. repeat constructor.
Qed.

(* and the instance of C14_rerun_equals_fresh is not the trivial [None, None] case *)
Example C14_instance_not_trivial :
  run_multiround (fun x => x) c files d0 <> None /\ run_multiround (fun x => x) c files [] <> None.
Proof. split; vm_compute; discriminate. Qed.
End C14Demo.

(* ================= C2. non-vacuity for C07_fit_refines ================= *)
Module C07Demo.
Import SpecRefine.
Definition cfg0 : config := mkCfg CDiameter Demo.thr0 2.       (* branching factor 2 *)
Definition rows : list (option fpv) := map (fun l => Some (Demo.D0 l)) [0; 1; 2; 3; 4].

(* every hypothesis of [C07_fit_refines] holds for a first fit of 5 rows from the initial state *)
Lemma hyps :
  let st := init cfg0 in
  st_inv st /\ nf_ok st /\ released st = false /\ op_wf st (OFit rows None) /\
  leaves_data Demo.D0 st /\ op_data Demo.D0 st (OFit rows None).
Proof.
  cbv zeta. destruct (init_inv cfg0 ltac:(cbn; lia)) as (A & B & _).
  refine (conj A (conj B (conj eq_refl (conj _ (conj _ _))))).
  - cbn [op_wf init root rows map]. refine (conj eq_refl (conj (conj _ _) _)).
    + repeat constructor.
    + vm_compute. reflexivity.
    + vm_compute. reflexivity.
  - apply leaves_data_none. reflexivity.
  - cbn [op_data init nfit]. intros k fp.
    do 5 (destruct k as [|k]; [cbn; intros E; inversion E; reflexivity|]).
    destruct k; discriminate.
Qed.

Example C07_nonvacuous :
  let st := init cfg0 in
  let st' := fst (do_fit (fun x => x) st rows None) in
  (* the conclusion of C07_fit_refines, obtained from the theorem *)
  (st_inv st' /\
   abs_st st' = Spec.spec_fit (fun x => x) Demo.D0 (nfeat st') (c_crit (cfg st)) (c_thr (cfg st))
                         (c_bf (cfg st)) (abs_st st) rows (zseq (nfit st) (length rows)) /\
   clusters st' = spec_clusters_of (abs_st st')) /\
  (* and it is not a trivial instance: the fit split the root leaf (3 clusters, bf = 2) *)
  clusters st' = [[0; 1]; [2; 3]; [4]] /\
  (exists bf es cache, root st' = Some (Inner bf es cache)).
Proof.
  cbv zeta. destruct hyps as (A & B & C & D & E & F). split.
  - exact (SpecRefine.fit_refines (fun x => x) Demo.D0 (init cfg0) rows A B C D E F).
  - vm_compute. split; [reflexivity|]. do 3 eexists. reflexivity.
Qed.
End C07Demo.
