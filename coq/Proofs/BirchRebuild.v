(* BirchRebuild.v — rebuilding the tree from buffers (refine / recluster) and the
   invariant over all operation histories. *)
From BB Require Import Model.Birch Proofs.ListFacts Proofs.TreeDefs Proofs.TreeRel
     Proofs.TreeShape Proofs.TreeBlocks Proofs.TreeChain Proofs.TreeSums Proofs.TreeBal
     Proofs.BirchDefs Proofs.SimMax Proofs.BirchInv.
From Coq Require Import Lia Permutation.
Open Scope Z_scope.

(* ================= C1: sorting and grouping ================= *)
Lemma ins_desc_perm x l : Permutation (ins_desc x l) (x :: l).
Proof.
  induction l as [|y l IH]; cbn [ins_desc]; [reflexivity|].
  destruct (sn y <=? sn x); [reflexivity|].
  etransitivity; [apply perm_skip, IH|]. apply perm_swap.
Qed.

Lemma sort_desc_perm l : Permutation (sort_desc l) l.
Proof.
  unfold sort_desc. induction l as [|x l IH]; cbn [fold_right]; [reflexivity|].
  etransitivity; [apply ins_desc_perm|]. now constructor.
Qed.

Definition gsubs (gs : list (width * list sub)) : list sub := concat (map snd gs).
(* every group is non-empty and homogeneous in its dtype *)
Definition groups_wf (gs : list (width * list sub)) : Prop :=
  Forall (fun wg => snd wg <> [] /\ Forall (fun b => sw b = fst wg) (snd wg)) gs.

Lemma width_eqb_eq a b : width_eqb a b = true -> a = b.
Proof. destruct a, b; cbn; congruence. Qed.

Lemma group_add_perm w x gs : Permutation (gsubs (group_add w x gs)) (gsubs gs ++ [x]).
Proof.
  unfold gsubs. induction gs as [|[w' l] tl IH]; cbn [group_add map snd concat].
  - reflexivity.
  - destruct (width_eqb w w'); cbn [map snd concat].
    + rewrite <- !app_assoc. apply Permutation_app_head, Permutation_app_comm.
    + rewrite <- app_assoc. apply Permutation_app_head, IH.
Qed.

Lemma group_add_wf w x gs : sw x = w -> groups_wf gs -> groups_wf (group_add w x gs).
Proof.
  intros Hx. unfold groups_wf. induction gs as [|[w' l] tl IH]; intros H; cbn [group_add].
  - constructor; [|constructor]. cbn [fst snd]. split; [discriminate|]. constructor; auto.
  - inversion H as [|p0 l0 (H1 & H2) H3 Ep]; clear H. cbn [fst snd] in *.
    destruct (width_eqb w w') eqn:E.
    + apply width_eqb_eq in E. subst w'. constructor; [|exact H3]. cbn [fst snd]. split.
      * destruct l; discriminate.
      * apply Forall_app. split; [exact H2|]. constructor; auto.
    + constructor; [cbn [fst snd]; auto|]. apply IH, H3.
Qed.

Lemma fold_group_add_perm (f : sub -> width) l : forall gs,
  Permutation (gsubs (fold_left (fun gs b => group_add (f b) b gs) l gs)) (gsubs gs ++ l).
Proof.
  induction l as [|x l IH]; intros gs; cbn [fold_left].
  - now rewrite app_nil_r.
  - etransitivity; [apply IH|].
    etransitivity; [apply Permutation_app_tail, group_add_perm|].
    rewrite <- app_assoc. reflexivity.
Qed.

Lemma fold_group_add_wf (f : sub -> width) l : forall gs,
  Forall (fun b => sw b = f b) l -> groups_wf gs ->
  groups_wf (fold_left (fun gs b => group_add (f b) b gs) l gs).
Proof.
  induction l as [|x l IH]; intros gs Hl Hg; cbn [fold_left]; [exact Hg|].
  inversion Hl; subst. apply IH; [assumption|]. apply group_add_wf; assumption.
Qed.

Lemma prepare_groups_perm bfs : Permutation (gsubs (prepare_groups bfs)) bfs.
Proof. unfold prepare_groups. apply (fold_group_add_perm sw bfs []). Qed.

Lemma prepare_groups_wf bfs : groups_wf (prepare_groups bfs).
Proof.
  unfold prepare_groups. apply (fold_group_add_wf sw).
  - apply Forall_forall. auto.
  - constructor.
Qed.

(* the statement as requested *)
Lemma prepare_groups_groups bfs :
  Permutation (concat (map snd (prepare_groups bfs))) bfs /\
  forall w g, In (w, g) (prepare_groups bfs) -> g <> [] /\ Forall (fun b => sw b = w) g.
Proof.
  split; [apply prepare_groups_perm|].
  intros w g H. pose proof (prepare_groups_wf bfs) as W. unfold groups_wf in W.
  rewrite Forall_forall in W. exact (W _ H).
Qed.

Lemma singles_groups singles gs0 :
  Forall (fun b => sw b = W8) singles -> groups_wf gs0 ->
  let gs := fold_left (fun gs b => group_add W8 b gs) singles gs0 in
  Permutation (concat (map snd gs)) (concat (map snd gs0) ++ singles) /\
  forall w g, In (w, g) gs -> g <> [] /\ Forall (fun b => sw b = w) g.
Proof.
  intros Hs Hg. cbv zeta. split; [apply (fold_group_add_perm (fun _ => W8))|].
  intros w g H.
  pose proof (fold_group_add_wf (fun _ => W8) singles gs0 Hs Hg) as W. unfold groups_wf in W.
  rewrite Forall_forall in W. exact (W _ H).
Qed.

(* ================= C2: re-inserting buffers ================= *)
Definition good_sub (nf : nat) (b : sub) : Prop := sub_len nf b /\ sub_exact b /\ cnt_ok b.

Lemma sub_of_buffer_id b : sub_exact b -> sub_of_buffer (sw b) (sls b) (sn b) (sids b) = b.
Proof.
  intros (_ & _ & _ & H). destruct b as [w n ls ce ids]. cbn [sw sls sn sids scent] in *.
  unfold sub_of_buffer. now rewrite <- H.
Qed.

(* a label list sits inside one block *)
Definition covered (B : list (list Z)) (x : list Z) : Prop := exists b, In b B /\ incl x b.

Lemma together_covered B i j : together B i j <-> covered B [i; j].
Proof.
  unfold together, covered. split; intros (b & H1 & H2); exists b; split; auto.
  - destruct H2 as [Hi Hj]. intros x [<-|[<-|[]]]; assumption.
  - split; apply H2; cbn; auto.
Qed.

Lemma BlockStep_covered B x B' :
  BlockStep B x B' -> covered B' x /\ (forall y, covered B y -> covered B' y).
Proof.
  intros [H | (b & R & H1 & H2)].
  - split.
    + exists x. split; [|apply incl_refl].
      apply (Permutation_in _ (Permutation_sym H)). now left.
    + intros y (b0 & Hb & Hy). exists b0. split; [|exact Hy].
      apply (Permutation_in _ (Permutation_sym H)). now right.
  - split.
    + exists (b ++ x). split; [|apply incl_appr, incl_refl].
      apply (Permutation_in _ (Permutation_sym H2)). now left.
    + intros y (b0 & Hb & Hy). apply (Permutation_in _ H1) in Hb. destruct Hb as [<-|Hb].
      * exists (b ++ x). split; [|apply incl_appl, Hy].
        apply (Permutation_in _ (Permutation_sym H2)). now left.
      * exists b0. split; [|exact Hy].
        apply (Permutation_in _ (Permutation_sym H2)). now right.
Qed.

Section WithExp.
Variable fexp : float -> float.

Lemma fit_bufs_inv cf nf w g : forall st,
  st_inv st -> root st <> None -> nfeat st = nf -> 2 <= c_bf cf ->
  Forall (fun b => good_sub nf b /\ sw b = w) g ->
  nfit st + tot_n g < 2 ^ 64 ->
  exists st', fit_bufs fexp cf st w g = (st', Ok) /\
    st_inv st' /\ cfg st' = cfg st /\ nfeat st' = nf /\ released st' = released st /\
    root st' <> None /\ nfit st' = nfit st + tot_n g /\
    Permutation (mem_ids st') (mem_ids st ++ concat (map sids g)) /\
    (forall y, covered (st_blocks st) y -> covered (st_blocks st') y) /\
    (forall b, In b g -> covered (st_blocks st') (sids b)).
Proof.
  induction g as [|b g IH]; intros st Hinv Hr Hnf Hbf Hg Hb.
  - exists st. cbn [fit_bufs tot_n fold_right map concat]. rewrite app_nil_r, Z.add_0_r.
    refine (conj eq_refl (conj Hinv (conj eq_refl (conj Hnf (conj eq_refl (conj Hr
            (conj eq_refl (conj (Permutation_refl _) (conj _ _))))))))); [auto|].
    intros b [].
  - pose proof (Forall_inv Hg) as ((G1 & G2 & G3) & Gw). pose proof (Forall_inv_tail Hg) as Hg'.
    subst w.
    rewrite tot_n_cons in Hb.
    assert (Hex : Forall sub_exact g).
    { eapply Forall_impl; [|exact Hg']. cbv beta. intros a ((_ & Hq & _) & _). exact Hq. }
    pose proof (tot_n_nonneg g Hex) as Hg0.
    cbn [fit_bufs]. pose proof G3 as G3'. unfold cnt_ok in G3'.
    rewrite <- G3', Z.eqb_refl, sub_of_buffer_id by exact G2.
    destruct (root st) as [r|] eqn:Er; [|congruence].
    rewrite <- Hnf in G1.
    destruct (insert_st_inv fexp st cf b (sn b) r Hinv Er Hbf G1 G2 G3 eq_refl ltac:(lia))
      as (I1 & I2 & I3 & I4 & I5 & I6 & I7).
    remember (insert_st fexp cf st b (sn b)) as st1 eqn:Est1.
    destruct (BlockStep_covered _ _ _ I7) as (Cb & Cm).
    destruct (IH st1 I1 I5 ltac:(congruence) Hbf Hg' ltac:(lia))
      as (st' & F & J1 & J2 & J3 & J4 & J5 & J6 & J7 & J8 & J9).
    exists st'.
    refine (conj F (conj J1 (conj _ (conj J3 (conj _ (conj J5 (conj _ (conj _ (conj _ _)))))))));
      try congruence.
    + rewrite J6, I6, tot_n_cons. lia.
    + etransitivity; [exact J7|]. cbn [map concat]. rewrite app_assoc.
      apply Permutation_app_tail.
      rewrite (mem_ids_blocks st1), (mem_ids_blocks st). apply (BlockStep_members _ _ _ I7).
    + intros y Hy. apply J8, Cm, Hy.
    + intros b' [<-|Hb']; [apply J8, Cb|apply J9, Hb'].
Qed.

Definition groups_ok (nf : nat) (gs : list (width * list sub)) : Prop :=
  Forall (fun wg => snd wg <> [] /\
                    Forall (fun b => good_sub nf b /\ sw b = fst wg) (snd wg)) gs.
Definition init_for (nf : nat) (st : state) : Prop :=
  root st = None \/ (root st <> None /\ nfeat st = nf).

Lemma covered_nil y : ~ covered [] y.
Proof. intros (b & [] & _). Qed.

Lemma do_fit_buffers_inv nf w g st :
  st_inv st -> released st = false -> init_for nf st -> Z.of_nat nf < 2 ^ 52 ->
  g <> [] -> Forall (fun b => good_sub nf b /\ sw b = w) g ->
  nfit st + tot_n g < 2 ^ 64 ->
  exists st', do_fit_buffers fexp st w g = (st', Ok) /\
    st_inv st' /\ cfg st' = cfg st /\ nfeat st' = nf /\ released st' = false /\
    root st' <> None /\ nfit st' = nfit st + tot_n g /\
    Permutation (mem_ids st') (mem_ids st ++ concat (map sids g)) /\
    (forall y, covered (st_blocks st) y -> covered (st_blocks st') y) /\
    (forall b, In b g -> covered (st_blocks st') (sids b)).
Proof.
  intros Hinv Hrel Hinit Hnf Hne Hg Hb.
  destruct g as [|b0 g]; [congruence|]. unfold do_fit_buffers. rewrite Hrel. unfold is_init.
  destruct (root st) as [r|] eqn:Er.
  - destruct Hinit as [Hi|(_ & Hi)]; [rewrite Er in Hi; discriminate|].
    assert (Hr : root st <> None) by congruence.
    destruct (fit_bufs_inv (cfg st) nf w (b0 :: g) st Hinv Hr Hi (proj1 Hinv) Hg Hb)
      as (st' & F & J1 & J2 & J3 & J4 & J5 & J6 & J7 & J8 & J9).
    exists st'. rewrite Hrel in J4. tauto.
  - pose proof (Forall_inv Hg) as (((L0 & _) & _) & _).
    rewrite L0.
    pose proof (initialize_inv st nf Hinv Er Hnf) as I1.
    remember (initialize st nf) as st1 eqn:Est1.
    assert (E1 : nfit st1 = nfit st) by (subst st1; reflexivity).
    assert (E2 : nfeat st1 = nf) by (subst st1; reflexivity).
    assert (E3 : root st1 <> None) by (subst st1; discriminate).
    assert (E4 : mem_ids st1 = []) by (subst st1; reflexivity).
    assert (E5 : cfg st1 = cfg st) by (subst st1; reflexivity).
    assert (E6 : released st1 = false) by (subst st1; reflexivity).
    assert (Hbf1 : 2 <= c_bf (cfg st1)) by (rewrite E5; exact (proj1 Hinv)).
    rewrite <- E1 in Hb.
    destruct (fit_bufs_inv (cfg st1) nf w (b0 :: g) st1 I1 E3 E2 Hbf1 Hg Hb)
      as (st' & F & J1 & J2 & J3 & J4 & J5 & J6 & J7 & J8 & J9).
    exists st'.
    refine (conj F (conj J1 (conj _ (conj J3 (conj _ (conj J5 (conj _ (conj _ (conj _ J9)))))))));
      try congruence.
    + rewrite E4 in J7. unfold mem_ids. rewrite Er. exact J7.
    + intros y Hy. unfold st_blocks in Hy. rewrite Er in Hy. destruct (covered_nil _ Hy).
Qed.

Lemma groups_ok_exact nf gs : groups_ok nf gs -> Forall sub_exact (gsubs gs).
Proof.
  unfold gsubs. induction 1 as [|[w g] gs (_ & Hg) _ IH]; cbn [map snd concat]; [constructor|].
  apply Forall_app. split; [|exact IH].
  eapply Forall_impl; [|exact Hg]. cbv beta. intros a ((_ & Hq & _) & _). exact Hq.
Qed.

(* C2 *)
Lemma fit_groups_inv nf gs : forall st,
  st_inv st -> released st = false -> init_for nf st -> Z.of_nat nf < 2 ^ 52 ->
  groups_ok nf gs -> nfit st + tot_n (gsubs gs) < 2 ^ 64 ->
  exists st', fit_groups fexp st gs = (st', Ok) /\
    st_inv st' /\ cfg st' = cfg st /\ released st' = false /\ init_for nf st' /\
    (nfeat st' = nfeat st \/ nfeat st' = nf) /\
    nfit st' = nfit st + tot_n (gsubs gs) /\
    Permutation (mem_ids st') (mem_ids st ++ concat (map sids (gsubs gs))) /\
    (forall y, covered (st_blocks st) y -> covered (st_blocks st') y) /\
    (forall i j, together (st_blocks st) i j -> together (st_blocks st') i j) /\
    (forall b, In b (gsubs gs) -> covered (st_blocks st') (sids b)).
Proof.
  induction gs as [|[w g] gs IH]; intros st Hinv Hrel Hinit Hnf Hgs Hb.
  - exists st. unfold gsubs. cbn [fit_groups map concat tot_n fold_right].
    rewrite app_nil_r, Z.add_0_r.
    refine (conj eq_refl (conj Hinv (conj eq_refl (conj Hrel (conj Hinit (conj (or_introl eq_refl)
           (conj eq_refl (conj (Permutation_refl _) (conj _ (conj _ _)))))))))); auto.
    intros b [].
  - pose proof (Forall_inv Hgs) as (Hne & Hg). pose proof (Forall_inv_tail Hgs) as Hgs'.
    cbn [fst snd] in Hne, Hg.
    pose proof (groups_ok_exact nf gs Hgs') as Hex.
    pose proof (tot_n_nonneg _ Hex) as H0.
    unfold gsubs in Hb |- *. cbn [map snd concat] in Hb |- *. fold (gsubs gs) in Hb |- *.
    rewrite tot_n_app in Hb.
    destruct (do_fit_buffers_inv nf w g st Hinv Hrel Hinit Hnf Hne Hg ltac:(lia))
      as (st1 & F & J1 & J2 & J3 & J4 & J5 & J6 & J7 & J8 & J9).
    assert (Hinit1 : init_for nf st1) by (right; split; assumption).
    destruct (IH st1 J1 J4 Hinit1 Hnf Hgs' ltac:(lia))
      as (st' & F' & K1 & K2 & K3 & K4 & K5 & K6 & K7 & K8 & K9 & K10).
    exists st'. cbn [fit_groups]. rewrite F.
    assert (Hcov : forall y, covered (st_blocks st) y -> covered (st_blocks st') y)
      by (intros y Hy; apply K8, J8, Hy).
    refine (conj F' (conj K1 (conj _ (conj K3 (conj K4 (conj _ (conj _ (conj _ (conj Hcov
             (conj _ _)))))))))).
    + congruence.
    + right. destruct K5 as [K5|K5]; congruence.
    + rewrite K6, J6, tot_n_app. lia.
    + etransitivity; [exact K7|]. rewrite map_app, concat_app, app_assoc.
      apply Permutation_app_tail. exact J7.
    + intros i j T. apply together_covered. apply Hcov. apply together_covered. exact T.
    + intros b Hb'. apply in_app_or in Hb'. destruct Hb' as [Hb'|Hb'].
      * apply K8, J9, Hb'.
      * apply K10, Hb'.
Qed.

(* ================= C3: the leaves as read by the API ================= *)
Lemma leaves_perm st r :
  st_inv st -> root st = Some r -> Permutation (leaves_of st) (lsubs r).
Proof.
  intros (_ & H) Hr. rewrite Hr in H. destruct H as (_ & (_ & Hc & _) & _).
  unfold leaves_of. rewrite Hr. apply leaf_subs_perm. exact Hc.
Qed.

Lemma sorted_leaves_perm st r :
  st_inv st -> root st = Some r -> Permutation (sorted_leaves st) (lsubs r).
Proof.
  intros Hinv Hr. unfold sorted_leaves.
  etransitivity; [apply sort_desc_perm|]. apply leaves_perm; assumption.
Qed.

Lemma sorted_leaves_none st : root st = None -> sorted_leaves st = [].
Proof. intros Hr. unfold sorted_leaves, leaves_of. rewrite Hr. reflexivity. Qed.

Lemma clusters_perm st : st_inv st -> Permutation (clusters st) (st_blocks st).
Proof.
  intros Hinv. unfold clusters, st_blocks. destruct (root st) as [r|] eqn:Er.
  - unfold blocks. apply Permutation_map. apply sorted_leaves_perm; assumption.
  - rewrite sorted_leaves_none by exact Er. reflexivity.
Qed.

Lemma tree_leaves_good nf r ax : tree_inv nf r ax -> Forall (good_sub nf) (lsubs r).
Proof.
  intros (Hsh & _ & Hsu & _ & _ & Hcn).
  pose proof (proj1 (shape_lsubs_mut nf) r Hsh) as A.
  pose proof (sums_lsubs nf r Hsu) as B.
  rewrite Forall_forall in *. intros x Hx. unfold good_sub. auto.
Qed.

Lemma sorted_leaves_good st : st_inv st -> Forall (good_sub (nfeat st)) (sorted_leaves st).
Proof.
  intros Hinv. destruct (root st) as [r|] eqn:Er.
  - apply (Forall_perm _ (lsubs r)).
    + symmetry. apply sorted_leaves_perm; assumption.
    + destruct Hinv as (_ & H). rewrite Er in H. destruct H as (_ & Ht & _).
      eapply tree_leaves_good; eauto.
  - rewrite sorted_leaves_none by exact Er. constructor.
Qed.

Lemma sorted_leaves_tot st : st_inv st -> tot_n (sorted_leaves st) = nfit st.
Proof.
  intros Hinv. destruct (root st) as [r|] eqn:Er.
  - rewrite (tot_n_perm _ _ (sorted_leaves_perm st r Hinv Er)).
    destruct Hinv as (_ & H). rewrite Er in H. symmetry. tauto.
  - rewrite sorted_leaves_none by exact Er.
    destruct Hinv as (_ & H). rewrite Er in H. cbn. symmetry. tauto.
Qed.

Lemma sorted_leaves_ids st :
  st_inv st -> Permutation (concat (map sids (sorted_leaves st))) (mem_ids st).
Proof.
  intros Hinv. rewrite mem_ids_blocks. apply concat_perm. apply clusters_perm. exact Hinv.
Qed.

Lemma block_is_leaf st b :
  st_inv st -> In b (st_blocks st) -> exists x, In x (sorted_leaves st) /\ sids x = b.
Proof.
  intros Hinv Hb.
  apply (Permutation_in _ (Permutation_sym (clusters_perm st Hinv))) in Hb.
  unfold clusters in Hb. apply in_map_iff in Hb. destruct Hb as (x & E & Hx). eauto.
Qed.

Lemma covered_incl B x y : covered B x -> incl y x -> covered B y.
Proof. intros (b & Hb & Hx) Hy. exists b. split; [exact Hb|]. eapply incl_tran; eauto. Qed.

(* ================= rebuilding a tree from the leaves of another ================= *)
Lemma groups_wf_ok nf gs : groups_wf gs -> Forall (good_sub nf) (gsubs gs) -> groups_ok nf gs.
Proof.
  unfold groups_wf, groups_ok, gsubs.
  induction 1 as [|[w g] gs (Hne & Hw) _ IH]; cbn [map snd concat fst]; intros HG; [constructor|].
  apply Forall_app in HG. destruct HG as [G1 G2]. constructor; [|apply IH, G2].
  cbn [fst snd] in *. split; [exact Hne|].
  rewrite Forall_forall in *. intros b Hb. split; auto.
Qed.

Lemma rebuild_core st st1 gs :
  st_inv st -> nf_ok st -> numbered st ->
  st_inv st1 -> root st1 = None -> released st1 = false ->
  groups_ok (nfeat st) gs -> tot_n (gsubs gs) = nfit st ->
  Permutation (concat (map sids (gsubs gs))) (mem_ids st) ->
  exists st', fit_groups fexp st1 gs = (st', Ok) /\
    st_inv st' /\ cfg st' = cfg st1 /\ released st' = false /\
    (nfeat st' = nfeat st1 \/ nfeat st' = nfeat st) /\ nfit st' = nfit st /\ numbered st' /\
    (forall b, In b (gsubs gs) -> covered (st_blocks st') (sids b)).
Proof.
  intros Hinv Hnf Hnum Hinv1 Hr1 Hrel1 Hgs Htot Hids.
  assert (Hn1 : nfit st1 = 0).
  { destruct Hinv1 as (_ & H). rewrite Hr1 in H. tauto. }
  assert (Hb : nfit st1 + tot_n (gsubs gs) < 2 ^ 64).
  { rewrite Hn1, Htot. destruct Hinv as (_ & H). destruct (root st); [lia|].
    destruct H as (-> & _). lia. }
  destruct (fit_groups_inv (nfeat st) gs st1 Hinv1 Hrel1 (or_introl Hr1) Hnf Hgs Hb)
    as (st' & F & K1 & K2 & K3 & K4 & K5 & K6 & K7 & K8 & K9 & K10).
  exists st'.
  assert (E : nfit st' = nfit st) by lia.
  refine (conj F (conj K1 (conj K2 (conj K3 (conj K5 (conj E (conj _ K10))))))).
  unfold numbered. rewrite E.
  etransitivity; [exact K7|]. unfold mem_ids at 1. rewrite Hr1. cbn [app].
  etransitivity; [exact Hids|exact Hnum].
Qed.

Lemma reset_thr_inv st t :
  st_inv st ->
  let st1 := set_thr (reset_st st) t in
  st_inv st1 /\ root st1 = None /\ released st1 = false /\ nfeat st1 = 0%nat /\
  c_bf (cfg st1) = c_bf (cfg st) /\ c_crit (cfg st1) = c_crit (cfg st).
Proof.
  intros (Hbf & _). cbv zeta. unfold st_inv, set_thr, reset_st.
  cbn [cfg root nfit released nfeat c_bf c_crit]. auto 10.
Qed.

Lemma reset_inv st :
  st_inv st -> let st1 := reset_st st in
  st_inv st1 /\ root st1 = None /\ released st1 = false /\ nfeat st1 = 0%nat /\ cfg st1 = cfg st.
Proof.
  intros (Hbf & _). cbv zeta. unfold st_inv, reset_st.
  cbn [cfg root nfit released nfeat]. auto 10.
Qed.

(* ================= C4: recluster ================= *)
Definition is_perm_of_len (n : nat) (p : list nat) : Prop := Permutation p (seq 0 n).

Lemma permute_seq {A} (l : list A) : permute l (seq 0 (length l)) = l.
Proof.
  unfold permute. induction l as [|x l IH]; [reflexivity|].
  cbn [length seq flat_map nth_error app]. f_equal.
  rewrite <- seq_shift, flat_map_concat_map, map_map, <- flat_map_concat_map.
  exact IH.
Qed.

Lemma permute_perm {A} (l : list A) p :
  is_perm_of_len (length l) p -> Permutation (permute l p) l.
Proof.
  intros H. rewrite <- (permute_seq l) at 2. unfold permute. apply flat_map_perm. exact H.
Qed.

Lemma is_perm_of_len_char n p :
  NoDup p -> (forall i, In i p <-> (i < n)%nat) -> is_perm_of_len n p.
Proof.
  intros Hnd Hin. unfold is_perm_of_len. apply NoDup_Permutation; [exact Hnd|apply seq_NoDup|].
  intros i. rewrite Hin, in_seq. lia.
Qed.

(* the shuffles handed to the loop are permutations of the leaf list they are applied to *)
Fixpoint perms_fit (iters : nat) (st : state) (extra : float) (perms : list (list nat))
         (se : bool) (before : Z) : Prop :=
  match iters with
  | O => True
  | S k =>
      let bfs := sorted_leaves st in
      let sing := count_singletons bfs in
      if se && ((sing =? 0) || (sing =? before)) then True
      else match perms with
           | [] => True
           | p :: ps =>
               is_perm_of_len (length bfs) p /\
               match fit_groups fexp (set_thr (reset_st st) (c_thr (cfg st) + extra)%float)
                                (prepare_groups (permute bfs p)) with
               | (st2, Ok) => perms_fit k st2 extra ps se sing
               | _ => True
               end
           end
  end.

Lemma perms_fit_nil iters : forall st extra se before, perms_fit iters st extra [] se before.
Proof.
  induction iters as [|k IH]; intros; cbn [perms_fit]; [exact I|].
  destruct (se && _); exact I.
Qed.

(* one pass: rebuild from a permutation of the current leaves *)
Lemma rebuild_leaves st t bfs' :
  st_inv st -> nf_ok st -> numbered st -> Permutation bfs' (sorted_leaves st) ->
  exists st', fit_groups fexp (set_thr (reset_st st) t) (prepare_groups bfs') = (st', Ok) /\
    st_inv st' /\ nf_ok st' /\ numbered st' /\ released st' = false /\
    (forall y, covered (st_blocks st) y -> covered (st_blocks st') y).
Proof.
  intros Hinv Hnf Hnum HP.
  destruct (reset_thr_inv st t Hinv) as (R1 & R2 & R3 & R4 & _).
  pose proof (prepare_groups_perm bfs') as PG.
  assert (PG' : Permutation (gsubs (prepare_groups bfs')) (sorted_leaves st))
    by (etransitivity; eassumption).
  assert (Hok : groups_ok (nfeat st) (prepare_groups bfs')).
  { apply groups_wf_ok; [apply prepare_groups_wf|].
    apply (Forall_perm _ (sorted_leaves st)); [symmetry; exact PG'|].
    apply sorted_leaves_good, Hinv. }
  assert (Htot : tot_n (gsubs (prepare_groups bfs')) = nfit st).
  { rewrite (tot_n_perm _ _ PG'). apply sorted_leaves_tot, Hinv. }
  assert (Hids : Permutation (concat (map sids (gsubs (prepare_groups bfs')))) (mem_ids st)).
  { etransitivity; [apply concat_perm, Permutation_map; exact PG'|].
    apply sorted_leaves_ids, Hinv. }
  destruct (rebuild_core st _ _ Hinv Hnf Hnum R1 R2 R3 Hok Htot Hids)
    as (st' & F & K1 & K2 & K3 & K4 & K5 & K6 & K7).
  exists st'. refine (conj F (conj K1 (conj _ (conj K6 (conj K3 _))))).
  - unfold nf_ok. destruct K4 as [->| ->]; [rewrite R4; cbn; lia|exact Hnf].
  - intros y (b & Hb & Hy).
    destruct (block_is_leaf st b Hinv Hb) as (x & Hx & <-).
    apply (covered_incl _ (sids x)); [|exact Hy].
    apply K7. apply (Permutation_in _ (Permutation_sym PG')). exact Hx.
Qed.

Lemma recluster_loop_inv iters : forall st extra perms se before,
  st_inv st -> nf_ok st -> numbered st -> perms_fit iters st extra perms se before ->
  let st' := fst (recluster_loop fexp iters st extra perms se before) in
  st_inv st' /\ nf_ok st' /\ numbered st' /\
  (forall y, covered (st_blocks st) y -> covered (st_blocks st') y).
Proof.
  induction iters as [|k IH]; intros st extra perms se before Hinv Hnf Hnum Hpf; cbv zeta.
  - cbn [recluster_loop fst]. auto.
  - cbn [recluster_loop perms_fit] in *.
    destruct (se && ((count_singletons (sorted_leaves st) =? 0)
                     || (count_singletons (sorted_leaves st) =? before))).
    + cbn [fst]. auto.
    + destruct perms as [|p ps].
      * destruct (rebuild_leaves st (c_thr (cfg st) + extra)%float (sorted_leaves st)
                                 Hinv Hnf Hnum (Permutation_refl _))
          as (st2 & F & K1 & K2 & K3 & K4 & K5).
        rewrite F.
        destruct (IH st2 extra [] se (count_singletons (sorted_leaves st)) K1 K2 K3
                     (perms_fit_nil _ _ _ _ _)) as (L1 & L2 & L3 & L4).
        refine (conj L1 (conj L2 (conj L3 _))). intros y Hy. apply L4, K5, Hy.
      * destruct Hpf as (Hp & Hpf).
        destruct (rebuild_leaves st (c_thr (cfg st) + extra)%float (permute (sorted_leaves st) p)
                                 Hinv Hnf Hnum (permute_perm _ _ Hp))
          as (st2 & F & K1 & K2 & K3 & K4 & K5).
        rewrite F in Hpf |- *.
        destruct (IH st2 extra ps se (count_singletons (sorted_leaves st)) K1 K2 K3 Hpf)
          as (L1 & L2 & L3 & L4).
        refine (conj L1 (conj L2 (conj L3 _))). intros y Hy. apply L4, K5, Hy.
Qed.

Lemma st_inv_nf_ok st : st_inv st -> root st <> None -> nf_ok st.
Proof.
  intros (_ & H) Hr. destruct (root st); [|congruence]. unfold nf_ok. tauto.
Qed.

Definition recluster_perms_ok (st : state) (iters : nat) (extra : float)
           (perms : list (list nat)) (se : bool) : Prop :=
  perms_fit iters st extra perms se 0.

Lemma do_recluster_inv st iters extra perms se :
  st_inv st -> numbered st -> recluster_perms_ok st iters extra perms se ->
  let st' := fst (do_recluster fexp st iters extra perms se) in
  st_inv st' /\ numbered st' /\ (nf_ok st -> nf_ok st') /\
  (forall i j, together (st_blocks st) i j -> together (st_blocks st') i j).
Proof.
  intros Hinv Hnum Hpf. cbv zeta. unfold do_recluster, is_init.
  destruct (root st) as [r|] eqn:Er; cbn [negb fst]; [|auto].
  assert (Hnf : nf_ok st) by (apply st_inv_nf_ok; [exact Hinv|congruence]).
  destruct (recluster_loop_inv iters st extra perms se 0 Hinv Hnf Hnum Hpf) as (L1 & L2 & L3 & L4).
  refine (conj L1 (conj L3 (conj (fun _ => L2) _))).
  intros i j T. apply together_covered, L4, together_covered, T.
Qed.

Lemma do_recluster_inv_noshuffle st iters extra se :
  st_inv st -> numbered st ->
  let st' := fst (do_recluster fexp st iters extra [] se) in
  st_inv st' /\ numbered st' /\
  (forall i j, together (st_blocks st) i j -> together (st_blocks st') i j).
Proof.
  intros Hinv Hnum.
  destruct (do_recluster_inv st iters extra [] se Hinv Hnum (perms_fit_nil _ _ _ _ _))
    as (A & B & _ & C).
  cbv zeta. auto.
Qed.

(* ================= C5: refine ================= *)
Lemma py_nth_In {A} (l : list A) i x : py_nth l i = Some x -> In x l.
Proof.
  unfold py_nth. destruct ((0 <=? i) && (i <? zlen l)).
  - apply nth_error_In.
  - destruct ((- zlen l <=? i) && (i <? 0)); [apply nth_error_In|discriminate].
Qed.

Lemma explode_spec nf (X : list fpv) im ids : forall r,
  Forall (fun fp : fpv => length fp = nf) X -> explode X im ids = Some r ->
  Forall (fun b => good_sub nf b /\ sw b = W8) r /\ concat (map sids r) = ids /\
  tot_n r = zlen ids.
Proof.
  intros r HX. revert r. induction ids as [|i ids IH]; intros r H; cbn [explode] in H.
  - injection H as <-. cbn. auto.
  - destruct (py_nth X (i - im)) as [fp|] eqn:E; [|discriminate H].
    destruct (explode X im ids) as [r'|]; [|discriminate H].
    injection H as <-. destruct (IH r' eq_refl) as (A & B & C).
    apply py_nth_In in E. rewrite Forall_forall in HX. specialize (HX fp E).
    refine (conj _ (conj _ _)).
    + constructor; [|exact A]. split; [|reflexivity].
      exact (singleton_good nf fp i HX).
    + cbn [map concat sids app]. now rewrite B.
    + rewrite tot_n_cons, C, zlen_cons. reflexivity.
Qed.

Lemma explode_all_spec nf (X : list fpv) im bfs : forall singles,
  Forall (fun fp : fpv => length fp = nf) X -> Forall cnt_ok bfs ->
  explode_all X im bfs = Some singles ->
  Forall (fun b => good_sub nf b /\ sw b = W8) singles /\
  concat (map sids singles) = concat (map sids bfs) /\ tot_n singles = tot_n bfs.
Proof.
  intros singles HX. revert singles.
  induction bfs as [|b bfs IH]; intros singles HC H; cbn [explode_all] in H.
  - injection H as <-. cbn. auto.
  - destruct (explode X im (sids b)) as [a|] eqn:E; [|discriminate H].
    destruct (explode_all X im bfs) as [r|]; [|discriminate H].
    injection H as <-. pose proof (Forall_inv HC) as Cb. pose proof (Forall_inv_tail HC) as HC'.
    destruct (IH r HC' eq_refl) as (A & B & C).
    destruct (explode_spec nf X im (sids b) a HX E) as (A' & B' & C').
    refine (conj _ (conj _ _)).
    + apply Forall_app. split; assumption.
    + rewrite map_app, concat_app, B, B'. reflexivity.
    + rewrite tot_n_app, tot_n_cons, C, C'. unfold cnt_ok in Cb. lia.
Qed.

(* general form of one rebuild from (a rearrangement of) the leaves of [st] *)
Lemma rebuild_groups st st1 gs keep :
  st_inv st -> nf_ok st -> numbered st ->
  st_inv st1 -> root st1 = None -> released st1 = false -> nf_ok st1 ->
  groups_wf gs -> Forall (good_sub (nfeat st)) (gsubs gs) ->
  tot_n (gsubs gs) = nfit st ->
  Permutation (concat (map sids (gsubs gs))) (mem_ids st) ->
  incl keep (gsubs gs) ->
  exists st', fit_groups fexp st1 gs = (st', Ok) /\
    st_inv st' /\ nf_ok st' /\ numbered st' /\ released st' = false /\
    (forall x, In x keep -> covered (st_blocks st') (sids x)).
Proof.
  intros Hinv Hnf Hnum R1 R2 R3 R4 Hwf Hgood Htot Hids Hkeep.
  pose proof (groups_wf_ok _ _ Hwf Hgood) as Hok.
  destruct (rebuild_core st _ _ Hinv Hnf Hnum R1 R2 R3 Hok Htot Hids)
    as (st' & F & K1 & K2 & K3 & K4 & K5 & K6 & K7).
  exists st'. refine (conj F (conj K1 (conj _ (conj K6 (conj K3 _))))).
  - unfold nf_ok. destruct K4 as [->| ->]; assumption.
  - intros x Hx. apply K7, Hkeep, Hx.
Qed.

Lemma delete_internal_spec st :
  st_inv st ->
  let st1 := fst (delete_internal st) in
  st_inv st1 /\ cfg st1 = cfg st /\ root st1 = root st /\ sax st1 = sax st /\
  nfit st1 = nfit st /\ nfeat st1 = nfeat st /\
  (snd (delete_internal st) = Ok -> root st <> None).
Proof.
  intros Hinv. cbv zeta. unfold delete_internal.
  destruct (root st) as [r|] eqn:Er.
  2:{ cbn [fst snd].
      refine (conj Hinv (conj eq_refl (conj _ (conj eq_refl (conj eq_refl (conj eq_refl _))))));
        [first [exact Er|reflexivity]|intros E; discriminate E]. }
  assert (Hr : Some r <> None) by discriminate.
  destruct (released st).
  { cbn [fst snd].
    refine (conj Hinv (conj eq_refl (conj _ (conj eq_refl (conj eq_refl (conj eq_refl (fun _ => Hr)))))));
      first [exact Er|reflexivity]. }
  destruct r as [id bf es ca|bf es ca]; cbn [fst snd].
  - refine (conj Hinv (conj eq_refl (conj _ (conj eq_refl (conj eq_refl (conj eq_refl (fun _ => Hr)))))));
      first [exact Er|reflexivity].
  - refine (conj _ (conj eq_refl (conj _ (conj eq_refl (conj eq_refl (conj eq_refl (fun _ => Hr))))))).
    + unfold st_inv in *. cbn [cfg root sax nfit nfeat released]. rewrite Er in *. exact Hinv.
    + cbn [root]. first [exact Er|reflexivity].
Qed.

Lemma same_tree_views st st1 :
  root st1 = root st -> sax st1 = sax st -> nfit st1 = nfit st ->
  sorted_leaves st1 = sorted_leaves st /\ st_blocks st1 = st_blocks st /\
  mem_ids st1 = mem_ids st /\ (numbered st -> numbered st1).
Proof.
  intros E1 E2 E3. unfold sorted_leaves, leaves_of, st_blocks, mem_ids, numbered.
  unfold mem_ids. rewrite E1, E2, E3. auto.
Qed.

Lemma firstn_skipn_Forall {A} (P : A -> Prop) k l :
  Forall P l -> Forall P (firstn k l) /\ Forall P (skipn k l).
Proof. intros H. rewrite <- (firstn_skipn k l) in H. apply Forall_app in H. exact H. Qed.

Lemma refine_core st1 (X : list fpv) im nl gs :
  st_inv st1 -> root st1 <> None -> numbered st1 ->
  Forall (fun fp : fpv => length fp = nfeat st1) X ->
  refine_groups st1 X im nl = Some gs ->
  exists st', fit_groups fexp (reset_st st1) gs = (st', Ok) /\
    st_inv st' /\ nf_ok st' /\ numbered st' /\
    (forall x, In x (skipn (Z.to_nat nl) (sorted_leaves st1)) ->
               covered (st_blocks st') (sids x)).
Proof.
  intros Hinv Hr Hnum HX Hrg.
  pose proof (st_inv_nf_ok st1 Hinv Hr) as Hnf.
  destruct (reset_inv st1 Hinv) as (R1 & R2 & R3 & R4 & _).
  assert (R5 : nf_ok (reset_st st1)) by (unfold nf_ok; rewrite R4; cbn; lia).
  pose proof (sorted_leaves_good st1 Hinv) as Hgood.
  pose proof (sorted_leaves_tot st1 Hinv) as Htot.
  pose proof (sorted_leaves_ids st1 Hinv) as Hids.
  unfold refine_groups in Hrg.
  destruct (nl =? 0) eqn:E0.
  - injection Hrg as <-. apply Z.eqb_eq in E0. subst nl. cbn [Z.to_nat skipn].
    pose proof (prepare_groups_perm (sorted_leaves st1)) as PG.
    destruct (rebuild_groups st1 (reset_st st1) (prepare_groups (sorted_leaves st1))
                (sorted_leaves st1) Hinv Hnf Hnum R1 R2 R3 R5 (prepare_groups_wf _))
      as (st' & F & K1 & K2 & K3 & K4 & K5).
    + apply (Forall_perm _ (sorted_leaves st1)); [symmetry; exact PG|exact Hgood].
    + rewrite (tot_n_perm _ _ PG). exact Htot.
    + etransitivity; [apply concat_perm, Permutation_map; exact PG|exact Hids].
    + intros x Hx. apply (Permutation_in _ (Permutation_sym PG)). exact Hx.
    + exists st'. auto.
  - destruct (nl <? 1); [discriminate|].
    remember (Z.to_nat nl) as k eqn:Ek.
    remember (sorted_leaves st1) as bfs eqn:Ebfs.
    destruct (firstn k bfs) as [|l0 lt] eqn:El; [discriminate|]. rewrite <- El in Hrg.
    destruct (explode_all X im (firstn k bfs)) as [singles|] eqn:Ex; [|discriminate].
    injection Hrg as <-.
    destruct (firstn_skipn_Forall _ k bfs Hgood) as (G1 & G2).
    assert (HC : Forall cnt_ok (firstn k bfs)).
    { eapply Forall_impl; [|exact G1]. cbv beta. intros a (_ & _ & Hq). exact Hq. }
    destruct (explode_all_spec (nfeat st1) X im _ singles HX HC Ex) as (S1 & S2 & S3).
    assert (SW : Forall (fun b => sw b = W8) singles).
    { eapply Forall_impl; [|exact S1]. cbv beta. tauto. }
    assert (SG : Forall (good_sub (nfeat st1)) singles).
    { eapply Forall_impl; [|exact S1]. cbv beta. tauto. }
    pose proof (prepare_groups_perm (skipn k bfs)) as PG.
    pose proof (fold_group_add_perm (fun _ => W8) singles (prepare_groups (skipn k bfs))) as PF.
    cbv beta in PF.
    assert (PP : Permutation
                   (gsubs (fold_left (fun gs b => group_add W8 b gs) singles
                                     (prepare_groups (skipn k bfs))))
                   (skipn k bfs ++ singles)).
    { etransitivity; [exact PF|]. apply Permutation_app_tail. exact PG. }
    destruct (rebuild_groups st1 (reset_st st1)
                (fold_left (fun gs b => group_add W8 b gs) singles (prepare_groups (skipn k bfs)))
                (skipn k bfs) Hinv Hnf Hnum R1 R2 R3 R5)
      as (st' & F & K1 & K2 & K3 & K4 & K5).
    + apply (fold_group_add_wf (fun _ => W8)); [exact SW|apply prepare_groups_wf].
    + apply (Forall_perm _ (skipn k bfs ++ singles)); [symmetry; exact PP|].
      apply Forall_app. split; assumption.
    + rewrite (tot_n_perm _ _ PP), tot_n_app, S3, <- Htot.
      rewrite <- (firstn_skipn k bfs) at 3. rewrite tot_n_app. lia.
    + etransitivity; [apply concat_perm, Permutation_map; exact PP|].
      rewrite map_app, concat_app, S2.
      etransitivity; [apply Permutation_app_comm|].
      rewrite <- concat_app, <- map_app, firstn_skipn. exact Hids.
    + intros x Hx. apply (Permutation_in _ (Permutation_sym PP)). apply in_or_app. now left.
    + exists st'. auto.
Qed.

Lemma do_refine_inv st X im nl :
  st_inv st -> numbered st -> op_wf st (ORefine X im nl) ->
  let st' := fst (do_refine fexp st X im nl) in
  st_inv st' /\ numbered st' /\ (nf_ok st -> nf_ok st') /\
  (forall i j, together (st_blocks st) i j ->
     (forall b, In b (map sids (firstn (Z.to_nat nl) (sorted_leaves st))) -> ~ In i b) ->
     together (st_blocks st') i j).
Proof.
  intros Hinv Hnum HX. cbn [op_wf] in HX. cbv zeta. unfold do_refine, is_init.
  destruct (root st) as [r|] eqn:Er; cbn [negb]; [|cbn [fst]; auto].
  destruct (delete_internal_spec st Hinv) as (D1 & D2 & D3 & D4 & D5 & D6 & D7).
  destruct (delete_internal st) as [st1 o] eqn:Ed. cbn [fst snd] in *.
  destruct (same_tree_views st st1 D3 D4 D5) as (V1 & V2 & V3 & V4).
  assert (Triv : st_inv st1 /\ numbered st1 /\ (nf_ok st -> nf_ok st1) /\
                 (forall i j, together (st_blocks st) i j ->
                    (forall b, In b (map sids (firstn (Z.to_nat nl) (sorted_leaves st))) -> ~ In i b) ->
                    together (st_blocks st1) i j)).
  { refine (conj D1 (conj (V4 Hnum) (conj _ _))).
    - unfold nf_ok. now rewrite D6.
    - intros i j T _. now rewrite V2. }
  destruct o; [|exact Triv].
  destruct (refine_groups st1 X im nl) as [gs|] eqn:Eg; [|exact Triv].
  assert (Hr1 : root st1 <> None) by (rewrite D3, Er; discriminate).
  rewrite <- D6 in HX.
  destruct (refine_core st1 X im nl gs D1 Hr1 (V4 Hnum) HX Eg) as (st' & F & K1 & K2 & K3 & K4).
  rewrite F. cbn [fst].
  refine (conj K1 (conj K3 (conj (fun _ => K2) _))).
  intros i j (b & Hb & Hi & Hj) Hnot.
  rewrite <- V2 in Hb. destruct (block_is_leaf st1 b D1 Hb) as (x & Hx & <-).
  rewrite <- (firstn_skipn (Z.to_nat nl) (sorted_leaves st1)) in Hx.
  apply in_app_or in Hx. destruct Hx as [Hx|Hx].
  - exfalso. apply (Hnot (sids x)); [|exact Hi]. rewrite <- V1. apply in_map. exact Hx.
  - apply together_covered. apply (covered_incl _ (sids x)); [apply K4, Hx|].
    intros z [<-|[<-|[]]]; assumption.
Qed.

(* ================= PART D: all histories ================= *)
Definition op_perms_ok (st : state) (o : op) : Prop :=
  match o with
  | ORecluster it ex ps se => recluster_perms_ok st it ex ps se
  | _ => True
  end.

Fixpoint ops_perms_ok (st : state) (ops : list op) : Prop :=
  match ops with
  | [] => True
  | o :: tl => op_perms_ok st o /\ ops_perms_ok (fst (step fexp st o)) tl
  end.

(* histories whose recluster calls do not shuffle satisfy the hypothesis outright *)
Definition no_shuffle (ops : list op) : bool :=
  forallb (fun o => match o with ORecluster _ _ (_ :: _) _ => false | _ => true end) ops.

Lemma no_shuffle_perms_ok ops : forall st, no_shuffle ops = true -> ops_perms_ok st ops.
Proof.
  induction ops as [|o ops IH]; intros st H; cbn [ops_perms_ok]; [exact I|].
  unfold no_shuffle in H. cbn [forallb] in H. apply andb_prop in H. destruct H as [H1 H2].
  split; [|apply IH, H2].
  destruct o as [| |it ex ps se| | |]; cbn [op_perms_ok]; try exact I.
  destruct ps; [|discriminate]. apply perms_fit_nil.
Qed.

(* NOTE.  [step_inv] as literally requested is false for the same reason as
   [do_fit_numbered] (an [OFit] whose first row is bad on an uninitialised state with an
   absurd [nfeat]); the invariant that is preserved is [st_inv /\ nf_ok /\ numbered]. *)
Lemma step_inv_alt st o :
  st_inv st -> nf_ok st -> numbered st -> op_wf st o -> op_perms_ok st o ->
  let st' := fst (step fexp st o) in
  st_inv st' /\ nf_ok st' /\ numbered st'.
Proof.
  intros Hinv Hnf Hnum Hwf Hp. cbv zeta.
  destruct o as [rows labels|X im nl|it ex ps se|c t b| |]; cbn [step].
  - pose proof Hwf as (-> & _).
    destruct (do_fit_numbered_alt fexp st rows Hinv Hnf Hnum Hwf) as (A & B & C & _). auto.
  - destruct (do_refine_inv st X im nl Hinv Hnum Hwf) as (A & B & C & _). auto.
  - destruct (do_recluster_inv st it ex ps se Hinv Hnum Hp) as (A & B & C & _). auto.
  - cbn [fst]. cbn [op_wf] in Hwf. destruct Hinv as (Hbf & Hinv).
    refine (conj (conj _ Hinv) (conj Hnf Hnum)).
    cbn [cfg c_bf]. destruct b; assumption.
  - destruct (delete_internal_spec st Hinv) as (D1 & D2 & D3 & D4 & D5 & D6 & _).
    destruct (same_tree_views st _ D3 D4 D5) as (_ & _ & _ & V4).
    refine (conj D1 (conj _ (V4 Hnum))). unfold nf_ok. now rewrite D6.
  - cbn [fst]. destruct (reset_inv st Hinv) as (R1 & R2 & R3 & R4 & _).
    refine (conj R1 (conj _ _)).
    + unfold nf_ok. rewrite R4. cbn. lia.
    + unfold numbered, mem_ids. rewrite R2. reflexivity.
Qed.

Lemma run_from_inv ops : forall st,
  st_inv st -> nf_ok st -> numbered st -> ops_wf fexp st ops -> ops_perms_ok st ops ->
  let st' := run_from fexp st ops in st_inv st' /\ nf_ok st' /\ numbered st'.
Proof.
  induction ops as [|o ops IH]; intros st Hinv Hnf Hnum Hwf Hp; cbv zeta.
  - cbn. auto.
  - destruct Hwf as (W1 & W2). destruct Hp as (P1 & P2).
    destruct (step_inv_alt st o Hinv Hnf Hnum W1 P1) as (A & B & C).
    exact (IH _ A B C W2 P2).
Qed.

Lemma init_inv cfg0 : 2 <= c_bf cfg0 ->
  st_inv (init cfg0) /\ nf_ok (init cfg0) /\ numbered (init cfg0).
Proof.
  intros H. unfold st_inv, nf_ok, numbered, init, mem_ids. cbn [cfg root nfit released nfeat].
  refine (conj (conj H (conj eq_refl eq_refl)) (conj _ (Permutation_refl _))). cbn. lia.
Qed.

Theorem run_inv cfg0 ops :
  2 <= c_bf cfg0 -> ops_wf fexp (init cfg0) ops -> ops_perms_ok (init cfg0) ops ->
  st_inv (run fexp cfg0 ops) /\ numbered (run fexp cfg0 ops).
Proof.
  intros H Hwf Hp. destruct (init_inv cfg0 H) as (A & B & C).
  destruct (run_from_inv ops (init cfg0) A B C Hwf Hp) as (R1 & _ & R3).
  exact (conj R1 R3).
Qed.

Theorem run_inv_noshuffle cfg0 ops :
  2 <= c_bf cfg0 -> ops_wf fexp (init cfg0) ops -> no_shuffle ops = true ->
  st_inv (run fexp cfg0 ops) /\ numbered (run fexp cfg0 ops).
Proof.
  intros H Hwf Hn. apply run_inv; auto. apply no_shuffle_perms_ok, Hn.
Qed.

(* ---------- D3: what the user sees ---------- *)
Lemma numbered_clusters st :
  st_inv st -> numbered st ->
  Permutation (concat (clusters st)) (zseq 0 (Z.to_nat (nfit st))) /\
  NoDup (concat (clusters st)) /\
  nfit st = zlen (concat (clusters st)).
Proof.
  intros Hinv Hnum.
  assert (P : Permutation (concat (clusters st)) (zseq 0 (Z.to_nat (nfit st)))).
  { etransitivity; [apply concat_perm, clusters_perm, Hinv|].
    rewrite <- mem_ids_blocks. exact Hnum. }
  refine (conj P (conj _ _)).
  - eapply Permutation_NoDup; [symmetry; exact P|apply NoDup_zseq].
  - unfold zlen. rewrite (Permutation_length P), zseq_length.
    pose proof (st_inv_nfit_nonneg st Hinv). lia.
Qed.

Theorem run_clusters cfg0 ops :
  2 <= c_bf cfg0 -> ops_wf fexp (init cfg0) ops -> ops_perms_ok (init cfg0) ops ->
  let st := run fexp cfg0 ops in
  Permutation (concat (clusters st)) (zseq 0 (Z.to_nat (nfit st))) /\
  NoDup (concat (clusters st)) /\
  nfit st = zlen (concat (clusters st)).
Proof.
  intros H Hwf Hp. cbv zeta. destruct (run_inv cfg0 ops H Hwf Hp) as (A & B).
  apply numbered_clusters; assumption.
Qed.

End WithExp.

Print Assumptions sort_desc_perm.
Print Assumptions prepare_groups_perm.
Print Assumptions prepare_groups_groups.
Print Assumptions singles_groups.
Print Assumptions sub_of_buffer_id.
Print Assumptions BlockStep_covered.
Print Assumptions fit_groups_inv.
Print Assumptions leaves_perm.
Print Assumptions clusters_perm.
Print Assumptions sorted_leaves_good.
Print Assumptions permute_perm.
Print Assumptions do_recluster_inv.
Print Assumptions do_recluster_inv_noshuffle.
Print Assumptions do_refine_inv.
Print Assumptions step_inv_alt.
Print Assumptions run_inv.
Print Assumptions run_inv_noshuffle.
Print Assumptions run_clusters.
