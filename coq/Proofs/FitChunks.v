(* FitChunks.v — property C04 (purity part): cutting a sequence of rows into consecutive fit
   calls gives the same state (and the same outcome) as a single call on the whole sequence;
   packed and unpacked input forms decode to the same rows. *)
From BB Require Import Model.Birch Proofs.BitsFacts.
From Coq Require Import Lia.
Open Scope Z_scope.

Section WithExp.
Variable fexp : float -> float.

(* ------------------------------------------------------------------ *)
(* F1                                                                   *)
(* ------------------------------------------------------------------ *)
Lemma insert_st_props cf st s dn :
  root st <> None ->
  nfit (insert_st fexp cf st s dn) = nfit st + dn /\
  cfg (insert_st fexp cf st s dn) = cfg st /\
  nfeat (insert_st fexp cf st s dn) = nfeat st /\
  released (insert_st fexp cf st s dn) = released st /\
  root (insert_st fexp cf st s dn) <> None.
Proof.
  intros Hr. unfold insert_st.
  destruct (root st) as [r|]; [|congruence].
  destruct (insert_root fexp (nfeat st) (c_crit cf) (c_thr cf) (c_bf cf) r s (sax st))
    as [r' ax'].
  cbn [nfit cfg nfeat released root].
  refine (conj eq_refl (conj eq_refl (conj eq_refl (conj eq_refl _)))). discriminate.
Qed.

(* ------------------------------------------------------------------ *)
(* zseq                                                                 *)
(* ------------------------------------------------------------------ *)
Lemma zseq_length n a : length (zseq n a) = a.
Proof. revert n. induction a as [|a IH]; intros n; cbn [zseq length]; [|rewrite IH]; reflexivity. Qed.

Lemma zseq_app n a b : zseq n (a + b) = zseq n a ++ zseq (n + Z.of_nat a) b.
Proof.
  revert n. induction a as [|a IH]; intros n.
  - cbn [Nat.add zseq app Z.of_nat]. rewrite Z.add_0_r. reflexivity.
  - cbn [Nat.add zseq app]. rewrite IH. f_equal. f_equal. f_equal. lia.
Qed.

(* ------------------------------------------------------------------ *)
(* F2                                                                   *)
(* ------------------------------------------------------------------ *)
Lemma fit_rows_app cf st (xs ys : list (option fpv)) la lb :
  length la = length xs -> Forall (fun r => r <> None) xs ->
  fit_rows fexp cf st (xs ++ ys) (la ++ lb) =
  let (st1, _) := fit_rows fexp cf st xs la in fit_rows fexp cf st1 ys lb.
Proof.
  revert st la. induction xs as [|x xs IH]; intros st la Hl Hf.
  - destruct la; [|discriminate]. reflexivity.
  - destruct la as [|l la]; [discriminate|].
    inversion Hf as [|? ? Hx Hf']; subst.
    destruct x as [fp|]; [|congruence].
    cbn [app fit_rows]. apply IH; [|exact Hf'].
    cbn [length] in Hl. congruence.
Qed.

(* all-good rows: the loop runs to the end; what it does to the scalar fields *)
Lemma fit_rows_good cf st (xs : list (option fpv)) la :
  length la = length xs -> Forall (fun r => r <> None) xs -> root st <> None ->
  snd (fit_rows fexp cf st xs la) = Ok /\
  nfit (fst (fit_rows fexp cf st xs la)) = nfit st + Z.of_nat (length xs) /\
  cfg (fst (fit_rows fexp cf st xs la)) = cfg st /\
  nfeat (fst (fit_rows fexp cf st xs la)) = nfeat st /\
  released (fst (fit_rows fexp cf st xs la)) = released st /\
  root (fst (fit_rows fexp cf st xs la)) <> None.
Proof.
  revert st la. induction xs as [|x xs IH]; intros st la Hl Hf Hr.
  - destruct la; [|discriminate]. cbn [fit_rows fst snd length Z.of_nat].
    rewrite Z.add_0_r. refine (conj eq_refl (conj eq_refl (conj eq_refl (conj eq_refl (conj eq_refl Hr))))).
  - destruct la as [|l la]; [discriminate|].
    inversion Hf as [|? ? Hx Hf']; subst.
    destruct x as [fp|]; [|congruence].
    cbn [fit_rows].
    destruct (insert_st_props cf st (singleton fp l) 1 Hr) as (A1 & A2 & A3 & A4 & A5).
    assert (Hl' : length la = length xs) by (cbn [length] in Hl; congruence).
    destruct (IH (insert_st fexp cf st (singleton fp l) 1) la Hl' Hf' A5)
      as (B1 & B2 & B3 & B4 & B5 & B6).
    refine (conj B1 (conj _ (conj _ (conj _ (conj _ B6))))).
    + rewrite B2, A1. cbn [length]. lia.
    + rewrite B3. exact A2.
    + rewrite B4. exact A3.
    + rewrite B5. exact A4.
Qed.

(* ------------------------------------------------------------------ *)
(* F3                                                                   *)
(* ------------------------------------------------------------------ *)
(* what one all-good fit call does to the scalar fields *)
Lemma do_fit_good st (xs : list (option fpv)) :
  released st = false -> xs <> [] -> Forall (fun r => r <> None) xs ->
  snd (do_fit fexp st xs None) = Ok /\
  nfit (fst (do_fit fexp st xs None)) = nfit st + Z.of_nat (length xs) /\
  cfg (fst (do_fit fexp st xs None)) = cfg st /\
  released (fst (do_fit fexp st xs None)) = false /\
  root (fst (do_fit fexp st xs None)) <> None.
Proof.
  intros Hrel Hne Hf.
  destruct xs as [|r0 xs']; [congruence|].
  unfold do_fit. rewrite Hrel.
  set (nf := match r0 with Some fp => length fp | None => nfeat st end).
  set (st1 := if is_init st then st else initialize st nf).
  assert (S1 : nfit st1 = nfit st /\ cfg st1 = cfg st /\ released st1 = false /\ root st1 <> None).
  { unfold st1, is_init. destruct (root st) eqn:Er.
    - rewrite Er. refine (conj eq_refl (conj eq_refl (conj Hrel _))). discriminate.
    - cbn [initialize nfit cfg released root].
      refine (conj eq_refl (conj eq_refl (conj eq_refl _))). discriminate. }
  destruct S1 as (S1 & S2 & S3 & S4).
  destruct (fit_rows_good (cfg st1) st1 (r0 :: xs') (zseq (nfit st1) (length (r0 :: xs')))
              (zseq_length _ _) Hf S4) as (B1 & B2 & B3 & B4 & B5 & B6).
  refine (conj B1 (conj _ (conj _ (conj _ B6)))).
  - rewrite B2, S1. reflexivity.
  - rewrite B3. exact S2.
  - rewrite B5. exact S3.
Qed.

Lemma do_fit_chunks_eq st (xs ys : list (option fpv)) :
  released st = false -> xs <> [] -> ys <> [] -> Forall (fun r => r <> None) xs ->
  do_fit fexp (fst (do_fit fexp st xs None)) ys None = do_fit fexp st (xs ++ ys) None.
Proof.
  intros Hrel Hx Hy Hf.
  destruct (do_fit_good st xs Hrel Hx Hf) as (G1 & G2 & G3 & G4 & G5).
  destruct xs as [|r0 xs']; [congruence|].
  destruct ys as [|y0 ys']; [congruence|].
  (* the second call: already initialised, not released *)
  remember (do_fit fexp st (r0 :: xs') None) as res eqn:Eres.
  assert (E2 : do_fit fexp (fst res) (y0 :: ys') None =
               fit_rows fexp (cfg (fst res)) (fst res) (y0 :: ys')
                        (zseq (nfit (fst res)) (length (y0 :: ys')))).
  { unfold do_fit at 1. rewrite G4. unfold is_init.
    destruct (root (fst res)); [reflexivity|congruence]. }
  rewrite E2. clear E2.
  (* the single call *)
  cbn [app]. unfold do_fit at 1. rewrite Hrel.
  unfold do_fit in Eres. rewrite Hrel in Eres.
  set (nf := match r0 with Some fp => length fp | None => nfeat st end) in *.
  set (st1 := if is_init st then st else initialize st nf) in *.
  assert (S1 : nfit st1 = nfit st /\ cfg st1 = cfg st).
  { unfold st1. destruct (is_init st); [split; reflexivity|].
    cbn [initialize nfit cfg]. split; reflexivity. }
  destruct S1 as (S1 & S2).
  change (r0 :: xs' ++ y0 :: ys') with ((r0 :: xs') ++ (y0 :: ys')).
  rewrite app_length, zseq_app.
  rewrite (fit_rows_app (cfg st1) st1 (r0 :: xs') (y0 :: ys')
             (zseq (nfit st1) (length (r0 :: xs')))
             (zseq (nfit st1 + Z.of_nat (length (r0 :: xs'))) (length (y0 :: ys')))
             (zseq_length _ _) Hf).
  rewrite <- Eres.
  rewrite G2, G3, S1, S2.
  destruct res as [st' o']. cbn [fst]. reflexivity.
Qed.

Theorem do_fit_chunks st (xs ys : list (option fpv)) :
  released st = false -> xs <> [] -> ys <> [] -> Forall (fun r => r <> None) xs ->
  fst (do_fit fexp (fst (do_fit fexp st xs None)) ys None) = fst (do_fit fexp st (xs ++ ys) None) /\
  snd (do_fit fexp (fst (do_fit fexp st xs None)) ys None) = snd (do_fit fexp st (xs ++ ys) None).
Proof.
  intros Hrel Hx Hy Hf. rewrite (do_fit_chunks_eq st xs ys Hrel Hx Hy Hf).
  split; reflexivity.
Qed.

(* ------------------------------------------------------------------ *)
(* F4                                                                   *)
(* ------------------------------------------------------------------ *)
(* from any non-released state *)
Lemma fold_chunks st (xs ys : list (option fpv)) tl :
  released st = false -> xs <> [] -> ys <> [] -> Forall (fun r => r <> None) xs ->
  fold_left (fun st o => fst (step fexp st o)) (OFit xs None :: OFit ys None :: tl) st =
  fold_left (fun st o => fst (step fexp st o)) (OFit (xs ++ ys) None :: tl) st.
Proof.
  intros Hrel Hx Hy Hf. cbn [fold_left step].
  rewrite (proj1 (do_fit_chunks st xs ys Hrel Hx Hy Hf)). reflexivity.
Qed.

Corollary run_chunks cfg0 (xs ys : list (option fpv)) tl :
  xs <> [] -> ys <> [] -> Forall (fun r => r <> None) xs ->
  run fexp cfg0 (OFit xs None :: OFit ys None :: tl) = run fexp cfg0 (OFit (xs ++ ys) None :: tl).
Proof.
  intros Hx Hy Hf. unfold run. apply fold_chunks; try assumption. reflexivity.
Qed.

(* any number of chunks: fitting the chunks one after another = fitting their concatenation *)
Corollary run_many_chunks cfg0 (xs : list (option fpv)) (chunks : list (list (option fpv))) tl :
  xs <> [] -> Forall (fun c => c <> []) chunks ->
  Forall (fun r => r <> None) xs -> Forall (Forall (fun r => r <> None)) chunks ->
  run fexp cfg0 (OFit xs None :: map (fun c => OFit c None) chunks ++ tl) =
  run fexp cfg0 (OFit (xs ++ concat chunks) None :: tl).
Proof.
  revert xs. induction chunks as [|c cs IH]; intros xs Hx Hne Hf Hfs.
  - cbn [map concat app]. rewrite app_nil_r. reflexivity.
  - inversion Hne as [|? ? Hc Hne']; subst. inversion Hfs as [|? ? Hfc Hfs']; subst.
    cbn [map concat app].
    rewrite run_chunks by assumption.
    rewrite IH.
    + rewrite app_assoc. reflexivity.
    + destruct xs; [congruence|discriminate].
    + exact Hne'.
    + apply Forall_app. split; assumption.
    + exact Hfs'.
Qed.
End WithExp.

(* ------------------------------------------------------------------ *)
(* F5 — packed and unpacked input decode to the same rows               *)
(* ------------------------------------------------------------------ *)
Lemma packed_form_same (rows : list fpv) nf :
  Forall (fun r => length r = nf) rows ->
  map (fun r => Some (unpack (Some (Z.of_nat nf)) (pack r))) rows = map Some rows.
Proof.
  intros H. induction H as [|r rows Hr _ IH]; [reflexivity|].
  cbn [map]. rewrite IH. f_equal. f_equal. rewrite <- Hr. apply unpack_pack.
Qed.

(* so a fit on packed input is the same computation as a fit on the unpacked rows *)
Corollary do_fit_packed_same fexp st (rows : list fpv) nf labels :
  Forall (fun r => length r = nf) rows ->
  do_fit fexp st (map (fun r => Some (unpack (Some (Z.of_nat nf)) (pack r))) rows) labels =
  do_fit fexp st (map Some rows) labels.
Proof. intros H. rewrite (packed_form_same rows nf H). reflexivity. Qed.

Print Assumptions insert_st_props.
Print Assumptions fit_rows_app.
Print Assumptions do_fit_chunks.
Print Assumptions run_chunks.
Print Assumptions run_many_chunks.
Print Assumptions packed_form_same.
Print Assumptions do_fit_packed_same.
