(* GenTieMem.v — the generated definitions (Gen/GMem.v, regenerated from /repo on every run) are the
   hand model.  Every theorem about the model is thereby re-checked against what the source
   says now. *)
From BB Require Import Model.Mem Gen.NumpySem Gen.GMem.
Open Scope Z_scope.

(* _ArrayMemPagesManager: the two methods the fit loop calls *)
Lemma tie_should_release m i :
  GMem.should_release_curr_page (pagesizex m) (iters m) (addr m) i = should_release m i.
Proof. reflexivity. Qed.
Lemma tie_release m :
  GMem.release_curr_page_and_update_addr (pagesizex m) (iters m) (addr m) =
  ([fst (release m)], addr (snd (release m))).
Proof. reflexivity. Qed.

(* ------------------------------------------------------------------ *)
(* _ArrayMemPagesManager.from_bb_input: int(pagesizex / cols) is a float division followed
   by truncation; on the memmap branch cols divides pagesizex, so the quotient is exact.  *)
(* ------------------------------------------------------------------ *)
From Coq Require Import ZArith List Bool Reals Lia Lra.
From Flocq Require Import Core BinarySingleNaN.
From Flocq Require Import IEEE754.PrimFloat.
From BB Require Import Proofs.FloatFacts.
Open Scope Z_scope.

#[local] Existing Instance Hprec.
#[local] Existing Instance Hmax.

Lemma Zs2f_nonneg : forall z, 0 <= z -> Zs2f z = Z2f z.
Proof.
  intros z Hz. unfold Zs2f.
  destruct (z <? 0) eqn:E; [ apply Z.ltb_lt in E; lia | reflexivity ].
Qed.

(* int(float(q)) = q for 0 <= q < 2^53 *)
Lemma f2Z_trunc_Z2f : forall q, 0 <= q < 2 ^ 53 -> f2Z_trunc (Z2f q) = q.
Proof.
  intros q Hq.
  destruct (Z2f_spec q Hq) as (HF & HR & HS).
  unfold f2Z_trunc. rewrite <- B2SF_Prim2B.
  destruct (Prim2B (Z2f q)) as [s | s | | s m e B]; simpl in HF, HR, HS; cbn [B2SF]; try discriminate.
  - apply eq_IZR. exact HR.
  - subst s. simpl in HR. unfold F2R in HR. simpl in HR.
    destruct (0 <=? e) eqn:Ee.
    + apply Z.leb_le in Ee. apply eq_IZR. rewrite <- HR.
      rewrite mult_IZR. f_equal.
      change 2 with (radix_val radix2). apply IZR_Zpower. exact Ee.
    + apply Z.leb_gt in Ee.
      assert (Hp : 0 < 2 ^ (- e)) by (apply Z.pow_pos_nonneg; lia).
      assert (E : Z.pos m = q * 2 ^ (- e)).
      { apply eq_IZR. rewrite mult_IZR, <- HR.
        change 2 with (radix_val radix2). rewrite IZR_Zpower by lia.
        rewrite Rmult_assoc, <- bpow_plus.
        replace (e + - e) with 0 by lia. simpl. ring. }
      rewrite E. apply Z.div_mul. lia.
Qed.

(* the correctly rounded quotient of two exactly represented integers is exact when the
   divisor divides the dividend *)
Lemma Z2f_div_exact : forall a b, 0 < b -> 0 <= a < 2 ^ 53 -> b < 2 ^ 53 -> a mod b = 0 ->
  (Z2f a / Z2f b)%float = Z2f (a / b).
Proof.
  intros a b Hb Ha Hb' Hm.
  assert (Ea : a = b * (a / b)) by (apply Z.div_exact; lia).
  assert (Hq0 : 0 <= a / b) by (apply Z.div_pos; lia).
  assert (Hq1 : a / b <= a) by (apply Z.div_le_upper_bound; nia).
  destruct (div_spec_int a b) as (F & R & S); [ lia | lia | ].
  destruct (Z2f_spec (a / b)) as (Fq & Rq & Sq); [ lia | ].
  apply prim_eq; try congruence.
  rewrite R, Rq.
  replace (IZR a / IZR b)%R with (IZR (a / b)).
  - apply rnd64_int. lia.
  - rewrite Ea at 2. rewrite mult_IZR. field. apply not_0_IZR. lia.
Qed.

Lemma f2Z_trunc_exact_div : forall a b, 0 < b -> 0 <= a < 2 ^ 53 -> b < 2 ^ 53 -> a mod b = 0 ->
  f2Z_trunc (Zs2f a / Zs2f b)%float = a / b.
Proof.
  intros a b Hb Ha Hb' Hm.
  rewrite !Zs2f_nonneg by lia.
  rewrite Z2f_div_exact by assumption.
  apply f2Z_trunc_Z2f.
  assert (0 <= a / b) by (apply Z.div_pos; lia).
  assert (a / b <= a) by (apply Z.div_le_upper_bound; nia).
  lia.
Qed.

(* from_bb_input on a 2-D np.memmap with can_release left at None *)
Lemma tie_from_bb_input : forall cols offset data pagesize,
  0 < cols -> 0 < pagesize -> pagesize * 512 < 2 ^ 53 -> cols < 2 ^ 53 ->
  GMem.from_bb_input true 2 cols offset data pagesize None =
  let m := from_memmap (pagesize * 512) cols offset data in
  (can_release m, pagesizex m, iters m, addr m).
Proof.
  intros cols offset data pagesize Hc Hp Hpx Hc'.
  unfold GMem.from_bb_input, from_memmap. cbv zeta.
  change (true && (2 =? 2)) with true. rewrite andb_true_l.
  destruct (((pagesize * 512) mod cols =? 0) && (offset <? cols)) eqn:E; cbn [negb].
  - apply andb_prop in E. destruct E as (E & _). apply Z.eqb_eq in E.
    rewrite f2Z_trunc_exact_div by (try assumption; lia).
    reflexivity.
  - reflexivity.
Qed.

(* with can_release forced by the caller only the flag changes *)
Lemma tie_from_bb_input_forced : forall cols offset data pagesize b,
  0 < cols -> 0 < pagesize -> pagesize * 512 < 2 ^ 53 -> cols < 2 ^ 53 ->
  GMem.from_bb_input true 2 cols offset data pagesize (Some b) =
  let m := from_memmap (pagesize * 512) cols offset data in
  (b, pagesizex m, iters m, addr m).
Proof.
  intros cols offset data pagesize b Hc Hp Hpx Hc'.
  unfold GMem.from_bb_input, from_memmap. cbv zeta.
  change (true && (2 =? 2)) with true. rewrite andb_true_l.
  destruct (((pagesize * 512) mod cols =? 0) && (offset <? cols)) eqn:E; cbn [negb].
  - apply andb_prop in E. destruct E as (E & _). apply Z.eqb_eq in E.
    rewrite f2Z_trunc_exact_div by (try assumption; lia).
    reflexivity.
  - reflexivity.
Qed.

(* anything that is not a 2-D memmap gets the inert manager *)
Lemma tie_from_bb_input_not_memmap : forall ndim cols offset data pagesize,
  GMem.from_bb_input false ndim cols offset data pagesize None = (false, pagesize * 512, 0, 0).
Proof. reflexivity. Qed.

Lemma tie_from_bb_input_not_2d : forall ndim cols offset data pagesize,
  (ndim =? 2) = false ->
  GMem.from_bb_input true ndim cols offset data pagesize None = (false, pagesize * 512, 0, 0).
Proof.
  intros ndim cols offset data pagesize H.
  unfold GMem.from_bb_input. rewrite H. reflexivity.
Qed.

Lemma tie_from_bb_input_not_memmap_forced : forall is_memmap ndim cols offset data pagesize b,
  is_memmap && (ndim =? 2) = false ->
  GMem.from_bb_input is_memmap ndim cols offset data pagesize (Some b) = (b, pagesize * 512, 0, 0).
Proof.
  intros is_memmap ndim cols offset data pagesize b H.
  unfold GMem.from_bb_input. rewrite H. reflexivity.
Qed.
