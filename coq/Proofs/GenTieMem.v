(* GenTieMem.v — the generated definitions (Gen/GMem.v, regenerated from /repo on every run) are the
   hand model.  Every theorem about the model is thereby re-checked against what the source
   says now. *)
From BB Require Import Model.Mem Gen.NumpySem Gen.GMem.
Open Scope Z_scope.

(* _ArrayMemPagesManager: the two methods the fit loop calls *)
Lemma tie_should_release m i :
  GMem.should_release_curr_page (pagesizex m) (iters m) (addr m) i = should_release m i.
Proof. reflexivity. Qed.
Lemma tie_release m :
  GMem.release_curr_page_and_update_addr (pagesizex m) (iters m) (addr m) =
  ([fst (release m)], addr (snd (release m))).
Proof. reflexivity. Qed.
