(* SpecRefine.v — property C07: the implementation model of insertion (Model/Tree.v: cached
   centroids, stored per-bit sums, counter widths, tracking sub-clusters) computes exactly
   what the reference procedure of Model/Spec.v computes when every quantity is recomputed
   from the members' fingerprints.  The abstraction [abs] forgets everything but the member
   labels; the refinement is a rule induction over [Ins]/[InsE]. *)
From BB Require Import Model.Birch Model.Spec Proofs.ListFacts Proofs.TreeDefs Proofs.TreeRel
     Proofs.TreeShape Proofs.TreeBlocks Proofs.TreeChain Proofs.TreeSums Proofs.TreeBal
     Proofs.BirchDefs Proofs.SimMax Proofs.BirchInv Proofs.BirchRebuild Proofs.BirchData.
From Coq Require Import Lia Permutation.
Open Scope Z_scope.

(* ================= 0. the abstraction ================= *)
Fixpoint abs (nd : node) : snode :=
  match nd with
  | Leaf id bf es _ => SLeaf id bf (map sids es)
  | Inner bf es _ => SInner bf (abs_e es)
  end
with abs_e (es : ents) : sents :=
  match es with ENil => SNil | ECons _ ch tl => SCons (abs ch) (abs_e tl) end.

Lemma pick_sel {A} b m (l : list A) : pick b m l = sel b m l.
Proof. reflexivity. Qed.     (* the same fixpoint, defined in Model/ to keep Spec.v self-contained *)

Lemma abs_e_app1 es s ch : abs_e (ents_app1 es s ch) = sapp1 (abs_e es) (abs ch).
Proof. induction es as [|e ch' tl IH]; cbn [ents_app1 abs_e sapp1]; congruence. Qed.

Lemma slen_abs_e es : slen (abs_e es) = ents_len es.
Proof. induction es as [|e ch tl IH]; cbn [abs_e slen ents_len]; congruence. Qed.

Lemma abs_e_sel b m : forall es,
  abs_e (eof (sel b m (elist es))) = pick_e b m (abs_e es).
Proof.
  induction m as [|mb m IH]; intros [|e ch tl]; cbn [elist sel eof abs_e pick_e]; try reflexivity.
  destruct (Bool.eqb mb b); cbn [eof abs_e]; now rewrite IH.
Qed.

(* members of the abstraction = member labels of the leaves, in tree order *)
Lemma smembers_abs_mut :
  (forall nd, smembers (abs nd) = concat (map sids (lsubs nd))) /\
  (forall es, smembers_e (abs_e es) = concat (map sids (lsubs_e es))).
Proof.
  apply node_mutind.
  - intros id bf es cache. reflexivity.
  - intros bf es IH cache. exact IH.
  - reflexivity.
  - intros e ch IHch tl IHtl. cbn [abs_e smembers_e lsubs_e].
    now rewrite IHch, IHtl, map_app, concat_app.
Qed.
Lemma smembers_abs nd : smembers (abs nd) = members nd.
Proof. apply (proj1 smembers_abs_mut). Qed.

(* equations for the reference procedure (the analogues of [insert_leaf_cons_eq] &c.) *)
Section SpecEqs.
Variable fexp : float -> float.
Variable D : Z -> fpv.
Variable nf : nat.
Variable c : crit.
Variable thr : float.

Lemma spec_insert_leaf_cons_eq id bf e0 es0 x ax :
  spec_insert fexp D nf c thr (SLeaf id bf (e0 :: es0)) x ax =
  let i := spec_route D nf (map (cl_cent D nf) (e0 :: es0)) x in
  let old := nth i (e0 :: es0) x in
  if spec_accept fexp D nf c thr old x
  then (SLeaf id bf (upd i (old ++ x) (e0 :: es0)), false, ax)
  else (SLeaf id bf ((e0 :: es0) ++ [x]), bf <? Z.of_nat (S (length (e0 :: es0))), ax).
Proof. reflexivity. Qed.
Lemma spec_insert_inner_eq bf es x ax :
  spec_insert fexp D nf c thr (SInner bf es) x ax =
  let '(es', ax') :=
    spec_insert_ents fexp D nf c thr es (spec_route D nf (cents_e D nf es) x) x ax in
  (SInner bf es', bf <? Z.of_nat (slen es'), ax').
Proof. reflexivity. Qed.
Lemma spec_insert_ents_S_eq ch tl k x ax :
  spec_insert_ents fexp D nf c thr (SCons ch tl) (S k) x ax =
  let '(tl', ax') := spec_insert_ents fexp D nf c thr tl k x ax in (SCons ch tl', ax').
Proof. reflexivity. Qed.
Lemma spec_insert_ents_O_eq ch tl x ax :
  spec_insert_ents fexp D nf c thr (SCons ch tl) O x ax =
  let '(ch', sp, ax1) := spec_insert fexp D nf c thr ch x ax in
  if sp then let '(n1, n2, ax2) := spec_split D nf ch' ax1 in (SCons n1 (sapp1 tl n2), ax2)
  else (SCons ch' tl, ax1).
Proof. reflexivity. Qed.
End SpecEqs.

(* ================= 1. recomputed quantities = stored quantities ================= *)
Section Facts.
Variable D : Z -> fpv.
Variable nf : nat.

Notation cl_sum := (cl_sum D nf).
Notation cl_cent := (cl_cent D nf).

(* R1: a leaf sub-cluster *)
Lemma cl_facts s :
  sub_exact s -> cnt_ok s -> data_ok D nf s ->
  sls s = cl_sum (sids s) /\ sn s = cl_n (sids s) /\ scent s = cl_cent (sids s).
Proof.
  intros (_ & _ & _ & Ec) Cn Dd. unfold data_ok in Dd. unfold cnt_ok in Cn.
  refine (conj Dd (conj Cn _)). rewrite Ec. unfold Spec.cl_cent, Spec.cl_sum, cl_n.
  now rewrite <- Dd, <- Cn.
Qed.

Lemma cl_sum_app a b : cl_sum (a ++ b) = vadd (cl_sum a) (cl_sum b).
Proof. unfold Spec.cl_sum. rewrite map_app. apply colsum_app_gen. Qed.
Lemma cl_n_app a b : cl_n (a ++ b) = cl_n a + cl_n b.
Proof. unfold cl_n, zlen. rewrite app_length. lia. Qed.

(* totals over a list of leaf sub-clusters *)
Lemma tot_ls_data l :
  Forall (data_ok D nf) l -> tot_ls nf l = cl_sum (concat (map sids l)).
Proof.
  induction 1 as [|x l Hx _ IH]; [reflexivity|].
  rewrite tot_ls_cons. cbn [map concat]. rewrite cl_sum_app, IH. now rewrite Hx.
Qed.
Lemma tot_n_cnt l : Forall cnt_ok l -> tot_n l = cl_n (concat (map sids l)).
Proof.
  induction 1 as [|x l Hx _ IH]; [reflexivity|].
  rewrite tot_n_cons. cbn [map concat]. rewrite cl_n_app, IH. now rewrite Hx.
Qed.

(* R2: a tracking entry of an inner node *)
Lemma ent_facts e ch :
  sub_exact e -> sn e = tot_n (lsubs ch) -> sls e = tot_ls nf (lsubs ch) ->
  Forall cnt_ok (lsubs ch) -> Forall (data_ok D nf) (lsubs ch) ->
  sls e = cl_sum (smembers (abs ch)) /\ sn e = cl_n (smembers (abs ch)) /\
  scent e = cl_cent (smembers (abs ch)).
Proof.
  intros (_ & _ & _ & Ec) En El HC HD.
  rewrite (proj1 smembers_abs_mut).
  assert (A : sls e = cl_sum (concat (map sids (lsubs ch)))) by (rewrite El; now apply tot_ls_data).
  assert (B : sn e = cl_n (concat (map sids (lsubs ch)))) by (rewrite En; now apply tot_n_cnt).
  refine (conj A (conj B _)). rewrite Ec. unfold Spec.cl_cent. now rewrite <- A, <- B.
Qed.

(* the statement of R2 on an entry of a well-summed inner node *)
Lemma ent_facts_sums e ch tl :
  sums_ok_e nf (ECons e ch tl) ->
  Forall cnt_ok (lsubs ch) -> Forall (data_ok D nf) (lsubs ch) ->
  sls e = cl_sum (smembers (abs ch)) /\ sn e = cl_n (smembers (abs ch)) /\
  scent e = cl_cent (smembers (abs ch)).
Proof. intros (O1 & O2 & O3 & _). now apply ent_facts. Qed.

(* the cache of a node = the recomputed centroids of its entries *)
Lemma leaf_cents es :
  Forall sub_exact es -> Forall cnt_ok es -> Forall (data_ok D nf) es ->
  map scent es = map cl_cent (map sids es).
Proof.
  intros He Hc Hd. rewrite map_map. induction es as [|x es IH]; [reflexivity|].
  inversion He; inversion Hc; inversion Hd; subst. cbn [map].
  rewrite IH by assumption. f_equal. now apply cl_facts.
Qed.

Lemma inner_cents es :
  sums_ok_e nf es -> Forall cnt_ok (lsubs_e es) -> Forall (data_ok D nf) (lsubs_e es) ->
  map scent (ents_subs es) = cents_e D nf (abs_e es).
Proof.
  induction es as [|e ch tl IH]; intros Hok HC HD; [reflexivity|].
  cbn [lsubs_e] in HC, HD. apply Forall_app in HC. apply Forall_app in HD.
  destruct HC as [C1 C2]. destruct HD as [D1 D2].
  destruct (ent_facts_sums e ch tl Hok C1 D1) as (_ & _ & E).
  destruct Hok as (_ & _ & _ & _ & _ & O6).
  cbn [ents_subs map abs_e cents_e]. rewrite IH by assumption. now rewrite E.
Qed.

Definition node_cache (nd : node) : list fpv :=
  match nd with Leaf _ _ _ cache => cache | Inner _ _ cache => cache end.

Lemma node_cents nd :
  shape nf nd -> sums_ok nf nd ->
  Forall cnt_ok (lsubs nd) -> Forall (data_ok D nf) (lsubs nd) ->
  node_cache nd = entry_cents D nf (abs nd).
Proof.
  destruct nd as [id bf es cache|bf es cache]; cbn [shape sums_ok lsubs node_cache abs entry_cents].
  - intros (_ & -> & _) Hok HC HD. now apply leaf_cents.
  - intros (_ & -> & _) Hok HC HD. now apply inner_cents.
Qed.

(* ================= 2. a split is the specification's split ================= *)
Lemma abs_split nd ax t1 n1 t2 n2 ax' :
  shape nf nd -> sums_ok nf nd ->
  Forall cnt_ok (lsubs nd) -> Forall (data_ok D nf) (lsubs nd) ->
  split_node nf nd ax = ((t1, n1), (t2, n2), ax') ->
  spec_split D nf (abs nd) ax = (abs n1, abs n2, ax').
Proof.
  intros Hsh Hok HC HD Hs.
  pose proof (node_cents nd Hsh Hok HC HD) as Hc.
  unfold spec_split. rewrite <- Hc.
  destruct nd as [id bf es cache|bf es cache]; cbn [split_node node_cache abs] in *.
  - destruct (most_dissimilar nf cache) as [[[f1 f2] s1] s2].
    rewrite part_leaf_spec in Hs. cbn [app] in Hs. inversion Hs; subst t1 n1 t2 n2 ax'; clear Hs.
    cbn [abs]. now rewrite !pick_sel, !sel_map.
  - destruct (most_dissimilar nf cache) as [[[f1 f2] s1] s2].
    rewrite part_inner_spec in Hs. cbn [app elist] in Hs.
    inversion Hs; subst t1 n1 t2 n2 ax'; clear Hs.
    cbn [abs]. now rewrite !abs_e_sel.
Qed.
End Facts.

(* ================= 3. the merge decision ================= *)
Section Refine.
Variable fexp : float -> float.
Variable D : Z -> fpv.
Variable nf : nat.
Variable c : crit.
Variable thr : float.
Hypothesis Hsim : forall a b : fpv,
    length a = nf -> length b = nf -> (sim a a <? sim a b)%float = false.

(* in the no-wrap regime [merge_sub] is [accept] on the exact sums *)
Lemma merge_sub_unfold s t :
  sub_exact s -> sub_exact t -> sn s + sn t < 2^64 ->
  merge_sub fexp c thr s t =
  if accept fexp c thr (vadd (sls s) (sls t)) (sn s + sn t) (sls s) (sls t) (sn s) (sn t)
  then Some (mkSub (minw (sn s + sn t)) (sn s + sn t) (vadd (sls s) (sls t))
                   (centroid_fpv (vadd (sls s) (sls t)) (sn s + sn t)) (sids s ++ sids t))
  else None.
Proof.
  intros (Hn1 & Hl1 & _) (Hn2 & Hl2 & _) Hb. unfold merge_sub. cbv zeta.
  remember (sn s + sn t) as n eqn:En.
  assert (Hw : n <= wmax (minw n)) by (apply minw_holds; lia).
  assert (Hwn : wrap (minw n) n = n) by (apply wrap_small; lia).
  assert (Hls : map2 (fun a b => wrap (minw n) (wrap (minw n) a + wrap (minw n) b)) (sls s) (sls t)
                = vadd (sls s) (sls t)).
  { unfold vadd.
    apply (map2_ext_Forall (fun k => 0 <= k <= sn s) (fun k => 0 <= k <= sn t)); auto.
    intros x y Hx Hy. rewrite (wrap_small _ x), (wrap_small _ y) by lia. apply wrap_small. lia. }
  assert (Hbd : Forall (fun k => 0 <= k <= n) (vadd (sls s) (sls t))).
  { unfold vadd.
    apply (map2_Forall (fun k => 0 <= k <= sn s) (fun k => 0 <= k <= sn t)); auto.
    intros x y Hx Hy. lia. }
  assert (Hmw : map (wrap (minw n)) (vadd (sls s) (sls t)) = vadd (sls s) (sls t)).
  { rewrite <- (map_id (vadd (sls s) (sls t))) at 2. apply map_ext_Forall.
    eapply Forall_impl; [|exact Hbd]. cbv beta. intros k Hk. apply wrap_small. lia. }
  rewrite Hls, Hwn, Hmw. reflexivity.
Qed.

(* ... and that is the specification's decision on the recomputed sums *)
Lemma merge_sub_spec x s :
  sub_exact x -> cnt_ok x -> data_ok D nf x ->
  sub_exact s -> cnt_ok s -> data_ok D nf s -> sn x + sn s < 2^64 ->
  match merge_sub fexp c thr x s with
  | Some m => spec_accept fexp D nf c thr (sids x) (sids s) = true /\ sids m = sids x ++ sids s
  | None => spec_accept fexp D nf c thr (sids x) (sids s) = false
  end.
Proof.
  intros Ex Cx Dx Es Cs Ds Hb.
  destruct (cl_facts D nf x Ex Cx Dx) as (X1 & X2 & _).
  destruct (cl_facts D nf s Es Cs Ds) as (S1 & S2 & _).
  rewrite (merge_sub_unfold x s Ex Es Hb). unfold spec_accept.
  rewrite cl_sum_app, <- X1, <- S1, <- X2, <- S2.
  destruct (accept fexp c thr (vadd (sls x) (sls s)) (sn x + sn s) (sls x) (sls s) (sn x) (sn s));
    [split; reflexivity|reflexivity].
Qed.

Lemma tot_n_In x l : Forall sub_exact l -> In x l -> sn x <= tot_n l.
Proof.
  induction 1 as [|y l Hy Hl IH]; intros Hin; [destruct Hin|].
  rewrite tot_n_cons. pose proof (tot_n_nonneg l Hl) as N. destruct Hy as (Hy & _).
  destruct Hin as [->|Hin]; [lia|]. specialize (IH Hin). lia.
Qed.

(* routing at a leaf: same index *)
Lemma leaf_route es s :
  Forall sub_exact es -> Forall cnt_ok es -> Forall (data_ok D nf) es ->
  sub_exact s -> cnt_ok s -> data_ok D nf s ->
  spec_route D nf (map (cl_cent D nf) (map sids es)) (sids s) = route (map scent es) s.
Proof.
  intros He Hc Hd Es Cs Ds. unfold spec_route, route.
  rewrite <- (leaf_cents D nf es He Hc Hd).
  destruct (cl_facts D nf s Es Cs Ds) as (_ & _ & <-). reflexivity.
Qed.

(* ================= 4. R3: insertion refines the specification ================= *)
Lemma Ins_abs_mut :
  (forall nd s ax nd' sp ax',
      Ins fexp nf c thr nd s ax nd' sp ax' ->
      shape nf nd -> sub_len nf s -> sums_ok nf nd -> sub_exact s ->
      tot_n (lsubs nd) + sn s < 2^64 ->
      Forall cnt_ok (lsubs nd) -> cnt_ok s ->
      Forall (data_ok D nf) (lsubs nd) -> data_ok D nf s ->
      spec_insert fexp D nf c thr (abs nd) (sids s) ax = (abs nd', sp, ax')) /\
  (forall es k s cache ax es' cache' ax',
      InsE fexp nf c thr es k s cache ax es' cache' ax' ->
      shape_e nf es -> cache = map scent (ents_subs es) -> (k < ents_len es)%nat ->
      sub_len nf s -> sums_ok_e nf es -> sub_exact s ->
      tot_n (lsubs_e es) + sn s < 2^64 ->
      Forall cnt_ok (lsubs_e es) -> cnt_ok s ->
      Forall (data_ok D nf) (lsubs_e es) -> data_ok D nf s ->
      spec_insert_ents fexp D nf c thr (abs_e es) k (sids s) ax = (abs_e es', ax')).
Proof.
  apply Ins_mutind.
  - (* leaf empty *)
    intros id bf cache s ax _ _ _ _ _ _ _ _ _. reflexivity.
  - (* leaf merge *)
    intros id bf es cache s ax m Hne Hm (Hbf & Hc & Hes) Hs Hok He Hb HC Cs HD Ds.
    cbn [sums_ok lsubs] in *. subst cache.
    assert (Hr : (route (map scent es) s < length es)%nat).
    { rewrite <- (map_length scent). apply route_lt. destruct es; [congruence|discriminate]. }
    pose proof (leaf_route es s Hok HC HD He Cs Ds) as Hrt.
    remember (route (map scent es) s) as i eqn:Ei.
    assert (Hin : In (nth i es s) es) by (apply nth_In; exact Hr).
    remember (nth i es s) as x eqn:Ex.
    assert (Ox : sub_exact x) by (rewrite Forall_forall in Hok; now apply Hok).
    assert (Cx : cnt_ok x) by (rewrite Forall_forall in HC; now apply HC).
    assert (Dx : data_ok D nf x) by (rewrite Forall_forall in HD; now apply HD).
    pose proof (tot_n_In x es Hok Hin) as Hle.
    pose proof (merge_sub_spec x s Ox Cx Dx He Cs Ds ltac:(lia)) as MS.
    rewrite Hm in MS. destruct MS as (MA & MI).
    cbn [abs]. destruct es as [|e0 es0]; [congruence|].
    change (map sids (e0 :: es0)) with (sids e0 :: map sids es0).
    rewrite spec_insert_leaf_cons_eq. cbv zeta.
    change (sids e0 :: map sids es0) with (map sids (e0 :: es0)).
    rewrite Hrt, (map_nth sids), <- Ex, MA, map_upd, MI. reflexivity.
  - (* leaf append *)
    intros id bf es cache s ax Hne Hm (Hbf & Hc & Hes) Hs Hok He Hb HC Cs HD Ds.
    cbn [sums_ok lsubs] in *. subst cache.
    assert (Hr : (route (map scent es) s < length es)%nat).
    { rewrite <- (map_length scent). apply route_lt. destruct es; [congruence|discriminate]. }
    pose proof (leaf_route es s Hok HC HD He Cs Ds) as Hrt.
    remember (route (map scent es) s) as i eqn:Ei.
    assert (Hin : In (nth i es s) es) by (apply nth_In; exact Hr).
    remember (nth i es s) as x eqn:Ex.
    assert (Ox : sub_exact x) by (rewrite Forall_forall in Hok; now apply Hok).
    assert (Cx : cnt_ok x) by (rewrite Forall_forall in HC; now apply HC).
    assert (Dx : data_ok D nf x) by (rewrite Forall_forall in HD; now apply HD).
    pose proof (tot_n_In x es Hok Hin) as Hle.
    pose proof (merge_sub_spec x s Ox Cx Dx He Cs Ds ltac:(lia)) as MS.
    rewrite Hm in MS.
    cbn [abs]. destruct es as [|e0 es0]; [congruence|].
    change (map sids (e0 :: es0)) with (sids e0 :: map sids es0).
    rewrite spec_insert_leaf_cons_eq. cbv zeta.
    change (sids e0 :: map sids es0) with (map sids (e0 :: es0)).
    rewrite Hrt, (map_nth sids), <- Ex, MS, map_app, map_length. reflexivity.
  - (* inner *)
    intros bf es cache s ax es' cache' ax' _ IH (Hbf & Hc & Hne & Hes) Hs Hok He Hb HC Cs HD Ds.
    change (shape_e nf es) in Hes. cbn [sums_ok lsubs] in *.
    assert (Hk : (route cache s < ents_len es)%nat).
    { assert (Hcn : cache <> []).
      { subst cache. destruct es; [congruence|discriminate]. }
      pose proof (route_lt cache s Hcn) as Hr.
      subst cache. rewrite map_length, ents_subs_length in Hr. exact Hr. }
    specialize (IH Hes Hc Hk Hs Hok He Hb HC Cs HD Ds).
    cbn [abs]. rewrite spec_insert_inner_eq.
    assert (Hrt : spec_route D nf (cents_e D nf (abs_e es)) (sids s) = route cache s).
    { unfold spec_route, route. rewrite <- (inner_cents D nf es Hok HC HD), <- Hc.
      destruct (cl_facts D nf s He Cs Ds) as (_ & _ & <-). reflexivity. }
    rewrite Hrt, IH, slen_abs_e. reflexivity.
  - (* nil *)
    intros k s cache ax _ _ Hk. cbn in Hk. lia.
  - (* skip *)
    intros e ch tl k s cache ax tl' ctl' ax' HI IH (Le & Hch & Htl) Hc Hk Hs Hok He Hb HC Cs HD Ds.
    change (shape_e nf tl) in Htl. change (shape nf ch) in Hch.
    destruct Hok as (O1 & O2 & O3 & O4 & O5 & O6).
    cbn [ents_subs map] in Hc. subst cache. cbn [List.tl firstn] in *.
    cbn [lsubs_e] in *. cbn [ents_len] in Hk.
    pose proof (tot_n_nonneg _ (sums_lsubs nf _ O5)) as N1.
    rewrite tot_n_app in Hb.
    apply Forall_app in HC. destruct HC as [C1 C2].
    apply Forall_app in HD. destruct HD as [D1 D2].
    specialize (IH Htl eq_refl ltac:(lia) Hs O6 He ltac:(lia) C2 Cs D2 Ds).
    cbn [abs_e]. rewrite spec_insert_ents_S_eq, IH. reflexivity.
  - (* split *)
    intros e ch tl s cache ax ch' ax1 t1 n1 t2 n2 ax2 HI IH Hsp (Le & Hch & Htl) Hc Hk Hs Hok He Hb HC Cs HD Ds.
    change (shape_e nf tl) in Htl. change (shape nf ch) in Hch.
    destruct Hok as (O1 & O2 & O3 & O4 & O5 & O6).
    cbn [lsubs_e] in *.
    pose proof (tot_n_nonneg _ (sums_lsubs_e nf _ O6)) as N2.
    rewrite tot_n_app in Hb.
    apply Forall_app in HC. destruct HC as [C1 C2].
    apply Forall_app in HD. destruct HD as [D1 D2].
    assert (Hb1 : tot_n (lsubs ch) + sn s < 2^64) by lia.
    specialize (IH Hch Hs O5 He Hb1 C1 Cs D1 Ds).
    pose proof (Ins_shape fexp nf c thr Hsim _ _ _ _ _ _ HI Hch Hs) as Sch'.
    destruct (Ins_sums fexp nf c thr Hsim _ _ _ _ _ _ HI Hch Hs O5 He Hb1) as (I1 & _).
    pose proof (proj1 (Ins_cnt_mut fexp nf c thr Hsim) _ _ _ _ _ _ HI Hch Hs O5 He Hb1 C1 Cs) as C'.
    pose proof (Ins_data fexp nf c thr Hsim D _ _ _ _ _ _ HI Hch Hs O5 He Hb1 D1 Ds) as D'.
    pose proof (abs_split D nf ch' ax1 t1 n1 t2 n2 ax2 Sch' I1 C' D' Hsp) as AS.
    cbn [abs_e]. rewrite spec_insert_ents_O_eq, IH, AS, abs_e_app1. reflexivity.
  - (* nosplit *)
    intros e ch tl s cache ax ch' ax1 HI IH (Le & Hch & Htl) Hc Hk Hs Hok He Hb HC Cs HD Ds.
    change (shape_e nf tl) in Htl. change (shape nf ch) in Hch.
    destruct Hok as (O1 & O2 & O3 & O4 & O5 & O6).
    cbn [lsubs_e] in *.
    pose proof (tot_n_nonneg _ (sums_lsubs_e nf _ O6)) as N2.
    rewrite tot_n_app in Hb.
    apply Forall_app in HC. destruct HC as [C1 C2].
    apply Forall_app in HD. destruct HD as [D1 D2].
    specialize (IH Hch Hs O5 He ltac:(lia) C1 Cs D1 Ds).
    cbn [abs_e]. rewrite spec_insert_ents_O_eq, IH. reflexivity.
Qed.

Lemma Ins_abs nd s ax nd' sp ax' :
  Ins fexp nf c thr nd s ax nd' sp ax' ->
  shape nf nd -> sub_len nf s -> sums_ok nf nd -> sub_exact s ->
  tot_n (lsubs nd) + sn s < 2^64 ->
  Forall cnt_ok (lsubs nd) -> cnt_ok s ->
  Forall (data_ok D nf) (lsubs nd) -> data_ok D nf s ->
  spec_insert fexp D nf c thr (abs nd) (sids s) ax = (abs nd', sp, ax').
Proof. apply (proj1 Ins_abs_mut). Qed.

Theorem abs_insert_root bf root s ax root' ax' :
  1 <= bf -> shape nf root -> sums_ok nf root ->
  Forall cnt_ok (lsubs root) -> Forall (data_ok D nf) (lsubs root) ->
  sub_len nf s -> sub_exact s -> cnt_ok s -> data_ok D nf s ->
  tot_n (lsubs root) + sn s < 2^64 ->
  insert_root fexp nf c thr bf root s ax = (root', ax') ->
  spec_insert_root fexp D nf c thr bf (abs root) (sids s) ax = (abs root', ax').
Proof.
  intros Hbf Hr Hok HC HD Hs He Cs Ds Hb. unfold insert_root, spec_insert_root.
  destruct (insert fexp nf c thr root s ax) as [[r sp] ax1] eqn:Hi.
  apply insert_Ins in Hi.
  rewrite (Ins_abs _ _ _ _ _ _ Hi Hr Hs Hok He Hb HC Cs HD Ds).
  pose proof (Ins_shape fexp nf c thr Hsim _ _ _ _ _ _ Hi Hr Hs) as Hr'.
  destruct (Ins_sums fexp nf c thr Hsim _ _ _ _ _ _ Hi Hr Hs Hok He Hb) as (I1 & _).
  pose proof (proj1 (Ins_cnt_mut fexp nf c thr Hsim) _ _ _ _ _ _ Hi Hr Hs Hok He Hb HC Cs) as C'.
  pose proof (Ins_data fexp nf c thr Hsim D _ _ _ _ _ _ Hi Hr Hs Hok He Hb HD Ds) as D'.
  destruct sp.
  - destruct (split_node nf r ax1) as [[[t1 n1] [t2 n2]] ax2] eqn:Hsp.
    rewrite (abs_split D nf r ax1 t1 n1 t2 n2 ax2 Hr' I1 C' D' Hsp).
    intros E. inversion E; subst root' ax'. reflexivity.
  - intros E. inversion E; subst root' ax'. reflexivity.
Qed.
End Refine.

(* ================= 5. R4: the estimator's [fit] ================= *)
(* what the user reads: leaves in chain order, stably sorted by decreasing size *)
Lemma sfind_abs_mut :
  (forall nd id, sfind_leaf (abs nd) id = option_map (map sids) (find_leaf nd id)) /\
  (forall es id, sfind_leaf_e (abs_e es) id = option_map (map sids) (find_leaf_ents es id)).
Proof.
  apply node_mutind.
  - intros id' bf es cache id. cbn [abs sfind_leaf find_leaf]. now destruct (Nat.eqb id id').
  - intros bf es IH cache id. exact (IH id).
  - reflexivity.
  - intros e ch IHch tl IHtl id. cbn [abs_e sfind_leaf_e find_leaf_ents].
    rewrite IHch. destruct (find_leaf ch id); [reflexivity|]. apply IHtl.
Qed.

Lemma leaf_blocks_abs r ch :
  map sids (leaf_subs r ch) =
  flat_map (fun id => match sfind_leaf (abs r) id with Some es => es | None => [] end) ch.
Proof.
  unfold leaf_subs. induction ch as [|id ch IH]; [reflexivity|].
  cbn [flat_map]. rewrite map_app, IH, (proj1 sfind_abs_mut).
  now destruct (find_leaf r id).
Qed.

Lemma ins_desc_abs x l :
  cnt_ok x -> Forall cnt_ok l -> map sids (ins_desc x l) = sins_desc (sids x) (map sids l).
Proof.
  intros Cx. induction 1 as [|y l Cy _ IH]; [reflexivity|].
  cbn [ins_desc map sins_desc]. unfold cnt_ok in Cx, Cy. rewrite <- Cx, <- Cy.
  destruct (sn y <=? sn x); cbn [map]; [reflexivity|]. now rewrite IH.
Qed.

Lemma sort_desc_abs l :
  Forall cnt_ok l -> map sids (sort_desc l) = fold_right sins_desc [] (map sids l).
Proof.
  unfold sort_desc. induction 1 as [|x l Cx Cl IH]; [reflexivity|].
  cbn [fold_right map]. rewrite <- IH. apply ins_desc_abs; [exact Cx|].
  apply (Forall_perm _ l); [symmetry; apply sort_desc_perm|exact Cl].
Qed.

Definition abs_st (st : state) : option (snode * aux) :=
  match root st with Some r => Some (abs r, sax st) | None => None end.
Definition spec_clusters_of (t : option (snode * aux)) : list (list Z) :=
  match t with Some (r, ax) => spec_clusters r (chain ax) | None => [] end.

Theorem clusters_abs st : st_inv st -> clusters st = spec_clusters_of (abs_st st).
Proof.
  intros Hinv. unfold clusters, sorted_leaves, abs_st, spec_clusters_of, spec_clusters.
  destruct (root st) as [r|] eqn:Er.
  - rewrite <- leaf_blocks_abs.
    assert (HC : Forall cnt_ok (leaves_of st)).
    { apply (Forall_perm _ (lsubs r)); [symmetry; now apply leaves_perm|].
      destruct Hinv as (_ & H). rewrite Er in H. destruct H as (_ & (_ & _ & _ & _ & _ & H) & _).
      exact H. }
    rewrite (sort_desc_abs _ HC). unfold leaves_of. now rewrite Er.
  - unfold leaves_of. rewrite Er. reflexivity.
Qed.

Section Fit.
Variable fexp : float -> float.
Variable D : Z -> fpv.

(* one insertion at state level *)
Lemma abs_insert_st st cf s dn r :
  st_inv st -> root st = Some r -> 2 <= c_bf cf ->
  sub_len (nfeat st) s -> sub_exact s -> cnt_ok s -> data_ok D (nfeat st) s ->
  nfit st + sn s < 2 ^ 64 -> leaves_data D st ->
  exists r', root (insert_st fexp cf st s dn) = Some r' /\
    spec_insert_root fexp D (nfeat st) (c_crit cf) (c_thr cf) (c_bf cf) (abs r) (sids s) (sax st)
    = (abs r', sax (insert_st fexp cf st s dn)).
Proof.
  intros Hinv Hr Hbf Ls Es Cs Ds Hb HL. unfold leaves_data in HL. unfold insert_st.
  rewrite Hr in HL |- *.
  destruct Hinv as (Hc & Hinv). rewrite Hr in Hinv.
  destruct Hinv as (Hnf & (Hsh & _ & Hsu & _ & _ & Hcn) & Hn & Hn0).
  destruct (insert_root fexp (nfeat st) (c_crit cf) (c_thr cf) (c_bf cf) r s (sax st))
    as [r' ax'] eqn:Hi.
  cbn [root sax]. exists r'. split; [reflexivity|]. rewrite Hn in Hb.
  assert (Hbf1 : 1 <= c_bf cf) by lia.
  exact (abs_insert_root fexp D (nfeat st) _ _ (sim_max_nf (nfeat st) Hnf) _ _ _ _ _ _
           Hbf1 Hsh Hsu Hcn HL Ls Es Cs Ds Hb Hi).
Qed.

(* the loop of fit() *)
Lemma abs_fit_rows cf rows : forall st labs r,
  st_inv st -> root st = Some r -> 2 <= c_bf cf ->
  Forall (row_ok (nfeat st)) rows -> nfit st + zlen rows < 2 ^ 64 ->
  leaves_data D st ->
  (forall k fp l, nth_error rows k = Some (Some fp) -> nth_error labs k = Some l -> D l = fp) ->
  exists r', root (fst (fit_rows fexp cf st rows labs)) = Some r' /\
    spec_fit_rows fexp D (nfeat st) (c_crit cf) (c_thr cf) (c_bf cf) (abs r) (sax st) rows labs
    = (abs r', sax (fst (fit_rows fexp cf st rows labs))).
Proof.
  induction rows as [|row rows IH]; intros st labs r Hinv Hr Hbf Hrows Hb HL HD.
  - cbn [fit_rows fst spec_fit_rows]. eauto.
  - inversion Hrows as [|? ? Hrow Hrows']; subst.
    rewrite zlen_cons in Hb. pose proof (zlen_nonneg rows) as Hz.
    destruct row as [fp|]; destruct labs as [|l labs]; cbn [fit_rows fst spec_fit_rows]; eauto.
    cbn [row_ok] in Hrow.
    destruct (singleton_good (nfeat st) fp l Hrow) as (G1 & G2 & G3).
    destruct (insert_st_inv fexp st cf (singleton fp l) 1 r Hinv Hr Hbf G1 G2 G3 eq_refl ltac:(lia))
      as (I1 & I2 & I3 & I4 & I5 & I6 & I7).
    assert (Ds : data_ok D (nfeat st) (singleton fp l)).
    { apply singleton_data; [exact Hrow|]. apply (HD O); reflexivity. }
    assert (Hb1 : nfit st + sn (singleton fp l) < 2 ^ 64) by (cbn [singleton sn]; lia).
    pose proof (insert_st_data fexp D st cf (singleton fp l) 1 r Hinv Hr Hbf G1 G2 Hb1 HL Ds) as HL1.
    destruct (abs_insert_st st cf (singleton fp l) 1 r Hinv Hr Hbf G1 G2 G3 Ds Hb1 HL)
      as (r1 & Hr1 & AS).
    cbn [singleton sids] in AS. rewrite AS.
    remember (insert_st fexp cf st (singleton fp l) 1) as st1 eqn:Est1.
    rewrite <- I3 in Hrows' |- *.
    apply (IH st1 labs r1 I1 Hr1 Hbf Hrows' ltac:(lia) HL1).
    intros k fp' l' H1 H2. apply (HD (S k)); assumption.
Qed.

(* fit() with default numbering, from any invariant state (initialised or not).  The
   specification is run with the feature count of the resulting state: for a first fit
   that is the length of the first row. *)
Theorem fit_refines st rows :
  st_inv st -> nf_ok st -> released st = false -> op_wf st (OFit rows None) ->
  leaves_data D st -> op_data D st (OFit rows None) ->
  let st' := fst (do_fit fexp st rows None) in
  st_inv st' /\
  abs_st st' =
  spec_fit fexp D (nfeat st') (c_crit (cfg st)) (c_thr (cfg st)) (c_bf (cfg st))
           (abs_st st) rows (zseq (nfit st) (length rows)) /\
  clusters st' = spec_clusters_of (abs_st st').
Proof.
  intros Hinv Hnf Hrel (_ & Hrows & Hb) HL HD. cbv zeta.
  assert (G : st_inv (fst (do_fit fexp st rows None)) /\
              abs_st (fst (do_fit fexp st rows None)) =
              spec_fit fexp D (nfeat (fst (do_fit fexp st rows None)))
                       (c_crit (cfg st)) (c_thr (cfg st)) (c_bf (cfg st))
                       (abs_st st) rows (zseq (nfit st) (length rows))).
  2:{ destruct G as (G1 & G2). refine (conj G1 (conj G2 _)). now apply clusters_abs. }
  cbn [op_data] in HD. unfold do_fit.
  destruct rows as [|r0 rows]; [cbn [fst spec_fit]; auto|].
  rewrite Hrel. unfold is_init, abs_st at 2.
  destruct (root st) as [r|] eqn:Er.
  - (* initialised *)
    assert (Hr : root st <> None) by congruence.
    assert (HDl : forall k fp l, nth_error (r0 :: rows) k = Some (Some fp) ->
                    nth_error (zseq (nfit st) (length (r0 :: rows))) k = Some l -> D l = fp).
    { intros k fp l H1 H2. apply nth_error_zseq in H2. subst l. apply HD, H1. }
    destruct (abs_fit_rows (cfg st) (r0 :: rows) st _ r Hinv Er (proj1 Hinv) Hrows Hb HL HDl)
      as (r' & Hr' & AS).
    destruct (fit_rows fexp (cfg st) st (r0 :: rows) (zseq (nfit st) (length (r0 :: rows))))
      as [st' out] eqn:Hf. cbn [fst] in *.
    destruct (fit_rows_inv fexp (cfg st) (r0 :: rows) st _ Hinv Hr (proj1 Hinv) Hrows Hb st' out Hf)
      as (J1 & J2 & J3 & _).
    split; [exact J1|]. unfold abs_st, spec_fit. rewrite Hr', J3, AS. reflexivity.
  - (* first fit *)
    destruct r0 as [fp|].
    + destruct Hrows as (Hrows & Hfp).
      pose proof (initialize_inv st (length fp) Hinv Er Hfp) as I1.
      remember (initialize st (length fp)) as st1 eqn:Est1.
      assert (E1 : nfit st1 = nfit st) by (subst st1; reflexivity).
      assert (E2 : nfeat st1 = length fp) by (subst st1; reflexivity).
      assert (E3 : root st1 = Some (Leaf 0 (c_bf (cfg st)) [] [])) by (subst st1; reflexivity).
      assert (E3' : root st1 <> None) by (rewrite E3; discriminate).
      assert (E4 : sax st1 = mkAux 1 [0%nat]) by (subst st1; reflexivity).
      assert (E5 : cfg st1 = cfg st) by (subst st1; reflexivity).
      assert (HL1 : leaves_data D st1) by (subst st1; unfold leaves_data; cbn; constructor).
      rewrite <- E2 in Hrows. rewrite <- E1 in Hb.
      assert (Hbf1 : 2 <= c_bf (cfg st1)) by (rewrite E5; exact (proj1 Hinv)).
      assert (HDl : forall k fp' l, nth_error (Some fp :: rows) k = Some (Some fp') ->
                      nth_error (zseq (nfit st1) (length (Some fp :: rows))) k = Some l ->
                      D l = fp').
      { intros k fp' l H1 H2. apply nth_error_zseq in H2. subst l. rewrite E1. apply HD, H1. }
      destruct (abs_fit_rows (cfg st1) (Some fp :: rows) st1 _ _ I1 E3 Hbf1 Hrows Hb HL1 HDl)
        as (r' & Hr' & AS).
      destruct (fit_rows fexp (cfg st1) st1 (Some fp :: rows)
                         (zseq (nfit st1) (length (Some fp :: rows)))) as [st' out] eqn:Hf.
      cbn [fst] in *.
      destruct (fit_rows_inv fexp (cfg st1) (Some fp :: rows) st1 _ I1 E3' Hbf1 Hrows Hb st' out Hf)
        as (J1 & J2 & J3 & _).
      split; [exact J1|]. unfold abs_st, spec_fit. rewrite Hr', J3.
      rewrite E4, E5, E1 in AS. cbn [abs map] in AS. rewrite AS. reflexivity.
    + pose proof (initialize_inv st (nfeat st) Hinv Er Hnf) as I1.
      cbn [length zseq fit_rows fst]. split; [exact I1|]. reflexivity.
Qed.
End Fit.

(* ================= 6. non-vacuity: both sides run, and agree, on a concrete history with leaf
   splits, an inner split and root splits ================= *)
Module Demo.
Definition D0 (l : Z) : fpv :=
  match l with
  | 0 => [true;true;false;false;false;false]
  | 1 => [true;true;true;false;false;false]
  | 2 => [false;false;false;true;true;false]
  | 3 => [false;false;false;true;true;true]
  | 4 => [true;false;false;false;false;true]
  | 5 => [false;true;true;false;true;false]
  | 6 => [true;true;false;false;false;false]
  | _ => [false;false;true;false;false;true]
  end.
Definition thr0 : float := 0x1.3333333333333p-1%float.
Definition run_model (n : nat) : node * aux :=
  fold_left (fun '(r, ax) l =>
               insert_root (fun x => x) 6 CDiameter thr0 2 r (singleton (D0 l) l) ax)
            (zseq 0 n) (Leaf 0 2 [] [], mkAux 1 [0%nat]).
Definition run_spec (n : nat) : snode * aux :=
  fold_left (fun '(r, ax) l => spec_insert_root (fun x => x) D0 6 CDiameter thr0 2 r [l] ax)
            (zseq 0 n) (SLeaf 0 2 [], mkAux 1 [0%nat]).
Example demo_agree : (let '(r, ax) := run_model 8 in (abs r, ax)) = run_spec 8.
Proof. vm_compute. reflexivity. Qed.
Example demo_tree :
  run_spec 8 =
  (SInner 2 (SCons (SInner 2 (SCons (SLeaf 2 2 [[0; 1; 6]]) SNil))
            (SCons (SInner 2 (SCons (SLeaf 0 2 [[2; 3]; [4]])
                             (SCons (SLeaf 1 2 [[5]; [7]]) SNil))) SNil)),
   mkAux 3 [2%nat; 1%nat; 0%nat]).
Proof. vm_compute. reflexivity. Qed.
Example demo_clusters :
  spec_clusters (fst (run_spec 8)) (chain (snd (run_spec 8))) = [[0; 1; 6]; [2; 3]; [5]; [7]; [4]].
Proof. vm_compute. reflexivity. Qed.
End Demo.

Print Assumptions cl_facts.
Print Assumptions ent_facts.
Print Assumptions ent_facts_sums.
Print Assumptions abs_split.
Print Assumptions Ins_abs_mut.
Print Assumptions abs_insert_root.
Print Assumptions clusters_abs.
Print Assumptions abs_fit_rows.
Print Assumptions fit_refines.
