(* FitPlan.v — the skeleton ("plan") of the two insertion loops of the estimator, BitBirch.fit and
   BitBirch._fit_buffers (bblean/bitbirch.py), as data, and the meaning of that data in terms of
   the model primitives of Tree.v / Birch.v / Mem.v.

   The plan types are shared by Gen/GFit.v (regenerated from the source on every run of the
   translator, which fails closed on every statement of the two loops that is not one of the
   constructors below) and by Proofs/GenTieFit.v (Gen = expected; meaning of expected = one step of
   the model's fit_rows / fit_bufs / fit_releases).  Hand-written. *)
From BB Require Export Model.Mem Model.Birch.
Open Scope Z_scope.

(* ---------- the data ---------- *)

(* where the per-row label (idx) of fit comes from:
     enumerate(arr_iterable, self.num_fitted_fps)  |  zip(reinsert_indices, arr_iterable) *)
Inductive label_source := LDefaultFromNfit | LCaller.

(* where the per-buffer index list of _fit_buffers comes from, with the resolved value of the
   check_indices argument of the sub-cluster constructor in that branch:
     (() for idx in range(self.num_fitted_fps)), check = False  |  reinsert_index_seqs, check = True *)
Inductive index_source := IEmptyPerFitted (check : bool) | ICallerSeqs (check : bool).
Definition index_source_check (s : index_source) : bool :=
  match s with IEmptyPerFitted c => c | ICallerSeqs c => c end.

(* `for idxs, buf in zip(idx_provider, arr_iterable)`: index lists and rows pairwise, in order *)
Inductive pairing := ZipIndexSeqsRows.

(* _ArrayMemPagesManager.from_bb_input(X)  |  from_bb_input(X, can_release=b) *)
Inductive mm_ctor := MMDefault | MMCanRelease (b : bool).

(* statements before the loop, in program order *)
Inductive pre_step :=
| PManager (for_path for_array : mm_ctor)   (* if isinstance(X, (Path, str)): ... else: ... *)
| PNFeatures (minus_one : bool)             (* n_features = _validate_n_features(X, ...) [- 1] *)
| PRaiseIfOnlyLeaves                        (* if self._only_has_leaves: raise ValueError(...) *)
| PInitIfNotInit.                           (* if not self.is_init: self._initialize_tree(n_features) *)

(* attributes of self read ONCE before the loop into the locals the loop body uses *)
Inductive local_bind := BBranchingFactor | BMergeAcceptFn | BThreshold.

(* the `if split:` block *)
Inductive split_step :=
| SSplitRoot       (* new1, new2 = _split_node(self._root) *)
| SNewRoot         (* self._root = _BFNode(branching_factor, n_features) *)
| SAppend1         (* self._root.append_subcluster(new1) *)
| SAppend2.        (* self._root.append_subcluster(new2) *)

(* the loop body *)
Inductive fit_step :=
| SNewSingleton    (* subcluster = _BFSubcluster(linear_sum=fp, mol_indices=[idx], n_features=n_features) *)
| SNewFromBuffer   (* subcluster = _BFSubcluster(buffer=buf, mol_indices=idxs, n_features=n_features,
                                                  check_indices=check) *)
| SInsertRoot      (* split = self._root.insert_bf_subcluster(subcluster, merge_accept_fn, threshold) *)
| SIfSplit (body : list split_step)   (* if split: ... *)
| SCountOne        (* self._num_fitted_fps += 1 *)
| SCountMembers    (* self._num_fitted_fps += len(idxs) *)
| SArrIdxInc       (* arr_idx += 1 *)
| SReleaseCheck.   (* if mmanager.can_release and mmanager.should_release_curr_page(arr_idx):
                          mmanager.release_curr_page_and_update_addr() *)

(* ---------- the expected plans ---------- *)
Definition expected_split_block : list split_step := [SSplitRoot; SNewRoot; SAppend1; SAppend2].

Definition expected_fit_loop_body : list fit_step :=
  [SNewSingleton; SInsertRoot; SIfSplit expected_split_block; SCountOne; SArrIdxInc; SReleaseCheck].
Definition expected_fit_buffers_loop_body : list fit_step :=
  [SNewFromBuffer; SInsertRoot; SIfSplit expected_split_block; SCountMembers; SArrIdxInc;
   SReleaseCheck].

Definition expected_fit_pre_loop : list pre_step :=
  [PManager MMDefault (MMCanRelease false); PNFeatures false; PRaiseIfOnlyLeaves; PInitIfNotInit].
Definition expected_fit_buffers_pre_loop : list pre_step :=
  [PManager MMDefault (MMCanRelease false); PNFeatures true; PRaiseIfOnlyLeaves; PInitIfNotInit].

Definition expected_locals_read_once : list local_bind :=
  [BBranchingFactor; BMergeAcceptFn; BThreshold].

Definition expected_fit_label_source (reinsert_indices_is_none : bool) : label_source :=
  if reinsert_indices_is_none then LDefaultFromNfit else LCaller.
Definition expected_fit_buffers_index_source (is_omit : bool) : index_source :=
  if is_omit then IEmptyPerFitted false else ICallerSeqs true.

(* ---------- the meaning of a loop body: tree part ---------- *)

(* what one iteration consumes *)
Inductive row_input :=
| RowFp (fp : fpv) (label : Z)                                  (* fit: idx, fp *)
| RowBuf (w : width) (ls : list Z) (n : Z) (ids : list Z) (check : bool).
                                                                (* _fit_buffers: idxs, buf; check *)

(* self._root (with the leaf chain), self._num_fitted_fps and the locals of one iteration *)
Record tframe := mkTf {
  t_root : option node; t_ax : aux; t_nfit : Z;
  t_sub : option sub;                                   (* subcluster *)
  t_split : option bool;                                (* split *)
  t_new : option ((sub * node) * (sub * node))          (* new_subcluster1, new_subcluster2 *)
}.

(* Stuck: the plan uses something that is not there (a local before its assignment, a root that is
   None, ...); Raised: the statement raised, the frame is what had been done so far *)
Inductive res := Stuck | Raised (f : tframe) | Run (f : tframe).

Section Meaning.
Variable fexp : float -> float.
Variable cf : config.          (* the locals merge_accept_fn, threshold, branching_factor *)
Variable nf : nat.             (* n_features *)
Variable inp : row_input.

Definition split_step1 (s : split_step) (f : tframe) : res :=
  match s with
  | SSplitRoot =>
      match t_root f with
      | Some r =>
          let '(p1, p2, ax2) := split_node nf r (t_ax f) in
          Run (mkTf (t_root f) ax2 (t_nfit f) (t_sub f) (t_split f) (Some (p1, p2)))
      | None => Stuck
      end
  | SNewRoot =>
      Run (mkTf (Some (Inner (c_bf cf) ENil [])) (t_ax f) (t_nfit f) (t_sub f) (t_split f) (t_new f))
  | SAppend1 =>
      match t_root f, t_new f with
      | Some (Inner bf es cache), Some ((t1, n1), _) =>
          Run (mkTf (Some (Inner bf (ents_app1 es t1 n1) (cache ++ [scent t1])))
                    (t_ax f) (t_nfit f) (t_sub f) (t_split f) (t_new f))
      | _, _ => Stuck
      end
  | SAppend2 =>
      match t_root f, t_new f with
      | Some (Inner bf es cache), Some (_, (t2, n2)) =>
          Run (mkTf (Some (Inner bf (ents_app1 es t2 n2) (cache ++ [scent t2])))
                    (t_ax f) (t_nfit f) (t_sub f) (t_split f) (t_new f))
      | _, _ => Stuck
      end
  end.

Fixpoint run_split (ss : list split_step) (f : tframe) : res :=
  match ss with
  | [] => Run f
  | s :: tl => match split_step1 s f with Run f' => run_split tl f' | r => r end
  end.

Definition with_sub (f : tframe) (s : sub) : tframe :=
  mkTf (t_root f) (t_ax f) (t_nfit f) (Some s) (t_split f) (t_new f).
Definition with_nfit (f : tframe) (n : Z) : tframe :=
  mkTf (t_root f) (t_ax f) n (t_sub f) (t_split f) (t_new f).

Definition fit_step1 (s : fit_step) (f : tframe) : res :=
  match s with
  | SNewSingleton =>
      match inp with
      | RowFp fp l => Run (with_sub f (singleton fp l))
      | _ => Stuck
      end
  | SNewFromBuffer =>
      match inp with
      | RowBuf w ls n ids check =>
          if check && negb (zlen ids =? n) then Raised f
          else Run (with_sub f (sub_of_buffer w ls n ids))
      | _ => Stuck
      end
  | SInsertRoot =>
      match t_root f, t_sub f with
      | Some r, Some s =>
          let '(r', sp, ax1) := insert fexp nf (c_crit cf) (c_thr cf) r s (t_ax f) in
          Run (mkTf (Some r') ax1 (t_nfit f) (t_sub f) (Some sp) (t_new f))
      | _, _ => Stuck
      end
  | SIfSplit body =>
      match t_split f with
      | Some true => run_split body f
      | Some false => Run f
      | None => Stuck
      end
  | SCountOne => Run (with_nfit f (t_nfit f + 1))
  | SCountMembers =>
      match inp with
      | RowBuf _ _ _ ids _ => Run (with_nfit f (t_nfit f + zlen ids))
      | _ => Stuck
      end
  | SArrIdxInc | SReleaseCheck => Run f       (* no effect on the tree: see run_fit_mem *)
  end.

Fixpoint run_steps (steps : list fit_step) (f : tframe) : res :=
  match steps with
  | [] => Run f
  | s :: tl => match fit_step1 s f with Run f' => run_steps tl f' | r => r end
  end.
End Meaning.

Definition frame_of (st : state) : tframe := mkTf (root st) (sax st) (nfit st) None None None.
Definition state_of (st : state) (f : tframe) : state :=
  mkSt (cfg st) (t_root f) (t_ax f) (t_nfit f) (released st) (nfeat st).

(* one iteration of the loop of fit on the row fp with label l, under the locals cf *)
Definition run_fit_body (fexp : float -> float) (steps : list fit_step) (cf : config) (st : state)
           (fp : fpv) (l : Z) : state :=
  match run_steps fexp cf (nfeat st) (RowFp fp l) steps (frame_of st) with
  | Run f | Raised f => state_of st f
  | Stuck => st
  end.

(* one iteration of the loop of _fit_buffers on the buffer b (dtype w) *)
Definition run_fit_buffers_body (fexp : float -> float) (steps : list fit_step) (cf : config)
           (st : state) (w : width) (b : sub) (check : bool) : state * outcome :=
  match run_steps fexp cf (nfeat st) (RowBuf w (sls b) (sn b) (sids b) check) steps (frame_of st) with
  | Run f => (state_of st f, Ok)
  | Raised f => (state_of st f, Err)
  | Stuck => (st, Ok)
  end.

(* ---------- the meaning of a loop body: page-release part ---------- *)
Record mframe := mkMf { m_idx : Z; m_mm : pm; m_rel : list (Z * Z * Z) }.

Definition mem_step1 (s : fit_step) (f : mframe) : mframe :=
  match s with
  | SArrIdxInc => mkMf (m_idx f + 1) (m_mm f) (m_rel f)
  | SReleaseCheck =>
      if can_release (m_mm f) && should_release (m_mm f) (m_idx f) then
        let '((a, sz), m') := release (m_mm f) in
        mkMf (m_idx f) m' (m_rel f ++ [(a, sz, m_idx f)])
      else f
  | _ => f
  end.

Definition run_fit_mem (steps : list fit_step) (m : pm) (arr_idx : Z) : mframe :=
  fold_left (fun f s => mem_step1 s f) steps (mkMf arr_idx m []).

(* ---------- the meaning of the pre-loop guards ---------- *)
Fixpoint run_guards (ps : list pre_step) (st : state) (nf : nat) : state * outcome :=
  match ps with
  | [] => (st, Ok)
  | PRaiseIfOnlyLeaves :: tl => if released st then (st, Err) else run_guards tl st nf
  | PInitIfNotInit :: tl => run_guards tl (if is_init st then st else initialize st nf) nf
  | _ :: tl => run_guards tl st nf
  end.

Definition fit_labels (src : label_source) (st : state) (n : nat) (caller : list Z) : list Z :=
  match src with LDefaultFromNfit => zseq (nfit st) n | LCaller => caller end.

(* the can_release argument handed to from_bb_input (Gen/GMem.v) *)
Definition mm_ctor_arg (c : mm_ctor) : option bool :=
  match c with MMDefault => None | MMCanRelease b => Some b end.

(* ---------- positions ---------- *)
Definition step_tag (s : fit_step) : nat :=
  match s with
  | SNewSingleton => 0 | SNewFromBuffer => 1 | SInsertRoot => 2 | SIfSplit _ => 3
  | SCountOne => 4 | SCountMembers => 5 | SArrIdxInc => 6 | SReleaseCheck => 7
  end%nat.
Fixpoint positions (t : nat) (i : nat) (l : list fit_step) : list nat :=
  match l with
  | [] => []
  | s :: tl => (if Nat.eqb (step_tag s) t then [i] else []) ++ positions t (S i) tl
  end.
(* a occurs exactly once, b occurs exactly once, and a is before b *)
Definition once_before (a b : fit_step) (l : list fit_step) : bool :=
  match positions (step_tag a) 0 l, positions (step_tag b) 0 l with
  | [i], [j] => Nat.ltb i j
  | _, _ => false
  end.
