(* ObsCli.v — comparison of what `bb run` was observed to do (harness/suite_cli.py spies on the
   estimator the command creates and on the output directory) with Model/Cli.v. *)
From BB Require Export Model.Cli Model.ObsCfg.
Open Scope Z_scope.

Definition api_call_eqb (a b : api_call) : bool :=
  match a, b with
  | ACtor n1 t1 h1 b1, ACtor n2 t2 h2 b2 =>
      cname_eqb n1 n2 && feq_bits t1 t2 && feq_bits h1 h2 && (b1 =? b2)
  | AFitFile k1, AFitFile k2 => Nat.eqb k1 k2
  | ASetMerge n1 t1 h1, ASetMerge n2 t2 h2 => cname_eqb n1 n2 && feq_bits t1 t2 && feq_bits h1 h2
  | ARefine x, ARefine y => x =? y
  | ARecluster, ARecluster => true
  | ASaveTree, ASaveTree => true
  | ASave, ASave => true
  | _, _ => false
  end.
(* index of the first call that differs from the plan, -1 if none *)
Fixpoint first_diff (p o : list api_call) (i : Z) : Z :=
  match p, o with
  | [], [] => -1
  | x :: p', y :: o' => if api_call_eqb x y then first_diff p' o' (i + 1) else i
  | _, _ => i
  end.
Definition check_plan (o : run_opts) (nfiles : nat) (obs : list api_call) : Z :=
  first_diff (run_plan o nfiles) obs 0.
Definition vd_eqb (a b : vd_result) : bool :=
  match a, b with
  | VdOk, VdOk | VdCleared, VdCleared | VdErrNotDir, VdErrNotDir | VdErrHasFiles, VdErrHasFiles => true
  | _, _ => false
  end.
Definition check_validate (exists_ is_dir nonempty overwrite : bool) (r : vd_result) : bool :=
  vd_eqb (validate_out exists_ is_dir nonempty overwrite) r.
