(* Cpp.v — loop-level transcription of the kernels of bblean/csrc/similarity.cpp.
   Hand-made; tied to the compiled file by suite `cpp` (the file is compiled unmodified
   against a pybind11 stand-in and called through ctypes).  Executable.
   [None] = the kernel throws, or reads outside its input (undefined behaviour). *)
From BB Require Export Model.Sim.
Open Scope Z_scope.

(* ---------- _popcount_1d / _popcount_2d ---------- *)
(* uint32 accumulator; 64-bit words when the buffer is 8-byte aligned and the byte count is a
   multiple of 64, bytes otherwise *)
Definition cpp_popcount_1d (aligned : bool) (bs : list Z) : Z :=
  if aligned && (zlen bs mod 64 =? 0)
  then fold_left (fun acc w => wrap W32 (acc + popc w)) (words_aux (length bs) bs) 0
  else fold_left (fun acc b => wrap W32 (acc + popc b)) bs 0.
Definition cpp_popcount_2d (aligned : bool) (X : list (list Z)) : list Z :=
  map (cpp_popcount_1d aligned) X.     (* row width decides the path, as in the source *)

(* ---------- unpack_fingerprints ---------- *)
(* for (j = 0; j < n_features; j += 8): copy min(8, n_features - j) values of the bit table entry
   of byte j/8, or zeros once j/8 is past the input (as np.unpackbits(count=n_features)) *)
Fixpoint cpp_unpack_loop (fuel : nat) (n : Z) (bs : list Z) : list Z :=
  match fuel with
  | O => []
  | S f =>
      if n <=? 0 then []
      else
        let chunk := match bs with
                     | b :: _ => map b2z (byte_bits b)
                     | [] => repeat 0 8
                     end in
        firstn (Z.to_nat (Z.min 8 n)) chunk ++ cpp_unpack_loop f (n - 8) (tl bs)
  end.
Definition cpp_unpack_1d (nf : option Z) (bs : list Z) : option (list Z) :=
  let n := match nf with Some x => x | None => 8 * zlen bs end in
  if n <? 0 then None                                      (* the allocation throws *)
  else Some (cpp_unpack_loop (Z.to_nat n) n bs).
Definition cpp_unpack_2d (nf : option Z) (X : list (list Z)) : option (list (list Z)) :=
  fold_right (fun r acc => match cpp_unpack_1d nf r, acc with
                           | Some x, Some l => Some (x :: l) | _, _ => None end) (Some []) X.

(* ---------- centroid_from_sum<uint64_t> ---------- *)
(* the packing loop: for each output byte, 8 x (shift left; or in (value != 0) if the position is
   still inside the unpacked centroid) *)
Definition cpp_pack_byte (vals : list Z) : Z :=
  fold_left (fun acc v => wrap W8 (Z.lor (wrap W8 (acc * 2)) v))
            (firstn 8 (map (fun v => b2z (negb (v =? 0))) vals ++ repeat 0 8)) 0.
Fixpoint cpp_pack_loop (fuel : nat) (vals : list Z) : list Z :=
  match fuel with
  | O => []
  | S f => match vals with
           | [] => []
           | _ => cpp_pack_byte (firstn 8 vals) :: cpp_pack_loop f (skipn 8 vals)
           end
  end.
Definition cpp_centroid (ls : list Z) (n : Z) (pack : bool) : option (list Z) :=
  let vals := if n <=? 1 then map (wrap W8) ls
              else map (fun k => b2z (fge (Z2f k) (Zs2f n * 0.5)%float)) ls in
  if negb pack then Some vals else Some (cpp_pack_loop (length vals) vals).

(* ---------- jt_isim_from_sum ---------- *)
Definition cpp_isim (ls : list Z) (n : Z) : float :=
  if n <? 2 then nan else
  let sum_kq := fold_left (fun acc k => wrap64 (acc + k)) ls 0 in
  if sum_kq =? 0 then 1%float else
  let sum_kqsq := fold_left (fun acc k => wrap64 (acc + wrap64 (k * k))) ls 0 in
  let a := (Z2f (wrap64 (sum_kqsq - sum_kq)) / 2)%float in
  (a / ((a + Z2f (wrap64 (wrap64 n * sum_kq))) - Z2f sum_kqsq))%float.

(* ---------- _calc_arr_vec_jt / jt_sim_packed_precalc_cardinalities ---------- *)
Definition cpp_intersection (words : bool) (x y : list Z) : Z :=
  if words
  then fold_left (fun acc p => wrap W32 (acc + popc (Z.land (fst p) (snd p))))
                 (combine (words_aux (length x) x) (words_aux (length y) y)) 0
  else fold_left (fun acc p => wrap W32 (acc + popc (Z.land (fst p) (snd p)))) (combine x y) 0.
Definition cpp_row_sim (words : bool) (x y : list Z) (card vec_pop : Z) : float :=
  let i := cpp_intersection words x y in
  let den := wrap W32 (wrap W32 (card + vec_pop) - i) in
  (Z2f i / (if PrimFloat.ltb (Z2f den) 1 then 1 else Z2f den))%float.   (* std::max(double(den), 1.0) *)
Definition cpp_arr_vec_precalc (aligned : bool) (X : list (list Z)) (y : list Z) (cards : list Z)
  : list float :=
  let words := aligned && (zlen y mod 64 =? 0) in
  let vp := cpp_popcount_1d aligned y in
  map2 (fun x c => cpp_row_sim words x y c vp) X cards.
Definition cpp_arr_vec (aligned : bool) (X : list (list Z)) (y : list Z) : list float :=
  cpp_arr_vec_precalc aligned X y (cpp_popcount_2d aligned X).

(* ---------- jt_most_dissimilar_packed ---------- *)
(* std::min_element: the first minimum under operator< *)
Fixpoint min_element (l : list float) (i best : nat) (bv : float) : nat :=
  match l with
  | [] => best
  | x :: tl => if PrimFloat.ltb x bv then min_element tl (S i) i x else min_element tl (S i) best bv
  end.
Definition cpp_argmin (l : list float) : nat :=
  match l with [] => O | x :: tl => min_element tl 1%nat O x end.
Definition cpp_most_dissimilar (aligned : bool) (nf : option Z) (Y : list (list Z))
  : option (nat * nat * list float * list float) :=
  match cpp_unpack_2d nf Y with
  | None => None
  | Some U =>
      let n := zlen Y in
      let width := match U with r :: _ => length r | [] => O end in
      let ls := fold_left (fun acc r => map2 (fun a b => wrap64 (a + b)) acc r) U (repeat 0 width) in
      match cpp_centroid ls n true with
      | None => None
      | Some cen =>
          if negb (Nat.eqb (length cen) (match Y with r :: _ => length r | [] => O end))
          then None                                       (* "Shapes should be (N, F) ..." *)
          else
          let cards := cpp_popcount_2d aligned Y in
          let sc := cpp_arr_vec_precalc aligned Y cen cards in
          let f1 := cpp_argmin sc in
          let s1 := cpp_arr_vec_precalc aligned Y (nth f1 Y []) cards in
          let f2 := cpp_argmin s1 in
          let s2 := cpp_arr_vec_precalc aligned Y (nth f2 Y []) cards in
          Some (f1, f2, s1, s2)
      end
  end.

(* ---------- the Python fallback of jt_most_dissimilar_packed, on packed rows ---------- *)
(* (_py_similarity.jt_most_dissimilar_packed; the kernels it calls are those of Sim.v) *)
Definition py_most_dissimilar_packed (nf : option Z) (Y : list (list Z))
  : nat * nat * list float * list float :=
  let n := zlen Y in
  let U := map (fun r => map b2z (unpack nf r)) Y in
  let width := match U with r :: _ => length r | [] => O end in
  let ls := fold_left (fun acc r => map2 Z.add acc r) U (repeat 0 width) in
  let cen := centroid_packed ls n in
  let cards := map popcount Y in
  let sc := map2 (fun x c => sim_packed_precalc x cen c) Y cards in
  let f1 := argmin_f sc in
  let s1 := map2 (fun x c => sim_packed_precalc x (nth f1 Y []) c) Y cards in
  let f2 := argmin_f s1 in
  let s2 := map2 (fun x c => sim_packed_precalc x (nth f2 Y []) c) Y cards in
  (f1, f2, s1, s2).

(* ---------- add_rows<uint8_t> / jt_isim_unpacked_u8 / jt_isim_packed_u8 ---------- *)
(* out[j] = 0; for each row i, for each column j: out[j] += uint64(arr[i][j]).  [w] = arr.shape(1)
   (known also when the array has no rows); the entries are the uint8 values of the rows *)
Definition cpp_add_rows (w : nat) (X : list (list Z)) : list Z :=
  fold_left (fun acc r => map2 (fun a b => wrap64 (a + b)) acc r) X (repeat 0 w).
Definition cpp_isim_unpacked (w : nat) (X : list (list Z)) : float :=
  cpp_isim (cpp_add_rows w X) (zlen X).
(* unpack_fingerprints on the 2-D input, add_rows over the unpacked array (its shape(1)), and the
   row count of the packed input *)
Definition cpp_isim_packed (nf : option Z) (X : list (list Z)) : option float :=
  match cpp_unpack_2d nf X with
  | None => None
  | Some U =>
      let width := match U with r :: _ => length r | [] => O end in
      Some (cpp_isim (cpp_add_rows width U) (zlen X))
  end.

(* ---------- the Python fallback of the three (_py_similarity.py) ---------- *)
(* exact column sums of integer rows of width [w] *)
Definition zcolsum (w : nat) (X : list (list Z)) : list Z :=
  fold_left (fun acc r => map2 Z.add acc r) X (repeat 0 w).
(* np.sum(arr, axis=0, dtype=np.uint64): the column sums in uint64 arithmetic *)
Definition py_add_rows (w : nat) (X : list (list Z)) : list Z := map wrap64 (zcolsum w X).
(* jt_isim_unpacked: jt_isim_from_sum(np.sum(arr, axis=0, dtype=np.uint64), len(arr)) *)
Definition py_isim_unpacked (X : list (list Z)) : float :=
  isim_f (py_add_rows (match X with r :: _ => length r | [] => O end) X) (zlen X).
(* jt_isim_packed: the same on unpack_fingerprints(fps, n_features), with len(fps) *)
Definition py_isim_packed (nf : option Z) (X : list (list Z)) : float :=
  py_isim_unpacked (map (fun r => map b2z (unpack nf r)) X).
