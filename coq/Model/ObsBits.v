(* ObsBits.v — observation/check functions for the kernel-level correspondence suites
   (bits, isim, merges).  Executable only. *)
From BB Require Export Model.Merges.
Open Scope Z_scope.

Definition fl_eqb := list_eqb feq_bits.
Definition zl_eqb := list_eqb Z.eqb.

Record bits_obs := mkBitsObs {
  bo_packed : list (list Z);          (* pack_fingerprints(rows) *)
  bo_unpacked_ok : bool;              (* unpack(pack(rows), nf) == rows on the implementation *)
  bo_popcounts : list Z;              (* _popcount per packed row *)
  bo_sims_vec : list float;           (* _jt_sim_arr_vec_packed(X, X[0]) *)
  bo_matrix : list (list float);      (* jt_sim_matrix_packed(X) *)
  bo_centroid_vals : list Z;          (* centroid_from_sum(colsum, n, pack=False) *)
  bo_centroid_packed : list Z;        (* centroid_from_sum(colsum, n, pack=True) *)
  bo_dissim : nat * nat * list float * list float;   (* jt_most_dissimilar_packed *)
  bo_compl : list float;              (* jt_compl_isim *)
  bo_medoid : nat                     (* jt_isim_medoid index *)
}.

Definition check_bits (nf : nat) (rows : list fpv) (o : bits_obs) : list bool :=
  let X := map pack rows in
  let n := zlen rows in
  let ls := colsum nf rows in
  let '(f1, f2, s1, s2) := most_dissimilar nf rows in
  let '(g1, g2, t1, t2) := bo_dissim o in
  [ list_eqb zl_eqb X (bo_packed o);
    bo_unpacked_ok o && list_eqb fpv_eqb (map (unpack (Some (Z.of_nat nf))) (bo_packed o)) rows;
    zl_eqb (map popcount X) (bo_popcounts o);
    fl_eqb (sim_arr_vec_packed X (nth 0 X [])) (bo_sims_vec o);
    list_eqb fl_eqb (sim_matrix_packed X) (bo_matrix o);
    zl_eqb (centroid_vals ls n) (bo_centroid_vals o);
    zl_eqb (centroid_packed ls n) (bo_centroid_packed o);
    (* C12: valid indices and the similarities to exactly those rows (the choice of the
       rows themselves is C07's business: check_dissim_choice below) *)
    Nat.ltb g1 (length rows) && Nat.ltb g2 (length rows)
    && fl_eqb t1 (map (fun y => sim y (nth g1 rows [])) rows)
    && fl_eqb t2 (map (fun y => sim y (nth g2 rows [])) rows);
    fl_eqb (compl_isim nf rows) (bo_compl o);
    Nat.eqb (medoid_index nf rows) (bo_medoid o) ].

Definition check_dissim_choice (nf : nat) (rows : list fpv) (o : bits_obs) : bool :=
  let '(f1, f2, s1, s2) := most_dissimilar nf rows in
  let '(g1, g2, t1, t2) := bo_dissim o in
  Nat.eqb f1 g1 && Nat.eqb f2 g2 && fl_eqb s1 t1 && fl_eqb s2 t2.

(* iSIM-level observations *)
Record isim_obs := mkIsimObs {
  io_isim : float;           (* jt_isim_from_sum(ls, n) *)
  io_rcompl : float;         (* jt_isim_radius_compl_from_sum *)
  io_radius : float;         (* jt_isim_radius_from_sum *)
  io_diam : float            (* jt_isim_diameter_from_sum *)
}.
Definition check_isim (ls : list Z) (n : Z) (o : isim_obs) : list bool :=
  [ feq_bits (isim_f ls n) (io_isim o);
    feq_bits (radius_compl_f ls n) (io_rcompl o);
    feq_bits (1 - radius_compl_f ls n)%float (io_radius o);
    feq_bits (1 - isim_f ls n)%float (io_diam o) ].

Definition all_true (l : list bool) : bool := forallb (fun b => b) l.
