(* ObsCpp.v — comparison of the outputs of the compiled C++ kernels (called through ctypes by
   harness/suite_cpp.py) with Model/Cpp.v.  [None] = the kernel threw. *)
From BB Require Export Model.Cpp Model.ObsBits.
Open Scope Z_scope.

Definition opt_eqb {A : Type} (eq : A -> A -> bool) (a b : option A) : bool :=
  match a, b with Some x, Some y => eq x y | None, None => true | _, _ => false end.
Definition chk_popcount (aligned : bool) (X : list (list Z)) (e : list Z) : bool :=
  zl_eqb (cpp_popcount_2d aligned X) e.
Definition chk_unpack (nf : option Z) (X : list (list Z)) (e : option (list (list Z))) : bool :=
  opt_eqb (list_eqb zl_eqb) (cpp_unpack_2d nf X) e.
Definition chk_centroid (ls : list Z) (n : Z) (pack : bool) (e : option (list Z)) : bool :=
  opt_eqb zl_eqb (cpp_centroid ls n pack) e.
Definition chk_isim (ls : list Z) (n : Z) (e : float) : bool := feq_bits (cpp_isim ls n) e.
Definition chk_arr_vec (aligned : bool) (X : list (list Z)) (y : list Z) (e : list float) : bool :=
  fl_eqb (cpp_arr_vec aligned X y) e.
Definition chk_dissim (aligned : bool) (nf : option Z) (Y : list (list Z))
           (e : option (nat * nat * list float * list float)) : bool :=
  match cpp_most_dissimilar aligned nf Y, e with
  | Some (f1, f2, s1, s2), Some (g1, g2, t1, t2) =>
      Nat.eqb f1 g1 && Nat.eqb f2 g2 && fl_eqb s1 t1 && fl_eqb s2 t2
  | None, None => true
  | _, _ => false
  end.
Definition chk_add_rows (w : nat) (X : list (list Z)) (obs : list Z) : bool :=
  zl_eqb (cpp_add_rows w X) obs.
Definition chk_isim_unpacked (w : nat) (X : list (list Z)) (obs : float) : bool :=
  feq_bits (cpp_isim_unpacked w X) obs.
Definition chk_isim_packed (nf : option Z) (X : list (list Z)) (obs : option float) : bool :=
  opt_eqb feq_bits (cpp_isim_packed nf X) obs.
