(* FpsUtil.v — fingerprint-file utilities: batching, global-index lookup over a sequence of
   files, zero-padded part names, split/merge/shuffle plumbing.  Hand model of
   bblean/utils.py:batched, bblean/smiles.py, bblean/fingerprints.py:
   _get_fingerprints_from_file_seq, bblean/cli.py:_split_fps/_merge_fps/parse_num_per_batch. *)
From BB Require Export Model.Base Gen.NumpySem.
From Coq Require Import String Ascii.
Open Scope Z_scope.

(* ---------- batched(iterable, n): tuples of length n, the last may be shorter ---------- *)
Fixpoint batched_fuel {A} (fuel : nat) (n : nat) (l : list A) : list (list A) :=
  match fuel with
  | O => []
  | S f => match l with
           | [] => []
           | _ => firstn n l :: batched_fuel f n (skipn n l)
           end
  end.
Definition batched {A} (n : nat) (l : list A) : list (list A) := batched_fuel (List.length l) n l.

(* _iter_ranges_and_smiles_batches: every batch travels with its global (start, end) range *)
Fixpoint with_ranges {A} (start : Z) (bs : list (list A)) : list ((Z * Z) * list A) :=
  match bs with
  | [] => []
  | b :: tl => ((start, start + zlen b), b) :: with_ranges (start + zlen b) tl
  end.
Definition ranges_batches {A} (n : nat) (l : list A) := with_ranges 0 (batched n l).
(* _iter_idxs_and_smiles_batches *)
Fixpoint with_idxs {A} (i : Z) (bs : list (list A)) : list (Z * list A) :=
  match bs with [] => [] | b :: tl => (i, b) :: with_idxs (i + 1) tl end.

(* ---------- parse_num_per_batch (None = ValueError) ---------- *)
Definition parse_num_per_batch (smiles_num : Z) (parts max_fps_per_file : option Z)
  : option (Z * Z * option Z) :=
  match parts, max_fps_per_file with
  | Some p, None => Some (p, ceil_div smiles_num p, Some (Z.of_nat (String.length (str_of_Z p))))
  | None, Some m =>
      let p := ceil_div smiles_num m in
      Some (p, m, Some (Z.of_nat (String.length (str_of_Z p))))
  | None, None => Some (1, ceil_div smiles_num 1, None)
  | Some _, Some _ => None
  end.

(* ---------- global index -> rows, over a sequence of files ---------- *)
Fixpoint sortedb (l : list Z) : bool :=
  match l with
  | a :: ((b :: _) as tl) => (a <=? b) && sortedb tl
  | _ => true
  end.
(* per file: the indices below the running end, made local; returns the picked rows and the
   remaining indices *)
Fixpoint take_file {R} (rows : list R) (start : Z) (idxs : list Z) (dflt : R) : list R * list Z :=
  match idxs with
  | [] => ([], [])
  | i :: tl =>
      if i <? start + zlen rows then
        let '(got, rest) := take_file rows start tl dflt in
        (nth (Z.to_nat (i - start)) rows dflt :: got, rest)
      else ([], idxs)
  end.
Fixpoint file_seq_walk {R} (files : list (list R)) (start : Z) (idxs : list Z) (dflt : R)
  : list R * list Z :=
  match files with
  | [] => ([], idxs)
  | f :: tl =>
      let '(got, rest) := take_file f start idxs dflt in
      let '(got2, rest2) := file_seq_walk tl (start + zlen f) rest dflt in
      ((got ++ got2)%list, rest2)
  end.
(* None = ValueError ("idxs must be sorted" / "idxs could not be extracted from files") *)
Definition file_seq_get {R} (files : list (list R)) (idxs : list Z) (dflt : R) : option (list R) :=
  if negb (sortedb idxs) then None
  else let '(got, rest) := file_seq_walk files 0 idxs dflt in
       match rest with [] => Some got | _ => None end.

(* ---------- zero-padded part names (fps-split, fps-from-smiles) ---------- *)
Open Scope string_scope.
Definition part_name (stem : string) (digits : Z) (i : Z) : string :=
  stem ++ "." ++ zfill (str_of_Z i) digits ++ ".npy".
Close Scope string_scope.

(* fps-split: batches with their names; fps-merge: concatenation in sorted name order *)
Definition split_parts {R} (stem : string) (digits : Z) (n : nat) (rows : list R)
  : list (string * list R) :=
  map (fun p => (part_name stem digits (fst p), snd p)) (with_idxs 0 (batched n rows)).

(* lexicographic order on strings (bytes), as Python's sorted() on file names *)
Fixpoint str_ltb (a b : string) : bool :=
  match a, b with
  | EmptyString, EmptyString => false
  | EmptyString, String _ _ => true
  | String _ _, EmptyString => false
  | String x a', String y b' =>
      if Nat.ltb (nat_of_ascii x) (nat_of_ascii y) then true
      else if Nat.ltb (nat_of_ascii y) (nat_of_ascii x) then false
      else str_ltb a' b'
  end.
Fixpoint ins_by_name {R} (x : string * R) (l : list (string * R)) : list (string * R) :=
  match l with
  | [] => [x]
  | y :: tl => if str_ltb (fst y) (fst x) then y :: ins_by_name x tl else x :: y :: tl
  end.
Definition sort_by_name {R} (l : list (string * R)) : list (string * R) := fold_right ins_by_name [] l.
Definition merge_parts {R} (parts : list (string * list R)) : list R :=
  List.concat (map snd (sort_by_name parts)).
