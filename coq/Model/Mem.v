(* Mem.v — page-release arithmetic of _ArrayMemPagesManager (bblean/_memory.py) as driven by
   the loop of BitBirch.fit.  Executable. *)
From BB Require Export Model.Base.
Open Scope Z_scope.

Record pm := mkPm { can_release : bool; pagesizex : Z; iters : Z; addr : Z }.

(* from_bb_input on an np.memmap of shape (rows, cols), header offset `offset`, whose data
   starts at address `data`; P = mmap.PAGESIZE * 512 *)
Definition from_memmap (P cols offset data : Z) : pm :=
  if (P mod cols =? 0) && (offset <? cols)
  then mkPm true P (P / cols) (data - offset)
  else mkPm false P 0 0.

Definition should_release (m : pm) (row_idx : Z) : bool := row_idx mod (iters m) =? 0.
Definition release (m : pm) : (Z * Z) * pm :=
  ((addr m, pagesizex m), mkPm (can_release m) (pagesizex m) (iters m) (addr m + pagesizex m)).

(* the fit loop over n rows: arr_idx counts the rows consumed by THIS call; returns the
   (address, size, rows-consumed-at-that-moment) of every madvise(DONTNEED) *)
Fixpoint fit_releases (m : pm) (n : nat) (arr_idx : Z) : list (Z * Z * Z) :=
  match n with
  | O => []
  | S k =>
      let i := arr_idx + 1 in
      if can_release m && should_release m i then
        let '((a, sz), m') := release m in (a, sz, i) :: fit_releases m' k i
      else fit_releases m k i
  end.
