(* Cli.v — the decision logic of `bb run` / `bb multiround` (bblean/cli.py) that is not plain
   delegation to the API: output-directory validation, option normalisation, and the
   sequence of API calls (the "plan") of `bb run`.  Hand model; tied by suite `cli`. *)
From BB Require Export Model.Config.
Open Scope Z_scope.

(* _validate_output_dir(out_dir, overwrite) as a function of what the directory looks like *)
Inductive vd_result := VdOk | VdCleared | VdErrNotDir | VdErrHasFiles.
Definition validate_out (exists_ is_dir nonempty overwrite : bool) : vd_result :=
  if exists_ then
    if negb is_dir then VdErrNotDir
    else if nonempty then (if overwrite then VdCleared else VdErrHasFiles)
    else VdOk
  else VdOk.

(* option normalisation of `bb run`: --refine-rounds defaults from --refine-num, and
   refinement rounds imply at least one cluster to refine *)
Definition norm_refine (refine_num : Z) (refine_rounds : option Z) : Z * Z :=
  let rounds := match refine_rounds with Some r => r | None => if 0 <? refine_num then 1 else 0 end in
  let num := if (0 <? rounds) && (refine_num =? 0) then 1 else refine_num in
  (num, rounds).

Record run_opts := mkRunOpts {
  ro_merge : cname; ro_refine_merge : cname; ro_tol : float; ro_thr : float; ro_bf : Z;
  ro_change : float; ro_refine_num : Z; ro_refine_rounds : option Z; ro_recluster_rounds : Z;
  ro_save_tree : bool
}.

(* the API calls `bb run` makes, in order *)
Inductive api_call :=
| ACtor (nm : cname) (tol thr : float) (bf : Z)
| AFitFile (k : nat)                                   (* the k-th input file, sorted by name *)
| ASetMerge (nm : cname) (tol thr : float)
| ARefine (n_largest : Z)
| ARecluster
| ASaveTree                                            (* tree.save(out_dir / 'bitbirch.pkl') *)
| ASave.                                               (* the clusters / centroids are read out *)
Definition run_plan (o : run_opts) (nfiles : nat) : list api_call :=
  let '(num, rounds) := norm_refine (ro_refine_num o) (ro_refine_rounds o) in
  [ACtor (ro_merge o) (ro_tol o) (ro_thr o) (ro_bf o)]
  ++ map AFitFile (seq 0 nfiles)
  ++ (if negb (ro_recluster_rounds o =? 0) || negb (rounds =? 0) then
        [ASetMerge (ro_refine_merge o) (ro_tol o) (ro_thr o + ro_change o)%float]
        ++ repeat (ARefine num) (Z.to_nat rounds)
        ++ repeat ARecluster (Z.to_nat (ro_recluster_rounds o))
      else [])
  ++ (if ro_save_tree o then [ASaveTree] else [])
  ++ [ASave].

Section WithExp.
Variable fexp : float -> float.
(* the configuration part of the plan never aborts for documented criterion names *)
Definition plan_config (o : run_opts) : option config :=
  match ctor fexp None (ro_thr o) (ro_bf o) (AName (ro_merge o)) (Some (ro_tol o)) with
  | None => None
  | Some cf =>
      let '(_, rounds) := norm_refine (ro_refine_num o) (ro_refine_rounds o) in
      if negb (ro_recluster_rounds o =? 0) || negb (rounds =? 0) then
        set_merge fexp None cf (AName (ro_refine_merge o)) (Some (ro_tol o))
                  (Some (ro_thr o + ro_change o)%float) None
      else Some cf
  end.
End WithExp.
