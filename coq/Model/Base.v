(* Base.v — numbers, widths, floats.  Definitions only (executable). *)
From Coq Require Export ZArith List Bool.
From Coq Require Export SpecFloat PrimFloat Uint63 FloatOps.
Export ListNotations.
Open Scope Z_scope.

(* ---------- unsigned widths (numpy uint8/16/32/64) ---------- *)
Inductive width := W8 | W16 | W32 | W64.
Definition wbits (w : width) : Z :=
  match w with W8 => 8 | W16 => 16 | W32 => 32 | W64 => 64 end.
Definition wmax (w : width) : Z := 2 ^ (wbits w) - 1.
Definition wrap (w : width) (x : Z) : Z := x mod 2 ^ (wbits w).
Definition wrap64 (x : Z) : Z := x mod 2 ^ 64.
Definition width_eqb (a b : width) : bool :=
  match a, b with W8,W8 | W16,W16 | W32,W32 | W64,W64 => true | _,_ => false end.
Definition width_name_bits (w : width) : Z := wbits w.

(* np.min_scalar_type on a non-negative python int: None = object dtype *)
Definition np_min_scalar_type (n : Z) : option width :=
  if n <=? 255 then Some W8
  else if n <=? 65535 then Some W16
  else if n <=? 4294967295 then Some W32
  else if n <=? 18446744073709551615 then Some W64
  else None.

(* ---------- floats ---------- *)
(* uint64 -> float64 as the C cast / numpy does it (round to nearest even).
   Below 2^63 the primitive conversion is used; above, halve with a sticky bit. *)
Definition Z2f (z : Z) : float :=
  if z <? 0 then nan
  else if z <? 9223372036854775808 then of_uint63 (Uint63.of_Z z)
  else
    let h := Z.lor (Z.shiftr z 1) (Z.land z 1) in
    (of_uint63 (Uint63.of_Z h) * 2)%float.

(* signed python int -> float (used for small ints such as old_n - 1) *)
Definition Zs2f (z : Z) : float :=
  if z <? 0 then (- (Z2f (- z)))%float else Z2f z.

Definition fge (a b : float) : bool := PrimFloat.leb b a.   (* a >= b *)
Definition fgt (a b : float) : bool := PrimFloat.ltb b a.   (* a >  b *)
Definition flt (a b : float) : bool := PrimFloat.ltb a b.   (* a <  b *)
Definition fle (a b : float) : bool := PrimFloat.leb a b.   (* a <= b *)

(* Python builtin max(a, b): returns b only if b > a *)
Definition py_max_f (a b : float) : float := if PrimFloat.ltb a b then b else a.

(* bit-level equality of floats (all NaNs identified, -0 <> +0) *)
Definition feq_bits (a b : float) : bool :=
  match Prim2SF a, Prim2SF b with
  | S754_nan, S754_nan => true
  | S754_zero s1, S754_zero s2 => Bool.eqb s1 s2
  | S754_infinity s1, S754_infinity s2 => Bool.eqb s1 s2
  | S754_finite s1 m1 e1, S754_finite s2 m2 e2 =>
      Bool.eqb s1 s2 && Pos.eqb m1 m2 && Z.eqb e1 e2
  | _, _ => false
  end.

(* ---------- list helpers ---------- *)
Definition zsum (l : list Z) : Z := fold_left Z.add l 0.
Fixpoint zdot (a b : list Z) : Z :=
  match a, b with x :: a', y :: b' => x * y + zdot a' b' | _, _ => 0 end.
Fixpoint map2 {A B C} (f : A -> B -> C) (a : list A) (b : list B) : list C :=
  match a, b with x :: a', y :: b' => f x y :: map2 f a' b' | _, _ => [] end.
Fixpoint upd {A} (i : nat) (x : A) (l : list A) : list A :=
  match l, i with
  | [], _ => []
  | _ :: tl, O => x :: tl
  | y :: tl, S i' => y :: upd i' x tl
  end.
Definition b2z (b : bool) : Z := if b then 1 else 0.
Definition zlen {A} (l : list A) : Z := Z.of_nat (length l).

Fixpoint list_eqb {A} (eqb : A -> A -> bool) (a b : list A) : bool :=
  match a, b with
  | [], [] => true
  | x :: a', y :: b' => eqb x y && list_eqb eqb a' b'
  | _, _ => false
  end.

(* first extremum, with numpy's NaN behaviour: np.argmax/argmin return the first
   NaN if any NaN is present. *)
Fixpoint argbest (better : float -> float -> bool) (l : list float)
         (i best : nat) (bv : float) : nat :=
  match l with
  | [] => best
  | x :: tl =>
      if better x bv then argbest better tl (S i) i x
      else argbest better tl (S i) best bv
  end.
Definition is_nan_f (x : float) : bool := negb (PrimFloat.eqb x x).
Definition argmax_f (l : list float) : nat :=
  match l with
  | [] => O
  | x :: tl =>
      argbest (fun x b => negb (is_nan_f b) && (is_nan_f x || PrimFloat.ltb b x)) tl 1%nat O x
  end.
Definition argmin_f (l : list float) : nat :=
  match l with
  | [] => O
  | x :: tl =>
      argbest (fun x b => negb (is_nan_f b) && (is_nan_f x || PrimFloat.ltb x b)) tl 1%nat O x
  end.
