(* Sim.v — fingerprints and numeric kernels (hand model; executable).
   Mirrors bblean/_py_similarity.py, bblean/similarity.py, bblean/fingerprints.py. *)
From BB Require Export Model.Base.
Open Scope Z_scope.

Definition fpv := list bool.

Fixpoint card (a : fpv) : Z :=
  match a with [] => 0 | b :: t => b2z b + card t end.
Definition andv (a b : fpv) : fpv := map2 andb a b.
Definition fpv_eqb (a b : fpv) : bool := list_eqb Bool.eqb a b.

(* ---------- packing (np.packbits / np.unpackbits, big-endian bit order) ---------- *)
Definition bits_val (l : list bool) : Z := fold_left (fun acc b => 2 * acc + b2z b) l 0.
Definition byte_of (l : list bool) : Z := bits_val (firstn 8 (l ++ repeat false 8)).
Fixpoint pack_aux (fuel : nat) (l : fpv) : list Z :=
  match fuel with
  | O => []
  | S f => match l with [] => [] | _ => byte_of l :: pack_aux f (skipn 8 l) end
  end.
Definition pack (l : fpv) : list Z := pack_aux (length l) l.

Definition byte_bits (b : Z) : list bool :=
  map (fun i => Z.testbit b i) [7;6;5;4;3;2;1;0].
Definition unpack_all (bs : list Z) : fpv := flat_map byte_bits bs.
(* np.unpackbits(a, count=nf): truncate, or zero-pad when nf exceeds the bits present *)
Definition unpack (nf : option Z) (bs : list Z) : fpv :=
  match nf with
  | None => unpack_all bs
  | Some n =>
      let all := unpack_all bs in
      let k := Z.to_nat n in
      firstn k all ++ repeat false (k - length all)
  end.

(* ---------- popcount: byte path and uint64-view path ---------- *)
Fixpoint popc_pos (p : positive) : Z :=
  match p with xH => 1 | xO q => popc_pos q | xI q => 1 + popc_pos q end.
Definition popc (z : Z) : Z := match z with Zpos p => popc_pos p | _ => 0 end.
Definition popcount_bytes (bs : list Z) : Z := zsum (map popc bs).
Definition word_of (l : list Z) : Z :=   (* little-endian 8 bytes *)
  fold_right (fun b acc => b + 256 * acc) 0 l.
Fixpoint words_aux (fuel : nat) (l : list Z) : list Z :=
  match fuel with
  | O => []
  | S f => match l with [] => [] | _ => word_of (firstn 8 l) :: words_aux f (skipn 8 l) end
  end.
Definition popcount_words (bs : list Z) : Z := zsum (map popc (words_aux (length bs) bs)).
(* _popcount: uint64 view when the byte count allows, bytes otherwise; uint32 sum *)
Definition popcount (bs : list Z) : Z :=
  wrap W32 (if (zlen bs) mod 8 =? 0 then popcount_words bs else popcount_bytes bs).

(* ---------- Tanimoto ---------- *)
Definition tanimoto_f (i ca cb : Z) : float :=
  (Z2f i / Z2f (Z.max (ca + cb - i) 1))%float.
(* the same with numpy's uint32 arithmetic written out *)
Definition tanimoto_u32 (i ca cb : Z) : float :=
  (Z2f i / Z2f (Z.max (wrap W32 (wrap W32 (ca + cb) - i)) 1))%float.
Definition sim (a b : fpv) : float := tanimoto_f (card (andv a b)) (card a) (card b).

(* packed form: _jt_sim_packed_precalc_cardinalities on one row *)
Definition and_bytes (x y : list Z) : list Z := map2 Z.land x y.
Definition sim_packed_precalc (x y : list Z) (cx : Z) : float :=
  tanimoto_u32 (popcount (and_bytes x y)) cx (popcount y).
Definition sim_packed (x y : list Z) : float := sim_packed_precalc x y (popcount x).
Definition sim_arr_vec_packed (X : list (list Z)) (y : list Z) : list float :=
  map (fun x => sim_packed x y) X.
(* jt_sim_matrix_packed *)
Definition sim_matrix_packed (X : list (list Z)) : list (list float) :=
  map (fun i => map (fun j =>
        if Nat.eqb i j then 1%float
        else sim_packed (nth (Nat.min i j) X []) (nth (Nat.max i j) X []))
      (seq 0 (length X))) (seq 0 (length X)).

(* ---------- centroid ---------- *)
(* centroid_from_sum(pack=False): uint8 values *)
Definition centroid_vals (ls : list Z) (n : Z) : list Z :=
  if n <=? 1 then map (wrap W8) ls
  else map (fun k => b2z (fge (Z2f k) (Z2f n * 0.5)%float)) ls.
Definition centroid_fpv (ls : list Z) (n : Z) : fpv :=
  map (fun v => negb (v =? 0)) (centroid_vals ls n).
Definition centroid_packed (ls : list Z) (n : Z) : list Z := pack (centroid_fpv ls n).

(* ---------- iSIM ---------- *)
Definition isim_f (ls : list Z) (n : Z) : float :=
  if n <? 2 then nan else
  let x := map wrap64 ls in
  let sum_kq := wrap64 (zsum x) in
  if sum_kq =? 0 then 1%float else
  let sum_kqsq := wrap64 (zdot x x) in
  let a := (Z2f (wrap64 (sum_kqsq - sum_kq)) / 2)%float in
  (a / ((a + Z2f (wrap64 (n * sum_kq))) - Z2f sum_kqsq))%float.

Definition radius_compl_f (ls : list Z) (n : Z) : float :=
  let c := centroid_vals ls n in
  let ls1 := map2 (fun a b => wrap64 (wrap64 a + wrap64 b)) ls c in
  let n1 := n + 1 in
  let jt := isim_f ls n in
  let jt1 := isim_f ls1 n1 in
  ((jt1 * Zs2f n1 - jt * Zs2f (n - 1)) / 2)%float.

Definition colsum (nf : nat) (rows : list fpv) : list Z :=
  fold_left (fun acc f => map2 Z.add acc (map b2z f)) rows (repeat 0 nf).

(* ---------- most dissimilar (on unpacked centroids) ---------- *)
Definition most_dissimilar (nf : nat) (Y : list fpv)
  : nat * nat * list float * list float :=
  let n := zlen Y in
  let c := centroid_fpv (colsum nf Y) n in
  let sc := map (fun y => sim y c) Y in
  let f1 := argmin_f sc in
  let y1 := nth f1 Y [] in
  let s1 := map (fun y => sim y y1) Y in
  let f2 := argmin_f s1 in
  let y2 := nth f2 Y [] in
  let s2 := map (fun y => sim y y2) Y in
  (f1, f2, s1, s2).

(* ---------- complementary similarity / medoid (unpacked rows) ---------- *)
Definition compl_isim (nf : nat) (rows : list fpv) : list float :=
  let n := zlen rows - 1 in
  if n <? 2 then map (fun _ => nan) rows
  else
    let ls := colsum nf rows in
    map (fun r => isim_f (map2 Z.sub ls (map b2z r)) n) rows.
Definition medoid_index (nf : nat) (rows : list fpv) : nat :=
  if zlen rows <? 3 then O else argmin_f (compl_isim nf rows).
