(* Labels.v — assignment vectors, scikit-learn wrappers (labels_, predict, transform).
   Hand model of BitBirch.get_assignments and bblean/sklearn.py; executable. *)
From BB Require Export Model.Birch.
Open Scope Z_scope.

(* SciPy's boolean Jaccard distance: |a xor b| / |a or b|, 0 when both are empty *)
Definition xorv (a b : fpv) : fpv := map2 xorb a b.
Definition orv (a b : fpv) : fpv := map2 orb a b.
Definition jaccard_f (a b : fpv) : float :=
  let d := card (orv a b) in
  if d =? 0 then 0%float else (Z2f (card (xorv a b)) / Z2f d)%float.

Section WithExp.
Variable fexp : float -> float.

(* the wrapper's state after fit: sorted unpacked centroids, labels 1..k, labels_ *)
Definition sk_centers (st : state) : list fpv := centroids st.
Definition sk_labels (st : state) : option (list Z) := assignments st.

(* transform: Jaccard distance of every query row to every centroid *)
Definition sk_transform (st : state) (Q : list fpv) : list (list float) :=
  map (fun q => map (fun c => jaccard_f q c) (sk_centers st)) Q.
(* predict: label (1-based rank) of a nearest centroid — the first on ties *)
Definition sk_predict (st : state) (Q : list fpv) : list Z :=
  map (fun row => 1 + Z.of_nat (argmin_f row)) (sk_transform st Q).

(* rank (1-based) of the cluster containing label i in the size-sorted cluster list *)
Fixpoint rank_of (i : Z) (cls : list (list Z)) (k : Z) : option Z :=
  match cls with
  | [] => None
  | c :: tl => if existsb (Z.eqb i) c then Some k else rank_of i tl (k + 1)
  end.
End WithExp.
