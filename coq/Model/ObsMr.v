(* ObsMr.v — comparison functions for the multiround correspondence suites. *)
From BB Require Export Model.Multiround Model.ObsBits.
From Coq Require Import String.
Open Scope Z_scope.

Definition zll_eqb := list_eqb zl_eqb.
Definition content_eqb (a b : content) : bool :=
  match a, b with
  | CBufs w1 r1, CBufs w2 r2 =>
      width_eqb w1 w2 && list_eqb (fun x y => zl_eqb (fst x) (fst y) && (snd x =? snd y)) r1 r2
  | CIdxs a, CIdxs b => zll_eqb a b
  | CClusters a, CClusters b => zll_eqb a b
  | CCentroids a, CCentroids b => list_eqb fpv_eqb a b
  | COther, COther => true
  | _, _ => false
  end.
Definition dir_eqb (a b : dir) : bool :=
  list_eqb (fun x y => String.eqb (fst x) (fst y) && content_eqb (snd x) (snd y)) a b.
(* names of the first entry that differs (for diagnostics) *)
Fixpoint dir_diff (a b : dir) : option (string * string) :=
  match a, b with
  | [], [] => None
  | (n, x) :: a', (m, y) :: b' =>
      if String.eqb n m && content_eqb x y then dir_diff a' b' else Some (n, m)
  | (n, _) :: _, [] => Some (n, ""%string)
  | [], (m, _) :: _ => Some (""%string, m)
  end.
Definition check_mr (fexp : float -> float) (c : mr_cfg) (files : list (list fpv)) (d0 : dir)
           (expected : option dir) : bool :=
  match run_multiround fexp c files d0, expected with
  | Some d, Some e => dir_eqb d e
  | None, None => true
  | _, _ => false
  end.
