(* TreePlan.v — the skeleton ("plan") of the node operations of the CF-tree (bblean/bitbirch.py:
   _BFSubcluster.update / add_to_n_samples_and_linear_sum / replace_n_samples_and_linear_sum /
   merge_subcluster, _BFNode.append_subcluster / update_split_subclusters / insert_bf_subcluster,
   _split_node) as data, and the meaning of that data on the tree model of Tree.v.

   The plan types are shared by Gen/GTree.v (regenerated from the source on every run of the
   translator, which fails closed on every statement that is not one of the constructors below) and by
   Proofs/GenTieTree.v (Gen = expected; meaning of expected = the model function).  Hand-written. *)
From BB Require Export Model.Tree.
Open Scope Z_scope.

(* =====================================================================================
   Stage A — sub-cluster arithmetic
   ===================================================================================== *)

(* an integer operand: the n_samples parameter | the local bound to self.n_samples + n_samples *)
Inductive nsrc := NParam | NNewN.
(* an array operand: the linear_sum parameter | self._buffer[:-1] *)
Inductive lsrc := LParam | LBuffer.

(* statements of add_to_n_samples_and_linear_sum / replace_n_samples_and_linear_sum *)
Inductive buf_step :=
| BBindNewN                        (* v = self.n_samples + n_samples *)
| BCastMinSafe (n : nsrc)          (* self._buffer = self._buffer.astype(min_safe_uint(n), copy=False) *)
| BAddInPlace (l : lsrc)           (* self._buffer[:-1] += l *)
| BAssignLs (l : lsrc)             (* self._buffer[:-1] = l *)
| BStoreN (n : nsrc)               (* self._buffer[-1] = n *)
| BCentroid (l : lsrc) (n : nsrc). (* self.packed_centroid = centroid_from_sum(l, n, pack=True) *)

Definition expected_add_to : list buf_step :=
  [BBindNewN; BCastMinSafe NNewN; BAddInPlace LParam; BStoreN NNewN; BCentroid LBuffer NNewN].
Definition expected_replace : list buf_step :=
  [BCastMinSafe NParam; BAssignLs LParam; BStoreN NParam; BCentroid LParam NParam].

(* self, the two parameters, the local *)
Record bframe := mkBf { b_self : sub; b_n : Z; b_ls : list Z; b_newn : option Z }.

Definition nval (f : bframe) (n : nsrc) : option Z :=
  match n with NParam => Some (b_n f) | NNewN => b_newn f end.
Definition lval (f : bframe) (l : lsrc) : list Z :=
  match l with LParam => b_ls f | LBuffer => sls (b_self f) end.
Definition with_self (f : bframe) (s : sub) : bframe := mkBf s (b_n f) (b_ls f) (b_newn f).

(* The dtype-dependent arithmetic lives HERE: a cast re-wraps every element of the buffer in the new
   width; an in-place add and an assignment happen in the CURRENT width of the buffer. *)
Definition buf_step1 (st : buf_step) (f : bframe) : option bframe :=
  let s := b_self f in
  match st with
  | BBindNewN =>
      match b_newn f with
      | None => Some (mkBf s (b_n f) (b_ls f) (Some (sn s + b_n f)))
      | Some _ => None
      end
  | BCastMinSafe n =>
      match nval f n with
      | Some v =>
          let w := minw v in
          Some (with_self f (mkSub w (wrap w (sn s)) (map (wrap w) (sls s)) (scent s) (sids s)))
      | None => None
      end
  | BAddInPlace l =>
      Some (with_self f (mkSub (sw s) (sn s)
                               (map2 (fun a b => wrap (sw s) (a + b)) (sls s) (lval f l))
                               (scent s) (sids s)))
  | BAssignLs l =>
      Some (with_self f (mkSub (sw s) (sn s) (map (wrap (sw s)) (lval f l)) (scent s) (sids s)))
  | BStoreN n =>
      match nval f n with
      | Some v => Some (with_self f (mkSub (sw s) (wrap (sw s) v) (sls s) (scent s) (sids s)))
      | None => None
      end
  | BCentroid l n =>
      match nval f n with
      | Some v => Some (with_self f (mkSub (sw s) (sn s) (sls s) (centroid_fpv (lval f l) v) (sids s)))
      | None => None
      end
  end.

Fixpoint run_buf (p : list buf_step) (f : bframe) : option bframe :=
  match p with
  | [] => Some f
  | st :: tl => match buf_step1 st f with Some f' => run_buf tl f' | None => None end
  end.

(* self.<method>(n, ls) for a method whose body is the plan p *)
Definition call_buf (p : list buf_step) (self : sub) (n : Z) (ls : list Z) : option sub :=
  match run_buf p (mkBf self n ls None) with Some f => Some (b_self f) | None => None end.

(* ---- update ---- *)
Inductive sub_attr := AtNSamples | AtLinearSum | AtMolIndices.   (* attributes of the argument *)
Inductive upd_step :=
| UAddTo (n ls : sub_attr)   (* self.add_to_n_samples_and_linear_sum(subcluster.<n>, subcluster.<ls>) *)
| UExtendIds (a : sub_attr). (* self.mol_indices.extend(subcluster.<a>) *)

Definition expected_update : list upd_step := [UAddTo AtNSamples AtLinearSum; UExtendIds AtMolIndices].

Definition extend_ids (self arg : sub) : sub :=
  mkSub (sw self) (sn self) (sls self) (scent self) (sids self ++ sids arg).

Definition upd_step1 (add_to : list buf_step) (st : upd_step) (self arg : sub) : option sub :=
  match st with
  | UAddTo AtNSamples AtLinearSum => call_buf add_to self (sn arg) (sls arg)
  | UExtendIds AtMolIndices => Some (extend_ids self arg)
  | _ => None
  end.
Fixpoint run_update (add_to : list buf_step) (p : list upd_step) (self arg : sub) : option sub :=
  match p with
  | [] => Some self
  | st :: tl =>
      match upd_step1 add_to st self arg with Some s' => run_update add_to tl s' arg | None => None end
  end.

(* ---- merge_subcluster ---- *)
Inductive mvar := VOldN | VNomN | VNewN | VOldLs | VNomLs | VNewLs | VThreshold.
Inductive mrhs :=
| RSelfN | RNomN                        (* self.n_samples | nominee_cluster.n_samples *)
| RAddN (a b : mvar)                    (* a + b   (python ints) *)
| RSelfLs | RNomLs                      (* self.linear_sum | nominee_cluster.linear_sum *)
| RNpAddMinSafe (a b : mvar) (n : mvar). (* np.add(a, b, dtype=min_safe_uint(n)) *)
Inductive macc_step :=                  (* the accepted branch *)
| AReplace (n ls : mvar)                (* self.replace_n_samples_and_linear_sum(n, ls) *)
| AExtendIds                            (* self.mol_indices.extend(nominee_cluster.mol_indices) *)
| AReturn (b : bool).
Inductive merge_step :=
| MBind (v : mvar) (e : mrhs)           (* v = e *)
| MIfAccept (args : list mvar) (body : list macc_step)   (* if merge_accept_fn(args...): body *)
| MReturn (b : bool).

Definition expected_accept_args : list mvar :=
  [VThreshold; VNewLs; VNewN; VOldLs; VNomLs; VOldN; VNomN].
Definition expected_merge : list merge_step :=
  [MBind VOldN RSelfN; MBind VNomN RNomN; MBind VNewN (RAddN VOldN VNomN);
   MBind VOldLs RSelfLs; MBind VNomLs RNomLs; MBind VNewLs (RNpAddMinSafe VOldLs VNomLs VNewN);
   MIfAccept expected_accept_args [AReplace VNewN VNewLs; AExtendIds; AReturn true];
   MReturn false].

Definition mvar_tag (v : mvar) : nat :=
  match v with VOldN => 0 | VNomN => 1 | VNewN => 2 | VOldLs => 3 | VNomLs => 4 | VNewLs => 5
             | VThreshold => 6 end%nat.
Definition mvar_eqb (a b : mvar) : bool := Nat.eqb (mvar_tag a) (mvar_tag b).

Record mframe := mkMfr { m_self : sub; m_n : mvar -> option Z; m_l : mvar -> option (list Z) }.

Section Merge.
Variable fexp : float -> float.
Variable c : crit.          (* merge_accept_fn *)
Variable thr : float.       (* threshold *)
Variable replace_plan : list buf_step.
Variable nom : sub.         (* nominee_cluster *)

Definition m_f (v : mvar) : option float := match v with VThreshold => Some thr | _ => None end.

Definition bind_n (f : mframe) (v : mvar) (x : Z) : option mframe :=
  match m_n f v, m_l f v, m_f v with
  | None, None, None =>
      Some (mkMfr (m_self f) (fun u => if mvar_eqb u v then Some x else m_n f u) (m_l f))
  | _, _, _ => None
  end.
Definition bind_l (f : mframe) (v : mvar) (x : list Z) : option mframe :=
  match m_n f v, m_l f v, m_f v with
  | None, None, None =>
      Some (mkMfr (m_self f) (m_n f) (fun u => if mvar_eqb u v then Some x else m_l f u))
  | _, _, _ => None
  end.

(* np.add(a, b, dtype=w): both operands are cast to w, the sum is taken in w *)
Definition np_add_w (w : width) (a b : list Z) : list Z :=
  map2 (fun x y => wrap w (wrap w x + wrap w y)) a b.

Definition bind1 (f : mframe) (v : mvar) (e : mrhs) : option mframe :=
  match e with
  | RSelfN => bind_n f v (sn (m_self f))
  | RNomN => bind_n f v (sn nom)
  | RAddN a b =>
      match m_n f a, m_n f b with Some x, Some y => bind_n f v (x + y) | _, _ => None end
  | RSelfLs => bind_l f v (sls (m_self f))
  | RNomLs => bind_l f v (sls nom)
  | RNpAddMinSafe a b n =>
      match m_l f a, m_l f b, m_n f n with
      | Some x, Some y, Some k => bind_l f v (np_add_w (minw k) x y)
      | _, _, _ => None
      end
  end.

(* result of a run: fell off the end | returned b with self = s *)
Inductive mres := MStuck | MFell (f : mframe) | MRet (s : sub) (b : bool).

Fixpoint run_acc (p : list macc_step) (f : mframe) : mres :=
  match p with
  | [] => MFell f
  | AReplace n ls :: tl =>
      match m_n f n, m_l f ls with
      | Some k, Some l =>
          match call_buf replace_plan (m_self f) k l with
          | Some s' => run_acc tl (mkMfr s' (m_n f) (m_l f))
          | None => MStuck
          end
      | _, _ => MStuck
      end
  | AExtendIds :: tl => run_acc tl (mkMfr (extend_ids (m_self f) nom) (m_n f) (m_l f))
  | AReturn b :: _ => MRet (m_self f) b
  end.

(* merge_accept_fn(threshold, new_ls, new_n, old_ls, nom_ls, old_n, nom_n): the arguments are read
   POSITIONALLY from the extracted list *)
Definition eval_accept (f : mframe) (args : list mvar) : option bool :=
  match args with
  | [a0; a1; a2; a3; a4; a5; a6] =>
      match m_f a0, m_l f a1, m_n f a2, m_l f a3, m_l f a4, m_n f a5, m_n f a6 with
      | Some t, Some l1, Some n2, Some l3, Some l4, Some n5, Some n6 =>
          Some (accept fexp c t l1 n2 l3 l4 n5 n6)
      | _, _, _, _, _, _, _ => None
      end
  | _ => None
  end.

Fixpoint run_merge_steps (p : list merge_step) (f : mframe) : mres :=
  match p with
  | [] => MFell f
  | MBind v e :: tl => match bind1 f v e with Some f' => run_merge_steps tl f' | None => MStuck end
  | MIfAccept args body :: tl =>
      match eval_accept f args with
      | Some true => match run_acc body f with MFell f' => run_merge_steps tl f' | r => r end
      | Some false => run_merge_steps tl f
      | None => MStuck
      end
  | MReturn b :: _ => MRet (m_self f) b
  end.

Definition run_merge (p : list merge_step) (self : sub) : option (sub * bool) :=
  match run_merge_steps p (mkMfr self (fun _ => None) (fun _ => None)) with
  | MRet s b => Some (s, b)
  | _ => None
  end.
End Merge.

(* =====================================================================================
   Stage B — _BFNode.append_subcluster / update_split_subclusters
   ===================================================================================== *)
Inductive ent_src := EArg | ENew1 | ENew2.       (* subcluster | new_subcluster1 | new_subcluster2 *)
Inductive idx_src := IOldLen | IIndexOfOld.      (* the local bound to len(...) | to .index(...) *)
Inductive node_step :=
| NBindOldLen                           (* v = len(self._subclusters) *)
| NBindIndexOfOld                       (* v = self._subclusters.index(subcluster) *)
| NListAppend (x : ent_src)             (* self._subclusters.append(x) *)
| NListSet (i : idx_src) (x : ent_src)  (* self._subclusters[i] = x *)
| NCacheSet (i : idx_src) (x : ent_src) (* self._packed_centroids_buf[i] = x.packed_centroid *)
| NAppendSub (x : ent_src).             (* self.append_subcluster(x) *)

Definition expected_append : list node_step := [NBindOldLen; NListAppend EArg; NCacheSet IOldLen EArg].
Definition expected_update_split : list node_step :=
  [NBindIndexOfOld; NListSet IIndexOfOld ENew1; NCacheSet IIndexOfOld ENew1; NAppendSub ENew2].

Section NodeOps.
Context {E : Type}.
Variable cent : E -> fpv.          (* x.packed_centroid *)

(* the entries, the rows of _packed_centroids_buf written so far (a prefix of the buffer: what lies
   beyond is uninitialised memory), the two locals *)
Record nframe := mkNf { n_es : list E; n_rows : list fpv; n_oldlen : option nat; n_idx : option nat }.

(* writing row i: inside the prefix, or extending it by exactly one row *)
Definition set_row (i : nat) (x : fpv) (rows : list fpv) : option (list fpv) :=
  if Nat.ltb i (length rows) then Some (upd i x rows)
  else if Nat.eqb i (length rows) then Some (rows ++ [x]) else None.

Definition ival (f : nframe) (i : idx_src) : option nat :=
  match i with IOldLen => n_oldlen f | IIndexOfOld => n_idx f end.

Section Run.
Variable call_append : E -> list E * list fpv -> option (list E * list fpv).
Variable k : nat.                  (* where the sub-cluster looked up by .index(...) is *)
Variable arg new1 new2 : option E.

Definition eval (x : ent_src) : option E :=
  match x with EArg => arg | ENew1 => new1 | ENew2 => new2 end.

Definition node_step1 (st : node_step) (f : nframe) : option nframe :=
  match st with
  | NBindOldLen =>
      match n_oldlen f with
      | None => Some (mkNf (n_es f) (n_rows f) (Some (length (n_es f))) (n_idx f))
      | Some _ => None
      end
  | NBindIndexOfOld =>
      match n_idx f with
      | None => if Nat.ltb k (length (n_es f))
                then Some (mkNf (n_es f) (n_rows f) (n_oldlen f) (Some k)) else None
      | Some _ => None
      end
  | NListAppend x =>
      match eval x with
      | Some e => Some (mkNf (n_es f ++ [e]) (n_rows f) (n_oldlen f) (n_idx f))
      | None => None
      end
  | NListSet i x =>
      match ival f i, eval x with
      | Some j, Some e =>
          if Nat.ltb j (length (n_es f))
          then Some (mkNf (upd j e (n_es f)) (n_rows f) (n_oldlen f) (n_idx f)) else None
      | _, _ => None
      end
  | NCacheSet i x =>
      match ival f i, eval x with
      | Some j, Some e =>
          match set_row j (cent e) (n_rows f) with
          | Some r => Some (mkNf (n_es f) r (n_oldlen f) (n_idx f))
          | None => None
          end
      | _, _ => None
      end
  | NAppendSub x =>
      match eval x with
      | Some e =>
          match call_append e (n_es f, n_rows f) with
          | Some (es, r) => Some (mkNf es r (n_oldlen f) (n_idx f))
          | None => None
          end
      | None => None
      end
  end.

Fixpoint run_node_steps (p : list node_step) (f : nframe) : option nframe :=
  match p with
  | [] => Some f
  | st :: tl => match node_step1 st f with Some f' => run_node_steps tl f' | None => None end
  end.

(* at the end the valid part of the cache (as many rows as entries) must have been written *)
Definition run_node (p : list node_step) (st : list E * list fpv) : option (list E * list fpv) :=
  match run_node_steps p (mkNf (fst st) (snd st) None None) with
  | Some f => if Nat.eqb (length (n_rows f)) (length (n_es f)) then Some (n_es f, n_rows f) else None
  | None => None
  end.
End Run.

(* self.append_subcluster(x) *)
Definition call_append_plan (append_plan : list node_step) (x : E) (st : list E * list fpv) :=
  run_node (fun _ _ => None) O (Some x) None None append_plan st.
(* self.update_split_subclusters(<the entry at position k>, x1, x2) *)
Definition call_update_split_plan (append_plan plan : list node_step) (k : nat) (x1 x2 : E)
           (st : list E * list fpv) :=
  run_node (call_append_plan append_plan) k None (Some x1) (Some x2) plan st.
End NodeOps.

(* entries of an inner node as a list *)
Fixpoint ents_list (e : ents) : list (sub * node) :=
  match e with ENil => [] | ECons s ch tl => (s, ch) :: ents_list tl end.
Fixpoint ents_of_list (l : list (sub * node)) : ents :=
  match l with [] => ENil | (s, ch) :: tl => ECons s ch (ents_of_list tl) end.

(* =====================================================================================
   Stage C — _BFNode.insert_bf_subcluster
   ===================================================================================== *)
Inductive cmp := CGt | CGe | CLt | CLe | CEq | CNe.
Inductive ins_arg := GSub | GThreshold | GAcceptFn.   (* subcluster | threshold | merge_accept_fn *)
Inductive ins_ret := RetFalse | RetTrue | RetLenCmpBf (c : cmp).
                                  (* len(self._subclusters) <c> self.branching_factor *)
Inductive row_src :=
| RowOfClosestSub                 (* closest_subcluster.packed_centroid *)
| RowOfEntryAtClosestIdx.         (* self._subclusters[closest_idx].packed_centroid *)
Inductive upd_arg := UInserted | UOther.   (* closest_subcluster.update(subcluster) *)
Inductive ins_step :=
| IIfEmpty (body : list ins_step)       (* if not self._subclusters: *)
| IAppendArg                            (* self.append_subcluster(subcluster) *)
| IReturn (r : ins_ret)
| IBindSims                             (* v = _jt_sim_arr_vec_packed(self.packed_centroids,
                                                                      subcluster.packed_centroid) *)
| IBindClosestIdx                       (* v = np.argmax(<sims>) *)
| IBindClosestSub                       (* v = self._subclusters[<closest_idx>] *)
| IBindClosestNode                      (* v = <closest_subcluster>.child *)
| IIfNoChild (body : list ins_step)     (* if <closest_node> is None: *)
| IBindMerged (args : list ins_arg)     (* v = <closest_subcluster>.merge_subcluster(args...) *)
| IIfNotMerged (body : list ins_step)   (* if not <merged>: *)
| IRefreshClosestRow (r : row_src)      (* self._packed_centroids_buf[<closest_idx>] = r *)
| IBindChildSplit (args : list ins_arg) (* v = <closest_node>.insert_bf_subcluster(args...) *)
| IIfChildSplit (body : list ins_step)  (* if <child_must_be_split>: *)
| ISplitClosestNode                     (* n1, n2 = _split_node(<closest_node>) *)
| IUpdateSplit                          (* self.update_split_subclusters(<closest_subcluster>, n1, n2) *)
| IUpdateClosest (a : upd_arg).         (* <closest_subcluster>.update(subcluster) *)

Definition expected_merge_call_args : list ins_arg := [GSub; GThreshold; GAcceptFn].
Definition expected_insert_call_args : list ins_arg := [GSub; GAcceptFn; GThreshold].
Definition expected_insert : list ins_step :=
  [IIfEmpty [IAppendArg; IReturn RetFalse];
   IBindSims; IBindClosestIdx; IBindClosestSub; IBindClosestNode;
   IIfNoChild [IBindMerged expected_merge_call_args;
               IIfNotMerged [IAppendArg; IReturn (RetLenCmpBf CGt)];
               IRefreshClosestRow RowOfClosestSub; IReturn RetFalse];
   IBindChildSplit expected_insert_call_args;
   IIfChildSplit [ISplitClosestNode; IUpdateSplit; IReturn (RetLenCmpBf CGt)];
   IUpdateClosest UInserted; IRefreshClosestRow RowOfEntryAtClosestIdx; IReturn RetFalse].

(* program-order flattening (for position facts) *)
Fixpoint ins_flat (s : ins_step) : list ins_step :=
  let fl := fix fl (l : list ins_step) : list ins_step :=
              match l with [] => [] | x :: tl => ins_flat x ++ fl tl end in
  match s with
  | IIfEmpty b => IIfEmpty [] :: fl b
  | IIfNoChild b => IIfNoChild [] :: fl b
  | IIfNotMerged b => IIfNotMerged [] :: fl b
  | IIfChildSplit b => IIfChildSplit [] :: fl b
  | x => [x]
  end.
Definition ins_flat_all (l : list ins_step) : list ins_step := flat_map ins_flat l.
Definition ins_tag (s : ins_step) : nat :=
  match s with
  | IIfEmpty _ => 0 | IAppendArg => 1 | IReturn _ => 2 | IBindSims => 3 | IBindClosestIdx => 4
  | IBindClosestSub => 5 | IBindClosestNode => 6 | IIfNoChild _ => 7 | IBindMerged _ => 8
  | IIfNotMerged _ => 9 | IRefreshClosestRow _ => 10 | IBindChildSplit _ => 11
  | IIfChildSplit _ => 12 | ISplitClosestNode => 13 | IUpdateSplit => 14 | IUpdateClosest _ => 15
  end%nat.
Fixpoint ins_positions (t : nat) (i : nat) (l : list ins_step) : list nat :=
  match l with
  | [] => []
  | s :: tl => (if Nat.eqb (ins_tag s) t then [i] else []) ++ ins_positions t (S i) tl
  end.
(* a and b occur exactly once each in the flattened body, a before b *)
Definition ins_once_before (a b : ins_step) (l : list ins_step) : bool :=
  match ins_positions (ins_tag a) 0 (ins_flat_all l), ins_positions (ins_tag b) 0 (ins_flat_all l) with
  | [i], [j] => Nat.ltb i j
  | _, _ => false
  end.

Definition cmp_z (c : cmp) (a b : Z) : bool :=
  match c with
  | CGt => b <? a | CGe => b <=? a | CLt => a <? b | CLe => a <=? b | CEq => a =? b
  | CNe => negb (a =? b)
  end.
Definition cmp_f (c : cmp) (a b : float) : bool :=
  match c with
  | CGt => fgt a b | CGe => fge a b | CLt => flt a b | CLe => fle a b
  | CEq => PrimFloat.eqb a b | CNe => negb (PrimFloat.eqb a b)
  end.

(* =====================================================================================
   Stage D — _split_node
   ===================================================================================== *)
Inductive which := W1 | W2.
Inductive bf_src := BfOfSplitNode | BfOther.      (* node.branching_factor *)
Inductive chain_step :=
| CPrev1FromPrev2        (* node1._prev_leaf = node2._prev_leaf *)
| CNextOfPrev2To1        (* node2._prev_leaf._next_leaf = node1 *)
| CNext1To2              (* node1._next_leaf = node2 *)
| CPrev2To1.             (* node2._prev_leaf = node1 *)
Inductive part_step :=
| LAppendTo (n : which)          (* nodeK.append_subcluster(subcluster) *)
| LUpdateTracking (t : which).   (* new_subclusterK.update(subcluster) *)
Inductive sn_step :=
| DBindNFeatures                 (* v = node.n_features *)
| DBindBf (b : bf_src)           (* v = node.branching_factor *)
| DNewTracking (t : which)       (* new_subclusterK = _BFSubcluster(n_features=<n_features>) *)
| DNewNode1                      (* node1 = _BFNode(<branching_factor>, <n_features>) *)
| DAliasNode2                    (* node2 = node *)
| DSetChild (t : which)          (* new_subclusterK.child = nodeK *)
| DIfLeaf (body : list chain_step)   (* if node2.is_leaf: *)
| DMostDissimilar                (* i1, _, s1, s2 = jt_most_dissimilar_packed(node2.packed_centroids,
                                                                               <n_features>) *)
| DMask (c : cmp)                (* node1_closer = s1 <c> s2 *)
| DForceTrueAtIdx1               (* node1_closer[i1] = True *)
| DCopyEntries                   (* subclusters = node2._subclusters.copy() *)
| DResetNode2                    (* node2._subclusters = [] *)
| DLoop (if_closer1 otherwise : list part_step)
                                 (* for idx, subcluster in enumerate(subclusters):
                                        if node1_closer[idx]: ... else: ... *)
| DReturn (a b : which).         (* return new_subcluster<a>, new_subcluster<b> *)

Definition expected_chain_splice : list chain_step :=
  [CPrev1FromPrev2; CNextOfPrev2To1; CNext1To2; CPrev2To1].
Definition expected_split_node : list sn_step :=
  [DBindNFeatures; DBindBf BfOfSplitNode; DNewTracking W1; DNewTracking W2; DNewNode1; DAliasNode2;
   DSetChild W1; DSetChild W2; DIfLeaf expected_chain_splice; DMostDissimilar; DMask CGt;
   DForceTrueAtIdx1; DCopyEntries; DResetNode2;
   DLoop [LAppendTo W1; LUpdateTracking W1] [LAppendTo W2; LUpdateTracking W2]; DReturn W1 W2].

(* ---- meaning of the mask statements ---- *)
Definition mask_of (c : cmp) (s1 s2 : list float) : list bool := map2 (cmp_f c) s1 s2.
Definition force_true (i : nat) (m : list bool) : list bool := upd i true m.

(* ---- meaning of the redistribution loop (on an entry type E) ---- *)
Section Part.
Context {E : Type}.
Variable esub : E -> sub.              (* the sub-cluster of an entry *)
Variable update_plan : list upd_step.
Variable add_to_plan : list buf_step.
Variable append_plan : list node_step.

(* node1, node2 (entries + cache rows), the two tracking sub-clusters *)
Record pframe := mkPf { p_n1 : list E * list fpv; p_n2 : list E * list fpv; p_t1 : sub; p_t2 : sub }.

Definition part_step1 (st : part_step) (e : E) (f : pframe) : option pframe :=
  match st with
  | LAppendTo W1 =>
      match call_append_plan (fun x => scent (esub x)) append_plan e (p_n1 f) with
      | Some n => Some (mkPf n (p_n2 f) (p_t1 f) (p_t2 f)) | None => None end
  | LAppendTo W2 =>
      match call_append_plan (fun x => scent (esub x)) append_plan e (p_n2 f) with
      | Some n => Some (mkPf (p_n1 f) n (p_t1 f) (p_t2 f)) | None => None end
  | LUpdateTracking W1 =>
      match run_update add_to_plan update_plan (p_t1 f) (esub e) with
      | Some t => Some (mkPf (p_n1 f) (p_n2 f) t (p_t2 f)) | None => None end
  | LUpdateTracking W2 =>
      match run_update add_to_plan update_plan (p_t2 f) (esub e) with
      | Some t => Some (mkPf (p_n1 f) (p_n2 f) (p_t1 f) t) | None => None end
  end.
Fixpoint run_part_body (p : list part_step) (e : E) (f : pframe) : option pframe :=
  match p with
  | [] => Some f
  | st :: tl => match part_step1 st e f with Some f' => run_part_body tl e f' | None => None end
  end.
(* for idx, subcluster in enumerate(subclusters): if node1_closer[idx]: A else: B *)
Fixpoint run_part_loop (a b : list part_step) (m : list bool) (es : list E) (f : pframe)
  : option pframe :=
  match m, es with
  | c :: m', e :: es' =>
      match run_part_body (if c then a else b) e f with
      | Some f' => run_part_loop a b m' es' f'
      | None => None
      end
  | _, _ => Some f
  end.
End Part.

(* ---- meaning of the leaf-chain splice: leaves are linked by _prev_leaf / _next_leaf ---- *)
Record links := mkLk { lk_prev : nat -> option nat; lk_next : nat -> option nat }.
Definition set_at (g : nat -> option nat) (i : nat) (v : option nat) : nat -> option nat :=
  fun j => if Nat.eqb j i then v else g j.
(* node1 = the new leaf (id n1), node2 = the split leaf (id n2) *)
Definition chain_step1 (n1 n2 : nat) (st : chain_step) (l : links) : option links :=
  match st with
  | CPrev1FromPrev2 => Some (mkLk (set_at (lk_prev l) n1 (lk_prev l n2)) (lk_next l))
  | CNextOfPrev2To1 =>
      match lk_prev l n2 with
      | Some p => Some (mkLk (lk_prev l) (set_at (lk_next l) p (Some n1)))
      | None => None        (* AttributeError on None *)
      end
  | CNext1To2 => Some (mkLk (lk_prev l) (set_at (lk_next l) n1 (Some n2)))
  | CPrev2To1 => Some (mkLk (set_at (lk_prev l) n2 (Some n1)) (lk_next l))
  end.
Fixpoint run_chain (n1 n2 : nat) (p : list chain_step) (l : links) : option links :=
  match p with
  | [] => Some l
  | st :: tl => match chain_step1 n1 n2 st l with Some l' => run_chain n1 n2 tl l' | None => None end
  end.
(* walking _next_leaf from a leaf, at most `fuel` steps *)
Fixpoint walk_next (l : links) (fuel : nat) (i : nat) : list nat :=
  match fuel with
  | O => []
  | S f => i :: match lk_next l i with Some j => walk_next l f j | None => [] end
  end.

(* =====================================================================================
   Stage C — the meaning of the insert skeleton on the tree model
   ===================================================================================== *)
Fixpoint ents_nth (es : ents) (k : nat) : option (sub * node) :=
  match es, k with
  | ENil, _ => None
  | ECons e ch _, O => Some (e, ch)
  | ECons _ _ tl, S k' => ents_nth tl k'
  end.
Fixpoint ents_upd (k : nat) (e : sub) (ch : node) (es : ents) : ents :=
  match es, k with
  | ENil, _ => ENil
  | ECons _ _ tl, O => ECons e ch tl
  | ECons e' c' tl, S k' => ECons e' c' (ents_upd k' e ch tl)
  end.
Definition node_len (nd : node) : nat :=
  match nd with Leaf _ _ es _ => length es | Inner _ es _ => ents_len es end.
Definition node_cache (nd : node) : list fpv :=
  match nd with Leaf _ _ _ cc => cc | Inner _ _ cc => cc end.
Definition ins_arg_tag (a : ins_arg) : nat :=
  match a with GSub => 0 | GThreshold => 1 | GAcceptFn => 2 end%nat.
Definition ins_args_eqb (a b : list ins_arg) : bool :=
  list_eqb (fun x y => Nat.eqb (ins_arg_tag x) (ins_arg_tag y)) a b.

(* self (with the leaf chain) and the locals *)
Record iframe := mkIfr {
  i_node : node; i_ax : aux;
  i_sims : option (list float);           (* sim_matrix *)
  i_ci : option nat;                      (* closest_idx *)
  i_csub : bool;                          (* closest_subcluster bound (= entry closest_idx) *)
  i_cnode : bool;                         (* closest_node bound (= its child) *)
  i_merged : option bool;                 (* merge_was_successful *)
  i_csplit : option bool;                 (* child_must_be_split *)
  i_new : option ((sub * node) * (sub * node))   (* new_subcluster1, new_subcluster2 *)
}.
Inductive ires := IStuck | IRun (f : iframe) | IRet (nd : node) (b : bool) (ax : aux).

Section Insert.
Variable fexp : float -> float.
Variable nf : nat.
Variable c : crit.                        (* merge_accept_fn *)
Variable thr : float.                     (* threshold *)
(* the bodies of the methods called *)
Variable p_add_to p_replace : list buf_step.
Variable p_update : list upd_step.
Variable p_merge : list merge_step.
Variable p_append p_update_split : list node_step.
(* closest_node.insert_bf_subcluster(subcluster, merge_accept_fn, threshold) *)
Variable rec : node -> sub -> aux -> node * bool * aux.
Variable s : sub.                         (* subcluster *)

Definition set_node (f : iframe) (nd : node) : iframe :=
  mkIfr nd (i_ax f) (i_sims f) (i_ci f) (i_csub f) (i_cnode f) (i_merged f) (i_csplit f) (i_new f).

Definition ins_return (r : ins_ret) (f : iframe) : ires :=
  let nd := i_node f in
  IRet nd (match r with
           | RetFalse => false | RetTrue => true
           | RetLenCmpBf cm => cmp_z cm (Z.of_nat (node_len nd)) (node_bf nd)
           end) (i_ax f).

Definition ins_simple (st : ins_step) (f : iframe) : ires :=
  let nd := i_node f in
  match st with
  | IAppendArg =>
      match nd with
      | Leaf id bf es cache =>
          match call_append_plan scent p_append s (es, cache) with
          | Some (es', cache') => IRun (set_node f (Leaf id bf es' cache'))
          | None => IStuck
          end
      | Inner _ _ _ => IStuck      (* the inserted sub-cluster has no child *)
      end
  | IReturn r => ins_return r f
  | IBindSims =>
      match i_sims f with
      | None => IRun (mkIfr nd (i_ax f) (Some (map (fun cv => sim cv (scent s)) (node_cache nd)))
                            (i_ci f) (i_csub f) (i_cnode f) (i_merged f) (i_csplit f) (i_new f))
      | Some _ => IStuck
      end
  | IBindClosestIdx =>
      match i_sims f, i_ci f with
      | Some l, None => IRun (mkIfr nd (i_ax f) (i_sims f) (Some (argmax_f l)) (i_csub f) (i_cnode f)
                                    (i_merged f) (i_csplit f) (i_new f))
      | _, _ => IStuck
      end
  | IBindClosestSub =>
      match i_ci f with
      | Some i => if Nat.ltb i (node_len nd)
                  then IRun (mkIfr nd (i_ax f) (i_sims f) (i_ci f) true (i_cnode f) (i_merged f)
                                   (i_csplit f) (i_new f))
                  else IStuck
      | None => IStuck
      end
  | IBindClosestNode =>
      if i_csub f then IRun (mkIfr nd (i_ax f) (i_sims f) (i_ci f) (i_csub f) true (i_merged f)
                                   (i_csplit f) (i_new f))
      else IStuck
  | IBindMerged args =>
      match nd, i_ci f, i_csub f && ins_args_eqb args expected_merge_call_args with
      | Leaf id bf es cache, Some i, true =>
          match run_merge fexp c thr p_replace s p_merge (nth i es s) with
          | Some (m, b) =>
              IRun (mkIfr (Leaf id bf (upd i m es) cache) (i_ax f) (i_sims f) (i_ci f) (i_csub f)
                          (i_cnode f) (Some b) (i_csplit f) (i_new f))
          | None => IStuck
          end
      | _, _, _ => IStuck
      end
  | IRefreshClosestRow _ =>
      match i_ci f, i_csub f with
      | Some i, true =>
          match nd with
          | Leaf id bf es cache =>
              IRun (set_node f (Leaf id bf es (upd i (scent (nth i es s)) cache)))
          | Inner bf es cache =>
              match ents_nth es i with
              | Some (e, _) => IRun (set_node f (Inner bf es (upd i (scent e) cache)))
              | None => IStuck
              end
          end
      | _, _ => IStuck
      end
  | IBindChildSplit args =>
      match nd, i_ci f, i_cnode f && ins_args_eqb args expected_insert_call_args with
      | Inner bf es cache, Some i, true =>
          match ents_nth es i with
          | Some (e, ch) =>
              let '(ch', sp, ax1) := rec ch s (i_ax f) in
              IRun (mkIfr (Inner bf (ents_upd i e ch' es) cache) ax1 (i_sims f) (i_ci f) (i_csub f)
                          (i_cnode f) (i_merged f) (Some sp) (i_new f))
          | None => IStuck
          end
      | _, _, _ => IStuck
      end
  | ISplitClosestNode =>
      match nd, i_ci f, i_cnode f with
      | Inner bf es cache, Some i, true =>
          match ents_nth es i with
          | Some (e, ch) =>
              let '(p1, p2, ax2) := split_node nf ch (i_ax f) in
              IRun (mkIfr nd ax2 (i_sims f) (i_ci f) (i_csub f) (i_cnode f) (i_merged f)
                          (i_csplit f) (Some (p1, p2)))
          | None => IStuck
          end
      | _, _, _ => IStuck
      end
  | IUpdateSplit =>
      match nd, i_ci f, i_csub f, i_new f with
      | Inner bf es cache, Some i, true, Some (x1, x2) =>
          match call_update_split_plan (fun x : sub * node => scent (fst x)) p_append p_update_split
                  i x1 x2 (ents_list es, cache) with
          | Some (l, rows) => IRun (set_node f (Inner bf (ents_of_list l) rows))
          | None => IStuck
          end
      | _, _, _, _ => IStuck
      end
  | IUpdateClosest UInserted =>
      match nd, i_ci f, i_csub f with
      | Inner bf es cache, Some i, true =>
          match ents_nth es i with
          | Some (e, ch) =>
              match run_update p_add_to p_update e s with
              | Some e' => IRun (set_node f (Inner bf (ents_upd i e' ch es) cache))
              | None => IStuck
              end
          | None => IStuck
          end
      | _, _, _ => IStuck
      end
  | _ => IStuck
  end.

Fixpoint ins_step1 (st : ins_step) (f : iframe) {struct st} : ires :=
  let run := fix run (l : list ins_step) (f : iframe) : ires :=
               match l with
               | [] => IRun f
               | x :: tl => match ins_step1 x f with IRun f' => run tl f' | r => r end
               end in
  match st with
  | IIfEmpty body => if Nat.eqb (node_len (i_node f)) 0 then run body f else IRun f
  | IIfNoChild body =>
      if i_cnode f then match i_node f with Leaf _ _ _ _ => run body f | Inner _ _ _ => IRun f end
      else IStuck
  | IIfNotMerged body =>
      match i_merged f with Some false => run body f | Some true => IRun f | None => IStuck end
  | IIfChildSplit body =>
      match i_csplit f with Some true => run body f | Some false => IRun f | None => IStuck end
  | x => ins_simple x f
  end.
Fixpoint run_ins (l : list ins_step) (f : iframe) : ires :=
  match l with
  | [] => IRun f
  | x :: tl => match ins_step1 x f with IRun f' => run_ins tl f' | r => r end
  end.

(* self.insert_bf_subcluster(subcluster, merge_accept_fn, threshold) with body p *)
Definition run_insert (p : list ins_step) (nd : node) (ax : aux) : option (node * bool * aux) :=
  match run_ins p (mkIfr nd ax None None false false None None None) with
  | IRet nd' b ax' => Some (nd', b, ax')
  | _ => None
  end.
End Insert.

(* =====================================================================================
   Stage D — the meaning of the _split_node skeleton (on an entry type E: sub-clusters of a leaf, or
   (sub-cluster, child) pairs of an inner node)
   ===================================================================================== *)
Definition chain_tag (s : chain_step) : nat :=
  match s with CPrev1FromPrev2 => 0 | CNextOfPrev2To1 => 1 | CNext1To2 => 2 | CPrev2To1 => 3 end%nat.
Definition chain_steps_eqb (a b : list chain_step) : bool :=
  list_eqb (fun x y => Nat.eqb (chain_tag x) (chain_tag y)) a b.

Section SplitMeaning.
Context {E : Type}.
Variable esub : E -> sub.
Variable p_update : list upd_step.
Variable p_add_to : list buf_step.
Variable p_append : list node_step.
Variable nf : nat.                 (* node.n_features *)
Variable leaf_id : option nat.     (* Some id: node is a leaf (is_leaf) *)
Variable bf0 : Z.                  (* node.branching_factor *)
Variable newid : nat.              (* identity of the node allocated by _BFNode(...) *)

Record dframe := mkDf {
  d_nf : option nat;                          (* n_features *)
  d_bf : option Z;                            (* branching_factor *)
  d_t1 : option sub; d_t2 : option sub;       (* new_subcluster1 / 2 *)
  d_n1 : option (Z * (list E * list fpv));    (* node1: its branching factor, entries, rows *)
  d_n2 : bool;                                (* node2 bound (alias of node) *)
  d_es2 : list E * list fpv;                  (* entries and rows of node (= node2) *)
  d_ch1 : bool; d_ch2 : bool;                 (* new_subclusterK.child = nodeK done *)
  d_chain : list nat;                         (* the leaf chain *)
  d_md : option (nat * list float * list float);   (* node1_idx, node1_sim, node2_sim *)
  d_mask : option (list bool);                (* node1_closer *)
  d_copy : option (list E)                    (* subclusters *)
}.
(* returned: (tracking1, node1), (tracking2, node2), the chain *)
Definition dout : Type :=
  (sub * (Z * (list E * list fpv))) * (sub * (Z * (list E * list fpv))) * list nat.
Inductive dres := DStuck | DRun (f : dframe) | DRet (o : dout).

Definition sn_step1 (st : sn_step) (f : dframe) : dres :=
  match st with
  | DBindNFeatures =>
      DRun (mkDf (Some nf) (d_bf f) (d_t1 f) (d_t2 f) (d_n1 f) (d_n2 f) (d_es2 f) (d_ch1 f) (d_ch2 f)
                 (d_chain f) (d_md f) (d_mask f) (d_copy f))
  | DBindBf BfOfSplitNode =>
      DRun (mkDf (d_nf f) (Some bf0) (d_t1 f) (d_t2 f) (d_n1 f) (d_n2 f) (d_es2 f) (d_ch1 f) (d_ch2 f)
                 (d_chain f) (d_md f) (d_mask f) (d_copy f))
  | DBindBf BfOther => DStuck
  | DNewTracking W1 =>
      match d_nf f with
      | Some n => DRun (mkDf (d_nf f) (d_bf f) (Some (empty_sub n)) (d_t2 f) (d_n1 f) (d_n2 f) (d_es2 f)
                             (d_ch1 f) (d_ch2 f) (d_chain f) (d_md f) (d_mask f) (d_copy f))
      | None => DStuck
      end
  | DNewTracking W2 =>
      match d_nf f with
      | Some n => DRun (mkDf (d_nf f) (d_bf f) (d_t1 f) (Some (empty_sub n)) (d_n1 f) (d_n2 f) (d_es2 f)
                             (d_ch1 f) (d_ch2 f) (d_chain f) (d_md f) (d_mask f) (d_copy f))
      | None => DStuck
      end
  | DNewNode1 =>
      match d_bf f, d_nf f with
      | Some b, Some _ =>
          DRun (mkDf (d_nf f) (d_bf f) (d_t1 f) (d_t2 f) (Some (b, ([], []))) (d_n2 f) (d_es2 f)
                     (d_ch1 f) (d_ch2 f) (d_chain f) (d_md f) (d_mask f) (d_copy f))
      | _, _ => DStuck
      end
  | DAliasNode2 =>
      DRun (mkDf (d_nf f) (d_bf f) (d_t1 f) (d_t2 f) (d_n1 f) true (d_es2 f) (d_ch1 f) (d_ch2 f)
                 (d_chain f) (d_md f) (d_mask f) (d_copy f))
  | DSetChild W1 =>
      match d_t1 f, d_n1 f with
      | Some _, Some _ =>
          DRun (mkDf (d_nf f) (d_bf f) (d_t1 f) (d_t2 f) (d_n1 f) (d_n2 f) (d_es2 f) true (d_ch2 f)
                     (d_chain f) (d_md f) (d_mask f) (d_copy f))
      | _, _ => DStuck
      end
  | DSetChild W2 =>
      match d_t2 f, d_n2 f with
      | Some _, true =>
          DRun (mkDf (d_nf f) (d_bf f) (d_t1 f) (d_t2 f) (d_n1 f) (d_n2 f) (d_es2 f) (d_ch1 f) true
                     (d_chain f) (d_md f) (d_mask f) (d_copy f))
      | _, _ => DStuck
      end
  | DIfLeaf body =>
      match d_n1 f, d_n2 f with
      | Some _, true =>
          match leaf_id with
          | Some id =>
              (* the four pointer assignments as a block: see chain_splice_expected *)
              if chain_steps_eqb body expected_chain_splice
              then DRun (mkDf (d_nf f) (d_bf f) (d_t1 f) (d_t2 f) (d_n1 f) (d_n2 f) (d_es2 f) (d_ch1 f)
                              (d_ch2 f) (chain_ins_before id newid (d_chain f)) (d_md f) (d_mask f)
                              (d_copy f))
              else DStuck
          | None => DRun f
          end
      | _, _ => DStuck
      end
  | DMostDissimilar =>
      match d_nf f, d_n2 f with
      | Some n, true =>
          let r := most_dissimilar n (snd (d_es2 f)) in
          DRun (mkDf (d_nf f) (d_bf f) (d_t1 f) (d_t2 f) (d_n1 f) (d_n2 f) (d_es2 f) (d_ch1 f) (d_ch2 f)
                     (d_chain f) (Some (fst (fst (fst r)), snd (fst r), snd r)) (d_mask f) (d_copy f))
      | _, _ => DStuck
      end
  | DMask cm =>
      match d_md f with
      | Some (_, s1, s2) =>
          DRun (mkDf (d_nf f) (d_bf f) (d_t1 f) (d_t2 f) (d_n1 f) (d_n2 f) (d_es2 f) (d_ch1 f) (d_ch2 f)
                     (d_chain f) (d_md f) (Some (mask_of cm s1 s2)) (d_copy f))
      | None => DStuck
      end
  | DForceTrueAtIdx1 =>
      match d_md f, d_mask f with
      | Some (f1, _, _), Some m =>
          DRun (mkDf (d_nf f) (d_bf f) (d_t1 f) (d_t2 f) (d_n1 f) (d_n2 f) (d_es2 f) (d_ch1 f) (d_ch2 f)
                     (d_chain f) (d_md f) (Some (force_true f1 m)) (d_copy f))
      | _, _ => DStuck
      end
  | DCopyEntries =>
      if d_n2 f
      then DRun (mkDf (d_nf f) (d_bf f) (d_t1 f) (d_t2 f) (d_n1 f) (d_n2 f) (d_es2 f) (d_ch1 f) (d_ch2 f)
                      (d_chain f) (d_md f) (d_mask f) (Some (fst (d_es2 f))))
      else DStuck
  | DResetNode2 =>
      if d_n2 f
      then DRun (mkDf (d_nf f) (d_bf f) (d_t1 f) (d_t2 f) (d_n1 f) (d_n2 f) ([], []) (d_ch1 f) (d_ch2 f)
                      (d_chain f) (d_md f) (d_mask f) (d_copy f))
      else DStuck
  | DLoop a b =>
      match d_mask f, d_copy f, d_n1 f, d_t1 f, d_t2 f with
      | Some m, Some es, Some (b1, n1), Some t1, Some t2 =>
          match run_part_loop esub p_update p_add_to p_append a b m es (mkPf n1 (d_es2 f) t1 t2) with
          | Some r =>
              DRun (mkDf (d_nf f) (d_bf f) (Some (p_t1 r)) (Some (p_t2 r)) (Some (b1, p_n1 r)) (d_n2 f)
                         (p_n2 r) (d_ch1 f) (d_ch2 f) (d_chain f) (d_md f) (d_mask f) (d_copy f))
          | None => DStuck
          end
      | _, _, _, _, _ => DStuck
      end
  | DReturn W1 W2 =>
      match d_t1 f, d_t2 f, d_n1 f, d_ch1 f && d_ch2 f with
      | Some t1, Some t2, Some n1, true => DRet ((t1, n1), (t2, (bf0, d_es2 f)), d_chain f)
      | _, _, _, _ => DStuck
      end
  | DReturn _ _ => DStuck
  end.

Fixpoint run_sn (p : list sn_step) (f : dframe) : dres :=
  match p with
  | [] => DRun f
  | st :: tl => match sn_step1 st f with DRun f' => run_sn tl f' | r => r end
  end.
Definition run_split_node (p : list sn_step) (es : list E) (rows : list fpv) (chain0 : list nat)
  : option dout :=
  match run_sn p (mkDf None None None None None false (es, rows) false false chain0 None None None) with
  | DRet o => Some o
  | _ => None
  end.
End SplitMeaning.
