(* Tree.v — sub-clusters and the CF-tree (hand model of _BFSubcluster, _BFNode,
   _split_node in bblean/bitbirch.py).  Caches and counter widths are data. *)
From BB Require Export Model.Merges.
Open Scope Z_scope.

(* ---------- sub-clusters ---------- *)
Record sub := mkSub {
  sw : width;        (* dtype of _buffer *)
  sn : Z;            (* _buffer[-1] *)
  sls : list Z;      (* _buffer[:-1] *)
  scent : fpv;       (* packed_centroid (cached; modelled unpacked) *)
  sids : list Z      (* mol_indices *)
}.

Definition minw (n : Z) : width :=
  match np_min_scalar_type n with Some w => w | None => W64 end.

Definition singleton (fp : fpv) (id : Z) : sub :=
  mkSub W8 1 (map b2z fp) fp [id].
Definition empty_sub (nf : nat) : sub := mkSub W8 0 (repeat 0 nf) [] [].
(* _BFSubcluster(buffer=buf, mol_indices=idxs) *)
Definition sub_of_buffer (w : width) (ls : list Z) (n : Z) (ids : list Z) : sub :=
  mkSub w n ls (centroid_fpv ls n) ids.

(* add_to_n_samples_and_linear_sum + mol_indices.extend  (= update) *)
Definition upd_sub (s t : sub) : sub :=
  let n := sn s + sn t in
  let w := minw n in
  let ls := map2 (fun a b => wrap w (wrap w a + b)) (sls s) (sls t) in
  mkSub w (wrap w n) ls (centroid_fpv ls n) (sids s ++ sids t).

Section WithCfg.
Variable fexp : float -> float.

(* merge_subcluster *)
Definition merge_sub (c : crit) (thr : float) (s t : sub) : option sub :=
  let n := sn s + sn t in
  let w := minw n in
  let ls := map2 (fun a b => wrap w (wrap w a + wrap w b)) (sls s) (sls t) in
  if accept fexp c thr ls n (sls s) (sls t) (sn s) (sn t)
  then Some (mkSub w (wrap w n) (map (wrap w) ls) (centroid_fpv ls n) (sids s ++ sids t))
  else None.

(* ---------- nodes ---------- *)
Inductive node :=
| Leaf (id : nat) (bf : Z) (es : list sub) (cache : list fpv)
| Inner (bf : Z) (es : ents) (cache : list fpv)
with ents := ENil | ECons (s : sub) (child : node) (tl : ents).

Fixpoint ents_len (e : ents) : nat :=
  match e with ENil => O | ECons _ _ tl => S (ents_len tl) end.
Fixpoint ents_app1 (e : ents) (s : sub) (ch : node) : ents :=
  match e with
  | ENil => ECons s ch ENil
  | ECons s' c' tl => ECons s' c' (ents_app1 tl s ch)
  end.
Fixpoint ents_subs (e : ents) : list sub :=
  match e with ENil => [] | ECons s _ tl => s :: ents_subs tl end.
Definition node_bf (nd : node) : Z :=
  match nd with Leaf _ b _ _ => b | Inner b _ _ => b end.

Record aux := mkAux { nid : nat; chain : list nat }.
Fixpoint chain_ins_before (x newid : nat) (l : list nat) : list nat :=
  match l with
  | [] => []
  | y :: tl => if Nat.eqb y x then newid :: y :: tl else y :: chain_ins_before x newid tl
  end.

(* node1_closer = sim1 > sim2, forced True at node1_idx *)
Fixpoint split_mask (i f1 : nat) (s1 s2 : list float) : list bool :=
  match s1, s2 with
  | a :: s1', b :: s2' => (Nat.eqb i f1 || fgt a b) :: split_mask (S i) f1 s1' s2'
  | _, _ => []
  end.

Section Split.
Variable nf : nat.

Fixpoint part_leaf (m : list bool) (es : list sub)
         (a1 a2 : list sub) (c1 c2 : list fpv) (t1 t2 : sub) :=
  match m, es with
  | b :: m', s :: es' =>
      if b then part_leaf m' es' (a1 ++ [s]) a2 (c1 ++ [scent s]) c2 (upd_sub t1 s) t2
      else part_leaf m' es' a1 (a2 ++ [s]) c1 (c2 ++ [scent s]) t1 (upd_sub t2 s)
  | _, _ => (a1, a2, c1, c2, t1, t2)
  end.
Fixpoint part_inner (m : list bool) (es : ents)
         (a1 a2 : ents) (c1 c2 : list fpv) (t1 t2 : sub) :=
  match m, es with
  | b :: m', ECons s ch es' =>
      if b then part_inner m' es' (ents_app1 a1 s ch) a2 (c1 ++ [scent s]) c2 (upd_sub t1 s) t2
      else part_inner m' es' a1 (ents_app1 a2 s ch) c1 (c2 ++ [scent s]) t1 (upd_sub t2 s)
  | _, _ => (a1, a2, c1, c2, t1, t2)
  end.

(* _split_node: returns (tracking1, node1), (tracking2, node2) *)
Definition split_node (nd : node) (ax : aux) : (sub * node) * (sub * node) * aux :=
  match nd with
  | Leaf id bf es cache =>
      let '(f1, _, s1, s2) := most_dissimilar nf cache in
      let m := split_mask 0 f1 s1 s2 in
      let '(a1, a2, c1, c2, t1, t2) :=
        part_leaf m es [] [] [] [] (empty_sub nf) (empty_sub nf) in
      let newid := nid ax in
      ((t1, Leaf newid bf a1 c1), (t2, Leaf id bf a2 c2),
       mkAux (S newid) (chain_ins_before id newid (chain ax)))
  | Inner bf es cache =>
      let '(f1, _, s1, s2) := most_dissimilar nf cache in
      let m := split_mask 0 f1 s1 s2 in
      let '(a1, a2, c1, c2, t1, t2) :=
        part_inner m es ENil ENil [] [] (empty_sub nf) (empty_sub nf) in
      ((t1, Inner bf a1 c1), (t2, Inner bf a2 c2), ax)
  end.

Variable c : crit.
Variable thr : float.

(* insert_bf_subcluster; the boolean is "this node must be split" *)
Fixpoint insert (nd : node) (s : sub) (ax : aux) {struct nd} : node * bool * aux :=
  match nd with
  | Leaf id bf es cache =>
      match es with
      | [] => (Leaf id bf [s] [scent s], false, ax)
      | _ =>
          let i := argmax_f (map (fun cv => sim cv (scent s)) cache) in
          match merge_sub c thr (nth i es s) s with
          | Some m => (Leaf id bf (upd i m es) (upd i (scent m) cache), false, ax)
          | None =>
              (Leaf id bf (es ++ [s]) (cache ++ [scent s]),
               bf <? Z.of_nat (S (length es)), ax)
          end
      end
  | Inner bf es cache =>
      let i := argmax_f (map (fun cv => sim cv (scent s)) cache) in
      let '(es', cache', ax') := insert_ents es i s cache ax in
      (Inner bf es' cache', bf <? Z.of_nat (ents_len es'), ax')
  end
(* walk to entry k; the cache rows are walked along with the entries, so that row k is
   rewritten in place and a split appends one row at the end *)
with insert_ents (es : ents) (k : nat) (s : sub) (cache : list fpv) (ax : aux)
     {struct es} : ents * list fpv * aux :=
  match es with
  | ENil => (ENil, cache, ax)
  | ECons e ch tl =>
      match k with
      | S k' =>
          let '(tl', ctl', ax') := insert_ents tl k' s (List.tl cache) ax in
          (ECons e ch tl', firstn 1 cache ++ ctl', ax')
      | O =>
          let '(ch', sp, ax1) := insert ch s ax in
          if sp then
            let '((t1, n1), (t2, n2), ax2) := split_node ch' ax1 in
            (ECons t1 n1 (ents_app1 tl t2 n2),
             scent t1 :: (List.tl cache ++ [scent t2]), ax2)
          else
            let e' := upd_sub e s in
            (ECons e' ch' tl, scent e' :: List.tl cache, ax1)
      end
  end.

(* one top-level insertion incl. root split (fit / _fit_buffers loop body) *)
Definition insert_root (bf : Z) (root : node) (s : sub) (ax : aux) : node * aux :=
  let '(r, sp, ax1) := insert root s ax in
  if sp then
    let '((t1, n1), (t2, n2), ax2) := split_node r ax1 in
    (Inner bf (ECons t1 n1 (ECons t2 n2 ENil)) [scent t1; scent t2], ax2)
  else (r, ax1).
End Split.
End WithCfg.

(* ---------- reading the tree ---------- *)
Fixpoint find_leaf (nd : node) (id : nat) : option (list sub) :=
  match nd with
  | Leaf id' _ es _ => if Nat.eqb id id' then Some es else None
  | Inner _ es _ => find_leaf_ents es id
  end
with find_leaf_ents (es : ents) (id : nat) : option (list sub) :=
  match es with
  | ENil => None
  | ECons _ ch tl =>
      match find_leaf ch id with Some r => Some r | None => find_leaf_ents tl id end
  end.

Definition leaf_subs (root : node) (ch : list nat) : list sub :=
  flat_map (fun id => match find_leaf root id with Some es => es | None => [] end) ch.

(* stable descending sort by n  (list.sort(key=n_samples, reverse=True)) *)
Fixpoint ins_desc (x : sub) (l : list sub) : list sub :=
  match l with
  | [] => [x]
  | y :: tl => if sn y <=? sn x then x :: y :: tl else y :: ins_desc x tl
  end.
Definition sort_desc (l : list sub) : list sub := fold_right ins_desc [] l.
