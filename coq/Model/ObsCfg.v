(* ObsCfg.v — observation/check functions for the `config` correspondence suite. *)
From BB Require Export Model.Config Model.ObsBits.
Open Scope Z_scope.

Inductive cfgop :=
| CSet (a : critarg) (tol thr : option float) (bf : option Z)
| CSetCritProp (n : cname)
| CSetTolProp (t : float)
| CSetThrAttr (t : float).

Record cobs := mkCobs {
  co_ok : bool; co_name : cname; co_tol : option float; co_thr : float; co_bf : Z;
  co_probes : list bool
}.

Definition cname_eqb (a b : cname) : bool :=
  match a, b with
  | NRadius, NRadius | NDiameter, NDiameter | NTolLegacy, NTolLegacy
  | NTolDiameter, NTolDiameter | NTolRadius, NTolRadius | NNever, NNever
  | NUnknown, NUnknown => true
  | _, _ => false
  end.
Definition optf_eqb (a b : option float) : bool :=
  match a, b with Some x, Some y => feq_bits x y | None, None => true | _, _ => false end.

Section WithExp.
Variable fexp : float -> float.

Definition probe_args : list (list Z * Z * list Z * list Z * Z * Z) :=
  [ ([2; 2; 0; 1], 2, [1; 1; 0; 1], [1; 1; 0; 0], 1, 1);
    ([3; 1; 2; 0], 3, [2; 1; 1; 0], [1; 0; 1; 0], 2, 1);
    ([5; 4; 1; 3; 0; 2], 6, [4; 4; 0; 3; 0; 1], [1; 0; 1; 0; 0; 1], 5, 1);
    ([1; 1; 1; 1], 2, [1; 1; 0; 0], [0; 0; 1; 1], 1, 1);
    ([0; 1; 2; 2], 3, [0; 0; 1; 2], [0; 1; 1; 0], 2, 1);
    ([0; 1; 2; 4], 4, [0; 0; 2; 3], [0; 1; 0; 1], 3, 1) ].

Definition probes (cf : config) : list bool :=
  map (fun p => let '(nl, nn, ol, ml, on, mn) := p in
                accept fexp (c_crit cf) (c_thr cf) nl nn ol ml on mn) probe_args.

Definition cobs_ok (cf : config) (ok : bool) (e : cobs) : bool :=
  Bool.eqb ok (co_ok e) && cname_eqb (get_criterion cf) (co_name e)
  && optf_eqb (get_tolerance cf) (co_tol e) && feq_bits (c_thr cf) (co_thr e)
  && (c_bf cf =? co_bf e) && list_eqb Bool.eqb (probes cf) (co_probes e).

Definition apply_cfgop (cf : config) (o : cfgop) : config * bool :=
  let r := match o with
           | CSet a tol thr bf => set_merge fexp None cf a tol thr bf
           | CSetCritProp n => set_criterion_prop fexp None cf n
           | CSetTolProp t => set_tolerance_prop fexp None cf t
           | CSetThrAttr t => Some (mkCfg (c_crit cf) t (c_bf cf))
           end in
  match r with Some cf' => (cf', true) | None => (cf, false) end.

Fixpoint check_cfg_seq (cf : config) (l : list (cfgop * cobs)) (i : Z) : Z :=
  match l with
  | [] => -1
  | (o, e) :: tl =>
      let '(cf', ok) := apply_cfgop cf o in
      if cobs_ok cf' ok e then check_cfg_seq cf' tl (i + 1) else i
  end.

(* constructor outcome first: expected None = ValueError *)
Definition check_cfg (thr : float) (bf : Z) (a : critarg) (tol : option float)
           (e0 : option cobs) (l : list (cfgop * cobs)) : Z :=
  match ctor fexp None thr bf a tol, e0 with
  | None, None => -1
  | Some cf, Some e => if cobs_ok cf true e then check_cfg_seq cf l 1 else 0
  | _, _ => 0
  end.
End WithExp.
