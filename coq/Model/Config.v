(* Config.v — merge configuration logic of class BitBirch (hand model of __init__,
   set_merge, the property setters and reset in bblean/bitbirch.py; tied by suite `config`). *)
From BB Require Export Model.Birch.
Open Scope Z_scope.

(* the `merge_criterion` / `criterion` argument: None, a name, or a merge-function object *)
Inductive critarg := ANone | AName (n : cname) | AObj (c : crit).

Section WithExp.
Variable fexp : float -> float.

Definition default_tol : float := 0x1.999999999999ap-5%float.     (* 0.05 *)
Definition opt_tol (t : option float) : float := match t with Some x => x | None => default_tol end.

(* BitBirch.__init__  (g = the module-global merge function set by the legacy global
   set_merge, None if never used); None = ValueError *)
Definition ctor (g : option crit) (thr : float) (bf : Z) (a : critarg) (tol : option float)
  : option config :=
  match g with
  | Some gc =>
      match tol, a with
      | None, ANone => Some (mkCfg gc thr bf)
      | _, _ => None
      end
  | None =>
      match a with
      | AObj c => match tol with Some _ => None | None => Some (mkCfg c thr bf) end
      | ANone => match get_merge_accept_fn fexp NDiameter (opt_tol tol) with
                 | Some c => Some (mkCfg c thr bf) | None => None end
      | AName n => match get_merge_accept_fn fexp n (opt_tol tol) with
                   | Some c => Some (mkCfg c thr bf) | None => None end
      end
  end.

(* BitBirch.set_merge; None = ValueError, in which case nothing is changed *)
Definition set_merge (g : option crit) (cf : config) (a : critarg)
           (tol thr : option float) (bf : option Z) : option config :=
  match g with
  | Some _ => None
  | None =>
      let keep_tol := match tol with
                      | Some t => t
                      | None => match crit_tolerance (c_crit cf) with
                                | Some t => t | None => default_tol end
                      end in
      let newc :=
        match a with
        | AObj c => match tol with Some _ => None | None => Some c end
        | AName n => get_merge_accept_fn fexp n keep_tol
        | ANone =>
            match tol with
            | None => Some (c_crit cf)
            | Some t => match crit_tolerance (c_crit cf) with
                        | Some _ => Some (crit_set_tolerance (c_crit cf) t)
                        | None => None
                        end
            end
        end in
      match newc with
      | None => None
      | Some c => Some (mkCfg c (match thr with Some x => x | None => c_thr cf end)
                              (match bf with Some x => x | None => c_bf cf end))
      end
  end.

(* property setters *)
Definition set_criterion_prop g cf (n : cname) := set_merge g cf (AName n) None None None.
Definition set_tolerance_prop g cf (t : float) := set_merge g cf ANone (Some t) None None.

(* getters *)
Definition get_criterion (cf : config) : cname := crit_name (c_crit cf).
Definition get_tolerance (cf : config) : option float := crit_tolerance (c_crit cf).
End WithExp.
