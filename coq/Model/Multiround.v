(* Multiround.v — the multi-round workflow (bblean/multiround.py, after the fix: commits) over
   a directory modelled as a finite map name -> content.  Rounds are lists of independent
   tasks; a task reads files of the previous round and returns the files it writes.
   Executable. *)
From BB Require Export Model.Config Model.FpsUtil.
From Coq Require Import String Ascii.
Open Scope Z_scope.

(* ---------- directory: association list kept sorted by name, no duplicates ---------- *)
Inductive content :=
| CBufs (w : width) (rows : list (list Z * Z))     (* round-r-bufs*.npy: (per-bit sums, count) *)
| CIdxs (ids : list (list Z))                      (* round-r-idxs*.pkl *)
| CClusters (cl : list (list Z))                   (* clusters.pkl *)
| CCentroids (cs : list fpv)                       (* cluster-centroids-packed.pkl (unpacked here) *)
| COther.                                          (* anything else *)
Definition dir := list (string * content).

Fixpoint dir_put (d : dir) (n : string) (c : content) : dir :=
  match d with
  | [] => [(n, c)]
  | (m, x) :: tl =>
      if String.eqb m n then (n, c) :: tl
      else if str_ltb n m then (n, c) :: (m, x) :: tl
      else (m, x) :: dir_put tl n c
  end.
Fixpoint dir_get (d : dir) (n : string) : option content :=
  match d with
  | [] => None
  | (m, x) :: tl => if String.eqb m n then Some x else dir_get tl n
  end.
Definition dir_remove (d : dir) (p : string -> bool) : dir := filter (fun e => negb (p (fst e))) d.
Definition dir_names (d : dir) : list string := map fst d.
Definition dir_puts (d : dir) (ws : list (string * content)) : dir :=
  fold_left (fun d e => dir_put d (fst e) (snd e)) ws d.

(* ---------- names ---------- *)
Open Scope string_scope.
Fixpoint has_suffix (suf s : string) : bool :=
  if String.eqb suf s then true
  else match s with EmptyString => false | String _ tl => has_suffix suf tl end.
Definition dtype_name (w : width) : string := "uint" ++ str_of_Z (wbits w).
Definition file_suffix (label : string) (w : width) : string :=
  ".label-" ++ label ++ "-" ++ str_replace (dtype_name w) "8" "08".
Definition bufs_name (r : Z) (label : string) (w : width) : string :=
  "round-" ++ str_of_Z r ++ "-bufs" ++ file_suffix label w ++ ".npy".
Definition idxs_name (r : Z) (label : string) (w : width) : string :=
  "round-" ++ str_of_Z r ++ "-idxs" ++ file_suffix label w ++ ".pkl".
(* glob("round-{r}-bufs*.npy") / glob("round-{r}-idxs*.pkl"), sorted *)
Definition is_bufs_of (r : Z) (n : string) : bool :=
  String.prefix ("round-" ++ str_of_Z r ++ "-bufs") n && has_suffix ".npy" n.
Definition is_idxs_of (r : Z) (n : string) : bool :=
  String.prefix ("round-" ++ str_of_Z r ++ "-idxs") n && has_suffix ".pkl" n.
(* what the start-of-run purge and the final cleanup remove *)
Definition is_round_file (n : string) : bool :=
  String.prefix "round-" n && (has_suffix ".npy" n || has_suffix ".pkl" n).
Definition is_purged (n : string) : bool :=
  is_round_file n || has_suffix ".pkl.tmp" n || String.eqb n "clusters.pkl"
  || String.eqb n "cluster-centroids-packed.pkl" || String.eqb n "bitbirch.pkl".
Close Scope string_scope.

(* ---------- configuration ---------- *)
Inductive refine_kind := RFull | RSplit | RNone.
Record mr_cfg := mkMr {
  m_bf : Z; m_thr : float; m_change : float; m_tol : float;
  m_init_crit : cname; m_mid_crit : cname; m_final_crit : option cname;
  m_rounds : nat;            (* num_midsection_rounds *)
  m_bin : nat;               (* bin_size *)
  m_refine : refine_kind;    (* refinement_before_midsection *)
  m_split_after : bool;      (* split_largest_after_each_midsection_round *)
  m_save_centroids : bool;
  m_cleanup : bool
}.

Section WithExp.
Variable fexp : float -> float.

(* _save_bufs_and_mol_idxs: one buffer file and one index file per dtype group *)
Definition save_groups (r : Z) (label : string) (gs : list (width * list Tree.sub))
  : list (string * content) :=
  flat_map (fun g => let '(w, l) := g in
              [(bufs_name r label w, CBufs w (map (fun s => (sls s, sn s)) l));
               (idxs_name r label w, CIdxs (map sids l))]) gs.

Definition leaf_groups (st : state) : list (width * list Tree.sub) := prepare_groups (sorted_leaves st).

(* result of a task: the files it writes, or failure *)
Definition task_result := option (list (string * content)).

(* _InitialRound.__call__ on one input file *)
Definition initial_task (c : mr_cfg) (label : string) (rows : list fpv) (start : Z)
  : task_result :=
  match ctor fexp None (m_thr c) (m_bf c) (AName (m_init_crit c)) None with
  | None => None
  | Some cf =>
      let '(st, out) := do_fit fexp (init cf) (map Some rows) (Some (zseq start (List.length rows))) in
      match out with
      | Err => None
      | Ok =>
          let st1 := fst (delete_internal st) in
          match m_refine c with
          | RNone => Some (save_groups 1 label (leaf_groups st1))
          | RSplit =>
              match refine_groups st1 rows start 1 with
              | None => None
              | Some gs => Some (save_groups 1 label gs)
              end
          | RFull =>
              match refine_groups st1 rows start 1 with
              | None => None
              | Some gs =>
                  let st2 := reset_st st1 in
                  match set_merge fexp None (cfg st2) (AName (m_mid_crit c)) (Some (m_tol c))
                                  (Some (m_thr c + m_change c)%float) None with
                  | None => None
                  | Some cf2 =>
                      let st3 := mkSt cf2 (root st2) (sax st2) (nfit st2) (released st2) (nfeat st2) in
                      match fit_groups fexp st3 gs with
                      | (st4, Ok) =>
                          let st5 := fst (delete_internal st4) in
                          Some (save_groups 1 label (leaf_groups st5))
                      | (_, Err) => None
                      end
                  end
              end
          end
      end
  end.

(* reading a (buffer file, index file) pair back: the sub-clusters of _fit_buffers *)
Definition pair_subs (b i : content) : option (width * list Tree.sub) :=
  match b, i with
  | CBufs w rows, CIdxs ids =>
      Some (w, map2 (fun r l => mkSub w (snd r) (fst r) (centroid_fpv (fst r) (snd r)) l) rows ids)
  | _, _ => None
  end.

(* insert the pairs of a batch one file after the other into a fresh tree *)
Fixpoint fit_pairs (st : state) (pairs : list (content * content)) : state * outcome :=
  match pairs with
  | [] => (st, Ok)
  | (b, i) :: tl =>
      match pair_subs b i with
      | None => (st, Err)
      | Some (w, g) =>
          match do_fit_buffers fexp st w g with
          | (st', Ok) => fit_pairs st' tl
          | r => r
          end
      end
  end.

Definition tree_cfg (c : mr_cfg) (nm : cname) : option config :=
  ctor fexp None (m_thr c + m_change c)%float (m_bf c) (AName nm) (Some (m_tol c)).

(* _bf_to_np_refine over a SEQUENCE of files: the members of the split cluster are fetched
   (and re-inserted) in increasing index order *)
Fixpoint ins_asc_z (x : Z) (l : list Z) : list Z :=
  match l with [] => [x] | y :: tl => if x <=? y then x :: y :: tl else y :: ins_asc_z x tl end.
Definition sort_asc_z (l : list Z) : list Z := fold_right ins_asc_z [] l.
Definition refine_groups_seq (st : state) (X : list fpv) : option (list (width * list Tree.sub)) :=
  let bfs := sorted_leaves st in
  match bfs with
  | [] => None
  | big :: rest =>
      match explode X 0 (sort_asc_z (sids big)) with
      | None => None
      | Some singles =>
          Some (fold_left (fun gs b => group_add W8 b gs) singles (prepare_groups rest))
      end
  end.

(* _TreeMergingRound.__call__ on one batch; [all_rows] = all input fingerprints by global index *)
Definition merging_task (c : mr_cfg) (r : Z) (label : string) (pairs : list (content * content))
           (all_rows : list fpv) : task_result :=
  match tree_cfg c (m_mid_crit c) with
  | None => None
  | Some cf =>
      match fit_pairs (init cf) pairs with
      | (_, Err) => None
      | (st, Ok) =>
          let st1 := fst (delete_internal st) in
          if m_split_after c then
            match refine_groups_seq st1 all_rows with
            | None => None
            | Some gs => Some (save_groups r label gs)
            end
          else Some (save_groups r label (leaf_groups st1))
      end
  end.

(* _FinalTreeMergingRound.__call__ *)
Definition final_task (c : mr_cfg) (pairs : list (content * content)) : task_result :=
  let nm := match m_final_crit c with Some x => x | None => m_mid_crit c end in
  match tree_cfg c nm with
  | None => None
  | Some cf =>
      match fit_pairs (init cf) pairs with
      | (_, Err) => None
      | (st, Ok) =>
          if is_init st then
            let st1 := fst (delete_internal st) in
            if m_save_centroids c then
              Some [("cluster-centroids-packed.pkl"%string, CCentroids (centroids st1));
                    ("clusters.pkl"%string, CClusters (clusters st1))]
            else Some [("clusters.pkl"%string, CClusters (clusters st1))]
          else None
      end
  end.

(* ---------- collecting the previous round ---------- *)
Definition get_all (d : dir) (names : list string) : list content :=
  flat_map (fun n => match dir_get d n with Some x => [x] | None => [] end) names.
(* sorted(glob bufs) zipped with sorted(glob idxs) *)
Definition prev_pairs (d : dir) (r : Z) : list (string * string) :=
  combine (filter (is_bufs_of r) (dir_names d)) (filter (is_idxs_of r) (dir_names d)).
(* the uint bits in a buffer-file name: int(name.split("uint")[-1].split(".")[0]) *)
Definition name_bits (d : dir) (n : string) : Z :=
  match dir_get d n with Some (CBufs w _) => wbits w | _ => 0 end.
(* _sort_batch: stable, descending by bits *)
Fixpoint ins_bits (d : dir) (x : string * string) (l : list (string * string)) :=
  match l with
  | [] => [x]
  | y :: tl => if name_bits d (fst y) <=? name_bits d (fst x) then x :: y :: tl
               else y :: ins_bits d x tl
  end.
Definition sort_batch (d : dir) (b : list (string * string)) : list (string * string) :=
  fold_right (ins_bits d) [] b.
Definition read_pairs (d : dir) (ps : list (string * string)) : list (content * content) :=
  flat_map (fun p => match dir_get d (fst p), dir_get d (snd p) with
                     | Some b, Some i => [(b, i)] | _, _ => [] end) ps.

Definition batches (d : dir) (r : Z) (bin : nat) : list (string * list (string * string)) :=
  let ps := prev_pairs d r in
  let bs := batched bin ps in
  let z := Z.of_nat (String.length (str_of_Z (Z.of_nat (List.length bs)))) in
  map (fun p => (zfill (str_of_Z (fst p)) z, sort_batch d (snd p))) (with_idxs 0 bs).

(* ---------- rounds as task lists; a schedule picks the order in which tasks complete ---------- *)
Definition run_tasks (d : dir) (tasks : list task_result) : option dir :=
  fold_left (fun acc t => match acc, t with
                          | Some d', Some ws => Some (dir_puts d' ws)
                          | _, _ => None end) tasks (Some d).

Definition file_labels (n : nat) : list string :=
  let z := Z.of_nat (String.length (str_of_Z (Z.of_nat n))) in
  map (fun i => zfill (str_of_Z i) z) (zseq 0 n).
Fixpoint starts (files : list (list fpv)) (s : Z) : list Z :=
  match files with [] => [] | f :: tl => s :: starts tl (s + zlen f) end.

Definition initial_tasks (c : mr_cfg) (files : list (list fpv)) : list task_result :=
  map (fun t => let '(label, rows, start) := t in initial_task c label rows start)
      (combine (combine (file_labels (List.length files)) files) (starts files 0)).

Definition merging_tasks (c : mr_cfg) (d : dir) (r : Z) (all_rows : list fpv) : list task_result :=
  map (fun b => merging_task c r (fst b) (read_pairs d (snd b)) all_rows)
      (batches d (r - 1) (m_bin c)).

Fixpoint mid_rounds (c : mr_cfg) (all_rows : list fpv) (k : nat) (r : Z) (d : dir) : option dir :=
  match k with
  | O => Some d
  | S k' =>
      match run_tasks d (merging_tasks c d r all_rows) with
      | None => None
      | Some d' => mid_rounds c all_rows k' (r + 1) d'
      end
  end.

(* run_multiround_bitbirch (serial order); None = the run failed *)
Definition run_multiround (c : mr_cfg) (files : list (list fpv)) (d0 : dir) : option dir :=
  let d1 := dir_remove d0 is_purged in                         (* purge leftovers *)
  match run_tasks d1 (initial_tasks c files) with
  | None => None
  | Some d2 =>
      let all_rows := List.concat files in
      match mid_rounds c all_rows (m_rounds c) 2 d2 with
      | None => None
      | Some d3 =>
          let rf := 2 + Z.of_nat (m_rounds c) in
          match final_task c (read_pairs d3 (prev_pairs d3 (rf - 1))) with
          | None => None
          | Some ws =>
              let d4 := dir_puts d3 ws in
              Some (if m_cleanup c then dir_remove d4 is_round_file else d4)
          end
      end
  end.
End WithExp.
