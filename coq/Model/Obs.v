(* Obs.v — observation functions used by the correspondence check (executable). *)
From BB Require Export Model.Birch.
Open Scope Z_scope.

(* canonical (identity-free) form of the tree: leaves named by chain position *)
Definition csub := (Z * Z * list Z * fpv * list Z)%type.      (* bits, n, ls, cent, ids *)
Inductive ctree :=
| CLeaf (pos : Z) (bf : Z) (es : list csub) (cache : list fpv)
| CInner (bf : Z) (es : list (csub * ctree)) (cache : list fpv).

Definition csub_of (s : sub) : csub := (wbits (sw s), sn s, sls s, scent s, sids s).

Fixpoint index_of (x : nat) (l : list nat) (i : Z) : Z :=
  match l with [] => -1 | y :: tl => if Nat.eqb x y then i else index_of x tl (i + 1) end.

Fixpoint canon (ch : list nat) (nd : node) : ctree :=
  match nd with
  | Leaf id bf es cache => CLeaf (index_of id ch 0) bf (map csub_of es) cache
  | Inner bf es cache => CInner bf (canon_ents ch es) cache
  end
with canon_ents (ch : list nat) (es : ents) : list (csub * ctree) :=
  match es with
  | ENil => []
  | ECons s c tl => (csub_of s, canon ch c) :: canon_ents ch tl
  end.

Definition zl_eqb := list_eqb Z.eqb.
Definition fpl_eqb := list_eqb fpv_eqb.
Definition csub_eqb (a b : csub) : bool :=
  let '(w1, n1, l1, c1, i1) := a in
  let '(w2, n2, l2, c2, i2) := b in
  (w1 =? w2) && (n1 =? n2) && zl_eqb l1 l2 && fpv_eqb c1 c2 && zl_eqb i1 i2.

Fixpoint ctree_eqb (a b : ctree) {struct a} : bool :=
  match a, b with
  | CLeaf p1 b1 e1 c1, CLeaf p2 b2 e2 c2 =>
      (p1 =? p2) && (b1 =? b2) && list_eqb csub_eqb e1 e2 && fpl_eqb c1 c2
  | CInner b1 e1 c1, CInner b2 e2 c2 =>
      (b1 =? b2) && fpl_eqb c1 c2 &&
      (fix go (x : list (csub * ctree)) (y : list (csub * ctree)) : bool :=
         match x, y with
         | [], [] => true
         | (s1, t1) :: x', (s2, t2) :: y' => csub_eqb s1 s2 && ctree_eqb t1 t2 && go x' y'
         | _, _ => false
         end) e1 e2
  | _, _ => false
  end.

Definition outcome_eqb (a b : outcome) : bool :=
  match a, b with Ok, Ok | Err, Err => true | _, _ => false end.

(* what the harness records on the implementation after every operation *)
Record obs := mkObs {
  o_out : outcome;
  o_nfit : Z;
  o_init : bool;
  o_released : bool;
  o_sorted : list (list Z);           (* get_cluster_mol_ids(sort=True); [] if not init *)
  o_unsorted : list (list Z);
  o_cents : list fpv;                 (* get_centroids(sort=True, packed=False) *)
  o_assign : option (list Z);         (* get_assignments(); None = raises *)
  o_tree : option ctree               (* walk of _root; None = not compared / no root *)
}.

Section WithExp.
Variable fexp : float -> float.

Definition opt_zl_eqb (a b : option (list Z)) : bool :=
  match a, b with
  | Some x, Some y => zl_eqb x y
  | None, None => true
  | _, _ => false
  end.

Definition obs_ok (walk : bool) (st : state) (out : outcome) (e : obs) : bool :=
  outcome_eqb out (o_out e)
  && (nfit st =? o_nfit e)
  && Bool.eqb (is_init st) (o_init e)
  && Bool.eqb (released st) (o_released e)
  && list_eqb zl_eqb (clusters st) (o_sorted e)
  && list_eqb zl_eqb (clusters_unsorted st) (o_unsorted e)
  && fpl_eqb (centroids st) (o_cents e)
  && opt_zl_eqb (if is_init st then assignments st else None) (o_assign e)
  && (if walk then
        match root st, released st, o_tree e with
        | Some r, false, Some t => ctree_eqb (canon (chain (sax st)) r) t
        | Some _, true, None => true
        | None, _, None => true
        | _, _, _ => false
        end
      else true).

(* index of the first operation after which model and implementation differ; -1 = none *)
Fixpoint check_hist (walk : bool) (st : state) (l : list (op * obs)) (i : Z) : Z :=
  match l with
  | [] => -1
  | (o, e) :: tl =>
      let '(st', out) := step fexp st o in
      if obs_ok walk st' out e then check_hist walk st' tl (i + 1) else i
  end.

(* the model's own observation, printed when a case disagrees *)
Definition model_obs (st : state) (out : outcome) : obs :=
  mkObs out (nfit st) (is_init st) (released st) (clusters st) (clusters_unsorted st)
        (centroids st) (if is_init st then assignments st else None)
        (match root st with
         | Some r => if released st then None else Some (canon (chain (sax st)) r)
         | None => None end).
Fixpoint trace_hist (st : state) (l : list op) : list obs :=
  match l with
  | [] => []
  | o :: tl => let '(st', out) := step fexp st o in model_obs st' out :: trace_hist st' tl
  end.

(* exp as a finite table recorded from numpy *)
Definition exp_table (tbl : list (float * float)) (x : float) : float :=
  match find (fun p => feq_bits (fst p) x) tbl with Some p => snd p | None => nan end.
End WithExp.
