(* FpsGen.v — `bb fps-from-smiles`: the workers that turn batches of SMILES into rows, and the
   assembly of their output.  Hand model of bblean/fingerprints.py: fps_from_smiles (the
   in-process API), _FingerprintArrayFiller.__call__ (one shared block filled by several
   workers), _FingerprintFileCreator.__call__ (one file per batch), and of the assembly in
   bblean/cli.py:_fps_from_smiles (np.delete by the invalid mask, mask.nonzero()).
   RDKit is an oracle: [fp_of s] is the (packed or unpacked) fingerprint of the SMILES [s], or
   None when parsing or sanitising fails.  A fresh shared-memory block reads as [zero] rows and
   a False mask.  np.empty rows are [None] until written. *)
From BB Require Export Model.FpsUtil.
From Coq Require Import String.
Open Scope Z_scope.

Section Gen.
Context {S R : Type}.
Variable fp_of : S -> option R.
Variable zero : R.

(* ---------- what the result must be: the valid entries in input order; the others by index ---- *)
Fixpoint valid_fps (l : list S) : list R :=
  match l with
  | [] => []
  | s :: tl => match fp_of s with Some r => r :: valid_fps tl | None => valid_fps tl end
  end.
Fixpoint invalid_from (i : Z) (l : list S) : list Z :=
  match l with
  | [] => []
  | s :: tl => match fp_of s with
               | Some _ => invalid_from (i + 1) tl
               | None => i :: invalid_from (i + 1) tl
               end
  end.
Definition invalid_idxs (l : list S) : list Z := invalid_from 0 l.

(* ---------- the sequential loop shared by the API and the file creator ----------
   fps = np.empty(...); for i, smi in enumerate(batch): invalid.append(i) or fps[i] = fp *)
Fixpoint seq_loop (i : Z) (l : list S) : list (option R) * list Z :=
  match l with
  | [] => ([], [])
  | s :: tl => let '(rows, inv) := seq_loop (i + 1) tl in
               match fp_of s with
               | Some r => (Some r :: rows, inv)
               | None => (None :: rows, i :: inv)
               end
  end.
(* np.delete(rows, idxs, axis=0) for a list of valid, distinct indices *)
Fixpoint delete_from {A} (i : Z) (rows : list A) (idxs : list Z) : list A :=
  match rows with
  | [] => []
  | r :: tl => if existsb (Z.eqb i) idxs then delete_from (i + 1) tl idxs
               else r :: delete_from (i + 1) tl idxs
  end.
Definition np_delete {A} (rows : list A) (idxs : list Z) : list A := delete_from 0 rows idxs.

(* fps_from_smiles(smiles, skip_invalid=True): rows (None = an uninitialised row) and indices *)
Definition api_fps_from_smiles (l : list S) : list (option R) * list Z :=
  let '(rows, inv) := seq_loop 0 l in (np_delete rows inv, inv).

(* _FingerprintFileCreator.__call__((file_idx, batch)): the file it writes *)
Definition create_file (stem : string) (digits : option Z) (t : Z * list S)
  : string * list (option R) :=
  let '(rows, inv) := seq_loop 0 (snd t) in
  (match digits with Some d => part_name stem d (fst t) | None => stem end, np_delete rows inv).

(* ---------- _FingerprintArrayFiller: single-row writes into the shared block ---------- *)
Record shm := { sh_fps : list R; sh_mask : list bool }.
Definition shm0 (n : nat) : shm := {| sh_fps := repeat zero n; sh_mask := repeat false n |}.

Fixpoint set_nth {A} (i : nat) (x : A) (l : list A) : list A :=
  match l with
  | [] => []
  | y :: tl => match i with O => x :: tl | Datatypes.S k => y :: set_nth k x tl end
  end.
(* arr[i] = x; None = IndexError (a negative i would wrap around in NumPy: never produced here,
   it is treated as an error as well) *)
Definition set_z {A} (i : Z) (x : A) (l : list A) : option (list A) :=
  if (0 <=? i) && (i <? zlen l) then Some (set_nth (Z.to_nat i) x l) else None.

(* one iteration of the worker's loop: row i of the block gets the fingerprint, or the mask
   entry i is set *)
Definition apply_write (m : option shm) (w : Z * S) : option shm :=
  match m with
  | None => None
  | Some m =>
      match fp_of (snd w) with
      | Some r => match set_z (fst w) r (sh_fps m) with
                  | Some f => Some {| sh_fps := f; sh_mask := sh_mask m |}
                  | None => None
                  end
      | None => match set_z (fst w) true (sh_mask m) with
                | Some k => Some {| sh_fps := sh_fps m; sh_mask := k |}
                | None => None
                end
      end
  end.
(* zip(range(idx0, idx1), batch) *)
Fixpoint writes_of_range (i stop : Z) (batch : list S) : list (Z * S) :=
  match batch with
  | [] => []
  | s :: tl => if i <? stop then (i, s) :: writes_of_range (i + 1) stop tl else []
  end.
Definition writes_of (t : (Z * Z) * list S) : list (Z * S) :=
  writes_of_range (fst (fst t)) (snd (fst t)) (snd t).
(* one worker call, and a sequence of calls *)
Definition fill_task (m : option shm) (t : (Z * Z) * list S) : option shm :=
  fold_left apply_write (writes_of t) m.
Definition run_fillers (tasks : list ((Z * Z) * list S)) (n : nat) : option shm :=
  fold_left fill_task tasks (Some (shm0 n)).

(* assembly in the command: fps = np.delete(fps, mask, axis=0); idxs = mask.nonzero()[0] *)
Fixpoint delete_mask {A} (rows : list A) (mask : list bool) : list A :=
  match rows, mask with
  | r :: rt, b :: bt => if b then delete_mask rt bt else r :: delete_mask rt bt
  | _, _ => []
  end.
Fixpoint nonzero_from (i : Z) (mask : list bool) : list Z :=
  match mask with
  | [] => []
  | b :: tl => if b then i :: nonzero_from (i + 1) tl else nonzero_from (i + 1) tl
  end.
Definition assemble_single (m : shm) : list R * list Z :=
  (delete_mask (sh_fps m) (sh_mask m), nonzero_from 0 (sh_mask m)).

(* the single-file command, the worker calls made in the order [tasks] *)
Definition cli_single_file (tasks : list ((Z * Z) * list S)) (n : nat) : option (list R * list Z) :=
  match run_fillers tasks n with
  | Some m => Some (assemble_single m)
  | None => None
  end.
(* the multi-file command, the worker calls made in the order [tasks]: the directory, read back
   in name order *)
Definition cli_multi_file (stem : string) (digits : option Z) (tasks : list (Z * list S))
  : list (option R) :=
  merge_parts (map (create_file stem digits) tasks).
End Gen.

(* `bb fps-shuffle`: rng.shuffle(fps, axis=0) moves the rows according to some permutation of the
   row indices (NumPy's generator is an oracle): row k of the output is row [nth k perm] of the input *)
Definition apply_perm {R} (perm : list nat) (rows : list R) (d : R) : list R :=
  map (fun i => nth i rows d) perm.
