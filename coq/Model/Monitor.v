(* Monitor.v — the peak-memory file protocol of bblean/_memory.py: the update step of
   monitor_rss_process (writer) interleaved with get_peak_memory_gib (reader), one file
   operation at a time.  Executable. *)
From BB Require Export Model.Base.
Open Scope Z_scope.

(* content of a file: empty, or a complete "<number>\n" *)
Inductive cont := CEmpty | CVal (v : float).

Record fs := mkFs {
  peak : option cont;      (* max-rss.txt      (None = does not exist) *)
  tmp : option cont;       (* max-rss.txt.tmp *)
  wbuf : option float      (* the writer's user-space buffer (text not yet flushed) *)
}.
Definition fs0 : fs := mkFs None None None.

(* file operations of one update of the peak file (after the fix: temp file + rename) *)
Inductive wop := WOpen | WWrite (v : float) | WFlush | WFsync | WClose | WReplace.

Definition wstep (s : fs) (o : wop) : fs :=
  match o with
  | WOpen => mkFs (peak s) (Some CEmpty) None            (* open(tmp, "w") truncates tmp *)
  | WWrite v => mkFs (peak s) (tmp s) (Some v)
  | WFlush => match wbuf s with
              | Some v => mkFs (peak s) (Some (CVal v)) None
              | None => s end
  | WFsync => s
  | WClose => s
  | WReplace => mkFs (tmp s) None (wbuf s)                (* os.replace(tmp, peak): atomic *)
  end.

Definition update_ops (v : float) : list wop := [WOpen; WWrite v; WFlush; WFsync; WClose; WReplace].

(* the monitor loop over the sampled values: a new maximum rewrites the file *)
Fixpoint writer (samples : list float) (mx : float) : list wop :=
  match samples with
  | [] => []
  | s :: tl => if PrimFloat.ltb mx s then update_ops s ++ writer tl s else writer tl mx
  end.
Fixpoint running_maxes (samples : list float) (mx : float) : list float :=
  match samples with
  | [] => []
  | s :: tl => if PrimFloat.ltb mx s then s :: running_maxes tl s else running_maxes tl mx
  end.

(* the reader: exists? ; open ; read + parse *)
Inductive rres := RNone | RSome (v : float) | RError.
Inductive rstate := RStart | ROpened (c : cont) | RDone (r : rres).
Definition rstep (s : fs) (r : rstate) : rstate :=
  match r with
  | RStart => match peak s with
              | None => RDone RNone                        (* file.exists() is False *)
              | Some c => ROpened c                        (* exists, then open: the inode *)
              end
  | ROpened c => match c with
                 | CVal v => RDone (RSome v)               (* float(f.read().strip()) *)
                 | CEmpty => RDone RError                  (* float("") raises ValueError *)
                 end
  | RDone x => RDone x
  end.

(* a schedule: true = the writer performs its next file operation, false = the reader steps *)
Fixpoint exec (sched : list bool) (ws : list wop) (s : fs) (r : rstate) : fs * rstate :=
  match sched with
  | [] => (s, r)
  | true :: tl => match ws with
                  | o :: ws' => exec tl ws' (wstep s o) r
                  | [] => exec tl [] s r
                  end
  | false :: tl => exec tl ws s (rstep s r)
  end.

(* the protocol before the fix, for the record: the peak file was rewritten in place *)
Definition wstep_inplace (s : fs) (o : wop) : fs :=
  match o with
  | WOpen => mkFs (Some CEmpty) (tmp s) None               (* open(peak, "w") truncates peak *)
  | WWrite v => mkFs (peak s) (tmp s) (Some v)
  | WFlush => match wbuf s with Some v => mkFs (Some (CVal v)) (tmp s) None | None => s end
  | _ => s
  end.
Fixpoint exec_inplace (sched : list bool) (ws : list wop) (s : fs) (r : rstate) : fs * rstate :=
  match sched with
  | [] => (s, r)
  | true :: tl => match ws with
                  | o :: ws' => exec_inplace tl ws' (wstep_inplace s o) r
                  | [] => exec_inplace tl [] s r
                  end
  | false :: tl => exec_inplace tl ws s (rstep s r)
  end.

(* what a reader that runs to completion right after the k-th writer operation sees *)
Fixpoint after_each (ws : list wop) (s : fs) : list rres :=
  match ws with
  | [] => []
  | o :: tl =>
      let s' := wstep s o in
      (match rstep s' (rstep s' RStart) with RDone x => x | _ => RError end) :: after_each tl s'
  end.

(* two successive readers: the second one starts only after the first has finished.
   schedule items: 0 = the writer performs its next file operation, 1 = reader 1 steps,
   2 = reader 2 steps (ignored until reader 1 is done) *)
Definition rdone (r : rstate) : bool := match r with RDone _ => true | _ => false end.
Fixpoint exec2 (sched : list nat) (ws : list wop) (s : fs) (r1 r2 : rstate) : fs * rstate * rstate :=
  match sched with
  | [] => (s, r1, r2)
  | O :: tl => match ws with
               | o :: ws' => exec2 tl ws' (wstep s o) r1 r2
               | [] => exec2 tl [] s r1 r2
               end
  | S O :: tl => exec2 tl ws s (rstep s r1) r2
  | _ :: tl => if rdone r1 then exec2 tl ws s r1 (rstep s r2) else exec2 tl ws s r1 r2
  end.

(* a finer reader: file.exists() and open(file) are two separate steps, the writer may run
   in between *)
Inductive rstate3 :=
| R3Start
| R3Exists                 (* exists() returned True, the file is not opened yet *)
| R3Opened (c : cont)
| R3Done (r : rres).
Definition rstep3 (s : fs) (r : rstate3) : rstate3 :=
  match r with
  | R3Start => match peak s with
               | None => R3Done RNone                      (* file.exists() is False *)
               | Some _ => R3Exists
               end
  | R3Exists => match peak s with
                | Some c => R3Opened c                     (* open(file): the inode *)
                | None => R3Done RError                    (* FileNotFoundError *)
                end
  | R3Opened c => match c with
                  | CVal v => R3Done (RSome v)
                  | CEmpty => R3Done RError
                  end
  | R3Done x => R3Done x
  end.
Fixpoint exec3 (sched : list bool) (ws : list wop) (s : fs) (r : rstate3) : fs * rstate3 :=
  match sched with
  | [] => (s, r)
  | true :: tl => match ws with
                  | o :: ws' => exec3 tl ws' (wstep s o) r
                  | [] => exec3 tl [] s r
                  end
  | false :: tl => exec3 tl ws s (rstep3 s r)
  end.
