(* Merges.v — the six built-in merge criteria (hand model of bblean/_merges.py). *)
From BB Require Export Model.Sim.
Open Scope Z_scope.

Inductive crit :=
| CRadius
| CDiameter
| CTolDiameter (tol decay offset : float)
| CTolRadius (tol decay offset : float)
| CTolLegacy (tol : float)
| CNever (tol decay offset : float).

Section WithExp.
Variable fexp : float -> float.      (* np.exp — oracle, see DESIGN §8 *)

(* ToleranceDiameterMerge.__init__ with n_max=1000, decay=1e-3, adaptive=True *)
Definition tol_decay : float := 0x1.0624dd2f1a9fcp-10%float.   (* 1e-3 *)
Definition tol_offset : float := fexp (- tol_decay * Z2f 1000)%float.

Definition slack (tol decay offset : float) (old_n : Z) : float :=
  py_max_f (tol * (fexp (- decay * Zs2f old_n) - offset))%float 0%float.

Definition accept (c : crit) (thr : float)
           (new_ls : list Z) (new_n : Z) (old_ls nom_ls : list Z) (old_n nom_n : Z) : bool :=
  match c with
  | CRadius => fge (radius_compl_f new_ls new_n) thr
  | CDiameter => fge (isim_f new_ls new_n) thr
  | CTolDiameter tol decay offset =>
      let new_dc := isim_f new_ls new_n in
      if flt new_dc thr then false
      else if old_n =? 1 then true
      else
        let old_dc := isim_f old_ls old_n in
        fge new_dc (old_dc - slack tol decay offset old_n)%float
  | CTolRadius tol decay offset =>
      let new_rc := radius_compl_f new_ls new_n in
      if flt new_rc thr then false
      else if old_n =? 1 then true
      else
        let old_rc := radius_compl_f old_ls old_n in
        fge new_rc (old_rc - slack tol decay offset old_n)%float
  | CTolLegacy tol =>
      let new_dc := isim_f new_ls new_n in
      if flt new_dc thr then false
      else if (old_n =? 1) || negb (nom_n =? 1) then true
      else
        let old_dc := isim_f old_ls old_n in
        fge ((new_dc * Zs2f new_n - old_dc * Zs2f (old_n - 1)) / 2)%float (old_dc - tol)%float
  | CNever _ _ _ => false
  end.

(* get_merge_accept_fn: name -> criterion (None = ValueError) *)
Inductive cname := NRadius | NDiameter | NTolLegacy | NTolDiameter | NTolRadius | NNever
                 | NUnknown.
Definition get_merge_accept_fn (nm : cname) (tol : float) : option crit :=
  match nm with
  | NRadius => Some CRadius
  | NDiameter => Some CDiameter
  | NTolLegacy => Some (CTolLegacy tol)
  | NTolDiameter => Some (CTolDiameter tol tol_decay tol_offset)
  | NTolRadius => Some (CTolRadius tol tol_decay tol_offset)
  | NNever => Some (CNever tol tol_decay tol_offset)
  | NUnknown => None
  end.

Definition crit_name (c : crit) : cname :=
  match c with
  | CRadius => NRadius | CDiameter => NDiameter | CTolDiameter _ _ _ => NTolDiameter
  | CTolRadius _ _ _ => NTolRadius | CTolLegacy _ => NTolLegacy | CNever _ _ _ => NNever
  end.
Definition crit_tolerance (c : crit) : option float :=
  match c with
  | CTolDiameter t _ _ | CTolRadius t _ _ | CNever t _ _ => Some t
  | CTolLegacy t => Some t
  | _ => None
  end.
Definition crit_set_tolerance (c : crit) (t : float) : crit :=
  match c with
  | CTolDiameter _ d o => CTolDiameter t d o
  | CTolRadius _ d o => CTolRadius t d o
  | CNever _ d o => CNever t d o
  | CTolLegacy _ => CTolLegacy t
  | c => c
  end.
End WithExp.
