(* Spec.v — executable REFERENCE SPECIFICATION of the BitBIRCH insertion procedure
   (property C07).  A tree stores nothing but member labels; every numeric quantity
   (count, per-bit sums, centroid) is RECOMPUTED from the members' fingerprints through
   the data map [D : label |-> fingerprint].  No caches, no stored sums, no counter
   widths, no [sub].  Definitions only. *)
From BB Require Export Model.Tree.  (* aux, chain_ins_before, split_mask, most_dissimilar, accept *)
Open Scope Z_scope.

Section Spec.
Variable fexp : float -> float.
Variable D : Z -> fpv.              (* label |-> fingerprint *)
Variable nf : nat.
Variable c : crit.
Variable thr : float.

(* ---------- a cluster is the list of its members ---------- *)
Definition cl_sum (ids : list Z) : list Z := colsum nf (map D ids).
Definition cl_n (ids : list Z) : Z := zlen ids.
Definition cl_cent (ids : list Z) : fpv := centroid_fpv (cl_sum ids) (cl_n ids).

(* merge iff the criterion accepts, on sums recomputed from the members *)
Definition spec_accept (old new : list Z) : bool :=
  accept fexp c thr (cl_sum (old ++ new)) (cl_n old + cl_n new)
         (cl_sum old) (cl_sum new) (cl_n old) (cl_n new).

(* ---------- trees of member lists ---------- *)
Inductive snode :=
| SLeaf (id : nat) (bf : Z) (es : list (list Z))      (* entries = clusters *)
| SInner (bf : Z) (es : sents)                        (* entries = children *)
with sents := SNil | SCons (child : snode) (tl : sents).

(* members of a subtree, in tree order *)
Fixpoint smembers (n : snode) : list Z :=
  match n with SLeaf _ _ es => concat es | SInner _ es => smembers_e es end
with smembers_e (es : sents) : list Z :=
  match es with SNil => [] | SCons ch tl => smembers ch ++ smembers_e tl end.

Fixpoint slen (es : sents) : nat :=
  match es with SNil => O | SCons _ tl => S (slen tl) end.
Fixpoint sapp1 (es : sents) (n : snode) : sents :=
  match es with SNil => SCons n SNil | SCons ch tl => SCons ch (sapp1 tl n) end.

(* the centroid of every entry of a node: of a cluster (leaf), of all members below a
   child (inner node) *)
Fixpoint cents_e (es : sents) : list fpv :=
  match es with SNil => [] | SCons ch tl => cl_cent (smembers ch) :: cents_e tl end.
Definition entry_cents (n : snode) : list fpv :=
  match n with SLeaf _ _ es => map cl_cent es | SInner _ es => cents_e es end.

(* ---------- routing: the entry most similar to the new cluster, first on ties ---------- *)
Definition spec_route (cents : list fpv) (x : list Z) : nat :=
  argmax_f (map (fun cv => sim cv (cl_cent x)) cents).

(* ---------- splitting an over-full node ---------- *)
(* the entries whose mask bit is [b], in order *)
Fixpoint pick {A} (b : bool) (m : list bool) (l : list A) : list A :=
  match m, l with
  | mb :: m', x :: l' => if Bool.eqb mb b then x :: pick b m' l' else pick b m' l'
  | _, _ => []
  end.
Fixpoint pick_e (b : bool) (m : list bool) (es : sents) : sents :=
  match m, es with
  | mb :: m', SCons ch tl => if Bool.eqb mb b then SCons ch (pick_e b m' tl) else pick_e b m' tl
  | _, _ => SNil
  end.

(* seeds = the most dissimilar pair of entry centroids; an entry goes with the first seed
   iff it IS that seed or is STRICTLY closer to it.  A split leaf gets a fresh id, linked
   into the leaf chain just before the leaf it was split from. *)
Definition spec_split (n : snode) (ax : aux) : snode * snode * aux :=
  let '(f1, _, s1, s2) := most_dissimilar nf (entry_cents n) in
  let m := split_mask 0 f1 s1 s2 in
  match n with
  | SLeaf id bf es =>
      (SLeaf (nid ax) bf (pick true m es), SLeaf id bf (pick false m es),
       mkAux (S (nid ax)) (chain_ins_before id (nid ax) (chain ax)))
  | SInner bf es => (SInner bf (pick_e true m es), SInner bf (pick_e false m es), ax)
  end.

(* ---------- insertion; the boolean is "this node overflowed and must be split" ---------- *)
Fixpoint spec_insert (n : snode) (x : list Z) (ax : aux) {struct n} : snode * bool * aux :=
  match n with
  | SLeaf id bf es =>
      match es with
      | [] => (SLeaf id bf [x], false, ax)                      (* empty leaf: store *)
      | _ =>
          let i := spec_route (map cl_cent es) x in
          let old := nth i es x in
          if spec_accept old x
          then (SLeaf id bf (upd i (old ++ x) es), false, ax)   (* absorb *)
          else (SLeaf id bf (es ++ [x]), bf <? Z.of_nat (S (length es)), ax)   (* new entry *)
      end
  | SInner bf es =>
      let '(es', ax') := spec_insert_ents es (spec_route (cents_e es) x) x ax in
      (SInner bf es', bf <? Z.of_nat (slen es'), ax')
  end
(* descend into child number k; a child that overflowed is replaced by its two halves
   (first half in place, second half appended at the end) *)
with spec_insert_ents (es : sents) (k : nat) (x : list Z) (ax : aux) {struct es} : sents * aux :=
  match es with
  | SNil => (SNil, ax)
  | SCons ch tl =>
      match k with
      | S k' => let '(tl', ax') := spec_insert_ents tl k' x ax in (SCons ch tl', ax')
      | O =>
          let '(ch', sp, ax1) := spec_insert ch x ax in
          if sp then let '(n1, n2, ax2) := spec_split ch' ax1 in (SCons n1 (sapp1 tl n2), ax2)
          else (SCons ch' tl, ax1)
      end
  end.

(* one top-level insertion: an overflowing root is split under a new root of capacity bf *)
Definition spec_insert_root (bf : Z) (root : snode) (x : list Z) (ax : aux) : snode * aux :=
  let '(r, sp, ax1) := spec_insert root x ax in
  if sp then let '(n1, n2, ax2) := spec_split r ax1 in (SInner bf (SCons n1 (SCons n2 SNil)), ax2)
  else (r, ax1).

(* ===== the insertion specification ends here; what follows serves the estimator-level
   corollary (fit, reported clusters) ===== *)
(* ---------- fit: the well-formed rows are inserted one by one as singleton clusters; the
   fingerprints are read through [D]; the loop stops at the first bad row ([None]) ---------- *)
Fixpoint spec_fit_rows {R} (bf : Z) (root : snode) (ax : aux) (rows : list (option R))
         (labels : list Z) : snode * aux :=
  match rows, labels with
  | Some _ :: rows', l :: labels' =>
      let '(r, ax') := spec_insert_root bf root [l] ax in spec_fit_rows bf r ax' rows' labels'
  | _, _ => (root, ax)
  end.
(* [None] = no tree yet: the first fit starts from one empty leaf *)
Definition spec_fit {R} (bf : Z) (t : option (snode * aux)) (rows : list (option R))
           (labels : list Z) : option (snode * aux) :=
  match rows with
  | [] => t
  | _ => let '(r, ax) := match t with Some p => p | None => (SLeaf 0 bf [], mkAux 1 [0%nat]) end in
         Some (spec_fit_rows bf r ax rows labels)
  end.
End Spec.

(* ---------- reading the clusters off a tree: leaves in chain order, then a stable sort
   by decreasing size ---------- *)
Fixpoint sfind_leaf (n : snode) (id : nat) : option (list (list Z)) :=
  match n with
  | SLeaf id' _ es => if Nat.eqb id id' then Some es else None
  | SInner _ es => sfind_leaf_e es id
  end
with sfind_leaf_e (es : sents) (id : nat) : option (list (list Z)) :=
  match es with
  | SNil => None
  | SCons ch tl => match sfind_leaf ch id with Some r => Some r | None => sfind_leaf_e tl id end
  end.
Fixpoint sins_desc (x : list Z) (l : list (list Z)) : list (list Z) :=
  match l with
  | [] => [x]
  | y :: tl => if zlen y <=? zlen x then x :: y :: tl else y :: sins_desc x tl
  end.
Definition spec_clusters (root : snode) (ch : list nat) : list (list Z) :=
  fold_right sins_desc []
    (flat_map (fun id => match sfind_leaf root id with Some es => es | None => [] end) ch).
