(* Birch.v — the estimator as a state machine (hand model of class BitBirch). *)
From BB Require Export Model.Tree.
Open Scope Z_scope.

Record config := mkCfg { c_crit : crit; c_thr : float; c_bf : Z }.

Record state := mkSt {
  cfg : config;
  root : option node;     (* None = not initialised (dummy_leaf._next_leaf is None) *)
  sax : aux;              (* next leaf id, leaf chain *)
  nfit : Z;               (* _num_fitted_fps *)
  released : bool;        (* _root is None but leaves alive (delete_internal_nodes) *)
  nfeat : nat             (* n_features the tree was initialised with *)
}.

Definition init (c : config) : state :=
  mkSt c None (mkAux 0 []) 0 false 0.

Inductive outcome := Ok | Err.

Inductive op :=
| OFit (rows : list (option fpv)) (labels : option (list Z))
      (* decoded rows; None = a row on which the real loop raises *)
| ORefine (X : list fpv) (initial_mol : Z) (n_largest : Z)
| ORecluster (iters : nat) (extra : float) (perms : list (list nat)) (stop_early : bool)
| OSetCfg (c : option crit) (thr : option float) (bf : option Z)
| ODeleteInternal
| OReset.

Section WithExp.
Variable fexp : float -> float.

Definition is_init (st : state) : bool := match root st with Some _ => true | None => false end.

Definition reset_st (st : state) : state :=
  mkSt (cfg st) None (mkAux 0 []) 0 false 0.

Definition initialize (st : state) (nf : nat) : state :=
  mkSt (cfg st) (Some (Leaf 0 (c_bf (cfg st)) [] [])) (mkAux 1 [0%nat]) (nfit st) false nf.

Definition leaves_of (st : state) : list sub :=
  match root st with Some r => leaf_subs r (chain (sax st)) | None => [] end.
Definition sorted_leaves (st : state) : list sub := sort_desc (leaves_of st).
Definition clusters (st : state) : list (list Z) := map sids (sorted_leaves st).
Definition clusters_unsorted (st : state) : list (list Z) := map sids (leaves_of st).
Definition centroids (st : state) : list fpv := map scent (sorted_leaves st).

(* insert one sub-cluster under configuration cf (locals of the fit call) *)
Definition insert_st (cf : config) (st : state) (s : sub) (dn : Z) : state :=
  match root st with
  | None => st
  | Some r =>
      let '(r', ax') := insert_root fexp (nfeat st) (c_crit cf) (c_thr cf) (c_bf cf) r s (sax st) in
      mkSt (cfg st) (Some r') ax' (nfit st + dn) (released st) (nfeat st)
  end.

(* the loop of fit(): stops at the first bad row, keeping the rows before it *)
Fixpoint fit_rows (cf : config) (st : state) (rows : list (option fpv)) (labels : list Z)
  : state * outcome :=
  match rows, labels with
  | Some fp :: rows', l :: labels' =>
      fit_rows cf (insert_st cf st (singleton fp l) 1) rows' labels'
  | None :: _, _ :: _ => (st, Err)
  | _, _ => (st, Ok)
  end.

Fixpoint zseq (start : Z) (n : nat) : list Z :=
  match n with O => [] | S k => start :: zseq (start + 1) k end.

Definition row_len (rows : list (option fpv)) : option nat :=
  match rows with Some fp :: _ => Some (length fp) | _ => None end.

Definition do_fit (st : state) (rows : list (option fpv)) (labels : option (list Z))
  : state * outcome :=
  match rows with
  | [] => (st, Err)                                   (* "at least 1 fingerprint" *)
  | r0 :: _ =>
      if released st then (st, Err)
      else
        let nf := match r0 with Some fp => length fp | None => nfeat st end in
        let st1 := if is_init st then st else initialize st nf in
        let labs := match labels with
                    | Some l => l
                    | None => zseq (nfit st1) (length rows)
                    end in
        fit_rows (cfg st1) st1 rows labs
  end.

(* _fit_buffers on one dtype group *)
Fixpoint fit_bufs (cf : config) (st : state) (w : width) (g : list sub) : state * outcome :=
  match g with
  | [] => (st, Ok)
  | b :: g' =>
      if zlen (sids b) =? sn b then
        fit_bufs cf (insert_st cf st (sub_of_buffer w (sls b) (sn b) (sids b)) (zlen (sids b))) w g'
      else (st, Err)
  end.

Definition do_fit_buffers (st : state) (w : width) (g : list sub) : state * outcome :=
  match g with
  | [] => (st, Err)
  | b0 :: _ =>
      if released st then (st, Err)
      else
        let st1 := if is_init st then st else initialize st (length (sls b0)) in
        fit_bufs (cfg st1) st1 w g
  end.

(* _prepare_bf_to_buffer_dicts: group by dtype, first-appearance order *)
Fixpoint group_add (w : width) (x : sub) (gs : list (width * list sub)) :=
  match gs with
  | [] => [(w, [x])]
  | (w', l) :: tl =>
      if width_eqb w w' then (w', l ++ [x]) :: tl else (w', l) :: group_add w x tl
  end.
Definition prepare_groups (bfs : list sub) : list (width * list sub) :=
  fold_left (fun gs b => group_add (sw b) b gs) bfs [].

Fixpoint fit_groups (st : state) (gs : list (width * list sub)) : state * outcome :=
  match gs with
  | [] => (st, Ok)
  | (w, g) :: tl =>
      match do_fit_buffers st w g with
      | (st', Ok) => fit_groups st' tl
      | r => r
      end
  end.

(* X[i] with python indexing *)
Definition py_nth {A} (l : list A) (i : Z) : option A :=
  let n := zlen l in
  if (0 <=? i) && (i <? n) then nth_error l (Z.to_nat i)
  else if (- n <=? i) && (i <? 0) then nth_error l (Z.to_nat (i + n))
  else None.

(* singleton buffers for the members of the clusters being exploded *)
Fixpoint explode (X : list fpv) (initial_mol : Z) (ids : list Z) : option (list sub) :=
  match ids with
  | [] => Some []
  | i :: tl =>
      match py_nth X (i - initial_mol), explode X initial_mol tl with
      | Some fp, Some r => Some (mkSub W8 1 (map b2z fp) fp [i] :: r)
      | _, _ => None
      end
  end.
Fixpoint explode_all (X : list fpv) (initial_mol : Z) (bfs : list sub) : option (list sub) :=
  match bfs with
  | [] => Some []
  | b :: tl =>
      match explode X initial_mol (sids b), explode_all X initial_mol tl with
      | Some a, Some r => Some (a ++ r)
      | _, _ => None
      end
  end.

Definition delete_internal (st : state) : state * outcome :=
  match root st with
  | None => (st, Err)
  | Some r =>
      if released st then (st, Err)
      else match r with
           | Leaf _ _ _ _ => (st, Ok)
           | Inner _ _ _ =>
               (mkSt (cfg st) (root st) (sax st) (nfit st) true (nfeat st), Ok)
           end
  end.

(* _bf_to_np_refine *)
Definition refine_groups (st : state) (X : list fpv) (initial_mol n_largest : Z)
  : option (list (width * list sub)) :=
  if n_largest =? 0 then Some (prepare_groups (sorted_leaves st))
  else if n_largest <? 1 then None
  else
    let bfs := sorted_leaves st in
    let k := Z.to_nat n_largest in
    let largest := firstn k bfs in
    let rest := skipn k bfs in
    match largest with
    | [] => None                                       (* largest[0] -> IndexError *)
    | _ =>
        match explode_all X initial_mol largest with
        | None => None
        | Some singles =>
            Some (fold_left (fun gs b => group_add W8 b gs) singles (prepare_groups rest))
        end
    end.

Definition do_refine (st : state) (X : list fpv) (initial_mol n_largest : Z)
  : state * outcome :=
  if negb (is_init st) then (st, Err)
  else
    match delete_internal st with
    | (st1, Err) => (st1, Err)
    | (st1, Ok) =>
        match refine_groups st1 X initial_mol n_largest with
        | None => (st1, Err)
        | Some gs => fit_groups (reset_st st1) gs
        end
    end.

Definition permute {A} (l : list A) (p : list nat) : list A :=
  flat_map (fun i => match nth_error l i with Some x => [x] | None => [] end) p.

Definition count_singletons (bfs : list sub) : Z :=
  zlen (filter (fun b => sn b =? 1) bfs).

Definition set_thr (st : state) (t : float) : state :=
  mkSt (mkCfg (c_crit (cfg st)) t (c_bf (cfg st))) (root st) (sax st) (nfit st)
       (released st) (nfeat st).

Fixpoint recluster_loop (iters : nat) (st : state) (extra : float) (perms : list (list nat))
         (stop_early : bool) (before : Z) : state * outcome :=
  match iters with
  | O => (st, Ok)
  | S k =>
      let bfs := sorted_leaves st in
      let sing := count_singletons bfs in
      if stop_early && ((sing =? 0) || (sing =? before)) then (st, Ok)
      else
        let '(bfs', perms') := match perms with
                               | p :: ps => (permute bfs p, ps)
                               | [] => (bfs, [])
                               end in
        let gs := prepare_groups bfs' in
        let st1 := set_thr (reset_st st) (c_thr (cfg st) + extra)%float in
        match fit_groups st1 gs with
        | (st2, Ok) => recluster_loop k st2 extra perms' stop_early sing
        | r => r
        end
  end.

Definition do_recluster (st : state) (iters : nat) (extra : float) (perms : list (list nat))
           (stop_early : bool) : state * outcome :=
  if negb (is_init st) then (st, Err)
  else recluster_loop iters st extra perms stop_early 0.

Definition step (st : state) (o : op) : state * outcome :=
  match o with
  | OFit rows labels => do_fit st rows labels
  | ORefine X im nl => do_refine st X im nl
  | ORecluster it ex ps se => do_recluster st it ex ps se
  | OSetCfg c t b =>
      let cf := cfg st in
      (mkSt (mkCfg (match c with Some x => x | None => c_crit cf end)
                   (match t with Some x => x | None => c_thr cf end)
                   (match b with Some x => x | None => c_bf cf end))
            (root st) (sax st) (nfit st) (released st) (nfeat st), Ok)
  | ODeleteInternal => delete_internal st
  | OReset => (reset_st st, Ok)
  end.

Definition run (c : config) (ops : list op) : state :=
  fold_left (fun st o => fst (step st o)) ops (init c).

(* get_assignments(check_valid=True): None = ValueError / IndexError *)
Definition assignments (st : state) : option (list Z) :=
  let n := Z.to_nat (nfit st) in
  let cl := clusters st in
  let fix assign (k : Z) (cls : list (list Z)) (a : list Z) : option (list Z) :=
      match cls with
      | [] => Some a
      | ids :: tl =>
          let fix put (ids : list Z) (a : list Z) : option (list Z) :=
              match ids with
              | [] => Some a
              | i :: r =>
                  if (0 <=? i) && (i <? Z.of_nat (length a))
                  then put r (upd (Z.to_nat i) k a) else None
              end in
          match put ids a with Some a' => assign (k + 1) tl a' | None => None end
      end in
  match assign 1 cl (repeat 0 n) with
  | Some a => if existsb (fun x => x =? 0) a then None else Some a
  | None => None
  end.
End WithExp.
