(* Analysis.v — cluster_analysis (bblean/analysis.py) and the Dunn / CHI / DBI indices
   (bblean/metrics.py).  Hand model, executable.  Floating-point SUMS over rows (np.dot,
   np.sum of float arrays) are not modelled bit-exactly: the model exposes the TERMS
   (bit-exact) and the correspondence compares the implementation with their exact sum. *)
From BB Require Export Model.Sim.
Open Scope Z_scope.

(* ---------- cluster_analysis ---------- *)
(* selection of the clusters that are analysed: in order, stop at the first one smaller than
   min_size or at position top *)
Fixpoint select_clusters (cls : list (list Z)) (i : Z) (top : option Z) (min_size : Z)
  : list (list Z) :=
  match cls with
  | [] => []
  | c :: tl =>
      if zlen c <? min_size then []
      else if match top with Some t => t <=? i | None => false end then []
      else c :: select_clusters tl (i + 1) top min_size
  end.

(* insertion sort ascending (sorted(c)) *)
Fixpoint ins_asc (x : Z) (l : list Z) : list Z :=
  match l with [] => [x] | y :: tl => if x <=? y then x :: y :: tl else y :: ins_asc x tl end.
Definition sort_asc (l : list Z) : list Z := fold_right ins_asc [] l.

Record analysis := mkAnalysis {
  a_sizes : list Z;            (* sizes of the selected clusters *)
  a_isims : list float;        (* iSIM of each selected cluster *)
  a_total : Z;                 (* total number of fingerprints *)
  a_nclusters : Z;
  a_singletons : Z;
  a_all_sizes : list Z
}.

Definition rows_of (nf : nat) (rows : list fpv) (ids : list Z) : list fpv :=
  map (fun i => nth (Z.to_nat i) rows (repeat false nf)) ids.

Definition cluster_analysis (nf : nat) (rows : list fpv) (cls : list (list Z))
           (top : option Z) (min_size : Z) : analysis :=
  let sel := select_clusters cls 0 top min_size in
  let sizes := map zlen cls in
  mkAnalysis (map zlen sel)
             (map (fun c => isim_f (colsum nf (rows_of nf rows (sort_asc c))) (zlen c)) sel)
             (zsum sizes) (zlen cls) (zlen (filter (fun s => s =? 1) sizes)) sizes.
Definition clusters_above (a : analysis) (size : Z) : Z :=
  zlen (filter (fun s => size <? s) (a_all_sizes a)).

(* ---------- Dunn ---------- *)
(* Python's builtin max over a list / min(x, acc) *)
Definition py_max_list (l : list float) : float :=
  match l with [] => nan | x :: tl => fold_left (fun acc y => if PrimFloat.ltb acc y then y else acc) tl x end.
Definition py_min2 (x acc : float) : float := if PrimFloat.ltb acc x then acc else x.   (* min(x, acc) *)

Definition cl_isim (nf : nat) (cl : list fpv) : float := isim_f (colsum nf cl) (zlen cl).
Fixpoint dunn_pairs (nf : nat) (cls : list (list fpv)) (acc : float) : float :=
  match cls with
  | [] => acc
  | c1 :: tl =>
      let acc' := fold_left (fun a c2 =>
                    py_min2 (1 - isim_f (map2 Z.add (colsum nf c1) (colsum nf c2)) (zlen c1 + zlen c2))%float a)
                  tl acc in
      dunn_pairs nf tl acc'
  end.
Definition dunn (nf : nat) (cls : list (list fpv)) : float :=
  let D := map (cl_isim nf) cls in
  let max_d := py_max_list D in
  if PrimFloat.eqb max_d 0 then 1%float
  else (dunn_pairs nf cls 1 / py_max_list D)%float.

(* ---------- CHI / DBI: the bit-exact terms ---------- *)
Definition cl_centroid (nf : nat) (cl : list fpv) : fpv := centroid_fpv (colsum nf cl) (zlen cl).
(* per cluster: (size, 1 - sim(global centroid, cluster centroid), [1 - sim(row, centroid)]) *)
Definition chi_terms (nf : nat) (cls : list (list fpv)) : list (Z * float * list float) :=
  let all := concat cls in
  let g := centroid_fpv (colsum nf all) (zlen all) in
  map (fun cl => let c := cl_centroid nf cl in
                 (zlen cl, (1 - sim g c)%float, map (fun r => (1 - sim r c)%float) cl)) cls.
(* per cluster: [1 - sim(row, centroid)]; and the matrix of 1 - sim(centroid_i, centroid_j) *)
Definition dbi_terms (nf : nat) (cls : list (list fpv)) : list (list float) * list (list float) :=
  let cs := map (cl_centroid nf) cls in
  (map (fun cl => let c := cl_centroid nf cl in map (fun r => (1 - sim r c)%float) cl) cls,
   map (fun ci => map (fun cj => (1 - sim ci cj)%float) cs) cs).
