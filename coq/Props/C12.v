(* C12 — Tanimoto, centroid, medoid and bit-packing primitives are exact.
   Statements only; each is closed by [exact <lemma>]. *)
From BB Require Import Model.Sim Proofs.BitsFacts Proofs.FloatFacts.
From Coq Require Import Lia.
Open Scope Z_scope.

(* unpacking inverts packing for every feature count *)
Theorem C12_unpack_pack : forall bits : fpv,
    unpack (Some (Z.of_nat (length bits))) (pack bits) = bits.
Proof. exact unpack_pack. Qed.

(* both popcount code paths count exactly the set bits *)
Theorem C12_popcount_paths : forall bs, Forall (fun b => 0 <= b < 256) bs ->
    (length bs mod 8 = 0)%nat -> popcount_words bs = popcount_bytes bs.
Proof. exact popcount_words_bytes. Qed.
Theorem C12_popcount_card : forall bits, Z.of_nat (length bits) < 2 ^ 31 ->
    popcount (pack bits) = card bits.
Proof. exact popcount_pack. Qed.

(* the packed kernel computes the Tanimoto of the bit vectors, |A∧B| / max(|A|+|B|-|A∧B|, 1) *)
Theorem C12_packed_is_unpacked : forall a b, length a = length b ->
    Z.of_nat (length a) < 2 ^ 30 -> sim_packed (pack a) (pack b) = sim a b.
Proof. exact sim_packed_pack. Qed.
Theorem C12_incl_excl : forall a b, length a = length b ->
    card (map2 orb a b) = card a + card b - card (andv a b).
Proof. exact card_incl_excl. Qed.
Theorem C12_symmetric : forall a b, length a = length b -> Z.of_nat (length a) < 2 ^ 30 ->
    sim_packed (pack a) (pack b) = sim_packed (pack b) (pack a).
Proof. exact sim_packed_sym. Qed.

(* majority vote with ties set *)
Theorem C12_centroid_majority : forall ls n, 2 <= n < 2 ^ 53 ->
    Forall (fun k => 0 <= k <= n) ls ->
    centroid_fpv ls n = map (fun k => n <=? 2 * k) ls.
Proof. exact centroid_majority. Qed.

(* the hypotheses are satisfiable by a non-trivial input *)
Example C12_nonvacuous :
  let a := [true; false; true; true; false; false; true; false; true; true] in
  let b := [true; true; false; true; false; false; false; false; true; false] in
  length a = length b /\ unpack (Some 10) (pack a) = a /\
  sim_packed (pack a) (pack b) = (3 / 7)%float.
Proof. vm_compute. repeat split. Qed.
