(* C12 — Tanimoto, centroid, medoid and bit-packing primitives are exact.
   Statements only; each is closed by [exact <lemma>]. *)
From BB Require Import Model.Sim Proofs.BitsFacts.
From Coq Require Import ZArith List Reals Lia.
From Flocq Require Import Core BinarySingleNaN.
From Flocq Require Import IEEE754.PrimFloat.
From BB Require Import Proofs.FloatFacts Proofs.KernelFacts Proofs.GenTieSim Gen.GSim.
Import ListNotations.
Open Scope Z_scope.
#[local] Existing Instance Hprec.
#[local] Existing Instance Hmax.

(* unpacking inverts packing for every feature count *)
Theorem C12_unpack_pack : forall bits : fpv,
    unpack (Some (Z.of_nat (length bits))) (pack bits) = bits.
Proof. exact unpack_pack. Qed.

(* both popcount code paths count exactly the set bits *)
Theorem C12_popcount_paths : forall bs, Forall (fun b => 0 <= b < 256) bs ->
    (length bs mod 8 = 0)%nat -> popcount_words bs = popcount_bytes bs.
Proof. exact popcount_words_bytes. Qed.
Theorem C12_popcount_card : forall bits, Z.of_nat (length bits) < 2 ^ 31 ->
    popcount (pack bits) = card bits.
Proof. exact popcount_pack. Qed.

(* the packed kernel computes the Tanimoto of the bit vectors, |A∧B| / max(|A|+|B|-|A∧B|, 1) *)
Theorem C12_packed_is_unpacked : forall a b, length a = length b ->
    Z.of_nat (length a) < 2 ^ 30 -> sim_packed (pack a) (pack b) = sim a b.
Proof. exact sim_packed_pack. Qed.
Theorem C12_incl_excl : forall a b, length a = length b ->
    card (map2 orb a b) = card a + card b - card (andv a b).
Proof. exact card_incl_excl. Qed.
Theorem C12_symmetric : forall a b, length a = length b -> Z.of_nat (length a) < 2 ^ 30 ->
    sim_packed (pack a) (pack b) = sim_packed (pack b) (pack a).
Proof. exact sim_packed_sym. Qed.

(* majority vote with ties set *)
Theorem C12_centroid_majority : forall ls n, 2 <= n < 2 ^ 53 ->
    Forall (fun k => 0 <= k <= n) ls ->
    centroid_fpv ls n = map (fun k => n <=? 2 * k) ls.
Proof. exact centroid_majority. Qed.

(* exactness: the correctly rounded quotient |A and B| / |A or B| for a non-empty union,
   and 0 (a finite value in [0,1]) for an empty one *)
Theorem C12_tanimoto_exact : forall a b, length a = length b -> Z.of_nat (length a) < 2 ^ 30 ->
    0 < card (map2 orb a b) ->
    is_finite (Prim2B (sim_packed (pack a) (pack b))) = true /\
    B2R (Prim2B (sim_packed (pack a) (pack b))) =
      rnd64 (IZR (card (andv a b)) / IZR (card (map2 orb a b)))%R.
Proof. exact sim_packed_exact. Qed.
Theorem C12_tanimoto_empty_union : forall a b, length a = length b ->
    Z.of_nat (length a) < 2 ^ 30 -> card (map2 orb a b) = 0 ->
    sim_packed (pack a) (pack b) = 0%float.
Proof. exact sim_packed_empty. Qed.
Theorem C12_range : forall a b, Z.of_nat (length a) < 2 ^ 52 -> Z.of_nat (length b) < 2 ^ 52 ->
    is_nan_f (sim a b) = false /\ PrimFloat.leb 0 (sim a b) = true /\ PrimFloat.leb (sim a b) 1 = true.
Proof. exact sim_range. Qed.

(* matrix form = pairwise form *)
Theorem C12_matrix_entry : forall X i j, (i < length X)%nat -> (j < length X)%nat ->
    nth j (nth i (sim_matrix_packed X) []) 0%float =
    if Nat.eqb i j then 1%float
    else sim_packed (nth (Nat.min i j) X []) (nth (Nat.max i j) X []).
Proof. exact sim_matrix_entry. Qed.
Theorem C12_matrix_symmetric : forall X i j, (i < length X)%nat -> (j < length X)%nat ->
    nth j (nth i (sim_matrix_packed X) []) 0%float = nth i (nth j (sim_matrix_packed X) []) 0%float.
Proof. exact sim_matrix_sym. Qed.

(* most-dissimilar search: valid indices, similarities to exactly those rows *)
Theorem C12_most_dissimilar : forall nf Y f1 f2 s1 s2, Y <> [] ->
    most_dissimilar nf Y = (f1, f2, s1, s2) ->
    (f1 < length Y)%nat /\ (f2 < length Y)%nat /\
    s1 = map (fun y => sim y (nth f1 Y [])) Y /\ s2 = map (fun y => sim y (nth f2 Y [])) Y /\
    f2 = argmin_f s1.
Proof. exact most_dissimilar_spec. Qed.

(* medoid: a member minimising complementary similarity, first on ties *)
Theorem C12_medoid : forall nf rows, (3 <= length rows)%nat -> no_nan (compl_isim nf rows) ->
    let i := medoid_index nf rows in let cs := compl_isim nf rows in
    (i < length rows)%nat /\
    (forall j, (j < length rows)%nat -> PrimFloat.ltb (nth j cs 0%float) (nth i cs 0%float) = false) /\
    (forall j, (j < i)%nat -> PrimFloat.ltb (nth i cs 0%float) (nth j cs 0%float) = true).
Proof. exact medoid_spec. Qed.

(* centroid_from_sum is the translated source *)
Theorem C12_source_tie_centroid : forall ls n,
    GSim.centroid_from_sum ls n false = centroid_vals ls n /\
    GSim.centroid_from_sum ls n true = centroid_packed ls n.
Proof. intros; split; [exact (tie_centroid_vals ls n) | exact (tie_centroid_packed ls n)]. Qed.

(* the hypotheses are satisfiable by a non-trivial input *)
Example C12_nonvacuous :
  let a := [true; false; true; true; false; false; true; false; true; true] in
  let b := [true; true; false; true; false; false; false; false; true; false] in
  length a = length b /\ unpack (Some 10) (pack a) = a /\
  sim_packed (pack a) (pack b) = (3 / 7)%float.
Proof. vm_compute. repeat split. Qed.
