(* C12 — Tanimoto, centroid, medoid and bit-packing primitives are exact.
   Statements only; each is closed by [exact <lemma>]. *)
From BB Require Import Model.Sim Proofs.BitsFacts.
From Coq Require Import ZArith List Reals Lia.
From Flocq Require Import Core BinarySingleNaN.
From Flocq Require Import IEEE754.PrimFloat.
From BB Require Import Proofs.FloatFacts Proofs.KernelFacts Proofs.GenTieSim Gen.GSim.
Import ListNotations.
Open Scope Z_scope.
#[local] Existing Instance Hprec.
#[local] Existing Instance Hmax.

(* unpacking inverts packing for every feature count *)
Theorem C12_unpack_pack : forall bits : fpv,
    unpack (Some (Z.of_nat (length bits))) (pack bits) = bits.
Proof. exact unpack_pack. Qed.

(* both popcount code paths count exactly the set bits *)
Theorem C12_popcount_paths : forall bs, Forall (fun b => 0 <= b < 256) bs ->
    (length bs mod 8 = 0)%nat -> popcount_words bs = popcount_bytes bs.
Proof. exact popcount_words_bytes. Qed.
Theorem C12_popcount_card : forall bits, Z.of_nat (length bits) < 2 ^ 31 ->
    popcount (pack bits) = card bits.
Proof. exact popcount_pack. Qed.

(* the packed kernel computes the Tanimoto of the bit vectors, |A∧B| / max(|A|+|B|-|A∧B|, 1) *)
Theorem C12_packed_is_unpacked : forall a b, length a = length b ->
    Z.of_nat (length a) < 2 ^ 30 -> sim_packed (pack a) (pack b) = sim a b.
Proof. exact sim_packed_pack. Qed.
Theorem C12_incl_excl : forall a b, length a = length b ->
    card (map2 orb a b) = card a + card b - card (andv a b).
Proof. exact card_incl_excl. Qed.
Theorem C12_symmetric : forall a b, length a = length b -> Z.of_nat (length a) < 2 ^ 30 ->
    sim_packed (pack a) (pack b) = sim_packed (pack b) (pack a).
Proof. exact sim_packed_sym. Qed.

(* majority vote with ties set *)
Theorem C12_centroid_majority : forall ls n, 2 <= n < 2 ^ 53 ->
    Forall (fun k => 0 <= k <= n) ls ->
    centroid_fpv ls n = map (fun k => n <=? 2 * k) ls.
Proof. exact centroid_majority. Qed.

(* exactness: the correctly rounded quotient |A and B| / |A or B| for a non-empty union,
   and 0 (a finite value in [0,1]) for an empty one *)
Theorem C12_tanimoto_exact : forall a b, length a = length b -> Z.of_nat (length a) < 2 ^ 30 ->
    0 < card (map2 orb a b) ->
    is_finite (Prim2B (sim_packed (pack a) (pack b))) = true /\
    B2R (Prim2B (sim_packed (pack a) (pack b))) =
      rnd64 (IZR (card (andv a b)) / IZR (card (map2 orb a b)))%R.
Proof. exact sim_packed_exact. Qed.
Theorem C12_tanimoto_empty_union : forall a b, length a = length b ->
    Z.of_nat (length a) < 2 ^ 30 -> card (map2 orb a b) = 0 ->
    sim_packed (pack a) (pack b) = 0%float.
Proof. exact sim_packed_empty. Qed.
Theorem C12_range : forall a b, Z.of_nat (length a) < 2 ^ 52 -> Z.of_nat (length b) < 2 ^ 52 ->
    is_nan_f (sim a b) = false /\ PrimFloat.leb 0 (sim a b) = true /\ PrimFloat.leb (sim a b) 1 = true.
Proof. exact sim_range. Qed.

(* matrix form = pairwise form *)
Theorem C12_matrix_entry : forall X i j, (i < length X)%nat -> (j < length X)%nat ->
    nth j (nth i (sim_matrix_packed X) []) 0%float =
    if Nat.eqb i j then 1%float
    else sim_packed (nth (Nat.min i j) X []) (nth (Nat.max i j) X []).
Proof. exact sim_matrix_entry. Qed.
Theorem C12_matrix_symmetric : forall X i j, (i < length X)%nat -> (j < length X)%nat ->
    nth j (nth i (sim_matrix_packed X) []) 0%float = nth i (nth j (sim_matrix_packed X) []) 0%float.
Proof. exact sim_matrix_sym. Qed.

(* most-dissimilar search: valid indices, similarities to exactly those rows *)
Theorem C12_most_dissimilar : forall nf Y f1 f2 s1 s2, Y <> [] ->
    most_dissimilar nf Y = (f1, f2, s1, s2) ->
    (f1 < length Y)%nat /\ (f2 < length Y)%nat /\
    s1 = map (fun y => sim y (nth f1 Y [])) Y /\ s2 = map (fun y => sim y (nth f2 Y [])) Y /\
    f2 = argmin_f s1.
Proof. exact most_dissimilar_spec. Qed.

(* medoid: a member minimising complementary similarity, first on ties *)
Theorem C12_medoid : forall nf rows, (3 <= length rows)%nat -> no_nan (compl_isim nf rows) ->
    let i := medoid_index nf rows in let cs := compl_isim nf rows in
    (i < length rows)%nat /\
    (forall j, (j < length rows)%nat -> PrimFloat.ltb (nth j cs 0%float) (nth i cs 0%float) = false) /\
    (forall j, (j < i)%nat -> PrimFloat.ltb (nth i cs 0%float) (nth j cs 0%float) = true).
Proof. exact medoid_spec. Qed.

(* centroid_from_sum is the translated source *)
Theorem C12_source_tie_centroid : forall ls n,
    GSim.centroid_from_sum ls n false = centroid_vals ls n /\
    GSim.centroid_from_sum ls n true = centroid_packed ls n.
Proof. intros; split; [exact (tie_centroid_vals ls n) | exact (tie_centroid_packed ls n)]. Qed.

(* the hypotheses are satisfiable by a non-trivial input *)
Example C12_nonvacuous :
  let a := [true; false; true; true; false; false; true; false; true; true] in
  let b := [true; true; false; true; false; false; false; false; true; false] in
  length a = length b /\ unpack (Some 10) (pack a) = a /\
  sim_packed (pack a) (pack b) = (3 / 7)%float.
Proof. vm_compute. repeat split. Qed.

(* ---- further clauses (Proofs/SimMore.v) ----
   the poles of the most-dissimilar search (first pole: a row least similar to the majority
   centroid, first on ties; second pole: least similar to the first; also in exact integer
   cross-multiplied form, I = |a and b|, U = max(|a or b|, 1)); medoid on fewer than three rows
   and with NaN entries; the complementary similarity of row i is the iSIM of the other rows;
   centroid of a single row and of any rows *)
From BB Require Import Proofs.OrderFacts Proofs.SimMore.
Theorem C12_first_pole_farthest_from_centroid : forall nf Y f1 f2 s1 s2,
  Y <> [] ->
  Forall (fun y : fpv => Z.of_nat (length y) < 2 ^ 52) Y -> Z.of_nat nf < 2 ^ 52 ->
  most_dissimilar nf Y = (f1, f2, s1, s2) ->
  let sc := map (fun y => sim y (centroid_fpv (colsum nf Y) (zlen Y))) Y in
  (f1 < length Y)%nat /\
  (forall j, (j < length Y)%nat ->
     PrimFloat.ltb (nth j sc 0%float) (nth f1 sc 0%float) = false) /\
  (forall j, (j < f1)%nat ->
     PrimFloat.ltb (nth f1 sc 0%float) (nth j sc 0%float) = true).
Proof. exact most_dissimilar_first_pole_bounded. Qed.
Theorem C12_second_pole_farthest_from_first : forall nf Y f1 f2 s1 s2,
  Y <> [] ->
  Forall (fun y : fpv => Z.of_nat (length y) < 2 ^ 52) Y ->
  most_dissimilar nf Y = (f1, f2, s1, s2) ->
  (f2 < length Y)%nat /\
  (forall j, (j < length Y)%nat ->
     PrimFloat.ltb (nth j s1 0%float) (nth f2 s1 0%float) = false) /\
  (forall j, (j < f2)%nat ->
     PrimFloat.ltb (nth f2 s1 0%float) (nth j s1 0%float) = true).
Proof. exact most_dissimilar_second_pole_bounded. Qed.
Theorem C12_poles_exact_rational : forall nf Y f1 f2 s1 s2,
  Y <> [] ->
  Forall (fun y : fpv => Z.of_nat (length y) < 2 ^ 25) Y -> Z.of_nat nf < 2 ^ 25 ->
  most_dissimilar nf Y = (f1, f2, s1, s2) ->
  let c := centroid_fpv (colsum nf Y) (zlen Y) in
  let r k := nth k Y [] in
  (forall j, (j < length Y)%nat -> I (r f1) c * U (r j) c <= I (r j) c * U (r f1) c) /\
  (forall j, (j < f1)%nat -> I (r f1) c * U (r j) c < I (r j) c * U (r f1) c) /\
  (forall j, (j < length Y)%nat ->
     I (r f2) (r f1) * U (r j) (r f1) <= I (r j) (r f1) * U (r f2) (r f1)) /\
  (forall j, (j < f2)%nat ->
     I (r f2) (r f1) * U (r j) (r f1) < I (r j) (r f1) * U (r f2) (r f1)).
Proof. exact most_dissimilar_poles_exact. Qed.
Theorem C12_pole_self_similarity : forall nf Y f1 f2 s1 s2,
  Y <> [] ->
  most_dissimilar nf Y = (f1, f2, s1, s2) ->
  let y1 := nth f1 Y [] in
  let y2 := nth f2 Y [] in
  (0 < card y1 -> Z.of_nat (length y1) < 2 ^ 53 -> nth f1 s1 0%float = 1%float) /\
  (card y1 = 0 -> nth f1 s1 0%float = 0%float) /\
  (0 < card y2 -> Z.of_nat (length y2) < 2 ^ 53 -> nth f2 s2 0%float = 1%float) /\
  (card y2 = 0 -> nth f2 s2 0%float = 0%float).
Proof. exact most_dissimilar_self_sim. Qed.
Theorem C12_medoid_small : forall nf rows,
  (length rows < 3)%nat ->
  medoid_index nf rows = O /\ compl_isim nf rows = map (fun _ => nan) rows.
Proof. exact medoid_small. Qed.
Theorem C12_medoid_in_range_always : forall nf rows,
  rows <> [] ->
  (medoid_index nf rows < length rows)%nat.
Proof. exact medoid_in_range_always. Qed.
Theorem C12_medoid_first_nan : forall nf rows k,
  (3 <= length rows)%nat -> (k < length rows)%nat ->
  (forall j, (j < k)%nat -> is_nan_f (nth j (compl_isim nf rows) 0%float) = false) ->
  is_nan_f (nth k (compl_isim nf rows) 0%float) = true ->
  medoid_index nf rows = k.
Proof. exact medoid_first_nan. Qed.
Theorem C12_compl_isim_is_leave_one_out : forall nf (rows : list fpv) (i : nat) (d : PrimFloat.float),
  (3 <= length rows)%nat -> Forall (fun r : fpv => length r = nf) rows ->
  (i < length rows)%nat ->
  nth i (compl_isim nf rows) d = isim_f (colsum nf (remove_nth i rows)) (zlen rows - 1) /\
  zlen (remove_nth i rows) = zlen rows - 1.
Proof. exact compl_isim_is_leave_one_out. Qed.
Theorem C12_centroid_single_row : forall nf (r : fpv),
  length r = nf ->
  centroid_fpv (colsum nf [r]) 1 = r.
Proof. exact centroid_single_row. Qed.
Theorem C12_centroid_of_rows_majority : forall nf (rows : list fpv),
  1 <= zlen rows < 2 ^ 53 ->
  centroid_fpv (colsum nf rows) (zlen rows) =
  map (fun k => zlen rows <=? 2 * k) (colsum nf rows).
Proof. exact centroid_of_rows1. Qed.
Theorem C12_centroid_single_member_cast : forall ls n,
  n <= 1 ->
  centroid_fpv ls n = map (fun k => negb (k mod 256 =? 0)) ls.
Proof. exact centroid_fpv_le1. Qed.
