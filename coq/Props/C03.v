(* C03 — clusters respect the similarity threshold.  Statements only. *)
From BB Require Import Model.Birch Proofs.TreeSums Proofs.BirchDefs Proofs.BirchInv
     Proofs.BirchRebuild Proofs.BirchBound.
From BB Require Proofs.MergeFacts.
Open Scope Z_scope.

(* Every reported cluster with two or more members meets the promise of a (criterion,
   threshold) pair that was in force during the history ([pairs_of] collects the pairs used
   by every fit / refine / recluster iteration): its iSIM (diameter family) or radius
   complement (radius family) is not below that threshold.  never-merge promises nothing
   and never merges. *)
Theorem C03_bound : forall fexp cfg0 ops,
  2 <= c_bf cfg0 -> ops_wf fexp (init cfg0) ops -> ops_perms_ok fexp (init cfg0) ops ->
  Forall (bound_ok (pairs_of fexp (init cfg0) ops)) (sorted_leaves (run fexp cfg0 ops)).
Proof. exact run_reported_bound. Qed.

Theorem C03_never_merge : forall H st, st_inv st -> leaves_bound H st ->
  (forall c t, In (c, t) H -> exists a b d, c = CNever a b d) ->
  Forall (fun s => sn s <= 1) (sorted_leaves st).
Proof. exact never_merge_singletons. Qed.

(* a cluster only ever grows through an accepted merge, and the criterion saw exactly the
   sums that are stored afterwards *)
Theorem C03_merge_meets : forall fexp c thr s t m, sub_exact s -> sub_exact t ->
  length (sls s) = length (sls t) -> sn s + sn t < 2 ^ 64 ->
  merge_sub fexp c thr s t = Some m -> meets c thr m.
Proof. exact merge_bound. Qed.

(* for non-NaN statistics "not below" is ">=" *)
Theorem C03_not_below_is_ge : forall fexp c thr nl nn ol ml on mn,
  accept fexp c thr nl nn ol ml on mn = true ->
  let f := match c with CRadius | CTolRadius _ _ _ => MergeFacts.FRad | _ => MergeFacts.FDiam end in
  is_nan_f (MergeFacts.stat f nl nn) = false -> is_nan_f thr = false ->
  fge (MergeFacts.stat f nl nn) thr = true.
Proof. exact MergeFacts.accept_stat_ge. Qed.
