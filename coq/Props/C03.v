(* C03 — clusters respect the similarity threshold.  Statements only. *)
From BB Require Import Model.Birch Proofs.TreeSums Proofs.BirchDefs Proofs.BirchInv
     Proofs.BirchRebuild Proofs.BirchBound.
From BB Require Proofs.MergeFacts.
Open Scope Z_scope.

(* Every reported cluster with two or more members meets the promise of a (criterion,
   threshold) pair that was in force during the history ([pairs_of] collects the pairs used
   by every fit / refine / recluster iteration): its iSIM (diameter family) or radius
   complement (radius family) is not below that threshold.  never-merge promises nothing
   and never merges. *)
Theorem C03_bound : forall fexp cfg0 ops,
  2 <= c_bf cfg0 -> ops_wf fexp (init cfg0) ops -> ops_perms_ok fexp (init cfg0) ops ->
  Forall (bound_ok (pairs_of fexp (init cfg0) ops)) (sorted_leaves (run fexp cfg0 ops)).
Proof. exact run_reported_bound. Qed.

Theorem C03_never_merge : forall H st, st_inv st -> leaves_bound H st ->
  (forall c t, In (c, t) H -> exists a b d, c = CNever a b d) ->
  Forall (fun s => sn s <= 1) (sorted_leaves st).
Proof. exact never_merge_singletons. Qed.

(* a cluster only ever grows through an accepted merge, and the criterion saw exactly the
   sums that are stored afterwards *)
Theorem C03_merge_meets : forall fexp c thr s t m, sub_exact s -> sub_exact t ->
  length (sls s) = length (sls t) -> sn s + sn t < 2 ^ 64 ->
  merge_sub fexp c thr s t = Some m -> meets c thr m.
Proof. exact merge_bound. Qed.

(* for non-NaN statistics "not below" is ">=" *)
Theorem C03_not_below_is_ge : forall fexp c thr nl nn ol ml on mn,
  accept fexp c thr nl nn ol ml on mn = true ->
  let f := match c with CRadius | CTolRadius _ _ _ => MergeFacts.FRad | _ => MergeFacts.FDiam end in
  is_nan_f (MergeFacts.stat f nl nn) = false -> is_nan_f thr = false ->
  fge (MergeFacts.stat f nl nn) thr = true.
Proof. exact MergeFacts.accept_stat_ge. Qed.

(* ---- the pair IN FORCE WHEN THE CLUSTER LAST GREW (Proofs/BirchBoundG.v) ----
   [same_cluster a b]: same members, same per-bit sums, same count. *)
From BB Require Import Proofs.BirchBoundG.

(* one operation: every reported cluster afterwards is a singleton, or IS a cluster reported
   before (unchanged), or meets a (criterion, threshold) pair in force during THIS operation *)
Theorem C03_step_grown : forall fexp st o,
  st_inv st -> nf_ok st -> numbered st -> op_wf st o -> op_perms_ok fexp st o ->
  Forall (grown_ok (sorted_leaves st) (op_pairs st o)) (sorted_leaves (fst (step fexp st o))).
Proof. exact step_grown. Qed.

(* whole histories: for every reported cluster with two or more members there is an operation o
   of the history such that the cluster meets a pair in force during o, is a cluster of the state
   right after o, and is a cluster (same members, same sums) of every later state — it has not
   grown since *)
Theorem C03_last_grown : forall fexp cfg0 ops,
  2 <= c_bf cfg0 -> ops_wf fexp (init cfg0) ops -> ops_perms_ok fexp (init cfg0) ops ->
  Forall (fun s => sn s <= 1 \/
            exists pre o post st_k c t,
              ops = pre ++ o :: post /\ st_k = run fexp cfg0 pre /\
              In (c, t) (op_pairs st_k o) /\ meets c t s /\
              (exists s1, In s1 (sorted_leaves (fst (step fexp st_k o))) /\ same_cluster s1 s) /\
              (forall post1 post2, post = post1 ++ post2 ->
                 exists s2, In s2 (sorted_leaves (run fexp cfg0 (pre ++ o :: post1))) /\ same_cluster s2 s))
         (sorted_leaves (run fexp cfg0 ops)).
Proof. exact run_last_grown. Qed.

(* the same with caller-supplied member labels (multi-round merge rounds, refine with labels) *)
From BB Require Import Proofs.BirchLabels Proofs.Small2.
Theorem C03_last_grown_labels : forall fexp cfg0 ops,
  2 <= c_bf cfg0 -> ops_wf_l fexp (init cfg0) ops -> ops_perms_ok fexp (init cfg0) ops ->
  Forall (fun s => sn s <= 1 \/
            exists pre o post st_k c t,
              ops = pre ++ o :: post /\ st_k = run fexp cfg0 pre /\
              In (c, t) (op_pairs st_k o) /\ meets c t s /\
              (exists s1, In s1 (sorted_leaves (fst (step fexp st_k o))) /\ same_cluster s1 s) /\
              (forall post1 post2, post = post1 ++ post2 ->
                 exists s2, In s2 (sorted_leaves (run fexp cfg0 (pre ++ o :: post1))) /\ same_cluster s2 s))
         (sorted_leaves (run fexp cfg0 ops)).
Proof. exact run_last_grown_l. Qed.
Theorem C03_step_grown_labels : forall fexp st o,
  st_inv st -> nf_ok st -> op_wf_l st o -> op_perms_ok fexp st o ->
  Forall (grown_ok (sorted_leaves st) (op_pairs st o)) (sorted_leaves (fst (step fexp st o))).
Proof. exact step_grown_l. Qed.

(* ---- the multi-round workflow (Proofs/MrBound.v) ----
   [mr_pairs c]: the (criterion, threshold) pairs a run has in force — the initial criterion at
   the threshold, the midsection and the final criterion (with the tolerance) at threshold + change.
   Every cluster of the final file is the member list of a leaf cluster of one tree, and every such
   cluster with two or more members meets one of these pairs; runs over any number of files, any
   rounds, bin size, refinement mode, with or without cleanup. *)
From Coq Require Import String.
From BB Require Import Model.Multiround Proofs.MrBound.
Theorem C03_multiround_bound : forall fexp nf (c : mr_cfg) (files : list (list fpv)) d,
  Z.of_nat nf < 2 ^ 52 ->
  Forall (Forall (fun fp : fpv => List.length fp = nf)) files ->
  zlen (List.concat files) < 2 ^ 64 ->
  2 <= m_bf c -> (1 <= m_bin c)%nat ->
  run_multiround fexp c files [] = Some d ->
  exists cl, dir_get d "clusters.pkl"%string = Some (CClusters cl) /\
    forall l, In l cl -> (List.length l <= 1)%nat \/
      exists s k t, sids s = l /\ sn s = zlen l /\ In (k, t) (mr_pairs fexp c) /\ meets k t s.
Proof. exact multiround_bound_clusters. Qed.

Example C03_multiround_bound_nonvacuous :
  exists d st,
    run_multiround MrBound.Demo.fid MrBound.Demo.c MrBound.Demo.files [] = Some d /\
    dir_get d "clusters.pkl"%string = Some (CClusters (clusters st)) /\
    clusters st = [[0; 1; 4]; [2; 3]] /\
    Forall (bound_ok (mr_pairs MrBound.Demo.fid MrBound.Demo.c)) (sorted_leaves st).
Proof. exact MrBound.Demo.multiround_bound_nonvacuous. Qed.
