(* C15 — CLI clustering commands equal the API over their whole option space.
   Statements only.  The option space is finite in its discrete part; what is proved here is
   the decision logic the CLI adds on top of the API (Model/Cli.v); that the commands produce
   the API's outputs is tied by suite `cli` (CliRunner vs direct API calls). *)
From BB Require Import Model.Cli Proofs.CliFacts.
Open Scope Z_scope.

(* a non-empty output directory is refused unless overwriting is requested ... *)
Theorem C15_nonempty_refused : forall ex isd ne ow,
  validate_out ex isd ne ow = VdErrHasFiles <-> (ex = true /\ isd = true /\ ne = true /\ ow = false).
Proof. exact refused_iff. Qed.
(* ... in which case it is cleared (and the run goes on) *)
Theorem C15_overwrite : forall ex isd ne,
  validate_out ex isd ne true = VdCleared <-> (ex = true /\ isd = true /\ ne = true).
Proof. exact overwrite_clears. Qed.
Theorem C15_overwrite_never_refuses : forall ex isd ne, validate_out ex isd ne true <> VdErrHasFiles.
Proof. exact overwrite_never_refuses. Qed.

(* for every documented combination of criterion names, tolerance, thresholds and round
   counts, the configuration steps of `bb run` complete *)
Theorem C15_run_config_total : forall fexp o,
  ro_merge o <> NUnknown -> ro_refine_merge o <> NUnknown -> plan_config fexp o <> None.
Proof. exact plan_config_total. Qed.

(* option normalisation *)
Theorem C15_refine_options : forall num rounds, 0 <= num ->
  match rounds with Some r => 0 <= r | None => True end ->
  let '(n', r') := norm_refine num rounds in
  0 <= r' /\ (0 < r' -> 1 <= n') /\ (rounds = None -> r' = if 0 <? num then 1 else 0) /\
  (0 < num -> n' = num).
Proof. exact norm_refine_spec. Qed.

(* every input file is fitted exactly once, in sorted order *)
Theorem C15_plan_fits_all_files : forall o n,
  filter (fun a => match a with AFitFile _ => true | _ => false end) (run_plan o n) =
  map AFitFile (seq 0 n).
Proof. exact run_plan_fits. Qed.

(* the complete case table of the output-directory validation *)
From BB Require Import Proofs.CliTable.
Theorem C15_validate_table : forall ex isd ne ow,
  (validate_out ex isd ne ow = VdOk <-> (ex = false \/ (isd = true /\ ne = false))) /\
  (validate_out ex isd ne ow = VdCleared <->
     (ex = true /\ isd = true /\ ne = true /\ ow = true)) /\
  (validate_out ex isd ne ow = VdErrHasFiles <->
     (ex = true /\ isd = true /\ ne = true /\ ow = false)) /\
  (validate_out ex isd ne ow = VdErrNotDir <-> (ex = true /\ isd = false)).
Proof. exact validate_total. Qed.

(* the tree, when requested, is saved exactly once: after every call that changes the estimator and
   right before the results are read out, so the saved tree is the one the API sequence produces;
   when not requested no save call is made *)
Theorem C15_tree_saved_last : forall o n,
  exists pre, Forall (fun a => is_out a = false) pre /\
    run_plan o n = pre ++ (if ro_save_tree o then [ASaveTree; ASave] else [ASave]).
Proof. exact run_plan_tree_last. Qed.

(* the option normalisation and the plan are the ones in the source: Gen/GCli.v is regenerated from
   bblean/cli.py:_run on every run (normalisation translated; plan extracted statement by statement) *)
From BB Require Import Gen.GCli Proofs.GenTieCli.
Theorem C15_source_tie_refine_options : forall n r, GCli.norm_refine n r = Cli.norm_refine n r.
Proof. exact tie_norm_refine. Qed.
Theorem C15_source_tie_plan : forall o n, GCli.run_plan o n = Cli.run_plan o n.
Proof. exact tie_run_plan. Qed.

(* the output-directory validation is the one in the source: Gen/GCliVd.v is the decision tree of
   bblean/cli.py:_validate_output_dir extracted on every run (conditions exists / is_dir /
   any(iterdir) / overwrite; leaves: nothing, RuntimeError, rmtree followed by mkdir), and both
   clustering commands call it as _validate_output_dir(out_dir, overwrite) *)
From BB Require Import Gen.GCliVd Proofs.GenTieCliVd.
From Coq Require Import String List.
Theorem C15_source_tie_validate_out : forall e d n o,
  GCliVd.validate_out e d n o = Cli.validate_out e d n o.
Proof. exact tie_validate_out. Qed.
Theorem C15_source_tie_validate_sites :
  In "_run"%string GCliVd.validate_call_sites /\ In "_multiround"%string GCliVd.validate_call_sites.
Proof. exact tie_validate_sites. Qed.
