(* C15 — CLI clustering commands equal the API over their whole option space.
   Statements only.  The option space is finite in its discrete part; what is proved here is
   the decision logic the CLI adds on top of the API (Model/Cli.v); that the commands produce
   the API's outputs is tied by suite `cli` (CliRunner vs direct API calls). *)
From BB Require Import Model.Cli Proofs.CliFacts.
Open Scope Z_scope.

(* a non-empty output directory is refused unless overwriting is requested ... *)
Theorem C15_nonempty_refused : forall ex isd ne ow,
  validate_out ex isd ne ow = VdErrHasFiles <-> (ex = true /\ isd = true /\ ne = true /\ ow = false).
Proof. exact refused_iff. Qed.
(* ... in which case it is cleared (and the run goes on) *)
Theorem C15_overwrite : forall ex isd ne,
  validate_out ex isd ne true = VdCleared <-> (ex = true /\ isd = true /\ ne = true).
Proof. exact overwrite_clears. Qed.
Theorem C15_overwrite_never_refuses : forall ex isd ne, validate_out ex isd ne true <> VdErrHasFiles.
Proof. exact overwrite_never_refuses. Qed.

(* for every documented combination of criterion names, tolerance, thresholds and round
   counts, the configuration steps of `bb run` complete *)
Theorem C15_run_config_total : forall fexp o,
  ro_merge o <> NUnknown -> ro_refine_merge o <> NUnknown -> plan_config fexp o <> None.
Proof. exact plan_config_total. Qed.

(* option normalisation *)
Theorem C15_refine_options : forall num rounds, 0 <= num ->
  match rounds with Some r => 0 <= r | None => True end ->
  let '(n', r') := norm_refine num rounds in
  0 <= r' /\ (0 < r' -> 1 <= n') /\ (rounds = None -> r' = if 0 <? num then 1 else 0) /\
  (0 < num -> n' = num).
Proof. exact norm_refine_spec. Qed.

(* every input file is fitted exactly once, in sorted order *)
Theorem C15_plan_fits_all_files : forall o n,
  filter (fun a => match a with AFitFile _ => true | _ => false end) (run_plan o n) =
  map AFitFile (seq 0 n).
Proof. exact run_plan_fits. Qed.

(* the complete case table of the output-directory validation *)
From BB Require Import Proofs.CliTable.
Theorem C15_validate_table : forall ex isd ne ow,
  (validate_out ex isd ne ow = VdOk <-> (ex = false \/ (isd = true /\ ne = false))) /\
  (validate_out ex isd ne ow = VdCleared <->
     (ex = true /\ isd = true /\ ne = true /\ ow = true)) /\
  (validate_out ex isd ne ow = VdErrHasFiles <->
     (ex = true /\ isd = true /\ ne = true /\ ow = false)) /\
  (validate_out ex isd ne ow = VdErrNotDir <-> (ex = true /\ isd = false)).
Proof. exact validate_total. Qed.

(* the tree, when requested, is saved exactly once: after every call that changes the estimator and
   right before the results are read out, so the saved tree is the one the API sequence produces;
   when not requested no save call is made *)
Theorem C15_tree_saved_last : forall o n,
  exists pre, Forall (fun a => is_out a = false) pre /\
    run_plan o n = pre ++ (if ro_save_tree o then [ASaveTree; ASave] else [ASave]).
Proof. exact run_plan_tree_last. Qed.

(* the option normalisation and the plan are the ones in the source: Gen/GCli.v is regenerated from
   bblean/cli.py:_run on every run (normalisation translated; plan extracted statement by statement) *)
From BB Require Import Gen.GCli Proofs.GenTieCli.
Theorem C15_source_tie_refine_options : forall n r, GCli.norm_refine n r = Cli.norm_refine n r.
Proof. exact tie_norm_refine. Qed.
Theorem C15_source_tie_plan : forall o n, GCli.run_plan o n = Cli.run_plan o n.
Proof. exact tie_run_plan. Qed.

(* the output-directory validation is the one in the source: Gen/GCliVd.v is the decision tree of
   bblean/cli.py:_validate_output_dir extracted on every run (conditions exists / is_dir /
   any(iterdir) / overwrite; leaves: nothing, RuntimeError, rmtree followed by mkdir), and both
   clustering commands call it as _validate_output_dir(out_dir, overwrite) *)
From BB Require Import Gen.GCliVd Proofs.GenTieCliVd.
From Coq Require Import String List.
Theorem C15_source_tie_validate_out : forall e d n o,
  GCliVd.validate_out e d n o = Cli.validate_out e d n o.
Proof. exact tie_validate_out. Qed.
Theorem C15_source_tie_validate_sites :
  In "_run"%string GCliVd.validate_call_sites /\ In "_multiround"%string GCliVd.validate_call_sites.
Proof. exact tie_validate_sites. Qed.

(* ---- the command's outputs through the estimator model (Proofs/CliRun.v) ----
   plan_ops gives the extracted plan a denotation as estimator operations (constructor; one fit per file in
   name order with default labels; set_merge; refine on all rows; recluster with the recorded shuffles);
   cli_run aborts at the first failing call.  The command IS the API script api_ops (closed form of the
   plan), and the estimator theorems hold of what it writes: the reported clusters partition the rows of
   all files numbered in name order, every reported centroid is the majority vote of its members' rows,
   every cluster of two or more members meets the --set-merge criterion at --threshold or the
   --set-refine-merge criterion at threshold + change; and for builtin names and non-empty files the
   command does not abort.  CliRun.Demo.cli_partition_without_perms_ok_refuted: a shuffle that is not a
   permutation loses rows, so that hypothesis on the recorded shuffles is needed. *)
From BB Require Import Model.Birch Proofs.CliRun.
From Coq Require Import List Permutation.
Theorem C15_run_is_api_script : forall fexp o files perms st,
  cli_run fexp o files perms = Some st ->
  exists cfg0, api_cfg0 fexp o = Some cfg0 /\ plan_config fexp o <> None /\
    st = run fexp cfg0 (api_ops fexp o files perms).
Proof. exact cli_run_is_api_run. Qed.
Theorem C15_run_partition : forall fexp nf o files perms st,
  2 <= ro_bf o -> files_ok nf files -> cli_perms_ok fexp o files perms ->
  cli_run fexp o files perms = Some st ->
  Permutation (concat (clusters st)) (zseq 0 (length (concat files))) /\
  NoDup (concat (clusters st)) /\ nfit st = zlen (concat files).
Proof. exact cli_partition. Qed.
Theorem C15_run_centroids_exact : forall fexp nf o files perms st,
  2 <= ro_bf o -> files_ok nf files -> cli_perms_ok fexp o files perms ->
  cli_run fexp o files perms = Some st ->
  length (centroids st) = length (clusters st) /\
  forall k ids, nth_error (clusters st) k = Some ids ->
    ids <> nil /\
    (zlen ids < 2 ^ 53 ->
     nth_error (centroids st) k =
       Some (map (fun c => zlen ids <=? 2 * c) (colsum nf (map (file_data files) ids)))).
Proof. exact cli_centroids_exact. Qed.
Theorem C15_run_bound : forall fexp nf o files perms st,
  2 <= ro_bf o -> files_ok nf files -> cli_perms_ok fexp o files perms ->
  cli_run fexp o files perms = Some st ->
  Forall (fun s => sn s <= 1 \/ exists c t, cli_pair_ok fexp o (c, t) /\ BirchBound.meets c t s)
         (sorted_leaves st).
Proof. exact cli_bound_pairs. Qed.
Theorem C15_run_total : forall fexp nf o files perms,
  ro_merge o <> NUnknown -> ro_refine_merge o <> NUnknown -> 2 <= ro_bf o -> 0 <= ro_refine_num o ->
  files_ok nf files -> files <> nil -> Forall (fun f : list fpv => f <> nil) files ->
  cli_perms_ok fexp o files perms -> exists st, cli_run fexp o files perms = Some st.
Proof. exact cli_run_total. Qed.
