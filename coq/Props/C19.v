(* C19 — cluster analysis and quality indices do not depend on representation.
   Statements only.  (CHI and DBI contain floating-point sums over rows whose bits depend on
   the summation order; for them the theorems say that the multiset of bit-exact TERMS is
   invariant — the property's "up to floating-point summation order".) *)
From BB Require Import Model.Analysis Proofs.KernelFacts Proofs.AnalysisFacts.
From Coq Require Import Permutation.
Open Scope Z_scope.

(* which clusters are analysed: a prefix, all of size >= min_size, at most top, maximal *)
Theorem C19_selection : forall cls top ms,
  (exists rest, cls = select_clusters cls 0 top ms ++ rest) /\
  Forall (fun c => ms <= zlen c) (select_clusters cls 0 top ms).
Proof. intros. split; [exact (select_prefix cls top ms) | exact (select_sizes cls top ms)]. Qed.
Theorem C19_selection_maximal : forall cls top ms rest,
  match top with Some t => 0 <= t | None => True end ->
  cls = select_clusters cls 0 top ms ++ rest ->
  rest = [] \/ exists c r, rest = c :: r /\
     (zlen c < ms \/ top = Some (zlen (select_clusters cls 0 top ms))).
Proof. exact select_maximal_alt. Qed.

(* sizes, global counts, and each iSIM = the directly computed value *)
Theorem C19_counts : forall nf rows cls top ms,
  let a := cluster_analysis nf rows cls top ms in
  a_sizes a = map zlen (select_clusters cls 0 top ms) /\
  a_total a = zsum (map zlen cls) /\ a_nclusters a = zlen cls /\
  a_all_sizes a = map zlen cls /\ length (a_isims a) = length (a_sizes a).
Proof. exact analysis_counts. Qed.
Theorem C19_isim_direct : forall nf rows cls top ms k,
  let a := cluster_analysis nf rows cls top ms in
  let c := nth k (select_clusters cls 0 top ms) [] in
  nth k (a_isims a) nan = isim_f (colsum nf (rows_of nf rows (sort_asc c))) (zlen c).
Proof. exact analysis_isim_nth. Qed.
Theorem C19_member_order_irrelevant : forall nf rows c c', Permutation c c' ->
  isim_f (colsum nf (rows_of nf rows (sort_asc c))) (zlen c) =
  isim_f (colsum nf (rows_of nf rows (sort_asc c'))) (zlen c').
Proof. exact analysis_isim_row_order. Qed.

(* Dunn: exactly invariant to the order of rows inside clusters, and (float-)equal for any
   order of clusters as long as no value is NaN (i.e. no singleton cluster: see the open
   finding below) *)
Theorem C19_dunn_rows : forall nf cls cls',
  Forall2 (fun a b => Permutation a b) cls cls' -> dunn nf cls' = dunn nf cls.
Proof. exact dunn_row_order. Qed.
Theorem C19_dunn_clusters : forall nf cls cls', Permutation cls cls' ->
  no_nan (map (cl_isim nf) cls) -> no_nan (pair_vals nf cls) ->
  PrimFloat.eqb (dunn nf cls) (dunn nf cls') = true \/
  (is_nan_f (dunn nf cls) = true /\ is_nan_f (dunn nf cls') = true).
Proof. exact dunn_cluster_order. Qed.

(* CHI / DBI: the same multiset of bit-exact terms under any order of clusters and rows *)
Theorem C19_chi_clusters : forall nf cls cls', Permutation cls cls' ->
  Permutation (chi_terms nf cls) (chi_terms nf cls').
Proof. exact chi_terms_cluster_order. Qed.
Theorem C19_chi_rows : forall nf cls cls', Forall2 (fun a b => Permutation a b) cls cls' ->
  Forall2 (fun t t' => fst t = fst t' /\ Permutation (snd t) (snd t'))
          (chi_terms nf cls) (chi_terms nf cls').
Proof. exact chi_terms_row_order. Qed.
Theorem C19_dbi_clusters : forall nf cls cls', Permutation cls cls' ->
  Permutation (fst (dbi_terms nf cls)) (fst (dbi_terms nf cls')).
Proof. exact dbi_rows_cluster_order. Qed.

(* OPEN FINDING (KNOWN_FINDINGS.txt, key dunn-singleton-nan-order): with a singleton cluster
   the Dunn index depends on where the singleton stands in the list *)
Theorem C19_dunn_singleton_refuted : exists nf a b s,
  PrimFloat.eqb (dunn nf [s; a; b]) (dunn nf [a; b; s]) = false /\ length s = 1%nat.
Proof. exact dunn_singleton_order_dependent. Qed.
