(* C19 — cluster analysis and quality indices do not depend on representation.
   Statements only.  (CHI and DBI contain floating-point sums over rows whose bits depend on
   the summation order; for them the theorems say that the multiset of bit-exact TERMS is
   invariant — the property's "up to floating-point summation order".) *)
From BB Require Import Model.Analysis Proofs.KernelFacts Proofs.AnalysisFacts.
From Coq Require Import Permutation.
Open Scope Z_scope.

(* which clusters are analysed: a prefix, all of size >= min_size, at most top, maximal *)
Theorem C19_selection : forall cls top ms,
  (exists rest, cls = select_clusters cls 0 top ms ++ rest) /\
  Forall (fun c => ms <= zlen c) (select_clusters cls 0 top ms).
Proof. intros. split; [exact (select_prefix cls top ms) | exact (select_sizes cls top ms)]. Qed.
Theorem C19_selection_maximal : forall cls top ms rest,
  match top with Some t => 0 <= t | None => True end ->
  cls = select_clusters cls 0 top ms ++ rest ->
  rest = [] \/ exists c r, rest = c :: r /\
     (zlen c < ms \/ top = Some (zlen (select_clusters cls 0 top ms))).
Proof. exact select_maximal_alt. Qed.

(* sizes, global counts, and each iSIM = the directly computed value *)
Theorem C19_counts : forall nf rows cls top ms,
  let a := cluster_analysis nf rows cls top ms in
  a_sizes a = map zlen (select_clusters cls 0 top ms) /\
  a_total a = zsum (map zlen cls) /\ a_nclusters a = zlen cls /\
  a_all_sizes a = map zlen cls /\ length (a_isims a) = length (a_sizes a).
Proof. exact analysis_counts. Qed.
Theorem C19_isim_direct : forall nf rows cls top ms k,
  let a := cluster_analysis nf rows cls top ms in
  let c := nth k (select_clusters cls 0 top ms) [] in
  nth k (a_isims a) nan = isim_f (colsum nf (rows_of nf rows (sort_asc c))) (zlen c).
Proof. exact analysis_isim_nth. Qed.
Theorem C19_member_order_irrelevant : forall nf rows c c', Permutation c c' ->
  isim_f (colsum nf (rows_of nf rows (sort_asc c))) (zlen c) =
  isim_f (colsum nf (rows_of nf rows (sort_asc c'))) (zlen c').
Proof. exact analysis_isim_row_order. Qed.

(* Dunn: exactly invariant to the order of rows inside clusters, and (float-)equal for any
   order of clusters as long as no value is NaN (i.e. no singleton cluster: see the open
   finding below) *)
Theorem C19_dunn_rows : forall nf cls cls',
  Forall2 (fun a b => Permutation a b) cls cls' -> dunn nf cls' = dunn nf cls.
Proof. exact dunn_row_order. Qed.
Theorem C19_dunn_clusters : forall nf cls cls', Permutation cls cls' ->
  no_nan (map (cl_isim nf) cls) -> no_nan (pair_vals nf cls) ->
  PrimFloat.eqb (dunn nf cls) (dunn nf cls') = true \/
  (is_nan_f (dunn nf cls) = true /\ is_nan_f (dunn nf cls') = true).
Proof. exact dunn_cluster_order. Qed.

(* CHI / DBI: the same multiset of bit-exact terms under any order of clusters and rows *)
Theorem C19_chi_clusters : forall nf cls cls', Permutation cls cls' ->
  Permutation (chi_terms nf cls) (chi_terms nf cls').
Proof. exact chi_terms_cluster_order. Qed.
Theorem C19_chi_rows : forall nf cls cls', Forall2 (fun a b => Permutation a b) cls cls' ->
  Forall2 (fun t t' => fst t = fst t' /\ Permutation (snd t) (snd t'))
          (chi_terms nf cls) (chi_terms nf cls').
Proof. exact chi_terms_row_order. Qed.
Theorem C19_dbi_clusters : forall nf cls cls', Permutation cls cls' ->
  Permutation (fst (dbi_terms nf cls)) (fst (dbi_terms nf cls')).
Proof. exact dbi_rows_cluster_order. Qed.

(* OPEN FINDING (KNOWN_FINDINGS.txt, key dunn-singleton-nan-order): with a singleton cluster
   the Dunn index depends on where the singleton stands in the list *)
Theorem C19_dunn_singleton_refuted : exists nf a b s,
  PrimFloat.eqb (dunn nf [s; a; b]) (dunn nf [a; b; s]) = false /\ length s = 1%nat.
Proof. exact dunn_singleton_order_dependent. Qed.

(* ---- global counts, DBI matrix, CHI terms, Dunn without singletons (Proofs/AnalysisMore.v) ---- *)
From BB Require Import Model.Birch Proofs.AnalysisMore.
Theorem C19_analysis_singletons : forall nf rows cls top ms,
  a_singletons (cluster_analysis nf rows cls top ms) =
  zlen (filter (fun c => zlen c =? 1) cls).
Proof. exact analysis_singletons. Qed.
Theorem C19_analysis_clusters_above : forall nf rows cls top ms size,
  clusters_above (cluster_analysis nf rows cls top ms) size =
  zlen (filter (fun c => size <? zlen c) cls).
Proof. exact analysis_clusters_above. Qed.
Theorem C19_analysis_total_is_rows : forall nf rows cls top ms N,
  Permutation (concat cls) (zseq 0 N) ->
  a_total (cluster_analysis nf rows cls top ms) = Z.of_nat N.
Proof. exact analysis_total_is_rows. Qed.
Theorem C19_analysis_counts_perm : forall nf rows cls cls' top ms top' ms',
  Permutation cls cls' ->
  let a := cluster_analysis nf rows cls top ms in
  let a' := cluster_analysis nf rows cls' top' ms' in
  a_total a = a_total a' /\
  a_nclusters a = a_nclusters a' /\
  a_singletons a = a_singletons a' /\
  (forall size, clusters_above a size = clusters_above a' size) /\
  Permutation (a_all_sizes a) (a_all_sizes a').
Proof. exact analysis_counts_perm. Qed.
Theorem C19_analysis_counts_rows : forall nf rows cls cls' top ms,
  Forall2 (fun a b => Permutation a b) cls cls' ->
  let a := cluster_analysis nf rows cls top ms in
  let a' := cluster_analysis nf rows cls' top ms in
  a_sizes a = a_sizes a' /\
  a_isims a = a_isims a' /\
  a_total a = a_total a' /\
  a_nclusters a = a_nclusters a' /\
  a_singletons a = a_singletons a' /\
  a_all_sizes a = a_all_sizes a' /\
  (forall size, clusters_above a size = clusters_above a' size).
Proof. exact analysis_counts_rows. Qed.
Theorem C19_dbi_terms_row_order : forall nf cls cls',
  Forall2 (fun a b => Permutation a b) cls cls' ->
  Forall2 (fun t t' => Permutation t t') (fst (dbi_terms nf cls)) (fst (dbi_terms nf cls')) /\
  snd (dbi_terms nf cls) = snd (dbi_terms nf cls').
Proof. exact dbi_terms_row_order. Qed.
Theorem C19_dbi_matrix_entry : forall nf cls i j d,
  (i < length cls)%nat -> (j < length cls)%nat ->
  nth j (nth i (snd (dbi_terms nf cls)) []) d =
  (1 - sim (cl_centroid nf (nth i cls [])) (cl_centroid nf (nth j cls [])))%float.
Proof. exact dbi_matrix_entry. Qed.
Theorem C19_dbi_matrix_symmetric : forall nf cls i j d,
  (i < length cls)%nat -> (j < length cls)%nat ->
  nth j (nth i (snd (dbi_terms nf cls)) []) d =
  nth i (nth j (snd (dbi_terms nf cls)) []) d.
Proof. exact dbi_matrix_symmetric. Qed.
Theorem C19_dbi_matrix_cluster_order : forall nf cls cls' d,
  Permutation cls cls' ->
  length cls' = length cls /\
  exists f : nat -> nat,
    (forall i, (i < length cls')%nat -> (f i < length cls)%nat) /\
    (forall i j, (i < length cls')%nat -> (j < length cls')%nat -> f i = f j -> i = j) /\
    (forall i, (i < length cls')%nat -> nth i cls' [] = nth (f i) cls []) /\
    (forall i j, (i < length cls')%nat -> (j < length cls')%nat ->
       nth j (nth i (snd (dbi_terms nf cls')) []) d =
       nth (f j) (nth (f i) (snd (dbi_terms nf cls)) []) d).
Proof. exact dbi_matrix_cluster_order. Qed.
Theorem C19_chi_terms_spec : forall nf cls k d,
  (k < length cls)%nat ->
  nth k (chi_terms nf cls) d =
  (let cl := nth k cls [] in
   let c := cl_centroid nf cl in
   let g := chi_global nf cls in
   (zlen cl, (1 - sim g c)%float, map (fun r => (1 - sim r c)%float) cl)).
Proof. exact chi_terms_spec. Qed.
Theorem C19_chi_global_centroid_invariant : forall nf cls cls',
  (Permutation cls cls' -> chi_global nf cls' = chi_global nf cls) /\
  (Forall2 (fun a b => Permutation a b) cls cls' -> chi_global nf cls' = chi_global nf cls).
Proof. exact chi_global_centroid_invariant. Qed.
Theorem C19_dunn_cluster_order_no_singletons : forall nf cls cls' B,
  Permutation cls cls' ->
  Forall (fun cl => 2 <= zlen cl <= B) cls ->
  (2 * B) * (2 * B) * Z.of_nat nf < 2 ^ 52 ->
  PrimFloat.eqb (dunn nf cls) (dunn nf cls') = true \/
  (is_nan_f (dunn nf cls) = true /\ is_nan_f (dunn nf cls') = true).
Proof. exact dunn_cluster_order_no_singletons. Qed.
