(* C05 — the multi-round workflow partitions the global index space with exact summaries.
   Statements only.  Model/Multiround.v (the workflow as a function on a directory);
   Proofs/MrTasks.v, MrStrings.v, MrDir.v, MrPartition.v.
   G i is the i-th input fingerprint, numbered in input-file order. *)
From BB Require Import Model.Multiround Proofs.MrTasks Proofs.MrPartition Proofs.MrRerun.
From Coq Require Import String Permutation.
Open Scope Z_scope.
Open Scope string_scope.

(* for ANY list of files and ANY option combination (rounds, bin size, refinement mode, splitting,
   criteria, threshold change): the final clusters are a partition of 0..N-1, and the saved
   centroid list is aligned with them and is each cluster's majority-vote centroid *)
Theorem C05_partition_and_centroids : forall fexp nf (files : list (list fpv)) (c : mr_cfg),
  Z.of_nat nf < 2 ^ 52 ->
  Forall (Forall (fun fp : fpv => List.length fp = nf)) files ->
  zlen (List.concat files) < 2 ^ 64 ->
  2 <= m_bf c -> (1 <= m_bin c)%nat ->
  forall d, run_multiround fexp c files [] = Some d ->
  let G := Gmap nf files in
  let N := zlen (List.concat files) in
  exists cl,
    dir_get d "clusters.pkl" = Some (CClusters cl) /\
    Permutation (List.concat cl) (zseq 0 (Z.to_nat N)) /\
    NoDup (List.concat cl) /\
    (m_save_centroids c = true ->
     exists cs, dir_get d "cluster-centroids-packed.pkl" = Some (CCentroids cs) /\
       List.length cs = List.length cl /\
       Forall2 (fun cen ids => cen = centroid_fpv (colsum nf (map G ids)) (zlen ids)) cs cl).
Proof. exact multiround_partition_gen. Qed.

(* every buffer file left by any round is paired (same suffix) with its own member lists:
   row k of the buffer is the exact per-bit sum and count of member list k *)
Theorem C05_pairs_aligned : forall fexp nf (files : list (list fpv)) (c : mr_cfg),
  Z.of_nat nf < 2 ^ 52 ->
  Forall (Forall (fun fp : fpv => List.length fp = nf)) files ->
  zlen (List.concat files) < 2 ^ 64 ->
  2 <= m_bf c -> (1 <= m_bin c)%nat ->
  forall d, m_cleanup c = false -> run_multiround fexp c files [] = Some d ->
  forall r l w b i,
    dir_get d (bufs_name r l w) = Some b -> dir_get d (idxs_name r l w) = Some i ->
    pair_aligned (Gmap nf files) nf b i /\ good_pair nf b i.
Proof. exact multiround_pairs_aligned. Qed.

(* the glob-and-zip of the next round hands over exactly these pairs, and together they carry
   every index exactly once *)
Theorem C05_handed_over : forall nf (files : list (list fpv)),
  forall d r, 1 <= r -> rinv nf files d r ->
  Forall (ok_pair (Gmap nf files) nf) (read_pairs d (prev_pairs d r)) /\
  Permutation (ids_of (read_pairs d (prev_pairs d r)))
              (zseq 0 (Z.to_nat (zlen (List.concat files)))).
Proof. exact handed_over_ok. Qed.

(* the same from a used output directory (C14): the final files are those of the fresh run *)
Theorem C05_any_directory : forall fexp c files d0,
  dir_wf d0 ->
  match run_multiround fexp c files d0, run_multiround fexp c files [] with
  | Some d, Some e =>
      dir_get d "clusters.pkl" = dir_get e "clusters.pkl" /\
      dir_get d "cluster-centroids-packed.pkl" = dir_get e "cluster-centroids-packed.pkl"
  | None, None => True
  | _, _ => False
  end.
Proof.
  intros fexp c files d0 H. pose proof (rerun_equals_fresh fexp c files d0 H) as R.
  destruct (run_multiround fexp c files d0), (run_multiround fexp c files []); try exact R.
  destruct R as (A & B & _). split; assumption.
Qed.

(* non-vacuity: a concrete two-file run with one midsection round succeeds, keeps its round
   files, and its clusters are not trivial *)
Example C05_nonvacuous :
  let files := [[[true;true;false;false;true;false;false;false];
                 [true;true;false;false;false;false;false;false];
                 [false;false;true;true;false;false;true;false]];
                [[false;false;true;true;false;false;false;false];
                 [true;true;false;false;true;false;false;true]]] in
  let c := mkMr 3 0.5 0 0.0625 NDiameter NDiameter None 1 2 RFull true true false in
  match run_multiround (fun x => x) c files [] with
  | Some d => dir_get d "clusters.pkl" = Some (CClusters [[0; 1; 4]; [2; 3]])
              /\ (List.length d > 4)%nat
  | None => False
  end.
Proof. vm_compute. split; [reflexivity | repeat constructor]. Qed.

(* ---- composition with C12: the saved centroids ARE the per-bit majority of their clusters ---- *)
From BB Require Import Proofs.Compose.
Theorem C05_centroids_are_majority : forall fexp nf (files : list (list fpv)) (c : mr_cfg) d,
  Z.of_nat nf < 2 ^ 52 ->
  Forall (Forall (fun fp : fpv => List.length fp = nf)) files ->
  zlen (List.concat files) < 2 ^ 53 ->
  2 <= m_bf c -> (1 <= m_bin c)%nat ->
  run_multiround fexp c files [] = Some d ->
  let G := Gmap nf files in
  let N := zlen (List.concat files) in
  exists cl,
    dir_get d "clusters.pkl" = Some (CClusters cl) /\
    Permutation (List.concat cl) (zseq 0 (Z.to_nat N)) /\
    NoDup (List.concat cl) /\
    (m_save_centroids c = true ->
     exists cs, dir_get d "cluster-centroids-packed.pkl" = Some (CCentroids cs) /\
       List.length cs = List.length cl /\
       Forall2 (fun cen ids => ids <> [] ->
                  cen = map (fun k => zlen ids <=? 2 * k) (colsum nf (map G ids))) cs cl).
Proof. exact multiround_centroids_majority. Qed.

(* ---- source ties (Gen/GMr.v is regenerated from bblean/multiround.py on every run) ---- *)
From BB Require Import Gen.NumpySem Gen.GMr Proofs.GenTieMr.
(* the two files a task writes per dtype group are named as in the model ... *)
Theorem C05_source_tie_names : forall od label r w,
  GMr.save_names od label r (dtype_name w) = [bufs_name r label w; idxs_name r label w].
Proof. exact tie_save_names. Qed.
(* ... and the next round collects them with the model's two globs (then zips the sorted lists) *)
Theorem C05_source_tie_globs : forall r n, 0 <= r ->
  is_bufs_of r n = glob_match (GMr.prev_bufs_glob (r + 1)) n /\
  is_idxs_of r n = glob_match (GMr.prev_idxs_glob (r + 1)) n.
Proof. intros r n H. split; [exact (tie_prev_bufs r n H) | exact (tie_prev_idxs r n H)]. Qed.

(* ---- the run does not fail (Proofs/MrTotal.v) ----
   all other workflow theorems take the success of the run as a hypothesis; conversely, for every
   non-empty list of non-empty files of equal-width rows and every option combination whose criterion
   names are builtin names, the modelled run succeeds.  Each hypothesis that is not a mere proof
   artefact is shown necessary by a failing instance (MrTotal.Demo: no files, an empty file, an unknown
   criterion name, bin size 0 with a midsection round). *)
From BB Require Import Proofs.MrBound Proofs.MrTotal.
Theorem C05_run_succeeds : forall fexp nf (c : mr_cfg) (files : list (list fpv)),
  Z.of_nat nf < 2 ^ 52 ->
  Forall (Forall (fun fp : fpv => List.length fp = nf)) files ->
  zlen (List.concat files) < 2 ^ 64 ->
  2 <= m_bf c -> (1 <= m_bin c)%nat ->
  files <> [] -> Forall (fun f : list fpv => f <> []) files ->
  m_init_crit c <> NUnknown -> m_mid_crit c <> NUnknown -> m_final_crit c <> Some NUnknown ->
  exists d, run_multiround fexp c files [] = Some d.
Proof. exact multiround_succeeds. Qed.
Example C05_empty_file_fails :
  run_multiround MrBound.Demo.fid MrBound.Demo.c [[MrTotal.Demo.r0]; []] [] = None.
Proof. exact MrTotal.Demo.empty_file_fails. Qed.
