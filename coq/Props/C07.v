(* C07 — conformance to the BitBIRCH insertion algorithm.  Statements only.
   Model/Spec.v is the reference procedure over member lists (no caches, stored sums or
   counter widths: every quantity is recomputed from the members' fingerprints). *)
From BB Require Import Model.Birch Model.Spec Proofs.TreeDefs Proofs.TreeShape Proofs.TreeSums
     Proofs.BirchDefs Proofs.BirchInv Proofs.BirchData Proofs.SpecRefine.
Open Scope Z_scope.

(* one insertion of the implementation model = one insertion of the reference procedure *)
Theorem C07_insert_refines : forall fexp D nf c thr,
  (forall a b : fpv, length a = nf -> length b = nf -> PrimFloat.ltb (sim a a) (sim a b) = false) ->
  forall bf root s ax root' ax',
  1 <= bf -> shape nf root -> sums_ok nf root -> Forall cnt_ok (lsubs root) ->
  Forall (data_ok D nf) (lsubs root) -> sub_len nf s -> sub_exact s -> cnt_ok s ->
  data_ok D nf s -> tot_n (lsubs root) + sn s < 2 ^ 64 ->
  insert_root fexp nf c thr bf root s ax = (root', ax') ->
  spec_insert_root fexp D nf c thr bf (abs root) (sids s) ax = (abs root', ax').
Proof. exact abs_insert_root. Qed.

(* a whole fit call, from any invariant state: same tree of member lists, same reported
   clusters *)
Theorem C07_fit_refines : forall fexp D st rows,
  st_inv st -> nf_ok st -> released st = false -> op_wf st (OFit rows None) ->
  leaves_data D st -> op_data D st (OFit rows None) ->
  let st' := fst (do_fit fexp st rows None) in
  st_inv st' /\
  abs_st st' = spec_fit fexp D (nfeat st') (c_crit (cfg st)) (c_thr (cfg st)) (c_bf (cfg st))
                        (abs_st st) rows (zseq (nfit st) (length rows)) /\
  clusters st' = spec_clusters_of (abs_st st').
Proof. exact fit_refines. Qed.

(* the summaries the implementation stores are the recomputed ones *)
Theorem C07_stored_is_recomputed : forall D nf s, sub_exact s -> cnt_ok s -> data_ok D nf s ->
  sls s = cl_sum D nf (sids s) /\ sn s = cl_n (sids s) /\ scent s = cl_cent D nf (sids s).
Proof. exact cl_facts. Qed.

(* non-vacuity: the hypotheses of C07_fit_refines hold for a first fit of five rows at branching
   factor 2 (the leaf splits) and the theorem's conclusion is obtained for it *)
From BB Require Proofs.Compose.
Example C07_nonvacuous_instance := Compose.C07Demo.C07_nonvacuous.
