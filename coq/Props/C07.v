(* C07 — conformance to the BitBIRCH insertion algorithm.  Statements only.
   Model/Spec.v is the reference procedure over member lists (no caches, stored sums or
   counter widths: every quantity is recomputed from the members' fingerprints). *)
From BB Require Import Model.Birch Model.Spec Proofs.TreeDefs Proofs.TreeShape Proofs.TreeSums
     Proofs.BirchDefs Proofs.BirchInv Proofs.BirchData Proofs.SpecRefine.
Open Scope Z_scope.

(* one insertion of the implementation model = one insertion of the reference procedure *)
Theorem C07_insert_refines : forall fexp D nf c thr,
  (forall a b : fpv, length a = nf -> length b = nf -> PrimFloat.ltb (sim a a) (sim a b) = false) ->
  forall bf root s ax root' ax',
  1 <= bf -> shape nf root -> sums_ok nf root -> Forall cnt_ok (lsubs root) ->
  Forall (data_ok D nf) (lsubs root) -> sub_len nf s -> sub_exact s -> cnt_ok s ->
  data_ok D nf s -> tot_n (lsubs root) + sn s < 2 ^ 64 ->
  insert_root fexp nf c thr bf root s ax = (root', ax') ->
  spec_insert_root fexp D nf c thr bf (abs root) (sids s) ax = (abs root', ax').
Proof. exact abs_insert_root. Qed.

(* a whole fit call, from any invariant state: same tree of member lists, same reported
   clusters *)
Theorem C07_fit_refines : forall fexp D st rows,
  st_inv st -> nf_ok st -> released st = false -> op_wf st (OFit rows None) ->
  leaves_data D st -> op_data D st (OFit rows None) ->
  let st' := fst (do_fit fexp st rows None) in
  st_inv st' /\
  abs_st st' = spec_fit fexp D (nfeat st') (c_crit (cfg st)) (c_thr (cfg st)) (c_bf (cfg st))
                        (abs_st st) rows (zseq (nfit st) (length rows)) /\
  clusters st' = spec_clusters_of (abs_st st').
Proof. exact fit_refines. Qed.

(* the summaries the implementation stores are the recomputed ones *)
Theorem C07_stored_is_recomputed : forall D nf s, sub_exact s -> cnt_ok s -> data_ok D nf s ->
  sls s = cl_sum D nf (sids s) /\ sn s = cl_n (sids s) /\ scent s = cl_cent D nf (sids s).
Proof. exact cl_facts. Qed.

(* non-vacuity: the hypotheses of C07_fit_refines hold for a first fit of five rows at branching
   factor 2 (the leaf splits) and the theorem's conclusion is obtained for it *)
From BB Require Proofs.Compose.
Example C07_nonvacuous_instance := Compose.C07Demo.C07_nonvacuous.

(* ---- the rebuild path and caller labels (Proofs/SpecRebuild.v) ----
   spec_fit_lists folds the reference insertion over whole member lists.  _fit_buffers (fit_groups: one
   dtype group after the other), fits with caller-supplied labels, one re-clustering pass and the whole
   re-clustering loop (reported clusters, shuffled if asked, grouped by counter width in first-appearance
   order, re-inserted as units into the empty tree under the new threshold) and refinement (kept clusters
   grouped first, the members of the n largest appended as singletons to the uint8 group) all refine the
   reference procedure: same tree of member lists, same reported clusters. *)
From BB Require Import Proofs.BirchRebuild Proofs.BirchLabels Proofs.SpecRebuild.
Theorem C07_fit_groups_refines : forall fexp D nf gs,
  forall st,
  st_inv st -> released st = false -> init_for nf st -> Z.of_nat nf < 2 ^ 52 ->
  groups_ok nf gs -> nfit st + tot_n (gsubs gs) < 2 ^ 64 ->
  leaves_data D st -> Forall (data_ok D nf) (gsubs gs) ->
  let st' := fst (fit_groups fexp st gs) in
  snd (fit_groups fexp st gs) = Ok /\ st_inv st' /\ leaves_data D st' /\
  released st' = false /\ init_for nf st' /\ cfg st' = cfg st /\
  nfit st' = nfit st + tot_n (gsubs gs) /\
  abs_st st' =
  spec_fit_lists_opt fexp D nf (c_crit (cfg st)) (c_thr (cfg st)) (c_bf (cfg st))
                     (abs_st st) (map sids (gsubs gs)) /\
  clusters st' = spec_clusters_of (abs_st st').
Proof. exact fit_groups_refines. Qed.
Theorem C07_fit_labels_refines : forall fexp D st rows labels,
  st_inv st -> nf_ok st -> released st = false -> op_wf_l st (OFit rows labels) ->
  leaves_data D st ->
  (forall k fp l, nth_error rows k = Some (Some fp) ->
                  nth_error (fit_labels st rows labels) k = Some l -> D l = fp) ->
  let st' := fst (do_fit fexp st rows labels) in
  st_inv st' /\ leaves_data D st' /\
  abs_st st' =
  spec_fit fexp D (nfeat st') (c_crit (cfg st)) (c_thr (cfg st)) (c_bf (cfg st))
           (abs_st st) rows (fit_labels st rows labels) /\
  clusters st' = spec_clusters_of (abs_st st').
Proof. exact fit_labels_refines. Qed.
Theorem C07_recluster_iter_refines : forall fexp D st extra p,
  st_inv st -> nf_ok st -> leaves_data D st ->
  match p with Some p => is_perm_of_len (length (sorted_leaves st)) p | None => True end ->
  let bfs := sorted_leaves st in
  let bfs' := match p with Some p => permute bfs p | None => bfs end in
  let st1 := set_thr (reset_st st) (c_thr (cfg st) + extra)%float in
  let st2 := fst (fit_groups fexp st1 (prepare_groups bfs')) in
  snd (fit_groups fexp st1 (prepare_groups bfs')) = Ok /\
  st_inv st2 /\ nf_ok st2 /\ leaves_data D st2 /\
  abs_st st2 =
  spec_recluster_iter fexp D (nfeat st) (c_crit (cfg st)) (c_bf (cfg st))
                      (c_thr (cfg st) + extra)%float (abs_st st) p /\
  clusters st2 = spec_clusters_of (abs_st st2).
Proof. exact recluster_iter_refines. Qed.
Theorem C07_do_recluster_refines : forall fexp D st iters extra perms se,
  st_inv st -> recluster_perms_ok fexp st iters extra perms se -> leaves_data D st ->
  let st' := fst (do_recluster fexp st iters extra perms se) in
  st_inv st' /\ leaves_data D st' /\
  abs_st st' =
  spec_recluster_loop fexp D (nfeat st) (c_crit (cfg st)) (c_bf (cfg st)) iters (abs_st st)
                      (c_thr (cfg st)) extra perms se 0 /\
  clusters st' = spec_clusters_of (abs_st st').
Proof. exact do_recluster_refines. Qed.
Theorem C07_refine_refines : forall fexp D st X im nl,
  st_inv st -> op_wf st (ORefine X im nl) -> leaves_data D st ->
  op_data D st (ORefine X im nl) ->
  let st' := fst (do_refine fexp st X im nl) in
  st_inv st' /\ leaves_data D st' /\
  abs_st st' =
  match snd (do_refine fexp st X im nl) with
  | Ok => spec_fit_lists_opt fexp D (nfeat st) (c_crit (cfg st)) (c_thr (cfg st)) (c_bf (cfg st))
                             None (spec_refine_order (spec_clusters_of (abs_st st)) nl)
  | Err => abs_st st
  end /\
  clusters st' = spec_clusters_of (abs_st st').
Proof. exact refine_refines. Qed.
