(* C08 — the index stays a well-formed, height-balanced summary tree.  Statements only. *)
From BB Require Import Model.Birch Proofs.TreeDefs Proofs.TreeShape Proofs.TreeChain
     Proofs.TreeSums Proofs.TreeBal Proofs.BirchDefs Proofs.BirchInv Proofs.BirchRebuild
     Proofs.PropsGlue.
From BB Require Proofs.BirchLabels.
From Coq Require Import Permutation.
Open Scope Z_scope.

(* after every operation of every documented history the tree invariant holds *)
Theorem C08_wellformed : forall fexp cfg0 ops,
  2 <= c_bf cfg0 -> ops_wf fexp (init cfg0) ops -> ops_perms_ok fexp (init cfg0) ops ->
  st_inv (run fexp cfg0 ops).
Proof. intros fexp cfg0 ops H1 H2 H3. exact (proj1 (run_inv fexp cfg0 ops H1 H2 H3)). Qed.

(* the same for histories whose fits carry caller-supplied labels (reinsert_indices) *)
Theorem C08_wellformed_labels : forall fexp cfg0 ops,
  2 <= c_bf cfg0 -> BirchLabels.ops_wf_l fexp (init cfg0) ops -> ops_perms_ok fexp (init cfg0) ops ->
  st_inv (run fexp cfg0 ops).
Proof. intros fexp cfg0 ops H1 H2 H3. exact (proj1 (BirchLabels.run_labels_inv fexp cfg0 ops H1 H2 H3)). Qed.

(* ... which is, spelled out: caches mirror the entries' centroids, the leaf chain is
   exactly the leaves once each, inner entries are the exact totals of their subtree in the
   narrowest counter width, 1..capacity entries per node, all leaves at one depth *)
Theorem C08_meaning : forall st r, st_inv st -> root st = Some r ->
  let nf := nfeat st in
  shape nf r /\ chain_ok r (sax st) /\ sums_ok nf r /\ occ_root r /\
  (exists d, depth_is d r) /\ Forall cnt_ok (lsubs r) /\ nfit st = tot_n (lsubs r).
Proof. exact st_inv_unfold. Qed.

(* and after every single insertion inside a fit / rebuild *)
Theorem C08_every_insertion : forall fexp st cf s dn r,
  st_inv st -> root st = Some r -> 2 <= c_bf cf -> sub_len (nfeat st) s -> sub_exact s ->
  cnt_ok s -> dn = sn s -> nfit st + dn < 2 ^ 64 ->
  st_inv (insert_st fexp cf st s dn).
Proof.
  intros fexp st cf s dn r H1 H2 H3 H4 H5 H6 H7 H8.
  exact (proj1 (insert_st_inv fexp st cf s dn r H1 H2 H3 H4 H5 H6 H7 H8)).
Qed.

(* the results are read from exactly the leaves of the tree *)
Theorem C08_results_from_leaves : forall st r, st_inv st -> root st = Some r ->
  Permutation (leaves_of st) (lsubs r).
Proof. exact leaves_perm. Qed.

(* counters never wrap: the width is chosen from the new count before adding *)
Theorem C08_no_wrap_update : forall s t, length (sls s) = length (sls t) ->
  sub_exact s -> sub_exact t -> sn s + sn t < 2 ^ 64 ->
  sub_exact (upd_sub s t) /\ sn (upd_sub s t) = sn s + sn t /\
  sls (upd_sub s t) = vadd (sls s) (sls t) /\ sids (upd_sub s t) = sids s ++ sids t.
Proof. exact upd_sub_exact. Qed.
Example C08_width_matters : wrap W8 (wrap W8 200 + 100) <> 300.
Proof. exact width_matters. Qed.

(* ---- the node operations are the ones in the source (Proofs/GenTieTree.v) ----
   Gen/GTree.v: the bodies of _BFNode.append_subcluster / update_split_subclusters / insert_bf_subcluster and
   of _split_node extracted as step lists on every run; Model/TreePlan.v interprets them on the tree model
   (entry list and cache rows updated together; the recursive call a parameter; the leaf-chain splice as a
   block backed by a pointer-level lemma); running the EXTRACTED bodies is Tree.insert and Tree.split_node.
   [node_ok]: cache length = number of entries, an inner node non-empty and not over-full. *)
From BB Require Import Model.TreePlan Gen.GTree Proofs.GenTieTree.
Theorem C08_source_tie_insert : forall fexp nf c thr s nd ax,
  node_ok nd ->
  run_insert fexp nf c thr GTree.add_to_body GTree.replace_body GTree.update_body GTree.merge_body
             GTree.append_body GTree.update_split_body (insert fexp nf c thr) s GTree.insert_body nd ax
  = Some (insert fexp nf c thr nd s ax).
Proof. exact insert_gen. Qed.
Theorem C08_source_tie_split_leaf : forall nf id bf es cache ax,
  match run_split_node (fun x : sub => x) GTree.update_body GTree.add_to_body GTree.append_body nf
          (Some id) bf (nid ax) GTree.split_node_body es cache (chain ax) with
  | Some ((t1, (b1, (a1, c1))), (t2, (b2, (a2, c2))), ch) =>
      Some ((t1, Leaf (nid ax) b1 a1 c1), (t2, Leaf id b2 a2 c2), mkAux (S (nid ax)) ch)
  | None => None
  end = Some (split_node nf (Leaf id bf es cache) ax).
Proof. exact split_node_leaf_gen. Qed.
Theorem C08_source_tie_split_inner : forall nf bf es cache ax,
  match run_split_node (fun x : sub * node => fst x) GTree.update_body GTree.add_to_body
          GTree.append_body nf None bf (nid ax) GTree.split_node_body (ents_list es) cache (chain ax) with
  | Some ((t1, (b1, (a1, c1))), (t2, (b2, (a2, c2))), ch) =>
      Some ((t1, Inner b1 (ents_of_list a1) c1), (t2, Inner b2 (ents_of_list a2) c2),
            mkAux (nid ax) ch)
  | None => None
  end = Some (split_node nf (Inner bf es cache) ax).
Proof. exact split_node_inner_gen. Qed.
