(* C08 — the index stays a well-formed, height-balanced summary tree.  Statements only. *)
From BB Require Import Model.Birch Proofs.TreeDefs Proofs.TreeShape Proofs.TreeChain
     Proofs.TreeSums Proofs.TreeBal Proofs.BirchDefs Proofs.BirchInv Proofs.BirchRebuild
     Proofs.PropsGlue.
From BB Require Proofs.BirchLabels.
From Coq Require Import Permutation.
Open Scope Z_scope.

(* after every operation of every documented history the tree invariant holds *)
Theorem C08_wellformed : forall fexp cfg0 ops,
  2 <= c_bf cfg0 -> ops_wf fexp (init cfg0) ops -> ops_perms_ok fexp (init cfg0) ops ->
  st_inv (run fexp cfg0 ops).
Proof. intros fexp cfg0 ops H1 H2 H3. exact (proj1 (run_inv fexp cfg0 ops H1 H2 H3)). Qed.

(* the same for histories whose fits carry caller-supplied labels (reinsert_indices) *)
Theorem C08_wellformed_labels : forall fexp cfg0 ops,
  2 <= c_bf cfg0 -> BirchLabels.ops_wf_l fexp (init cfg0) ops -> ops_perms_ok fexp (init cfg0) ops ->
  st_inv (run fexp cfg0 ops).
Proof. intros fexp cfg0 ops H1 H2 H3. exact (proj1 (BirchLabels.run_labels_inv fexp cfg0 ops H1 H2 H3)). Qed.

(* ... which is, spelled out: caches mirror the entries' centroids, the leaf chain is
   exactly the leaves once each, inner entries are the exact totals of their subtree in the
   narrowest counter width, 1..capacity entries per node, all leaves at one depth *)
Theorem C08_meaning : forall st r, st_inv st -> root st = Some r ->
  let nf := nfeat st in
  shape nf r /\ chain_ok r (sax st) /\ sums_ok nf r /\ occ_root r /\
  (exists d, depth_is d r) /\ Forall cnt_ok (lsubs r) /\ nfit st = tot_n (lsubs r).
Proof. exact st_inv_unfold. Qed.

(* and after every single insertion inside a fit / rebuild *)
Theorem C08_every_insertion : forall fexp st cf s dn r,
  st_inv st -> root st = Some r -> 2 <= c_bf cf -> sub_len (nfeat st) s -> sub_exact s ->
  cnt_ok s -> dn = sn s -> nfit st + dn < 2 ^ 64 ->
  st_inv (insert_st fexp cf st s dn).
Proof.
  intros fexp st cf s dn r H1 H2 H3 H4 H5 H6 H7 H8.
  exact (proj1 (insert_st_inv fexp st cf s dn r H1 H2 H3 H4 H5 H6 H7 H8)).
Qed.

(* the results are read from exactly the leaves of the tree *)
Theorem C08_results_from_leaves : forall st r, st_inv st -> root st = Some r ->
  Permutation (leaves_of st) (lsubs r).
Proof. exact leaves_perm. Qed.

(* counters never wrap: the width is chosen from the new count before adding *)
Theorem C08_no_wrap_update : forall s t, length (sls s) = length (sls t) ->
  sub_exact s -> sub_exact t -> sn s + sn t < 2 ^ 64 ->
  sub_exact (upd_sub s t) /\ sn (upd_sub s t) = sn s + sn t /\
  sls (upd_sub s t) = vadd (sls s) (sls t) /\ sids (upd_sub s t) = sids s ++ sids t.
Proof. exact upd_sub_exact. Qed.
Example C08_width_matters : wrap W8 (wrap W8 200 + 100) <> 300.
Proof. exact width_matters. Qed.

(* ---- the node operations are the ones in the source (Proofs/GenTieTree.v) ----
   Gen/GTree.v: the bodies of _BFNode.append_subcluster / update_split_subclusters / insert_bf_subcluster and
   of _split_node extracted as step lists on every run; Model/TreePlan.v interprets them on the tree model
   (entry list and cache rows updated together; the recursive call a parameter; the leaf-chain splice as a
   block backed by a pointer-level lemma); running the EXTRACTED bodies is Tree.insert and Tree.split_node.
   [node_ok]: cache length = number of entries, an inner node non-empty and not over-full. *)
From BB Require Import Model.TreePlan Gen.GTree Proofs.GenTieTree.
Theorem C08_source_tie_insert : forall fexp nf c thr s nd ax,
  node_ok nd ->
  run_insert fexp nf c thr GTree.add_to_body GTree.replace_body GTree.update_body GTree.merge_body
             GTree.append_body GTree.update_split_body (insert fexp nf c thr) s GTree.insert_body nd ax
  = Some (insert fexp nf c thr nd s ax).
Proof. exact insert_gen. Qed.
Theorem C08_source_tie_split_leaf : forall nf id bf es cache ax,
  match run_split_node (fun x : sub => x) GTree.update_body GTree.add_to_body GTree.append_body nf
          (Some id) bf (nid ax) GTree.split_node_body es cache (chain ax) with
  | Some ((t1, (b1, (a1, c1))), (t2, (b2, (a2, c2))), ch) =>
      Some ((t1, Leaf (nid ax) b1 a1 c1), (t2, Leaf id b2 a2 c2), mkAux (S (nid ax)) ch)
  | None => None
  end = Some (split_node nf (Leaf id bf es cache) ax).
Proof. exact split_node_leaf_gen. Qed.
Theorem C08_source_tie_split_inner : forall nf bf es cache ax,
  match run_split_node (fun x : sub * node => fst x) GTree.update_body GTree.add_to_body
          GTree.append_body nf None bf (nid ax) GTree.split_node_body (ents_list es) cache (chain ax) with
  | Some ((t1, (b1, (a1, c1))), (t2, (b2, (a2, c2))), ch) =>
      Some ((t1, Inner b1 (ents_of_list a1) c1), (t2, Inner b2 (ents_of_list a2) c2),
            mkAux (nid ax) ch)
  | None => None
  end = Some (split_node nf (Inner bf es cache) ax).
Proof. exact split_node_inner_gen. Qed.

(* ---- the source tie reaches every reachable state (Proofs/TreePlanInv.v) ----
   every node of a state satisfying st_inv is node_ok, so the insertion tie applies at every node the
   insertion visits; [row_is_source]: for the state a row meets, (1) the extracted fit loop body = one model
   insertion, (2) the extracted insert_bf_subcluster body = Tree.insert at the root and at every sub-node
   (also with the recursive calls run by the interpreter itself: insert_deep), (3) whenever the root must
   split, the extracted _split_node body = Tree.split_node.  For EVERY documented history and every fit
   after it, every row of that fit meets a state with st_inv and is_source holds; the fit is the fold of the
   extracted loop body over its rows.  The leaf-chain splice of the extracted `if node2.is_leaf:` block, on
   an arbitrary well-formed doubly linked chain, yields the list chain_ins_before. *)
From BB Require Import Model.FitPlan Gen.GFit Proofs.TreePlanInv.
From Coq Require Import List.
Theorem C08_reachable_nodes_ok : forall st r, st_inv st -> root st = Some r -> all_nodes_ok r.
Proof. exact st_inv_all_nodes_ok. Qed.
Theorem C08_row_is_source : forall fexp cf st r fp l,
  st_inv st -> root st = Some r -> row_is_source fexp cf st fp l.
Proof. exact insert_root_gen. Qed.
Theorem C08_reachable_insertions_are_source : forall fexp cfg0 ops rows,
  2 <= c_bf cfg0 -> ops_wf fexp (init cfg0) ops -> ops_perms_ok fexp (init cfg0) ops ->
  let st := run fexp cfg0 ops in
  op_wf st (OFit rows None) ->
  let st1 := fit_start st rows in
  Forall (fun x => st_inv (fst (fst x)) /\
                   row_is_source fexp (cfg st1) (fst (fst x)) (snd (fst x)) (snd x))
         (fit_trace fexp (cfg st1) st1 rows (zseq (nfit st1) (length rows))) /\
  (released st = false -> rows <> nil ->
   fst (step fexp st (OFit rows None)) =
   fold_left (fun s x => run_fit_body fexp GFit.fit_loop_body (cfg st1) s (snd (fst x)) (snd x))
             (fit_trace fexp (cfg st1) st1 rows (zseq (nfit st1) (length rows))) st1).
Proof. exact reachable_insertions_are_source. Qed.
Theorem C08_source_tie_chain_splice : forall body l d chain n1 n2,
  In (DIfLeaf body) GTree.split_node_body ->
  dl_path l d chain -> NoDup (d :: chain) -> ~ In n1 (d :: chain) -> In n2 chain ->
  exists l', run_chain n1 n2 body l = Some l' /\
    dl_path l' d (chain_ins_before n2 n1 chain) /\
    forall k, walk_next l' (S (length (chain_ins_before n2 n1 chain)) + k) d
              = d :: chain_ins_before n2 n1 chain.
Proof. exact chain_splice_general_gen. Qed.
