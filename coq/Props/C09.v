(* C09 — re-insertion only coarsens clusters.  Statements only. *)
From BB Require Import Model.Birch Proofs.BirchDefs Proofs.BirchInv Proofs.BirchRebuild
     Proofs.PropsGlue.
Open Scope Z_scope.

(* re-clustering (any iteration count, threshold increment, recorded shuffles) never
   separates two fingerprints that shared a cluster *)
Theorem C09_recluster : forall fexp st iters extra perms se,
  st_inv st -> numbered st -> recluster_perms_ok fexp st iters extra perms se ->
  let st' := fst (do_recluster fexp st iters extra perms se) in
  forall i j, together (st_blocks st) i j -> together (st_blocks st') i j.
Proof.
  intros fexp st iters extra perms se H1 H2 H3.
  exact (proj2 (proj2 (proj2 (do_recluster_inv fexp st iters extra perms se H1 H2 H3)))).
Qed.

(* refinement separates only members of the n largest clusters *)
Theorem C09_refine : forall fexp st X im nl,
  st_inv st -> numbered st -> op_wf st (ORefine X im nl) ->
  let st' := fst (do_refine fexp st X im nl) in
  forall i j, together (st_blocks st) i j ->
    (forall b, In b (map sids (firstn (Z.to_nat nl) (sorted_leaves st))) -> ~ In i b) ->
    together (st_blocks st') i j.
Proof.
  intros fexp st X im nl H1 H2 H3.
  exact (proj2 (proj2 (proj2 (do_refine_inv fexp st X im nl H1 H2 H3)))).
Qed.

(* further fitting never separates either *)
Theorem C09_fit : forall fexp st rows,
  st_inv st -> nf_ok st -> numbered st -> op_wf st (OFit rows None) ->
  let st' := fst (do_fit fexp st rows None) in
  forall i j, together (st_blocks st) i j -> together (st_blocks st') i j.
Proof.
  intros fexp st rows H1 H2 H3 H4.
  exact (proj2 (proj2 (proj2 (do_fit_numbered_alt fexp st rows H1 H2 H3 H4)))).
Qed.

(* the blocks are what the API reports *)
Theorem C09_blocks_are_clusters : forall st i j, st_inv st ->
  (together (clusters st) i j <-> together (st_blocks st) i j).
Proof. exact together_clusters. Qed.

(* every re-inserted cluster re-enters as an indivisible unit *)
Theorem C09_units : forall fexp nf gs st,
  st_inv st -> released st = false -> init_for nf st -> Z.of_nat nf < 2 ^ 52 ->
  groups_ok nf gs -> nfit st + TreeSums.tot_n (gsubs gs) < 2 ^ 64 ->
  exists st', fit_groups fexp st gs = (st', Ok) /\
    forall b, In b (gsubs gs) -> covered (st_blocks st') (sids b).
Proof.
  intros fexp nf gs st H1 H2 H3 H4 H5 H6.
  destruct (fit_groups_inv fexp nf gs st H1 H2 H3 H4 H5 H6)
    as (st' & E & _ & _ & _ & _ & _ & _ & _ & _ & _ & C).
  exists st'. split; assumption.
Qed.

(* ---- the multi-round sentence (Model/Multiround.v, Proofs/MrCoarsen.v) ----
   [round_lists d r] = the member lists stored in the index files of round r of the output
   directory d (cleanup off, so every round is still visible). *)
From BB Require Import Model.Multiround Proofs.MrCoarsen.
From Coq Require Import String.
Open Scope string_scope.

(* fingerprints grouped together by one round are inside one group of the next round — unless
   splitting after midsection rounds is on and their cluster is the one a task exploded, in which
   case ALL of its members are singletons of the next round; and every group of the last round is
   inside one final cluster *)
Theorem C09_multiround_coarsens : forall fexp nf (files : list (list fpv)) (c : mr_cfg),
  Z.of_nat nf < 2 ^ 52 ->
  Forall (Forall (fun fp : fpv => List.length fp = nf)) files ->
  zlen (List.concat files) < 2 ^ 64 ->
  2 <= m_bf c -> (1 <= m_bin c)%nat ->
  forall d, m_cleanup c = false -> run_multiround fexp c files [] = Some d ->
  let rl := 1 + Z.of_nat (m_rounds c) in
  (forall r, 1 <= r < rl -> forall l, In l (round_lists d r) ->
     (exists l', In l' (round_lists d (r + 1)) /\ incl l l') \/
     (m_split_after c = true /\ forall i, In i l -> In [i] (round_lists d (r + 1)))) /\
  (exists cl, dir_get d "clusters.pkl" = Some (CClusters cl) /\
     forall l, In l (round_lists d rl) -> exists k, In k cl /\ incl l k).
Proof. exact multiround_coarsens. Qed.

(* without deliberate splitting: together in ANY round implies together in the final clusters *)
Theorem C09_multiround_stay_together : forall fexp nf (files : list (list fpv)) (c : mr_cfg),
  Z.of_nat nf < 2 ^ 52 ->
  Forall (Forall (fun fp : fpv => List.length fp = nf)) files ->
  zlen (List.concat files) < 2 ^ 64 ->
  2 <= m_bf c -> (1 <= m_bin c)%nat ->
  forall d, m_cleanup c = false -> m_split_after c = false ->
  run_multiround fexp c files [] = Some d ->
  exists cl, dir_get d "clusters.pkl" = Some (CClusters cl) /\
    forall r l, 1 <= r <= 1 + Z.of_nat (m_rounds c) -> In l (round_lists d r) ->
      (exists k, In k cl /\ incl l k) /\ forall i j, In i l -> In j l -> together cl i j.
Proof. exact multiround_stay_together. Qed.

(* [round_lists] is what the index files of that round hold *)
Theorem C09_round_lists_are_files : forall fexp nf (files : list (list fpv)) (c : mr_cfg),
  Z.of_nat nf < 2 ^ 52 ->
  Forall (Forall (fun fp : fpv => List.length fp = nf)) files ->
  zlen (List.concat files) < 2 ^ 64 ->
  2 <= m_bf c -> (1 <= m_bin c)%nat ->
  forall d, m_cleanup c = false -> run_multiround fexp c files [] = Some d ->
  forall r, 1 <= r <= 1 + Z.of_nat (m_rounds c) -> forall l,
  (In l (round_lists d r) <->
   exists n ids, is_idxs_of r n = true /\ dir_get d n = Some (CIdxs ids) /\ In l ids).
Proof. exact round_lists_glob. Qed.

(* ---- caller-supplied labels, and whole histories (Proofs/BirchLabels2.v) ---- *)
From BB Require Import Proofs.BirchLabels Proofs.BirchLabels2.
(* two labels that share a cluster keep sharing one through ANY later fits (with any labels),
   reclusters, refinements that split nothing (n_largest <= 0), configuration changes and
   delete_internal_nodes *)
Theorem C09_history : forall fexp cfg0 pre post,
  2 <= c_bf cfg0 -> ops_wf_l fexp (init cfg0) (pre ++ post) ->
  ops_perms_ok fexp (init cfg0) (pre ++ post) -> Forall op_coarsens post ->
  forall i j, together (st_blocks (run fexp cfg0 pre)) i j ->
              together (st_blocks (run fexp cfg0 (pre ++ post))) i j.
Proof. exact run_together_l. Qed.
(* ... and through refinements with n_largest > 0 as long as they never split a cluster holding i *)
Theorem C09_history_keep : forall fexp cfg0 pre post i,
  2 <= c_bf cfg0 -> ops_wf_l fexp (init cfg0) (pre ++ post) ->
  ops_perms_ok fexp (init cfg0) (pre ++ post) -> ops_keep fexp i (run fexp cfg0 pre) post ->
  forall j, together (st_blocks (run fexp cfg0 pre)) i j ->
            together (st_blocks (run fexp cfg0 (pre ++ post))) i j.
Proof. intros fexp cfg0 pre post i H1 H2 H3 H4 j. eapply run_together_keep_l; eassumption. Qed.
(* the side condition on refinements is necessary *)
Example C09_refine_side_condition_needed := refine_side_condition_needed.
