(* C09 — re-insertion only coarsens clusters.  Statements only. *)
From BB Require Import Model.Birch Proofs.BirchDefs Proofs.BirchInv Proofs.BirchRebuild
     Proofs.PropsGlue.
Open Scope Z_scope.

(* re-clustering (any iteration count, threshold increment, recorded shuffles) never
   separates two fingerprints that shared a cluster *)
Theorem C09_recluster : forall fexp st iters extra perms se,
  st_inv st -> numbered st -> recluster_perms_ok fexp st iters extra perms se ->
  let st' := fst (do_recluster fexp st iters extra perms se) in
  forall i j, together (st_blocks st) i j -> together (st_blocks st') i j.
Proof.
  intros fexp st iters extra perms se H1 H2 H3.
  exact (proj2 (proj2 (proj2 (do_recluster_inv fexp st iters extra perms se H1 H2 H3)))).
Qed.

(* refinement separates only members of the n largest clusters *)
Theorem C09_refine : forall fexp st X im nl,
  st_inv st -> numbered st -> op_wf st (ORefine X im nl) ->
  let st' := fst (do_refine fexp st X im nl) in
  forall i j, together (st_blocks st) i j ->
    (forall b, In b (map sids (firstn (Z.to_nat nl) (sorted_leaves st))) -> ~ In i b) ->
    together (st_blocks st') i j.
Proof.
  intros fexp st X im nl H1 H2 H3.
  exact (proj2 (proj2 (proj2 (do_refine_inv fexp st X im nl H1 H2 H3)))).
Qed.

(* further fitting never separates either *)
Theorem C09_fit : forall fexp st rows,
  st_inv st -> nf_ok st -> numbered st -> op_wf st (OFit rows None) ->
  let st' := fst (do_fit fexp st rows None) in
  forall i j, together (st_blocks st) i j -> together (st_blocks st') i j.
Proof.
  intros fexp st rows H1 H2 H3 H4.
  exact (proj2 (proj2 (proj2 (do_fit_numbered_alt fexp st rows H1 H2 H3 H4)))).
Qed.

(* the blocks are what the API reports *)
Theorem C09_blocks_are_clusters : forall st i j, st_inv st ->
  (together (clusters st) i j <-> together (st_blocks st) i j).
Proof. exact together_clusters. Qed.

(* every re-inserted cluster re-enters as an indivisible unit *)
Theorem C09_units : forall fexp nf gs st,
  st_inv st -> released st = false -> init_for nf st -> Z.of_nat nf < 2 ^ 52 ->
  groups_ok nf gs -> nfit st + TreeSums.tot_n (gsubs gs) < 2 ^ 64 ->
  exists st', fit_groups fexp st gs = (st', Ok) /\
    forall b, In b (gsubs gs) -> covered (st_blocks st') (sids b).
Proof.
  intros fexp nf gs st H1 H2 H3 H4 H5 H6.
  destruct (fit_groups_inv fexp nf gs st H1 H2 H3 H4 H5 H6)
    as (st' & E & _ & _ & _ & _ & _ & _ & _ & _ & _ & C).
  exists st'. split; assumption.
Qed.
