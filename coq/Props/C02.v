(* C02 — reported cluster summaries are exact for their members.  Statements only. *)
From BB Require Import Model.Birch Proofs.TreeSums Proofs.BirchDefs Proofs.BirchInv
     Proofs.BirchRebuild Proofs.BirchData Proofs.SimMax.
Open Scope Z_scope.

(* For every documented history and every ghost data map D (label |-> fingerprint) that the
   history is consistent with (rows given to fit are D of their labels; the X given to
   refine is the fitted data), every reported cluster stores exactly: the number of its
   members, the column sums of exactly those members' fingerprints, the centroid computed
   from those sums, in the narrowest counter width. *)
Theorem C02_exact : forall fexp D cfg0 ops,
  2 <= c_bf cfg0 -> ops_wf fexp (init cfg0) ops -> ops_perms_ok fexp (init cfg0) ops ->
  ops_data_strong fexp D (init cfg0) ops ->
  let st := run fexp cfg0 ops in
  Forall (fun s => sls s = colsum (nfeat st) (map D (sids s)) /\
                   sn s = zlen (sids s) /\
                   scent s = centroid_fpv (sls s) (sn s) /\
                   sw s = minw (sn s)) (sorted_leaves st).
Proof. exact run_reported_sums. Qed.

(* the i-th reported centroid belongs to the i-th reported member list: both are read
   from the same sorted traversal *)
Theorem C02_aligned : forall st,
  centroids st = map scent (sorted_leaves st) /\ clusters st = map sids (sorted_leaves st).
Proof. intros st. split; reflexivity. Qed.

(* crossing a counter-width boundary never wraps: merge and update are exact whenever the
   total stays below 2^64 (and beyond that the real code refuses: suite sub-unit) *)
Theorem C02_merge_exact : forall fexp c thr s t m, length (sls s) = length (sls t) ->
  sub_exact s -> sub_exact t -> sn s + sn t < 2 ^ 64 -> merge_sub fexp c thr s t = Some m ->
  sub_exact m /\ sn m = sn s + sn t /\ sls m = vadd (sls s) (sls t) /\ sids m = sids s ++ sids t.
Proof. exact merge_sub_exact. Qed.
Theorem C02_update_exact : forall s t, length (sls s) = length (sls t) ->
  sub_exact s -> sub_exact t -> sn s + sn t < 2 ^ 64 ->
  sub_exact (upd_sub s t) /\ sn (upd_sub s t) = sn s + sn t /\
  sls (upd_sub s t) = vadd (sls s) (sls t) /\ sids (upd_sub s t) = sids s ++ sids t.
Proof. exact upd_sub_exact. Qed.
Theorem C02_width_holds_count : forall n, 0 <= n < 2 ^ 64 -> n <= wmax (minw n).
Proof. exact minw_holds. Qed.

(* non-vacuity at a boundary: 255 + 1 members, a unanimous column *)
Example C02_boundary_255 :
  let s := sub_of_buffer W8 [255; 128; 0] 255 (zseq 0 255) in
  let t := singleton [true; false; true] 255 in
  sw (upd_sub s t) = W16 /\ sn (upd_sub s t) = 256 /\ sls (upd_sub s t) = [256; 128; 1] /\
  scent (upd_sub s t) = [true; true; false].
Proof. vm_compute. repeat split. Qed.

(* ---- composition with C12: the stored centroid IS the per-bit majority of the members ---- *)
From BB Require Import Proofs.Compose.
(* no reported cluster is empty *)
Theorem C02_clusters_nonempty : forall fexp cfg0 ops,
  2 <= c_bf cfg0 -> ops_wf fexp (init cfg0) ops -> ops_perms_ok fexp (init cfg0) ops ->
  Forall (fun s => 1 <= sn s) (sorted_leaves (run fexp cfg0 ops)).
Proof. exact run_reported_nonempty. Qed.
(* bit j of a reported centroid is set iff at least half of the cluster's members have it set
   (ties set), for every cluster of fewer than 2^53 members *)
Theorem C02_centroid_is_majority : forall fexp D cfg0 ops,
  2 <= c_bf cfg0 -> ops_wf fexp (init cfg0) ops -> ops_perms_ok fexp (init cfg0) ops ->
  ops_data_strong fexp D (init cfg0) ops ->
  let st := run fexp cfg0 ops in
  Forall (fun s => sn s < 2 ^ 53 ->
            scent s = map (fun k => sn s <=? 2 * k) (colsum (nfeat st) (map D (sids s))))
         (sorted_leaves st).
Proof. exact reported_centroid_is_majority. Qed.

(* ---- caller-supplied labels (fit(X, reinsert_indices=...)): Proofs/BirchLabels2.v ----
   [ops_data_l]: the rows given to a fit are D of THEIR labels (given or default) and the X of a
   refine returns D(label) for every label in the tree *)
From BB Require Import Proofs.BirchLabels Proofs.BirchLabels2.
Theorem C02_exact_labels : forall fexp D cfg0 ops,
  2 <= c_bf cfg0 -> ops_wf_l fexp (init cfg0) ops -> ops_perms_ok fexp (init cfg0) ops ->
  ops_data_l fexp D (init cfg0) ops ->
  let st := run fexp cfg0 ops in
  Forall (fun s => sls s = colsum (nfeat st) (map D (sids s)) /\
                   sn s = zlen (sids s) /\
                   scent s = centroid_fpv (sls s) (sn s) /\
                   sw s = minw (sn s)) (sorted_leaves st).
Proof. exact run_reported_sums_l. Qed.
Example C02_labels_nonvacuous := labels2_data_applied.

(* ---- the sub-cluster arithmetic is the one in the source (Proofs/GenTieTree.v) ----
   Gen/GTree.v holds the statements of _BFSubcluster.add_to_n_samples_and_linear_sum /
   replace_n_samples_and_linear_sum / update / merge_subcluster as step lists extracted on every run
   (re-cast of the buffer to min_safe_uint(new_n) BEFORE the in-place add; the seven arguments of the
   accept call in order; no mutation on refusal); Model/TreePlan.v gives each step its meaning on the
   buffer (a cast re-wraps in minw n, add / assign work in the buffer's current width); running the
   EXTRACTED bodies is upd_sub / merge_sub. *)
From BB Require Import Model.TreePlan Gen.GTree Proofs.GenTieTree.
Theorem C02_source_tie_update : forall s t,
  run_update GTree.add_to_body GTree.update_body s t = Some (upd_sub s t).
Proof. exact upd_sub_gen. Qed.
Theorem C02_source_tie_merge : forall fexp c thr s t,
  run_merge fexp c thr GTree.replace_body t GTree.merge_body s =
  Some (match merge_sub fexp c thr s t with Some m => (m, true) | None => (s, false) end).
Proof. exact merge_sub_gen. Qed.
