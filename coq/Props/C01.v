(* C01 — every fitted fingerprint ends in exactly one cluster.  Statements only. *)
From BB Require Import Model.Birch Proofs.BirchDefs Proofs.BirchInv Proofs.BirchRebuild.
From Coq Require Import Permutation Lia.
Open Scope Z_scope.

(* For every history of operations used as documented ([ops_wf]: default numbering, rows of
   the tree's width, branching factors >= 2; [ops_perms_ok]: the shuffles recorded for
   recluster are permutations), with any configuration, criterion, threshold:
   the reported clusters partition 0 .. num_fitted-1 and the count matches. *)
Theorem C01_partition : forall fexp cfg0 ops,
  2 <= c_bf cfg0 -> ops_wf fexp (init cfg0) ops -> ops_perms_ok fexp (init cfg0) ops ->
  let st := run fexp cfg0 ops in
  Permutation (concat (clusters st)) (zseq 0 (Z.to_nat (nfit st))) /\
  NoDup (concat (clusters st)) /\
  nfit st = zlen (concat (clusters st)).
Proof. exact run_clusters. Qed.

(* the invariant is re-established by every single operation, from any invariant state *)
Theorem C01_every_step : forall fexp st o,
  st_inv st -> nf_ok st -> numbered st -> op_wf st o -> op_perms_ok fexp st o ->
  let st' := fst (step fexp st o) in st_inv st' /\ nf_ok st' /\ numbered st'.
Proof. exact step_inv_alt. Qed.

(* a fit that fails part-way keeps exactly the rows before the bad one: the same prefix of
   labels enters the member set and the fitted count *)
Theorem C01_failed_fit : forall fexp cf rows st labs st' out,
  st_inv st -> root st <> None -> 2 <= c_bf cf ->
  Forall (row_ok (nfeat st)) rows -> nfit st + zlen rows < 2 ^ 64 ->
  fit_rows fexp cf st rows labs = (st', out) ->
  st_inv st' /\
  exists k, (k <= length rows)%nat /\ (k <= length labs)%nat /\
            nfit st' = nfit st + Z.of_nat k /\
            Permutation (mem_ids st') (mem_ids st ++ firstn k labs).
Proof.
  intros fexp cf rows st labs st' out H1 H2 H3 H4 H5 H6.
  destruct (fit_rows_inv fexp cf rows st labs H1 H2 H3 H4 H5 st' out H6)
    as (A & _ & _ & _ & _ & _ & k & K1 & K2 & K3 & K4 & _).
  split; [exact A|]. exists k. auto.
Qed.

(* non-vacuity: a history with a split, a failed fit, a refinement, a re-clustering with a
   shuffle, a change of criterion and a reset satisfies the hypotheses *)
Definition ex_fexp (_ : float) : float := 0x1.78b56362cef38p-2%float.
Definition ex_cfg := mkCfg CDiameter 0.5 2.
Definition ex_rows : list (option fpv) :=
  [Some [true; true; false; false]; Some [true; true; true; false];
   Some [false; false; true; true]; Some [false; true; true; true];
   Some [true; false; false; false]; Some [false; false; false; true]].
Definition ex_ops : list op :=
  [OFit ex_rows None;
   OFit [Some [true; true; false; true]; None] None;
   ORefine (map (fun r => match r with Some f => f | None => [] end) ex_rows
            ++ [[true; true; false; true]]) 0 1;
   OSetCfg (Some CRadius) (Some 0.25%float) (Some 3);
   ORecluster 1 0 [[1; 0]%nat] false;
   OFit [Some [true; true; true; true]] None].
Example C01_nonvacuous :
  2 <= c_bf ex_cfg /\
  ops_wf ex_fexp (init ex_cfg) ex_ops /\ ops_perms_ok ex_fexp (init ex_cfg) ex_ops /\
  map (fun k => clusters (run ex_fexp ex_cfg (firstn k ex_ops))) [1; 2; 5; 6]%nat =
    [[[0; 1; 4]; [2; 3; 5]]; [[0; 1; 4; 6]; [2; 3; 5]]; [[2; 3; 5; 0; 1; 4; 6]];
     [[2; 3; 5; 0; 1; 4; 6; 7]]].
Proof.
  split; [vm_compute; discriminate|]. split; [|split].
  - cbn [ops_wf ex_ops].
    repeat match goal with |- _ /\ _ => split | |- True => exact I end.
    all: try (vm_compute; repeat (split || constructor || reflexivity || discriminate || lia)).
  - cbn [ops_perms_ok ex_ops].
    repeat match goal with |- _ /\ _ => split | |- True => exact I end.
    all: try (vm_compute; try apply perm_swap;
              repeat (split || constructor || reflexivity || discriminate || lia)).
  - vm_compute. reflexivity.
Qed.

(* ---- caller-supplied labels: fit(X, reinsert_indices=...) (Proofs/BirchLabels.v) ----
   [ops_wf_l] is [ops_wf] with OFit allowed to carry [Some labels] of the right length;
   [labels_run] follows the run and accumulates the labels held: a successful fit adds its labels
   (given, or the default numbering), a fit failing part-way adds those inserted before the
   failure, reset clears, every other operation keeps them. *)
From BB Require Import Proofs.BirchLabels.
From Coq Require Import Permutation.

(* for ANY labels (duplicates included) the reported clusters hold exactly the multiset of labels
   fitted since the last reset, and num_fitted_fps is their number *)
Theorem C01_labels : forall fexp cfg0 ops,
  2 <= c_bf cfg0 -> ops_wf_l fexp (init cfg0) ops -> ops_perms_ok fexp (init cfg0) ops ->
  let st := run fexp cfg0 ops in
  Permutation (List.concat (clusters st)) (labels_run fexp (init cfg0) ops []) /\
  nfit st = zlen (labels_run fexp (init cfg0) ops []).
Proof. exact run_labels. Qed.

(* ... and when the labels are distinct, every label is in exactly one cluster *)
Theorem C01_labels_partition : forall fexp cfg0 ops,
  2 <= c_bf cfg0 -> ops_wf_l fexp (init cfg0) ops -> ops_perms_ok fexp (init cfg0) ops ->
  NoDup (labels_run fexp (init cfg0) ops []) ->
  let st := run fexp cfg0 ops in
  NoDup (List.concat (clusters st)) /\
  (forall x, In x (labels_run fexp (init cfg0) ops []) <-> exists b, In b (clusters st) /\ In x b) /\
  nfit st = zlen (List.concat (clusters st)).
Proof. exact run_labels_partition. Qed.

(* refinement with caller labels: succeeds keeping the labels, or fails leaving the clusters alone *)
Theorem C01_refine_labels : forall fexp st X im nl,
  st_inv st -> op_wf_l st (ORefine X im nl) ->
  let st' := fst (do_refine fexp st X im nl) in
  st_inv st' /\ nfit st' = nfit st /\ Permutation (mem_ids st') (mem_ids st) /\
  (snd (do_refine fexp st X im nl) = Err -> clusters st' = clusters st).
Proof.
  intros fexp st X im nl H1 H2. cbv zeta.
  destruct (do_refine_labels fexp st X im nl H1 H2) as (A & _ & B & C & D).
  refine (conj A (conj B (conj C _))). intro E. exact (proj2 (proj2 (proj2 (proj2 (D E))))).
Qed.

Example C01_labels_nonvacuous := labels_nonvacuous_partition.

(* a fit call that meets a malformed row stops exactly there: the rows before it are in, with
   their labels, nothing after it is, and the call reports the error *)
From BB Require Import Proofs.Small2.
Theorem C01_fit_stops_at_first_bad : forall fexp st rows labels st' out,
  st_inv st -> nf_ok st -> op_wf_l st (OFit rows labels) ->
  released st = false -> rows <> [] ->
  do_fit fexp st rows labels = (st', out) ->
  st_inv st' /\
  nfit st' = nfit st + Z.of_nat (first_bad rows) /\
  Permutation (mem_ids st') (mem_ids st ++ firstn (first_bad rows) (fit_labels st rows labels)) /\
  (out = Ok <-> first_bad rows = length rows).
Proof. exact do_fit_stops_at_first_bad. Qed.

(* ---- the loops of fit() and _fit_buffers() are the ones in the source (Proofs/GenTieFit.v) ----
   Gen/GFit.v holds the statements of the two loop bodies, the pre-loop guards and the label source of
   BitBirch.fit / BitBirch._fit_buffers as data, extracted on every run (any other statement touching the
   root, the counter, the sub-cluster or the page manager fails the translation); Model/FitPlan.v gives each
   step its meaning on the tree model; executing the EXTRACTED body is one step of the model's loop. *)
From BB Require Import Model.FitPlan Gen.GFit Proofs.GenTieFit.
Theorem C01_source_tie_fit_loop : forall fexp cf st fp rows l labels,
  fit_rows fexp cf st (Some fp :: rows) (l :: labels) =
  fit_rows fexp cf (run_fit_body fexp GFit.fit_loop_body cf st fp l) rows labels.
Proof. exact fit_rows_step_gen. Qed.
Theorem C01_source_tie_fit_buffers_loop : forall fexp cf st w b g,
  fit_bufs fexp cf st w (b :: g) =
  match run_fit_buffers_body fexp GFit.fit_buffers_loop_body cf st w b
          (index_source_check (GFit.fit_buffers_index_source false)) with
  | (st', Ok) => fit_bufs fexp cf st' w g
  | (st', Err) => (st', Err)
  end.
Proof. exact fit_bufs_step_gen. Qed.
Theorem C01_source_tie_fit_guards : forall fexp st r0 tl labels,
  do_fit fexp st (r0 :: tl) labels =
  let nf := match r0 with Some fp => length fp | None => nfeat st end in
  match run_guards GFit.fit_pre_loop st nf with
  | (st1, Ok) =>
      fit_rows fexp (cfg st1) st1 (r0 :: tl)
        (fit_labels (GFit.fit_label_source (match labels with None => true | Some _ => false end))
                    st1 (length (r0 :: tl)) (match labels with Some l => l | None => [] end))
  | (_, Err) => (st, Err)
  end.
Proof. exact do_fit_guards_gen. Qed.
