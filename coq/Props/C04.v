(* C04 — clustering is a pure function of the ordered fingerprints and parameters; memory
   is only ever released inside the mapped file and behind the read cursor.  Statements only. *)
From BB Require Import Model.Birch Model.Mem Proofs.MemFacts Proofs.FitChunks Proofs.GenTieMem Gen.GMem.
Open Scope Z_scope.

(* every madvise(DONTNEED) range: a whole 2 MiB step from the start of the mapping, only
   bytes already consumed, inside the mapped file — for every row width, item size, header
   offset and file length *)
Theorem C04_release_safe : forall P cols offset data itemsize rows n,
  0 < P -> 0 < cols -> P mod cols = 0 -> 0 <= offset < cols -> 1 <= itemsize -> (n <= rows)%nat ->
  let base := data - offset in let row_bytes := cols * itemsize in
  forall a sz i, In (a, sz, i) (fit_releases (from_memmap P cols offset data) n 0) ->
  sz = P /\ (a - base) mod P = 0 /\ base <= a /\
  a + sz <= base + offset + i * row_bytes /\
  a + sz <= base + offset + Z.of_nat rows * row_bytes.
Proof. exact release_safe. Qed.

Theorem C04_no_release_when_disabled : forall P cols offset data n,
  (P mod cols <> 0 \/ cols <= offset) -> fit_releases (from_memmap P cols offset data) n 0 = [].
Proof. exact no_release_when_disabled. Qed.

(* the two manager methods the loop calls are the translated source *)
Theorem C04_source_tie : forall m i,
  GMem.should_release_curr_page (pagesizex m) (iters m) (addr m) i = should_release m i /\
  GMem.release_curr_page_and_update_addr (pagesizex m) (iters m) (addr m) =
    ([fst (release m)], addr (snd (release m))).
Proof. intros m i. split; [exact (tie_should_release m i) | exact (tie_release m)]. Qed.

(* ... and the constructor that decides WHETHER pages are released (from_bb_input, translated
   with X viewed as (is_memmap, ndim, X.shape[1], X.offset, X.ctypes.data)) is the model's
   [from_memmap]: release only for a 2-D memmap whose row size divides the 2 MiB block and whose
   header is shorter than a row *)
Theorem C04_source_tie_ctor : forall cols offset data pagesize,
  0 < cols -> 0 < pagesize -> pagesize * 512 < 2^53 -> cols < 2^53 ->
  GMem.from_bb_input true 2 cols offset data pagesize None =
  let m := from_memmap (pagesize * 512) cols offset data in
  (can_release m, pagesizex m, iters m, addr m).
Proof. exact tie_from_bb_input. Qed.
Theorem C04_source_tie_ctor_other : forall is_memmap ndim cols offset data pagesize,
  is_memmap && (ndim =? 2) = false ->
  GMem.from_bb_input is_memmap ndim cols offset data pagesize None = (false, pagesize * 512, 0, 0).
Proof.
  intros [|] ndim cols offset data pagesize H.
  - apply tie_from_bb_input_not_2d. exact H.
  - apply tie_from_bb_input_not_memmap.
Qed.

(* cutting the sequence into consecutive fit calls changes nothing: labels continue from
   the running count and the tree persists *)
Theorem C04_chunks : forall fexp st xs ys, released st = false -> xs <> [] -> ys <> [] ->
  Forall (fun r => r <> None) xs ->
  fst (do_fit fexp (fst (do_fit fexp st xs None)) ys None) = fst (do_fit fexp st (xs ++ ys) None) /\
  snd (do_fit fexp (fst (do_fit fexp st xs None)) ys None) = snd (do_fit fexp st (xs ++ ys) None).
Proof. exact do_fit_chunks. Qed.
Theorem C04_run_chunks : forall fexp cfg0 xs ys tl, xs <> [] -> ys <> [] ->
  Forall (fun r => r <> None) xs ->
  run fexp cfg0 (OFit xs None :: OFit ys None :: tl) = run fexp cfg0 (OFit (xs ++ ys) None :: tl).
Proof. exact run_chunks. Qed.

(* packed and unpacked representations decode to the same rows *)
Theorem C04_packed_form : forall rows nf, Forall (fun r => length r = nf) rows ->
  map (fun r => Some (unpack (Some (Z.of_nat nf)) (pack r))) rows = map Some rows.
Proof. exact packed_form_same. Qed.

(* determinism across runs and processes: [step] is a function (stated for the record) *)
Theorem C04_function : forall fexp st o r1 r2, r1 = step fexp st o -> r2 = step fexp st o -> r1 = r2.
Proof. intros; congruence. Qed.

Example C04_release_example :
  fit_releases (from_memmap 2097152 256 128 1000128) 20000 0 =
  [(1000000, 2097152, 8192); (3097152, 2097152, 16384)].
Proof. exact release_example. Qed.

(* any number of consecutive fit calls is one fit call on the concatenation: every chunk but
   the last must be free of malformed rows (a malformed row ends the call it is in) *)
From BB Require Import Proofs.Small2.
Theorem C04_many_chunks : forall fexp cfg0 chunks tl,
  chunks <> [] -> Forall (fun c => c <> []) chunks ->
  Forall (Forall (fun r => r <> None)) (removelast chunks) ->
  run fexp cfg0 (map (fun c => OFit c None) chunks ++ tl) =
  run fexp cfg0 (OFit (concat chunks) None :: tl).
Proof. exact run_many_chunks_butlast. Qed.
(* ... and that side condition cannot be dropped *)
Theorem C04_many_chunks_side_condition_needed : forall fexp cfg0,
  exists xs ys : list (option fpv), xs <> [] /\ ys <> [] /\
    nfit (run fexp cfg0 [OFit xs None; OFit ys None]) = 1 /\
    nfit (run fexp cfg0 [OFit (xs ++ ys) None]) = 0.
Proof. exact chunks_need_wf. Qed.

(* ---- consecutive fit calls with caller-supplied labels (Proofs/FpsMore.v): cutting rows and labels at the
   same place gives the same state as one call; default labels continue the numbering *)
From BB Require Import Proofs.FpsMore.
Theorem C04_do_fit_chunks_labelled_eq : forall fexp st xs ys l1 l2,
  released st = false -> xs <> [] -> ys <> [] -> Forall (fun r => r <> None) xs ->
  List.length l1 = List.length xs ->
  do_fit fexp (fst (do_fit fexp st xs (Some l1))) ys (Some l2) =
  do_fit fexp st (xs ++ ys) (Some (l1 ++ l2)).
Proof. exact (@do_fit_chunks_labelled_eq). Qed.
Theorem C04_do_fit_chunks_default_continue : forall fexp st xs ys,
  released st = false -> xs <> [] -> ys <> [] -> Forall (fun r => r <> None) xs ->
  let st1 := fst (do_fit fexp st xs None) in
  nfit st1 = nfit st + Z.of_nat (List.length xs) /\
  do_fit fexp st1 ys None =
    do_fit fexp st1 ys (Some (zseq (nfit st + Z.of_nat (List.length xs)) (List.length ys))) /\
  do_fit fexp st (xs ++ ys) None =
    do_fit fexp st (xs ++ ys)
      (Some (zseq (nfit st) (List.length xs) ++
             zseq (nfit st + Z.of_nat (List.length xs)) (List.length ys))) /\
  do_fit fexp st1 ys None = do_fit fexp st (xs ++ ys) None.
Proof. exact (@do_fit_chunks_default_continue). Qed.
Theorem C04_run_many_chunks_labelled : forall fexp cfg0 xs l (chunks : list (list (option fpv) * list Z)) tl,
  xs <> [] -> Forall (fun r => r <> None) xs -> List.length l = List.length xs ->
  Forall (fun c => fst c <> [] /\ Forall (fun r => r <> None) (fst c) /\
                   List.length (snd c) = List.length (fst c)) chunks ->
  run fexp cfg0 (OFit xs (Some l) :: map (fun c => OFit (fst c) (Some (snd c))) chunks ++ tl) =
  run fexp cfg0 (OFit (xs ++ concat (map fst chunks)) (Some (l ++ concat (map snd chunks))) :: tl).
Proof. exact (@run_many_chunks_labelled). Qed.

(* ---- where fit() consults the page manager (Proofs/GenTieFit.v, extracted from the source) ----
   once per row, after the insertion and after both counters advanced, with the number of rows consumed IN
   THIS CALL (arr_idx, initialised to 0); an array input never releases *)
From BB Require Import Model.FitPlan Gen.GFit Gen.GMem Proofs.GenTieFit.
Theorem C04_source_tie_release_position :
  once_before SInsertRoot SReleaseCheck GFit.fit_loop_body = true /\
  once_before SCountOne SReleaseCheck GFit.fit_loop_body = true /\
  once_before SArrIdxInc SReleaseCheck GFit.fit_loop_body = true /\
  once_before SInsertRoot SCountOne GFit.fit_loop_body = true /\
  once_before SInsertRoot SReleaseCheck GFit.fit_buffers_loop_body = true /\
  once_before SCountMembers SReleaseCheck GFit.fit_buffers_loop_body = true /\
  once_before SArrIdxInc SReleaseCheck GFit.fit_buffers_loop_body = true.
Proof. exact release_check_position. Qed.
Theorem C04_source_tie_release_step : forall m k,
  fit_releases m (S k) GFit.fit_arr_idx_init =
  let f := run_fit_mem GFit.fit_loop_body m GFit.fit_arr_idx_init in
  m_rel f ++ fit_releases (m_mm f) k (m_idx f).
Proof. exact fit_releases_step_gen. Qed.
Theorem C04_source_tie_array_never_releases : forall for_path for_array rest,
  GFit.fit_pre_loop = PManager for_path for_array :: rest ->
  forall is_memmap ndim cols offset data pagesize,
    fst (fst (fst (GMem.from_bb_input is_memmap ndim cols offset data pagesize
                                      (mm_ctor_arg for_array)))) = false.
Proof. exact array_input_never_releases. Qed.
