(* C13 — the compiled kernels agree bit-for-bit with the Python fallback.  Statements only.
   Model/Cpp.v: loop-level transcription of bblean/csrc/similarity.cpp (tied to the compiled file
   by suite `cpp`); Model/Sim.v: the NumPy kernels (tied by suites `bits`, `isim` and the
   translator).  [None] on the C++ side = the kernel throws or reads outside its input.
   The [aligned] flag (base address 8-byte aligned) is universally quantified everywhere. *)
From BB Require Import Model.Cpp Proofs.CppFacts Proofs.KernelFacts.
Open Scope Z_scope.

(* popcount: 64-bit fast path (aligned and width multiple of 64) and byte path = NumPy *)
Theorem C13_popcount : forall aligned X, Forall bytes X ->
  cpp_popcount_2d aligned X = map popcount X.
Proof. exact K1_popcount_2d. Qed.

(* unpack: defined for every n_features >= 0 (and for None), with the value of
   np.unpackbits(count=n_features): truncation, or zero padding past the input; no hypothesis
   on the byte values.  A negative count throws. *)
Theorem C13_unpack : forall nf X,
  match nf with Some n => 0 <= n | None => True end ->
  cpp_unpack_2d nf X = Some (unpack_rows nf X).
Proof. exact K2_unpack_2d. Qed.
Theorem C13_unpack_1d : forall nf bs,
  match nf with Some n => 0 <= n | None => True end ->
  cpp_unpack_1d nf bs = Some (map b2z (unpack nf bs)).
Proof. exact K2_unpack_1d. Qed.
Theorem C13_unpack_negative : forall n bs, n < 0 -> cpp_unpack_1d (Some n) bs = None.
Proof. exact K2_unpack_1d_undefined. Qed.

(* centroid from sum, for every count 0 <= n < 2^63 (no bound such as 2^33) *)
Theorem C13_centroid_unpacked : forall ls n, 0 <= n < 2^63 ->
  Forall (fun k => 0 <= k < 2^64) ls -> cpp_centroid ls n false = Some (centroid_vals ls n).
Proof. exact K3a_centroid_unpacked. Qed.
(* packed: any sums (not only 0/1 when n <= 1), any length (not only multiples of 8) *)
Theorem C13_centroid_packed : forall ls n, 0 <= n < 2^63 ->
  Forall (fun k => 0 <= k < 2^64) ls -> cpp_centroid ls n true = Some (centroid_packed ls n).
Proof. exact K3b_centroid_packed. Qed.
(* instances of the two input classes on which the kernels used to differ (non 0/1 sums with
   n <= 1; lengths that are no multiple of 8) — the recorded witnesses of the fixed defects
   themselves run in suite cpp-corpus *)
Theorem C13_centroid_packed_nonbinary :
  cpp_centroid [2;0;0;0;0;0;0;0] 1 true = Some (centroid_packed [2;0;0;0;0;0;0;0] 1) /\
  centroid_packed [2;0;0;0;0;0;0;0] 1 = [128].
Proof. exact K3b_centroid_packed_nonbinary. Qed.
Theorem C13_centroid_packed_len5 :
  cpp_centroid [3;0;1;0;7] 1 true = Some (centroid_packed [3;0;1;0;7] 1) /\
  centroid_packed [3;0;1;0;7] 1 = [168] /\
  cpp_centroid [3;0;1;0;3] 4 true = Some (centroid_packed [3;0;1;0;3] 4) /\
  centroid_packed [3;0;1;0;3] 4 = [136].
Proof. exact K3b_centroid_packed_len5. Qed.

(* iSIM from sum: same floating-point bits, uint64 wrap-around included *)
Theorem C13_isim : forall ls n, 0 <= n < 2^63 -> Forall (fun k => 0 <= k < 2^64) ls ->
  cpp_isim ls n = isim_f ls n.
Proof. exact K4_isim. Qed.

(* array-vs-vector Tanimoto *)
Theorem C13_arr_vec : forall aligned X y, bytes y -> rows_like y X ->
  cpp_arr_vec aligned X y = sim_arr_vec_packed X y.
Proof. exact K5_arr_vec. Qed.

(* std::min_element = np.argmin on NaN-free lists; the similarities are never NaN *)
Theorem C13_argmin : forall l, no_nan l -> cpp_argmin l = argmin_f l.
Proof. exact K6_argmin. Qed.

(* most-dissimilar search, all four outputs; n_features = None or any count whose packed width
   (n + 7) / 8 is the row width *)
Theorem C13_most_dissimilar : forall aligned nf (w : nat) Y,
  Y <> [] -> rows_ok w Y -> zlen Y < 2^63 -> nf_ok w nf ->
  cpp_most_dissimilar aligned nf Y = Some (py_most_dissimilar_packed nf Y).
Proof. exact K7_most_dissimilar. Qed.
(* ... and any other count is rejected by the shape check *)
Theorem C13_most_dissimilar_shape : forall aligned n (w : nat) Y,
  Y <> [] -> rows_ok w Y -> 0 <= n -> (n + 7) / 8 <> Z.of_nat w ->
  cpp_most_dissimilar aligned (Some n) Y = None.
Proof. exact K7_most_dissimilar_shape. Qed.

(* non-vacuity: a concrete 64-byte-wide input takes the word path and satisfies the hypotheses *)
Example C13_centroid_packed_recorded_witness :
  cpp_centroid [3;0;3;3;0] 3 true = Some (centroid_packed [3;0;3;3;0] 3) /\ centroid_packed [3;0;3;3;0] 3 = [176].
Proof. vm_compute. split; reflexivity. Qed.

Example C13_nonvacuous :
  let y := repeat 255 64 in let x := repeat 15 64 in
  cpp_intersection true x y = 256 /\ rows_like y [x; y] /\ bytes y /\
  cpp_popcount_1d true y = 512 /\ cpp_popcount_1d false y = 512.
Proof.
  cbv zeta.
  assert (By : bytes (repeat 255 64)).
  { apply Forall_forall. intros b Hb. apply repeat_spec in Hb. subst b. split; discriminate || reflexivity. }
  assert (Bx : bytes (repeat 15 64)).
  { apply Forall_forall. intros b Hb. apply repeat_spec in Hb. subst b. split; discriminate || reflexivity. }
  refine (conj _ (conj _ (conj By (conj _ _)))); try (vm_compute; reflexivity).
  unfold rows_like. repeat (apply Forall_cons; [split; [assumption | reflexivity]|]). apply Forall_nil.
Qed.

(* non-vacuity of the widened [nf_ok]: a count that is not a multiple of 8 *)
Example C13_nf_ok_nonmultiple : nf_ok 2 (Some 13) /\ nf_ok 2 (Some 9) /\ nf_ok 2 (Some 16) /\ nf_ok 2 None.
Proof.
  repeat split; try (now left); right; eexists; (split; [reflexivity|split; [discriminate|reflexivity]]).
Qed.

(* ---------- add_rows<uint8_t>, jt_isim_unpacked_u8, jt_isim_packed_u8 ---------- *)
From BB Require Import Proofs.CppMore.

(* add_rows = np.sum(axis=0, dtype=uint64): byte rows, fewer than 2^56 of them (255 * 2^56 < 2^64):
   both are the exact column sums [zcolsum] ... *)
Theorem C13_add_rows : forall w X, Forall bytes X -> zlen X < 2 ^ 56 ->
  cpp_add_rows w X = zcolsum w X /\ py_add_rows w X = zcolsum w X /\
  Forall (fun k => 0 <= k <= 255 * zlen X) (zcolsum w X).
Proof. exact K5_add_rows. Qed.
(* ... and for any rows and any number of them the same uint64 values, wrap-around included *)
Theorem C13_add_rows_wrap : forall w X, cpp_add_rows w X = py_add_rows w X.
Proof. exact K5_add_rows_py. Qed.
(* bit rows (unpacked fingerprints): the linear sum of C11 *)
Theorem C13_add_rows_bits : forall nf rows, zlen rows < 2 ^ 64 ->
  cpp_add_rows nf (map (map b2z) rows) = colsum nf rows.
Proof. exact K5_add_rows_bits. Qed.

(* iSIM of unpacked rows: same floating-point bits; the hypotheses of [C13_isim] on the sums hold
   by construction, so only the shape (rows of width w) and the row count remain *)
Theorem C13_isim_unpacked : forall w X, Forall (fun r => length r = w) X -> zlen X < 2 ^ 63 ->
  cpp_isim_unpacked w X = py_isim_unpacked X.
Proof. exact K5_isim_unpacked. Qed.
(* on bit rows it is the iSIM of C11 on the column sums *)
Theorem C13_isim_unpacked_bits : forall nf rows, zlen rows < 2 ^ 63 ->
  cpp_isim_unpacked nf (map (map b2z) rows) = isim_f (colsum nf rows) (zlen rows).
Proof. exact K5_isim_unpacked_bits. Qed.

(* iSIM of packed rows, n_features = None or any count whose packed width is the row width *)
Theorem C13_isim_packed : forall nf (w : nat) X, rows_ok w X -> nf_ok w nf -> zlen X < 2 ^ 63 ->
  cpp_isim_packed nf X = Some (py_isim_packed nf X).
Proof. exact K5_isim_packed. Qed.
(* ... in fact any count >= 0 (this kernel has no shape check; truncation / zero padding as in
   [C13_unpack]), with no hypothesis on the rows *)
Theorem C13_isim_packed_any : forall nf X,
  match nf with Some n => 0 <= n | None => True end -> zlen X < 2 ^ 63 ->
  cpp_isim_packed nf X = Some (py_isim_packed nf X).
Proof. exact K5_isim_packed_any. Qed.
(* it throws exactly when the unpack kernel does; a negative count does *)
Theorem C13_isim_packed_none : forall nf X,
  cpp_isim_packed nf X = None <-> cpp_unpack_2d nf X = None.
Proof. exact K5_isim_packed_none. Qed.
Theorem C13_isim_packed_negative : forall n X, n < 0 -> X <> [] ->
  cpp_isim_packed (Some n) X = None.
Proof. exact K5_isim_packed_negative. Qed.
(* the value is the iSIM of C11 on the unpacked fingerprints *)
Theorem C13_isim_packed_colsum : forall nf (w : nat) X,
  Forall (fun r => length r = w) X ->
  match nf with Some n => 0 <= n | None => True end -> zlen X < 2 ^ 63 ->
  cpp_isim_packed nf X
  = Some (isim_f (colsum (unpacked_width w nf) (map (unpack nf) X)) (zlen X)).
Proof. exact K5_isim_packed_colsum. Qed.
