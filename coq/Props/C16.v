(* C16 — fingerprint-file utilities preserve content and order.  Statements only.
   RDKit (fp_of) and NumPy's shuffle are oracles: the theorems are about the plumbing. *)
From BB Require Import Model.FpsUtil Proofs.FpsFacts Proofs.GenTieUtil Gen.GUtil.
From Coq Require Import String.
Open Scope Z_scope.

(* batches cut in input order: nothing lost, nothing reordered *)
Theorem C16_batches : forall A n (l : list A), (0 < n)%nat -> List.concat (batched n l) = l.
Proof. exact @batched_concat. Qed.
Theorem C16_batch_sizes : forall A n (l : list A), (0 < n)%nat ->
  Forall (fun b => (1 <= List.length b <= n)%nat) (batched n l).
Proof. exact @batched_sizes. Qed.

(* every batch travels with its global index range; a row's global index locates it *)
Theorem C16_ranges_lookup : forall A n (l : list A) d r b i, (0 < n)%nat ->
  In (r, b) (ranges_batches n l) -> fst r <= i < snd r ->
  nth (Z.to_nat (i - fst r)) b d = nth (Z.to_nat i) l d.
Proof. exact @ranges_lookup. Qed.

(* indexing a sequence of files by sorted global indices (repeats, empty files allowed) =
   indexing their concatenation; unsorted or out-of-range lists are refused *)
Theorem C16_file_seq : forall R (files : list (list R)) idxs d, sortedb idxs = true ->
  Forall (fun i => 0 <= i < zlen (List.concat files)) idxs ->
  file_seq_get files idxs d = Some (map (fun i => nth (Z.to_nat i) (List.concat files) d) idxs).
Proof. exact @file_seq_get_spec. Qed.
Theorem C16_file_seq_unsorted : forall R files idxs (d : R), sortedb idxs = false ->
  file_seq_get files idxs d = None.
Proof. exact @file_seq_get_unsorted. Qed.

(* zero-padded part names: name order = part order; and the digits the code chooses suffice *)
Theorem C16_names_sorted : forall stem digits i j, 0 <= i < j -> j < 10 ^ digits -> 1 <= digits ->
  str_ltb (part_name stem digits i) (part_name stem digits j) = true.
Proof. exact part_names_sorted. Qed.
Theorem C16_digits_enough : forall count i, 1 <= count -> 0 <= i < count ->
  i < 10 ^ (Z.of_nat (String.length (str_of_Z count))).
Proof. exact digits_enough. Qed.

(* splitting a file and merging the parts (in sorted name order) reproduces its content *)
Theorem C16_split_merge : forall R stem n (rows : list R), (0 < n)%nat ->
  let count := Z.of_nat (List.length (batched n rows)) in
  let digits := Z.of_nat (String.length (str_of_Z (Z.max count 1))) in
  merge_parts (split_parts stem digits n rows) = rows.
Proof. exact @split_merge. Qed.

(* parse_num_per_batch is the translated source, and covers the input *)
Theorem C16_source_tie : forall n p m,
  GUtil.parse_num_per_batch n p m = FpsUtil.parse_num_per_batch n p m.
Proof. exact tie_parse_num_per_batch. Qed.
Theorem C16_parts_cover : forall s p mx parts npb dg, 1 <= s ->
  match p with Some x => 1 <= x | None => True end ->
  match mx with Some x => 1 <= x | None => True end ->
  FpsUtil.parse_num_per_batch s p mx = Some (parts, npb, dg) ->
  1 <= parts /\ 1 <= npb /\ parts * npb >= s.
Proof. exact parse_num_per_batch_spec. Qed.

(* ---- `bb fps-split`: rows per part and zero-padding digits as the source computes them
   (Gen/GUtil.split_plan, regenerated from cli._split_fps on every run) ---- *)
(* every part index fits in the chosen number of digits ... *)
Theorem C16_split_plan_digits : forall n parts mx per digits,
  1 <= n -> (match mx with Some m => 1 <= m | None => True end) ->
  GUtil.split_plan n parts mx = Some (per, digits) ->
  1 <= per /\ forall i, 0 <= i < ceil_div n per -> i < 10 ^ digits.
Proof. exact split_plan_digits_enough. Qed.
(* ... hence the part names sort in part order, for every number of rows and either option *)
Theorem C16_split_plan_names_sorted : forall n parts mx per digits stem i j,
  1 <= n -> (match mx with Some m => 1 <= m | None => True end) ->
  GUtil.split_plan n parts mx = Some (per, digits) ->
  0 <= i < j -> j < ceil_div n per ->
  str_ltb (part_name stem digits i) (part_name stem digits j) = true.
Proof. exact split_plan_names_sorted. Qed.
(* the command aborts exactly when not exactly one option is given, or fewer than two parts *)
Theorem C16_split_plan_defined : forall n parts mx,
  GUtil.split_plan n parts mx <> None <->
  ((exists p, parts = Some p /\ 2 <= p /\ mx = None) \/ (parts = None /\ exists m, mx = Some m)).
Proof. exact split_plan_defined. Qed.
