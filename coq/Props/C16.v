(* C16 — fingerprint-file utilities preserve content and order.  Statements only.
   RDKit (fp_of) and NumPy's shuffle are oracles: the theorems are about the plumbing. *)
From BB Require Import Model.FpsUtil Proofs.FpsFacts Proofs.GenTieUtil Gen.GUtil.
From Coq Require Import String.
Open Scope Z_scope.

(* batches cut in input order: nothing lost, nothing reordered *)
Theorem C16_batches : forall A n (l : list A), (0 < n)%nat -> List.concat (batched n l) = l.
Proof. exact @batched_concat. Qed.
Theorem C16_batch_sizes : forall A n (l : list A), (0 < n)%nat ->
  Forall (fun b => (1 <= List.length b <= n)%nat) (batched n l).
Proof. exact @batched_sizes. Qed.

(* every batch travels with its global index range; a row's global index locates it *)
Theorem C16_ranges_lookup : forall A n (l : list A) d r b i, (0 < n)%nat ->
  In (r, b) (ranges_batches n l) -> fst r <= i < snd r ->
  nth (Z.to_nat (i - fst r)) b d = nth (Z.to_nat i) l d.
Proof. exact @ranges_lookup. Qed.

(* indexing a sequence of files by sorted global indices (repeats, empty files allowed) =
   indexing their concatenation; unsorted or out-of-range lists are refused *)
Theorem C16_file_seq : forall R (files : list (list R)) idxs d, sortedb idxs = true ->
  Forall (fun i => 0 <= i < zlen (List.concat files)) idxs ->
  file_seq_get files idxs d = Some (map (fun i => nth (Z.to_nat i) (List.concat files) d) idxs).
Proof. exact @file_seq_get_spec. Qed.
Theorem C16_file_seq_unsorted : forall R files idxs (d : R), sortedb idxs = false ->
  file_seq_get files idxs d = None.
Proof. exact @file_seq_get_unsorted. Qed.

(* zero-padded part names: name order = part order; and the digits the code chooses suffice *)
Theorem C16_names_sorted : forall stem digits i j, 0 <= i < j -> j < 10 ^ digits -> 1 <= digits ->
  str_ltb (part_name stem digits i) (part_name stem digits j) = true.
Proof. exact part_names_sorted. Qed.
Theorem C16_digits_enough : forall count i, 1 <= count -> 0 <= i < count ->
  i < 10 ^ (Z.of_nat (String.length (str_of_Z count))).
Proof. exact digits_enough. Qed.

(* splitting a file and merging the parts (in sorted name order) reproduces its content *)
Theorem C16_split_merge : forall R stem n (rows : list R), (0 < n)%nat ->
  let count := Z.of_nat (List.length (batched n rows)) in
  let digits := Z.of_nat (String.length (str_of_Z (Z.max count 1))) in
  merge_parts (split_parts stem digits n rows) = rows.
Proof. exact @split_merge. Qed.

(* parse_num_per_batch is the translated source, and covers the input *)
Theorem C16_source_tie : forall n p m,
  GUtil.parse_num_per_batch n p m = FpsUtil.parse_num_per_batch n p m.
Proof. exact tie_parse_num_per_batch. Qed.
Theorem C16_parts_cover : forall s p mx parts npb dg, 1 <= s ->
  match p with Some x => 1 <= x | None => True end ->
  match mx with Some x => 1 <= x | None => True end ->
  FpsUtil.parse_num_per_batch s p mx = Some (parts, npb, dg) ->
  1 <= parts /\ 1 <= npb /\ parts * npb >= s.
Proof. exact parse_num_per_batch_spec. Qed.

(* ---- `bb fps-split`: rows per part and zero-padding digits as the source computes them
   (Gen/GUtil.split_plan, regenerated from cli._split_fps on every run) ---- *)
(* every part index fits in the chosen number of digits ... *)
Theorem C16_split_plan_digits : forall n parts mx per digits,
  1 <= n -> (match mx with Some m => 1 <= m | None => True end) ->
  GUtil.split_plan n parts mx = Some (per, digits) ->
  1 <= per /\ forall i, 0 <= i < ceil_div n per -> i < 10 ^ digits.
Proof. exact split_plan_digits_enough. Qed.
(* ... hence the part names sort in part order, for every number of rows and either option *)
Theorem C16_split_plan_names_sorted : forall n parts mx per digits stem i j,
  1 <= n -> (match mx with Some m => 1 <= m | None => True end) ->
  GUtil.split_plan n parts mx = Some (per, digits) ->
  0 <= i < j -> j < ceil_div n per ->
  str_ltb (part_name stem digits i) (part_name stem digits j) = true.
Proof. exact split_plan_names_sorted. Qed.
(* the command aborts exactly when not exactly one option is given, or fewer than two parts *)
Theorem C16_split_plan_defined : forall n parts mx,
  GUtil.split_plan n parts mx <> None <->
  ((exists p, parts = Some p /\ 2 <= p /\ mx = None) \/ (parts = None /\ exists m, mx = Some m)).
Proof. exact split_plan_defined. Qed.

(* ---- `bb fps-from-smiles`: the workers and the assembly of their output (Model/FpsGen.v).
   [fp_of] is RDKit (None = invalid SMILES), [zero] a row of a fresh shared-memory block. ---- *)
From BB Require Import Model.FpsGen Proofs.FpsGenFacts.
From Coq Require Import Permutation.
(* the in-process API: the valid entries in input order, the others by index; nothing
   uninitialised is returned *)
Theorem C16_api : forall S R (fp_of : S -> option R) l,
  api_fps_from_smiles fp_of l = (map Some (valid_fps fp_of l), invalid_idxs fp_of l).
Proof. exact @api_spec. Qed.
(* one file filled by several workers: EVERY interleaving of their single-row writes (hence any
   number of processes and any order of the batches) leaves the API result *)
Theorem C16_single_file_any_interleaving : forall S R (fp_of : S -> option R) zero n l ws, (0 < n)%nat ->
  Permutation ws (List.concat (map writes_of (ranges_batches n l))) ->
  option_map assemble_single (fold_left (apply_write fp_of) ws (Some (shm0 zero (List.length l)))) =
  Some (valid_fps fp_of l, invalid_idxs fp_of l).
Proof. exact @single_file_any_interleaving. Qed.
Theorem C16_single_file_any_schedule : forall S R (fp_of : S -> option R) zero n l tasks, (0 < n)%nat ->
  Permutation tasks (ranges_batches n l) ->
  cli_single_file fp_of zero tasks (List.length l) = Some (valid_fps fp_of l, invalid_idxs fp_of l).
Proof. exact @single_file_any_schedule. Qed.
Theorem C16_single_file_equals_api : forall S R (fp_of : S -> option R) zero n l tasks rows inv, (0 < n)%nat ->
  Permutation tasks (ranges_batches n l) ->
  cli_single_file fp_of zero tasks (List.length l) = Some (rows, inv) ->
  (map Some rows, inv) = api_fps_from_smiles fp_of l.
Proof. exact @single_file_equals_api. Qed.
(* several files, one per batch, written in any order: read back in name order they are the
   valid entries in input order — with the number of digits the command computes *)
Theorem C16_multi_file_any_schedule : forall S R (fp_of : S -> option R) stem l p mx parts npb dg tasks,
  1 <= zlen l -> match p with Some x => 1 <= x | None => True end ->
  match mx with Some x => 1 <= x | None => True end ->
  FpsUtil.parse_num_per_batch (zlen l) p mx = Some (parts, npb, Some dg) ->
  Permutation tasks (with_idxs 0 (batched (Z.to_nat npb) l)) ->
  cli_multi_file fp_of stem (Some dg) tasks = map Some (valid_fps fp_of l).
Proof. exact @multi_file_cli_digits. Qed.
(* the hypotheses carry content: ranges that are not the batches' own, or too few digits, break it *)
Example C16_overlapping_ranges_break := overlapping_ranges_break.
Example C16_too_few_digits_break := too_few_digits_break.
Example C16_fill_example := fill_example.

(* `bb fps-shuffle`: whatever permutation of the row indices the generator draws, the output holds
   the same rows with the same multiplicities *)
From BB Require Import Proofs.FpsShuffle.
Theorem C16_shuffle_multiset : forall R (perm : list nat) (rows : list R) d,
  Permutation perm (seq 0 (List.length rows)) -> Permutation (apply_perm perm rows d) rows.
Proof. exact @shuffle_multiset. Qed.

(* ---- further clauses (Proofs/FpsMore.v) ----
   file-sequence lookup: defined exactly for in-range index lists (out of range -> refused), the empty list,
   repeats, empty files anywhere in the sequence; fps-split: the parts concatenate to the input, every part
   but the last has exactly `per` rows, the names are strictly increasing in name order under the digits
   of the plan, and merging the parts in ANY listing order gives back the rows *)
From BB Require Import Proofs.FpsMore.
From Coq Require Import Sorted Permutation.
Theorem C16_seq_lookup_some_iff : forall {R} (files : list (list R)) idxs d,
  sortedb idxs = true -> Forall (fun i => 0 <= i) idxs ->
  (file_seq_get files idxs d <> None <->
   Forall (fun i => 0 <= i < zlen (List.concat files)) idxs).
Proof. exact (@seq_lookup_some_iff). Qed.
Theorem C16_seq_lookup_out_of_range : forall {R} (files : list (list R)) idxs d,
  Exists (fun i => zlen (List.concat files) <= i) idxs -> file_seq_get files idxs d = None.
Proof. exact (@seq_lookup_out_of_range). Qed.
Theorem C16_seq_lookup_empty : forall {R} (files : list (list R)) d,
  file_seq_get files [] d = Some [].
Proof. exact (@seq_lookup_empty). Qed.
Theorem C16_seq_lookup_repeats : forall {R} (files : list (list R)) i k d,
  0 <= i < zlen (List.concat files) ->
  file_seq_get files (repeat i k) d = Some (repeat (nth (Z.to_nat i) (List.concat files) d) k).
Proof. exact (@seq_lookup_repeats). Qed.
Theorem C16_seq_lookup_empty_files_irrelevant : forall {R} (a b : list (list R)) idxs d,
  Forall (fun i => 0 <= i) idxs ->
  file_seq_get (a ++ [] :: b) idxs d = file_seq_get (a ++ b) idxs d.
Proof. exact (@seq_lookup_empty_files_irrelevant). Qed.
Theorem C16_split_parts_concat : forall {R} stem (rows : list R) parts mx per digits,
  (match mx with Some m => 1 <= m | None => True end) ->
  GUtil.split_plan (zlen rows) parts mx = Some (per, digits) ->
  List.concat (map snd (split_parts stem digits (Z.to_nat per) rows)) = rows.
Proof. exact (@split_parts_concat). Qed.
Theorem C16_split_part_sizes : forall {R} stem (rows : list R) parts mx per digits,
  rows <> [] -> (match mx with Some m => 1 <= m | None => True end) ->
  GUtil.split_plan (zlen rows) parts mx = Some (per, digits) ->
  let ps := split_parts stem digits (Z.to_nat per) rows in
  let count := List.length ps in
  Z.of_nat count = ceil_div (zlen rows) per /\ (1 <= count)%nat /\
  (forall k, (S k < count)%nat -> zlen (snd (nth k ps (EmptyString, []))) = per) /\
  1 <= zlen (snd (nth (count - 1) ps (EmptyString, []))) <= per /\
  zlen (snd (nth (count - 1) ps (EmptyString, []))) = zlen rows - (Z.of_nat count - 1) * per.
Proof. exact (@split_part_sizes). Qed.
Theorem C16_split_names_sorted : forall {R} stem (rows : list R) parts mx per digits,
  (match mx with Some m => 1 <= m | None => True end) ->
  GUtil.split_plan (zlen rows) parts mx = Some (per, digits) ->
  StronglySorted name_lt (map fst (split_parts stem digits (Z.to_nat per) rows)).
Proof. exact (@split_names_sorted). Qed.
Theorem C16_split_merge_plan_any_order : forall {R} stem (rows : list R) parts mx per digits ps,
  (match mx with Some m => 1 <= m | None => True end) ->
  GUtil.split_plan (zlen rows) parts mx = Some (per, digits) ->
  Permutation ps (split_parts stem digits (Z.to_nat per) rows) ->
  merge_parts ps = rows.
Proof. exact (@split_merge_plan_any_order). Qed.
