(* C18 — labels, predictions and distances agree with the clusters.  Statements only. *)
From BB Require Import Model.Birch Model.Labels Proofs.BirchDefs Proofs.BirchInv
     Proofs.BirchRebuild Proofs.LabelFacts.
Open Scope Z_scope.

(* the assignment vector: every fitted fingerprint gets the 1-based rank of its cluster in
   the size-sorted cluster list *)
Theorem C18_assignments : forall st, st_inv st -> numbered st -> root st <> None ->
  exists v, assignments st = Some v /\ length v = Z.to_nat (nfit st) /\
    forall i, 0 <= i < nfit st ->
      exists k, rank_of i (clusters st) 1 = Some k /\ nth (Z.to_nat i) v 0 = k /\
                1 <= k <= zlen (clusters st).
Proof. exact assignments_spec. Qed.

(* same label <-> same cluster *)
Theorem C18_same_label_same_cluster : forall st v i j, st_inv st -> numbered st ->
  assignments st = Some v -> 0 <= i < nfit st -> 0 <= j < nfit st ->
  (nth (Z.to_nat i) v 0 = nth (Z.to_nat j) v 0 <-> together (clusters st) i j).
Proof. exact assignments_same_cluster. Qed.

(* refused rather than returned with unlabeled entries: for ANY state *)
Theorem C18_never_unlabeled : forall st v, assignments st = Some v ->
  length v = Z.to_nat (nfit st) /\ Forall (fun x => x <> 0) v.
Proof. exact assignments_sound. Qed.
Theorem C18_refused : forall st i, 0 <= i < nfit st ->
  (forall c, In c (clusters st) -> ~ In i c) -> assignments st = None.
Proof. exact assignments_refused_st. Qed.

(* rank 1 is a largest cluster *)
Theorem C18_sorted_largest_first : forall st, st_inv st ->
  Sorted.StronglySorted (fun c d => zlen d <= zlen c) (clusters st).
Proof. exact clusters_sorted. Qed.

(* the scikit-learn wrapper: labels_ is this vector; predict is 1 + first argmin of the row
   of transform; transform is the Jaccard distance to every (sorted) centroid — by
   definition of the model (Model/Labels.v), tied to bblean/sklearn.py by suite `labels` *)
Theorem C18_sklearn_labels : forall st, st_inv st -> numbered st -> root st <> None ->
  exists v, sk_labels st = Some v /\ length v = Z.to_nat (nfit st) /\
            Forall (fun x => 1 <= x <= zlen (clusters st)) v.
Proof. exact sk_labels_spec. Qed.
Theorem C18_predict_is_argmin : forall st Q,
  sk_predict st Q = map (fun row => 1 + Z.of_nat (argmin_f row)) (sk_transform st Q).
Proof. reflexivity. Qed.
Theorem C18_jaccard_symmetric : forall a b, jaccard_f a b = jaccard_f b a.
Proof. exact jaccard_sym. Qed.
