(* C18 — labels, predictions and distances agree with the clusters.  Statements only. *)
From BB Require Import Model.Birch Model.Labels Proofs.BirchDefs Proofs.BirchInv
     Proofs.BirchRebuild Proofs.LabelFacts.
Open Scope Z_scope.

(* the assignment vector: every fitted fingerprint gets the 1-based rank of its cluster in
   the size-sorted cluster list *)
Theorem C18_assignments : forall st, st_inv st -> numbered st -> root st <> None ->
  exists v, assignments st = Some v /\ length v = Z.to_nat (nfit st) /\
    forall i, 0 <= i < nfit st ->
      exists k, rank_of i (clusters st) 1 = Some k /\ nth (Z.to_nat i) v 0 = k /\
                1 <= k <= zlen (clusters st).
Proof. exact assignments_spec. Qed.

(* same label <-> same cluster *)
Theorem C18_same_label_same_cluster : forall st v i j, st_inv st -> numbered st ->
  assignments st = Some v -> 0 <= i < nfit st -> 0 <= j < nfit st ->
  (nth (Z.to_nat i) v 0 = nth (Z.to_nat j) v 0 <-> together (clusters st) i j).
Proof. exact assignments_same_cluster. Qed.

(* refused rather than returned with unlabeled entries: for ANY state *)
Theorem C18_never_unlabeled : forall st v, assignments st = Some v ->
  length v = Z.to_nat (nfit st) /\ Forall (fun x => x <> 0) v.
Proof. exact assignments_sound. Qed.
Theorem C18_refused : forall st i, 0 <= i < nfit st ->
  (forall c, In c (clusters st) -> ~ In i c) -> assignments st = None.
Proof. exact assignments_refused_st. Qed.

(* rank 1 is a largest cluster *)
Theorem C18_sorted_largest_first : forall st, st_inv st ->
  Sorted.StronglySorted (fun c d => zlen d <= zlen c) (clusters st).
Proof. exact clusters_sorted. Qed.

(* the scikit-learn wrapper: labels_ is this vector; predict is 1 + first argmin of the row
   of transform; transform is the Jaccard distance to every (sorted) centroid — by
   definition of the model (Model/Labels.v), tied to bblean/sklearn.py by suite `labels` *)
Theorem C18_sklearn_labels : forall st, st_inv st -> numbered st -> root st <> None ->
  exists v, sk_labels st = Some v /\ length v = Z.to_nat (nfit st) /\
            Forall (fun x => 1 <= x <= zlen (clusters st)) v.
Proof. exact sk_labels_spec. Qed.
Theorem C18_predict_is_argmin : forall st Q,
  sk_predict st Q = map (fun row => 1 + Z.of_nat (argmin_f row)) (sk_transform st Q).
Proof. reflexivity. Qed.
Theorem C18_jaccard_symmetric : forall a b, jaccard_f a b = jaccard_f b a.
Proof. exact jaccard_sym. Qed.

(* ---- the wrappers' transform / predict (Proofs/SimMore.v): shape and entries of transform, the
   Jaccard distance as the correctly rounded |a xor b| / |a or b| = 1 - Tanimoto, its range, and
   the range of predicted labels *)
From BB Require Import Proofs.SimMore.
From Coq Require Import Reals.
From Flocq Require Import Core BinarySingleNaN.
From Flocq Require Import IEEE754.PrimFloat.
From BB Require Import Proofs.FloatFacts Proofs.BitsFacts.
Theorem C18_sk_transform_shape : forall st Q,
  length (sk_transform st Q) = length Q /\
  Forall (fun row => length row = length (sk_centers st)) (sk_transform st Q).
Proof. exact sk_transform_shape. Qed.
Theorem C18_sk_transform_entry : forall st Q i k,
  (i < length Q)%nat -> (k < length (sk_centers st))%nat ->
  nth k (nth i (sk_transform st Q) []) 0%float =
  jaccard_f (nth i Q []) (nth k (sk_centers st) []).
Proof. exact sk_transform_entry. Qed.
Theorem C18_jaccard_is_one_minus_tanimoto_exact : forall (a b : fpv),
  length a = length b -> Z.of_nat (length a) < 2 ^ 52 -> 0 < card (orv a b) ->
  card (xorv a b) = card (orv a b) - card (andv a b) /\
  is_finite (Prim2B (jaccard_f a b)) = true /\
  B2R (Prim2B (jaccard_f a b)) =
    rnd64 (IZR (card (xorv a b)) / IZR (card (orv a b)))%R /\
  (IZR (card (xorv a b)) / IZR (card (orv a b)) =
   1 - IZR (card (andv a b)) / IZR (card (orv a b)))%R.
Proof. exact jaccard_is_one_minus_tanimoto_exact. Qed.
Theorem C18_jaccard_range : forall (a b : fpv),
  Z.of_nat (length a) < 2 ^ 52 -> Z.of_nat (length b) < 2 ^ 52 ->
  is_nan_f (jaccard_f a b) = false /\
  PrimFloat.leb 0 (jaccard_f a b) = true /\ PrimFloat.leb (jaccard_f a b) 1 = true.
Proof. exact jaccard_range. Qed.
Theorem C18_sk_predict_range : forall st Q,
  sk_centers st <> [] ->
  length (sk_predict st Q) = length Q /\
  Forall (fun l => 1 <= l <= zlen (sk_centers st)) (sk_predict st Q).
Proof. exact sk_predict_range. Qed.
