(* C17 — merge configuration is consistent and changes only when asked.  Statements only. *)
From BB Require Import Model.Config Proofs.ConfigFacts.
Open Scope Z_scope.

Theorem C17_accept_iff : forall fexp cf thr bf a tol, a <> ANone ->
  (ctor fexp None thr bf a tol <> None <-> set_merge fexp None cf a tol None None <> None).
Proof. exact ctor_iff_set_merge. Qed.

Theorem C17_same_behaviour : forall fexp cf thr bf a tol c1 c2, a <> ANone ->
  (tol <> None \/ crit_tolerance (c_crit cf) = None) ->
  ctor fexp None thr bf a tol = Some c1 -> set_merge fexp None cf a tol None None = Some c2 ->
  c_crit c1 = c_crit c2.
Proof. exact ctor_same_as_set_merge. Qed.

Theorem C17_frame : forall fexp cf a tol thr bf cf',
  set_merge fexp None cf a tol thr bf = Some cf' ->
  (thr = None -> c_thr cf' = c_thr cf) /\ (bf = None -> c_bf cf' = c_bf cf) /\
  (forall t, thr = Some t -> c_thr cf' = t) /\ (forall b, bf = Some b -> c_bf cf' = b) /\
  (a = ANone -> tol = None -> c_crit cf' = c_crit cf) /\
  (forall n t0, a = AName n -> tol = None -> crit_tolerance (c_crit cf) = Some t0 ->
      get_merge_accept_fn fexp n t0 = Some (c_crit cf')) /\
  (forall t, a = ANone -> tol = Some t ->
      c_crit cf' = crit_set_tolerance (c_crit cf) t /\ crit_name (c_crit cf') = crit_name (c_crit cf)).
Proof. exact set_merge_frame. Qed.

Theorem C17_reset : forall st, reset_st st = init (cfg st).
Proof. exact reset_is_fresh. Qed.
Theorem C17_reset_behaves_fresh : forall fexp st ops,
  fold_left (fun s o => fst (step fexp s o)) ops (reset_st st) =
  fold_left (fun s o => fst (step fexp s o)) ops (init (cfg st)).
Proof. exact reset_run. Qed.

Example C17_nonvacuous :
  let f := fun _ : float => 0.5%float in
  let cf := mkCfg (CTolDiameter 0.2 tol_decay (tol_offset f)) 0.65 50 in
  set_merge f None cf ANone None (Some 0.5%float) None = Some (mkCfg (c_crit cf) 0.5 50) /\
  ctor f None 0.65 50 (AObj CDiameter) None <> None /\
  set_merge f None cf (AName NDiameter) (Some 0.1%float) None None <> None /\
  ctor f None 0.65 50 (AName NDiameter) (Some 0.1%float) <> None.
Proof. cbn. repeat split; discriminate. Qed.

(* ---- the configuration logic is the one in the source ----
   Gen/GConfig.v is extracted from BitBirch.__init__, BitBirch.set_merge, the `tolerance` getter and the two
   property setters of bblean/bitbirch.py on every run (decision tree over: global merge function set,
   tolerance given, criterion None / str / merge-function object, current criterion has a tolerance;
   leaves: ValueError, get_merge_accept_fn, in-place tolerance change, threshold / branching-factor update;
   a raise after a partial update fails the translation); Proofs/GenTieConfig.v re-proves equality with the
   model of Model/Config.v *)
From BB Require Import Gen.GConfig Proofs.GenTieConfig.
Theorem C17_source_tie_ctor : forall fexp g thr bf a tol,
  GConfig.ctor fexp g thr bf a tol = Config.ctor fexp g thr bf a tol.
Proof. exact tie_ctor. Qed.
Theorem C17_source_tie_set_merge : forall fexp g cf a tol thr bf,
  GConfig.set_merge fexp g cf a tol thr bf = Config.set_merge fexp g cf a tol thr bf.
Proof. exact tie_set_merge. Qed.
Theorem C17_source_tie_setters : forall fexp g cf,
  (forall n, GConfig.set_criterion_prop fexp g cf n = Config.set_criterion_prop fexp g cf n) /\
  (forall t, GConfig.set_tolerance_prop fexp g cf t = Config.set_tolerance_prop fexp g cf t) /\
  GConfig.get_tolerance cf = Config.get_tolerance cf.
Proof. intros fexp g cf. split; [|split]; [exact (tie_set_criterion_prop fexp g cf) | exact (tie_set_tolerance_prop fexp g cf) | exact (tie_get_tolerance cf)]. Qed.

(* ---- whole sequences of configuration calls (Proofs/ConfigSeq.v) ----
   a call = set_merge with any subset of arguments (the property setters are the special cases
   C17_source_tie_setters names); a refused call leaves the configuration untouched *)
From BB Require Import Proofs.ConfigSeq.
Theorem C17_seq_frame : forall fexp ops cf,
  (Forall (fun o => o_thr o = None) ops -> c_thr (run_cfg fexp cf ops) = c_thr cf) /\
  (Forall (fun o => o_bf o = None) ops -> c_bf (run_cfg fexp cf ops) = c_bf cf) /\
  (Forall (fun o => o_a o = ANone /\ o_tol o = None) ops -> c_crit (run_cfg fexp cf ops) = c_crit cf).
Proof. intros fexp ops cf. split; [|split]; [apply run_thr_frame | apply run_bf_frame | apply run_crit_frame]. Qed.
Theorem C17_seq_last_threshold_wins : forall fexp pre o post cf t,
  o_thr o = Some t ->
  Config.set_merge fexp None (run_cfg fexp cf pre) (o_a o) (o_tol o) (o_thr o) (o_bf o) <> None ->
  Forall (fun o => o_thr o = None) post ->
  c_thr (run_cfg fexp cf (pre ++ o :: post)) = t.
Proof. exact run_thr_last. Qed.
Theorem C17_seq_last_branching_factor_wins : forall fexp pre o post cf b,
  o_bf o = Some b ->
  Config.set_merge fexp None (run_cfg fexp cf pre) (o_a o) (o_tol o) (o_thr o) (o_bf o) <> None ->
  Forall (fun o => o_bf o = None) post ->
  c_bf (run_cfg fexp cf (pre ++ o :: post)) = b.
Proof. exact run_bf_last. Qed.
Theorem C17_seq_tolerance_survives : forall fexp ops cf t0,
  crit_tolerance (c_crit cf) = Some t0 -> Forall keeps_tol_op ops ->
  crit_tolerance (c_crit (run_cfg fexp cf ops)) = Some t0.
Proof. exact run_keeps_tol. Qed.
Theorem C17_tolerance_only_call : forall fexp cf o t,
  o_a o = ANone -> o_tol o = Some t ->
  (crit_tolerance (c_crit cf) <> None ->
     crit_tolerance (c_crit (apply_op fexp cf o)) = Some t /\
     crit_name (c_crit (apply_op fexp cf o)) = crit_name (c_crit cf)) /\
  (crit_tolerance (c_crit cf) = None -> apply_op fexp cf o = cf).
Proof. exact apply_tol_only. Qed.
Theorem C17_call_idempotent : forall fexp cf o, apply_op fexp (apply_op fexp cf o) o = apply_op fexp cf o.
Proof. exact apply_idem. Qed.
Theorem C17_name_only_equals_ctor_with_kept_tolerance : forall fexp cf thr bf n t0,
  crit_tolerance (c_crit cf) = Some t0 ->
  option_map c_crit (Config.set_merge fexp None cf (AName n) None None None) =
  option_map c_crit (Config.ctor fexp None thr bf (AName n) (Some t0)).
Proof. exact set_merge_name_is_ctor_with_kept_tol. Qed.
Theorem C17_full_set_merge_equals_ctor : forall fexp cf thr bf a t, a <> ANone ->
  Config.set_merge fexp None cf a (match a with AObj _ => None | _ => Some t end) (Some thr) (Some bf) =
  Config.ctor fexp None thr bf a (match a with AObj _ => None | _ => Some t end).
Proof. exact full_set_merge_is_ctor. Qed.
Example C17_seq_nonvacuous :
  let f := fun _ : float => 0.5%float in
  let cf := mkCfg (CTolDiameter 0.2 tol_decay (tol_offset f)) 0.65 50 in
  let ops := [mkOp (AName NTolRadius) None None (Some 20); mkOp ANone None (Some 0.5%float) None;
              mkOp (AName NNever) None None None] in
  Forall keeps_tol_op ops /\
  run_cfg f cf ops = mkCfg (CNever 0.2 tol_decay (tol_offset f)) 0.5 20.
Proof.
  split; [|reflexivity].
  constructor; [split; [reflexivity|right; exists NTolRadius; split; reflexivity]|].
  constructor; [split; [reflexivity|left; reflexivity]|].
  constructor; [split; [reflexivity|right; exists NNever; split; reflexivity]|constructor].
Qed.

(* ---- reset() of the source spares the configuration ----
   Gen/GReset.v lists, from bblean/bitbirch.py on every run, the attributes BitBirch.reset assigns and the
   attributes BitBirch.set_merge assigns (reset may contain nothing but constant assignments to attributes of
   self, optionally under `if self.<attr> is not None:`; a call or anything else fails the translation) *)
From Coq Require Import String.
From BB Require Import Gen.GReset Proofs.GenTieReset.
Theorem C17_source_reset_spares_config : forall a, In a reset_writes -> ~ In a config_attrs.
Proof. exact reset_spares_config. Qed.
Theorem C17_source_config_fields : forall a,
  In a config_attrs <-> In a ["_merge_accept_fn"; "threshold"; "branching_factor"]%string.
Proof. exact config_attrs_are_the_model_fields. Qed.
Theorem C17_source_reset_clears_data :
  In ("_root", "None")%string reset_clears /\ In ("_num_fitted_fps", "0")%string reset_clears.
Proof. exact reset_clears_data. Qed.
