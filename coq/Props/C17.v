(* C17 — merge configuration is consistent and changes only when asked.  Statements only. *)
From BB Require Import Model.Config Proofs.ConfigFacts.
Open Scope Z_scope.

Theorem C17_accept_iff : forall fexp cf thr bf a tol, a <> ANone ->
  (ctor fexp None thr bf a tol <> None <-> set_merge fexp None cf a tol None None <> None).
Proof. exact ctor_iff_set_merge. Qed.

Theorem C17_same_behaviour : forall fexp cf thr bf a tol c1 c2, a <> ANone ->
  (tol <> None \/ crit_tolerance (c_crit cf) = None) ->
  ctor fexp None thr bf a tol = Some c1 -> set_merge fexp None cf a tol None None = Some c2 ->
  c_crit c1 = c_crit c2.
Proof. exact ctor_same_as_set_merge. Qed.

Theorem C17_frame : forall fexp cf a tol thr bf cf',
  set_merge fexp None cf a tol thr bf = Some cf' ->
  (thr = None -> c_thr cf' = c_thr cf) /\ (bf = None -> c_bf cf' = c_bf cf) /\
  (forall t, thr = Some t -> c_thr cf' = t) /\ (forall b, bf = Some b -> c_bf cf' = b) /\
  (a = ANone -> tol = None -> c_crit cf' = c_crit cf) /\
  (forall n t0, a = AName n -> tol = None -> crit_tolerance (c_crit cf) = Some t0 ->
      get_merge_accept_fn fexp n t0 = Some (c_crit cf')) /\
  (forall t, a = ANone -> tol = Some t ->
      c_crit cf' = crit_set_tolerance (c_crit cf) t /\ crit_name (c_crit cf') = crit_name (c_crit cf)).
Proof. exact set_merge_frame. Qed.

Theorem C17_reset : forall st, reset_st st = init (cfg st).
Proof. exact reset_is_fresh. Qed.
Theorem C17_reset_behaves_fresh : forall fexp st ops,
  fold_left (fun s o => fst (step fexp s o)) ops (reset_st st) =
  fold_left (fun s o => fst (step fexp s o)) ops (init (cfg st)).
Proof. exact reset_run. Qed.

Example C17_nonvacuous :
  let f := fun _ : float => 0.5%float in
  let cf := mkCfg (CTolDiameter 0.2 tol_decay (tol_offset f)) 0.65 50 in
  set_merge f None cf ANone None (Some 0.5%float) None = Some (mkCfg (c_crit cf) 0.5 50) /\
  ctor f None 0.65 50 (AObj CDiameter) None <> None /\
  set_merge f None cf (AName NDiameter) (Some 0.1%float) None None <> None /\
  ctor f None 0.65 50 (AName NDiameter) (Some 0.1%float) <> None.
Proof. cbn. repeat split; discriminate. Qed.

(* ---- the configuration logic is the one in the source ----
   Gen/GConfig.v is extracted from BitBirch.__init__, BitBirch.set_merge, the `tolerance` getter and the two
   property setters of bblean/bitbirch.py on every run (decision tree over: global merge function set,
   tolerance given, criterion None / str / merge-function object, current criterion has a tolerance;
   leaves: ValueError, get_merge_accept_fn, in-place tolerance change, threshold / branching-factor update;
   a raise after a partial update fails the translation); Proofs/GenTieConfig.v re-proves equality with the
   model of Model/Config.v *)
From BB Require Import Gen.GConfig Proofs.GenTieConfig.
Theorem C17_source_tie_ctor : forall fexp g thr bf a tol,
  GConfig.ctor fexp g thr bf a tol = Config.ctor fexp g thr bf a tol.
Proof. exact tie_ctor. Qed.
Theorem C17_source_tie_set_merge : forall fexp g cf a tol thr bf,
  GConfig.set_merge fexp g cf a tol thr bf = Config.set_merge fexp g cf a tol thr bf.
Proof. exact tie_set_merge. Qed.
Theorem C17_source_tie_setters : forall fexp g cf,
  (forall n, GConfig.set_criterion_prop fexp g cf n = Config.set_criterion_prop fexp g cf n) /\
  (forall t, GConfig.set_tolerance_prop fexp g cf t = Config.set_tolerance_prop fexp g cf t) /\
  GConfig.get_tolerance cf = Config.get_tolerance cf.
Proof. intros fexp g cf. split; [|split]; [exact (tie_set_criterion_prop fexp g cf) | exact (tie_set_tolerance_prop fexp g cf) | exact (tie_get_tolerance cf)]. Qed.
