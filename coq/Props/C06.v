(* C06 — the multi-round result is independent of scheduling.  Statements only.
   Model/Multiround.v: a round is a list of independent tasks, each a function of the directory
   left by the previous round (pool.map barrier) returning the files it writes; Proofs/MrSched.v.
   [perm r] is an ARBITRARY reordering of the tasks of round r — number of workers, start method
   and completion order only decide which permutation / interleaving happens. *)
From BB Require Import Model.Multiround Proofs.MrSched.
From Coq Require Import String Permutation.
Open Scope Z_scope.
Open Scope string_scope.

(* every task order in every round gives the directory of the serial execution *)
Theorem C06_sched_independent : forall fexp (perm : Z -> forall A : Type, list A -> list A),
  (forall r A (l : list A), Permutation (perm r A l) l) ->
  forall c files d0, dir_wf d0 ->
  run_multiround_sched fexp perm c files d0 = run_multiround fexp c files d0.
Proof. exact sched_independent. Qed.

(* the same when each task reads the directory as it is when the task starts (other tasks of the
   round may already have written): reads of round r never see writes of round r *)
Theorem C06_live_reads : forall fexp (perm : Z -> forall A : Type, list A -> list A),
  (forall r A (l : list A), Permutation (perm r A l) l) ->
  forall c files d0, dir_wf d0 ->
  run_multiround_live fexp perm c files d0 = run_multiround fexp c files d0.
Proof. exact live_sched_independent. Qed.

(* write-level: ANY interleaving of the individual file writes of the tasks of a round gives the
   directory of the serial round *)
Theorem C06_initial_round_interleave : forall fexp c files d wss sched,
  dir_wf d -> initial_tasks fexp c files = map Some wss -> interleave wss sched ->
  run_tasks d (initial_tasks fexp c files) = Some (dir_puts d sched).
Proof. exact initial_round_interleave. Qed.
Theorem C06_merging_round_interleave : forall fexp c d r rows wss sched,
  dir_wf d -> merging_tasks fexp c d r rows = map Some wss -> interleave wss sched ->
  run_tasks d (merging_tasks fexp c d r rows) = Some (dir_puts d sched).
Proof. exact merging_round_interleave. Qed.

(* no two tasks of a round ever write the same intermediate file *)
Theorem C06_initial_writes_disjoint : forall fexp c files,
  pairwise_disjoint_names (initial_tasks fexp c files).
Proof. exact initial_writes_disjoint. Qed.
Theorem C06_merging_writes_disjoint : forall fexp c d r rows,
  pairwise_disjoint_names (merging_tasks fexp c d r rows).
Proof. exact merging_writes_disjoint. Qed.
Theorem C06_round_names_NoDup : forall fexp c d r rows wss,
  merging_tasks fexp c d r rows = map Some wss -> NoDup (map fst (List.concat wss)).
Proof. exact merging_round_names_NoDup. Qed.

(* non-vacuity: reversing every round of a concrete three-file run *)
Example C06_nonvacuous :
  let files := [[[true;true;false;false;true;false;false;false];
                 [true;true;false;false;false;false;false;false]];
                [[false;false;true;true;false;false;true;false]];
                [[false;false;true;true;false;false;false;false];
                 [true;true;false;false;true;false;false;true]]] in
  let c := mkMr 3 0.5 0 0.0625 NDiameter NDiameter None 1 2 RFull true true false in
  (List.length (initial_tasks (fun x => x) c files) = 3)%nat /\
  run_multiround_sched (fun x => x) (fun _ A l => rev l) c files [] <> None.
Proof. vm_compute. split; [reflexivity | discriminate]. Qed.

(* ---- source ties for the way tasks are formed (Gen/GMr.v, regenerated on every run): the batch
   plan of a midsection round is [batched bin_size] over the sorted file pairs, labelled by the
   zero-padded batch number — a function of the directory and of bin_size only, NOT of the number
   of worker processes (the translator fails closed on any other shape) ---- *)
From BB Require Import Gen.NumpySem Gen.GMr Proofs.GenTieMr Model.FpsUtil.
Theorem C06_source_tie_batch_width : forall d r bin, (0 < bin)%nat ->
  Z.of_nat (String.length (str_of_Z (Z.of_nat (List.length (batched bin (prev_pairs d r)))))) =
  GMr.batch_label_width (Z.of_nat (List.length (prev_pairs d r))) (Z.of_nat bin).
Proof. exact tie_batch_width. Qed.
Theorem C06_source_tie_file_labels : forall n,
  file_labels n = map (fun i => zfill (str_of_Z i) (GMr.file_label_width (Z.of_nat n))) (zseq 0 n).
Proof. exact tie_file_label_width. Qed.
