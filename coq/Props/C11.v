(* C11 — iSIM statistics are exact.  Statements only. *)
From BB Require Import Model.Sim Proofs.GenTieSim Gen.GSim.
From Coq Require Import ZArith List Reals Permutation.
From Flocq Require Import Core BinarySingleNaN.
From Flocq Require Import IEEE754.PrimFloat.
From BB Require Import Proofs.FloatFacts Proofs.IsimFacts.
Import ListNotations.
Open Scope Z_scope.
#[local] Existing Instance Hprec.
#[local] Existing Instance Hmax.

(* the model is the translated source of jt_isim_from_sum / radius / diameter *)
Theorem C11_source_tie_isim : forall ls n, GSim.jt_isim_from_sum ls n = isim_f ls n.
Proof. exact tie_isim. Qed.
Theorem C11_source_tie_radius_compl : forall ls n,
  GSim.jt_isim_radius_compl_from_sum ls n = radius_compl_f ls n.
Proof. exact tie_radius_compl. Qed.
Theorem C11_source_tie_radius : forall ls n,
  GSim.jt_isim_radius_from_sum ls n = (1 - radius_compl_f ls n)%float.
Proof. exact tie_radius. Qed.
Theorem C11_source_tie_diameter : forall ls n,
  GSim.jt_isim_diameter_from_sum ls n = (1 - isim_f ls n)%float.
Proof. exact tie_diameter. Qed.

(* exact regime: the value is the correctly rounded exact rational
   sum_q C(k_q,2) / sum_q [C(k_q,2) + k_q (n - k_q)] *)
Theorem C11_exact : forall ks n, 2 <= n -> counts_ok ks n -> 0 < zsum ks ->
  n * zsum ks < 2 ^ 52 ->
  0 < pairs11 ks + pairs10 ks n /\
  is_finite (Prim2B (isim_f ks n)) = true /\
  B2R (Prim2B (isim_f ks n)) = rnd64 (IZR (pairs11 ks) / IZR (pairs11 ks + pairs10 ks n))%R.
Proof. exact isim_exact. Qed.

(* up to the property's bound n * sum k < 2^63 no uint64 operation wraps *)
Theorem C11_nowrap_partial : forall ks n, 2 <= n -> counts_ok ks n -> n * zsum ks < 2 ^ 63 ->
  map wrap64 ks = ks /\ wrap64 (zsum ks) = zsum ks /\ wrap64 (zdot ks ks) = zdot ks ks /\
  wrap64 (zdot ks ks - zsum ks) = zdot ks ks - zsum ks /\ wrap64 (n * zsum ks) = n * zsum ks.
Proof. exact isim_nowrap. Qed.

Theorem C11_all_empty : forall ks n, 2 <= n -> counts_ok ks n -> zsum ks = 0 ->
  isim_f ks n = 1%float.
Proof. exact isim_zero. Qed.

Theorem C11_two_is_tanimoto : forall nf x y, length x = nf -> length y = nf ->
  Z.of_nat nf < 2 ^ 50 -> 0 < card (map2 orb x y) -> isim_f (colsum nf [x; y]) 2 = sim x y.
Proof. exact isim_two. Qed.

Theorem C11_column_order : forall ks ks' n, Permutation ks ks' -> isim_f ks n = isim_f ks' n.
Proof. exact isim_perm_cols. Qed.
Theorem C11_row_order : forall nf rows rows', (forall r, In r rows -> length r = nf) ->
  Permutation rows rows' -> colsum nf rows' = colsum nf rows.
Proof. exact colsum_perm_rows. Qed.

Theorem C11_complementary : forall nf rows i, (forall r, In r rows -> length r = nf) ->
  (3 <= length rows)%nat -> (i < length rows)%nat ->
  nth i (compl_isim nf rows) 0%float =
  isim_f (colsum nf (firstn i rows ++ skipn (S i) rows)) (Z.of_nat (length rows) - 1).
Proof. exact compl_isim_spec. Qed.

Example C11_nonvacuous :
  counts_ok [3; 1; 0; 2] 3 /\ 0 < zsum [3; 1; 0; 2] /\ 3 * zsum [3; 1; 0; 2] < 2 ^ 52 /\
  isim_f [3; 1; 0; 2] 3 = (4 / 8)%float.
Proof. vm_compute. repeat split; try discriminate; repeat constructor; discriminate. Qed.

(* ---- the whole range n * sum k < 2^63 (Proofs/IsimBound.v) ----
   Below 2^52 the value is the correctly rounded exact rational (C11_exact).  Above, the uint64 -> double
   conversions and the two additions round; what holds there is a RELATIVE ERROR BOUND of 21 * 2^-53 (the
   subtraction cannot cancel: n * sum k <= 4 * (pairs11 + pairs10)), and "correctly rounded" is false: the
   witness below (one column, n * k just above 2^53) is more than 6 units of 2^-53 away.  The property's
   "equals the exact rational definition" is therefore proved as: correctly rounded below 2^52, within
   21 * 2^-53 relative up to 2^63. *)
From BB Require Import Proofs.IsimBound.
Theorem C11_uint64_to_double_is_rne : forall z, 0 <= z < 2 ^ 64 ->
  is_finite (Prim2B (Z2f z)) = true /\
  B2R (Prim2B (Z2f z)) = rnd64 (IZR z) /\
  Bsign (Prim2B (Z2f z)) = false.
Proof. exact Z2f_spec_full. Qed.
Theorem C11_no_cancellation : forall ks n,
  2 <= n -> counts_ok ks n -> 0 < zsum ks ->
  n * zsum ks < 2 ^ 63 ->
  zdot ks ks <= n * zsum ks /\
  n * zsum ks <= 4 * (pairs11 ks + pairs10 ks n).
Proof. exact isim_no_cancellation. Qed.
Theorem C11_error_bound : forall ks n,
  2 <= n -> counts_ok ks n -> 0 < zsum ks ->
  n * zsum ks < 2 ^ 63 -> 0 < pairs11 ks + pairs10 ks n ->
  let E := (IZR (pairs11 ks) / IZR (pairs11 ks + pairs10 ks n))%R in
  is_finite (Prim2B (isim_f ks n)) = true /\
  (Rabs (B2R (Prim2B (isim_f ks n)) - E) <= 21 * bpow radix2 (-53) * E)%R.
Proof. exact isim_bound. Qed.
Theorem C11_error_vs_rounded : forall ks n,
  2 <= n -> counts_ok ks n -> 0 < zsum ks ->
  n * zsum ks < 2 ^ 63 ->
  let E := (IZR (pairs11 ks) / IZR (pairs11 ks + pairs10 ks n))%R in
  (Rabs (B2R (Prim2B (isim_f ks n)) - rnd64 E) <= 22 * bpow radix2 (-53) * E)%R.
Proof. exact isim_vs_rounded. Qed.
Theorem C11_not_correctly_rounded_above_2p52_refuted : let ks := [95200339] in let n := 95465801 in
  let E := (IZR (pairs11 ks) / IZR (pairs11 ks + pairs10 ks n))%R in
  let r := B2R (Prim2B (isim_f ks n)) in
  (2 <= n /\ counts_ok ks n /\ 0 < zsum ks /\ 2 ^ 52 <= n * zsum ks < 2 ^ 63) /\
  r = (IZR 8957245476244635 * bpow radix2 (-53))%R /\
  (/ 2 <= r < 1)%R /\
  (r + 6 * bpow radix2 (-53) < E)%R /\
  (r + 6 * bpow radix2 (-53) <= rnd64 E)%R /\
  r <> rnd64 E.
Proof. exact isim_not_within_4ulp. Qed.
