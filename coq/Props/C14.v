(* C14 — interrupted or repeated multi-round runs cannot contaminate results.  Statements only.
   Model/Multiround.v: the workflow as a function on a directory (sorted association list
   name -> content); Proofs/MrRerun.v.  [d0] is ANY well-formed directory: whatever an
   earlier run left behind, interrupted at any point, with any parameters. *)
From BB Require Import Model.Multiround Proofs.MrRerun.
From Coq Require Import String.
Open Scope Z_scope.
Open Scope string_scope.

(* a run in a used directory produces the final files of a run in a fresh one (or fails
   exactly when the fresh one does), and leaves foreign files alone *)
Theorem C14_rerun_equals_fresh : forall fexp c files d0,
  dir_wf d0 ->
  match run_multiround fexp c files d0, run_multiround fexp c files [] with
  | Some d, Some e =>
      dir_get d "clusters.pkl" = dir_get e "clusters.pkl" /\
      dir_get d "cluster-centroids-packed.pkl" = dir_get e "cluster-centroids-packed.pkl" /\
      (forall n, is_purged n = true -> dir_get d n = dir_get e n) /\
      (forall n, is_purged n = false -> dir_get d n = dir_get d0 n)
  | None, None => True
  | _, _ => False
  end.
Proof. exact rerun_equals_fresh. Qed.

(* the whole resulting directory: the fresh result plus the untouched foreign files *)
Theorem C14_rerun_frame : forall fexp c files d0,
  dir_wf d0 ->
  run_multiround fexp c files d0 =
  option_map (fun d => dir_union d (dir_remove d0 is_purged)) (run_multiround fexp c files []).
Proof. exact rerun_frame. Qed.

(* every name a round globs for, and every final file, is purged at start *)
Theorem C14_globs_are_purged : forall r n,
  is_bufs_of r n = true \/ is_idxs_of r n = true -> is_purged n = true.
Proof. exact globs_are_purged. Qed.

(* cleanup leaves no round file *)
Theorem C14_cleanup : forall fexp c files d0 d,
  m_cleanup c = true -> run_multiround fexp c files d0 = Some d ->
  forall n, is_round_file n = true -> dir_get d n = None.
Proof. exact cleanup_leaves_no_round_files. Qed.

(* the run is the purge followed by a list of writes whose last one is clusters.pkl: after any
   strict prefix of them (any crash point) there is no clusters.pkl *)
Theorem C14_no_partial_final : forall fexp c files d0 ws k,
  mr_writes fexp c files = Some ws -> dir_wf d0 -> (k <= List.length ws)%nat ->
  let d := dir_puts (dir_remove d0 is_purged) (firstn k ws) in
  dir_get d "clusters.pkl" = None \/ k = List.length ws.
Proof. exact no_partial_final_le. Qed.
Theorem C14_run_is_writes : forall fexp c files d0,
  dir_wf d0 -> m_cleanup c = false ->
  run_multiround fexp c files d0 =
  option_map (dir_puts (dir_remove d0 is_purged)) (mr_writes fexp c files).
Proof. exact run_multiround_mr_writes. Qed.

(* a failing run leaves no final file, whatever was there before *)
Theorem C14_failed_run_no_final : forall fexp c files d0 k,
  dir_wf d0 -> run_multiround fexp c files d0 = None ->
  let d := dir_puts (dir_remove d0 is_purged) (firstn k (mr_writes_partial fexp c files)) in
  dir_get d "clusters.pkl" = None /\ dir_get d "cluster-centroids-packed.pkl" = None.
Proof. exact failed_run_no_final. Qed.

(* non-vacuity: a leftover directory with stale round files, a stale clusters.pkl and a foreign
   file; the re-run succeeds, the foreign file survives, the stale round files are gone *)
From BB Require Proofs.Compose.
Example C14_nonvacuous := Compose.C14Demo.C14_nonvacuous.
Example C14_instance_not_trivial := Compose.C14Demo.C14_instance_not_trivial.

(* ---- source ties (Gen/GMrDel.v is regenerated from bblean/multiround.py on every run) ---- *)
From BB Require Import Gen.NumpySem Gen.GMrDel Proofs.GenTieMrDel.
(* what the run deletes at start is the model's purge ... *)
Theorem C14_source_tie_purge : forall n,
  is_purged n = (existsb (fun g => glob_match g n) GMrDel.purge_globs
                 || existsb (String.eqb n) GMrDel.purge_names)%bool.
Proof. exact tie_purge. Qed.
(* ... what cleanup deletes is the model's round files ... *)
Theorem C14_source_tie_cleanup : forall n,
  is_round_file n = existsb (fun g => glob_match g n) GMrDel.cleanup_globs.
Proof. exact tie_cleanup. Qed.
(* ... and the final round writes only "*.pkl.tmp" names, publishes by rename exactly the files of
   the model's final task in its order, clusters.pkl last *)
Theorem C14_source_tie_publish : forall sc, pub_ok (GMrDel.final_publish sc) = true.
Proof. exact tie_publish_ok. Qed.
Theorem C14_source_tie_publish_names : forall fexp c pairs ws,
  final_task fexp c pairs = Some ws -> map fst ws = pub_dsts (GMrDel.final_publish (m_save_centroids c)).
Proof. exact tie_publish_names. Qed.

(* with several worker processes the file actions performed when one of them fails are not a
   prefix of the sequential order: after ANY sub-collection of the failing run's writes, in any
   order, there is still no final file *)
Theorem C14_failed_run_no_final_any_subset : forall fexp c files d0 ws',
  dir_wf d0 -> run_multiround fexp c files d0 = None ->
  incl ws' (mr_writes_partial fexp c files) ->
  let d := dir_puts (dir_remove d0 is_purged) ws' in
  dir_get d "clusters.pkl" = None /\ dir_get d "cluster-centroids-packed.pkl" = None.
Proof. exact failed_run_no_final_subset. Qed.

(* ---- the publication protocol (Proofs/MrPublish.v) ----
   The model writes the final files directly; the code publishes them through temporary files and renames
   (GMrDel.final_publish, extracted from the source).  pub_exec gives that plan a semantics on directories:
   executing the whole plan IS the direct write (C14_publish_all, C14_run_multiround_pub_eq for the whole
   run); after any strict prefix clusters.pkl is untouched and everything the prefix changed is purged by
   the next run (for the extracted plan and for ANY plan passing pub_safe); hence a crash anywhere inside
   the publication followed by a complete run gives the files of a fresh run and leaves foreign files
   alone.  pub_ok alone is too weak for the generic form: MrPublish.pub_ok_prefix_no_final_refuted. *)
From BB Require Import Proofs.MrPublish.
Theorem C14_publish_all : forall sc ws d,
  dir_wf d -> no_tmp d ->
  map fst ws = pub_dsts (final_publish sc) ->
  pub_exec (cont_of ws) d (final_publish sc) = dir_puts d ws.
Proof. exact (@publish_all). Qed.
Theorem C14_publish_prefix_no_final : forall sc ws d p a rest,
  final_publish sc = (p ++ a :: rest)%list ->
  dir_get (pub_exec (cont_of ws) d p) "clusters.pkl" = dir_get d "clusters.pkl".
Proof. exact (@publish_prefix_no_final). Qed.
Theorem C14_publish_prefix_purged : forall sc ws d p rest,
  final_publish sc = (p ++ rest)%list ->
  dir_remove (pub_exec (cont_of ws) d p) is_purged = dir_remove d is_purged.
Proof. exact (@publish_prefix_purged). Qed.
Theorem C14_pub_prefix_purged_gen : forall l p rest cont d,
  pub_safe l = true -> l = (p ++ rest)%list ->
  dir_remove (pub_exec cont d p) is_purged = dir_remove d is_purged.
Proof. exact (@pub_prefix_purged_gen). Qed.
Theorem C14_run_multiround_pub_eq : forall fexp c files d0,
  dir_wf d0 -> run_multiround_pub fexp c files d0 = run_multiround fexp c files d0.
Proof. exact run_multiround_pub_eq. Qed.
Theorem C14_crash_in_publish_no_final : forall fexp c files d0 k dI,
  crash_in_publish fexp c files d0 k = Some dI ->
  (k < List.length (GMrDel.final_publish (m_save_centroids c)))%nat ->
  dir_get dI "clusters.pkl"%string = None.
Proof. exact crash_in_publish_no_final. Qed.
Theorem C14_crash_in_publish_then_rerun : forall fexp c files d0 k dI c' files',
  dir_wf d0 -> crash_in_publish fexp c files d0 k = Some dI ->
  match run_multiround_pub fexp c' files' dI, run_multiround fexp c' files' [] with
  | Some d, Some e =>
      dir_get d "clusters.pkl"%string = dir_get e "clusters.pkl"%string /\
      dir_get d "cluster-centroids-packed.pkl"%string = dir_get e "cluster-centroids-packed.pkl"%string /\
      (forall n, is_purged n = true -> dir_get d n = dir_get e n) /\
      (forall n, is_purged n = false -> dir_get d n = dir_get d0 n)
  | None, None => True | _, _ => False end.
Proof. exact crash_in_publish_then_rerun. Qed.
