(* C10 — merge criteria obey their documented laws.
   Statements only; each is closed by [exact <lemma>].  [accept] is tied to the source of
   bblean/_merges.py by Gen/GMerges.v + Proofs/GenTieMerges.v (regenerated and re-proved on every run). *)
From BB Require Import Model.Merges Proofs.MergeFacts Proofs.GenTieMerges Gen.GMerges Gen.GSim.
Open Scope Z_scope.

(* the model's [accept] IS the translated source of the six __call__ methods *)
Theorem C10_source_tie : forall fexp c thr nl nn ol ml on mn,
  accept fexp c thr nl nn ol ml on mn =
  match c with
  | CRadius => GMerges.radius_call thr nl nn ol ml on mn
  | CDiameter => GMerges.diameter_call thr nl nn ol ml on mn
  | CTolDiameter t d o => GMerges.tol_diameter_call fexp t d o thr nl nn ol ml on mn
  | CTolRadius t d o => GMerges.tol_radius_call fexp t d o thr nl nn ol ml on mn
  | CTolLegacy t => GMerges.tol_legacy_call t thr nl nn ol ml on mn
  | CNever _ _ _ => GMerges.never_call thr nl nn ol ml on mn
  end.
Proof. exact tie_accept. Qed.
Theorem C10_ctor_tie : forall fexp tol,
  GMerges.tol_init fexp tol 1000 tol_decay true = (tol, tol_decay, tol_offset fexp).
Proof. exact tie_tol_init. Qed.

(* never-merge rejects everything *)
Theorem C10_never : forall fexp tol d o thr a b c' e f g,
  accept fexp (CNever tol d o) thr a b c' e f g = false.
Proof. exact accept_never. Qed.

(* acceptance implies the statistic of the merged cluster is not below the threshold *)
Theorem C10_accept_not_below : forall fexp c thr nl nn ol ml on mn,
  accept fexp c thr nl nn ol ml on mn = true ->
  let f := match c with CRadius | CTolRadius _ _ _ => FRad | _ => FDiam end in
  flt (stat f nl nn) thr = false.
Proof. exact accept_not_below. Qed.
Theorem C10_accept_stat_ge : forall fexp c thr nl nn ol ml on mn,
  accept fexp c thr nl nn ol ml on mn = true ->
  let f := match c with CRadius | CTolRadius _ _ _ => FRad | _ => FDiam end in
  is_nan_f (stat f nl nn) = false -> is_nan_f thr = false -> fge (stat f nl nn) thr = true.
Proof. exact accept_stat_ge. Qed.

(* accepted at some threshold => accepted at every lower threshold *)
Theorem C10_threshold_mono : forall fexp c t t' nl nn ol ml on mn,
  is_nan_f t = false -> is_nan_f t' = false -> PrimFloat.leb t' t = true ->
  accept fexp c t nl nn ol ml on mn = true -> accept fexp c t' nl nn ol ml on mn = true.
Proof. exact accept_thr_mono. Qed.

(* tolerance variants: singleton old cluster = base criterion; otherwise base criterion
   and "merged statistic >= old statistic - slack" *)
Theorem C10_tolerance_singleton_diam : forall fexp tol d o thr nl nn ol ml mn,
  accept fexp (CTolDiameter tol d o) thr nl nn ol ml 1 mn = negb (flt (isim_f nl nn) thr).
Proof. exact accept_tol_singleton_diam. Qed.
Theorem C10_tolerance_singleton_rad : forall fexp tol d o thr nl nn ol ml mn,
  accept fexp (CTolRadius tol d o) thr nl nn ol ml 1 mn = negb (flt (radius_compl_f nl nn) thr).
Proof. exact accept_tol_singleton_rad. Qed.
Theorem C10_tolerance_general_diam : forall fexp tol d o thr nl nn ol ml on mn, on <> 1 ->
  accept fexp (CTolDiameter tol d o) thr nl nn ol ml on mn =
  negb (flt (isim_f nl nn) thr) && fge (isim_f nl nn) (isim_f ol on - slack fexp tol d o on)%float.
Proof. exact accept_tol_general_diam. Qed.
Theorem C10_tolerance_general_rad : forall fexp tol d o thr nl nn ol ml on mn, on <> 1 ->
  accept fexp (CTolRadius tol d o) thr nl nn ol ml on mn =
  negb (flt (radius_compl_f nl nn) thr)
  && fge (radius_compl_f nl nn) (radius_compl_f ol on - slack fexp tol d o on)%float.
Proof. exact accept_tol_general_rad. Qed.

(* slack: never negative; and, for an exp that maps finite non-positive floats into [0,1]
   monotonically (assumption on libm, DESIGN §8): zero from 1000 members on, and
   non-decreasing in the tolerance *)
Theorem C10_slack_not_negative : forall fexp tol d o n, PrimFloat.ltb (slack fexp tol d o n) 0 = false.
Proof. exact slack_not_neg_gen. Qed.

Section ExpAssumptions.
Variable fexp : float -> float.
Hypothesis fexp_unit : forall x, is_finite_f x = true -> PrimFloat.leb x 0 = true ->
  is_finite_f (fexp x) = true /\ PrimFloat.leb 0 (fexp x) = true /\ PrimFloat.leb (fexp x) 1 = true.
Hypothesis fexp_mono_np : forall x y, is_finite_f x = true -> is_finite_f y = true ->
  PrimFloat.leb x y = true -> PrimFloat.leb y 0 = true -> PrimFloat.leb (fexp x) (fexp y) = true.

Theorem C10_slack_zero_from_1000 : forall tol n, 1000 <= n < 2 ^ 53 ->
  is_finite_f tol = true -> PrimFloat.leb 0 tol = true ->
  PrimFloat.eqb (slack fexp tol tol_decay (tol_offset fexp) n) 0 = true.
Proof. exact (slack_zero_large_np fexp fexp_unit fexp_mono_np). Qed.
Theorem C10_slack_mono_tolerance : forall tol tol' n, 0 <= n ->
  is_finite_f tol = true -> is_finite_f tol' = true ->
  PrimFloat.leb 0 tol = true -> PrimFloat.leb tol tol' = true ->
  PrimFloat.leb (slack fexp tol tol_decay (tol_offset fexp) n)
                (slack fexp tol' tol_decay (tol_offset fexp) n) = true.
Proof. exact (slack_mono_tol_np fexp fexp_unit). Qed.
Theorem C10_slack_nonneg : forall tol n, 0 <= n -> is_finite_f tol = true ->
  PrimFloat.leb 0 tol = true ->
  is_nan_f (slack fexp tol tol_decay (tol_offset fexp) n) = false /\
  PrimFloat.leb 0 (slack fexp tol tol_decay (tol_offset fexp) n) = true.
Proof. exact (slack_finite_np fexp fexp_unit). Qed.
End ExpAssumptions.

(* the exp hypotheses are satisfiable (so the section is not vacuous): a constant function *)
Example C10_exp_hyps_satisfiable :
  let f := fun _ : float => 1%float in
  (forall x, is_finite_f x = true -> PrimFloat.leb x 0 = true ->
     is_finite_f (f x) = true /\ PrimFloat.leb 0 (f x) = true /\ PrimFloat.leb (f x) 1 = true).
Proof. intros f x _ _. vm_compute. auto. Qed.

(* legacy tolerance criterion *)
Theorem C10_legacy : forall fexp tol thr nl nn ol ml on mn,
  accept fexp (CTolLegacy tol) thr nl nn ol ml on mn =
  negb (flt (isim_f nl nn) thr) &&
  ((on =? 1) || negb (mn =? 1) ||
   fge ((isim_f nl nn * Zs2f nn - isim_f ol on * Zs2f (on - 1)) / 2)%float (isim_f ol on - tol)%float).
Proof. exact accept_legacy. Qed.

(* non-vacuity: a concrete accepted merge and a concrete rejected one *)
Example C10_nonvacuous :
  accept (fun _ => 1%float) CDiameter 0.5 [2; 2; 0] 2 [1; 1; 0] [1; 1; 0] 1 1 = true /\
  accept (fun _ => 1%float) CDiameter 0.5 [1; 1; 1; 1] 2 [1; 1; 0; 0] [0; 0; 1; 1] 1 1 = false.
Proof. vm_compute. auto. Qed.
