(* C20 — memory monitoring never disturbs a run.  Statements only.
   Model/Monitor.v: the monitor's update of the peak file (temp file + rename) interleaved
   with the reader, one file operation at a time. *)
From BB Require Import Model.Monitor Proofs.MonitorFacts.
From Coq Require Import Sorted.
Open Scope Z_scope.

(* for EVERY interleaving of the reader with the writer's file operations, over any sample
   sequence: the reader obtains no value, or a complete published maximum — never an error *)
Theorem C20_reader_safe : forall samples mx0 sched,
  let '(s, r) := exec sched (writer samples mx0) fs0 RStart in
  match r with
  | RDone RError => False
  | RDone (RSome v) => In v (running_maxes samples mx0)
  | _ => True
  end.
Proof. exact reader_safe. Qed.

(* the recorded peak never decreases *)
Theorem C20_monotone : forall samples mx0,
  StronglySorted (fun a b => PrimFloat.ltb a b = true) (running_maxes samples mx0).
Proof. exact published_increasing. Qed.

Theorem C20_final_value : forall samples mx0, running_maxes samples mx0 <> [] ->
  peak (fst (exec (repeat true (length (writer samples mx0))) (writer samples mx0) fs0 RStart))
  = Some (CVal (last (running_maxes samples mx0) mx0)).
Proof. exact writer_result. Qed.

(* the in-place protocol that was replaced by the fix: refuted, for the record *)
Theorem C20_inplace_refuted : exists samples mx0 sched,
  snd (exec_inplace sched (writer samples mx0) fs0 RStart) = RDone RError.
Proof. exact inplace_refuted. Qed.

Example C20_nonvacuous :
  running_maxes [0.5; 0.25; 0.75]%float 0 = [0.5; 0.75]%float /\
  length (writer [0.5; 0.25; 0.75]%float 0) = 12%nat.
Proof. vm_compute. split; reflexivity. Qed.
