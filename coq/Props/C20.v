(* C20 — memory monitoring never disturbs a run.  Statements only.
   Model/Monitor.v: the monitor's update of the peak file (temp file + rename) interleaved
   with the reader, one file operation at a time. *)
From BB Require Import Model.Monitor Proofs.MonitorFacts.
From Coq Require Import Sorted.
Open Scope Z_scope.

(* for EVERY interleaving of the reader with the writer's file operations, over any sample
   sequence: the reader obtains no value, or a complete published maximum — never an error *)
Theorem C20_reader_safe : forall samples mx0 sched,
  let '(s, r) := exec sched (writer samples mx0) fs0 RStart in
  match r with
  | RDone RError => False
  | RDone (RSome v) => In v (running_maxes samples mx0)
  | _ => True
  end.
Proof. exact reader_safe. Qed.

(* the recorded peak never decreases *)
Theorem C20_monotone : forall samples mx0,
  StronglySorted (fun a b => PrimFloat.ltb a b = true) (running_maxes samples mx0).
Proof. exact published_increasing. Qed.

Theorem C20_final_value : forall samples mx0, running_maxes samples mx0 <> [] ->
  peak (fst (exec (repeat true (length (writer samples mx0))) (writer samples mx0) fs0 RStart))
  = Some (CVal (last (running_maxes samples mx0) mx0)).
Proof. exact writer_result. Qed.

(* the in-place protocol that was replaced by the fix: refuted, for the record *)
Theorem C20_inplace_refuted : exists samples mx0 sched,
  snd (exec_inplace sched (writer samples mx0) fs0 RStart) = RDone RError.
Proof. exact inplace_refuted. Qed.

Example C20_nonvacuous :
  running_maxes [0.5; 0.25; 0.75]%float 0 = [0.5; 0.75]%float /\
  length (writer [0.5; 0.25; 0.75]%float 0) = 12%nat.
Proof. vm_compute. split; reflexivity. Qed.

(* ---- two successive readers (Proofs/MonitorMono.v): for EVERY interleaving of the writer with a
   first reader and a second reader that starts after the first has finished, neither fails, the
   value seen never decreases, and a value once seen never disappears *)
From BB Require Import Proofs.MonitorMono.
Theorem C20_two_readers_safe : forall samples mx0 sched,
  let '(s, r1, r2) := exec2 sched (writer samples mx0) fs0 RStart RStart in
  r1 <> RDone RError /\ r2 <> RDone RError.
Proof. exact two_readers_safe. Qed.
Theorem C20_two_readers_monotone : forall samples mx0 sched s v1 v2,
  exec2 sched (writer samples mx0) fs0 RStart RStart = (s, RDone (RSome v1), RDone (RSome v2)) ->
  v1 = v2 \/ PrimFloat.ltb v1 v2 = true.
Proof. exact two_readers_monotone. Qed.
Theorem C20_published_never_disappears : forall samples mx0 sched s r1 r2 v1,
  exec2 sched (writer samples mx0) fs0 RStart RStart = (s, r1, r2) ->
  r1 = RDone (RSome v1) -> rdone r2 = true -> r2 <> RDone RNone.
Proof. exact published_never_disappears. Qed.

(* the decision to rewrite the peak file in the source is the one of the model's writer *)
From BB Require Import Proofs.GenTieMon Gen.GMon.
Theorem C20_source_tie_update_cond : forall s mx, GMon.monitor_update_cond s mx = PrimFloat.ltb mx s.
Proof. exact tie_monitor_cond. Qed.

(* the reader as the code has it: file.exists() and open(file) are separate steps and the writer
   may run in between; still no error, and only running maxima are read *)
From BB Require Import Proofs.MonitorFine.
Theorem C20_reader_exists_then_open_safe : forall samples mx0 sched,
  let '(s, r) := exec3 sched (writer samples mx0) fs0 R3Start in
  match r with
  | R3Done RError => False
  | R3Done (RSome v) => In v (running_maxes samples mx0)
  | _ => True
  end.
Proof. exact reader3_safe. Qed.
Theorem C20_reader_exists_then_open_refines : forall samples mx0 sched x,
  snd (exec3 sched (writer samples mx0) fs0 R3Start) = R3Done x ->
  exists sched', snd (exec sched' (writer samples mx0) fs0 RStart) = RDone x.
Proof. exact reader3_results_reachable. Qed.

(* the monitor and the clustering run share the output directory: nothing the run's start-up purge
   or end-of-run cleanup deletes, and nothing the final round writes or renames, is one of the
   monitor's files — stated on the deletion / publication plan that the translator extracts from
   bblean/multiround.py on every run (Gen/GMrDel.v) *)
From Coq Require Import String List.
From BB Require Import Proofs.MonitorRun.
Import ListNotations.
Theorem C20_run_spares_monitor_files :
  forallb MonitorRun.plan_spares ["max-rss.txt"%string; "max-rss.txt.tmp"%string; "monitor-rss.csv"%string] = true.
Proof. exact source_plan_spares_monitor_files. Qed.

(* the update's file operations and the file names are those of the source: Gen/GMonOps.v is extracted
   from monitor_rss_process / get_peak_memory_gib on every run (temporary sibling opened with mode "w",
   write, flush, fsync, close, os.replace onto the peak file; the reader tests, opens and parses that
   same file) *)
From BB Require Import Gen.GMonOps Proofs.GenTieMonOps.
Theorem C20_source_tie_update_ops : forall v, GMonOps.monitor_update_ops v = Monitor.update_ops v.
Proof. exact tie_monitor_update_ops. Qed.
Theorem C20_source_tie_names :
  GMonOps.monitor_peak_name = "max-rss.txt"%string /\
  GMonOps.monitor_tmp_name = "max-rss.txt.tmp"%string /\
  GMonOps.reader_file_name = GMonOps.monitor_peak_name /\
  GMonOps.reader_steps = ["exists"%string; "open"%string; "read"%string].
Proof. exact tie_monitor_names. Qed.
(* ... and the run spares exactly these two names *)
Theorem C20_run_spares_source_names :
  forallb MonitorRun.plan_spares [GMonOps.monitor_peak_name; GMonOps.monitor_tmp_name] = true.
Proof. vm_compute. reflexivity. Qed.

(* ---- any number of readers of the finer kind (exists() and open() separate steps), started at arbitrary
   times (Proofs/MonitorMany.v): execN interleaves the writer (index 0) and reader k (index k+1) under an
   arbitrary schedule; no reader ever gets an error, every value read is a running maximum, a reader that
   starts after another has finished never obtains less (and never "no value"); with one reader execN is
   exec3.  MonitorMany.Demo.overlapping_readers_monotone_refuted shows that "started after the other
   finished" cannot be dropped. *)
From BB Require Import Proofs.MonitorMany.
Theorem C20_many_readers_safe : forall samples mx0 n sched,
  Forall (rsafe samples mx0)
    (snd (execN sched (writer samples mx0) fs0 (repeat R3Start n))).
Proof. exact many_readers_safe. Qed.
Theorem C20_many_readers_monotone : forall samples mx0 n s1 s2 i j vi vj,
  ~ In (S j) s1 ->
  nth_error (snd (execN s1 (writer samples mx0) fs0 (repeat R3Start n))) i
    = Some (R3Done (RSome vi)) ->
  nth_error (snd (execN (s1 ++ s2) (writer samples mx0) fs0 (repeat R3Start n))) j
    = Some (R3Done (RSome vj)) ->
  vi = vj \/ PrimFloat.ltb vi vj = true.
Proof. exact many_readers_monotone. Qed.
Theorem C20_many_readers_never_disappears : forall samples mx0 n s1 s2 i j vi,
  ~ In (S j) s1 ->
  nth_error (snd (execN s1 (writer samples mx0) fs0 (repeat R3Start n))) i
    = Some (R3Done (RSome vi)) ->
  nth_error (snd (execN (s1 ++ s2) (writer samples mx0) fs0 (repeat R3Start n))) j
    <> Some (R3Done RNone).
Proof. exact many_readers_never_disappears. Qed.
Theorem C20_execN_one_reader : forall sched ws s r,
  execN (map idx_of_bool sched) ws s [r] =
  (fst (exec3 sched ws s r), [snd (exec3 sched ws s r)]).
Proof. exact execN_one_reader. Qed.
