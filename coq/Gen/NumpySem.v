(* NumpySem.v — semantics of the NumPy / Python operations the translator emits.
   HAND-WRITTEN (kept under Gen/ because only generated code uses it); each entry is tied
   to NumPy by the `numpy-sem` correspondence suite. *)
From BB Require Export Model.Sim.
From Coq Require Import String Ascii.
Open Scope Z_scope.

Definition np_astype (w : width) (x : list Z) : list Z := map (wrap w) x.
Definition np_sum_u64 (x : list Z) : Z := wrap64 (zsum x).
Definition np_dot_u64 (x y : list Z) : Z := wrap64 (zdot x y).
(* integer array >= python float: compared in float64 *)
Definition np_ge_arr_f (x : list Z) (f : float) : list bool := map (fun k => fge (Z2f k) f) x.
Definition np_view_u8 (b : list bool) : list Z := map b2z b.
(* np.add(a, b, dtype=w): inputs are cast to w, the sum is taken in w *)
Definition np_add_dtype (w : width) (a b : list Z) : list Z :=
  map2 (fun x y => wrap w (wrap w x + wrap w y)) a b.
(* np.packbits on a uint8 array: non-zero bytes are set bits *)
Definition np_packbits (v : list Z) : list Z := pack (map (fun x => negb (x =? 0)) v).

Definition ceil_div (a b : Z) : Z := - ((- a) / b).
Definition unwrapZ (o : option Z) : Z := match o with Some z => z | None => 0 end.

(* float -> int truncation: int(x) for finite x *)
Definition f2Z_trunc (x : float) : Z :=
  match Prim2SF x with
  | S754_finite s m e =>
      let v := if 0 <=? e then Zpos m * 2 ^ e else Zpos m / 2 ^ (- e) in
      if s then - v else v
  | _ => 0
  end.

(* ---- strings ---- *)
Open Scope string_scope.
Definition digit_of (d : Z) : ascii := ascii_of_nat (48 + Z.to_nat d)%nat.
Fixpoint str_of_pos_fuel (fuel : nat) (z : Z) (acc : string) : string :=
  match fuel with
  | O => acc
  | S f => if (z <? 10)%Z then String (digit_of z) acc
           else str_of_pos_fuel f (z / 10)%Z (String (digit_of (z mod 10)%Z) acc)
  end.
Definition str_of_Z (z : Z) : string :=
  if (z <? 0)%Z then String "-"%char (str_of_pos_fuel (Z.to_nat (Z.log2 (- z)) + 2) (- z)%Z "")
  else str_of_pos_fuel (Z.to_nat (Z.log2 z) + 2) z "".
Fixpoint str_repeat (c : ascii) (n : nat) : string :=
  match n with O => "" | S k => String c (str_repeat c k) end.
(* str.zfill(width) for strings without a sign *)
Definition zfill (s : string) (w : Z) : string :=
  str_repeat "0"%char (Z.to_nat w - String.length s) ++ s.
(* str.replace(old, new) *)
Fixpoint str_replace_fuel (fuel : nat) (s old new : string) : string :=
  match fuel with
  | O => s
  | S f =>
      match s with
      | EmptyString => EmptyString
      | String c tl =>
          if (negb (String.eqb old "")) && String.prefix old s
          then new ++ str_replace_fuel f (substring (String.length old) (String.length s) s) old new
          else String c (str_replace_fuel f tl old new)
      end
  end.
Definition str_replace (s old new : string) : string :=
  str_replace_fuel (S (String.length s)) s old new.

(* pathlib.Path.glob / fnmatch for a pattern with at most one '*' and no other metacharacter:
   the name starts with the part before the star, ends with the part after it, and is long
   enough for the two not to overlap *)
Fixpoint str_suffix (suf s : string) : bool :=
  if String.eqb suf s then true
  else match s with EmptyString => false | String _ tl => str_suffix suf tl end.
Fixpoint split_star (p : string) : option (string * string) :=
  match p with
  | EmptyString => None
  | String c tl =>
      if Ascii.eqb c "*"%char then Some (EmptyString, tl)
      else match split_star tl with
           | Some (a, b) => Some (String c a, b)
           | None => None
           end
  end.
Definition glob_match (pat name : string) : bool :=
  match split_star pat with
  | None => String.eqb pat name
  | Some (pre, post) =>
      String.prefix pre name && str_suffix post name
      && (String.length pre + String.length post <=? String.length name)%nat
  end.
