#!/venv/bin/python
r"""Self test: C++ kernels (through cppkern) vs the pure-NumPy fallback of bblean

Run:  /venv/bin/python selftest.py [--src /repo/bblean/csrc/similarity.cpp] [-v]

The fallback is imported with BITBIRCH_NO_EXTENSIONS=1 and PYTHONPATH=/repo
(both are forced below, so plain invocation works).

For each kernel a table line is printed:
    agree        both returned, results identical (floats: same bit pattern)
    DISAGREE     both returned, results differ
    cpp_throws   C++ threw, NumPy returned
    py_raises    NumPy raised, C++ returned
    both_raise   both failed
Nothing is hidden: the first few offending inputs of every non-"agree" class are
printed in full (as hex) below the table, the rest are counted.
"""
from __future__ import annotations

import argparse
import collections
import os
import sys
import warnings

os.environ["BITBIRCH_NO_EXTENSIONS"] = "1"
REPO = os.environ.get("BBLEAN_REPO", "/repo")
if REPO not in sys.path:
    sys.path.insert(0, REPO)
sys.path.insert(0, os.path.dirname(os.path.abspath(__file__)))

import numpy as np  # noqa: E402

import cppkern as ck  # noqa: E402

import bblean.similarity as sim  # noqa: E402
import bblean._py_similarity as pysim  # noqa: E402
from bblean.fingerprints import unpack_fingerprints as py_unpack  # noqa: E402

assert sim.jt_isim_from_sum is pysim.jt_isim_from_sum, "fallback branch not active"

WIDTHS = [1, 7, 8, 63, 64, 65, 128, 256]  # bytes per fingerprint
MISALIGN = [0, 1, 8, 33]
ROWS = [1, 2, 5, 33]
MAX_SHOWN = 4

Outcome = collections.namedtuple("Outcome", "kind value")
results: dict[str, collections.Counter] = collections.OrderedDict()
details: dict[str, list[str]] = collections.defaultdict(list)
hidden: dict[str, collections.Counter] = collections.defaultdict(collections.Counter)


def run(f) -> Outcome:
    with warnings.catch_warnings(record=True) as w:
        warnings.simplefilter("always")
        try:
            v = f()
        except ck.KernelError as e:
            return Outcome("raise", f"{e.cpp_type}: {e}")
        except Exception as e:  # noqa: BLE001
            return Outcome("raise", f"{type(e).__name__}: {e}")
    return Outcome("ok", (v, sorted({f"{x.category.__name__}: {x.message}" for x in w})))


def bits(x):
    """Canonical comparable form: (dtype, shape, raw bytes) for arrays / floats"""
    if isinstance(x, tuple):
        return tuple(bits(y) for y in x)
    if isinstance(x, (bool, np.bool_)):
        return ("bool", bool(x))
    if isinstance(x, (int, np.integer)):
        return ("int", int(x))
    if isinstance(x, (float, np.floating)):
        return ("f64", np.float64(x).tobytes())
    a = np.asarray(x)
    kind = "f64" if a.dtype.kind == "f" else a.dtype.kind
    if a.dtype.kind == "f":
        a = a.astype(np.float64)
    elif a.dtype.kind in "ui":
        a = a.astype(np.int64 if a.dtype.kind == "i" else np.uint64)
    return (kind, a.shape, np.ascontiguousarray(a).tobytes())


def show(x) -> str:
    if isinstance(x, tuple):
        return "(" + ", ".join(show(y) for y in x) + ")"
    if isinstance(x, (float, np.floating)):
        return f"{float(x)!r} [{float(x).hex()}]"
    if isinstance(x, np.ndarray):
        if x.dtype.kind == "f":
            return "[" + ", ".join(f"{float(v)!r}" for v in x.ravel()[:12]) + (" ...]" if x.size > 12 else "]")
        if x.dtype == np.uint8 and x.size > 16:
            return f"u8{list(x.shape)}:" + x.tobytes().hex()[:160] + ("..." if x.size > 80 else "")
        return np.array2string(x, threshold=40, max_line_width=200)
    return repr(x)


def compare(kernel: str, label: str, inputs: dict, cpp_f, py_f, norm_py=lambda v: v) -> str:
    c = run(cpp_f)
    p = run(py_f)
    cnt = results.setdefault(kernel, collections.Counter())
    if c.kind == "ok" and p.kind == "ok":
        cv, cw = c.value
        pv, pw = p.value
        pv = norm_py(pv)
        cls = "agree" if bits(cv) == bits(pv) else "DISAGREE"
        # A warning only on one side is a (mild) disagreement too
        if cls == "agree" and bool(cw) != bool(pw):
            cls = "warn_mismatch"
    elif c.kind == "raise" and p.kind == "ok":
        cls = "cpp_throws"
    elif c.kind == "ok" and p.kind == "raise":
        cls = "py_raises"
    else:
        cls = "both_raise"
    cnt[cls] += 1
    if cls != "agree":
        # group by the error text / class so that different failure modes all get shown
        key = cls + "|" + (c.value if c.kind == "raise" else "") + "|" + (p.value if p.kind == "raise" else "")
        if hidden[kernel][key] < MAX_SHOWN:
            lines = [f"  [{kernel}] {cls}: {label}"]
            for k, v in inputs.items():
                lines.append(f"      {k} = {show(v)}")
            lines.append("      C++   -> " + (show(c.value[0]) + (f"  warnings={c.value[1]}" if c.value[1] else "") if c.kind == "ok" else "THROWS " + c.value))
            lines.append("      NumPy -> " + (show(norm_py(p.value[0])) + (f"  warnings={p.value[1]}" if p.value[1] else "") if p.kind == "ok" else "RAISES " + p.value))
            details[kernel].append("\n".join(lines))
        hidden[kernel][key] += 1
    return cls


def rand_fps(rng, n, w, density=None):
    """Random packed fps (n, w); density None -> uniform bytes"""
    if density is None:
        return rng.integers(0, 256, size=(n, w), dtype=np.uint8)
    bits_ = (rng.random((n, w * 8)) < density).astype(np.uint8)
    return np.packbits(bits_, axis=1)


def main() -> int:
    ap = argparse.ArgumentParser()
    ap.add_argument("--src", default=ck.DEFAULT_SRC)
    ap.add_argument("--outdir", default=None)
    ap.add_argument("--seed", type=int, default=12345)
    args = ap.parse_args()

    lib = ck.build(args.src, args.outdir)
    print("compiled:", " ".join(lib.bb_build_cmd))
    if lib.bb_compiler_output.strip():
        print("compiler output:\n" + lib.bb_compiler_output)
    print(f"source: {lib.bb_source_path().decode()}   m.def() calls in PYBIND11_MODULE: {ck.n_bound()}"
          f"   POPCOUNT_64 -> {lib.bb_popcount_impl().decode()}")
    print(f"numpy {np.__version__}; widths(bytes)={WIDTHS} misalign={MISALIGN} rows={ROWS}\n")
    rng = np.random.default_rng(args.seed)

    # ---------------------------------------------------------------- popcount
    for w in WIDTHS:
        for m in MISALIGN:
            for rep in range(3):
                a = rand_fps(rng, 1, w)[0]
                compare("popcount_1d", f"w={w} misalign={m}", {"a": a},
                        lambda: ck.popcount_1d(a, m), lambda: pysim._popcount(a))
            for n in ROWS:
                A = rand_fps(rng, n, w)
                compare("popcount_2d", f"n={n} w={w} misalign={m}", {"A": A},
                        lambda: ck.popcount_2d(A, m), lambda: pysim._popcount(A))

    # ------------------------------------------------------------------ unpack
    for w in WIDTHS:
        for m in MISALIGN:
            for nf in (None, w * 8, w * 8 - 3, w * 8 - 8 if w > 1 else None):
                a = rand_fps(rng, 1, w)[0]
                tag = "" if nf is None or nf % 8 == 0 else "[n_features%8!=0]"
                compare("unpack(1d)" + tag, f"w={w} n_features={nf} misalign={m}", {"a": a},
                        lambda: ck.unpack(a, nf, m), lambda: py_unpack(a, nf))
                for n in (1, 5):
                    A = rand_fps(rng, n, w)
                    compare("unpack(2d)" + tag, f"n={n} w={w} n_features={nf} misalign={m}", {"A": A},
                            lambda: ck.unpack(A, nf, m), lambda: py_unpack(A, nf))
    # the two _nochecks variants, straight
    for w in WIDTHS:
        a = rand_fps(rng, 1, w)[0]
        A = rand_fps(rng, 3, w)
        compare("unpack_1d_nochecks", f"w={w}", {"a": a}, lambda: ck.unpack_1d_nochecks(a, None, 1), lambda: py_unpack(a))
        compare("unpack_2d_nochecks", f"w={w}", {"A": A}, lambda: ck.unpack_2d_nochecks(A, None, 1), lambda: py_unpack(A))

    # ------------------------------------------------------- centroid_from_sum
    nfeat_list = sorted({w * 8 for w in WIDTHS} | {1, 5, 13, 100})
    for nfeat in nfeat_list:
        for n in (0, 1, 2, 3, 10, 255):
            for pack in (True, False):
                for m in (0, 8, 33):
                    hi = max(n, 1)
                    ls = rng.integers(0, hi + 1, size=nfeat, dtype=np.uint64)
                    tag = "" if nfeat % 8 == 0 else "[n_features%8!=0]"
                    compare(f"centroid_from_sum(pack={pack}){tag}", f"n_features={nfeat} n={n} misalign={m}",
                            {"ls": ls, "n": n},
                            lambda: ck.centroid_from_sum(ls, n, pack, m),
                            lambda: pysim.centroid_from_sum(ls, n, pack=pack))

    # ----------------------------------------------------------- isim_from_sum
    for nfeat in nfeat_list:
        for n in (0, 1, 2, 3, 10, 1000, 10**6):
            for m in (0, 8, 33):
                ls = rng.integers(0, max(n, 1) + 1, size=nfeat, dtype=np.uint64)
                compare("isim_from_sum", f"n_features={nfeat} n={n} misalign={m}", {"ls": ls, "n": n},
                        lambda: ck.isim_from_sum(ls, n, m), lambda: pysim.jt_isim_from_sum(ls, n),
                        norm_py=np.float64)
        z = np.zeros(nfeat, dtype=np.uint64)
        compare("isim_from_sum", f"all-zero n_features={nfeat} n=5", {"ls": z, "n": 5},
                lambda: ck.isim_from_sum(z, 5), lambda: pysim.jt_isim_from_sum(z, 5), norm_py=np.float64)
    # large counts (uint64 wrap-around territory): both sides do modular uint64 arithmetic
    for n in (2**31, 2**32 + 7, 2**40):
        ls = rng.integers(0, n + 1, size=64, dtype=np.uint64)
        compare("isim_from_sum[huge n]", f"n_features=64 n={n}", {"ls": ls, "n": n},
                lambda: ck.isim_from_sum(ls, n), lambda: pysim.jt_isim_from_sum(ls, n), norm_py=np.float64)

    # ------------------------------------------- add_rows / isim (un)packed
    for w in WIDTHS:
        for n in ROWS + [300]:
            for m in MISALIGN:
                A = rand_fps(rng, n, w)  # arbitrary bytes (add_rows does not care about 0/1)
                compare("add_rows", f"n={n} w={w} misalign={m}", {"A": A},
                        lambda: ck.add_rows(A, m), lambda: np.sum(A, axis=0, dtype=np.uint64))
                P = rand_fps(rng, n, w, density=rng.choice([0.02, 0.3, 0.5]))
                U = np.unpackbits(P, axis=1)
                compare("isim_unpacked", f"n={n} n_features={U.shape[1]} misalign={m}", {"P(packed view of U)": P},
                        lambda: ck.isim_unpacked(U, m), lambda: pysim.jt_isim_unpacked(U), norm_py=np.float64)
                for nf in (None, w * 8, w * 8 - 3):
                    tag = "" if nf is None or nf % 8 == 0 else "[n_features%8!=0]"
                    compare("isim_packed" + tag, f"n={n} w={w} n_features={nf} misalign={m}", {"P": P},
                            lambda: ck.isim_packed(P, nf, m), lambda: pysim.jt_isim_packed(P, nf), norm_py=np.float64)

    # ---------------------------------------- sim_arr_vec / sim_precalc / inner
    for w in WIDTHS:
        for n in ROWS:
            for m in MISALIGN:
                for mv in MISALIGN:
                    A = rand_fps(rng, n, w, density=rng.choice([None, 0.05, 0.5]))
                    v = rand_fps(rng, 1, w, density=rng.choice([None, 0.05, 0.5]))[0]
                    if rng.random() < 0.15:
                        A[rng.integers(0, n)] = 0  # 0/0 -> clamp
                        if rng.random() < 0.5:
                            v[:] = 0
                    if rng.random() < 0.15:
                        A[rng.integers(0, n)] = v
                    compare("sim_arr_vec", f"n={n} w={w} misalign={m} misalign_v={mv}", {"A": A, "v": v},
                            lambda: ck.sim_arr_vec(A, v, m, mv), lambda: pysim._jt_sim_arr_vec_packed(A, v))
                    cards = pysim._popcount(A)
                    compare("sim_precalc", f"n={n} w={w} misalign={m} misalign_v={mv}", {"A": A, "v": v, "cards": cards},
                            lambda: ck.sim_precalc(A, v, cards, m, mv),
                            lambda: pysim._jt_sim_packed_precalc_cardinalities(A, v, cards))
                    vp = int(pysim._popcount(v))
                    compare("_calc_arr_vec_jt<u8>", f"n={n} w={w} misalign={m} misalign_v={mv}", {"A": A, "v": v},
                            lambda: ck.calc_arr_vec_jt(A, v, cards, vp, False, misalign=m, misalign_v=mv),
                            lambda: pysim._jt_sim_packed_precalc_cardinalities(A, v, cards))
                    if w % 8 == 0:
                        # NB: with misalign % 8 != 0 this dereferences misaligned uint64_t* (the
                        # public entry point never does that; x86 tolerates it)
                        compare("_calc_arr_vec_jt<u64>", f"n={n} w={w} misalign={m} misalign_v={mv}", {"A": A, "v": v},
                                lambda: ck.calc_arr_vec_jt(A, v, cards, vp, True, misalign=m, misalign_v=mv),
                                lambda: pysim._jt_sim_packed_precalc_cardinalities(A, v, cards))

    # --------------------------------------------------------- most_dissimilar
    def norm_md(t):
        return (int(t[0]), int(t[1]), np.asarray(t[2], dtype=np.float64), np.asarray(t[3], dtype=np.float64))

    for w in WIDTHS:
        for n in ROWS + [100]:
            for m in MISALIGN:
                for nf in (None, w * 8, w * 8 - 3):
                    A = rand_fps(rng, n, w, density=rng.choice([None, 0.05, 0.3]))
                    if n > 2 and rng.random() < 0.3:
                        A[rng.integers(0, n)] = A[0]  # ties
                    tag = "" if nf is None or nf % 8 == 0 else "[n_features%8!=0]"
                    compare("most_dissimilar" + tag, f"n={n} w={w} n_features={nf} misalign={m}", {"A": A},
                            lambda: ck.most_dissimilar(A, nf, m),
                            lambda: pysim.jt_most_dissimilar_packed(A, nf), norm_py=norm_md)

    # -------------------------------------------------------------- edge cases
    e8 = np.zeros((0, 8), dtype=np.uint8)
    v8 = np.arange(8, dtype=np.uint8)
    compare("edge:empty", "popcount_2d (0,8)", {}, lambda: ck.popcount_2d(e8), lambda: pysim._popcount(e8))
    compare("edge:empty", "popcount_1d (0,)", {}, lambda: ck.popcount_1d(e8[:, 0]), lambda: pysim._popcount(e8[:, 0]))
    compare("edge:empty", "unpack (0,8)", {}, lambda: ck.unpack(e8), lambda: py_unpack(e8))
    compare("edge:empty", "add_rows (0,8)", {}, lambda: ck.add_rows(e8), lambda: np.sum(e8, axis=0, dtype=np.uint64))
    compare("edge:empty", "sim_arr_vec (0,8) vs (8,)", {}, lambda: ck.sim_arr_vec(e8, v8), lambda: pysim._jt_sim_arr_vec_packed(e8, v8))
    compare("edge:empty", "isim_packed (0,8)", {}, lambda: ck.isim_packed(e8), lambda: pysim.jt_isim_packed(e8), norm_py=np.float64)
    compare("edge:empty", "most_dissimilar (0,8)", {}, lambda: ck.most_dissimilar(e8),
            lambda: pysim.jt_most_dissimilar_packed(e8), norm_py=norm_md)
    compare("edge:empty", "centroid_from_sum len 0, n=3", {}, lambda: ck.centroid_from_sum(np.zeros(0, np.uint64), 3),
            lambda: pysim.centroid_from_sum(np.zeros(0, np.uint64), 3))
    A = rand_fps(rng, 4, 8)
    compare("edge:shape", "sim_arr_vec width mismatch (4,8) vs (7,)", {}, lambda: ck.sim_arr_vec(A, v8[:7]),
            lambda: pysim._jt_sim_arr_vec_packed(A, v8[:7]))
    compare("edge:shape", "sim_arr_vec 1-D arr", {}, lambda: ck.sim_arr_vec(v8, v8), lambda: pysim._jt_sim_arr_vec_packed(v8, v8))
    compare("edge:shape", "sim_arr_vec 2-D vec (4,8) vs (1,8)", {}, lambda: ck.sim_arr_vec(A, A[:1]),
            lambda: pysim._jt_sim_arr_vec_packed(A, A[:1]))
    compare("edge:shape", "popcount_2d on 1-D", {"a": v8}, lambda: ck.popcount_2d(v8), lambda: pysim._popcount(v8))
    compare("edge:shape", "popcount_1d on 2-D", {"A": A}, lambda: ck.popcount_1d(A), lambda: pysim._popcount(A))
    compare("edge:shape", "unpack 3-D (2,2,8)", {}, lambda: ck.unpack(A.reshape(2, 2, 8)), lambda: py_unpack(A.reshape(2, 2, 8)))
    compare("edge:shape", "most_dissimilar 1-D", {}, lambda: ck.most_dissimilar(v8), lambda: pysim.jt_most_dissimilar_packed(v8),
            norm_py=norm_md)
    compare("edge:shape", "isim_from_sum 2-D linear_sum n=3", {}, lambda: ck.isim_from_sum(A.astype(np.uint64), 3),
            lambda: pysim.jt_isim_from_sum(A.astype(np.uint64), 3), norm_py=np.float64)
    compare("edge:shape", "centroid_from_sum 2-D linear_sum n=3", {}, lambda: ck.centroid_from_sum(A.astype(np.uint64), 3),
            lambda: pysim.centroid_from_sum(A.astype(np.uint64), 3))
    compare("edge:n_features", "unpack 1-D w=8 n_features=128 (> 8*w)", {"a": v8}, lambda: ck.unpack(v8, 128),
            lambda: py_unpack(v8, 128))
    compare("edge:n_features", "unpack 2-D (4,8) n_features=128 (> 8*w)", {"A": A}, lambda: ck.unpack(A, 128),
            lambda: py_unpack(A, 128))
    compare("edge:n_features", "unpack 1-D w=8 n_features=0", {"a": v8}, lambda: ck.unpack(v8, 0), lambda: py_unpack(v8, 0))
    compare("edge:n_features", "unpack 1-D w=8 n_features=-8", {"a": v8}, lambda: ck.unpack(v8, -8), lambda: py_unpack(v8, -8))
    compare("edge:values", "centroid_from_sum n=1, ls values > 255 (uint8 truncation)", {},
            lambda: ck.centroid_from_sum(np.array([0, 1, 256, 257, 511, 2**40 + 3, 0, 1], np.uint64), 1, False),
            lambda: pysim.centroid_from_sum(np.array([0, 1, 256, 257, 511, 2**40 + 3, 0, 1], np.uint64), 1, pack=False))
    compare("edge:values", "centroid_from_sum n=1 pack=True, ls values 2/3 (non-binary 'bits')",
            {"ls": np.array([2, 3, 0, 1, 1, 0, 0, 1], np.uint64)},
            lambda: ck.centroid_from_sum(np.array([2, 3, 0, 1, 1, 0, 0, 1], np.uint64), 1, True),
            lambda: pysim.centroid_from_sum(np.array([2, 3, 0, 1, 1, 0, 0, 1], np.uint64), 1, pack=True))

    # ------------------------------------------------------------------ report
    classes = ["agree", "DISAGREE", "cpp_throws", "py_raises", "both_raise", "warn_mismatch"]
    print(f"{'kernel':46s}" + "".join(f"{c:>14s}" for c in classes))
    bad = 0
    for k, cnt in results.items():
        print(f"{k:46s}" + "".join(f"{cnt.get(c, 0):14d}" for c in classes))
        bad += sum(v for c, v in cnt.items() if c != "agree")
    total = sum(sum(c.values()) for c in results.values())
    print(f"\ntotal comparisons: {total}; not in class 'agree': {bad}\n")
    if bad:
        print(f"Details (at most {MAX_SHOWN} per kernel and failure mode):")
        for k in results:
            for d in details.get(k, []):
                print(d)
            for key, cntk in hidden[k].items():
                if cntk > MAX_SHOWN:
                    cls, ce, pe = key.split("|", 2)
                    print(f"  [{k}] ... and {cntk - MAX_SHOWN} more '{cls}' of the same kind"
                          + (f" (C++: {ce})" if ce else "") + (f" (NumPy: {pe})" if pe else ""))
    # exit status: 0 even with disagreements (they are findings, not harness failures)
    return 0


if __name__ == "__main__":
    sys.exit(main())
