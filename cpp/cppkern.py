r"""ctypes access to the kernels of bblean/csrc/similarity.cpp (compiled UNMODIFIED)

The C++ source is a pybind11 extension. It is compiled here against the small
*stand-in* headers in ``pybind11/`` (next to this file) through ``shim.cpp``,
which ``#include``\ s the source and exports ``extern "C"`` wrappers. No Python.h,
no pybind11. Neither the stand-in nor the shim contain kernel logic.

Usage::

    import cppkern as ck
    ck.build()                       # compiles the *current* source, ~3 s
    ck.popcount_1d(np.arange(64, dtype=np.uint8), misalign=1)

Every wrapper accepts ``lib=`` (a CDLL returned by ``build``); default is the
library of the most recent ``build()`` call (``build()`` is called on demand).

``misalign`` (all array-taking wrappers)
    * ``int m``: the data is copied into a fresh buffer at an address that is
      ``== m (mod 64)``; 2-D inputs are stored C-contiguously from that address.
      The rest of the scratch buffer is filled with 0xA5, so that over-reads
      past the end of the input show up as garbage rather than as zeros.
      ``misalign=0`` therefore means 64-byte aligned.
    * ``None``: the array's own memory is passed (it must have the right dtype;
      it is made C-contiguous if it is not), i.e. whatever alignment NumPy gave.
  The pointer is handed to the kernel *without copy* on the C++ side
  (``array_t::borrow``), so the kernel sees exactly this address.
  Wrappers with two byte inputs (``sim_arr_vec``, ``sim_precalc``,
  ``calc_arr_vec_jt``) take ``misalign`` for the matrix and ``misalign_v`` for
  the vector (``misalign_v=None`` -> same value as ``misalign``;
  ``misalign_v=OWN`` -> pass the vector's own memory).

Status handling: status 1 (C++ exception) -> ``KernelError(msg)`` with
``.cpp_type`` (e.g. ``std::runtime_error``, ``pybind11::index_error``);
warnings that the source issues through ``PyErr_WarnEx`` are re-issued with
``warnings.warn(msg, RuntimeWarning)``; ``last_warnings()`` / ``last_log()``
give the raw text (``last_log`` is what the source ``py::print``\ s when built
with ``build(debug_logs=True)``, i.e. -DDEBUG_LOGS=1: it tells which branch,
uint64+popcount64 or uint8+popcount32, was taken).

AddressSanitizer: ``build(extra_flags=("-fsanitize=address", "-g"))`` works when
Python is started with ``LD_PRELOAD=$(g++ -print-file-name=libasan.so)
ASAN_OPTIONS=detect_leaks=0`` (this is how the heap over-read of
``centroid_from_sum(pack=True)`` for n_features % 8 != 0 was confirmed).

Deviations from the requested names / what the source really offers
  * dtypes are strict (uint8 for fingerprints, uint64 for linear sums, uint32
    for cardinalities): there is no pybind11 "forcecast" in the stand-in, so a
    wrong dtype is a ``TypeError`` here instead of a silent cast.
  * ``centroid_from_sum`` is ``centroid_from_sum<uint64_t>`` (the only bound
    instantiation); ``add_rows`` is ``add_rows<uint8_t>`` (idem; the template
    does not even compile for another T).
  * ``unpack`` calls the ndim-dispatching ``unpack_fingerprints``;
    ``unpack_1d_nochecks`` / ``unpack_2d_nochecks`` call the two
    ``_nochecks_unpack_fingerprints_{1,2}d`` directly (both are bound).
  * ``sim_precalc`` is ``jt_sim_packed_precalc_cardinalities`` (NOT bound in the
    module, but a free function); ``calc_arr_vec_jt`` is the inner template
    ``_calc_arr_vec_jt<uint8_t|uint64_t>`` (not bound either).
  * ``is_8byte_aligned`` / ``alignment_report`` expose the two debug helpers.
  * ``jt_isim_packed_u8`` in the source takes ``n_features``; note that the
    pure-python wrapper in bblean/similarity.py does NOT forward it.
  * every wrapper takes ``misalign`` (not only the ones listed in the request).
  * wrappers accept inputs of any ndim: ndim is passed through so that the
    source's own ndim checks can be exercised.
  * float results are ``np.float64`` (scalars) / float64 arrays.
"""

from __future__ import annotations

import ctypes as C
import itertools
import os
import shutil
import subprocess
import tempfile
import warnings
from pathlib import Path

import numpy as np

__all__ = [
    "build",
    "BuildError",
    "KernelError",
    "FLAGS",
    "OWN",
    "place",
    "popcount_1d",
    "popcount_2d",
    "unpack",
    "unpack_1d_nochecks",
    "unpack_2d_nochecks",
    "centroid_from_sum",
    "isim_from_sum",
    "isim_packed",
    "isim_unpacked",
    "add_rows",
    "sim_arr_vec",
    "sim_precalc",
    "calc_arr_vec_jt",
    "most_dissimilar",
    "is_8byte_aligned",
    "alignment_report",
    "n_bound",
    "last_warnings",
    "last_log",
]

HERE = Path(__file__).resolve().parent
DEFAULT_SRC = "/repo/bblean/csrc/similarity.cpp"
# Flags of /repo/setup.py on x86 (non-native, non-Windows) + what
# Pybind11Extension(cxx_std=17) adds that matters here (-std=c++17; it also adds
# -fvisibility=hidden and -g0, which do not change code generation)
FLAGS = [
    "-std=c++17",
    "-O3",
    "-march=nocona",
    "-mtune=haswell",
    "-mpopcnt",
    "-fPIC",
    "-shared",
]

OWN = "own"  # sentinel for misalign_v: pass the vector's own memory


class BuildError(RuntimeError):
    """Compilation failed; ``str(e)`` has the command and the compiler output"""


class KernelError(RuntimeError):
    """The C++ code threw; ``cpp_type`` is the demangled dynamic type"""

    def __init__(self, msg: str, cpp_type: str = "") -> None:
        super().__init__(msg)
        self.cpp_type = cpp_type


_LIB: C.CDLL | None = None
_counter = itertools.count()

_P = C.c_void_p
_I64 = C.c_int64
_INT = C.c_int
_IN = [_P, _I64, _P]  # ptr, ndim, shape*
_OUT = [_P, _I64, _P, _P]  # out, cap, out_ndim*, out_shape*
_NF = [_INT, _I64]  # has_nf, nf

_SIGNATURES = {
    "bb_is_8byte_aligned": _IN + [_P],
    "bb_print_8byte_alignment_check": _IN,
    "bb_popcount_1d": _IN + [_P],
    "bb_popcount_2d": _IN + _OUT,
    "bb_nochecks_unpack_1d": _IN + _NF + _OUT,
    "bb_nochecks_unpack_2d": _IN + _NF + _OUT,
    "bb_unpack_fingerprints": _IN + _NF + _OUT,
    "bb_centroid_from_sum_u64": _IN + [_I64, _INT] + _OUT,
    "bb_jt_isim_from_sum": _IN + [_I64, _P],
    "bb_add_rows_u8": _IN + _OUT,
    "bb_jt_isim_unpacked_u8": _IN + [_P],
    "bb_jt_isim_packed_u8": _IN + _NF + [_P],
    "bb_calc_arr_vec_jt": [_INT] + _IN + _IN + [_I64, _I64, C.c_uint32] + _IN + [_P, _I64],
    "bb_jt_sim_packed_precalc_cardinalities": _IN + _IN + _IN + _OUT,
    "bb_jt_sim_arr_vec_packed": _IN + _IN + _OUT,
    "bb_jt_most_dissimilar_packed": _IN + _NF + [_P, _P, _P, _P, _I64, _P],
}


def build(
    src: str | os.PathLike = DEFAULT_SRC,
    outdir: str | os.PathLike | None = None,
    *,
    debug_logs: bool = False,
    extra_flags: tuple[str, ...] = (),
    cxx: str = "g++",
) -> C.CDLL:
    """Compile shim.cpp against the *current* ``src`` and load the result

    Always recompiles. The library is written to ``outdir/libbbsim.so``
    (``outdir`` default: $BBSIM_OUTDIR or <tmp>/bbsim_build). It is loaded
    through a uniquely named copy (deleted right after dlopen), because glibc
    would otherwise hand back the already loaded object for the same path.
    """
    global _LIB
    src = Path(src).resolve()
    if not src.is_file():
        raise BuildError(f"source not found: {src}")
    if outdir is None:
        outdir = os.environ.get("BBSIM_OUTDIR") or Path(tempfile.gettempdir()) / "bbsim_build"
    outdir = Path(outdir)
    outdir.mkdir(parents=True, exist_ok=True)
    so = outdir / "libbbsim.so"
    tmp_so = outdir / f".libbbsim-{os.getpid()}-{next(_counter)}.so"
    cmd = [cxx, *FLAGS, *extra_flags]
    if debug_logs:
        cmd.append("-DDEBUG_LOGS=1")
    cmd += [f"-I{HERE}", f'-DSIM_SRC="{src}"', str(HERE / "shim.cpp"), "-o", str(tmp_so)]
    proc = subprocess.run(cmd, capture_output=True, text=True)
    if proc.returncode != 0 or not tmp_so.exists():
        tmp_so.unlink(missing_ok=True)
        raise BuildError(
            "compilation failed (exit {}):\n$ {}\n{}{}".format(
                proc.returncode, " ".join(cmd), proc.stdout, proc.stderr
            )
        )
    try:
        shutil.copyfile(tmp_so, so)
        lib = C.CDLL(str(tmp_so))
    finally:
        tmp_so.unlink(missing_ok=True)
    for name in ("bb_last_error", "bb_last_error_type", "bb_last_warnings", "bb_last_log",
                 "bb_source_path", "bb_popcount_impl"):
        fn = getattr(lib, name)
        fn.restype = C.c_char_p
        fn.argtypes = []
    for name in ("bb_n_bound", "bb_debug_logs"):
        fn = getattr(lib, name)
        fn.restype = _INT
        fn.argtypes = []
    for name, argtypes in _SIGNATURES.items():
        fn = getattr(lib, name)
        fn.restype = _INT
        fn.argtypes = argtypes
    lib.bb_build_cmd = cmd  # type: ignore[attr-defined]
    lib.bb_compiler_output = proc.stdout + proc.stderr  # type: ignore[attr-defined]
    _LIB = lib
    return lib


def _lib(lib: C.CDLL | None) -> C.CDLL:
    if lib is not None:
        return lib
    if _LIB is None:
        build()
    assert _LIB is not None
    return _LIB


# ---------------------------------------------------------------------------
# buffers
# ---------------------------------------------------------------------------
def _place(a, dtype, misalign):
    """-> (array, address of its first byte); see place()"""
    a = np.asarray(a)
    dtype = np.dtype(dtype)
    if a.dtype != dtype:
        raise TypeError(f"expected dtype {dtype}, got {a.dtype} (no forcecast in the shim)")
    if misalign is None:
        a = np.ascontiguousarray(a)
        return a, a.ctypes.data
    misalign = int(misalign)
    if not 0 <= misalign < 64:
        raise ValueError("misalign must be in [0, 64)")
    nbytes = a.size * dtype.itemsize
    raw = np.full(nbytes + 192, 0xA5, dtype=np.uint8)
    off = (misalign - raw.ctypes.data) % 64 + 64  # >= 64 bytes of 0xA5 in front too
    addr = raw.ctypes.data + off
    view = raw[off : off + nbytes]
    view[:] = np.ascontiguousarray(a).reshape(-1).view(np.uint8)
    out = view.view(dtype).reshape(a.shape)
    # (NumPy does not promise a meaningful data pointer for size-0 arrays, hence `addr`)
    assert addr % 64 == misalign and out.flags.c_contiguous
    assert nbytes == 0 or out.ctypes.data == addr
    return out, addr


def place(a, dtype=np.uint8, misalign: int | None = 0) -> np.ndarray:
    """Array with the contents of ``a`` whose data address is == misalign (mod 64)

    ``misalign=None``: ``a`` itself (made C-contiguous if needed). The result
    keeps its scratch buffer (filled with 0xA5 around the data) alive via ``.base``.
    """
    return _place(a, dtype, misalign)[0]


class _In:
    """A placed input array + the ctypes pieces (ptr, ndim, shape*) describing it"""

    def __init__(self, a, dtype, misalign) -> None:
        self.arr, self.addr = _place(a, dtype, misalign)
        self._shape = (C.c_int64 * max(self.arr.ndim, 1))(*self.arr.shape)
        self.args = (self.addr, self.arr.ndim, C.cast(self._shape, C.c_void_p))
        self.shape = self.arr.shape
        self.ndim = self.arr.ndim
        self.size = self.arr.size


def _nf(n_features):
    if n_features is None:
        return (0, 0)
    return (1, int(n_features))


def _check(lib: C.CDLL, status: int, what: str) -> None:
    w = lib.bb_last_warnings().decode()
    if status == 1:
        raise KernelError(lib.bb_last_error().decode(), lib.bb_last_error_type().decode())
    if status != 0:
        raise RuntimeError(f"{what}: unexpected status {status}")
    for line in w.splitlines():
        cat, _, msg = line.partition(": ")
        warnings.warn(msg, RuntimeWarning if cat == "RuntimeWarning" else UserWarning, stacklevel=3)


def _call_out(lib: C.CDLL, fname: str, pre_args, dtype, cap: int) -> np.ndarray:
    """Call a shim function whose trailing args are (out, cap, out_ndim, out_shape)"""
    fn = getattr(lib, fname)
    nd = C.c_int64(0)
    sh = (C.c_int64 * 2)(0, 0)
    for _ in range(2):
        out = np.empty(max(int(cap), 1), dtype=dtype)
        status = fn(*pre_args, out.ctypes.data, int(cap), C.addressof(nd), C.addressof(sh))
        if status != 2:
            break
        cap = int(np.prod([sh[i] for i in range(nd.value)], dtype=np.int64))
    _check(lib, status, fname)
    shape = tuple(sh[i] for i in range(nd.value))
    n = int(np.prod(shape, dtype=np.int64))
    return out[:n].reshape(shape).copy()


def _mv(misalign, misalign_v):
    if misalign_v is None:
        return misalign
    if isinstance(misalign_v, str) and misalign_v == OWN:
        return None
    return misalign_v


# ---------------------------------------------------------------------------
# wrappers
# ---------------------------------------------------------------------------
def n_bound(lib=None) -> int:
    """Number of m.def() calls in PYBIND11_MODULE (runs the no-op binding body)"""
    return _lib(lib).bb_n_bound()


def last_warnings(lib=None) -> str:
    return _lib(lib).bb_last_warnings().decode()


def last_log(lib=None) -> str:
    return _lib(lib).bb_last_log().decode()


def is_8byte_aligned(a, misalign: int | None = 0, lib=None) -> bool:
    lib = _lib(lib)
    a = _In(a, np.uint8, misalign)
    args = a.args
    out = C.c_int(0)
    _check(lib, lib.bb_is_8byte_aligned(*args, C.addressof(out)), "is_8byte_aligned")
    return bool(out.value)


def alignment_report(a, misalign: int | None = 0, lib=None) -> str:
    """Text that print_8byte_alignment_check(arr) py::print()s"""
    lib = _lib(lib)
    a = _In(a, np.uint8, misalign)
    args = a.args
    _check(lib, lib.bb_print_8byte_alignment_check(*args), "print_8byte_alignment_check")
    return last_log(lib)


def popcount_1d(a, misalign: int | None = 0, lib=None) -> int:
    """_popcount_1d(arr) -> uint32 (as Python int)"""
    lib = _lib(lib)
    a = _In(a, np.uint8, misalign)
    args = a.args
    out = C.c_uint32(0)
    _check(lib, lib.bb_popcount_1d(*args, C.addressof(out)), "_popcount_1d")
    return int(out.value)


def popcount_2d(A, misalign: int | None = 0, lib=None) -> np.ndarray:
    """_popcount_2d(arr) -> uint32[n_samples]"""
    lib = _lib(lib)
    A = _In(A, np.uint8, misalign)
    args = A.args
    return _call_out(lib, "bb_popcount_2d", args, np.uint32, A.shape[0] if A.ndim else 1)


def _unpack(fname, a, n_features, misalign, lib):
    lib = _lib(lib)
    a = _In(a, np.uint8, misalign)
    args = a.args
    cap = a.size * 8 if n_features is None else (a.size // max(a.shape[-1], 1) if a.ndim else 1) * max(int(n_features), 0)
    return _call_out(lib, fname, (*args, *_nf(n_features)), np.uint8, cap)


def unpack(a, n_features: int | None = None, misalign: int | None = 0, lib=None) -> np.ndarray:
    """unpack_fingerprints(packed, n_features) (1-D or 2-D input)"""
    return _unpack("bb_unpack_fingerprints", a, n_features, misalign, lib)


def unpack_1d_nochecks(a, n_features: int | None = None, misalign: int | None = 0, lib=None):
    """_nochecks_unpack_fingerprints_1d(packed, n_features)"""
    return _unpack("bb_nochecks_unpack_1d", a, n_features, misalign, lib)


def unpack_2d_nochecks(a, n_features: int | None = None, misalign: int | None = 0, lib=None):
    """_nochecks_unpack_fingerprints_2d(packed, n_features)"""
    return _unpack("bb_nochecks_unpack_2d", a, n_features, misalign, lib)


def centroid_from_sum(ls, n: int, pack: bool = True, misalign: int | None = 0, lib=None):
    """centroid_from_sum<uint64_t>(linear_sum, n_samples, pack) -> uint8[...]"""
    lib = _lib(lib)
    ls = _In(ls, np.uint64, misalign)
    args = ls.args
    return _call_out(
        lib, "bb_centroid_from_sum_u64", (*args, int(n), int(bool(pack))), np.uint8, ls.size + 8
    )


def isim_from_sum(ls, n: int, misalign: int | None = 0, lib=None) -> np.float64:
    """jt_isim_from_sum(linear_sum, n_objects) -> float64"""
    lib = _lib(lib)
    ls = _In(ls, np.uint64, misalign)
    args = ls.args
    out = C.c_double(0.0)
    _check(lib, lib.bb_jt_isim_from_sum(*args, int(n), C.addressof(out)), "jt_isim_from_sum")
    return np.float64(out.value)


def isim_packed(A, n_features: int | None = None, misalign: int | None = 0, lib=None) -> np.float64:
    """jt_isim_packed_u8(arr, n_features) -> float64"""
    lib = _lib(lib)
    A = _In(A, np.uint8, misalign)
    args = A.args
    out = C.c_double(0.0)
    st = lib.bb_jt_isim_packed_u8(*args, *_nf(n_features), C.addressof(out))
    _check(lib, st, "jt_isim_packed_u8")
    return np.float64(out.value)


def isim_unpacked(A, misalign: int | None = 0, lib=None) -> np.float64:
    """jt_isim_unpacked_u8(arr) -> float64"""
    lib = _lib(lib)
    A = _In(A, np.uint8, misalign)
    args = A.args
    out = C.c_double(0.0)
    _check(lib, lib.bb_jt_isim_unpacked_u8(*args, C.addressof(out)), "jt_isim_unpacked_u8")
    return np.float64(out.value)


def add_rows(A, misalign: int | None = 0, lib=None) -> np.ndarray:
    """add_rows<uint8_t>(arr) -> uint64[n_features]"""
    lib = _lib(lib)
    A = _In(A, np.uint8, misalign)
    args = A.args
    return _call_out(lib, "bb_add_rows_u8", args, np.uint64, A.shape[-1] if A.ndim else 1)


def sim_arr_vec(A, v, misalign: int | None = 0, misalign_v=None, lib=None) -> np.ndarray:
    """_jt_sim_arr_vec_packed(arr, vec) -> float64[n_samples]"""
    lib = _lib(lib)
    A = _In(A, np.uint8, misalign)
    v = _In(v, np.uint8, _mv(misalign, misalign_v))
    a_args = A.args
    v_args = v.args
    return _call_out(
        lib, "bb_jt_sim_arr_vec_packed", (*a_args, *v_args), np.float64, A.shape[0] if A.ndim else 1
    )


def sim_precalc(A, v, cards, misalign: int | None = 0, misalign_v=None, lib=None) -> np.ndarray:
    """jt_sim_packed_precalc_cardinalities(arr, vec, cardinalities) -> float64[n]"""
    lib = _lib(lib)
    A = _In(A, np.uint8, misalign)
    v = _In(v, np.uint8, _mv(misalign, misalign_v))
    cards = _In(cards, np.uint32, None)
    a_args = A.args
    v_args = v.args
    c_args = cards.args
    return _call_out(
        lib,
        "bb_jt_sim_packed_precalc_cardinalities",
        (*a_args, *v_args, *c_args),
        np.float64,
        A.shape[0] if A.ndim else 1,
    )


def calc_arr_vec_jt(
    A,
    v,
    cards,
    vec_popcount: int,
    use_u64: bool,
    n_samples: int | None = None,
    n_features: int | None = None,
    misalign: int | None = 0,
    misalign_v=None,
    lib=None,
) -> np.ndarray:
    """_calc_arr_vec_jt<uint64_t if use_u64 else uint8_t>(...) -> float64[n_samples]

    No checks at all in the source: with use_u64 the byte pointers are simply
    reinterpreted as uint64_t* (n_features // 8 steps per row).
    """
    lib = _lib(lib)
    A = _In(A, np.uint8, misalign)
    v = _In(v, np.uint8, _mv(misalign, misalign_v))
    cards = _In(cards, np.uint32, None)
    n_samples = A.shape[0] if n_samples is None else int(n_samples)
    n_features = A.shape[1] if n_features is None else int(n_features)
    a_args = A.args
    v_args = v.args
    c_args = cards.args
    out = np.empty(max(n_samples, 1), dtype=np.float64)
    st = lib.bb_calc_arr_vec_jt(
        int(bool(use_u64)), *a_args, *v_args, n_samples, n_features, int(vec_popcount), *c_args,
        out.ctypes.data, n_samples,
    )
    _check(lib, st, "_calc_arr_vec_jt")
    return out[:n_samples].copy()


def most_dissimilar(A, n_features: int | None = None, misalign: int | None = 0, lib=None):
    """jt_most_dissimilar_packed(Y, n_features) -> (fp1_idx, fp2_idx, sims_fp1, sims_fp2)"""
    lib = _lib(lib)
    A = _In(A, np.uint8, misalign)
    args = A.args
    cap = A.shape[0] if A.ndim else 1
    i1, i2, n = C.c_int64(-1), C.c_int64(-1), C.c_int64(0)
    for _ in range(2):
        s1 = np.empty(max(cap, 1), dtype=np.float64)
        s2 = np.empty(max(cap, 1), dtype=np.float64)
        st = lib.bb_jt_most_dissimilar_packed(
            *args, *_nf(n_features), C.addressof(i1), C.addressof(i2),
            s1.ctypes.data, s2.ctypes.data, cap, C.addressof(n),
        )
        if st != 2:
            break
        cap = int(n.value)
    _check(lib, st, "jt_most_dissimilar_packed")
    return int(i1.value), int(i2.value), s1[: n.value].copy(), s2[: n.value].copy()
