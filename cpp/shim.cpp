// ctypes shim around the UNMODIFIED bblean/csrc/similarity.cpp
//
// Build (see cppkern.py):
//   g++ -std=c++17 -O3 -march=nocona -mtune=haswell -mpopcnt -fPIC -shared
//       -I <dir of this file> -DSIM_SRC='"/repo/bblean/csrc/similarity.cpp"'
//       shim.cpp -o libbbsim.so
//
// The source is #included, so the kernels live in this translation unit and
// are compiled with exactly the flags given on the command line. The shim only
// moves pointers and shapes: no kernel logic is (re)implemented here.
//
// Conventions
//   * Every input array is (ptr, ndim, shape) with shape -> int64_t[ndim]; it
//     is wrapped with array_t::borrow (NO copy), so the kernel sees exactly the
//     caller's address / alignment. ndim is passed explicitly so the ndim
//     checks of the source can be exercised too.
//   * Every output array is (out, out_cap, out_ndim, out_shape): out_cap is
//     the capacity of `out` in ELEMENTS, out_shape -> int64_t[2]. The real
//     ndim/shape are always written; data is copied only if it fits.
//   * n_features (std::optional<ssize_t>) is (has_nf, nf): has_nf == 0 means
//     std::nullopt.
//   * Return value: 0 ok; 1 C++ exception (text in bb_last_error(), dynamic
//     type in bb_last_error_type()); 2 output capacity too small (required
//     shape has been written).
//   * Warnings issued through PyErr_WarnEx during the last call are available
//     from bb_last_warnings() ("Category: message\n" each). Text printed with
//     py::print (only when built with -DDEBUG_LOGS=1) from bb_last_log().
#ifndef SIM_SRC
#error "compile with -DSIM_SRC='\"/path/to/similarity.cpp\"'"
#endif
#include SIM_SRC

#include <cxxabi.h>

#include <cstdio>
#include <exception>
#include <string>
#include <typeinfo>

#ifndef BB_PYBIND11_STANDIN
#error "shim.cpp must be compiled against the stand-in pybind11 headers"
#endif

namespace {

std::string g_err;
std::string g_err_type;
std::string g_warn;
std::string g_log;

using shape_t = std::vector<py::ssize_t>;

shape_t mk_shape(int64_t ndim, const int64_t* shape) {
    if (ndim < 0) throw std::invalid_argument("shim: negative ndim");
    shape_t s(static_cast<size_t>(ndim));
    for (int64_t i = 0; i < ndim; ++i) s[i] = static_cast<py::ssize_t>(shape[i]);
    return s;
}

template <typename T, int Flags = py::array::forcecast>
py::array_t<T, Flags> in_arr(const T* p, int64_t ndim, const int64_t* shape) {
    return py::array_t<T, Flags>::borrow(p, mk_shape(ndim, shape));
}

std::optional<py::ssize_t> opt_nf(int has_nf, int64_t nf) {
    if (has_nf) return static_cast<py::ssize_t>(nf);
    return std::nullopt;
}

// returns 0 or 2
template <typename T, int Flags>
int put(const py::array_t<T, Flags>& a, T* out, int64_t cap, int64_t* out_ndim,
        int64_t* out_shape) {
    if (out_ndim) *out_ndim = a.ndim();
    if (out_shape) {
        for (py::ssize_t d = 0; d < a.ndim() && d < 2; ++d) {
            out_shape[d] = a.shape(d);
        }
    }
    if (a.ndim() > 2) throw std::logic_error("shim: output ndim > 2");
    if (a.size() > cap) return 2;
    if (a.size() > 0) {
        std::memcpy(out, a.data(), static_cast<size_t>(a.nbytes()));
    }
    return 0;
}

std::string demangle(const char* name) {
    int st = 0;
    char* d = abi::__cxa_demangle(name, nullptr, nullptr, &st);
    std::string r = (st == 0 && d) ? d : name;
    std::free(d);
    return r;
}

template <typename F>
int guarded(F&& f) {
    g_err.clear();
    g_err_type.clear();
    py::standin::warn_log().clear();
    py::standin::print_log().clear();
    int rc;
    try {
        rc = f();
    } catch (const std::exception& e) {
        g_err = e.what();
        g_err_type = demangle(typeid(e).name());
        rc = 1;
    } catch (...) {
        g_err = "unknown (non std::exception) C++ exception";
        g_err_type = "unknown";
        rc = 1;
    }
    g_warn = py::standin::warn_log();
    g_log = py::standin::print_log();
    return rc;
}

using CU8 = CArrayForcecast<uint8_t>;    // array_t<uint8_t, c_style|forcecast>
using CU64 = CArrayForcecast<uint64_t>;  // array_t<uint64_t, c_style|forcecast>

}  // namespace

extern "C" {

const char* bb_last_error() { return g_err.c_str(); }
const char* bb_last_error_type() { return g_err_type.c_str(); }
const char* bb_last_warnings() { return g_warn.c_str(); }
const char* bb_last_log() { return g_log.c_str(); }

// Which source was compiled in, and with / without DEBUG_LOGS
const char* bb_source_path() { return SIM_SRC; }
int bb_debug_logs() {
#ifdef DEBUG_LOGS
    return 1;
#else
    return 0;
#endif
}
// Which popcount macro branch of the source was selected by the preprocessor
const char* bb_popcount_impl() {
#define BB_STR2(x) #x
#define BB_STR(x) BB_STR2(x)
    return BB_STR(POPCOUNT_64);
}

// Runs the (no-op) PYBIND11_MODULE body; returns the number of m.def() calls
int bb_n_bound() {
    py::module_ m;
    pybind11_init__cpp_similarity(m);
    return m.n_defs;
}

// is_8byte_aligned(const array_t<uint8_t>&)            [not bound]
int bb_is_8byte_aligned(const uint8_t* a, int64_t ndim, const int64_t* shape,
                        int* out) {
    return guarded([&] {
        *out = is_8byte_aligned(in_arr<uint8_t>(a, ndim, shape)) ? 1 : 0;
        return 0;
    });
}

// print_8byte_alignment_check(arr)                      [not bound]
// Output goes to bb_last_log().
int bb_print_8byte_alignment_check(const uint8_t* a, int64_t ndim,
                                   const int64_t* shape) {
    return guarded([&] {
        print_8byte_alignment_check(in_arr<uint8_t>(a, ndim, shape));
        return 0;
    });
}

// _popcount_1d(const array_t<uint8_t>&) -> uint32
int bb_popcount_1d(const uint8_t* a, int64_t ndim, const int64_t* shape,
                   uint32_t* out) {
    return guarded([&] {
        *out = _popcount_1d(in_arr<uint8_t>(a, ndim, shape));
        return 0;
    });
}

// _popcount_2d(const CArrayForcecast<uint8_t>&) -> array_t<uint32>
int bb_popcount_2d(const uint8_t* a, int64_t ndim, const int64_t* shape,
                   uint32_t* out, int64_t out_cap, int64_t* out_ndim,
                   int64_t* out_shape) {
    return guarded([&] {
        auto r = _popcount_2d(in_arr<uint8_t, CU8::flags>(a, ndim, shape));
        return put(r, out, out_cap, out_ndim, out_shape);
    });
}

// _nochecks_unpack_fingerprints_1d(packed, n_features_opt)
int bb_nochecks_unpack_1d(const uint8_t* a, int64_t ndim, const int64_t* shape,
                          int has_nf, int64_t nf, uint8_t* out, int64_t out_cap,
                          int64_t* out_ndim, int64_t* out_shape) {
    return guarded([&] {
        auto r = _nochecks_unpack_fingerprints_1d(
            in_arr<uint8_t, CU8::flags>(a, ndim, shape), opt_nf(has_nf, nf));
        return put(r, out, out_cap, out_ndim, out_shape);
    });
}

// _nochecks_unpack_fingerprints_2d(packed, n_features_opt)
int bb_nochecks_unpack_2d(const uint8_t* a, int64_t ndim, const int64_t* shape,
                          int has_nf, int64_t nf, uint8_t* out, int64_t out_cap,
                          int64_t* out_ndim, int64_t* out_shape) {
    return guarded([&] {
        auto r = _nochecks_unpack_fingerprints_2d(
            in_arr<uint8_t, CU8::flags>(a, ndim, shape), opt_nf(has_nf, nf));
        return put(r, out, out_cap, out_ndim, out_shape);
    });
}

// unpack_fingerprints(packed, n_features_opt)   (dispatches on ndim)
int bb_unpack_fingerprints(const uint8_t* a, int64_t ndim, const int64_t* shape,
                           int has_nf, int64_t nf, uint8_t* out,
                           int64_t out_cap, int64_t* out_ndim,
                           int64_t* out_shape) {
    return guarded([&] {
        auto r = unpack_fingerprints(
            in_arr<uint8_t, CU8::flags>(a, ndim, shape), opt_nf(has_nf, nf));
        return put(r, out, out_cap, out_ndim, out_shape);
    });
}

// centroid_from_sum<uint64_t>(linear_sum, n_samples, pack)
int bb_centroid_from_sum_u64(const uint64_t* ls, int64_t ndim,
                             const int64_t* shape, int64_t n_samples, int pack,
                             uint8_t* out, int64_t out_cap, int64_t* out_ndim,
                             int64_t* out_shape) {
    return guarded([&] {
        auto r = centroid_from_sum<uint64_t>(
            in_arr<uint64_t, CU64::flags>(ls, ndim, shape), n_samples,
            pack != 0);
        return put(r, out, out_cap, out_ndim, out_shape);
    });
}

// jt_isim_from_sum(linear_sum, n_objects) -> double
int bb_jt_isim_from_sum(const uint64_t* ls, int64_t ndim, const int64_t* shape,
                        int64_t n_objects, double* out) {
    return guarded([&] {
        *out = jt_isim_from_sum(in_arr<uint64_t, CU64::flags>(ls, ndim, shape),
                                n_objects);
        return 0;
    });
}

// add_rows<uint8_t>(arr) -> array_t<uint64>
int bb_add_rows_u8(const uint8_t* a, int64_t ndim, const int64_t* shape,
                   uint64_t* out, int64_t out_cap, int64_t* out_ndim,
                   int64_t* out_shape) {
    return guarded([&] {
        auto r = add_rows<uint8_t>(in_arr<uint8_t, CU8::flags>(a, ndim, shape));
        return put(r, out, out_cap, out_ndim, out_shape);
    });
}

// jt_isim_unpacked_u8(arr) -> double
int bb_jt_isim_unpacked_u8(const uint8_t* a, int64_t ndim, const int64_t* shape,
                           double* out) {
    return guarded([&] {
        *out = jt_isim_unpacked_u8(in_arr<uint8_t, CU8::flags>(a, ndim, shape));
        return 0;
    });
}

// jt_isim_packed_u8(arr, n_features_opt) -> double
int bb_jt_isim_packed_u8(const uint8_t* a, int64_t ndim, const int64_t* shape,
                         int has_nf, int64_t nf, double* out) {
    return guarded([&] {
        *out = jt_isim_packed_u8(in_arr<uint8_t, CU8::flags>(a, ndim, shape),
                                 opt_nf(has_nf, nf));
        return 0;
    });
}

// _calc_arr_vec_jt<T>(arr, vec, n_samples, n_features, vec_popcount,
//                     cardinalities, out)            [not bound; T = u8 | u64]
// `out` must have room for n_samples doubles; the kernel writes straight into
// it (borrowed, writeable).
int bb_calc_arr_vec_jt(int use_u64, const uint8_t* arr, int64_t arr_ndim,
                       const int64_t* arr_shape, const uint8_t* vec,
                       int64_t vec_ndim, const int64_t* vec_shape,
                       int64_t n_samples, int64_t n_features,
                       uint32_t vec_popcount, const uint32_t* cards,
                       int64_t cards_ndim, const int64_t* cards_shape,
                       double* out, int64_t out_cap) {
    return guarded([&] {
        if (out_cap < n_samples) return 2;
        auto o = py::array_t<double>::borrow(out, shape_t{out_cap}, true);
        auto a = in_arr<uint8_t>(arr, arr_ndim, arr_shape);
        auto v = in_arr<uint8_t>(vec, vec_ndim, vec_shape);
        auto c = in_arr<uint32_t>(cards, cards_ndim, cards_shape);
        if (use_u64) {
            _calc_arr_vec_jt<uint64_t>(a, v, n_samples, n_features,
                                       vec_popcount, c, o);
        } else {
            _calc_arr_vec_jt<uint8_t>(a, v, n_samples, n_features, vec_popcount,
                                      c, o);
        }
        return 0;
    });
}

// jt_sim_packed_precalc_cardinalities(arr, vec, cardinalities)  [not bound]
int bb_jt_sim_packed_precalc_cardinalities(
    const uint8_t* arr, int64_t arr_ndim, const int64_t* arr_shape,
    const uint8_t* vec, int64_t vec_ndim, const int64_t* vec_shape,
    const uint32_t* cards, int64_t cards_ndim, const int64_t* cards_shape,
    double* out, int64_t out_cap, int64_t* out_ndim, int64_t* out_shape) {
    return guarded([&] {
        auto r = jt_sim_packed_precalc_cardinalities(
            in_arr<uint8_t>(arr, arr_ndim, arr_shape),
            in_arr<uint8_t>(vec, vec_ndim, vec_shape),
            in_arr<uint32_t>(cards, cards_ndim, cards_shape));
        return put(r, out, out_cap, out_ndim, out_shape);
    });
}

// _jt_sim_arr_vec_packed(arr, vec)
int bb_jt_sim_arr_vec_packed(const uint8_t* arr, int64_t arr_ndim,
                             const int64_t* arr_shape, const uint8_t* vec,
                             int64_t vec_ndim, const int64_t* vec_shape,
                             double* out, int64_t out_cap, int64_t* out_ndim,
                             int64_t* out_shape) {
    return guarded([&] {
        auto r = _jt_sim_arr_vec_packed(
            in_arr<uint8_t>(arr, arr_ndim, arr_shape),
            in_arr<uint8_t>(vec, vec_ndim, vec_shape));
        return put(r, out, out_cap, out_ndim, out_shape);
    });
}

// jt_most_dissimilar_packed(fps_packed, n_features_opt)
//   -> (fp1_idx, fp2_idx, sims_fp1[n], sims_fp2[n])
// Both sims outputs share out_cap; out_len receives the length of each.
int bb_jt_most_dissimilar_packed(const uint8_t* a, int64_t ndim,
                                 const int64_t* shape, int has_nf, int64_t nf,
                                 int64_t* fp1_idx, int64_t* fp2_idx,
                                 double* sims_fp1, double* sims_fp2,
                                 int64_t out_cap, int64_t* out_len) {
    return guarded([&] {
        py::tuple t = jt_most_dissimilar_packed(
            in_arr<uint8_t, CU8::flags>(a, ndim, shape), opt_nf(has_nf, nf));
        if (t.size() != 4) throw std::logic_error("shim: expected a 4-tuple");
        *fp1_idx = t[0].cast<py::ssize_t>();
        *fp2_idx = t[1].cast<py::ssize_t>();
        auto s1 = t[2].cast<py::array_t<double>>();
        auto s2 = t[3].cast<py::array_t<double>>();
        int64_t nd = 0, sh[2] = {0, 0};
        int rc1 = put(s1, sims_fp1, out_cap, &nd, sh);
        if (out_len) *out_len = sh[0];
        int rc2 = put(s2, sims_fp2, out_cap, &nd, sh);
        return rc1 ? rc1 : rc2;
    });
}

}  // extern "C"
