// STAND-IN for <pybind11/stl.h>  (NOT the real pybind11)
// The real header provides type casters for std::vector / std::optional / ...
// (used by similarity.cpp only for the std::optional<py::ssize_t> arguments).
// There is no Python boundary in the stand-in, so nothing is needed beyond the
// standard headers themselves.
#pragma once
#include <optional>
#include <vector>

#include "pybind11.h"
